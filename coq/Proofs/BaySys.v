(* System-level refinement: for the wiring built from a trace's static description, the mechanical
   event step (handler writes + bay_propagate) and the semantic step (emission rule) agree. *)
From Coq Require Import ZArith List Bool Lia PeanoNat Permutation.
From OV Require Import Emu.EmuCoreDefs Emu.BayDefs Proofs.EmitProofs Proofs.EmuCoreProofs Proofs.EmuCoreWf Proofs.ThreadCpuProofs
  Proofs.BayBasics Proofs.BayMux Proofs.BayProofs Proofs.BayPropagate Proofs.BayEmit Proofs.BayWire Proofs.BayWrites Proofs.BaySem.
Import ListNotations.
Local Open Scope nat_scope.

Definition l2c (l : lsys) : lch := match l with LTh t w => CTh t w | LCpu c w => CCpu c w end.

Definition raw_ok (sp : chanspec) (r : raw) (ch : chan) : Prop :=
  if cs_stack sp then c_stk ch = map Some (r_stk r) else c_val ch = r_val r.

(* what each mux selects, semantically *)
Definition sem_sel (sx : static) (st : state) (lm : lmx) : option nat :=
  match lm with
  | MTh t k => if mode_ok (cs_thtrack (spec_of sx k)) (t_state (thr st t)) then Some 0 else None
  | MCpu c k => th_running st c
  end.

Section Sys.
  Variable sx : static.
  Hypothesis Tpos : 0 < length (s_threads sx).
  Let T := length (s_threads sx).
  Let C := length (s_cpus sx).
  Let K := length (s_chans sx).

  Lemma lid_cid l : lid sx l = cid sx (l2c l).
  Proof. destruct l; reflexivity. Qed.
  Lemma lvalid_cvalid l : lvalid sx l <-> cvalid sx (l2c l).
  Proof. destruct l; cbn; tauto. Qed.

  (* ---------------------------------------------------------------- the simulation relation *)

  Record Wired (st : state) (b : bay) : Prop := {
    w_skel : skel b = skel (wire sx);
    w_len : length (b_dcbs b) = length (b_dcbs (wire sx));
    w_cbs : Cbs b;
    w_dirty : b_dirty b = [];
    w_bnd : Bnd sx st;
    w_clean : forall c ch, chan_at b c = Some ch -> c_dirty ch = false /\ c_last ch = chan_read ch;
    w_sys : forall l, lvalid sx l -> exists ch, chan_at b (lid sx l) = Some ch /\ c_val ch = exp sx st l;
    w_raw : forall t k, t < T -> k < K ->
            exists ch, chan_at b (ch_raw sx t k) = Some ch /\ raw_ok (spec_of sx k) (raw_of st t k) ch;
    w_en : forall m mx, imux b m mx -> exists oi, sel_res b mx = Ok oi /\ forall j, en_at mx j <-> oi = Some j
  }.

  (* ---------------------------------------------------------------- a bay with the wire's skeleton *)

  Section Skel.
    Variable b : bay.
    Hypothesis Hs : skel b = skel (wire sx).

    Lemma sk_len : length (b_chans b) = nchans sx.
    Proof. rewrite (skel_len_chans _ _ Hs). apply len_wire_chans. Qed.

    Lemma sk_chan l : cvalid sx l -> exists ch, chan_at b (cid sx l) = Some ch /\ cprops ch = cprops (wchan sx l).
    Proof.
      intros V. pose proof (cid_lt sx l V) as Hlt. rewrite <- sk_len in Hlt.
      destruct (nth_error (b_chans b) (cid sx l)) as [ch|] eqn:E; [|apply nth_error_None in E; lia].
      exists ch. split; [exact E|]. destruct (skel_chan _ _ _ _ Hs E) as (ch0 & E0 & Ep). rewrite (wire_chan sx l V) in E0.
      inversion E0; subst. symmetry. exact Ep.
    Qed.

    Lemma sk_ecbs l : cvalid sx l -> ecbs_of b (cid sx l) = wecbs sx l.
    Proof. intros V. unfold ecbs_of. rewrite (skel_ecbs _ _ Hs). apply (wire_ecbs sx l V). Qed.

    Lemma sk_imux m mx : imux b m mx -> exists lm, mvalid sx lm /\ mid sx lm = m /\ mstat mx = mstat (wmux sx lm) /\ mx_init (wmux sx lm) = true.
    Proof.
      intros Hi. destruct (skel_imux _ _ _ _ Hs Hi) as (mx0 & Hi0 & E). destruct (wire_imux sx m mx0 Hi0) as (lm & V & Em & ->).
      exists lm. split; [exact V|]. split; [exact Em|]. split; [symmetry; exact E|apply Hi0].
    Qed.

    Lemma sk_mux lm : mvalid sx lm -> exists mx, mux_at b (mid sx lm) = Some mx /\ mstat mx = mstat (wmux sx lm).
    Proof.
      intros V. assert (Hs' : skel (wire sx) = skel b) by (symmetry; exact Hs).
      destruct (skel_mux _ _ _ _ Hs' (wire_mux sx lm V)) as (mx & A & B). exists mx. split; [exact A|exact B].
    Qed.

    Lemma sk_out c : is_out b c <-> exists lm, mvalid sx lm /\ mx_init (wmux sx lm) = true /\ c = cid sx (mout lm).
    Proof.
      split.
      - intros (m & mx & Hi & Ho). destruct (sk_imux m mx Hi) as (lm & V & _ & E & Hin). exists lm. split; [exact V|]. split; [exact Hin|].
        destruct (mstat_fields _ _ E) as (_ & _ & E3 & _). rewrite <- Ho, E3. apply wmux_out.
      - intros (lm & V & Hin & ->). destruct (sk_mux lm V) as (mx & A & E). destruct (mstat_fields _ _ E) as (E1 & _ & E3 & _).
        exists (mid sx lm), mx. split; [split; [exact A|congruence]|]. rewrite E3. apply wmux_out.
    Qed.

    Lemma sk_not_out l : cvalid sx l -> (match l with CTrk _ _ | CCtrk _ _ => False | _ => True end) -> ~ is_out b (cid sx l).
    Proof.
      intros V Hk Ho. apply sk_out in Ho. destruct Ho as (lm & Vm & _ & E). apply cid_inj in E; [|exact V|apply mout_valid; exact Vm].
      subst l. destruct lm; exact Hk.
    Qed.
  End Skel.

  Lemma wired_shape st b : Wired st b -> Shape b.
  Proof. intros W. apply (Shape_skel (wire sx) b (w_skel _ _ W) (w_len _ _ W)). apply wire_shape. exact Tpos. Qed.

  (* ---------------------------------------------------------------- what the select functions return *)

  Lemma state_val_inj a b : state_val a = state_val b -> t_state a = t_state b.
  Proof. unfold state_val. destruct (t_state a), (t_state b); cbn; congruence. Qed.

  Lemma th_running_lt st c t : Bnd sx st -> th_running st c = Some t -> t < T.
  Proof.
    intros B H. unfold th_running in H. destruct (running_on st c) as [|x [|y r]] eqn:E; try discriminate. inversion H; subst x.
    assert (Hin : In t (running_on st c)) by (rewrite E; left; reflexivity).
    apply running_on_in in Hin. destruct Hin as [Hin _]. destruct (n_in _ _ B c t Hin) as [Hlt _]. unfold T. rewrite <- (n_len_t _ _ B). exact Hlt.
  Qed.

  Lemma sel_res_of b st lm mx :
    skel b = skel (wire sx) -> Bnd sx st ->
    (forall l, lvalid sx l -> exists ch, chan_at b (lid sx l) = Some ch /\ c_val ch = exp sx st l) ->
    mvalid sx lm -> mstat mx = mstat (wmux sx lm) -> mx_init (wmux sx lm) = true ->
    sel_res b mx = Ok (sem_sel sx st lm).
  Proof.
    intros Hs B Hsys V E Hin. destruct (mstat_fields _ _ E) as (_ & E2 & _ & E4 & _ & E6 & _).
    unfold sel_res, run_select_in. rewrite E2, E4, E6, wmux_sel.
    destruct lm as [t k|c k]; destruct V as [V1 V2]; cbn [msel].
    - destruct (Hsys (LTh t 2)) as (ch & Hc & Hv); [cbn; split; [exact V1|lia]|].
      change (lid sx (LTh t 2)) with (cid sx (CTh t 2)) in Hc. rewrite Hc.
      destruct (sk_chan b Hs (CTh t 2)) as (ch' & Hc' & Hp); [cbn; split; [exact V1|lia]|]. rewrite Hc in Hc'. inversion Hc'; subst ch'.
      unfold cprops in Hp. cbn in Hp. inversion Hp as [[P1 P2 P3 P4]].
      unfold chan_read. rewrite P1, Hv. cbn [exp wmux thread_mux mx_fun mx_ins length sem_sel].
      cbn in Hin. unfold tracked in Hin. apply negb_true_iff in Hin.
      unfold mode_ok. rewrite Hin. unfold state_val.
      destruct (cs_thtrack (spec_of sx k) =? TRACK_RUN)%Z; destruct (t_state (thr st t)); reflexivity.
    - destruct (Hsys (LCpu c 3)) as (ch & Hc & Hv); [cbn; split; [exact V1|lia]|].
      change (lid sx (LCpu c 3)) with (cid sx (CCpu c 3)) in Hc. rewrite Hc.
      destruct (sk_chan b Hs (CCpu c 3)) as (ch' & Hc' & Hp); [cbn; split; [exact V1|lia]|]. rewrite Hc in Hc'. inversion Hc'; subst ch'.
      unfold cprops in Hp. cbn in Hp. inversion Hp as [[P1 P2 P3 P4]].
      unfold chan_read. rewrite P1, Hv. cbn [exp wmux cpu_mux mx_fun mx_ins sem_sel]. rewrite map_length, seq_length.
      destruct (th_running st c) as [t|] eqn:Er; cbn [v_gid run_select]; [|reflexivity].
      pose proof (th_running_lt st c t B Er) as Hlt. fold T.
      destruct ((Z.of_nat t <? 0)%Z || (Z.of_nat T <=? Z.of_nat t)%Z) eqn:Eb.
      + apply orb_true_iff in Eb. destruct Eb as [Eb|Eb]; [apply Z.ltb_lt in Eb|apply Z.leb_le in Eb]; lia.
      + rewrite Nat2Z.id. reflexivity.
  Qed.

  (* ---------------------------------------------------------------- the state after the handler's writes *)

  Record Written (st st1 : state) (dirty : list (nat * nat)) (b b0 : bay) : Prop := {
    wr_muxes : b_muxes b0 = b_muxes b;
    wr_dcbs : b_dcbs b0 = b_dcbs b;
    wr_skel : skel b0 = skel b;
    wr_sys : forall l, lvalid sx l -> exists ch, chan_at b0 (lid sx l) = Some ch /\ c_val ch = exp sx st1 l /\
               c_last ch = exp sx st l /\ (c_dirty ch = true <-> exp sx st1 l <> exp sx st l);
    wr_raw : forall t k, t < T -> k < K -> exists ch, chan_at b0 (ch_raw sx t k) = Some ch /\
               raw_ok (spec_of sx k) (raw_of st1 t k) ch /\ c_last ch = raw_read (spec_of sx k) (raw_of st t k) /\
               (c_dirty ch = true <-> In (t, k) dirty);
    wr_trk : forall l, cvalid sx l -> (match l with CTrk _ _ | CCtrk _ _ => True | _ => False end) ->
               chan_at b0 (cid sx l) = chan_at b (cid sx l);
    wr_dirty : NoDup (b_dirty b0) /\ forall c, In c (b_dirty b0) <->
               ((exists l, lvalid sx l /\ c = lid sx l /\ exp sx st1 l <> exp sx st l) \/
                (exists t k, In (t, k) dirty /\ c = ch_raw sx t k))
  }.

  Lemma value_dec (a b : value) : {a = b} + {a <> b}.
  Proof. destruct (value_eqb a b) eqn:E; [left; apply value_eqb_eq; exact E|right; intros H; apply value_eqb_eq in H; congruence]. Qed.

  (* reading a raw channel *)
  Lemma raw_ok_read sp r ch : c_stack ch = cs_stack sp -> raw_ok sp r ch -> chan_read ch = raw_read sp r.
  Proof.
    intros Hs H. unfold chan_read, raw_read, raw_ok in *. rewrite Hs. destruct (cs_stack sp); [|exact H].
    rewrite H. destruct (r_stk r); reflexivity.
  Qed.

  Definition raw_chan (d : nat * nat) : nat := ch_raw sx (fst d) (snd d).

  Lemma wop_chan_raw st st1 d : wop_chan (raw_wop sx st st1 d) = raw_chan d.
  Proof. destruct d as [t k]. unfold raw_wop, raw_chan. cbn [fst snd]. destruct (cs_stack (spec_of sx k)); [destruct (Nat.ltb _ _)|]; reflexivity. Qed.

  Lemma writes_general st st1 b wl dirty :
    Wired st b ->
    NoDup wl -> (forall l, In l wl -> lvalid sx l) ->
    (forall l, In l wl -> strict l = true -> exp sx st1 l <> exp sx st l) ->
    (forall l, lvalid sx l -> ~ In l wl -> exp sx st1 l = exp sx st l) ->
    NoDup dirty ->
    (forall t k, In (t, k) dirty -> t < T /\ k < K /\ raw_trans (spec_of sx k) (raw_of st t k) (raw_of st1 t k)) ->
    (forall t k, ~ In (t, k) dirty -> raw_of st1 t k = raw_of st t k) ->
    exists b0, apply_writes b (map (wset sx st1) wl ++ map (raw_wop sx st st1) dirty) = Ok b0 /\ Written st st1 dirty b b0.
  Proof.
    intros W Hndw Hval Hstrict Hframe Hndd Htrans Hrframe.
    pose proof (w_skel _ _ W) as Hs.
    set (ws := map (wset sx st1) wl ++ map (raw_wop sx st st1) dirty).
    assert (Hchans : map wop_chan ws = map (fun l => cid sx (l2c l)) wl ++ map (fun d => cid sx (CRaw (fst d) (snd d))) dirty).
    { unfold ws. rewrite map_app, !map_map. f_equal.
      - apply map_ext. intros l. cbn. apply lid_cid.
      - apply map_ext. intros d. apply wop_chan_raw. }
    assert (Hdval : forall d, In d dirty -> cvalid sx (CRaw (fst d) (snd d))).
    { intros [t k] Hd. destruct (Htrans t k Hd) as (A & B & _). cbn. split; assumption. }
    assert (Hndc : NoDup (map wop_chan ws)).
    { rewrite Hchans. apply NoDup_app_disjoint'.
      - apply NoDup_map_inj_in; [exact Hndw|]. intros x y Hx Hy E.
        apply cid_inj in E; [|apply lvalid_cvalid; apply Hval; exact Hx|apply lvalid_cvalid; apply Hval; exact Hy].
        destruct x, y; inversion E; reflexivity.
      - apply NoDup_map_inj_in; [exact Hndd|]. intros x y Hx Hy E.
        apply cid_inj in E; [|apply Hdval; exact Hx|apply Hdval; exact Hy]. destruct x, y. cbn in E. inversion E. reflexivity.
      - intros c H1 H2. apply in_map_iff in H1. destruct H1 as (l & <- & Hl). apply in_map_iff in H2. destruct H2 as (d & E & Hd).
        apply cid_inj in E; [|apply Hdval; exact Hd|apply lvalid_cvalid; apply Hval; exact Hl]. destruct l; discriminate. }
    (* the effect of each system write *)
    assert (Hsysw : forall l, lvalid sx l -> exists ch, chan_at b (lid sx l) = Some ch /\ c_dirty ch = false /\ c_val ch = exp sx st l /\
                      c_last ch = exp sx st l /\ c_stack ch = false /\
                      (In l wl -> wop_effect ch (wset sx st1 l) =
                                  Some (if value_dec (exp sx st1 l) (exp sx st l) then ch else dirtied (with_val ch (exp sx st1 l))))).
    { intros l Hl. destruct (w_sys _ _ W l Hl) as (ch & Hc & Hv). destruct (w_clean _ _ W _ _ Hc) as [Hd Hla].
      destruct (sk_chan b Hs (l2c l)) as (ch' & Hc' & Hp); [apply lvalid_cvalid; exact Hl|].
      rewrite <- lid_cid, Hc in Hc'. inversion Hc'; subst ch'.
      assert (Hst : c_stack ch = false /\ c_allow ch = false /\ c_ign ch = negb (strict l)).
      { unfold cprops in Hp. destruct l as [t w|c w]; destruct Hl as [L1 L2].
        - destruct w as [|[|[|w]]]; try lia; cbn in Hp; injection Hp as P1 P2 P3 P4; rewrite P1, P3, P4; auto.
        - cbn in Hp. injection Hp as P1 P2 P3 P4. rewrite P1, P3, P4. destruct w as [|[|[|[|[|w]]]]]; try lia; auto. }
      destruct Hst as (S1 & S2 & S3).
      assert (Hrd : chan_read ch = c_val ch) by (unfold chan_read; rewrite S1; reflexivity).
      exists ch. split; [exact Hc|]. split; [exact Hd|]. split; [exact Hv|]. split; [rewrite Hla, Hrd; exact Hv|]. split; [exact S1|].
      intros Hin. unfold wset. cbn [wop_effect]. rewrite S1. unfold dup_check. rewrite S2. cbn [negb andb].
      rewrite Hla, Hrd, Hv. destruct (value_dec (exp sx st1 l) (exp sx st l)) as [E|E].
      - rewrite E, value_eqb_refl. rewrite S3. destruct (strict l) eqn:Es; [exfalso; apply (Hstrict l Hin Es E)|reflexivity].
      - destruct (value_eqb (exp sx st l) (exp sx st1 l)) eqn:Ev; [apply value_eqb_eq in Ev; congruence|reflexivity]. }
    (* the effect of each raw write *)
    assert (Hraww : forall t k, t < T -> k < K -> exists ch, chan_at b (ch_raw sx t k) = Some ch /\ c_dirty ch = false /\
                      raw_ok (spec_of sx k) (raw_of st t k) ch /\ c_last ch = raw_read (spec_of sx k) (raw_of st t k) /\
                      c_stack ch = cs_stack (spec_of sx k) /\
                      (In (t, k) dirty -> exists ch', wop_effect ch (raw_wop sx st st1 (t, k)) = Some ch' /\ c_dirty ch' = true /\
                                                     c_last ch' = c_last ch /\ raw_ok (spec_of sx k) (raw_of st1 t k) ch')).
    { intros t k Ht Hk. destruct (w_raw _ _ W t k Ht Hk) as (ch & Hc & Hok). destruct (w_clean _ _ W _ _ Hc) as [Hd Hla].
      destruct (sk_chan b Hs (CRaw t k)) as (ch' & Hc' & Hp); [cbn; split; assumption|].
      change (cid sx (CRaw t k)) with (ch_raw sx t k) in Hc'. rewrite Hc in Hc'. inversion Hc'; subst ch'.
      unfold cprops in Hp. cbn in Hp. injection Hp as P1 P2 P3 P4.
      pose proof (raw_ok_read _ _ _ P1 Hok) as Hrd.
      exists ch. split; [exact Hc|]. split; [exact Hd|]. split; [exact Hok|]. split; [rewrite Hla; exact Hrd|]. split; [exact P1|].
      intros Hin. destruct (Htrans t k Hin) as (_ & _ & Htr). unfold raw_trans in Htr. unfold raw_wop.
      set (sp := spec_of sx k) in *. set (r0 := raw_of st t k) in *. set (r1 := raw_of st1 t k) in *.
      unfold raw_ok in *. destruct (cs_stack sp) eqn:Es.
      - destruct Htr as (Hv & [(v & E1 & Hdup & Hfull)|(x & E0)]).
        + assert (Hl : Nat.ltb (length (r_stk r0)) (length (r_stk r1)) = true) by (apply Nat.ltb_lt; rewrite E1; cbn; lia).
          rewrite Hl, E1. cbn [wop_effect]. rewrite P1. cbn [negb]. unfold dup_check. rewrite P3, Hla, Hrd.
          assert (Hdc : negb (cs_dup sp) && value_eqb (raw_read sp r0) (Some v) = false).
          { destruct Hdup as [Hdu|Hdu]; [rewrite Hdu; reflexivity|]. apply andb_false_iff. right.
            destruct (value_eqb (raw_read sp r0) (Some v)) eqn:Ev; [apply value_eqb_eq in Ev; contradiction|reflexivity]. }
          rewrite Hdc. rewrite Hok, map_length.
          assert (Hleb : Nat.leb MAX_CHAN_STACK (length (r_stk r0)) = false) by (apply Nat.leb_gt; exact Hfull).
          rewrite Hleb. eexists. split; [reflexivity|]. split; [reflexivity|]. split; [cbn [c_last dirtied with_dirty with_stk with_val]; congruence|]. cbn. reflexivity.
        + assert (Hl : Nat.ltb (length (r_stk r0)) (length (r_stk r1)) = false) by (apply Nat.ltb_ge; rewrite E0; cbn; lia).
          rewrite Hl, E0. cbn [wop_effect]. rewrite P1. cbn [negb]. rewrite Hok, E0. cbn [map]. rewrite value_eqb_refl.
          eexists. split; [reflexivity|]. split; [reflexivity|]. split; [cbn [c_last dirtied with_dirty with_stk with_val]; congruence|]. cbn. reflexivity.
      - destruct Htr as (Hstk & Hdup). cbn [wop_effect]. rewrite P1. unfold dup_check. rewrite P3, Hla, Hrd.
        assert (Hrd' : chan_read ch = r_val r0) by (rewrite Hrd; unfold raw_read; rewrite Es; reflexivity).
        unfold raw_read. rewrite Es.
        assert (Hdc : negb (cs_dup sp) && value_eqb (r_val r0) (r_val r1) = false).
        { destruct Hdup as [Hdu|Hdu]; [rewrite Hdu; reflexivity|]. apply andb_false_iff. right.
          destruct (value_eqb (r_val r0) (r_val r1)) eqn:Ev; [apply value_eqb_eq in Ev; congruence|reflexivity]. }
        rewrite Hdc. eexists. split; [reflexivity|]. split; [reflexivity|]. split; [cbn [c_last dirtied with_dirty with_stk with_val]; congruence|]. cbn. reflexivity. }
    destruct (apply_writes_clean ws b Hndc) as (b0 & E & Em & Ed & Hoth & Hwr & D & ED & HndD & HD).
    { intros w Hw. unfold ws in Hw. apply in_app_or in Hw. destruct Hw as [Hw|Hw]; apply in_map_iff in Hw.
      - destruct Hw as (l & <- & Hl). destruct (Hsysw l (Hval l Hl)) as (ch & A1 & A2 & _ & _ & _ & A6).
        exists ch. eexists. split; [exact A1|]. split; [exact A2|apply A6; exact Hl].
      - destruct Hw as ([t k] & <- & Hd). destruct (Htrans t k Hd) as (Ht & Hk & _).
        destruct (Hraww t k Ht Hk) as (ch & A1 & A2 & _ & _ & _ & A6). destruct (A6 Hd) as (ch' & B1 & _).
        exists ch, ch'. rewrite wop_chan_raw. split; [exact A1|]. split; [exact A2|exact B1]. }
    exists b0. split; [exact E|].
    assert (Hinws_l : forall l, In l wl -> In (wset sx st1 l) ws) by (intros l Hl; unfold ws; apply in_or_app; left; apply in_map; exact Hl).
    assert (Hinws_d : forall d, In d dirty -> In (raw_wop sx st st1 d) ws) by (intros d Hd; unfold ws; apply in_or_app; right; apply in_map; exact Hd).
    assert (Hnotw_l : forall l, lvalid sx l -> ~ In l wl -> ~ In (lid sx l) (map wop_chan ws)).
    { intros l Hl Hn Hin. rewrite Hchans in Hin. apply in_app_or in Hin. destruct Hin as [Hin|Hin]; apply in_map_iff in Hin.
      - destruct Hin as (l' & E' & Hl'). rewrite lid_cid in E'. apply cid_inj in E'; [|apply lvalid_cvalid; apply Hval; exact Hl'|apply lvalid_cvalid; exact Hl].
        destruct l, l'; inversion E'; subst; contradiction.
      - destruct Hin as (d & E' & Hd). rewrite lid_cid in E'. apply cid_inj in E'; [|apply Hdval; exact Hd|apply lvalid_cvalid; exact Hl]. destruct l; discriminate. }
    assert (Hnotw_d : forall t k, t < T -> k < K -> ~ In (t, k) dirty -> ~ In (ch_raw sx t k) (map wop_chan ws)).
    { intros t k Ht Hk Hn Hin. rewrite Hchans in Hin. apply in_app_or in Hin. destruct Hin as [Hin|Hin]; apply in_map_iff in Hin.
      - destruct Hin as (l' & E' & Hl'). change (ch_raw sx t k) with (cid sx (CRaw t k)) in E'.
        apply cid_inj in E'; [|apply lvalid_cvalid; apply Hval; exact Hl'|cbn; split; assumption]. destruct l'; discriminate.
      - destruct Hin as ([t' k'] & E' & Hd). change (ch_raw sx t k) with (cid sx (CRaw t k)) in E'.
        apply cid_inj in E'; [|apply Hdval; exact Hd|cbn; split; assumption]. cbn in E'. inversion E'; subst. contradiction. }
    (* system channels after the writes *)
    assert (Hsys0 : forall l, lvalid sx l -> exists ch, chan_at b0 (lid sx l) = Some ch /\ c_val ch = exp sx st1 l /\
               c_last ch = exp sx st l /\ (c_dirty ch = true <-> exp sx st1 l <> exp sx st l)).
    { intros l Hl. destruct (Hsysw l Hl) as (ch & A1 & A2 & A3 & A4 & A5 & A6).
      destruct (in_dec lsys_eq_dec l wl) as [Hin|Hin].
      - pose proof (Hwr (wset sx st1 l) ch _ (Hinws_l l Hin) A1 (A6 Hin)) as Hc0. cbn [wop_chan wset] in Hc0.
        eexists. split; [exact Hc0|]. destruct (value_dec (exp sx st1 l) (exp sx st l)) as [Ev|Ev].
        + split; [congruence|]. split; [exact A4|]. rewrite A2. split; [discriminate|intros H; contradiction].
        + cbn. split; [reflexivity|]. split; [exact A4|]. split; [intros _; exact Ev|reflexivity].
      - exists ch. rewrite (Hoth _ (Hnotw_l l Hl Hin)). split; [exact A1|]. rewrite (Hframe l Hl Hin). split; [exact A3|]. split; [exact A4|].
        rewrite A2. split; [discriminate|intros H; exfalso; apply H; reflexivity]. }
    assert (Hraw0 : forall t k, t < T -> k < K -> exists ch, chan_at b0 (ch_raw sx t k) = Some ch /\
               raw_ok (spec_of sx k) (raw_of st1 t k) ch /\ c_last ch = raw_read (spec_of sx k) (raw_of st t k) /\
               (c_dirty ch = true <-> In (t, k) dirty)).
    { intros t k Ht Hk. destruct (Hraww t k Ht Hk) as (ch & A1 & A2 & A3 & A4 & A5 & A6).
      destruct (in_dec (fun x y : nat * nat => ltac:(decide equality; apply Nat.eq_dec)) (t, k) dirty) as [Hin|Hin].
      - destruct (A6 Hin) as (ch' & B1 & B2 & B3 & B4).
        pose proof (Hwr (raw_wop sx st st1 (t, k)) ch ch' (Hinws_d _ Hin)) as Hc0. rewrite wop_chan_raw in Hc0. specialize (Hc0 A1 B1).
        exists ch'. split; [exact Hc0|]. split; [exact B4|]. split; [rewrite B3; exact A4|]. split; [intros _; exact Hin|intros _; exact B2].
      - exists ch. rewrite (Hoth _ (Hnotw_d t k Ht Hk Hin)). split; [exact A1|]. rewrite (Hrframe t k Hin). split; [exact A3|]. split; [exact A4|].
        rewrite A2. split; [discriminate|intros H; contradiction]. }
    constructor.
    - exact Em.
    - exact Ed.
    - apply (skel_apply_writes _ _ _ E).
    - exact Hsys0.
    - exact Hraw0.
    - intros l V Hk. apply Hoth. rewrite Hchans. intros Hin. apply in_app_or in Hin. destruct Hin as [Hin|Hin]; apply in_map_iff in Hin.
      + destruct Hin as (l' & E' & Hl'). apply cid_inj in E'; [|apply lvalid_cvalid; apply Hval; exact Hl'|exact V]. subst l. destruct l'; exact Hk.
      + destruct Hin as (d & E' & Hd). apply cid_inj in E'; [|apply Hdval; exact Hd|exact V]. subst l. exact Hk.
    - rewrite ED, (w_dirty _ _ W). cbn [app]. split; [exact HndD|]. intros c. rewrite HD. split.
      + intros (w & ch & ch' & Hw & Ec & Hc & He & Hdy). unfold ws in Hw. apply in_app_or in Hw. destruct Hw as [Hw|Hw]; apply in_map_iff in Hw.
        * destruct Hw as (l & <- & Hl). left. exists l. split; [apply Hval; exact Hl|]. cbn [wop_chan wset] in Ec. split; [symmetry; exact Ec|].
          destruct (Hsysw l (Hval l Hl)) as (ch2 & A1 & A2 & _ & _ & _ & A6). rewrite <- Ec in Hc. cbn [wop_chan wset] in Hc. rewrite A1 in Hc. inversion Hc; subst ch2.
          rewrite (A6 Hl) in He. destruct (value_dec (exp sx st1 l) (exp sx st l)) as [Ev|Ev]; [|exact Ev]. inversion He; subst. congruence.
        * destruct Hw as ([t k] & <- & Hd). right. exists t, k. split; [exact Hd|]. rewrite wop_chan_raw in Ec. symmetry. exact Ec.
      + intros [(l & Hl & -> & Hne)|(t & k & Hd & ->)].
        * destruct (in_dec lsys_eq_dec l wl) as [Hin|Hin]; [|exfalso; apply Hne; apply (Hframe l Hl Hin)].
          destruct (Hsysw l Hl) as (ch & A1 & A2 & _ & _ & _ & A6).
          exists (wset sx st1 l), ch. eexists. split; [apply Hinws_l; exact Hin|]. split; [reflexivity|]. split; [exact A1|]. split; [apply A6; exact Hin|].
          destruct (value_dec (exp sx st1 l) (exp sx st l)) as [Ev|Ev]; [contradiction|reflexivity].
        * destruct (Htrans t k Hd) as (Ht & Hk & _). destruct (Hraww t k Ht Hk) as (ch & A1 & A2 & _ & _ & _ & A6). destruct (A6 Hd) as (ch' & B1 & B2 & _).
          exists (raw_wop sx st st1 (t, k)), ch, ch'. split; [apply Hinws_d; exact Hd|]. split; [apply wop_chan_raw|]. split; [exact A1|]. split; [exact B1|exact B2].
  Qed.

  (* ---------------------------------------------------------------- bay_propagate can start *)

  Lemma v_gid_inj a b : v_gid a = v_gid b -> a = b.
  Proof. destruct a, b; cbn; intros H; inversion H; try reflexivity. apply Nat2Z.inj in H1. congruence. Qed.

  Lemma sem_sel_same st st1 lm :
    exp sx st1 (match lm with MTh t _ => LTh t 2 | MCpu c _ => LCpu c 3 end) =
    exp sx st (match lm with MTh t _ => LTh t 2 | MCpu c _ => LCpu c 3 end) ->
    sem_sel sx st1 lm = sem_sel sx st lm.
  Proof.
    destruct lm as [t k|c k]; cbn [exp sem_sel]; intros H.
    - apply state_val_inj in H. rewrite H. reflexivity.
    - apply v_gid_inj in H. exact H.
  Qed.

  Definition dirty_valid (dirty : list (nat * nat)) : Prop := forall t k, In (t, k) dirty -> t < T /\ k < K.

  Section AfterWrites.
    Variables (st st1 : state) (dirty : list (nat * nat)) (b b0 : bay).
    Hypothesis W : Wired st b.
    Hypothesis R : Written st st1 dirty b b0.
    Hypothesis B1 : Bnd sx st1.
    Hypothesis Dv : dirty_valid dirty.

    Lemma aw_skel : skel b0 = skel (wire sx).
    Proof. rewrite (wr_skel _ _ _ _ _ R). apply (w_skel _ _ W). Qed.

    Lemma aw_sysval l : lvalid sx l -> exists ch, chan_at b0 (lid sx l) = Some ch /\ c_val ch = exp sx st1 l.
    Proof. intros Hl. destruct (wr_sys _ _ _ _ _ R l Hl) as (ch & A & B & _). exists ch. split; assumption. Qed.

    Lemma aw_sel lm mx : mvalid sx lm -> mstat mx = mstat (wmux sx lm) -> mx_init (wmux sx lm) = true ->
      sel_res b0 mx = Ok (sem_sel sx st1 lm).
    Proof. intros V E Hin. apply (sel_res_of b0 st1 lm mx aw_skel B1 aw_sysval V E Hin). Qed.

    (* membership in the dirty list, by kind of channel *)
    Lemma aw_dirty_sys l : lvalid sx l -> (In (lid sx l) (b_dirty b0) <-> exp sx st1 l <> exp sx st l).
    Proof.
      intros Hl. destruct (wr_dirty _ _ _ _ _ R) as [_ HD]. rewrite HD. split.
      - intros [(l' & Hl' & E & Hne)|(t & k & Hd & E)].
        + rewrite !lid_cid in E. apply cid_inj in E; [|apply lvalid_cvalid; exact Hl|apply lvalid_cvalid; exact Hl'].
          destruct l, l'; inversion E; subst; exact Hne.
        + rewrite lid_cid in E. change (ch_raw sx t k) with (cid sx (CRaw t k)) in E.
          apply cid_inj in E; [destruct l; discriminate|apply lvalid_cvalid; exact Hl|]. destruct (Dv t k Hd). cbn. split; assumption.
      - intros Hne. left. exists l. auto.
    Qed.

    Lemma aw_dirty_raw t k : t < T -> k < K -> (In (ch_raw sx t k) (b_dirty b0) <-> In (t, k) dirty).
    Proof.
      intros Ht Hk. destruct (wr_dirty _ _ _ _ _ R) as [_ HD]. rewrite HD. split.
      - intros [(l' & Hl' & E & Hne)|(t' & k' & Hd & E)].
        + rewrite lid_cid in E. change (ch_raw sx t k) with (cid sx (CRaw t k)) in E.
          apply cid_inj in E; [destruct l'; discriminate|cbn; split; assumption|apply lvalid_cvalid; exact Hl'].
        + change (ch_raw sx t k) with (cid sx (CRaw t k)) in E. change (ch_raw sx t' k') with (cid sx (CRaw t' k')) in E.
          apply cid_inj in E; [inversion E; subst; exact Hd|cbn; split; assumption|]. destruct (Dv t' k' Hd). cbn. split; assumption.
      - intros Hd. right. exists t, k. auto.
    Qed.

    Lemma aw_dirty_trk l : cvalid sx l -> (match l with CTrk _ _ | CCtrk _ _ => True | _ => False end) -> ~ In (cid sx l) (b_dirty b0).
    Proof.
      intros V Hk Hin. destruct (wr_dirty _ _ _ _ _ R) as [_ HD]. apply HD in Hin. destruct Hin as [(l' & Hl' & E & _)|(t & k & Hd & E)].
      - rewrite lid_cid in E. apply cid_inj in E; [|exact V|apply lvalid_cvalid; exact Hl']. subst l. destruct l'; exact Hk.
      - change (ch_raw sx t k) with (cid sx (CRaw t k)) in E. apply cid_inj in E; [subst l; exact Hk|exact V|]. destruct (Dv t k Hd). cbn. split; assumption.
    Qed.

    Lemma aw_trk_chan l : cvalid sx l -> (match l with CTrk _ _ | CCtrk _ _ => True | _ => False end) ->
      exists ch, chan_at b0 (cid sx l) = Some ch /\ chan_at b (cid sx l) = Some ch /\ c_dirty ch = false /\ c_last ch = chan_read ch.
    Proof.
      intros V Hk. destruct (sk_chan b (w_skel _ _ W) l V) as (ch & Hc & _). exists ch.
      rewrite (wr_trk _ _ _ _ _ R l V Hk). split; [exact Hc|]. split; [exact Hc|]. apply (w_clean _ _ W _ _ Hc).
    Qed.

    Theorem written_pre : Pre b0.
    Proof.
      pose proof aw_skel as Hs0.
      assert (Hlen0 : length (b_dcbs b0) = length (b_dcbs (wire sx))) by (rewrite (wr_dcbs _ _ _ _ _ R); apply (w_len _ _ W)).
      assert (S0 : Shape b0) by (apply (Shape_skel (wire sx) b0 Hs0 Hlen0); apply wire_shape; exact Tpos).
      constructor.
      - exact S0.
      - apply (Cbs_same b); [apply (wr_dcbs _ _ _ _ _ R)|apply (wr_muxes _ _ _ _ _ R)|apply (w_cbs _ _ W)].
      - intros m mx Hi. destruct (sk_imux b0 Hs0 m mx Hi) as (lm & V & _ & E & Hin).
        destruct (mstat_fields _ _ E) as (_ & _ & E3 & _). rewrite E3, wmux_out.
        assert (Vo : cvalid sx (mout lm)) by (apply mout_valid; exact V).
        assert (Hk : match mout lm with CTrk _ _ | CCtrk _ _ => True | _ => False end) by (destruct lm; exact I).
        destruct (aw_trk_chan _ Vo Hk) as (ch & A & _ & Cl & _). exists ch. split; [exact A|]. split; [exact Cl|apply (aw_dirty_trk _ Vo Hk)].
      - intros m mx Hi _. destruct (sk_imux b0 Hs0 m mx Hi) as (lm & V & _ & E & Hin). exists (sem_sel sx st1 lm). apply (aw_sel lm mx V E Hin).
      - apply (wr_dirty _ _ _ _ _ R).
      - intros c Hc. destruct (wr_dirty _ _ _ _ _ R) as [_ HD]. apply HD in Hc. rewrite (sk_len b0 Hs0).
        destruct Hc as [(l & Hl & -> & _)|(t & k & Hd & ->)].
        + rewrite lid_cid. apply lvalid_cvalid in Hl. split; [apply cid_lt; exact Hl|]. apply (sk_not_out b0 Hs0 _ Hl). destruct l; exact I.
        + destruct (Dv t k Hd) as [Ht Hk]. assert (V : cvalid sx (CRaw t k)) by (cbn; split; assumption).
          split; [apply (cid_lt sx _ V)|apply (sk_not_out b0 Hs0 _ V); exact I].
      - intros c ch Hc Hno.
        assert (Hlt : c < nchans sx) by (rewrite <- (sk_len b0 Hs0); apply (nth_error_Some_lt _ _ ch); exact Hc).
        destruct (cid_cover sx c Hlt) as (l & V & <-). destruct l as [t w|t k|t k|c0 w|c0 k].
        + destruct (wr_sys _ _ _ _ _ R (LTh t w) V) as (ch' & A1 & _ & _ & A4). change (lid sx (LTh t w)) with (cid sx (CTh t w)) in A1.
          rewrite Hc in A1. inversion A1; subst ch'. rewrite A4. symmetry. apply (aw_dirty_sys (LTh t w) V).
        + destruct V as [V1 V2]. destruct (wr_raw _ _ _ _ _ R t k V1 V2) as (ch' & A1 & _ & _ & A4). change (ch_raw sx t k) with (cid sx (CRaw t k)) in A1.
          rewrite Hc in A1. inversion A1; subst ch'. rewrite A4. symmetry. apply (aw_dirty_raw t k V1 V2).
        + destruct (aw_trk_chan (CTrk t k) V I) as (ch' & A1 & _ & A3 & _). rewrite Hc in A1. inversion A1; subst ch'. rewrite A3.
          split; [discriminate|]. intros Hin. exfalso. apply (aw_dirty_trk (CTrk t k) V I Hin).
        + destruct (wr_sys _ _ _ _ _ R (LCpu c0 w) V) as (ch' & A1 & _ & _ & A4). change (lid sx (LCpu c0 w)) with (cid sx (CCpu c0 w)) in A1.
          rewrite Hc in A1. inversion A1; subst ch'. rewrite A4. symmetry. apply (aw_dirty_sys (LCpu c0 w) V).
        + destruct (aw_trk_chan (CCtrk c0 k) V I) as (ch' & A1 & _ & A3 & _). rewrite Hc in A1. inversion A1; subst ch'. rewrite A3.
          split; [discriminate|]. intros Hin. exfalso. apply (aw_dirty_trk (CCtrk c0 k) V I Hin).
      - intros m mx Hi Hns. destruct (sk_imux b0 Hs0 m mx Hi) as (lm & V & Em & E & Hin).
        assert (Hib : imux b m mx).
        { destruct Hi as [A Bi]. split; [|exact Bi]. unfold mux_at in *. rewrite <- (wr_muxes _ _ _ _ _ R). exact A. }
        destruct (w_en _ _ W m mx Hib) as (oi & Hoi & Hen).
        assert (Hoib : sel_res b mx = Ok (sem_sel sx st lm)).
        { apply (sel_res_of b st lm mx (w_skel _ _ W) (w_bnd _ _ W) (w_sys _ _ W) V E Hin). }
        rewrite Hoi in Hoib. inversion Hoib; subst oi.
        exists (sem_sel sx st lm). split; [|exact Hen].
        rewrite (aw_sel lm mx V E Hin). f_equal. apply sem_sel_same.
        destruct (mstat_fields _ _ E) as (_ & E2 & _). rewrite E2, wmux_sel in Hns.
        set (ls := match lm with MTh t _ => LTh t 2 | MCpu c _ => LCpu c 3 end).
        assert (Vl : lvalid sx ls) by (destruct lm; destruct V as [V1 V2]; cbn; split; try assumption; lia).
        assert (Ec : cid sx (msel lm) = lid sx ls) by (destruct lm; reflexivity).
        rewrite Ec in Hns. destruct (value_dec (exp sx st1 ls) (exp sx st ls)) as [Ev|Ev]; [exact Ev|].
        exfalso. apply Hns. apply (aw_dirty_sys ls Vl). exact Ev.
    Qed.
  End AfterWrites.

  (* ---------------------------------------------------------------- slots and their channels *)

  Definition svalid (s : slot) : Prop :=
    match s with
    | STh t w => t < T /\ w < 3 | STr t k => t < T /\ k < K
    | SCpu c w => c < C /\ w < 3 | SCr c k => c < C /\ k < K
    end.

  Lemma in_slots_iff s : In s (slots sx) <-> svalid s.
  Proof.
    unfold slots. fold T C K. rewrite in_app_iff, !in_flat_map. split.
    - intros [(t & Ht & Hs)|(c & Hc & Hs)]; apply in_seq in Ht || apply in_seq in Hc.
      + apply in_app_or in Hs. destruct Hs as [[<-|[<-|[<-|[]]]]|Hs]; cbn; try (split; lia).
        apply in_map_iff in Hs. destruct Hs as (k & <- & Hk). apply in_seq in Hk. cbn. lia.
      + apply in_app_or in Hs. destruct Hs as [[<-|[<-|[<-|[]]]]|Hs]; cbn; try (split; lia).
        apply in_map_iff in Hs. destruct Hs as (k & <- & Hk). apply in_seq in Hk. cbn. lia.
    - destruct s as [t w|t k|c w|c k]; unfold svalid; intros [H1 H2].
      + left. exists t. split; [apply in_seq; lia|]. apply in_or_app. left. destruct w as [|[|[|w]]]; cbn; auto. lia.
      + left. exists t. split; [apply in_seq; lia|]. apply in_or_app. right. apply in_map. apply in_seq. lia.
      + right. exists c. split; [apply in_seq; lia|]. apply in_or_app. left. destruct w as [|[|[|w]]]; cbn; auto. lia.
      + right. exists c. split; [apply in_seq; lia|]. apply in_or_app. right. apply in_map. apply in_seq. lia.
  Qed.

  Definition slot_chan (s : slot) : lch :=
    match s with
    | STh t w => CTh t w
    | STr t k => if tracked (spec_of sx k) then CTrk t k else CRaw t k
    | SCpu c 0 => CCpu c 2
    | SCpu c 1 => CCpu c 1
    | SCpu c _ => CCpu c 0
    | SCr c k => CCtrk c k
    end.

  Lemma slot_chan_valid s : svalid s -> cvalid sx (slot_chan s).
  Proof.
    destruct s as [t w|t k|c w|c k]; cbn; intros [H1 H2]; try (split; assumption).
    - destruct (tracked (spec_of sx k)); cbn; split; assumption.
    - destruct w as [|[|w]]; cbn; split; try assumption; lia.
  Qed.

  Lemma slot_chan_ecbs s : svalid s -> wecbs sx (slot_chan s) = [ecb_of sx s].
  Proof.
    destruct s as [t w|t k|c w|c k]; cbn; intros [H1 H2].
    - destruct w as [|[|[|w]]]; try lia; reflexivity.
    - destruct (tracked (spec_of sx k)) eqn:E; cbn; rewrite E; reflexivity.
    - destruct w as [|[|[|w]]]; try lia; reflexivity.
    - reflexivity.
  Qed.

  (* every emit callback of the wiring belongs to a slot *)
  Lemma ecbs_slot l e : cvalid sx l -> In e (wecbs sx l) -> exists s, svalid s /\ slot_chan s = l /\ e = ecb_of sx s.
  Proof.
    intros V H. destruct l as [t w|t k|t k|c w|c k]; destruct V as [V1 V2]; cbn [wecbs] in H.
    - destruct (Nat.ltb w 3) eqn:E; [|destruct H]. destruct H as [<-|[]]. exists (STh t w). cbn. auto.
    - destruct (tracked (spec_of sx k)) eqn:E; [destruct H|]. destruct H as [<-|[]]. exists (STr t k). cbn. rewrite E. auto.
    - destruct (tracked (spec_of sx k)) eqn:E; [|destruct H]. destruct H as [<-|[]]. exists (STr t k). cbn. rewrite E. auto.
    - destruct w as [|[|[|w]]]; try (destruct H; fail); destruct H as [<-|[]].
      + exists (SCpu c 2). cbn. split; [split; [exact V1|lia]|auto].
      + exists (SCpu c 1). cbn. split; [split; [exact V1|lia]|auto].
      + exists (SCpu c 0). cbn. split; [split; [exact V1|lia]|auto].
    - destruct H as [<-|[]]. exists (SCr c k). cbn. auto.
  Qed.

  Lemma slot_chan_inj s s' : svalid s -> svalid s' -> slot_chan s = slot_chan s' -> s = s'.
  Proof.
    intros V V' E. destruct s as [t w|t k|c w|c k], s' as [t' w'|t' k'|c' w'|c' k']; cbn in E;
      repeat match type of E with context [tracked ?x] => destruct (tracked x) end;
      repeat match type of E with context [match ?w with 0 => _ | S _ => _ end] => destruct w as [|[|?]] end;
      try discriminate; try (inversion E; reflexivity).
    destruct V as [_ V2], V' as [_ V2']. inversion E; subst. f_equal. lia.
  Qed.

  Lemma is_dirty_in dirty t k : is_dirty dirty t k = true <-> In (t, k) dirty.
  Proof.
    unfold is_dirty. rewrite existsb_exists. split.
    - intros ([t' k'] & Hin & E). apply andb_true_iff in E. destruct E as [E1 E2]. apply Nat.eqb_eq in E1, E2. subst. exact Hin.
    - intros H. exists (t, k). split; [exact H|]. rewrite !Nat.eqb_refl. reflexivity.
  Qed.

  Lemma changed_iff a b : changed a b = true <-> a <> b.
  Proof.
    unfold changed. destruct (value_eqb a b) eqn:E; cbn.
    - apply value_eqb_eq in E. split; [discriminate|intros H; contradiction].
    - split; [intros _ H; apply value_eqb_eq in H; congruence|reflexivity].
  Qed.

  Lemma exp_set_last st l x : exp sx (set_last st l) x = exp sx st x.
  Proof. reflexivity. Qed.

  Lemma flushed_clean x : c_dirty (flushed x) = false /\ c_last (flushed x) = chan_read (flushed x).
  Proof. split; reflexivity. Qed.

  Section AfterPropagate.
    Variables (st st1 : state) (dirty : list (nat * nat)) (b b0 b1 b2 : bay).
    Hypothesis W : Wired st b.
    Hypothesis R : Written st st1 dirty b b0.
    Hypothesis B1 : Bnd sx st1.
    Hypothesis Dv : dirty_valid dirty.
    Hypothesis Rframe : forall t k, ~ In (t, k) dirty -> raw_of st1 t k = raw_of st t k.
    Hypothesis Known : forall t, t_state (thr st1 t) = Unknown -> t_state (thr st t) = Unknown.
    Hypothesis M : Mid b0 b1.
    Hypothesis Po : Post b0 b2.

    Let Hs0 : skel b0 = skel (wire sx) := aw_skel st st1 dirty b b0 W R.

    (* the mux of a logical mux in b0 *)
    Lemma b0_mux lm : mvalid sx lm -> mx_init (wmux sx lm) = true ->
      exists mx, imux b0 (mid sx lm) mx /\ mstat mx = mstat (wmux sx lm) /\ sel_res b0 mx = Ok (sem_sel sx st1 lm) /\
                 mx_out mx = cid sx (mout lm) /\
                 exists och, chan_at b0 (mx_out mx) = Some och /\ c_dirty och = false /\ c_last och = chan_read och /\ c_stack och = false.
    Proof.
      intros V Hin. destruct (sk_mux b0 Hs0 lm V) as (mx & A & E). destruct (mstat_fields _ _ E) as (E1 & _ & E3 & _).
      exists mx. split; [split; [exact A|congruence]|]. split; [exact E|].
      split; [apply (aw_sel st st1 dirty b b0 W R B1 lm mx V E Hin)|]. rewrite E3, wmux_out. split; [reflexivity|].
      assert (Vo : cvalid sx (mout lm)) by (apply mout_valid; exact V).
      assert (Hk : match mout lm with CTrk _ _ | CCtrk _ _ => True | _ => False end) by (destruct lm; exact I).
      destruct (aw_trk_chan st st1 dirty b b0 W R _ Vo Hk) as (och & A1 & A2 & A3 & A4). exists och. split; [exact A1|]. split; [exact A3|]. split; [exact A4|].
      destruct (sk_chan b (w_skel _ _ W) _ Vo) as (och' & Hc' & Hp). rewrite A2 in Hc'. inversion Hc'; subst och'.
      unfold cprops in Hp. destruct lm; cbn in Hp; injection Hp as P1 _ _ _; exact P1.
    Qed.

    Theorem post_wired last' : Wired (set_last st1 last') b2.
    Proof.
      assert (Hs2 : skel b2 = skel (wire sx)) by (rewrite (p_skel _ _ Po); exact Hs0).
      assert (Hsys2 : forall l, lvalid sx l -> exists ch, chan_at b2 (lid sx l) = Some ch /\ c_val ch = exp sx st1 l /\ c_dirty ch = false /\ c_last ch = chan_read ch).
      { intros l Hl. destruct (wr_sys _ _ _ _ _ R l Hl) as (ch0 & A1 & A2 & A3 & A4).
        assert (Hno : ~ is_out b0 (lid sx l)).
        { rewrite lid_cid. apply (sk_not_out b0 Hs0); [apply lvalid_cvalid; exact Hl|destruct l; exact I]. }
        pose proof (p_lvl0 _ _ Po _ ch0 Hno A1) as H2.
        destruct (sk_chan b0 Hs0 (l2c l)) as (ch' & Hc' & Hp); [apply lvalid_cvalid; exact Hl|]. rewrite <- lid_cid, A1 in Hc'. inversion Hc'; subst ch'.
        assert (S1 : c_stack ch0 = false) by (unfold cprops in Hp; destruct l as [t [|[|w]]|c w]; cbn in Hp; injection Hp as P1 _ _ _; exact P1).
        eexists. split; [exact H2|]. destruct (c_dirty ch0) eqn:Ed.
        - split; [exact A2|]. apply flushed_clean.
        - split; [exact A2|]. split; [exact Ed|]. rewrite A3. unfold chan_read. rewrite S1, A2.
          destruct (value_dec (exp sx st1 l) (exp sx st l)) as [Ev|Ev]; [symmetry; exact Ev|]. apply A4 in Ev. congruence. }
      assert (Hraw2 : forall t k, t < T -> k < K -> exists ch, chan_at b2 (ch_raw sx t k) = Some ch /\
                 raw_ok (spec_of sx k) (raw_of st1 t k) ch /\ c_dirty ch = false /\ c_last ch = chan_read ch).
      { intros t k Ht Hk. destruct (wr_raw _ _ _ _ _ R t k Ht Hk) as (ch0 & A1 & A2 & A3 & A4).
        assert (V : cvalid sx (CRaw t k)) by (cbn; split; assumption).
        assert (Hno : ~ is_out b0 (ch_raw sx t k)) by (apply (sk_not_out b0 Hs0 (CRaw t k) V); exact I).
        pose proof (p_lvl0 _ _ Po _ ch0 Hno A1) as H2.
        destruct (sk_chan b0 Hs0 (CRaw t k) V) as (ch' & Hc' & Hp). change (cid sx (CRaw t k)) with (ch_raw sx t k) in Hc'. rewrite A1 in Hc'. inversion Hc'; subst ch'.
        assert (S1 : c_stack ch0 = cs_stack (spec_of sx k)) by (unfold cprops in Hp; cbn in Hp; injection Hp as P1 _ _ _; exact P1).
        eexists. split; [exact H2|]. destruct (c_dirty ch0) eqn:Ed.
        - split; [exact A2|]. apply flushed_clean.
        - split; [exact A2|]. split; [exact Ed|]. rewrite A3, (raw_ok_read _ _ _ S1 A2).
          rewrite Rframe; [reflexivity|]. intros Hin. apply A4 in Hin. congruence. }
      constructor.
      - exact Hs2.
      - rewrite (p_len _ _ Po), (wr_dcbs _ _ _ _ _ R). apply (w_len _ _ W).
      - apply (p_cbs _ _ Po).
      - apply (p_dirty _ _ Po).
      - constructor; [exact (n_len_t _ _ B1)|exact (n_len_c _ _ B1)|exact (n_len_u _ _ B1)|exact (n_in _ _ B1)|exact (n_cpu _ _ B1)|exact (n_nodup _ _ B1)|exact (n_raw _ _ B1)].
      - intros c ch Hc.
        assert (Hlt : c < nchans sx) by (rewrite <- (sk_len b2 Hs2); apply (nth_error_Some_lt _ _ ch); exact Hc).
        destruct (cid_cover sx c Hlt) as (l & V & <-).
        assert (Hout : forall lm, mvalid sx lm -> mx_init (wmux sx lm) = true -> l = mout lm -> c_dirty ch = false /\ c_last ch = chan_read ch).
        { intros lm Vm Hin ->. destruct (b0_mux lm Vm Hin) as (mx & Hi & E & Hsel & Eo & och & Ho & Cl & La & _).
          pose proof (p_out _ _ Po _ mx _ och Hi Hsel Ho) as H2. rewrite Eo, Hc in H2. inversion H2.
          destruct (mux_written_dec b0 mx (sem_sel sx st1 lm)); [apply flushed_clean|split; assumption]. }
        destruct l as [t w|t k|t k|c0 w|c0 k].
        + destruct (Hsys2 (LTh t w) V) as (ch' & A1 & _ & A3 & A4). change (lid sx (LTh t w)) with (cid sx (CTh t w)) in A1. rewrite Hc in A1. inversion A1; subst. auto.
        + destruct V as [V1 V2]. destruct (Hraw2 t k V1 V2) as (ch' & A1 & _ & A3 & A4). change (ch_raw sx t k) with (cid sx (CRaw t k)) in A1. rewrite Hc in A1. inversion A1; subst. auto.
        + destruct (tracked (spec_of sx k)) eqn:Et.
          * apply (Hout (MTh t k)); [exact V|exact Et|reflexivity].
          * destruct (aw_trk_chan st st1 dirty b b0 W R (CTrk t k) V I) as (ch0 & A1 & _ & A3 & A4).
            assert (Hno : ~ is_out b0 (cid sx (CTrk t k))).
            { intros Ho. apply (sk_out b0 Hs0) in Ho. destruct Ho as (lm & Vm & Hin & E). apply cid_inj in E; [|exact V|apply mout_valid; exact Vm].
              destruct lm; inversion E; subst. cbn in Hin. congruence. }
            pose proof (p_lvl0 _ _ Po _ ch0 Hno A1) as H2. rewrite A3, Hc in H2. inversion H2; subst. auto.
        + destruct (Hsys2 (LCpu c0 w) V) as (ch' & A1 & _ & A3 & A4). change (lid sx (LCpu c0 w)) with (cid sx (CCpu c0 w)) in A1. rewrite Hc in A1. inversion A1; subst. auto.
        + apply (Hout (MCpu c0 k)); [exact V|reflexivity|reflexivity].
      - intros l Hl. destruct (Hsys2 l Hl) as (ch & A1 & A2 & _). exists ch. split; [exact A1|]. rewrite exp_set_last. exact A2.
      - intros t k Ht Hk. destruct (Hraw2 t k Ht Hk) as (ch & A1 & A2 & _). exists ch. split; [exact A1|exact A2].
      - intros m mx2 Hi2. destruct (sk_imux b2 Hs2 m mx2 Hi2) as (lm & V & Em & E & Hin). subst m.
        destruct (b0_mux lm V Hin) as (mx & Hi & E0 & Hsel & _).
        destruct (p_mux _ _ Po _ mx _ Hi Hsel) as (mx2' & Hi2' & _ & Hen & _).
        pose proof (imux_fun _ _ _ _ Hi2 Hi2'). subst mx2'.
        exists (sem_sel sx st1 lm). split; [|exact Hen].
        apply (sel_res_of b2 st1 lm mx2 Hs2 B1); [|exact V|exact E|exact Hin].
        intros l Hl. destruct (Hsys2 l Hl) as (ch & A1 & A2 & _). exists ch. split; assumption.
    Qed.

    (* ---- dirty list of b1 *)
    Lemma lvl0_dirty1 c : ~ is_out b0 c -> (In c (b_dirty b1) <-> In c (b_dirty b0)).
    Proof.
      intros Hno. destruct (m_dirty _ _ M) as (O & EO & _ & HO). rewrite EO, in_app_iff. split; [|auto].
      intros [H|H]; [exact H|]. exfalso. apply (HO c) in H. destruct H as (m & mx & oi & Hi & Ho & _). apply Hno. exists m, mx. split; assumption.
    Qed.

    Lemma out_dirty1 lm mx : mvalid sx lm -> imux b0 (mid sx lm) mx -> mstat mx = mstat (wmux sx lm) -> mx_init (wmux sx lm) = true ->
      (In (cid sx (mout lm)) (b_dirty b1) <-> mux_written b0 mx (sem_sel sx st1 lm)).
    Proof.
      intros V Hi E Hin. destruct (m_dirty _ _ M) as (O & EO & _ & HO).
      assert (Eo : mx_out mx = cid sx (mout lm)) by (destruct (mstat_fields _ _ E) as (_ & _ & E3 & _); rewrite E3; apply wmux_out).
      pose proof (aw_sel st st1 dirty b b0 W R B1 lm mx V E Hin) as Hsel.
      assert (S0 : Shape b0).
      { apply (Shape_skel (wire sx) b0 Hs0); [rewrite (wr_dcbs _ _ _ _ _ R); apply (w_len _ _ W)|apply wire_shape; exact Tpos]. }
      rewrite EO, in_app_iff. split.
      - intros [H|H].
        + exfalso. apply (aw_dirty_trk st st1 dirty b b0 R Dv (mout lm)); [apply mout_valid; exact V|destruct lm; exact I|exact H].
        + apply (HO _) in H. destruct H as (m' & mx' & oi' & Hi' & Ho' & Hoi' & Wr). rewrite <- Eo in Ho'.
          assert (m' = mid sx lm) by (apply (sh_out_inj _ S0 m' (mid sx lm) mx' mx Hi' Hi Ho')). subst m'.
          pose proof (imux_fun _ _ _ _ Hi Hi'). subst mx'. rewrite Hsel in Hoi'. inversion Hoi'; subst oi'. exact Wr.
      - intros Wr. right. apply (HO _). exists (mid sx lm), mx, (sem_sel sx st1 lm). auto.
    Qed.

    Lemma tstate_neq_iff t : exp sx st1 (LTh t 2) <> exp sx st (LTh t 2) <->
      negb (tst_eqb (thread_state_of st t) (thread_state_of st1 t)) = true.
    Proof.
      cbn [exp]. unfold thread_state_of. fold (thr st t). fold (thr st1 t). unfold state_val, tst_eqb.
      destruct (t_state (thr st t)), (t_state (thr st1 t)); cbn; split; intros H; try reflexivity; try discriminate; try congruence; exfalso; apply H; reflexivity.
    Qed.

    Lemma thrun_neq_iff c : exp sx st1 (LCpu c 3) <> exp sx st (LCpu c 3) <->
      negb (opt_nat_eqb (th_running st c) (th_running st1 c)) = true.
    Proof.
      cbn [exp]. split.
      - intros H. destruct (opt_nat_eqb (th_running st c) (th_running st1 c)) eqn:E; [|reflexivity].
        apply opt_nat_eqb_eq in E. rewrite E in H. exfalso. apply H. reflexivity.
      - intros H E. apply v_gid_inj in E. rewrite E in H.
        assert (X : opt_nat_eqb (th_running st c) (th_running st c) = true) by (destruct (th_running st c); cbn; [apply Nat.eqb_refl|reflexivity]).
        rewrite X in H. discriminate.
    Qed.

    (* the heart: a slot's channel is dirty after the dirty phase iff the emission rule requests the slot,
       and then it holds the view of the new state *)
    Theorem slot_requested s : svalid s ->
      (In (cid sx (slot_chan s)) (b_dirty b1) <-> requested sx st st1 dirty s = true) /\
      (requested sx st st1 dirty s = true ->
       exists ch, chan_at b1 (cid sx (slot_chan s)) = Some ch /\ chan_read ch = view sx st1 s).
    Proof.
      intros V.
      (* system channels *)
      assert (Hsysslot : forall l, lvalid sx l -> slot_chan s = l2c l ->
                (requested sx st st1 dirty s = true <-> exp sx st1 l <> exp sx st l) ->
                (exp sx st1 l <> exp sx st l -> exp sx st1 l = view sx st1 s) ->
                (In (cid sx (slot_chan s)) (b_dirty b1) <-> requested sx st st1 dirty s = true) /\
                (requested sx st st1 dirty s = true -> exists ch, chan_at b1 (cid sx (slot_chan s)) = Some ch /\ chan_read ch = view sx st1 s)).
      { intros l Hl El Hreq Hval. rewrite El, <- lid_cid.
        assert (Hno : ~ is_out b0 (lid sx l)).
        { rewrite lid_cid. apply (sk_not_out b0 Hs0); [apply lvalid_cvalid; exact Hl|destruct l; exact I]. }
        split.
        - rewrite (lvl0_dirty1 _ Hno), (aw_dirty_sys st st1 dirty b b0 R Dv l Hl). symmetry. exact Hreq.
        - intros Hr. destruct (wr_sys _ _ _ _ _ R l Hl) as (ch & A1 & A2 & _). exists ch. rewrite (m_lvl0 _ _ M _ Hno). split; [exact A1|].
          destruct (sk_chan b0 Hs0 (l2c l)) as (ch' & Hc' & Hp); [apply lvalid_cvalid; exact Hl|]. rewrite <- lid_cid, A1 in Hc'. inversion Hc'; subst ch'.
          assert (S1 : c_stack ch = false) by (unfold cprops in Hp; destruct l as [t [|[|w]]|c w]; cbn in Hp; injection Hp as P1 _ _ _; exact P1).
          unfold chan_read. rewrite S1, A2. apply Hval. apply Hreq. exact Hr. }
      destruct s as [t w|t k|c w|c k]; destruct V as [V1 V2].
      - (* thread system channel *)
        apply (Hsysslot (LTh t w)); [cbn; split; assumption|reflexivity| |].
        + cbn [requested]. rewrite changed_iff. destruct w as [|[|[|w]]]; try lia; cbn [view exp].
          * unfold thr. split; intros H E; apply H; congruence.
          * unfold thr. split; intros H E; apply H; congruence.
          * unfold v_state, state_val. fold (thr st t). fold (thr st1 t).
            destruct (t_state (thr st t)), (t_state (thr st1 t)); cbn; split; intros H E; try discriminate; try (apply H; reflexivity); try congruence.
        + destruct w as [|[|[|w]]]; try lia; cbn [view exp]; try reflexivity.
          intros Hne. unfold v_state, state_val in *. fold (thr st1 t). fold (thr st t) in Hne.
          destruct (t_state (thr st1 t)) eqn:E1; try reflexivity. exfalso. apply Hne. rewrite (Known t E1). reflexivity.
      - (* tracked model channel on the thread row *)
        cbn [slot_chan]. destruct (tracked (spec_of sx k)) eqn:Et.
        + (* mux *)
          destruct (b0_mux (MTh t k) (conj V1 V2) Et) as (mx & Hi & E & Hsel & Eo & och & Ho & Cl & La & Sk).
          destruct (mstat_fields _ _ E) as (_ & E2 & _ & _ & E5 & E6 & _).
          assert (Hwr : mux_written b0 mx (sem_sel sx st1 (MTh t k)) <-> requested sx st st1 dirty (STr t k) = true).
          { unfold mux_written. rewrite E2, E6. cbn [wmux thread_mux mx_sel mx_ins sem_sel requested].
            unfold tracked in Et. apply negb_true_iff in Et. rewrite Et.
            change (ch_th sx t W_STATE) with (lid sx (LTh t 2)).
            rewrite (aw_dirty_sys st st1 dirty b b0 R Dv (LTh t 2)) by (cbn; split; [exact V1|lia]).
            rewrite tstate_neq_iff, orb_true_iff, andb_true_iff, is_dirty_in.
            unfold thread_state_of. fold (thr st t). fold (thr st1 t).
            split.
            - intros [H|(j & c & Hj & Hn & Hc)]; [left; exact H|right].
              destruct j as [|j]; [|destruct j; discriminate]. cbn in Hn. inversion Hn; subst c.
              apply (aw_dirty_raw st st1 dirty b b0 R Dv t k V1 V2) in Hc. split; [exact Hc|].
              destruct (mode_ok (cs_thtrack (spec_of sx k)) (t_state (thr st1 t))); [reflexivity|discriminate].
            - intros [H|[Hd Hm]]; [left; exact H|right]. exists 0, (ch_raw sx t k). rewrite Hm. split; [reflexivity|]. split; [reflexivity|].
              apply (aw_dirty_raw st st1 dirty b b0 R Dv t k V1 V2). exact Hd. }
          split.
          * rewrite <- Hwr. apply (out_dirty1 (MTh t k) mx (conj V1 V2) Hi E Et).
          * intros Hr. pose proof (m_out _ _ M _ mx _ och Hi Hsel Ho) as H1. rewrite Eo in H1.
            destruct (mux_written_dec b0 mx (sem_sel sx st1 (MTh t k))) as [Wr|Wr]; [|exfalso; apply Wr; apply Hwr; exact Hr].
            eexists. split; [exact H1|]. rewrite (chan_read_written _ _ Sk).
            unfold mux_value. rewrite E5, E6. cbn [sem_sel wmux thread_mux mx_ins mx_def view].
            unfold thread_state_of. fold (thr st1 t).
            destruct (mode_ok (cs_thtrack (spec_of sx k)) (t_state (thr st1 t))); [|reflexivity]. cbn [nth_error].
            destruct (wr_raw _ _ _ _ _ R t k V1 V2) as (ch & A1 & A2 & _). rewrite A1.
            destruct (sk_chan b0 Hs0 (CRaw t k)) as (ch' & Hc' & Hp); [cbn; split; assumption|]. change (cid sx (CRaw t k)) with (ch_raw sx t k) in Hc'. rewrite A1 in Hc'. inversion Hc'; subst ch'.
            apply (raw_ok_read _ _ _); [unfold cprops in Hp; cbn in Hp; injection Hp as P1 _ _ _; exact P1|exact A2].
        + (* TRACK_TH_ANY: the raw channel itself *)
          assert (Vr : cvalid sx (CRaw t k)) by (cbn; split; assumption).
          assert (Hno : ~ is_out b0 (cid sx (CRaw t k))) by (apply (sk_not_out b0 Hs0 _ Vr); exact I).
          assert (Ereq : requested sx st st1 dirty (STr t k) = is_dirty dirty t k).
          { cbn [requested]. unfold tracked in Et. apply negb_false_iff in Et. rewrite Et. reflexivity. }
          split.
          * rewrite (lvl0_dirty1 _ Hno). change (cid sx (CRaw t k)) with (ch_raw sx t k).
            rewrite (aw_dirty_raw st st1 dirty b b0 R Dv t k V1 V2), Ereq. symmetry. apply is_dirty_in.
          * intros _. destruct (wr_raw _ _ _ _ _ R t k V1 V2) as (ch & A1 & A2 & _). exists ch. rewrite (m_lvl0 _ _ M _ Hno).
            split; [exact A1|].
            destruct (sk_chan b0 Hs0 (CRaw t k) Vr) as (ch' & Hc' & Hp). change (cid sx (CRaw t k)) with (ch_raw sx t k) in Hc'. rewrite A1 in Hc'. inversion Hc'; subst ch'.
            rewrite (raw_ok_read _ _ _ (ltac:(unfold cprops in Hp; cbn in Hp; injection Hp as P1 _ _ _; exact P1)) A2).
            cbn [view]. unfold tracked in Et. apply negb_false_iff in Et. unfold mode_ok. rewrite Et. reflexivity.
      - (* CPU system channel *)
        destruct w as [|[|[|w]]]; try lia.
        + apply (Hsysslot (LCpu c 2)); [cbn; split; [exact V1|lia]|reflexivity| |intros _; reflexivity].
          cbn [requested view exp]. rewrite changed_iff. split; intros H E; apply H; congruence.
        + apply (Hsysslot (LCpu c 1)); [cbn; split; [exact V1|lia]|reflexivity| |intros _; reflexivity].
          cbn [requested view exp]. rewrite changed_iff. split; intros H E; apply H; congruence.
        + apply (Hsysslot (LCpu c 0)); [cbn; split; [exact V1|lia]|reflexivity| |intros _; reflexivity].
          cbn [requested view exp]. rewrite changed_iff. split; intros H E; apply H; congruence.
      - (* tracked model channel on the CPU row *)
        cbn [slot_chan].
        destruct (b0_mux (MCpu c k) (conj V1 V2) eq_refl) as (mx & Hi & E & Hsel & Eo & och & Ho & Cl & La & Sk).
        destruct (mstat_fields _ _ E) as (_ & E2 & _ & _ & E5 & E6 & _).
        assert (Hins : forall j c', nth_error (mx_ins mx) j = Some c' <-> j < T /\ c' = ch_raw sx j k).
        { intros j c'. rewrite E6. cbn [wmux cpu_mux mx_ins]. fold T. split.
          - intros H. assert (Hj : j < T) by (apply nth_error_Some_lt in H; rewrite map_length, seq_length in H; exact H).
            rewrite (nth_error_map_seq (fun t0 => ch_raw sx t0 k) T j Hj) in H. inversion H. auto.
          - intros [Hj ->]. apply (nth_error_map_seq (fun t0 => ch_raw sx t0 k) T j Hj). }
        assert (Hwr : mux_written b0 mx (sem_sel sx st1 (MCpu c k)) <-> requested sx st st1 dirty (SCr c k) = true).
        { unfold mux_written. rewrite E2. cbn [wmux cpu_mux mx_sel sem_sel requested].
          change (ch_cpu sx c X_THRUN) with (lid sx (LCpu c 3)).
          rewrite (aw_dirty_sys st st1 dirty b b0 R Dv (LCpu c 3)) by (cbn; split; [exact V1|lia]).
          rewrite thrun_neq_iff, orb_true_iff. split.
          - intros [H|(j & c' & Hj & Hn & Hc)]; [left; exact H|right]. rewrite Hj. apply Hins in Hn. destruct Hn as [Hjt ->].
            apply is_dirty_in. apply (aw_dirty_raw st st1 dirty b b0 R Dv j k Hjt V2). exact Hc.
          - intros [H|H]; [left; exact H|right]. destruct (th_running st1 c) as [j|] eqn:Er; [|discriminate].
            pose proof (th_running_lt st1 c j B1 Er) as Hjt. exists j, (ch_raw sx j k). split; [reflexivity|]. split; [apply Hins; auto|].
            apply (aw_dirty_raw st st1 dirty b b0 R Dv j k Hjt V2). apply is_dirty_in. exact H. }
        split.
        + rewrite <- Hwr. apply (out_dirty1 (MCpu c k) mx (conj V1 V2) Hi E eq_refl).
        + intros Hr. pose proof (m_out _ _ M _ mx _ och Hi Hsel Ho) as H1. rewrite Eo in H1.
          destruct (mux_written_dec b0 mx (sem_sel sx st1 (MCpu c k))) as [Wr|Wr]; [|exfalso; apply Wr; apply Hwr; exact Hr].
          eexists. split; [exact H1|]. rewrite (chan_read_written _ _ Sk).
          unfold mux_value. rewrite E5. cbn [sem_sel wmux cpu_mux mx_def view].
          destruct (th_running st1 c) as [j|] eqn:Er; [|reflexivity].
          pose proof (th_running_lt st1 c j B1 Er) as Hjt.
          rewrite (proj2 (Hins j (ch_raw sx j k)) (conj Hjt eq_refl)).
          destruct (wr_raw _ _ _ _ _ R j k Hjt V2) as (ch & A1 & A2 & _). rewrite A1.
          assert (Vr : cvalid sx (CRaw j k)) by (cbn; split; assumption).
          destruct (sk_chan b0 Hs0 (CRaw j k) Vr) as (ch' & Hc' & Hp). change (cid sx (CRaw j k)) with (ch_raw sx j k) in Hc'. rewrite A1 in Hc'. inversion Hc'; subst ch'.
          apply (raw_ok_read _ _ _); [unfold cprops in Hp; cbn in Hp; injection Hp as P1 _ _ _; exact P1|exact A2].
    Qed.
  End AfterPropagate.

  (* ---------------------------------------------------------------- the requests of the emit phase *)

  Lemma req_of_ecb s v : req_of (ecb_of sx s) v = (key_of sx s, flags_of sx s, v).
  Proof. unfold req_of, ecb_of. destruct (key_of sx s) as [[cpu row] ty]. reflexivity. Qed.

  Lemma wecbs_le1 l : length (wecbs sx l) <= 1.
  Proof.
    destruct l as [t w|t k|t k|c w|c k]; cbn [wecbs].
    - destruct (Nat.ltb w 3); cbn; lia.
    - destruct (tracked (spec_of sx k)); cbn; lia.
    - destruct (tracked (spec_of sx k)); cbn; lia.
    - destruct w as [|[|[|w]]]; cbn; lia.
    - cbn; lia.
  Qed.

  Lemma NoDup_le1 {A} (l : list A) : length l <= 1 -> NoDup l.
  Proof. destruct l as [|x [|y l]]; cbn; intros H; [constructor|constructor; [intros []|constructor]|lia]. Qed.

  Lemma key_of_inj s s' : wf_keys sx -> svalid s -> svalid s' -> key_of sx s = key_of sx s' -> s = s'.
  Proof.
    unfold wf_keys. intros Hnd V V' E. apply in_slots_iff in V, V'. revert Hnd V V' E. generalize (slots sx) as l.
    induction l as [|x l IH]; intros Hnd Hin Hin' E; [destruct Hin|].
    cbn in Hnd. inversion Hnd as [|? ? Hn Hnd']; subst. destruct Hin as [->|Hin], Hin' as [->|Hin']; auto.
    - exfalso. apply Hn. rewrite E. apply in_map. exact Hin'.
    - exfalso. apply Hn. rewrite <- E. apply in_map. exact Hin.
  Qed.

  Section Requests.
    Variables (st st1 : state) (dirty : list (nat * nat)) (b b0 b1 b2 : bay).
    Hypothesis W : Wired st b.
    Hypothesis R : Written st st1 dirty b b0.
    Hypothesis B1 : Bnd sx st1.
    Hypothesis Dv : dirty_valid dirty.
    Hypothesis Rframe : forall t k, ~ In (t, k) dirty -> raw_of st1 t k = raw_of st t k.
    Hypothesis Known : forall t, t_state (thr st1 t) = Unknown -> t_state (thr st t) = Unknown.
    Hypothesis P : Pre b0.
    Hypothesis M : Mid b0 b1.
    Hypothesis Hkeys : wf_keys sx.

    Let SR := slot_requested st st1 dirty b b0 b1 W R B1 Dv Known M.

    Lemma b1_skel : skel b1 = skel (wire sx).
    Proof. rewrite (m_skel _ _ M). apply (aw_skel st st1 dirty b b0 W R). Qed.

    Lemma in_chan_reqs c r : In r (chan_reqs b1 c) ->
      exists s ch, svalid s /\ c = cid sx (slot_chan s) /\ chan_at b1 c = Some ch /\ r = (key_of sx s, flags_of sx s, chan_read ch).
    Proof.
      unfold chan_reqs. destruct (chan_at b1 c) as [ch|] eqn:Hc; [|intros []]. intros H.
      assert (Hlt : c < nchans sx) by (rewrite <- (sk_len b1 b1_skel); apply (nth_error_Some_lt _ _ ch); exact Hc).
      destruct (cid_cover sx c Hlt) as (l & V & <-). rewrite (sk_ecbs b1 b1_skel l V) in H.
      apply in_map_iff in H. destruct H as (e & <- & He). destruct (ecbs_slot l e V He) as (s & Vs & <- & ->).
      exists s, ch. split; [exact Vs|]. split; [reflexivity|]. split; [first [exact Hc|reflexivity]|apply req_of_ecb].
    Qed.

    Lemma mech_in r : In r (flat_map (chan_reqs b1) (b_dirty b1)) <-> In r (all_reqs sx st st1 dirty).
    Proof.
      rewrite in_flat_map. split.
      - intros (c & Hc & Hr). destruct (in_chan_reqs c r Hr) as (s & ch & Vs & -> & Hch & ->).
        destruct (SR s Vs) as [A B]. pose proof (proj1 A Hc) as Hreq. destruct (B Hreq) as (ch' & Hch' & Hv).
        rewrite Hch in Hch'. inversion Hch'; subst ch'. rewrite Hv. apply in_all_reqs; [apply in_slots_iff; exact Vs|exact Hreq].
      - unfold all_reqs. rewrite in_flat_map. intros (s & Hs & Hr). apply in_slots_iff in Hs.
        destruct (requested sx st st1 dirty s) eqn:Hreq; [|destruct Hr]. destruct Hr as [<-|[]].
        destruct (SR s Hs) as [A B]. destruct (B Hreq) as (ch & Hch & Hv).
        exists (cid sx (slot_chan s)). split; [apply A; exact Hreq|].
        unfold chan_reqs. rewrite Hch, (sk_ecbs b1 b1_skel _ (slot_chan_valid s Hs)), (slot_chan_ecbs s Hs). cbn [map].
        left. rewrite req_of_ecb, Hv. reflexivity.
    Qed.

    Lemma b1_dirty_nodup : NoDup (b_dirty b1).
    Proof.
      destruct (m_dirty _ _ M) as (O & EO & HndO & HO). rewrite EO. apply NoDup_app_disjoint'; [apply (pre_nodup _ P)|exact HndO|].
      intros c H1 H2. apply (HO c) in H2. destruct H2 as (m & mx & oi & Hi & Ho & _).
      destruct (pre_lvl0 _ P c H1) as [_ Hno]. apply Hno. exists m, mx. split; assumption.
    Qed.

    Theorem reqs_perm : Permutation (all_reqs sx st st1 dirty) (flat_map (chan_reqs b1) (b_dirty b1)).
    Proof.
      apply NoDup_Permutation.
      - apply (NoDup_map_inv req_key). apply all_reqs_keys. exact Hkeys.
      - apply NoDup_flat_map.
        + exact b1_dirty_nodup.
        + intros c _. unfold chan_reqs. destruct (chan_at b1 c) as [ch|] eqn:Hc; [|constructor].
          assert (Hlt : c < nchans sx) by (rewrite <- (sk_len b1 b1_skel); apply (nth_error_Some_lt _ _ ch); exact Hc).
          destruct (cid_cover sx c Hlt) as (l & V & <-). rewrite (sk_ecbs b1 b1_skel l V).
          apply NoDup_le1. rewrite map_length. apply wecbs_le1.
        + intros c c' r _ _ Hne Hr Hr'.
          destruct (in_chan_reqs c r Hr) as (s & ch & Vs & -> & _ & ->).
          destruct (in_chan_reqs c' _ Hr') as (s' & ch' & Vs' & -> & _ & E). inversion E as [[E1 E2 E3]].
          apply Hne. f_equal. f_equal. apply (key_of_inj s s' Hkeys Vs Vs' E1).
      - intros r. symmetry. apply mech_in.
    Qed.
  End Requests.

  (* ---------------------------------------------------------------- what one handler does, in the form needed *)

  Lemma raw_summary st who ev st1 dirty :
    Bnd sx st -> (forall e, ev <> EvOvni e) -> core_step sx st who ev = Ok (st1, dirty) -> NoDup dirty ->
    exists wl,
      handler_writes sx st st1 who ev dirty = map (wset sx st1) wl ++ map (raw_wop sx st st1) dirty /\
      NoDup wl /\ (forall l, In l wl -> lvalid sx l) /\
      (forall l, In l wl -> strict l = true -> exp sx st1 l <> exp sx st l) /\
      (forall l, lvalid sx l -> ~ In l wl -> exp sx st1 l = exp sx st l) /\
      Bnd sx st1 /\ prv_last st1 = prv_last st /\
      (forall t k, In (t, k) dirty -> t < T /\ k < K /\ raw_trans (spec_of sx k) (raw_of st t k) (raw_of st1 t k)) /\
      (forall t k, ~ In (t, k) dirty -> raw_of st1 t k = raw_of st t k) /\
      (forall t, t_state (thr st1 t) = Unknown -> t_state (thr st t) = Unknown).
  Proof.
    intros B Hne H Hnd.
    assert (Rs : RawStep sx st st1 dirty) by (apply (core_step_raw sx st who ev st1 dirty B Hne H Hnd)).
    exists []. split.
    { destruct ev; try reflexivity. exfalso. apply (Hne e). reflexivity. }
    split; [constructor|]. split; [intros l []|]. split; [intros l []|].
    split; [intros l _ _; apply exp_sys_same; apply (rs_sys _ _ _ _ Rs)|].
    split; [apply (Bnd_sys_same sx st st1 B (rs_sys _ _ _ _ Rs))|]. split; [apply (rs_last _ _ _ _ Rs)|].
    split.
    { intros t k Hin. destruct (rs_trans _ _ _ _ Rs t k Hin) as (A1 & A2 & A3).
      split; [unfold T; rewrite <- (n_len_t _ _ B); exact A1|]. split; [exact A2|exact A3]. }
    split; [apply (rs_frame _ _ _ _ Rs)|].
    intros t Hu. destruct (rs_sys _ _ _ _ Rs) as [Hs _]. destruct (Hs t) as (Es & _). rewrite <- Es. exact Hu.
  Qed.

  Lemma core_step_summary st who ev st1 dirty :
    Bnd sx st -> core_step sx st who ev = Ok (st1, dirty) -> NoDup dirty ->
    exists wl,
      handler_writes sx st st1 who ev dirty = map (wset sx st1) wl ++ map (raw_wop sx st st1) dirty /\
      NoDup wl /\ (forall l, In l wl -> lvalid sx l) /\
      (forall l, In l wl -> strict l = true -> exp sx st1 l <> exp sx st l) /\
      (forall l, lvalid sx l -> ~ In l wl -> exp sx st1 l = exp sx st l) /\
      Bnd sx st1 /\ prv_last st1 = prv_last st /\
      (forall t k, In (t, k) dirty -> t < T /\ k < K /\ raw_trans (spec_of sx k) (raw_of st t k) (raw_of st1 t k)) /\
      (forall t k, ~ In (t, k) dirty -> raw_of st1 t k = raw_of st t k) /\
      (forall t, t_state (thr st1 t) = Unknown -> t_state (thr st t) = Unknown).
  Proof.
    intros B H Hnd. destruct ev as [e| | | | | | |].
    - (* ovni events *)
      cbn [core_step] in H. destruct (oh_step sx st who e) as [s|] eqn:E; [|discriminate]. inversion H; subst s dirty. clear H.
      destruct (oh_step_post sx st who e st1 B E) as [Pp Ew]. exists (oh_wl sx st st1 who e).
      cbn [handler_writes map]. rewrite app_nil_r. split; [exact Ew|].
      split; [apply (op_nodup _ _ _ _ Pp)|]. split; [apply (op_valid _ _ _ _ Pp)|]. split; [apply (op_strict _ _ _ _ Pp)|].
      split; [apply (op_frame _ _ _ _ Pp)|]. split; [apply (op_bnd _ _ _ _ Pp)|]. split; [apply (op_last _ _ _ _ Pp)|].
      split; [intros t k []|]. split; [intros t k _; apply raw_of_same_raws; apply (op_raws _ _ _ _ Pp)|apply (op_known _ _ _ _ Pp)].
    - apply (raw_summary st who _ st1 dirty B); [intros e0; discriminate|exact H|exact Hnd].
    - apply (raw_summary st who _ st1 dirty B); [intros e0; discriminate|exact H|exact Hnd].
    - apply (raw_summary st who _ st1 dirty B); [intros e0; discriminate|exact H|exact Hnd].
    - apply (raw_summary st who _ st1 dirty B); [intros e0; discriminate|exact H|exact Hnd].
    - apply (raw_summary st who _ st1 dirty B); [intros e0; discriminate|exact H|exact Hnd].
    - apply (raw_summary st who _ st1 dirty B); [intros e0; discriminate|exact H|exact Hnd].
    - apply (raw_summary st who _ st1 dirty B); [intros e0; discriminate|exact H|exact Hnd].
  Qed.

  (* ---------------------------------------------------------------- the refinement, one event *)

  Definition state_equiv (a c : state) : Prop :=
    threads a = threads c /\ cpu_threads a = cpu_threads c /\ cpu_touched a = cpu_touched c /\
    tasks a = tasks c /\ types a = types c /\ last_equiv (prv_last a) (prv_last c).

  Theorem bay_refines_emission_rule st b who ev :
    wf_keys sx -> Wired st b ->
    (forall st1 dirty, core_step sx st who ev = Ok (st1, dirty) -> NoDup dirty) ->
    match step sx st who ev, mstep sx st b who ev with
    | Ok (st', ls), Ok (st'', b', mls) =>
      state_equiv st'' st' /\ Wired st'' b' /\ Permutation mls ls /\ forall k, filter_key k mls = filter_key k ls
    | Err _, Err _ => True
    | _, _ => False
    end.
  Proof.
    intros Hkeys W Hnodup. unfold step, mstep.
    destruct (core_step sx st who ev) as [[st1 dirty]|e] eqn:Ec; [|exact I].
    pose proof (Hnodup st1 dirty eq_refl) as Hnd.
    destruct (core_step_summary st who ev st1 dirty (w_bnd _ _ W) Ec Hnd) as (wl & Ew & N1 & N2 & N3 & N4 & B1 & Hl & Htr & Hfr & Hkn).
    destruct (writes_general st st1 b wl dirty W N1 N2 N3 N4 Hnd Htr Hfr) as (b0 & Ea & R).
    rewrite Ew, Ea.
    assert (Dv : dirty_valid dirty) by (intros t k Hin; destruct (Htr t k Hin) as (A1 & A2 & _); split; assumption).
    pose proof (written_pre st st1 dirty b b0 W R B1 Dv) as P.
    destruct (propagate_spec b0 P (prv_last st1)) as (b1 & b2 & M & Po & Ep). rewrite Ep.
    pose proof (reqs_perm st st1 dirty b b0 b1 W R B1 Dv Hkn P M Hkeys) as HP.
    pose proof (emit_all_perm _ _ HP (all_reqs_keys sx st st1 dirty Hkeys) (prv_last st1) (prv_last st1) (last_equiv_refl _)) as RE.
    unfold REquiv in RE.
    destruct (emit_all (prv_last st1) (all_reqs sx st st1 dirty)) as [[ls1 s1]|],
             (emit_all (prv_last st1) (flat_map (chan_reqs b1) (b_dirty b1))) as [[ls2 s2]|]; try tauto.
    destruct RE as (A1 & A2 & A3).
    split; [|split; [|split]].
    - unfold state_equiv, set_last. cbn. repeat split; try reflexivity. apply last_equiv_sym. exact A1.
    - eapply post_wired; eassumption.
    - apply Permutation_sym. exact A2.
    - intros k. symmetry. apply A3.
  Qed.

  (* ---------------------------------------------------------------- the state after emu_connect *)

  (* the structures before the models' connect functions write their initial values *)
  Definition init0 : state :=
    {| threads := map (fun _ => {| t_state := Unknown; t_cpu := None; t_ooc := false;
                                   t_raw := map (fun _ => empty_raw) (s_chans sx); t_bstack := [] |}) (s_threads sx);
       cpu_threads := map (fun _ => []) (s_cpus sx);
       cpu_touched := map (fun _ => false) (s_cpus sx);
       tasks := []; types := []; prv_last := [] |}.

  Lemma nth_map_const_or {A B} (l : list A) (x d : B) n : nth n (map (fun _ => x) l) d = x \/ nth n (map (fun _ => x) l) d = d.
  Proof. revert n. induction l as [|a l IH]; intros [|n]; cbn; auto. Qed.

  Lemma thr_init_gen st : (st = init0 \/ st = init sx) -> forall t, t_state (thr st t) = Unknown /\ t_cpu (thr st t) = None.
  Proof.
    intros [-> | ->] t; unfold thr, init0, init, init_thread; cbn [threads];
      match goal with |- context [nth t (map (fun _ => ?x) ?l) ?d] => destruct (nth_map_const_or l x d t) as [E|E]; rewrite E end; cbn; auto.
  Qed.

  Lemma cl_init_gen st : (st = init0 \/ st = init sx) -> forall c, cl st c = [].
  Proof.
    intros [-> | ->] c; unfold cl, init0, init; cbn [cpu_threads];
      destruct (nth_map_const_or (s_cpus sx) (@nil nat) [] c) as [E|E]; exact E.
  Qed.

  Lemma touched_init_gen st : (st = init0 \/ st = init sx) -> forall c, touched st c = false.
  Proof.
    intros [-> | ->] c; unfold touched, init0, init; cbn [cpu_touched];
      destruct (nth_map_const_or (s_cpus sx) false false c) as [E|E]; exact E.
  Qed.

  Lemma Bnd_init_gen st : (st = init0 \/ st = init sx) -> Bnd sx st.
  Proof.
    intros Hst. constructor.
    - destruct Hst as [-> | ->]; cbn; apply map_length.
    - destruct Hst as [-> | ->]; cbn; apply map_length.
    - destruct Hst as [-> | ->]; cbn; apply map_length.
    - intros c t Hin. rewrite (cl_init_gen st Hst c) in Hin. destruct Hin.
    - intros t c _ Hc. destruct (thr_init_gen st Hst t) as [_ E]. congruence.
    - intros c. rewrite (cl_init_gen st Hst c). constructor.
    - intros t Ht. destruct Hst as [-> | ->]; unfold thr, init0, init in *; cbn [threads] in *; rewrite map_length in Ht.
      + rewrite (nth_indep _ _ {| t_state := Unknown; t_cpu := None; t_ooc := false; t_raw := map (fun _ => empty_raw) (s_chans sx); t_bstack := [] |}) by (rewrite map_length; exact Ht).
        rewrite (EmuCoreWf.nth_map_const' (s_threads sx)) by exact Ht. cbn. apply map_length.
      + rewrite (nth_indep _ _ (init_thread sx)) by (rewrite map_length; exact Ht).
        rewrite (EmuCoreWf.nth_map_const' (s_threads sx)) by exact Ht. unfold init_thread. cbn. apply map_length.
  Qed.

  Lemma exp_init_gen st l : (st = init0 \/ st = init sx) -> exp sx st l = None.
  Proof.
    intros Hst. pose proof (thr_init_gen st Hst) as Ht. pose proof (cl_init_gen st Hst) as Hc. pose proof (touched_init_gen st Hst) as Hu.
    assert (Hrun : forall c, running_on st c = []) by (intros c; rewrite running_on_cl, Hc; reflexivity).
    destruct l as [t w|c w].
    - destruct (Ht t) as [E1 E2]. destruct w as [|[|w]]; cbn [exp].
      + unfold v_cpu. rewrite E2. reflexivity.
      + unfold v_tid. rewrite E1. reflexivity.
      + unfold state_val. rewrite E1. reflexivity.
    - destruct w as [|[|[|[|w]]]]; cbn [exp].
      + unfold v_nrun. fold (touched st c). rewrite Hu. reflexivity.
      + unfold v_cpupid, th_running. rewrite Hrun. reflexivity.
      + unfold v_cputid, th_running. rewrite Hrun. reflexivity.
      + unfold th_running. rewrite Hrun. reflexivity.
      + unfold th_active, active_on. fold (cl st c). rewrite Hc. reflexivity.
  Qed.

  Lemma sem_sel_init_gen st lm : (st = init0 \/ st = init sx) -> mx_init (wmux sx lm) = true -> sem_sel sx st lm = None.
  Proof.
    intros Hst Hin. destruct lm as [t k|c k]; cbn [sem_sel].
    - destruct (thr_init_gen st Hst t) as [E _]. rewrite E. cbn in Hin. unfold tracked in Hin. apply negb_true_iff in Hin.
      unfold mode_ok. rewrite Hin. destruct (cs_thtrack (spec_of sx k) =? TRACK_RUN)%Z; reflexivity.
    - unfold th_running. rewrite running_on_cl, (cl_init_gen st Hst c). reflexivity.
  Qed.

  Lemma raw_of_init0 t k : raw_of init0 t k = empty_raw.
  Proof.
    unfold raw_of, init0. cbn [threads].
    match goal with |- context [nth t (map (fun _ => ?x) ?l) ?d] => destruct (nth_map_const_or l x d t) as [E|E]; rewrite E end; cbn [t_raw dummy_thread].
    - destruct (nth_map_const_or (s_chans sx) empty_raw empty_raw k) as [E'|E']; exact E'.
    - destruct k; reflexivity.
  Qed.

  Lemma raw_of_init t k : t < T -> k < K -> raw_of (init sx) t k = {| r_stk := []; r_val := cs_init (spec_of sx k) |}.
  Proof.
    intros Ht Hk. unfold raw_of. fold (thr (init sx) t). unfold thr. rewrite (thr_init sx t Ht). unfold init_thread. cbn [t_raw].
    unfold spec_of. rewrite (nth_indep _ _ {| r_stk := []; r_val := cs_init null_spec |}) by (rewrite map_length; exact Hk).
    rewrite (map_nth (fun sp => {| r_stk := []; r_val := cs_init sp |})). reflexivity.
  Qed.

  Lemma raw_of_init_none t k : cs_init (spec_of sx k) = None -> raw_of (init sx) t k = empty_raw.
  Proof.
    intros Hn. unfold raw_of, init. cbn [threads].
    match goal with |- context [nth t (map (fun _ => ?x) ?l) ?d] => destruct (nth_map_const_or l x d t) as [E|E]; rewrite E end; cbn [t_raw dummy_thread init_thread].
    - destruct (Nat.lt_ge_cases k K) as [Hk|Hk].
      + rewrite (nth_indep _ _ {| r_stk := []; r_val := cs_init null_spec |}) by (rewrite map_length; exact Hk).
        rewrite (map_nth (fun sp => {| r_stk := []; r_val := cs_init sp |})). fold (spec_of sx k). rewrite Hn. reflexivity.
      + apply nth_overflow. rewrite map_length. exact Hk.
    - destruct k; reflexivity.
  Qed.

  Theorem wired_init0 : Wired init0 (wire sx).
  Proof.
    assert (Hst : init0 = init0 \/ init0 = init sx) by (left; reflexivity).
    assert (Hch : forall c ch, chan_at (wire sx) c = Some ch -> exists l, cvalid sx l /\ c = cid sx l /\ ch = wchan sx l).
    { intros c ch Hc. assert (Hlt : c < nchans sx) by (rewrite <- (len_wire_chans sx); apply (nth_error_Some_lt _ _ ch); exact Hc).
      destruct (cid_cover sx c Hlt) as (l & V & <-). exists l. split; [exact V|]. split; [reflexivity|]. rewrite (wire_chan sx l V) in Hc. inversion Hc. reflexivity. }
    assert (Hsys : forall l, lvalid sx l -> exists ch, chan_at (wire sx) (lid sx l) = Some ch /\ c_val ch = exp sx init0 l).
    { intros l Hl. exists (wchan sx (l2c l)). rewrite lid_cid. split; [apply wire_chan; apply lvalid_cvalid; exact Hl|].
      rewrite (exp_init_gen init0 l Hst). destruct l as [t [|[|w]]|c w]; reflexivity. }
    constructor.
    - reflexivity.
    - reflexivity.
    - apply wire_cbs. exact Tpos.
    - reflexivity.
    - apply (Bnd_init_gen init0 Hst).
    - intros c ch Hc. destruct (Hch c ch Hc) as (l & _ & _ & ->). destruct l as [t [|[|w]]|t k|t k|c0 w|c0 k]; cbn; unfold chan_read; cbn;
        try (destruct (cs_stack (spec_of sx k))); auto.
    - exact Hsys.
    - intros t k Ht Hk. exists (wchan sx (CRaw t k)). split; [apply (wire_chan sx (CRaw t k)); cbn; split; assumption|].
      rewrite raw_of_init0. unfold raw_ok. destruct (cs_stack (spec_of sx k)); reflexivity.
    - intros m mx Hi. destruct (wire_imux sx m mx Hi) as (lm & V & _ & ->). destruct Hi as [_ Hin]. exists None. split.
      + rewrite <- (sem_sel_init_gen init0 lm Hst Hin). apply (sel_res_of (wire sx) init0 lm (wmux sx lm) eq_refl (Bnd_init_gen init0 Hst) Hsys V eq_refl Hin).
      + intros j. split; [|discriminate]. intros He. exfalso. unfold en_at in He. destruct lm as [t k|c k]; cbn in He.
        * destruct j as [|[|j]]; discriminate.
        * destruct (nth_error (map (fun _ : nat => false) (seq 0 (length (s_threads sx)))) j) as [x|] eqn:E; [|discriminate].
          apply nth_error_In in E. apply in_map_iff in E. destruct E as (_ & <- & _). discriminate.
  Qed.

  (* connect-time values are only given to single channels, and never to a channel shown as-is (TRACK_TH_ANY) *)
  Definition init_ok_chans : Prop :=
    forall k, k < K -> cs_init (spec_of sx k) <> None -> cs_stack (spec_of sx k) = false /\ tracked (spec_of sx k) = true.

  Definition dirty0 : list (nat * nat) :=
    flat_map (fun k => match cs_init (spec_of sx k) with Some _ => map (fun t => (t, k)) (seq 0 T) | None => [] end) (seq 0 K).

  Lemma in_dirty0 t k : In (t, k) dirty0 <-> t < T /\ k < K /\ cs_init (spec_of sx k) <> None.
  Proof.
    unfold dirty0. rewrite in_flat_map. split.
    - intros (k' & Hk' & Hin). apply in_seq in Hk'. destruct (cs_init (spec_of sx k')) eqn:E; [|destruct Hin].
      apply in_map_iff in Hin. destruct Hin as (t' & Et & Ht'). inversion Et; subst. apply in_seq in Ht'. split; [lia|]. split; [lia|congruence].
    - intros (Ht & Hk & Hn). exists k. split; [apply in_seq; lia|]. destruct (cs_init (spec_of sx k)); [|congruence].
      apply in_map_iff. exists t. split; [reflexivity|apply in_seq; lia].
  Qed.

  Theorem wire_init_wired : wf_keys sx -> init_ok_chans ->
    exists b, wire_init sx = Ok (b, [], []) /\ Wired (init sx) b.
  Proof.
    intros Hkeys Hok.
    assert (H0 : init0 = init0 \/ init0 = init sx) by (left; reflexivity).
    assert (H1 : init sx = init0 \/ init sx = init sx) by (right; reflexivity).
    assert (Hexp : forall l, exp sx (init sx) l = exp sx init0 l) by (intros l; rewrite (exp_init_gen _ l H0), (exp_init_gen _ l H1); reflexivity).
    assert (Hnd : NoDup dirty0).
    { unfold dirty0. apply NoDup_flat_map; [apply seq_NoDup| |].
      - intros k _. destruct (cs_init (spec_of sx k)); [|constructor]. apply NoDup_map_inj_in; [apply seq_NoDup|]. intros x y _ _ E. inversion E. reflexivity.
      - intros k k' [t k0] _ _ Hne Hin Hin'. destruct (cs_init (spec_of sx k)); [|destruct Hin]. destruct (cs_init (spec_of sx k')); [|destruct Hin'].
        apply in_map_iff in Hin, Hin'. destruct Hin as (? & E & _), Hin' as (? & E' & _). inversion E; inversion E'; subst. congruence. }
    assert (Htr : forall t k, In (t, k) dirty0 -> t < T /\ k < K /\ raw_trans (spec_of sx k) (raw_of init0 t k) (raw_of (init sx) t k)).
    { intros t k Hin. apply in_dirty0 in Hin. destruct Hin as (Ht & Hk & Hn). split; [exact Ht|]. split; [exact Hk|].
      destruct (Hok k Hk Hn) as [Hs _]. unfold raw_trans. rewrite Hs, raw_of_init0, (raw_of_init t k Ht Hk). cbn. split; [reflexivity|right; exact Hn]. }
    assert (Hfr : forall t k, ~ In (t, k) dirty0 -> raw_of (init sx) t k = raw_of init0 t k).
    { intros t k Hn. rewrite raw_of_init0. destruct (Nat.lt_ge_cases t T) as [Ht|Ht]; [destruct (Nat.lt_ge_cases k K) as [Hk|Hk]|].
      - destruct (cs_init (spec_of sx k)) eqn:E; [|apply raw_of_init_none; exact E]. exfalso. apply Hn. apply in_dirty0. split; [exact Ht|]. split; [exact Hk|congruence].
      - unfold raw_of. apply nth_overflow. destruct (Bnd_init_gen _ H1) as [L _ _ _ _ _ Lr]. unfold thr in Lr. rewrite Lr by (rewrite L; exact Ht). exact Hk.
      - unfold raw_of. rewrite (nth_overflow (threads (init sx))) by (cbn; rewrite map_length; exact Ht). destruct k; reflexivity. }
    destruct (writes_general init0 (init sx) (wire sx) [] dirty0 wired_init0) as (b0 & Ea & R); try assumption.
    { constructor. } { intros l []. } { intros l []. } { intros l _ _. apply Hexp. }
    assert (Ew : init_writes sx = map (wset sx (init sx)) [] ++ map (raw_wop sx init0 (init sx)) dirty0).
    { cbn [map app]. unfold init_writes, dirty0, seqK. fold K T. rewrite map_flat_map.
      apply flat_map_ext_in'. intros k Hk. apply in_seq in Hk. destruct (cs_init (spec_of sx k)) as [v|] eqn:E; [|reflexivity].
      rewrite map_map. apply map_ext_in. intros t Ht. apply in_seq in Ht.
      destruct (Hok k) as [Hs _]; [lia|congruence|]. unfold raw_wop. rewrite Hs, (raw_of_init t k) by lia. cbn. rewrite E. reflexivity. }
    unfold wire_init. rewrite Ew, Ea.
    assert (Dv : dirty_valid dirty0) by (intros t k Hin; destruct (Htr t k Hin) as (A1 & A2 & _); split; assumption).
    assert (B1 : Bnd sx (init sx)) by (apply (Bnd_init_gen _ H1)).
    assert (Hkn : forall t, t_state (thr (init sx) t) = Unknown -> t_state (thr init0 t) = Unknown) by (intros t _; apply (thr_init_gen init0 H0 t)).
    pose proof (written_pre init0 (init sx) dirty0 (wire sx) b0 wired_init0 R B1 Dv) as P.
    destruct (propagate_spec b0 P []) as (b1 & b2 & M & Po & Ep). rewrite Ep.
    (* nothing is emitted *)
    assert (Hmech : flat_map (chan_reqs b1) (b_dirty b1) = []).
    { destruct (m_dirty _ _ M) as (O & EO & _ & HO).
      assert (HOnil : O = []).
      { destruct O as [|c O']; [reflexivity|exfalso]. destruct (proj1 (HO c) (or_introl eq_refl)) as (m & mx & oi & Hi & Ho & Hoi & Wr).
        destruct (sk_imux b0 (aw_skel init0 (init sx) dirty0 (wire sx) b0 wired_init0 R) m mx Hi) as (lm & V & Em & E & Hin).
        rewrite (aw_sel init0 (init sx) dirty0 (wire sx) b0 wired_init0 R B1 lm mx V E Hin) in Hoi. inversion Hoi; subst oi.
        rewrite (sem_sel_init_gen _ lm H1 Hin) in Wr. destruct Wr as [Wr|(j & c' & Ej & _)]; [|discriminate].
        destruct (mstat_fields _ _ E) as (_ & E2 & _). rewrite E2, wmux_sel in Wr.
        set (ls := match lm with MTh t _ => LTh t 2 | MCpu c0 _ => LCpu c0 3 end).
        assert (Vl : lvalid sx ls) by (destruct lm; destruct V as [V1 V2]; cbn; split; try assumption; lia).
        assert (Ec : cid sx (msel lm) = lid sx ls) by (destruct lm; reflexivity). rewrite Ec in Wr.
        apply (aw_dirty_sys init0 (init sx) dirty0 (wire sx) b0 R Dv ls Vl) in Wr. apply Wr. apply Hexp. }
      rewrite EO, HOnil, app_nil_r. apply flat_map_nil'. intros c Hc.
      destruct (wr_dirty _ _ _ _ _ R) as [_ HD]. apply HD in Hc. destruct Hc as [(l & _ & _ & Hne)|(t & k & Hin & ->)]; [exfalso; apply Hne; apply Hexp|].
      apply in_dirty0 in Hin. destruct Hin as (Ht & Hk & Hn). destruct (Hok k Hk Hn) as [_ Htk].
      unfold chan_reqs. destruct (chan_at b1 (ch_raw sx t k)); [|reflexivity].
      change (ch_raw sx t k) with (cid sx (CRaw t k)).
      rewrite (sk_ecbs b1 (b1_skel init0 (init sx) dirty0 (wire sx) b0 b1 wired_init0 R M) (CRaw t k)) by (cbn; split; assumption).
      cbn [wecbs]. rewrite Htk. reflexivity. }
    rewrite Hmech. cbn [emit_all]. eexists. split; [reflexivity|].
    change (init sx) with (set_last (init sx) []) at 1.
    eapply post_wired; first [exact wired_init0|eassumption].
  Qed.
End Sys.
