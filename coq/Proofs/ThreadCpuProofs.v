(* C04 / C05: the emulator's handlers (with their per-CPU thread lists) accept exactly the
   histories the documented state machine accepts, and keep CPU occupancy consistent. *)
From Coq Require Import ZArith List Bool Lia Permutation.
From OV Require Import Emu.EmuCoreDefs Emu.ThreadSpecDefs Proofs.EmitProofs Proofs.EmuCoreProofs.
Import ListNotations.
Local Open Scope nat_scope.

(* ---------------------------------------------------------------- accessors *)

Definition thr (st : state) (t : nat) : thread := nth t (threads st) dummy_thread.
Definition cl (st : state) (c : nat) : list nat := nth c (cpu_threads st) [].

Lemma thr_set_thread_same st t th : t < length (threads st) -> thr (set_thread st t th) t = th.
Proof. intros H. unfold thr, set_thread. cbn [threads]. apply nth_update_same. exact H. Qed.

Lemma thr_set_thread_other st t t' th : t <> t' -> thr (set_thread st t th) t' = thr st t'.
Proof. intros H. unfold thr, set_thread. cbn [threads]. apply nth_update_other. exact H. Qed.

Lemma cl_set_same st c l : c < length (cpu_threads st) -> cl (set_cpu_threads st c l) c = l.
Proof. intros H. unfold cl, set_cpu_threads. cbn [cpu_threads]. apply nth_update_same. exact H. Qed.

Lemma cl_set_other st c c' l : c <> c' -> cl (set_cpu_threads st c l) c' = cl st c'.
Proof. intros H. unfold cl, set_cpu_threads. cbn [cpu_threads]. apply nth_update_other. exact H. Qed.

Lemma nth_error_thr st t th : nth_error (threads st) t = Some th -> thr st t = th /\ t < length (threads st).
Proof. intros H. split; [apply nth_error_nth; exact H|eapply nth_error_lt; eauto]. Qed.

(* remove_nat on a NoDup list *)
Lemma in_remove_nat x y l : NoDup l -> (In y (remove_nat x l) <-> In y l /\ y <> x).
Proof.
  induction l as [|a l IH]; intros Hnd; cbn.
  - tauto.
  - inversion Hnd as [|? ? Hnotin Hnd']; subst.
    destruct (Nat.eqb x a) eqn:E.
    + apply Nat.eqb_eq in E. subst a. split.
      * intros Hy. split; [right; exact Hy|]. intros ->. contradiction.
      * intros [[->|Hy] Hne]; [contradiction|exact Hy].
    + apply Nat.eqb_neq in E. cbn. rewrite (IH Hnd'). split.
      * intros [->|[Hy Hne]]; [split; [left; reflexivity|congruence]|split; [right; exact Hy|exact Hne]].
      * intros [[->|Hy] Hne]; [left; reflexivity|right; split; assumption].
Qed.

Lemma nodup_remove_nat x l : NoDup l -> NoDup (remove_nat x l).
Proof.
  induction l as [|a l IH]; intros Hnd; cbn; [constructor|].
  inversion Hnd as [|? ? Hnotin Hnd']; subst.
  destruct (Nat.eqb x a); [exact Hnd'|].
  constructor; [|apply IH; exact Hnd'].
  intros Hin. apply (in_remove_nat x a l Hnd') in Hin. tauto.
Qed.

Lemma mem_nat_in x l : mem_nat x l = true <-> In x l.
Proof.
  unfold mem_nat. rewrite existsb_exists. split.
  - intros (y & Hy & E). apply Nat.eqb_eq in E. subst. exact Hy.
  - intros H. exists x. split; [exact H|apply Nat.eqb_refl].
Qed.

Lemma nodup_app_single (l : list nat) x : NoDup l -> ~ In x l -> NoDup (l ++ [x]).
Proof.
  intros Hnd Hx. apply NoDup_app_iff || idtac.
  induction l as [|a l IH]; cbn; [constructor; [intros []|constructor]|].
  inversion Hnd as [|? ? Hnotin Hnd']; subst.
  constructor.
  - intros Hin. apply in_app_or in Hin. destruct Hin as [Hin|[->|[]]]; [contradiction|apply Hx; left; reflexivity].
  - apply IH; [exact Hnd'|intros Hin; apply Hx; right; exact Hin].
Qed.

Lemma option_eq_dec_nat (o : option nat) (c : nat) : {o = Some c} + {o <> Some c}.
Proof. destruct o as [x|]; [destruct (Nat.eq_dec x c); [left; congruence|right; congruence]|right; discriminate]. Qed.

(* ---------------------------------------------------------------- the binding invariant *)

Record Bind0 (sx : static) (st : state) : Prop := {
  b_len_t : length (threads st) = length (s_threads sx);
  b_len_c : length (cpu_threads st) = length (s_cpus sx);
  b_in : forall c t, In t (cl st c) -> t < length (threads st) /\ t_cpu (thr st t) = Some c;
  b_cpu : forall t c, t < length (threads st) -> t_cpu (thr st t) = Some c -> c < length (cpu_threads st) /\ In t (cl st c);
  b_nodup : forall c, NoDup (cl st c);
  b_state : forall t, t < length (threads st) ->
              (t_cpu (thr st t) = None <-> (t_state (thr st t) = Unknown \/ t_state (thr st t) = Dead));
  b_ooc : forall t, t < length (threads st) -> t_ooc (thr st t) = false
}.

Definition Bind (sx : static) (st : state) : Prop :=
  Bind0 sx st /\ forall c, oversubscribed sx st c = false.

(* running threads of a CPU, semantically *)
Lemma running_on_cl st c : running_on st c = filter (fun t => is_running (t_state (thr st t))) (cl st c).
Proof. reflexivity. Qed.

Lemma find_cpu_from_lt cpus loom idx g c : find_cpu_from cpus loom idx g = Some c -> g <= c < g + length cpus.
Proof.
  revert g. induction cpus as [|ci r IH]; intros g H; cbn in H; [discriminate|].
  destruct (Nat.eqb (ci_loom ci) loom && (ci_index ci =? idx)%Z).
  - inversion H; subst. cbn. lia.
  - apply IH in H. cbn. lia.
Qed.

Lemma find_cpu_lt sx loom idx c : find_cpu sx loom idx = Some c -> c < length (s_cpus sx).
Proof. unfold find_cpu. intros H. apply find_cpu_from_lt in H. lia. Qed.

(* ---------------------------------------------------------------- counting running threads *)

Lemma proj_length st : length (proj st) = length (threads st).
Proof. unfold proj. apply map_length. Qed.

Lemma proj_nth st t : t < length (threads st) -> nth_error (proj st) t = Some (t_state (thr st t), t_cpu (thr st t)).
Proof.
  intros H. unfold proj, thr. rewrite nth_error_map.
  destruct (nth_error (threads st) t) as [th|] eqn:E.
  - cbn. rewrite (nth_error_nth _ _ _ dummy_thread E). reflexivity.
  - apply nth_error_None in E. lia.
Qed.

(* filter over a list seen as filter over its indices *)
Lemma filter_length_seq {A} (f : A -> bool) (l : list A) (d : A) :
  length (filter f l) = length (filter (fun i => f (nth i l d)) (seq 0 (length l))).
Proof.
  assert (H : forall (l : list A) k (g : nat -> A), (forall i, i < length l -> g (k + i) = nth i l d) ->
              length (filter f l) = length (filter (fun i => f (g i)) (seq k (length l)))).
  { clear l. induction l as [|a l IH]; intros k g Hg; [reflexivity|].
    assert (E : g k = a).
    { specialize (Hg 0). cbn [nth length] in Hg. rewrite Nat.add_0_r in Hg. apply Hg. lia. }
    assert (Hl : length (filter f l) = length (filter (fun i => f (g i)) (seq (S k) (length l)))).
    { apply IH. intros i Hi. specialize (Hg (S i)). cbn [nth length] in Hg.
      replace (S k + i) with (k + S i) by lia. apply Hg. lia. }
    cbn [length seq filter]. rewrite E. destruct (f a); cbn [length]; rewrite Hl; reflexivity. }
  apply (H l 0 (fun i => nth i l d)). intros i _. reflexivity.
Qed.

Lemma srunning_nrunning sx st c :
  Bind0 sx st -> srunning (proj st) c = nrunning st c.
Proof.
  intros B. unfold srunning, nrunning. rewrite running_on_cl.
  rewrite (filter_length_seq (bound_running c) (proj st) (Unknown, None)).
  rewrite proj_length.
  apply Permutation_length. apply NoDup_Permutation.
  - apply NoDup_filter. apply seq_NoDup.
  - apply NoDup_filter. apply (b_nodup _ _ B).
  - intros t. rewrite !filter_In, in_seq. split.
    + intros [[_ Hlt] Hb]. cbn in Hlt.
      assert (Hn : nth t (proj st) (Unknown, None) = (t_state (thr st t), t_cpu (thr st t))).
      { apply nth_error_nth. apply proj_nth. exact Hlt. }
      rewrite Hn in Hb. unfold bound_running in Hb. cbn [fst snd] in Hb.
      apply andb_true_iff in Hb. destruct Hb as [Hr Hc]. apply opt_nat_eqb_eq in Hc.
      split; [|exact Hr]. apply (b_cpu _ _ B t c Hlt Hc).
    + intros [Hin Hr]. destruct (b_in _ _ B c t Hin) as [Hlt Hc].
      split; [cbn; lia|].
      assert (Hn : nth t (proj st) (Unknown, None) = (t_state (thr st t), t_cpu (thr st t))).
      { apply nth_error_nth. apply proj_nth. exact Hlt. }
      rewrite Hn. unfold bound_running. cbn [fst snd]. rewrite Hr, Hc. cbn. apply Nat.eqb_refl.
Qed.

Lemma s_oversub_iff sx st : Bind0 sx st ->
  s_oversub sx (proj st) = existsb (fun c => oversubscribed sx st c) (seq 0 (length (s_cpus sx))).
Proof.
  intros B. unfold s_oversub, oversubscribed.
  induction (seq 0 (length (s_cpus sx))) as [|c l IH]; cbn [existsb]; [reflexivity|].
  rewrite (srunning_nrunning sx st c B), IH. reflexivity.
Qed.

(* ---------------------------------------------------------------- simplification of accessors *)

Lemma thr_touch st c t : thr (touch st c) t = thr st t. Proof. reflexivity. Qed.
Lemma thr_set_cl st c l t : thr (set_cpu_threads st c l) t = thr st t. Proof. reflexivity. Qed.
Lemma cl_touch st c c' : cl (touch st c) c' = cl st c'. Proof. reflexivity. Qed.
Lemma cl_set_thread st t th c : cl (set_thread st t th) c = cl st c. Proof. reflexivity. Qed.
Lemma len_t_touch st c : length (threads (touch st c)) = length (threads st). Proof. reflexivity. Qed.
Lemma len_t_set_cl st c l : length (threads (set_cpu_threads st c l)) = length (threads st). Proof. reflexivity. Qed.
Lemma len_t_set_thread st t th : length (threads (set_thread st t th)) = length (threads st).
Proof. unfold set_thread. cbn [threads]. apply update_length. Qed.
Lemma len_c_touch st c : length (cpu_threads (touch st c)) = length (cpu_threads st). Proof. reflexivity. Qed.
Lemma len_c_set_thread st t th : length (cpu_threads (set_thread st t th)) = length (cpu_threads st). Proof. reflexivity. Qed.
Lemma len_c_set_cl st c l : length (cpu_threads (set_cpu_threads st c l)) = length (cpu_threads st).
Proof. unfold set_cpu_threads. cbn [cpu_threads]. apply update_length. Qed.

Lemma proj_set_thread st t th : proj (set_thread st t th) = update (proj st) t (t_state th, t_cpu th).
Proof. unfold proj, set_thread. cbn [threads]. rewrite map_update. reflexivity. Qed.
Lemma proj_set_cl st c l : proj (set_cpu_threads st c l) = proj st. Proof. reflexivity. Qed.
Lemma proj_touch st c : proj (touch st c) = proj st. Proof. reflexivity. Qed.

Lemma oversub_touch sx st c c' : oversubscribed sx (touch st c) c' = oversubscribed sx st c'.
Proof. reflexivity. Qed.

(* ---------------------------------------------------------------- generic update of one thread and the lists *)

(* new state: thread t replaced by th', list of c1 replaced by l1 and then list of c2 by l2 *)
Definition upd (st : state) (t : nat) (th' : thread) (c1 : nat) (l1 : list nat) (c2 : nat) (l2 : list nat) : state :=
  set_cpu_threads (set_cpu_threads (set_thread st t th') c1 l1) c2 l2.

Lemma thr_upd_same st t th' c1 l1 c2 l2 : t < length (threads st) -> thr (upd st t th' c1 l1 c2 l2) t = th'.
Proof. intros H. unfold upd. rewrite !thr_set_cl. apply thr_set_thread_same. exact H. Qed.
Lemma thr_upd_other st t th' c1 l1 c2 l2 t' : t <> t' -> thr (upd st t th' c1 l1 c2 l2) t' = thr st t'.
Proof. intros H. unfold upd. rewrite !thr_set_cl. apply thr_set_thread_other. exact H. Qed.

Lemma cl_upd st t th' c1 l1 c2 l2 c :
  c1 < length (cpu_threads st) -> c2 < length (cpu_threads st) ->
  cl (upd st t th' c1 l1 c2 l2) c = if Nat.eqb c c2 then l2 else if Nat.eqb c c1 then l1 else cl st c.
Proof.
  intros H1 H2. unfold upd.
  destruct (Nat.eqb c c2) eqn:E2.
  - apply Nat.eqb_eq in E2. subst. apply cl_set_same. rewrite len_c_set_cl, len_c_set_thread. exact H2.
  - apply Nat.eqb_neq in E2. rewrite cl_set_other by congruence.
    destruct (Nat.eqb c c1) eqn:E1.
    + apply Nat.eqb_eq in E1. subst. apply cl_set_same. rewrite len_c_set_thread. exact H1.
    + apply Nat.eqb_neq in E1. rewrite cl_set_other by congruence. apply cl_set_thread.
Qed.

(* The membership table of the new lists, given as a predicate *)
Lemma Bind0_upd sx st t th' c1 l1 c2 l2 :
  Bind0 sx st -> t < length (threads st) ->
  c1 < length (cpu_threads st) -> c2 < length (cpu_threads st) ->
  t_ooc th' = false ->
  (t_cpu th' = None <-> (t_state th' = Unknown \/ t_state th' = Dead)) ->
  NoDup l1 -> NoDup l2 ->
  (* membership in the new lists is membership in the old ones, except for t which is exactly in the list of its new CPU *)
  (forall c x, x <> t ->
     (In x (if Nat.eqb c c2 then l2 else if Nat.eqb c c1 then l1 else cl st c) <-> In x (cl st c))) ->
  (forall c, In t (if Nat.eqb c c2 then l2 else if Nat.eqb c c1 then l1 else cl st c) <-> t_cpu th' = Some c) ->
  (forall c, t_cpu th' = Some c -> c < length (cpu_threads st)) ->
  Bind0 sx (upd st t th' c1 l1 c2 l2).
Proof.
  intros B Ht Hc1 Hc2 Hooc Hst Hn1 Hn2 Hother Hself Hrange.
  assert (Hlt : length (threads (upd st t th' c1 l1 c2 l2)) = length (threads st)).
  { unfold upd. rewrite !len_t_set_cl. apply len_t_set_thread. }
  assert (Hlc : length (cpu_threads (upd st t th' c1 l1 c2 l2)) = length (cpu_threads st)).
  { unfold upd. rewrite !len_c_set_cl. apply len_c_set_thread. }
  constructor.
  - rewrite Hlt. apply (b_len_t _ _ B).
  - rewrite Hlc. apply (b_len_c _ _ B).
  - intros c x Hin. rewrite Hlt. rewrite cl_upd in Hin by assumption.
    destruct (Nat.eq_dec x t) as [->|Hne].
    + split; [exact Ht|]. rewrite thr_upd_same by exact Ht. apply Hself. exact Hin.
    + rewrite thr_upd_other by congruence. apply (b_in _ _ B c x). apply (Hother c x Hne). exact Hin.
  - intros x c Hx Hcpu. rewrite Hlt in Hx. rewrite Hlc. rewrite cl_upd by assumption.
    destruct (Nat.eq_dec x t) as [->|Hne].
    + rewrite thr_upd_same in Hcpu by exact Ht. split; [apply Hrange; exact Hcpu|apply Hself; exact Hcpu].
    + rewrite thr_upd_other in Hcpu by congruence. destruct (b_cpu _ _ B x c Hx Hcpu) as [Hr Hin].
      split; [exact Hr|apply (Hother c x Hne); exact Hin].
  - intros c. rewrite cl_upd by assumption.
    destruct (Nat.eqb c c2); [exact Hn2|]. destruct (Nat.eqb c c1); [exact Hn1|apply (b_nodup _ _ B)].
  - intros x Hx. rewrite Hlt in Hx. destruct (Nat.eq_dec x t) as [->|Hne].
    + rewrite thr_upd_same by exact Ht. exact Hst.
    + rewrite thr_upd_other by congruence. apply (b_state _ _ B x Hx).
  - intros x Hx. rewrite Hlt in Hx. destruct (Nat.eq_dec x t) as [->|Hne].
    + rewrite thr_upd_same by exact Ht. exact Hooc.
    + rewrite thr_upd_other by congruence. apply (b_ooc _ _ B x Hx).
Qed.

(* ---------------------------------------------------------------- states that differ only in bookkeeping fields *)

Definition same_core (a b : state) : Prop := threads a = threads b /\ cpu_threads a = cpu_threads b.

Lemma same_core_Bind0 sx a b : same_core a b -> Bind0 sx a -> Bind0 sx b.
Proof.
  intros [Ht Hc] B. destruct B as [l1 l2 bi bc bn bs bo].
  unfold thr, cl in *. constructor; unfold thr, cl; rewrite <- ?Ht, <- ?Hc; assumption.
Qed.

Lemma same_core_proj a b : same_core a b -> proj a = proj b.
Proof. intros [Ht _]. unfold proj. rewrite Ht. reflexivity. Qed.

Lemma same_core_oversub sx a b c : same_core a b -> oversubscribed sx a c = oversubscribed sx b c.
Proof.
  intros [Ht Hc]. unfold oversubscribed, nrunning, running_on, thread_state_of. rewrite Ht, Hc. reflexivity.
Qed.

Lemma same_core_all_dead a b : same_core a b -> all_dead a = all_dead b.
Proof. intros [Ht _]. unfold all_dead. rewrite Ht. reflexivity. Qed.

(* ---------------------------------------------------------------- occupancy after an update *)

Lemma running_on_in st c x : In x (running_on st c) <-> In x (cl st c) /\ is_running (t_state (thr st x)) = true.
Proof. rewrite running_on_cl, filter_In. reflexivity. Qed.

Lemma nosub_upd sx st t th' c1 l1 c2 l2 :
  Bind sx st -> Bind0 sx (upd st t th' c1 l1 c2 l2) -> t < length (threads st) ->
  c1 < length (cpu_threads st) -> c2 < length (cpu_threads st) ->
  (forall c x, x <> t ->
     (In x (if Nat.eqb c c2 then l2 else if Nat.eqb c c1 then l1 else cl st c) <-> In x (cl st c))) ->
  (forall c, In t (if Nat.eqb c c2 then l2 else if Nat.eqb c c1 then l1 else cl st c) <-> t_cpu th' = Some c) ->
  (forall c, t_cpu th' = Some c -> oversubscribed sx (upd st t th' c1 l1 c2 l2) c = false) ->
  forall c, oversubscribed sx (upd st t th' c1 l1 c2 l2) c = false.
Proof.
  intros [B Hns] B' Ht Hc1 Hc2 Hother Hself Hchk c.
  destruct (option_eq_dec_nat (t_cpu th') c) as [E|E]; [apply Hchk; exact E|].
  specialize (Hns c). unfold oversubscribed in *.
  destruct (negb (cpu_is_virtual sx c)); [|reflexivity]. cbn [andb] in *.
  apply Nat.ltb_ge. apply Nat.ltb_ge in Hns.
  unfold nrunning in *.
  eapply Nat.le_trans; [|exact Hns].
  apply NoDup_incl_length.
  - rewrite running_on_cl. apply NoDup_filter. apply (b_nodup _ _ B').
  - intros x Hx. apply running_on_in in Hx. destruct Hx as [Hin Hr].
    rewrite cl_upd in Hin by assumption.
    destruct (Nat.eq_dec x t) as [->|Hne].
    + exfalso. apply E. apply Hself. exact Hin.
    + rewrite thr_upd_other in Hr by congruence. apply running_on_in. split; [apply (Hother c x Hne); exact Hin|exact Hr].
Qed.

(* ---------------------------------------------------------------- one generic result lemma *)

Lemma update_twice {A} (l : list A) n x y : update (update l n x) n y = update l n y.
Proof. revert n. induction l as [|h t IH]; intros [|n]; cbn; auto. rewrite IH. reflexivity. Qed.

Lemma proj_upd st t th' c1 l1 c2 l2 : proj (upd st t th' c1 l1 c2 l2) = update (proj st) t (t_state th', t_cpu th').
Proof. unfold upd. rewrite !proj_set_cl. apply proj_set_thread. Qed.

Lemma check_upd sx st t th' c1 l1 c2 l2 :
  Bind sx st -> t < length (threads st) ->
  c1 < length (cpu_threads st) -> c2 < length (cpu_threads st) ->
  t_ooc th' = false ->
  (t_cpu th' = None <-> (t_state th' = Unknown \/ t_state th' = Dead)) ->
  NoDup l1 -> NoDup l2 ->
  (forall c x, x <> t ->
     (In x (if Nat.eqb c c2 then l2 else if Nat.eqb c c1 then l1 else cl st c) <-> In x (cl st c))) ->
  (forall c, In t (if Nat.eqb c c2 then l2 else if Nat.eqb c c1 then l1 else cl st c) <-> t_cpu th' = Some c) ->
  (forall c, t_cpu th' = Some c -> c < length (cpu_threads st)) ->
  let st' := upd st t th' c1 l1 c2 l2 in
  Bind0 sx st' /\
  match t_cpu th' with
  | Some c => if oversubscribed sx st' c then check sx (proj st') = None
              else check sx (proj st') = Some (proj st') /\ Bind sx st'
  | None => check sx (proj st') = Some (proj st') /\ Bind sx st'
  end.
Proof.
  intros HB Ht Hc1 Hc2 Hooc Hst Hn1 Hn2 Hother Hself Hrange st'.
  assert (B' : Bind0 sx st') by (apply Bind0_upd; try assumption; apply HB).
  split; [exact B'|].
  assert (Hall : (forall c, t_cpu th' = Some c -> oversubscribed sx st' c = false) ->
                 check sx (proj st') = Some (proj st') /\ Bind sx st').
  { intros Hchk.
    pose proof (nosub_upd sx st t th' c1 l1 c2 l2 HB B' Ht Hc1 Hc2 Hother Hself Hchk) as Hns.
    split; [|split; [exact B'|exact Hns]].
    unfold check. rewrite (s_oversub_iff sx st' B').
    destruct (existsb (fun c => oversubscribed sx st' c) (seq 0 (length (s_cpus sx)))) eqn:E; [|reflexivity].
    apply existsb_exists in E. destruct E as (c & _ & Hc). rewrite Hns in Hc. discriminate. }
  destruct (t_cpu th') as [c|] eqn:Ecpu.
  - destruct (oversubscribed sx st' c) eqn:Eo.
    + unfold check. rewrite (s_oversub_iff sx st' B').
      assert (Hex : existsb (fun c => oversubscribed sx st' c) (seq 0 (length (s_cpus sx))) = true).
      { apply existsb_exists. exists c. split; [|exact Eo]. apply in_seq. split; [lia|]. cbn.
        rewrite <- (b_len_c _ _ (proj1 HB)). apply Hrange. reflexivity. }
      rewrite Hex. reflexivity.
    + apply Hall. intros c' Hc'. inversion Hc'; subst. exact Eo.
  - apply Hall. intros c' Hc'. discriminate.
Qed.

(* ---------------------------------------------------------------- the four kinds of handler *)

Lemma bound_iff sx st t c c' :
  Bind0 sx st -> t < length (threads st) -> t_cpu (thr st t) = Some c -> (In t (cl st c') <-> Some c = Some c').
Proof.
  intros B Ht Hc. split.
  - intros Hin. destruct (b_in _ _ B c' t Hin) as [_ H]. congruence.
  - intros E. inversion E; subst. apply (b_cpu _ _ B t c' Ht Hc).
Qed.

Lemma unbound_notin sx st t c' :
  Bind0 sx st -> t_cpu (thr st t) = None -> ~ In t (cl st c').
Proof. intros B Hc Hin. destruct (b_in _ _ B c' t Hin) as [_ H]. congruence. Qed.

Lemma sim_change_state sx st who th ok new :
  Bind sx st -> nth_error (threads st) who = Some th ->
  (ok = true -> t_cpu th <> None /\ new <> Unknown /\ new <> Dead) ->
  match change_state sx st who th ok new with
  | Ok st' => ok = true /\ check sx (update (proj st) who (new, t_cpu th)) = Some (proj st') /\ Bind sx st'
  | Err _ => ok = false \/ check sx (update (proj st) who (new, t_cpu th)) = None
  end.
Proof.
  intros HB Hn Hok. destruct (nth_error_thr _ _ _ Hn) as [Hth Hlt].
  unfold change_state. destruct ok; cbn [negb]; [|left; reflexivity].
  destruct (Hok eq_refl) as (Hcpu & HnU & HnD).
  destruct (t_cpu th) as [c|] eqn:Ec; [|contradiction].
  assert (Hc : c < length (cpu_threads st) /\ In who (cl st c)).
  { apply (b_cpu _ _ (proj1 HB) who c Hlt). rewrite Hth. exact Ec. }
  set (th' := with_state th new).
  pose proof (check_upd sx st who th' c (cl st c) c (cl st c) HB Hlt (proj1 Hc) (proj1 Hc)) as K.
  assert (Hooc : t_ooc th' = false) by (cbn; rewrite <- Hth; apply (b_ooc _ _ (proj1 HB) who Hlt)).
  assert (Hst : t_cpu th' = None <-> t_state th' = Unknown \/ t_state th' = Dead).
  { cbn. rewrite Ec. split; [discriminate|intros [H|H]; contradiction]. }
  specialize (K Hooc Hst (b_nodup _ _ (proj1 HB) c) (b_nodup _ _ (proj1 HB) c)).
  assert (Hother : forall c0 x, x <> who ->
     (In x (if Nat.eqb c0 c then cl st c else if Nat.eqb c0 c then cl st c else cl st c0) <-> In x (cl st c0))).
  { intros c0 x _. destruct (Nat.eqb c0 c) eqn:E; [apply Nat.eqb_eq in E; subst|]; tauto. }
  assert (Hself : forall c0, In who (if Nat.eqb c0 c then cl st c else if Nat.eqb c0 c then cl st c else cl st c0) <-> t_cpu th' = Some c0).
  { intros c0. cbn [t_cpu th' with_state]. rewrite Ec.
    destruct (Nat.eqb c0 c) eqn:E.
    - apply Nat.eqb_eq in E. subst. split; [reflexivity|intros _; exact (proj2 Hc)].
    - apply Nat.eqb_neq in E. rewrite (bound_iff sx st who c c0 (proj1 HB) Hlt) by (rewrite Hth; exact Ec). reflexivity. }
  assert (Hrange : forall c0, t_cpu th' = Some c0 -> c0 < length (cpu_threads st)).
  { intros c0 H. cbn in H. rewrite Ec in H. inversion H; subst. exact (proj1 Hc). }
  specialize (K Hother Hself Hrange). cbv zeta in K. destruct K as [B' K].
  assert (Hsc : same_core (touch (set_thread st who th') c) (upd st who th' c (cl st c) c (cl st c))).
  { split; [reflexivity|]. unfold upd, set_cpu_threads, touch, set_thread, cl. cbn [cpu_threads].
    rewrite update_twice, update_nth_id. reflexivity. }
  replace (t_cpu th') with (Some c) in K by (cbn; congruence).
  rewrite (same_core_oversub sx _ _ c Hsc).
  rewrite proj_upd in K. cbn [t_state t_cpu th' with_state] in K. rewrite Ec in K.
  destruct (oversubscribed sx (upd st who th' c (cl st c) c (cl st c)) c).
  - right. exact K.
  - destruct K as [K1 K2]. split; [reflexivity|].
    rewrite (same_core_proj _ _ Hsc), proj_upd. cbn [t_state t_cpu th' with_state]. rewrite Ec.
    split; [exact K1|].
    destruct K2 as [K2 K3]. split.
    + apply (same_core_Bind0 sx (upd st who th' c (cl st c) c (cl st c))); [|exact K2].
      destruct Hsc as [A1 A2]. split; congruence.
    + intros c0. rewrite (same_core_oversub sx _ _ c0 Hsc). apply K3.
Qed.

Lemma same_core_sym a b : same_core a b -> same_core b a.
Proof. intros [A B]. split; congruence. Qed.

Lemma same_core_Bind sx a b : same_core a b -> Bind sx a -> Bind sx b.
Proof.
  intros H [B N]. split; [apply (same_core_Bind0 sx a b H B)|].
  intros c. rewrite <- (same_core_oversub sx a b c H). apply N.
Qed.

Lemma sim_generic sx st t th' c1 l1 c2 l2 stm :
  Bind sx st -> t < length (threads st) ->
  c1 < length (cpu_threads st) -> c2 < length (cpu_threads st) ->
  t_ooc th' = false ->
  (t_cpu th' = None <-> (t_state th' = Unknown \/ t_state th' = Dead)) ->
  NoDup l1 -> NoDup l2 ->
  (forall c x, x <> t ->
     (In x (if Nat.eqb c c2 then l2 else if Nat.eqb c c1 then l1 else cl st c) <-> In x (cl st c))) ->
  (forall c, In t (if Nat.eqb c c2 then l2 else if Nat.eqb c c1 then l1 else cl st c) <-> t_cpu th' = Some c) ->
  (forall c, t_cpu th' = Some c -> c < length (cpu_threads st)) ->
  same_core stm (upd st t th' c1 l1 c2 l2) ->
  proj stm = update (proj st) t (t_state th', t_cpu th') /\
  match t_cpu th' with
  | Some c => if oversubscribed sx stm c then check sx (proj stm) = None
              else check sx (proj stm) = Some (proj stm) /\ Bind sx stm
  | None => check sx (proj stm) = Some (proj stm) /\ Bind sx stm
  end.
Proof.
  intros HB Ht Hc1 Hc2 Hooc Hst Hn1 Hn2 Hother Hself Hrange Hsc.
  destruct (check_upd sx st t th' c1 l1 c2 l2 HB Ht Hc1 Hc2 Hooc Hst Hn1 Hn2 Hother Hself Hrange) as [B' K].
  rewrite (same_core_proj _ _ Hsc). split; [apply proj_upd|].
  destruct (t_cpu th') as [c|].
  - rewrite (same_core_oversub sx _ _ c Hsc).
    destruct (oversubscribed sx (upd st t th' c1 l1 c2 l2) c); [exact K|].
    destruct K as [K1 K2]. split; [exact K1|]. apply (same_core_Bind sx _ _ (same_core_sym _ _ Hsc) K2).
  - destruct K as [K1 K2]. split; [exact K1|]. apply (same_core_Bind sx _ _ (same_core_sym _ _ Hsc) K2).
Qed.

(* Execute: an unbound thread is bound to c and starts running *)
Lemma sim_bind sx st who th c new :
  Bind sx st -> nth_error (threads st) who = Some th -> t_cpu th = None ->
  c < length (cpu_threads st) -> new <> Unknown -> new <> Dead ->
  let th' := with_state (with_cpu th (Some c)) new in
  let stm := touch (set_cpu_threads (set_thread st who th') c (nth c (cpu_threads (set_thread st who th')) [] ++ [who])) c in
  mem_nat who (nth c (cpu_threads st) []) = false /\
  proj stm = update (proj st) who (new, Some c) /\
  (if oversubscribed sx stm c then check sx (proj stm) = None
   else check sx (proj stm) = Some (proj stm) /\ Bind sx stm).
Proof.
  intros HB Hn Hcpu Hc HnU HnD th' stm.
  destruct (nth_error_thr _ _ _ Hn) as [Hth Hlt].
  assert (Hnotin : forall c', ~ In who (cl st c')).
  { intros c'. apply (unbound_notin sx st who c' (proj1 HB)). rewrite Hth. exact Hcpu. }
  split.
  { destruct (mem_nat who (nth c (cpu_threads st) [])) eqn:E; [|reflexivity].
    apply mem_nat_in in E. exfalso. apply (Hnotin c). exact E. }
  assert (K := sim_generic sx st who th' c (cl st c ++ [who]) c (cl st c ++ [who]) stm HB Hlt Hc Hc).
  assert (Hooc : t_ooc th' = false) by (cbn; rewrite <- Hth; apply (b_ooc _ _ (proj1 HB) who Hlt)).
  assert (Hst : t_cpu th' = None <-> t_state th' = Unknown \/ t_state th' = Dead).
  { cbn. split; [discriminate|intros [H|H]; contradiction]. }
  assert (Hnd : NoDup (cl st c ++ [who])) by (apply nodup_app_single; [apply (b_nodup _ _ (proj1 HB))|apply Hnotin]).
  specialize (K Hooc Hst Hnd Hnd).
  assert (Hother : forall c0 x, x <> who ->
     (In x (if Nat.eqb c0 c then cl st c ++ [who] else if Nat.eqb c0 c then cl st c ++ [who] else cl st c0) <-> In x (cl st c0))).
  { intros c0 x Hne. destruct (Nat.eqb c0 c) eqn:E; [apply Nat.eqb_eq in E; subst|tauto].
    rewrite in_app_iff. cbn. split; [intros [H|[H|[]]]; [exact H|congruence]|intros H; left; exact H]. }
  assert (Hself : forall c0, In who (if Nat.eqb c0 c then cl st c ++ [who] else if Nat.eqb c0 c then cl st c ++ [who] else cl st c0) <-> t_cpu th' = Some c0).
  { intros c0. cbn [t_cpu th' with_state with_cpu].
    destruct (Nat.eqb c0 c) eqn:E.
    - apply Nat.eqb_eq in E. subst. split; [reflexivity|intros _; apply in_app_iff; right; left; reflexivity].
    - apply Nat.eqb_neq in E. split; [intros H; exfalso; apply (Hnotin c0); exact H|intros H; inversion H; congruence]. }
  assert (Hrange : forall c0, t_cpu th' = Some c0 -> c0 < length (cpu_threads st)).
  { intros c0 H. cbn in H. inversion H; subst. exact Hc. }
  assert (Hsc : same_core stm (upd st who th' c (cl st c ++ [who]) c (cl st c ++ [who]))).
  { split; [reflexivity|]. unfold stm, upd, set_cpu_threads, touch, set_thread, cl. cbn [cpu_threads].
    rewrite update_twice. reflexivity. }
  specialize (K Hother Hself Hrange Hsc). cbn [t_cpu t_state th' with_state with_cpu] in K. exact K.
Qed.

(* End: a bound thread is unbound and dies *)
Lemma sim_unbind sx st who th c :
  Bind sx st -> nth_error (threads st) who = Some th -> t_cpu th = Some c ->
  let th' := with_cpu (with_state th Dead) None in
  let stm := touch (set_cpu_threads (set_thread st who th') c (remove_nat who (nth c (cpu_threads (set_thread st who th')) []))) c in
  proj stm = update (proj st) who (Dead, None) /\ check sx (proj stm) = Some (proj stm) /\ Bind sx stm.
Proof.
  intros HB Hn Hcpu th' stm.
  destruct (nth_error_thr _ _ _ Hn) as [Hth Hlt].
  assert (Hc : c < length (cpu_threads st) /\ In who (cl st c)).
  { apply (b_cpu _ _ (proj1 HB) who c Hlt). rewrite Hth. exact Hcpu. }
  assert (K := sim_generic sx st who th' c (remove_nat who (cl st c)) c (remove_nat who (cl st c)) stm HB Hlt (proj1 Hc) (proj1 Hc)).
  assert (Hooc : t_ooc th' = false) by (cbn; rewrite <- Hth; apply (b_ooc _ _ (proj1 HB) who Hlt)).
  assert (Hst : t_cpu th' = None <-> t_state th' = Unknown \/ t_state th' = Dead).
  { cbn. split; [intros _; right; reflexivity|reflexivity]. }
  assert (Hnd : NoDup (remove_nat who (cl st c))) by (apply nodup_remove_nat; apply (b_nodup _ _ (proj1 HB))).
  specialize (K Hooc Hst Hnd Hnd).
  assert (Hother : forall c0 x, x <> who ->
     (In x (if Nat.eqb c0 c then remove_nat who (cl st c) else if Nat.eqb c0 c then remove_nat who (cl st c) else cl st c0) <-> In x (cl st c0))).
  { intros c0 x Hne. destruct (Nat.eqb c0 c) eqn:E; [apply Nat.eqb_eq in E; subst|tauto].
    rewrite (in_remove_nat who x (cl st c) (b_nodup _ _ (proj1 HB) c)). tauto. }
  assert (Hself : forall c0, In who (if Nat.eqb c0 c then remove_nat who (cl st c) else if Nat.eqb c0 c then remove_nat who (cl st c) else cl st c0) <-> t_cpu th' = Some c0).
  { intros c0. cbn [t_cpu th' with_state with_cpu]. split; [|discriminate].
    destruct (Nat.eqb c0 c) eqn:E.
    - rewrite (in_remove_nat who who (cl st c) (b_nodup _ _ (proj1 HB) c)). intros [_ H]. contradiction.
    - apply Nat.eqb_neq in E. intros Hin. exfalso.
      apply (bound_iff sx st who c c0 (proj1 HB) Hlt) in Hin; [congruence|rewrite Hth; exact Hcpu]. }
  assert (Hrange : forall c0, t_cpu th' = Some c0 -> c0 < length (cpu_threads st)) by (intros c0 H; discriminate).
  assert (Hsc : same_core stm (upd st who th' c (remove_nat who (cl st c)) c (remove_nat who (cl st c)))).
  { split; [reflexivity|]. unfold stm, upd, set_cpu_threads, touch, set_thread, cl. cbn [cpu_threads].
    rewrite update_twice. reflexivity. }
  specialize (K Hother Hself Hrange Hsc). cbn [t_cpu t_state th' with_state with_cpu] in K. exact K.
Qed.

Lemma oversub_states sx a b c :
  map t_state (threads a) = map t_state (threads b) -> cpu_threads a = cpu_threads b ->
  oversubscribed sx a c = oversubscribed sx b c.
Proof.
  intros Hs Hc. unfold oversubscribed, nrunning, running_on. rewrite Hc.
  assert (E : forall t, thread_state_of a t = thread_state_of b t).
  { intros t. unfold thread_state_of. rewrite <- !(map_nth t_state). rewrite Hs. reflexivity. }
  erewrite filter_ext; [reflexivity|]. intros t. cbv beta. rewrite E. reflexivity.
Qed.

(* migration of a bound thread t from old to new <> old *)
Lemma sim_migrate sx st t th old new :
  Bind sx st -> nth_error (threads st) t = Some th -> t_cpu th = Some old ->
  new < length (cpu_threads st) -> old <> new ->
  match migrate sx st t th old new with
  | Ok stm => proj stm = update (proj st) t (t_state th, Some new) /\
              check sx (proj stm) = Some (proj stm) /\ Bind sx stm
  | Err _ => check sx (update (proj st) t (t_state th, Some new)) = None
  end.
Proof.
  intros HB Hn Hcpu Hnew Hne.
  destruct (nth_error_thr _ _ _ Hn) as [Hth Hlt].
  assert (Hc : old < length (cpu_threads st) /\ In t (cl st old)).
  { apply (b_cpu _ _ (proj1 HB) t old Hlt). rewrite Hth. exact Hcpu. }
  assert (Hstate : t_state th <> Unknown /\ t_state th <> Dead).
  { pose proof (b_state _ _ (proj1 HB) t Hlt) as Hs. rewrite Hth in Hs. rewrite Hcpu in Hs.
    split; intros E; destruct Hs as [_ Hs]; [specialize (Hs (or_introl E))|specialize (Hs (or_intror E))]; discriminate. }
  set (th' := with_cpu th (Some new)).
  set (l1 := remove_nat t (cl st old)).
  set (l2 := cl st new ++ [t]).
  unfold migrate.
  set (st1 := touch (set_cpu_threads st old (remove_nat t (nth old (cpu_threads st) []))) old).
  assert (Hcl1 : nth new (cpu_threads st1) [] = cl st new).
  { unfold st1, touch, set_cpu_threads, cl. cbn [cpu_threads]. apply nth_update_other. exact Hne. }
  rewrite Hcl1.
  assert (Hnotin : ~ In t (cl st new)).
  { intros Hin. apply (bound_iff sx st t old new (proj1 HB) Hlt) in Hin; [congruence|rewrite Hth; exact Hcpu]. }
  destruct (mem_nat t (cl st new)) eqn:Em; [apply mem_nat_in in Em; contradiction|].
  set (st2 := touch (set_cpu_threads st1 new (cl st new ++ [t])) new).
  set (stm := set_thread st2 t th').
  assert (K := sim_generic sx st t th' old l1 new l2 stm HB Hlt (proj1 Hc) Hnew).
  assert (Hooc : t_ooc th' = false) by (cbn; rewrite <- Hth; apply (b_ooc _ _ (proj1 HB) t Hlt)).
  assert (Hst : t_cpu th' = None <-> t_state th' = Unknown \/ t_state th' = Dead).
  { cbn. split; [discriminate|intros [H|H]; [destruct Hstate as [A _]|destruct Hstate as [_ A]]; contradiction]. }
  assert (Hn1 : NoDup l1) by (apply nodup_remove_nat; apply (b_nodup _ _ (proj1 HB))).
  assert (Hn2 : NoDup l2) by (apply nodup_app_single; [apply (b_nodup _ _ (proj1 HB))|exact Hnotin]).
  specialize (K Hooc Hst Hn1 Hn2).
  assert (Hother : forall c0 x, x <> t ->
     (In x (if Nat.eqb c0 new then l2 else if Nat.eqb c0 old then l1 else cl st c0) <-> In x (cl st c0))).
  { intros c0 x Hx. destruct (Nat.eqb c0 new) eqn:E2.
    - apply Nat.eqb_eq in E2. subst c0. unfold l2. rewrite in_app_iff. cbn.
      split; [intros [H|[H|[]]]; [exact H|congruence]|intros H; left; exact H].
    - destruct (Nat.eqb c0 old) eqn:E1; [|tauto]. apply Nat.eqb_eq in E1. subst c0. unfold l1.
      rewrite (in_remove_nat t x (cl st old) (b_nodup _ _ (proj1 HB) old)). tauto. }
  assert (Hself : forall c0, In t (if Nat.eqb c0 new then l2 else if Nat.eqb c0 old then l1 else cl st c0) <-> t_cpu th' = Some c0).
  { intros c0. cbn [t_cpu th' with_cpu]. destruct (Nat.eqb c0 new) eqn:E2.
    - apply Nat.eqb_eq in E2. subst c0. split; [reflexivity|intros _; unfold l2; apply in_app_iff; right; left; reflexivity].
    - apply Nat.eqb_neq in E2. split; [|intros H; inversion H; congruence]. intros Hin. exfalso.
      destruct (Nat.eqb c0 old) eqn:E1.
      + unfold l1 in Hin. apply (in_remove_nat t t (cl st old) (b_nodup _ _ (proj1 HB) old)) in Hin. tauto.
      + apply Nat.eqb_neq in E1. apply (bound_iff sx st t old c0 (proj1 HB) Hlt) in Hin; [congruence|rewrite Hth; exact Hcpu]. }
  assert (Hrange : forall c0, t_cpu th' = Some c0 -> c0 < length (cpu_threads st)).
  { intros c0 H. cbn in H. inversion H; subst. exact Hnew. }
  assert (Hsc : same_core stm (upd st t th' old l1 new l2)).
  { split; reflexivity. }
  specialize (K Hother Hself Hrange Hsc). cbn [t_cpu t_state th' with_cpu] in K.
  destruct K as [Kp K].
  assert (Hov : oversubscribed sx st2 new = oversubscribed sx stm new).
  { apply oversub_states; [|reflexivity]. unfold stm, set_thread. cbn [threads].
    rewrite map_update. cbn [t_state th' with_cpu]. rewrite <- Hth.
    unfold thr. change (threads st) with (threads st2).
    rewrite <- (map_nth t_state). rewrite update_nth_id. reflexivity. }
  rewrite Hov.
  destruct (oversubscribed sx stm new).
  - rewrite <- Kp. exact K.
  - split; [exact Kp|exact K].
Qed.

(* ---------------------------------------------------------------- one step: emulator handlers = documented machine *)

Lemma check_same sx st : Bind sx st -> check sx (proj st) = Some (proj st).
Proof.
  intros [B N]. unfold check. rewrite (s_oversub_iff sx st B).
  destruct (existsb (fun c => oversubscribed sx st c) (seq 0 (length (s_cpus sx)))) eqn:E; [|reflexivity].
  apply existsb_exists in E. destruct E as (c & _ & Hc). rewrite N in Hc. discriminate.
Qed.

Lemma update_proj_id st t th : nth_error (threads st) t = Some th -> update (proj st) t (t_state th, t_cpu th) = proj st.
Proof.
  intros Hn. destruct (nth_error_thr _ _ _ Hn) as [Hth Hlt].
  assert (E : (t_state th, t_cpu th) = nth t (proj st) (Unknown, None)).
  { symmetry. apply nth_error_nth. rewrite proj_nth by exact Hlt. rewrite Hth. reflexivity. }
  rewrite E. apply update_nth_id.
Qed.

Lemma proj_nth_none st t : nth_error (threads st) t = None -> nth_error (proj st) t = None.
Proof. intros H. apply nth_error_None. rewrite proj_length. apply nth_error_None. exact H. Qed.

Lemma proj_nth_some st t th : nth_error (threads st) t = Some th -> nth_error (proj st) t = Some (t_state th, t_cpu th).
Proof. intros H. destruct (nth_error_thr _ _ _ H) as [Hth Hlt]. rewrite proj_nth by exact Hlt. rewrite Hth. reflexivity. Qed.

Theorem sim_step sx st who e :
  Bind sx st ->
  match oh_step sx st who e with
  | Ok st' => spec_step sx (proj st) who e = Some (proj st') /\ Bind sx st'
  | Err _ => spec_step sx (proj st) who e = None
  end.
Proof.
  intros HB. unfold oh_step, spec_step, nth_opt.
  destruct (nth_error (threads st) who) as [th|] eqn:Hn.
  2:{ rewrite (proj_nth_none _ _ Hn). reflexivity. }
  rewrite (proj_nth_some _ _ _ Hn).
  destruct (nth_error_thr _ _ _ Hn) as [Hth Hlt].
  assert (Hooc : t_ooc th = false) by (rewrite <- Hth; apply (b_ooc _ _ (proj1 HB) who Hlt)).
  rewrite Hooc.
  pose proof (b_state _ _ (proj1 HB) who Hlt) as Hbs. rewrite Hth in Hbs.
  assert (Hcpu_of_state : forall c, t_cpu th = Some c -> t_state th <> Unknown /\ t_state th <> Dead).
  { intros c Hc. split; intros E; destruct Hbs as [_ Hs]; [specialize (Hs (or_introl E))|specialize (Hs (or_intror E))]; congruence. }
  destruct e as [idx | | | | | | idx | idx tid].
  - (* Execute *)
    destruct (t_state th) eqn:Es; cbn [is_running fsm].
    + (* Unknown *)
      assert (Hc : t_cpu th = None) by (apply Hbs; left; reflexivity).
      destruct (find_cpu sx (thread_loom sx who) idx) as [c|] eqn:Ef; [|reflexivity].
      rewrite Hc.
      assert (Hcl : c < length (cpu_threads st)) by (rewrite (b_len_c _ _ (proj1 HB)); eapply find_cpu_lt; eauto).
      destruct (sim_bind sx st who th c Running HB Hn Hc Hcl ltac:(discriminate) ltac:(discriminate)) as (Hm & Hp & K).
      rewrite Hm. cbv zeta in *.
      match goal with |- context [oversubscribed sx ?s c] => set (stm := s) in * end.
      rewrite <- Hp. destruct (oversubscribed sx stm c); [exact K|exact K].
    + reflexivity.
    + (* Paused: has a CPU *)
      destruct (t_cpu th) as [c0|] eqn:Ec; [|exfalso; destruct Hbs as [Hs _]; destruct (Hs eq_refl); discriminate].
      destruct (find_cpu sx (thread_loom sx who) idx); reflexivity.
    + (* Dead *)
      assert (Hc : t_cpu th = None) by (apply Hbs; right; reflexivity).
      destruct (find_cpu sx (thread_loom sx who) idx) as [c|] eqn:Ef; [|reflexivity].
      rewrite Hc.
      assert (Hcl : c < length (cpu_threads st)) by (rewrite (b_len_c _ _ (proj1 HB)); eapply find_cpu_lt; eauto).
      destruct (sim_bind sx st who th c Running HB Hn Hc Hcl ltac:(discriminate) ltac:(discriminate)) as (Hm & Hp & K).
      rewrite Hm. cbv zeta in *.
      match goal with |- context [oversubscribed sx ?s c] => set (stm := s) in * end.
      rewrite <- Hp. destruct (oversubscribed sx stm c); [exact K|exact K].
    + destruct (t_cpu th) as [c0|] eqn:Ec; [|exfalso; destruct Hbs as [Hs _]; destruct (Hs eq_refl); discriminate].
      destruct (find_cpu sx (thread_loom sx who) idx); reflexivity.
    + destruct (t_cpu th) as [c0|] eqn:Ec; [|exfalso; destruct Hbs as [Hs _]; destruct (Hs eq_refl); discriminate].
      destruct (find_cpu sx (thread_loom sx who) idx); reflexivity.
  - (* End *)
    destruct (t_state th) eqn:Es; cbn [fsm]; try reflexivity.
    + destruct (t_cpu th) as [c|] eqn:Ec; [|exfalso; destruct Hbs as [Hs _]; destruct (Hs eq_refl); discriminate].
      destruct (sim_unbind sx st who th c HB Hn Ec) as (Hp & K1 & K2). cbv zeta in *.
      rewrite <- Hp. split; assumption.
    + destruct (t_cpu th) as [c|] eqn:Ec; [|exfalso; destruct Hbs as [Hs _]; destruct (Hs eq_refl); discriminate].
      destruct (sim_unbind sx st who th c HB Hn Ec) as (Hp & K1 & K2). cbv zeta in *.
      rewrite <- Hp. split; assumption.
  - (* Pause *)
    pose proof (sim_change_state sx st who th (match t_state th with Running | Cooling => true | _ => false end) Paused HB Hn) as K.
    assert (Hok : (match t_state th with Running | Cooling => true | _ => false end) = true -> t_cpu th <> None /\ Paused <> Unknown /\ Paused <> Dead).
    { intros H. split; [|split; discriminate]. intros Hc. apply Hbs in Hc. destruct Hc as [E|E]; rewrite E in H; discriminate. }
    specialize (K Hok).
    destruct (change_state sx st who th _ Paused) as [st'|].
    + destruct K as (Ho & Kc & Kb). destruct (t_state th); try discriminate; cbn [fsm]; split; assumption.
    + destruct (t_state th); cbn [fsm]; try reflexivity; destruct K as [K|K]; try discriminate; exact K.
  - (* Resume *)
    pose proof (sim_change_state sx st who th (match t_state th with Paused | Warming => true | _ => false end) Running HB Hn) as K.
    assert (Hok : (match t_state th with Paused | Warming => true | _ => false end) = true -> t_cpu th <> None /\ Running <> Unknown /\ Running <> Dead).
    { intros H. split; [|split; discriminate]. intros Hc. apply Hbs in Hc. destruct Hc as [E|E]; rewrite E in H; discriminate. }
    specialize (K Hok).
    destruct (change_state sx st who th _ Running) as [st'|].
    + destruct K as (Ho & Kc & Kb). destruct (t_state th); try discriminate; cbn [fsm]; split; assumption.
    + destruct (t_state th); cbn [fsm]; try reflexivity; destruct K as [K|K]; try discriminate; exact K.
  - (* Cool *)
    pose proof (sim_change_state sx st who th (match t_state th with Running => true | _ => false end) Cooling HB Hn) as K.
    assert (Hok : (match t_state th with Running => true | _ => false end) = true -> t_cpu th <> None /\ Cooling <> Unknown /\ Cooling <> Dead).
    { intros H. split; [|split; discriminate]. intros Hc. apply Hbs in Hc. destruct Hc as [E|E]; rewrite E in H; discriminate. }
    specialize (K Hok).
    destruct (change_state sx st who th _ Cooling) as [st'|].
    + destruct K as (Ho & Kc & Kb). destruct (t_state th); try discriminate; cbn [fsm]; split; assumption.
    + destruct (t_state th); cbn [fsm]; try reflexivity; destruct K as [K|K]; try discriminate; exact K.
  - (* Warm *)
    pose proof (sim_change_state sx st who th (match t_state th with Paused => true | _ => false end) Warming HB Hn) as K.
    assert (Hok : (match t_state th with Paused => true | _ => false end) = true -> t_cpu th <> None /\ Warming <> Unknown /\ Warming <> Dead).
    { intros H. split; [|split; discriminate]. intros Hc. apply Hbs in Hc. destruct Hc as [E|E]; rewrite E in H; discriminate. }
    specialize (K Hok).
    destruct (change_state sx st who th _ Warming) as [st'|].
    + destruct K as (Ho & Kc & Kb). destruct (t_state th); try discriminate; cbn [fsm]; split; assumption.
    + destruct (t_state th); cbn [fsm]; try reflexivity; destruct K as [K|K]; try discriminate; exact K.
  - (* AffSet *)
    destruct (t_cpu th) as [old|] eqn:Ec; [|reflexivity].
    destruct (find_cpu sx (thread_loom sx who) idx) as [new|] eqn:Ef.
    2:{ destruct (negb (is_active (t_state th))); reflexivity. }
    destruct (is_active (t_state th)) eqn:Ea; cbn [negb]; [|reflexivity].
    assert (Hnl : new < length (cpu_threads st)) by (rewrite (b_len_c _ _ (proj1 HB)); eapply find_cpu_lt; eauto).
    destruct (Nat.eqb old new) eqn:Eon.
    + apply Nat.eqb_eq in Eon. subst new. rewrite <- Ec. rewrite (update_proj_id _ _ _ Hn).
      split; [apply check_same; exact HB|exact HB].
    + apply Nat.eqb_neq in Eon.
      pose proof (sim_migrate sx st who th old new HB Hn Ec Hnl Eon) as K.
      destruct (migrate sx st who th old new) as [stm|].
      * destruct K as (Kp & Kc & Kb). rewrite <- Kp. split; assumption.
      * exact K.
  - (* AffRemote *)
    destruct (find_remote sx who tid) as [r|]; [|reflexivity].
    destruct (nth_error (threads st) r) as [rth|] eqn:Hr.
    2:{ rewrite (proj_nth_none _ _ Hr). reflexivity. }
    rewrite (proj_nth_some _ _ _ Hr).
    destruct (nth_error_thr _ _ _ Hr) as [Hrth Hrlt].
    pose proof (b_state _ _ (proj1 HB) r Hrlt) as Hrs. rewrite Hrth in Hrs.
    destruct (t_cpu rth) as [old|] eqn:Ec.
    2:{ destruct (t_state rth); reflexivity. }
    destruct (find_cpu sx (thread_loom sx who) idx) as [new|] eqn:Ef.
    2:{ destruct (t_state rth); reflexivity. }
    assert (Hnl : new < length (cpu_threads st)) by (rewrite (b_len_c _ _ (proj1 HB)); eapply find_cpu_lt; eauto).
    destruct (t_state rth) eqn:Es; try reflexivity;
      (destruct (Nat.eqb old new) eqn:Eon; [reflexivity|]; apply Nat.eqb_neq in Eon;
       pose proof (sim_migrate sx st r rth old new HB Hr Ec Hnl Eon) as K; rewrite Es in K;
       destruct (migrate sx st r rth old new) as [stm|];
       [destruct K as (Kp & Kc & Kb); rewrite <- Kp; split; assumption|exact K]).
Qed.

(* ---------------------------------------------------------------- whole histories *)

Lemma nth_map_const {A B} (l : list A) (b d : B) n : nth n (map (fun _ => b) l) d = if Nat.ltb n (length l) then b else d.
Proof.
  revert n. induction l as [|a l IH]; intros [|n]; cbn [map nth length]; auto.
  rewrite IH. change (Nat.ltb (S n) (S (length l))) with (Nat.ltb n (length l)). reflexivity.
Qed.

Lemma init_Bind sx : Bind sx (init sx).
Proof.
  assert (Hcl : forall c, cl (init sx) c = []).
  { intros c. unfold cl, init. cbn [cpu_threads]. rewrite nth_map_const. destruct (Nat.ltb _ _); reflexivity. }
  assert (Hthr : forall t, t < length (threads (init sx)) -> thr (init sx) t = init_thread sx).
  { intros t Ht. unfold thr, init in *. cbn [threads] in *. rewrite map_length in Ht.
    rewrite (nth_indep _ dummy_thread (init_thread sx)) by (rewrite map_length; exact Ht).
    rewrite nth_map_const. apply Nat.ltb_lt in Ht. rewrite Ht. reflexivity. }
  split.
  - constructor.
    + unfold init. cbn. apply map_length.
    + unfold init. cbn. apply map_length.
    + intros c t Hin. rewrite Hcl in Hin. contradiction.
    + intros t c Ht Hc. rewrite (Hthr t Ht) in Hc. discriminate.
    + intros c. rewrite Hcl. constructor.
    + intros t Ht. rewrite (Hthr t Ht). cbn. split; [intros _; left; reflexivity|reflexivity].
    + intros t Ht. rewrite (Hthr t Ht). reflexivity.
  - intros c. unfold oversubscribed, nrunning. rewrite running_on_cl, Hcl. cbn. apply andb_false_r.
Qed.

Lemma proj_init sx : proj (init sx) = spec_init sx.
Proof. unfold proj, init, spec_init. cbn [threads]. rewrite map_map. reflexivity. Qed.

Lemma run_sim sx h : forall st, Bind sx st ->
  match oh_run sx st h with
  | Ok st' => spec_run sx (proj st) h = Some (proj st') /\ Bind sx st'
  | Err _ => spec_run sx (proj st) h = None
  end.
Proof.
  induction h as [|[who e] h IH]; intros st HB; cbn [oh_run spec_run].
  - split; [reflexivity|exact HB].
  - pose proof (sim_step sx st who e HB) as K.
    destruct (oh_step sx st who e) as [st1|].
    + destruct K as [K1 K2]. rewrite K1. apply IH. exact K2.
    + rewrite K. reflexivity.
Qed.

Lemma all_dead_proj st : all_dead st = forallb (fun p => tst_eqb (fst p) Dead) (proj st).
Proof. unfold all_dead, proj. rewrite forallb_map || idtac. induction (threads st) as [|th l IH]; cbn; [reflexivity|]. rewrite IH. reflexivity. Qed.

(* C04: the handlers accept exactly the histories of the documented state machine *)
Theorem emu_accepts_iff_spec sx h : emu_accepts sx h = spec_accepts sx h.
Proof.
  unfold emu_accepts, spec_accepts. rewrite <- proj_init.
  pose proof (run_sim sx h (init sx) (init_Bind sx)) as K.
  destruct (oh_run sx (init sx) h) as [st|].
  - destruct K as [K1 _]. rewrite K1. apply all_dead_proj.
  - rewrite K. reflexivity.
Qed.

(* C05: in every state reached by accepted events no physical CPU has two running threads,
   and the per-CPU lists agree with the threads' bindings *)
Theorem occupancy sx h st :
  oh_run sx (init sx) h = Ok st ->
  (forall c, cpu_is_virtual sx c = false -> nrunning st c <= 1) /\
  (forall c t, In t (cl st c) <-> t < length (threads st) /\ t_cpu (thr st t) = Some c) /\
  (forall c, nrunning st c = srunning (proj st) c).
Proof.
  intros H. pose proof (run_sim sx h (init sx) (init_Bind sx)) as K. rewrite H in K. destruct K as [_ [B N]].
  split; [|split].
  - intros c Hv. specialize (N c). unfold oversubscribed in N. rewrite Hv in N. cbn [negb andb] in N. apply Nat.ltb_ge in N. exact N.
  - intros c t. split; [apply (b_in sx st B)|intros [Ht Hc]; apply (b_cpu sx st B t c Ht Hc)].
  - intros c. symmetry. apply (srunning_nrunning sx st c B).
Qed.

(* the step that is refused for oversubscription is exactly the one that would create the second running thread *)
Theorem oversub_refused sx h st who e :
  oh_run sx (init sx) h = Ok st ->
  oh_step sx st who e = Err E_OVERSUB ->
  spec_step sx (proj st) who e = None.
Proof.
  intros H He. pose proof (run_sim sx h (init sx) (init_Bind sx)) as K. rewrite H in K. destruct K as [_ B].
  pose proof (sim_step sx st who e B) as S. rewrite He in S. exact S.
Qed.
