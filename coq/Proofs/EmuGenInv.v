(* The state invariant behind C13_generated_emulator_is_model: the binding invariant of ThreadCpuProofs on the state with the
   out-of-CPU flags forgotten.  It holds initially, implies GuardsProofs.GInv, and EVERY accepted step of the emulator core
   preserves it: thread / affinity events by ThreadCpuProofs.sim_step (they commute with forgetting the flags), the events of all
   other models because they change neither a thread's state nor its CPU nor the CPU lists. *)
From Coq Require Import ZArith List Bool Lia.
From OV Require Import Base.CInt Emu.EmuCoreDefs Emu.DecodeDefs Emu.MarkDefs Proofs.EmuCoreProofs Proofs.ThreadCpuProofs Proofs.BaySem.
From OV Require Proofs.GuardsProofs.
Import ListNotations.
Local Open Scope Z_scope.

Definition norm_th (th : thread) : thread := with_ooc th false.
Definition norm (st : state) : state :=
  {| threads := map norm_th (threads st); cpu_threads := cpu_threads st; cpu_touched := cpu_touched st;
     tasks := tasks st; types := types st; prv_last := prv_last st |}.

Definition lift (r : result state) : result state := match r with Ok s => Ok (norm s) | Err e => Err e end.

Lemma norm_nth st t : nth_opt (threads (norm st)) t = option_map norm_th (nth_opt (threads st) t).
Proof. unfold nth_opt. cbn [norm threads]. apply nth_error_map. Qed.

Lemma norm_set_thread st t th : set_thread (norm st) t (norm_th th) = norm (set_thread st t th).
Proof. unfold set_thread, norm. cbn [threads cpu_threads cpu_touched tasks types prv_last]. now rewrite map_update. Qed.
Lemma norm_set_cl st c l : set_cpu_threads (norm st) c l = norm (set_cpu_threads st c l).
Proof. reflexivity. Qed.
Lemma norm_touch st c : touch (norm st) c = norm (touch st c).
Proof. reflexivity. Qed.

Lemma norm_state_of st t : thread_state_of (norm st) t = thread_state_of st t.
Proof.
  unfold thread_state_of. cbn [norm threads]. change dummy_thread with (norm_th dummy_thread). rewrite map_nth. reflexivity.
Qed.

Lemma norm_oversub sx st c : oversubscribed sx (norm st) c = oversubscribed sx st c.
Proof.
  apply oversub_states; [|reflexivity]. cbn [norm threads]. rewrite map_map. apply map_ext. reflexivity.
Qed.

Lemma norm_cl st c : nth c (cpu_threads (norm st)) [] = nth c (cpu_threads st) [].
Proof. reflexivity. Qed.

Lemma change_state_norm sx st who th ok new :
  change_state sx (norm st) who (norm_th th) ok new = lift (change_state sx st who th ok new).
Proof.
  unfold change_state. destruct (negb ok); [reflexivity|]. change (t_cpu (norm_th th)) with (t_cpu th). destruct (t_cpu th) as [c|]; [|reflexivity].
  change (with_state (norm_th th) new) with (norm_th (with_state th new)). rewrite norm_set_thread, norm_touch, norm_oversub.
  destruct (oversubscribed sx _ c); reflexivity.
Qed.

Lemma migrate_norm sx st t th old new :
  migrate sx (norm st) t (norm_th th) old new = lift (migrate sx st t th old new).
Proof.
  unfold migrate. rewrite norm_cl, norm_set_cl, norm_touch. rewrite norm_cl.
  destruct (mem_nat t _); [reflexivity|]. rewrite norm_set_cl, norm_touch, norm_oversub.
  destruct (oversubscribed sx _ new); [reflexivity|]. change (with_cpu (norm_th th) (Some new)) with (norm_th (with_cpu th (Some new))).
  now rewrite norm_set_thread.
Qed.

Lemma oversub_conv sx a c : oversubscribed sx (norm a) c = oversubscribed sx a c.
Proof. apply norm_oversub. Qed.

Ltac nsimp :=
  repeat first
    [ progress change (t_state (norm_th ?th)) with (t_state th)
    | progress change (t_cpu (norm_th ?th)) with (t_cpu th)
    | progress change (with_state (norm_th ?th) ?s) with (norm_th (with_state th s))
    | progress change (with_cpu (norm_th ?th) ?c) with (norm_th (with_cpu th c))
    | rewrite norm_set_thread
    | progress change (cpu_threads (norm ?x)) with (cpu_threads x)
    | progress change (set_cpu_threads (norm ?x) ?c ?l) with (norm (set_cpu_threads x c l))
    | progress change (touch (norm ?x) ?c) with (norm (touch x c))
    | rewrite norm_oversub
    | rewrite change_state_norm
    | rewrite migrate_norm ].

Lemma oh_step_norm sx st who e th : nth_opt (threads st) who = Some th -> t_ooc th = false ->
  oh_step sx (norm st) who e = lift (oh_step sx st who e).
Proof.
  intros Hn Ho. unfold oh_step. rewrite norm_nth, Hn. cbn [option_map]. change (t_ooc (norm_th th)) with false. rewrite Ho. cbv iota.
  destruct e as [idx| | | | | |idx|idx tid].
  - nsimp. destruct (is_running (t_state th)); [reflexivity|]. destruct (find_cpu sx (thread_loom sx who) idx) as [c|]; [|reflexivity].
    destruct (t_cpu th); [reflexivity|]. destruct (mem_nat who _); [reflexivity|]. nsimp. cbv zeta. nsimp.
    match goal with |- context [oversubscribed sx ?s c] => destruct (oversubscribed sx s c) end; reflexivity.
  - nsimp. destruct (t_state th); try reflexivity; destruct (t_cpu th) as [c|]; try reflexivity; nsimp; reflexivity.
  - nsimp. reflexivity.
  - nsimp. reflexivity.
  - nsimp. reflexivity.
  - nsimp. reflexivity.
  - nsimp. destruct (t_cpu th) as [old|]; [|reflexivity]. destruct (negb (is_active (t_state th))); [reflexivity|].
    destruct (find_cpu sx (thread_loom sx who) idx) as [new|]; [|reflexivity]. destruct (Nat.eqb old new); [reflexivity|]. nsimp. reflexivity.
  - destruct (find_remote sx who tid) as [r|]; [|reflexivity]. rewrite norm_nth. destruct (nth_opt (threads st) r) as [rth|]; [|reflexivity]. cbn [option_map].
    nsimp. destruct (t_state rth); try reflexivity; destruct (t_cpu rth) as [old|]; try reflexivity;
      destruct (find_cpu sx (thread_loom sx who) idx) as [new|]; try reflexivity; destruct (Nat.eqb old new); try reflexivity; nsimp; reflexivity.
Qed.

(* ------------------------------------------------------------------ the invariant and its transfer along sys_same *)
Definition PInv (sx : static) (st : state) : Prop := Bind sx (norm st).

Lemma thr_norm st t : thr (norm st) t = norm_th (thr st t).
Proof. unfold thr, norm. cbn [threads]. change dummy_thread with (norm_th dummy_thread) at 1. apply map_nth. Qed.

Lemma PInv_sys_same sx a b : sys_same a b -> PInv sx a -> PInv sx b.
Proof.
  intros [Hp (L & C & _)] [B N]. unfold PInv.
  assert (Hlen : length (threads (norm b)) = length (threads (norm a))) by (unfold norm; cbn [threads]; rewrite !map_length; exact L).
  assert (Hcl : forall c, cl (norm b) c = cl (norm a) c) by (intros c; unfold cl, norm; cbn [cpu_threads]; rewrite C; reflexivity).
  assert (Hcpu : forall t, t_cpu (thr (norm b) t) = t_cpu (thr (norm a) t)).
  { intros t. rewrite !thr_norm. change (t_cpu (thr b t) = t_cpu (thr a t)). apply (Hp t). }
  assert (Hst : forall t, t_state (thr (norm b) t) = t_state (thr (norm a) t)).
  { intros t. rewrite !thr_norm. change (t_state (thr b t) = t_state (thr a t)). apply (Hp t). }
  assert (Hlc : length (cpu_threads (norm b)) = length (cpu_threads (norm a))) by (unfold norm; cbn [cpu_threads]; rewrite C; reflexivity).
  split.
  - destruct B as [l1 l2 bi bc bn bs bo]. constructor.
    + rewrite Hlen. exact l1.
    + rewrite Hlc. exact l2.
    + intros c t. rewrite Hcl, Hlen, Hcpu. apply bi.
    + intros t c. rewrite Hlen, Hcpu, Hlc, Hcl. apply bc.
    + intros c. rewrite Hcl. apply bn.
    + intros t. rewrite Hlen, Hcpu, Hst. apply bs.
    + intros t _. rewrite thr_norm. reflexivity.
  - intros c. rewrite <- (N c). apply oversub_states.
    + apply (nth_ext _ _ (t_state dummy_thread) (t_state dummy_thread)); [rewrite !map_length; exact Hlen|].
      intros n _. rewrite !map_nth. apply (Hst n).
    + unfold norm. cbn [cpu_threads]. exact C.
Qed.

(* ------------------------------------------------------------------ the events of the other models leave the thread/CPU relation alone *)
Lemma chan_step_sys sx st who k a v st1 d : chan_step sx st who k a v = Ok (st1, d) -> sys_same st st1.
Proof.
  intros H. unfold chan_step, nth_opt in H.
  destruct (nth_error (threads st) who) as [th|] eqn:Hn; [|discriminate].
  destruct (nth_error (s_chans sx) k) as [sp|]; [|discriminate].
  destruct (raw_apply sp (nth k (t_raw th) empty_raw) a v) as [[r' dd]|]; [|discriminate].
  inversion H; subst st1 d.
  apply (sys_same_set_thread st who th); [exact Hn|reflexivity|reflexivity|]. cbn. apply update_length.
Qed.

Lemma set_chans_sys sx who ws : forall st d0 st1 d, set_chans sx st who ws d0 = Ok (st1, d) -> sys_same st st1.
Proof.
  induction ws as [|[k v] ws IH]; intros st d0 st1 d H; cbn [set_chans] in H.
  - inversion H; subst. apply sys_same_refl.
  - destruct (chan_step sx st who k SET v) as [[st' d1]|] eqn:E; [|discriminate].
    apply (sys_same_trans st st' st1); [apply (chan_step_sys _ _ _ _ _ _ _ _ E)|apply (IH _ _ _ _ H)].
Qed.

Lemma task_event_sys sx st who cfg mdl kind tid bid st1 dirty :
  task_event sx st who cfg mdl kind tid bid = Ok (st1, dirty) -> sys_same st st1.
Proof.
  intros H. unfold task_event, nth_opt in H.
  destruct (nth_error (threads st) who) as [th|] eqn:Hn; [|discriminate].
  destruct (nth_error (s_threads sx) who) as [ti|]; [|discriminate].
  destruct (find_task st (ti_loom ti) (ti_pid ti) mdl tid) as [[i0 tk0]|]; [|discriminate].
  match type of H with match ?o with Some _ => _ | None => _ end = _ => destruct o as [b|]; [|discriminate] end.
  destruct (task_op st who th (ti_loom ti) (ti_pid ti) mdl kind tid b) as [s1|] eqn:Eop; [|discriminate].
  pose proof (task_op_sys _ _ _ _ _ _ _ _ _ _ Hn Eop) as S1.
  match type of H with match ?ssr with Ok _ => _ | Err _ => _ end = _ => destruct ssr as [[s2 d1]|] eqn:Ess; [|discriminate] end.
  assert (S2 : sys_same s1 s2).
  { destruct (kind =? 120)%Z; [apply (chan_step_sys _ _ _ _ _ _ _ _ Ess)|].
    destruct (kind =? 101)%Z; [apply (chan_step_sys _ _ _ _ _ _ _ _ Ess)|].
    inversion Ess; subst. apply sys_same_refl. }
  match type of H with match ?w with Ok _ => _ | Err _ => _ end = _ => destruct w as [ws|]; [|discriminate] end.
  destruct (set_chans sx s2 who ws d1) as [[s3 d]|] eqn:Esc; [|discriminate].
  pose proof (set_chans_sys _ _ _ _ _ _ _ Esc) as S3.
  assert (Ed : st1 = s3) by (break_in H; inversion H; subst; auto). subst st1.
  apply (sys_same_trans st s1 s3); [exact S1|]. apply (sys_same_trans s1 s2 s3); assumption.
Qed.

Lemma core_step_sys sx st who ev st1 dirty :
  (forall e, ev <> EvOvni e) -> core_step sx st who ev = Ok (st1, dirty) -> sys_same st st1.
Proof.
  intros Hne H. unfold core_step, nth_opt in H. destruct ev.
  - exfalso. apply (Hne e). reflexivity.
  - destruct (nth_error (threads st) who) as [th|]; [|discriminate].
    break_in H. apply (chan_step_sys _ _ _ _ _ _ _ _ H).
  - destruct (nth_error (threads st) who) as [th|] eqn:Hn; [|discriminate].
    apply (sys_same_trans st (set_thread st who (with_ooc th out)) st1); [|apply (chan_step_sys _ _ _ _ _ _ _ _ H)].
    apply (sys_same_set_thread st who th); [exact Hn|reflexivity|reflexivity|reflexivity].
  - destruct (nth_error (threads st) who) as [th|]; [|discriminate].
    destruct (need_ok (tc_need cfg) th); [|discriminate].
    apply (task_event_sys _ _ _ _ _ _ _ _ _ _ H).
  - destruct (nth_error (threads st) who) as [th|]; [|discriminate].
    destruct (need_ok need th); [|discriminate].
    destruct (task_create sx st who mdl tid typeid par res pause relax) as [s|] eqn:E; [|discriminate].
    inversion H; subst. unfold task_create, nth_opt in E. break_in E. inversion E; subst.
    split; [intros ?; auto|auto].
  - destruct (nth_error (threads st) who) as [th|]; [|discriminate].
    destruct (need_ok need th); [|discriminate].
    destruct (type_create sx st who mdl typeid gid) as [s|] eqn:E; [|discriminate].
    inversion H; subst. unfold type_create, nth_opt in E. break_in E. inversion E; subst.
    split; [intros ?; auto|auto].
  - destruct (nth_error (threads st) who) as [th|]; [|discriminate].
    destruct (t_ooc th); [discriminate|]. inversion H; subst. apply sys_same_refl.
  - discriminate.
Qed.

(* ------------------------------------------------------------------ every accepted step keeps the invariant *)
Lemma core_step_PInv sx st who ev st1 dirty : PInv sx st -> core_step sx st who ev = Ok (st1, dirty) -> PInv sx st1.
Proof.
  intros HP H. destruct ev as [e| | | | | | |] eqn:Eev.
  1:{ unfold core_step in H. destruct (oh_step sx st who e) as [s|] eqn:E; [|discriminate]. inversion H; subst st1 dirty. clear H.
      assert (exists th, nth_opt (threads st) who = Some th /\ t_ooc th = false) as (th & Hn & Ho).
      { unfold oh_step in E. destruct (nth_opt (threads st) who) as [th|]; [|discriminate]. exists th. split; [reflexivity|].
        destruct (t_ooc th); [discriminate|reflexivity]. }
      pose proof (sim_step sx (norm st) who e HP) as K. rewrite (oh_step_norm sx st who e th Hn Ho), E in K. cbn [lift] in K. exact (proj2 K). }
  all: rewrite <- Eev in H; apply (PInv_sys_same sx st st1); [|exact HP]; apply (core_step_sys sx st who ev st1 dirty); [subst ev; intros e; discriminate|exact H].
Qed.

Theorem step_PInv sx st who ev st1 ls : PInv sx st -> step sx st who ev = Ok (st1, ls) -> PInv sx st1.
Proof.
  intros HP H. unfold step in H. destruct (core_step sx st who ev) as [[s d]|] eqn:E; [|discriminate].
  pose proof (core_step_PInv sx st who ev s d HP E) as K.
  destruct (emit_all (prv_last s) (all_reqs sx st s d)) as [[last' l2]|]; [|discriminate]. injection H as <- _.
  apply (same_core_Bind sx (norm s)); [split; reflexivity|exact K].
Qed.

Lemma init_PInv sx : PInv sx (init sx).
Proof.
  apply (PInv_sys_same sx (init sx) (init sx)); [apply sys_same_refl|].
  unfold PInv. apply (same_core_Bind sx (init sx)); [|apply init_Bind]. split; [|reflexivity].
  unfold norm, init. cbn [threads]. rewrite map_map. symmetry. apply map_ext. intros a. reflexivity.
Qed.

Lemma PInv_GInv sx st : PInv sx st -> GuardsProofs.GInv sx st.
Proof.
  intros HP. destruct (GuardsProofs.Bind_GInv sx (norm st) HP) as [G1 G2]. split.
  - intros t th c Hn Hc. apply (G1 t (norm_th th) c); [|exact Hc]. unfold norm. cbn [threads]. rewrite nth_error_map, Hn. reflexivity.
  - intros c. rewrite <- norm_oversub. apply G2.
Qed.

Lemma PInv_len sx st : PInv sx st -> length (threads st) = length (s_threads sx).
Proof. intros [B _]. pose proof (b_len_t _ _ B) as L. unfold norm in L. cbn [threads] in L. rewrite map_length in L. exact L. Qed.
