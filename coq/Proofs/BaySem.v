(* Semantic side of the bay refinement: what the handlers of core_step change in the emulator's
   structures, stated in the form the mechanical layer needs (which system channels get which value,
   which raw channels make which push / pop / set transition). No bay here. *)
From Coq Require Import ZArith List Bool Lia PeanoNat.
From OV Require Import Emu.EmuCoreDefs Emu.BayDefs Proofs.EmitProofs Proofs.EmuCoreProofs Proofs.ThreadCpuProofs Proofs.BayBasics.
From OV Require Proofs.EmuCoreWf.
Import ListNotations.
Local Open Scope nat_scope.

(* ---------------------------------------------------------------- binding invariant (no out-of-CPU clause) *)

Record Bnd (sx : static) (st : state) : Prop := {
  n_len_t : length (threads st) = length (s_threads sx);
  n_len_c : length (cpu_threads st) = length (s_cpus sx);
  n_len_u : length (cpu_touched st) = length (s_cpus sx);
  n_in : forall c t, In t (cl st c) -> t < length (threads st) /\ t_cpu (thr st t) = Some c;
  n_cpu : forall t c, t < length (threads st) -> t_cpu (thr st t) = Some c -> c < length (cpu_threads st) /\ In t (cl st c);
  n_nodup : forall c, NoDup (cl st c);
  n_raw : forall t, t < length (threads st) -> length (t_raw (thr st t)) = length (s_chans sx)
}.

Lemma cl_nil_out st c : length (cpu_threads st) <= c -> cl st c = [].
Proof. intros H. unfold cl. apply nth_overflow. exact H. Qed.

(* ---------------------------------------------------------------- expected values of the system channels *)

Inductive lsys := LTh (t w : nat) | LCpu (c w : nat).

Definition lsys_eq_dec (a b : lsys) : {a = b} + {a <> b}.
Proof. decide equality; apply Nat.eq_dec. Defined.

Definition state_val (th : thread) : value :=
  match t_state th with Unknown => None | s => Some (tst_code s) end.

Definition touched (st : state) (c : nat) : bool := nth c (cpu_touched st) false.

Definition exp (sx : static) (st : state) (l : lsys) : value :=
  match l with
  | LTh t 0 => v_cpu (thr st t)
  | LTh t 1 => v_tid (nth t (s_threads sx) dummy_info) (thr st t)
  | LTh t _ => state_val (thr st t)
  | LCpu c 0 => v_nrun st c
  | LCpu c 1 => v_cpupid sx st c
  | LCpu c 2 => v_cputid sx st c
  | LCpu c 3 => v_gid (th_running st c)
  | LCpu c _ => v_gid (th_active st c)
  end.

Definition lvalid (sx : static) (l : lsys) : Prop :=
  match l with
  | LTh t w => t < length (s_threads sx) /\ w < 3
  | LCpu c w => c < length (s_cpus sx) /\ w < 5
  end.

Definition lid (sx : static) (l : lsys) : nat :=
  match l with LTh t w => ch_th sx t w | LCpu c w => ch_cpu sx c w end.

(* channels that refuse a repeated value (no CHAN_IGNORE_DUP): cpu_gindex and state *)
Definition strict (l : lsys) : bool :=
  match l with LTh _ 0 => true | LTh _ 2 => true | _ => false end.

Definition cpu5 (c : nat) : list lsys := [LCpu c 2; LCpu c 1; LCpu c 3; LCpu c 0; LCpu c 4].
Definition st2 (t : nat) : list lsys := [LTh t 2; LTh t 1].

(* the system channels written by each handler, in the order of the C *)
Definition oh_wl (sx : static) (old new : state) (who : nat) (e : ohev) : list lsys :=
  match e with
  | Execute _ => [LTh who 0] ++ st2 who ++ cpu5 (cpu_of new who)
  | End_ => st2 who ++ cpu5 (cpu_of old who) ++ [LTh who 0]
  | Pause | Resume | Cool | Warm => st2 who ++ cpu5 (cpu_of new who)
  | AffSet _ => if Nat.eqb (cpu_of old who) (cpu_of new who) then []
                else cpu5 (cpu_of old who) ++ cpu5 (cpu_of new who) ++ [LTh who 0]
  | AffRemote _ tid =>
    match find_remote sx who tid with
    | Some r => cpu5 (cpu_of old r) ++ cpu5 (cpu_of new r) ++ [LTh r 0]
    | None => []
    end
  end.

(* ---------------------------------------------------------------- the normal form of a handler's result *)

Definition upd2 (st : state) (t : nat) (th' : thread) (c1 : nat) (l1 : list nat) (c2 : nat) (l2 : list nat) : state :=
  {| threads := update (threads st) t th';
     cpu_threads := update (update (cpu_threads st) c1 l1) c2 l2;
     cpu_touched := update (update (cpu_touched st) c1 true) c2 true;
     tasks := tasks st; types := types st; prv_last := prv_last st |}.

Definition newlist (st : state) (c1 : nat) (l1 : list nat) (c2 : nat) (l2 : list nat) (c : nat) : list nat :=
  if Nat.eqb c c2 then l2 else if Nat.eqb c c1 then l1 else cl st c.

Lemma thr_upd2_same st t th' c1 l1 c2 l2 : t < length (threads st) -> thr (upd2 st t th' c1 l1 c2 l2) t = th'.
Proof. intros H. unfold thr, upd2. cbn [threads]. apply nth_update_same. exact H. Qed.
Lemma thr_upd2_other st t th' c1 l1 c2 l2 t' : t <> t' -> thr (upd2 st t th' c1 l1 c2 l2) t' = thr st t'.
Proof. intros H. unfold thr, upd2. cbn [threads]. apply nth_update_other. exact H. Qed.

Lemma cl_upd2 st t th' c1 l1 c2 l2 c :
  c1 < length (cpu_threads st) -> c2 < length (cpu_threads st) ->
  cl (upd2 st t th' c1 l1 c2 l2) c = newlist st c1 l1 c2 l2 c.
Proof.
  intros H1 H2. unfold cl, upd2, newlist. cbn [cpu_threads].
  destruct (Nat.eqb c c2) eqn:E2.
  - apply Nat.eqb_eq in E2. subst. apply nth_update_same. rewrite update_length. exact H2.
  - apply Nat.eqb_neq in E2. rewrite nth_update_other by congruence.
    destruct (Nat.eqb c c1) eqn:E1.
    + apply Nat.eqb_eq in E1. subst. apply nth_update_same. exact H1.
    + apply Nat.eqb_neq in E1. rewrite nth_update_other by congruence. reflexivity.
Qed.

Lemma touched_upd2 st t th' c1 l1 c2 l2 c :
  c1 < length (cpu_touched st) -> c2 < length (cpu_touched st) ->
  touched (upd2 st t th' c1 l1 c2 l2) c = if Nat.eqb c c2 then true else if Nat.eqb c c1 then true else touched st c.
Proof.
  intros H1 H2. unfold touched, upd2. cbn [cpu_touched].
  destruct (Nat.eqb c c2) eqn:E2.
  - apply Nat.eqb_eq in E2. subst. apply nth_update_same. rewrite update_length. exact H2.
  - apply Nat.eqb_neq in E2. rewrite nth_update_other by congruence.
    destruct (Nat.eqb c c1) eqn:E1.
    + apply Nat.eqb_eq in E1. subst. apply nth_update_same. exact H1.
    + apply Nat.eqb_neq in E1. rewrite nth_update_other by congruence. reflexivity.
Qed.

Lemma Bnd_upd2 sx st t th' c1 l1 c2 l2 :
  Bnd sx st -> t < length (threads st) ->
  c1 < length (cpu_threads st) -> c2 < length (cpu_threads st) ->
  NoDup l1 -> NoDup l2 ->
  (forall c x, x <> t -> (In x (newlist st c1 l1 c2 l2 c) <-> In x (cl st c))) ->
  (forall c, In t (newlist st c1 l1 c2 l2 c) <-> t_cpu th' = Some c) ->
  (forall c, t_cpu th' = Some c -> c < length (cpu_threads st)) ->
  length (t_raw th') = length (t_raw (thr st t)) ->
  Bnd sx (upd2 st t th' c1 l1 c2 l2).
Proof.
  intros B Ht Hc1 Hc2 Hn1 Hn2 Hother Hself Hrange Hraw.
  assert (Hlt : length (threads (upd2 st t th' c1 l1 c2 l2)) = length (threads st)) by (unfold upd2; cbn; apply update_length).
  assert (Hlc : length (cpu_threads (upd2 st t th' c1 l1 c2 l2)) = length (cpu_threads st)) by (unfold upd2; cbn; rewrite !update_length; reflexivity).
  constructor.
  - rewrite Hlt. apply (n_len_t _ _ B).
  - rewrite Hlc. apply (n_len_c _ _ B).
  - unfold upd2. cbn. rewrite !update_length. apply (n_len_u _ _ B).
  - intros c x Hin. rewrite Hlt. rewrite cl_upd2 in Hin by assumption.
    destruct (Nat.eq_dec x t) as [->|Hne].
    + split; [exact Ht|]. rewrite thr_upd2_same by exact Ht. apply Hself. exact Hin.
    + rewrite thr_upd2_other by congruence. apply (n_in _ _ B c x). apply (Hother c x Hne). exact Hin.
  - intros x c Hx Hcpu. rewrite Hlt in Hx. rewrite Hlc. rewrite cl_upd2 by assumption.
    destruct (Nat.eq_dec x t) as [->|Hne].
    + rewrite thr_upd2_same in Hcpu by exact Ht. split; [apply Hrange; exact Hcpu|apply Hself; exact Hcpu].
    + rewrite thr_upd2_other in Hcpu by congruence. destruct (n_cpu _ _ B x c Hx Hcpu) as [Hr Hin].
      split; [exact Hr|apply (Hother c x Hne); exact Hin].
  - intros c. rewrite cl_upd2 by assumption. unfold newlist.
    destruct (Nat.eqb c c2); [exact Hn2|]. destruct (Nat.eqb c c1); [exact Hn1|apply (n_nodup _ _ B)].
  - intros x Hx. rewrite Hlt in Hx. destruct (Nat.eq_dec x t) as [->|Hne].
    + rewrite thr_upd2_same by exact Ht. rewrite Hraw. apply (n_raw _ _ B t Ht).
    + rewrite thr_upd2_other by congruence. apply (n_raw _ _ B x Hx).
Qed.

(* ---------------------------------------------------------------- CPU views depend on the list and its members' states *)

Lemma running_on_ext st st' c :
  cl st' c = cl st c -> (forall t, In t (cl st c) -> t_state (thr st' t) = t_state (thr st t)) ->
  running_on st' c = running_on st c.
Proof.
  intros Hc Hs. rewrite !running_on_cl, Hc. apply filter_ext_in. intros t Ht. rewrite (Hs t Ht). reflexivity.
Qed.

Lemma active_on_ext st st' c :
  cl st' c = cl st c -> (forall t, In t (cl st c) -> t_state (thr st' t) = t_state (thr st t)) ->
  active_on st' c = active_on st c.
Proof.
  intros Hc Hs. unfold active_on. fold (cl st' c). fold (cl st c). rewrite Hc. apply filter_ext_in.
  intros t Ht. unfold thread_state_of. fold (thr st' t). fold (thr st t). rewrite (Hs t Ht). reflexivity.
Qed.

Lemma exp_cpu_ext sx st st' c w :
  cl st' c = cl st c -> (forall t, In t (cl st c) -> t_state (thr st' t) = t_state (thr st t)) ->
  touched st' c = touched st c ->
  exp sx st' (LCpu c w) = exp sx st (LCpu c w).
Proof.
  intros Hc Hs Ht. pose proof (running_on_ext st st' c Hc Hs) as Hr. pose proof (active_on_ext st st' c Hc Hs) as Ha.
  destruct w as [|[|[|[|w]]]]; cbn [exp].
  - unfold v_nrun, nrunning. fold (touched st' c). fold (touched st c). rewrite Ht, Hr. reflexivity.
  - unfold v_cpupid, th_running. rewrite Hr. reflexivity.
  - unfold v_cputid, th_running. rewrite Hr. reflexivity.
  - unfold th_running. rewrite Hr. reflexivity.
  - unfold th_active. rewrite Ha. reflexivity.
Qed.

Lemma exp_th_ext sx st st' t w :
  t_state (thr st' t) = t_state (thr st t) -> t_cpu (thr st' t) = t_cpu (thr st t) ->
  exp sx st' (LTh t w) = exp sx st (LTh t w).
Proof.
  intros Hs Hc. destruct w as [|[|w]]; cbn [exp].
  - unfold v_cpu. rewrite Hc. reflexivity.
  - unfold v_tid. rewrite Hs. reflexivity.
  - unfold state_val. rewrite Hs. reflexivity.
Qed.

(* ---------------------------------------------------------------- what a handler's result looks like *)

(* the facts about one handler that the mechanical layer needs *)
Record OhPost (sx : static) (st st1 : state) (wl : list lsys) : Prop := {
  op_bnd : Bnd sx st1;
  op_nodup : NoDup wl;
  op_valid : forall l, In l wl -> lvalid sx l;
  op_strict : forall l, In l wl -> strict l = true -> exp sx st1 l <> exp sx st l;
  op_frame : forall l, lvalid sx l -> ~ In l wl -> exp sx st1 l = exp sx st l;
  op_raws : raws st1 = raws st;
  op_last : prv_last st1 = prv_last st;
  op_known : forall t, t_state (thr st1 t) = Unknown -> t_state (thr st t) = Unknown
}.

Lemma cpu5_in c l : In l (cpu5 c) <-> exists w, w < 5 /\ l = LCpu c w.
Proof.
  unfold cpu5. cbn [In]. split.
  - intros [<-|[<-|[<-|[<-|[<-|[]]]]]]; eexists; (split; [|reflexivity]); lia.
  - intros (w & Hw & ->). destruct w as [|[|[|[|[|w]]]]]; try lia; tauto.
Qed.

Lemma st2_in t l : In l (st2 t) <-> l = LTh t 2 \/ l = LTh t 1.
Proof. unfold st2. cbn [In]. split; [intros [<-|[<-|[]]]; tauto|intros [->| ->]; tauto]. Qed.

Lemma NoDup_cpu5 c : NoDup (cpu5 c).
Proof. unfold cpu5. repeat constructor; cbn; intros H; repeat (destruct H as [H|H]; [discriminate|]); exact H. Qed.

(* generic: the result is upd2 st t th' c1 l1 c2 l2 and the written channels are (some of) t's plus all of c1, c2 *)
Lemma OhPost_upd2 sx st t th th' c1 l1 c2 l2 wl wth :
  Bnd sx st -> nth_error (threads st) t = Some th ->
  c1 < length (cpu_threads st) -> c2 < length (cpu_threads st) ->
  NoDup l1 -> NoDup l2 ->
  (forall c x, x <> t -> (In x (newlist st c1 l1 c2 l2 c) <-> In x (cl st c))) ->
  (forall c, In t (newlist st c1 l1 c2 l2 c) <-> t_cpu th' = Some c) ->
  (forall c, t_cpu th' = Some c -> c = c1 \/ c = c2) ->
  (forall c, t_cpu th = Some c -> c = c1 \/ c = c2) ->
  t_raw th' = t_raw th -> (t_state th' = Unknown -> t_state th = Unknown) ->
  (* the thread channels written *)
  NoDup wth -> (forall l, In l wth -> exists w, w < 3 /\ l = LTh t w) ->
  (In (LTh t 0) wth -> t_cpu th' <> t_cpu th) ->
  (~ In (LTh t 0) wth -> t_cpu th' = t_cpu th) ->
  (In (LTh t 2) wth -> state_val th' <> state_val th) ->
  (~ In (LTh t 2) wth -> ~ In (LTh t 1) wth -> t_state th' = t_state th) ->
  (In (LTh t 1) wth <-> In (LTh t 2) wth) ->
  (forall l, In l wl <-> In l wth \/ In l (cpu5 c1) \/ In l (cpu5 c2)) -> NoDup wl ->
  OhPost sx st (upd2 st t th' c1 l1 c2 l2) wl.
Proof.
  intros B Hn Hc1 Hc2 Hn1 Hn2 Hother Hself Hr' Hr Hraw Hkn Hndw Hwth H0 H0' H2 H2' H12 Hwl Hndwl.
  destruct (nth_error_thr _ _ _ Hn) as [Hth Hlt].
  set (st1 := upd2 st t th' c1 l1 c2 l2).
  assert (Hu1 : c1 < length (cpu_touched st)) by (rewrite (n_len_u _ _ B), <- (n_len_c _ _ B); exact Hc1).
  assert (Hu2 : c2 < length (cpu_touched st)) by (rewrite (n_len_u _ _ B), <- (n_len_c _ _ B); exact Hc2).
  assert (Hthr : forall x, x <> t -> thr st1 x = thr st x) by (intros x Hx; apply thr_upd2_other; congruence).
  assert (Hthr' : thr st1 t = th') by (apply thr_upd2_same; exact Hlt).
  constructor.
  - apply Bnd_upd2; try assumption.
    + intros c Hc. destruct (Hr' c Hc) as [-> | ->]; assumption.
    + rewrite Hth, Hraw. reflexivity.
  - exact Hndwl.
  - intros l Hl. apply Hwl in Hl. destruct Hl as [Hl|[Hl|Hl]].
    + destruct (Hwth l Hl) as (w & Hw & ->). cbn. split; [rewrite <- (n_len_t _ _ B); exact Hlt|exact Hw].
    + apply cpu5_in in Hl. destruct Hl as (w & Hw & ->). cbn. split; [rewrite <- (n_len_c _ _ B); exact Hc1|exact Hw].
    + apply cpu5_in in Hl. destruct Hl as (w & Hw & ->). cbn. split; [rewrite <- (n_len_c _ _ B); exact Hc2|exact Hw].
  - intros l Hl Hs. apply Hwl in Hl. destruct l as [x w|c w]; [|destruct w as [|[|[|[|w]]]]; discriminate].
    destruct Hl as [Hl|[Hl|Hl]]; [|apply cpu5_in in Hl; destruct Hl as (? & _ & ?); discriminate|apply cpu5_in in Hl; destruct Hl as (? & _ & ?); discriminate].
    destruct (Hwth _ Hl) as (w' & Hw' & E). inversion E; subst x w'.
    destruct w as [|[|[|w]]]; try discriminate; cbn [exp]; rewrite Hthr', Hth.
    + unfold v_cpu. specialize (H0 Hl). destruct (t_cpu th') as [a|], (t_cpu th) as [b|]; try congruence.
      intros Eq. inversion Eq as [Eq2]. apply Nat2Z.inj in Eq2. congruence.
    + apply (H2 Hl).
  - intros l Hv Hnl. destruct l as [x w|c w].
    + destruct (Nat.eq_dec x t) as [->|Hne].
      * assert (Hnw : ~ In (LTh t w) wth) by (intros H; apply Hnl; apply Hwl; left; exact H).
        destruct w as [|[|w]]; cbn [exp]; rewrite Hthr', Hth.
        -- unfold v_cpu. rewrite (H0' Hnw). reflexivity.
        -- assert (Hn2' : ~ In (LTh t 2) wth) by (intros H; apply Hnw; apply H12; exact H).
           unfold v_tid. rewrite (H2' Hn2' Hnw). reflexivity.
        -- destruct Hv as [_ Hw]. assert (w = 0) by lia. subst w.
           assert (Hn1' : ~ In (LTh t 1) wth) by (intros H; apply Hnw; apply H12; exact H).
           unfold state_val. rewrite (H2' Hnw Hn1'). reflexivity.
      * apply exp_th_ext; rewrite (Hthr x Hne); reflexivity.
    + destruct Hv as [Hc Hw].
      assert (Hc12 : c <> c1 /\ c <> c2).
      { split; intros ->; apply Hnl; apply Hwl; right; [left|right]; apply cpu5_in; exists w; auto. }
      destruct Hc12 as [Hne1 Hne2].
      assert (Hcl : cl st1 c = cl st c).
      { unfold st1. rewrite cl_upd2 by assumption. unfold newlist.
        destruct (Nat.eqb c c2) eqn:E2; [apply Nat.eqb_eq in E2; congruence|].
        destruct (Nat.eqb c c1) eqn:E1; [apply Nat.eqb_eq in E1; congruence|reflexivity]. }
      apply exp_cpu_ext.
      * exact Hcl.
      * intros x Hx. destruct (Nat.eq_dec x t) as [->|Hne]; [|rewrite (Hthr x Hne); reflexivity].
        exfalso. destruct (n_in _ _ B c t Hx) as [_ Hcpu]. rewrite Hth in Hcpu.
        destruct (Hr c Hcpu); congruence.
      * unfold st1. rewrite touched_upd2 by assumption.
        destruct (Nat.eqb c c2) eqn:E2; [apply Nat.eqb_eq in E2; congruence|].
        destruct (Nat.eqb c c1) eqn:E1; [apply Nat.eqb_eq in E1; congruence|reflexivity].
  - unfold raws, st1, upd2. cbn [threads]. rewrite map_update. rewrite Hraw.
    change (map t_raw (threads st)) with (raws st).
    replace (t_raw th) with (nth t (raws st) []).
    + apply update_nth_id.
    + unfold raws. change (@nil raw) with (t_raw dummy_thread). rewrite map_nth. fold (thr st t). rewrite Hth. reflexivity.
  - reflexivity.
  - intros x Hx. destruct (Nat.eq_dec x t) as [->|Hne].
    + rewrite Hthr' in Hx. rewrite Hth. apply Hkn. exact Hx.
    + rewrite (Hthr x Hne) in Hx. exact Hx.
Qed.

(* ---------------------------------------------------------------- the write lists are the expected values *)

Definition wset (sx : static) (st : state) (l : lsys) : wop := WSet (lid sx l) (exp sx st l).

Lemma w_cpu_exp sx st t : w_cpu sx st t = map (wset sx st) [LTh t 0].
Proof. reflexivity. Qed.

Lemma w_state_exp sx st t : t_state (thr st t) <> Unknown -> w_state sx st t = map (wset sx st) (st2 t).
Proof.
  intros H. unfold w_state, st2, wset. cbn [map lid exp]. unfold state_val, thr_of. fold (thr st t).
  destruct (t_state (thr st t)); try reflexivity. congruence.
Qed.

Lemma w_cpu_update_exp sx st c : touched st c = true -> w_cpu_update sx st c = map (wset sx st) (cpu5 c).
Proof.
  intros H. unfold w_cpu_update, cpu5, wset. cbn [map lid exp]. unfold v_nrun. fold (touched st c). rewrite H. reflexivity.
Qed.

(* ---------------------------------------------------------------- the four shapes of handler results *)

Lemma upd2_one st who th' c l : touch (set_cpu_threads (set_thread st who th') c l) c = upd2 st who th' c l c l.
Proof. unfold touch, set_cpu_threads, set_thread, upd2. cbn. rewrite !update_twice. reflexivity. Qed.

Lemma update_same_id {A} (l : list A) n d : update (update l n (nth n l d)) n (nth n l d) = l.
Proof. rewrite update_twice. apply update_nth_id. Qed.

Lemma upd2_state st who th' c : touch (set_thread st who th') c = upd2 st who th' c (cl st c) c (cl st c).
Proof.
  unfold touch, set_thread, upd2, cl. cbn. rewrite update_same_id. rewrite update_twice. reflexivity.
Qed.

Lemma unbound_notin' sx st t c : Bnd sx st -> t_cpu (thr st t) = None -> ~ In t (cl st c).
Proof. intros B H Hin. destruct (n_in _ _ B c t Hin) as [_ E]. congruence. Qed.

Lemma bound_only sx st t c c' : Bnd sx st -> t_cpu (thr st t) = Some c -> In t (cl st c') -> c' = c.
Proof. intros B H Hin. destruct (n_in _ _ B c' t Hin) as [_ E]. congruence. Qed.

Lemma wl_in_app3 (a b c : list lsys) l : In l (a ++ b ++ c) <-> In l a \/ In l b \/ In l c.
Proof. rewrite !in_app_iff. tauto. Qed.

Lemma NoDup_app3 (a b c : list lsys) :
  NoDup a -> NoDup b -> NoDup c -> (forall l, In l a -> ~ In l b /\ ~ In l c) -> (forall l, In l b -> ~ In l c) -> NoDup (a ++ b ++ c).
Proof.
  intros Ha Hb Hc Hab Hbc. apply NoDup_app_disjoint'; [exact Ha| |].
  - apply NoDup_app_disjoint'; [exact Hb|exact Hc|]. intros l H1 H2. apply (Hbc l H1 H2).
  - intros l H1 H2. apply in_app_or in H2. destruct (Hab l H1) as [A B]. destruct H2; contradiction.
Qed.

Lemma NoDup_st2 t : NoDup (st2 t).
Proof. unfold st2. repeat constructor; cbn; intros H; repeat (destruct H as [H|H]; [discriminate|]); exact H. Qed.

(* thread who (unbound) is bound to c with state `new` (Execute) *)
Lemma post_bind sx st who th c new :
  Bnd sx st -> nth_error (threads st) who = Some th -> t_cpu th = None ->
  c < length (cpu_threads st) -> new <> Unknown -> state_val (with_state th new) <> state_val th ->
  let th' := with_state (with_cpu th (Some c)) new in
  let st1 := upd2 st who th' c (cl st c ++ [who]) c (cl st c ++ [who]) in
  OhPost sx st st1 ([LTh who 0] ++ st2 who ++ cpu5 c).
Proof.
  intros B Hn Hcpu Hc HnU Hsv th' st1.
  destruct (nth_error_thr _ _ _ Hn) as [Hth Hlt].
  assert (Hnotin : forall c', ~ In who (cl st c')) by (intros c'; apply (unbound_notin' sx st who c' B); rewrite Hth; exact Hcpu).
  apply (OhPost_upd2 sx st who th th' c _ c _ _ [LTh who 0; LTh who 2; LTh who 1]); try assumption.
  - apply nodup_app_single; [apply (n_nodup _ _ B)|apply Hnotin].
  - apply nodup_app_single; [apply (n_nodup _ _ B)|apply Hnotin].
  - intros c0 x Hne. unfold newlist. destruct (Nat.eqb c0 c) eqn:E; [apply Nat.eqb_eq in E; subst|tauto].
    rewrite in_app_iff. cbn. split; [intros [H|[H|[]]]; [exact H|congruence]|intros H; left; exact H].
  - intros c0. unfold newlist. cbn [t_cpu th' with_state with_cpu]. destruct (Nat.eqb c0 c) eqn:E.
    + apply Nat.eqb_eq in E. subst. split; [reflexivity|intros _; apply in_app_iff; right; left; reflexivity].
    + apply Nat.eqb_neq in E. split; [intros H; exfalso; apply (Hnotin c0); exact H|intros H; inversion H; congruence].
  - intros c0 H. cbn in H. inversion H. left. reflexivity.
  - intros c0 H. congruence.
  - reflexivity.
  - cbn. intros H. contradiction.
  - repeat constructor; cbn; intros H; repeat (destruct H as [H|H]; [discriminate|]); exact H.
  - intros l [<-|[<-|[<-|[]]]]; eexists; (split; [|reflexivity]); lia.
  - intros _. cbn. congruence.
  - intros H. exfalso. apply H. left. reflexivity.
  - intros _. exact Hsv.
  - intros H. exfalso. apply H. right. left. reflexivity.
  - cbn. split; intros _; tauto.
  - intros l. rewrite wl_in_app3, st2_in. cbn [In]. split.
    + intros [[<-|[]]|[[->| ->]|H]]; auto.
    + intros [[<-|[<-|[<-|[]]]]|[H|H]]; auto.
  - apply NoDup_app3; [repeat constructor; intros []|apply NoDup_st2|apply NoDup_cpu5| |].
    + intros l [<-|[]]. split; [rewrite st2_in; intros [H|H]; discriminate|rewrite cpu5_in; intros (w & _ & H); discriminate].
    + intros l Hl. rewrite st2_in in Hl. rewrite cpu5_in. intros (w & _ & H). destruct Hl; subst; discriminate.
Qed.

(* thread who (bound to c) dies and is unbound (End) *)
Lemma post_unbind sx st who th c :
  Bnd sx st -> nth_error (threads st) who = Some th -> t_cpu th = Some c ->
  state_val (with_state th Dead) <> state_val th ->
  let th' := with_cpu (with_state th Dead) None in
  let st1 := upd2 st who th' c (remove_nat who (cl st c)) c (remove_nat who (cl st c)) in
  c < length (cpu_threads st) /\ OhPost sx st st1 (st2 who ++ cpu5 c ++ [LTh who 0]).
Proof.
  intros B Hn Hcpu Hsv th' st1.
  destruct (nth_error_thr _ _ _ Hn) as [Hth Hlt].
  assert (Hc : c < length (cpu_threads st) /\ In who (cl st c)) by (apply (n_cpu _ _ B who c Hlt); rewrite Hth; exact Hcpu).
  split; [apply Hc|].
  apply (OhPost_upd2 sx st who th th' c _ c _ _ [LTh who 2; LTh who 1; LTh who 0]); try assumption; try apply Hc.
  - apply nodup_remove_nat. apply (n_nodup _ _ B).
  - apply nodup_remove_nat. apply (n_nodup _ _ B).
  - intros c0 x Hne. unfold newlist. destruct (Nat.eqb c0 c) eqn:E; [apply Nat.eqb_eq in E; subst|tauto].
    rewrite (in_remove_nat who x (cl st c) (n_nodup _ _ B c)). tauto.
  - intros c0. unfold newlist. cbn [t_cpu th' with_state with_cpu]. split; [|discriminate].
    destruct (Nat.eqb c0 c) eqn:E.
    + rewrite (in_remove_nat who who (cl st c) (n_nodup _ _ B c)). intros [_ H]. contradiction.
    + apply Nat.eqb_neq in E. intros Hin. exfalso. apply E. apply (bound_only sx st who c c0 B); [rewrite Hth; exact Hcpu|exact Hin].
  - intros c0 H. discriminate.
  - intros c0 H. left. congruence.
  - reflexivity.
  - cbn. discriminate.
  - repeat constructor; cbn; intros H; repeat (destruct H as [H|H]; [discriminate|]); exact H.
  - intros l [<-|[<-|[<-|[]]]]; eexists; (split; [|reflexivity]); lia.
  - intros _. cbn. congruence.
  - intros H. exfalso. apply H. right. right. left. reflexivity.
  - intros _. exact Hsv.
  - intros H. exfalso. apply H. left. reflexivity.
  - cbn. split; intros _; tauto.
  - intros l. rewrite wl_in_app3, st2_in. cbn [In]. split.
    + intros [[->| ->]|[H|[<-|[]]]]; auto.
    + intros [[<-|[<-|[<-|[]]]]|[H|H]]; auto.
  - apply NoDup_app3; [apply NoDup_st2|apply NoDup_cpu5|repeat constructor; intros []| |].
    + intros l Hl. rewrite st2_in in Hl. split; [rewrite cpu5_in; intros (w & _ & H); destruct Hl; subst; discriminate|].
      intros [<-|[]]. destruct Hl; discriminate.
    + intros l Hl. rewrite cpu5_in in Hl. destruct Hl as (w & _ & ->). intros [H|[]]. discriminate.
Qed.

(* thread who (bound to c) changes its state *)
Lemma post_state sx st who th c new :
  Bnd sx st -> nth_error (threads st) who = Some th -> t_cpu th = Some c -> new <> Unknown ->
  state_val (with_state th new) <> state_val th ->
  let th' := with_state th new in
  let st1 := upd2 st who th' c (cl st c) c (cl st c) in
  c < length (cpu_threads st) /\ OhPost sx st st1 (st2 who ++ cpu5 c).
Proof.
  intros B Hn Hcpu HnU Hsv th' st1.
  destruct (nth_error_thr _ _ _ Hn) as [Hth Hlt].
  assert (Hc : c < length (cpu_threads st) /\ In who (cl st c)) by (apply (n_cpu _ _ B who c Hlt); rewrite Hth; exact Hcpu).
  split; [apply Hc|].
  apply (OhPost_upd2 sx st who th th' c _ c _ _ [LTh who 2; LTh who 1]); try assumption; try apply Hc; try apply (n_nodup _ _ B).
  - intros c0 x Hne. unfold newlist. destruct (Nat.eqb c0 c) eqn:E; [apply Nat.eqb_eq in E; subst|]; tauto.
  - intros c0. unfold newlist. cbn [t_cpu th' with_state]. rewrite Hcpu. destruct (Nat.eqb c0 c) eqn:E.
    + apply Nat.eqb_eq in E. subst. split; [reflexivity|intros _; apply Hc].
    + apply Nat.eqb_neq in E. split; [|intros H; inversion H; congruence].
      intros Hin. exfalso. apply E. apply (bound_only sx st who c c0 B); [rewrite Hth; exact Hcpu|exact Hin].
  - intros c0 H. cbn in H. left. congruence.
  - intros c0 H. left. congruence.
  - reflexivity.
  - cbn. intros H. contradiction.
  - apply NoDup_st2.
  - intros l [<-|[<-|[]]]; eexists; (split; [|reflexivity]); lia.
  - intros [H|[H|[]]]; discriminate.
  - intros _. reflexivity.
  - intros _. exact Hsv.
  - intros H. exfalso. apply H. left. reflexivity.
  - cbn. split; intros _; tauto.
  - intros l. rewrite in_app_iff. tauto.
  - apply NoDup_app_disjoint'; [apply NoDup_st2|apply NoDup_cpu5|].
    intros l Hl. rewrite st2_in in Hl. rewrite cpu5_in. intros (w & _ & H). destruct Hl; subst; discriminate.
Qed.

(* thread t (bound to old) moves to new <> old *)
Lemma post_migrate sx st t th old new :
  Bnd sx st -> nth_error (threads st) t = Some th -> t_cpu th = Some old ->
  new < length (cpu_threads st) -> old <> new ->
  let th' := with_cpu th (Some new) in
  let st1 := upd2 st t th' old (remove_nat t (cl st old)) new (cl st new ++ [t]) in
  old < length (cpu_threads st) /\ ~ In t (cl st new) /\ OhPost sx st st1 (cpu5 old ++ cpu5 new ++ [LTh t 0]).
Proof.
  intros B Hn Hcpu Hnew Hne th' st1.
  destruct (nth_error_thr _ _ _ Hn) as [Hth Hlt].
  assert (Hc : old < length (cpu_threads st) /\ In t (cl st old)) by (apply (n_cpu _ _ B t old Hlt); rewrite Hth; exact Hcpu).
  assert (Hnotin : ~ In t (cl st new)).
  { intros Hin. apply Hne. symmetry. apply (bound_only sx st t old new B); [rewrite Hth; exact Hcpu|exact Hin]. }
  split; [apply Hc|]. split; [exact Hnotin|].
  apply (OhPost_upd2 sx st t th th' old _ new _ _ [LTh t 0]); try assumption; try apply Hc.
  - apply nodup_remove_nat. apply (n_nodup _ _ B).
  - apply nodup_app_single; [apply (n_nodup _ _ B)|exact Hnotin].
  - intros c0 x Hx. unfold newlist. destruct (Nat.eqb c0 new) eqn:E2.
    + apply Nat.eqb_eq in E2. subst c0. rewrite in_app_iff. cbn.
      split; [intros [H|[H|[]]]; [exact H|congruence]|intros H; left; exact H].
    + destruct (Nat.eqb c0 old) eqn:E1; [|tauto]. apply Nat.eqb_eq in E1. subst c0.
      rewrite (in_remove_nat t x (cl st old) (n_nodup _ _ B old)). tauto.
  - intros c0. unfold newlist. cbn [t_cpu th' with_cpu]. destruct (Nat.eqb c0 new) eqn:E2.
    + apply Nat.eqb_eq in E2. subst c0. split; [reflexivity|intros _; apply in_app_iff; right; left; reflexivity].
    + apply Nat.eqb_neq in E2. split; [|intros H; inversion H; congruence]. intros Hin. exfalso.
      destruct (Nat.eqb c0 old) eqn:E1.
      * apply (in_remove_nat t t (cl st old) (n_nodup _ _ B old)) in Hin. tauto.
      * apply Nat.eqb_neq in E1. apply E1. apply (bound_only sx st t old c0 B); [rewrite Hth; exact Hcpu|exact Hin].
  - intros c0 H. cbn in H. inversion H. right. reflexivity.
  - intros c0 H. left. congruence.
  - reflexivity.
  - cbn. tauto.
  - repeat constructor. intros [].
  - intros l [<-|[]]. exists 0. split; [lia|reflexivity].
  - intros _. cbn. congruence.
  - intros H. exfalso. apply H. left. reflexivity.
  - intros [H|[]]. discriminate.
  - intros _ _. reflexivity.
  - cbn. split; intros [H|[]]; discriminate.
  - intros l. rewrite wl_in_app3. cbn [In]. split.
    + intros [H|[H|[<-|[]]]]; auto.
    + intros [[<-|[]]|[H|H]]; auto.
  - apply NoDup_app3; [apply NoDup_cpu5|apply NoDup_cpu5|repeat constructor; intros []| |].
    + intros l Hl. rewrite cpu5_in in Hl. destruct Hl as (w & _ & ->). split.
      * rewrite cpu5_in. intros (w' & _ & H). inversion H. congruence.
      * intros [H|[]]. discriminate.
    + intros l Hl. rewrite cpu5_in in Hl. destruct Hl as (w & _ & ->). intros [H|[]]. discriminate.
Qed.

(* ---------------------------------------------------------------- oh_step *)

Lemma OhPost_refl sx st : Bnd sx st -> OhPost sx st st [].
Proof.
  intros B. constructor; try reflexivity; try assumption.
  - constructor.
  - intros l [].
  - intros l [].
  - intros t H. exact H.
Qed.

Lemma touched_upd2_2 st t th' c1 l1 c2 l2 :
  c1 < length (cpu_touched st) -> c2 < length (cpu_touched st) -> touched (upd2 st t th' c1 l1 c2 l2) c2 = true.
Proof. intros H1 H2. rewrite touched_upd2 by assumption. rewrite Nat.eqb_refl. reflexivity. Qed.

Lemma touched_upd2_1 st t th' c1 l1 c2 l2 :
  c1 < length (cpu_touched st) -> c2 < length (cpu_touched st) -> touched (upd2 st t th' c1 l1 c2 l2) c1 = true.
Proof. intros H1 H2. rewrite touched_upd2 by assumption. rewrite Nat.eqb_refl. destruct (Nat.eqb c1 c2); reflexivity. Qed.

Lemma cpu_of_thr st t th c : thr st t = th -> t_cpu th = Some c -> cpu_of st t = c.
Proof. intros H1 H2. unfold cpu_of, thr_of. fold (thr st t). rewrite H1, H2. reflexivity. Qed.

Lemma state_val_change th new : new <> Unknown -> t_state th <> new -> state_val (with_state th new) <> state_val th.
Proof. intros H1 H2. unfold state_val. cbn [t_state with_state]. destruct (t_state th), new; cbn; congruence. Qed.

Lemma change_state_post sx st who th ok new st1 :
  Bnd sx st -> nth_error (threads st) who = Some th ->
  new <> Unknown -> (ok = true -> t_state th <> new) ->
  change_state sx st who th ok new = Ok st1 ->
  OhPost sx st st1 (st2 who ++ cpu5 (cpu_of st1 who)) /\
  w_state sx st1 who ++ w_cpu_update sx st1 (cpu_of st1 who) = map (wset sx st1) (st2 who ++ cpu5 (cpu_of st1 who)).
Proof.
  intros B Hn HnU Hok H. unfold change_state in H.
  destruct ok; cbn [negb] in H; [|discriminate].
  destruct (t_cpu th) as [c|] eqn:Hcpu; [|discriminate].
  destruct (oversubscribed sx (touch (set_thread st who (with_state th new)) c) c); [discriminate|].
  inversion H; subst st1. clear H. rewrite upd2_state.
  destruct (nth_error_thr _ _ _ Hn) as [Hth Hlt].
  destruct (post_state sx st who th c new B Hn Hcpu HnU (state_val_change th new HnU (Hok eq_refl))) as [Hc P].
  assert (Hu : c < length (cpu_touched st)) by (rewrite (n_len_u _ _ B), <- (n_len_c _ _ B); exact Hc).
  set (st1 := upd2 st who (with_state th new) c (cl st c) c (cl st c)) in *.
  assert (Hthr : thr st1 who = with_state th new) by (apply thr_upd2_same; exact Hlt).
  assert (Hco : cpu_of st1 who = c) by (apply (cpu_of_thr st1 who _ c Hthr); exact Hcpu).
  rewrite Hco. split; [exact P|].
  rewrite map_app, w_state_exp, w_cpu_update_exp; [reflexivity| |].
  - apply touched_upd2_2; exact Hu.
  - rewrite Hthr. cbn. exact HnU.
Qed.

Lemma migrate_post sx st t th old new st1 :
  Bnd sx st -> nth_error (threads st) t = Some th -> t_cpu th = Some old ->
  new < length (cpu_threads st) -> old <> new ->
  migrate sx st t th old new = Ok st1 ->
  cpu_of st t = old /\ cpu_of st1 t = new /\
  OhPost sx st st1 (cpu5 old ++ cpu5 new ++ [LTh t 0]) /\
  w_cpu_update sx st1 old ++ w_cpu_update sx st1 new ++ w_cpu sx st1 t = map (wset sx st1) (cpu5 old ++ cpu5 new ++ [LTh t 0]).
Proof.
  intros B Hn Hcpu Hnew Hne H.
  destruct (nth_error_thr _ _ _ Hn) as [Hth Hlt].
  destruct (post_migrate sx st t th old new B Hn Hcpu Hnew Hne) as (Hold & Hnotin & P).
  unfold migrate in H.
  set (s1 := touch (set_cpu_threads st old (remove_nat t (nth old (cpu_threads st) []))) old) in *.
  assert (Hcl1 : nth new (cpu_threads s1) [] = cl st new).
  { unfold s1, touch, set_cpu_threads, cl. cbn [cpu_threads]. apply nth_update_other. exact Hne. }
  rewrite Hcl1 in H.
  destruct (mem_nat t (cl st new)) eqn:Em; [apply mem_nat_in in Em; contradiction|].
  destruct (oversubscribed sx (touch (set_cpu_threads s1 new (cl st new ++ [t])) new) new); [discriminate|].
  inversion H; subst st1. clear H.
  change (set_thread (touch (set_cpu_threads s1 new (cl st new ++ [t])) new) t (with_cpu th (Some new)))
    with (upd2 st t (with_cpu th (Some new)) old (remove_nat t (cl st old)) new (cl st new ++ [t])).
  set (st1 := upd2 st t (with_cpu th (Some new)) old (remove_nat t (cl st old)) new (cl st new ++ [t])) in *.
  assert (Hu1 : old < length (cpu_touched st)) by (rewrite (n_len_u _ _ B), <- (n_len_c _ _ B); exact Hold).
  assert (Hu2 : new < length (cpu_touched st)) by (rewrite (n_len_u _ _ B), <- (n_len_c _ _ B); exact Hnew).
  assert (Hthr : thr st1 t = with_cpu th (Some new)) by (apply thr_upd2_same; exact Hlt).
  split; [apply (cpu_of_thr st t th old Hth Hcpu)|].
  split; [apply (cpu_of_thr st1 t _ new Hthr); reflexivity|].
  split; [exact P|].
  rewrite !map_app, !w_cpu_update_exp, w_cpu_exp; [reflexivity| |].
  - apply touched_upd2_2; assumption.
  - apply touched_upd2_1; assumption.
Qed.

Lemma oh_step_post sx st who e st1 :
  Bnd sx st -> oh_step sx st who e = Ok st1 ->
  OhPost sx st st1 (oh_wl sx st st1 who e) /\
  oh_writes sx st st1 who e = map (wset sx st1) (oh_wl sx st st1 who e).
Proof.
  intros B H. unfold oh_step, nth_opt in H.
  destruct (nth_error (threads st) who) as [th|] eqn:Hn; [|discriminate].
  destruct (nth_error_thr _ _ _ Hn) as [Hth Hlt].
  destruct (t_ooc th); [discriminate|].
  destruct e as [idx| | | | | |idx|idx tid].
  - (* Execute *)
    destruct (is_running (t_state th)) eqn:Hrun; [discriminate|].
    destruct (find_cpu sx (thread_loom sx who) idx) as [c|] eqn:Hf; [|discriminate].
    destruct (t_cpu th) eqn:Hcpu; [discriminate|].
    destruct (mem_nat who (nth c (cpu_threads st) [])); [discriminate|].
    match type of H with (if ?o then _ else _) = _ => destruct o; [discriminate|] end.
    inversion H; subst st1. clear H.
    assert (Hc : c < length (cpu_threads st)) by (rewrite (n_len_c _ _ B); apply (find_cpu_lt _ _ _ _ Hf)).
    assert (Hu : c < length (cpu_touched st)) by (rewrite (n_len_u _ _ B), <- (n_len_c _ _ B); exact Hc).
    change (nth c (cpu_threads (set_thread st who (with_state (with_cpu th (Some c)) Running))) []) with (cl st c).
    rewrite upd2_one. cbn [oh_wl oh_writes]. fold (cl st c).
    set (th' := with_state (with_cpu th (Some c)) Running).
    set (st1 := upd2 st who th' c (cl st c ++ [who]) c (cl st c ++ [who])).
    assert (Hthr : thr st1 who = th') by (apply thr_upd2_same; exact Hlt).
    assert (Hco : cpu_of st1 who = c) by (apply (cpu_of_thr st1 who th' c Hthr); reflexivity).
    rewrite Hco. split.
    + apply (post_bind sx st who th c Running B Hn Hcpu Hc); [discriminate|].
      apply state_val_change; [discriminate|]. intros E. rewrite E in Hrun. discriminate.
    + rewrite !map_app, w_cpu_exp, w_state_exp, w_cpu_update_exp; [reflexivity| |].
      * apply touched_upd2_2; exact Hu.
      * rewrite Hthr. discriminate.
  - (* End *)
    destruct (t_cpu th) as [c|] eqn:Hcpu.
    2:{ destruct (t_state th); discriminate. }
    assert (Hst : t_state th = Running \/ t_state th = Cooling) by (destruct (t_state th); try discriminate; auto).
    assert (E1 : st1 = upd2 st who (with_cpu (with_state th Dead) None) c (remove_nat who (cl st c)) c (remove_nat who (cl st c))).
    { rewrite <- upd2_one. destruct Hst as [E|E]; rewrite E in H; inversion H; reflexivity. }
    clear H. subst st1. cbn [oh_wl oh_writes]. fold (cl st c).
    set (th' := with_cpu (with_state th Dead) None).
    set (st1 := upd2 st who th' c (remove_nat who (cl st c)) c (remove_nat who (cl st c))).
    assert (Hsv : state_val (with_state th Dead) <> state_val th).
    { apply state_val_change; [discriminate|]. destruct Hst as [E|E]; rewrite E; discriminate. }
    destruct (post_unbind sx st who th c B Hn Hcpu Hsv) as [Hc P].
    assert (Hu : c < length (cpu_touched st)) by (rewrite (n_len_u _ _ B), <- (n_len_c _ _ B); exact Hc).
    assert (Hthr : thr st1 who = th') by (apply thr_upd2_same; exact Hlt).
    rewrite (cpu_of_thr st who th c Hth Hcpu). split; [exact P|].
    rewrite !map_app, w_cpu_exp, w_state_exp, w_cpu_update_exp; [reflexivity| |].
    + apply touched_upd2_2; exact Hu.
    + rewrite Hthr. discriminate.
  - apply (change_state_post sx st who th (match t_state th with Running | Cooling => true | _ => false end) Paused st1 B Hn); [discriminate| |exact H].
    destruct (t_state th); intros; discriminate.
  - apply (change_state_post sx st who th (match t_state th with Paused | Warming => true | _ => false end) Running st1 B Hn); [discriminate| |exact H].
    destruct (t_state th); intros; discriminate.
  - apply (change_state_post sx st who th (match t_state th with Running => true | _ => false end) Cooling st1 B Hn); [discriminate| |exact H].
    destruct (t_state th); intros; discriminate.
  - apply (change_state_post sx st who th (match t_state th with Paused => true | _ => false end) Warming st1 B Hn); [discriminate| |exact H].
    destruct (t_state th); intros; discriminate.
  - (* AffSet *)
    destruct (t_cpu th) as [old|] eqn:Hcpu; [|discriminate].
    destruct (negb (is_active (t_state th))); [discriminate|].
    destruct (find_cpu sx (thread_loom sx who) idx) as [new|] eqn:Hf; [|discriminate].
    cbn [oh_wl oh_writes].
    destruct (Nat.eqb old new) eqn:E.
    + inversion H; subst st1. rewrite Nat.eqb_refl. split; [apply OhPost_refl; exact B|reflexivity].
    + apply Nat.eqb_neq in E.
      assert (Hnew : new < length (cpu_threads st)) by (rewrite (n_len_c _ _ B); apply (find_cpu_lt _ _ _ _ Hf)).
      destruct (migrate_post sx st who th old new st1 B Hn Hcpu Hnew E H) as (C1 & C2 & P & W).
      rewrite C1, C2. apply Nat.eqb_neq in E. rewrite E. split; [exact P|exact W].
  - (* AffRemote *)
    cbn [oh_wl oh_writes].
    destruct (find_remote sx who tid) as [r|]; [|discriminate].
    destruct (nth_error (threads st) r) as [rth|] eqn:Hr; [|discriminate].
    assert (H' : match t_cpu rth with
                 | Some old => match find_cpu sx (thread_loom sx who) idx with
                               | Some new => if Nat.eqb old new then Err E_DUP else migrate sx st r rth old new
                               | None => Err E_CPU end
                 | None => Err E_CPU end = Ok st1).
    { destruct (t_state rth); try discriminate; exact H. }
    clear H. destruct (t_cpu rth) as [old|] eqn:Hcpu; [|discriminate].
    destruct (find_cpu sx (thread_loom sx who) idx) as [new|] eqn:Hf; [|discriminate].
    destruct (Nat.eqb old new) eqn:E; [discriminate|]. apply Nat.eqb_neq in E.
    assert (Hnew : new < length (cpu_threads st)) by (rewrite (n_len_c _ _ B); apply (find_cpu_lt _ _ _ _ Hf)).
    destruct (migrate_post sx st r rth old new st1 B Hr Hcpu Hnew E H') as (C1 & C2 & P & W).
    rewrite C1, C2. split; [exact P|exact W].
Qed.

(* ---------------------------------------------------------------- the other events: only raw channels change *)

Definition sys_same (st st1 : state) : Prop :=
  (forall t, t_state (thr st1 t) = t_state (thr st t) /\ t_cpu (thr st1 t) = t_cpu (thr st t) /\
             length (t_raw (thr st1 t)) = length (t_raw (thr st t))) /\
  length (threads st1) = length (threads st) /\ cpu_threads st1 = cpu_threads st /\ cpu_touched st1 = cpu_touched st.

Lemma sys_same_refl st : sys_same st st.
Proof. split; [intros t; auto|auto]. Qed.

Lemma sys_same_trans a b c : sys_same a b -> sys_same b c -> sys_same a c.
Proof.
  intros [H1 (L1 & C1 & U1)] [H2 (L2 & C2 & U2)]. split.
  - intros t. destruct (H1 t) as (A1 & A2 & A3), (H2 t) as (B1 & B2 & B3). repeat split; congruence.
  - repeat split; congruence.
Qed.

Lemma sys_same_set_thread st who th th' :
  nth_error (threads st) who = Some th -> t_state th' = t_state th -> t_cpu th' = t_cpu th ->
  length (t_raw th') = length (t_raw th) -> sys_same st (set_thread st who th').
Proof.
  intros Hn Hs Hc Hr. destruct (nth_error_thr _ _ _ Hn) as [Hth Hlt]. split.
  - intros t. destruct (Nat.eq_dec t who) as [->|Hne].
    + rewrite thr_set_thread_same by exact Hlt. rewrite Hth. auto.
    + rewrite thr_set_thread_other by congruence. auto.
  - split; [apply len_t_set_thread|split; reflexivity].
Qed.

Lemma Bnd_sys_same sx st st1 : Bnd sx st -> sys_same st st1 -> Bnd sx st1.
Proof.
  intros B [H (L & Cc & U)].
  assert (Ecl : forall c, cl st1 c = cl st c) by (intros c; unfold cl; rewrite Cc; reflexivity).
  constructor.
  - rewrite L. apply (n_len_t _ _ B).
  - rewrite Cc. apply (n_len_c _ _ B).
  - rewrite U. apply (n_len_u _ _ B).
  - intros c t Hin. rewrite Ecl in Hin. rewrite L. destruct (n_in _ _ B c t Hin) as [A1 A2]. split; [exact A1|].
    destruct (H t) as (_ & E & _). congruence.
  - intros t c Ht Hc. rewrite L in Ht. rewrite Cc, Ecl. apply (n_cpu _ _ B t c Ht). destruct (H t) as (_ & E & _). congruence.
  - intros c. rewrite Ecl. apply (n_nodup _ _ B).
  - intros t Ht. rewrite L in Ht. destruct (H t) as (_ & _ & E). rewrite E. apply (n_raw _ _ B t Ht).
Qed.

Lemma exp_sys_same sx st st1 l : sys_same st st1 -> exp sx st1 l = exp sx st l.
Proof.
  intros [H (L & Cc & U)]. destruct l as [t w|c w].
  - destruct (H t) as (A & B & _). apply exp_th_ext; assumption.
  - apply exp_cpu_ext.
    + unfold cl. rewrite Cc. reflexivity.
    + intros t _. apply (H t).
    + unfold touched. rewrite U. reflexivity.
Qed.

Definition raw_trans (sp : chanspec) (r0 r1 : raw) : Prop :=
  if cs_stack sp then
    r_val r1 = r_val r0 /\
    ((exists v, r_stk r1 = v :: r_stk r0 /\ (cs_dup sp = true \/ raw_read sp r0 <> Some v) /\
                length (r_stk r0) < MAX_CHAN_STACK) \/
     (exists x, r_stk r0 = x :: r_stk r1))
  else r_stk r1 = r_stk r0 /\ (cs_dup sp = true \/ r_val r1 <> r_val r0).

Lemma raw_apply_trans sp r a v r' : raw_apply sp r a v = Ok (r', true) -> raw_trans sp r r'.
Proof.
  unfold raw_apply, raw_trans. intros H. destruct a.
  - destruct v as [v|]; [|discriminate]. destruct (cs_stack sp) eqn:Es; cbn [negb] in H; [|discriminate].
    destruct (negb (cs_dup sp) && value_eqb (raw_read sp r) (Some v)) eqn:Ed; [discriminate|].
    destruct (Nat.leb MAX_CHAN_STACK (length (r_stk r))) eqn:El; [discriminate|]. inversion H; subst. cbn.
    split; [reflexivity|]. left. exists v. split; [reflexivity|]. split.
    + apply andb_false_iff in Ed. destruct Ed as [Ed|Ed].
      * left. destruct (cs_dup sp); [reflexivity|discriminate].
      * right. intros E. rewrite E, value_eqb_refl in Ed. discriminate.
    + apply Nat.leb_gt in El. exact El.
  - destruct v as [v|]; [|discriminate]. destruct (cs_stack sp) eqn:Es; cbn [negb] in H; [|discriminate].
    destruct (r_stk r) as [|x rest] eqn:Er; [discriminate|]. destruct (Z.eqb x v); [|discriminate].
    inversion H; subst. cbn. split; [reflexivity|]. right. exists x. reflexivity.
  - destruct (cs_stack sp) eqn:Es; [discriminate|].
    destruct (negb (cs_dup sp) && value_eqb (r_val r) v) eqn:Ed; [discriminate|]. inversion H; subst. cbn.
    split; [reflexivity|]. apply andb_false_iff in Ed. destruct Ed as [Ed|Ed].
    + left. destruct (cs_dup sp); [reflexivity|discriminate].
    + right. intros E. rewrite E, value_eqb_refl in Ed. discriminate.
  - inversion H.
Qed.

Lemma raw_apply_clean sp r a v r' : raw_apply sp r a v = Ok (r', false) -> r' = r.
Proof.
  unfold raw_apply. intros H. destruct a.
  - destruct v; [|discriminate]. repeat match type of H with (if ?c then _ else _) = _ => destruct c; try discriminate end.
  - destruct v; [|discriminate]. destruct (negb (cs_stack sp)); [discriminate|]. destruct (r_stk r); [discriminate|].
    destruct (Z.eqb z0 z); discriminate.
  - repeat match type of H with (if ?c then _ else _) = _ => destruct c; try discriminate end.
  - inversion H. reflexivity.
Qed.

Record RawStep (sx : static) (st st1 : state) (d : list (nat * nat)) : Prop := {
  rs_sys : sys_same st st1;
  rs_last : prv_last st1 = prv_last st;
  rs_frame : forall t k, ~ In (t, k) d -> raw_of st1 t k = raw_of st t k;
  rs_trans : forall t k, In (t, k) d ->
             t < length (threads st) /\ k < length (s_chans sx) /\ raw_trans (spec_of sx k) (raw_of st t k) (raw_of st1 t k)
}.

Lemma RawStep_refl sx st : RawStep sx st st [].
Proof. constructor; [apply sys_same_refl|reflexivity|reflexivity|intros t k []]. Qed.

Lemma RawStep_trans sx a b c d1 d2 :
  RawStep sx a b d1 -> RawStep sx b c d2 -> (forall x, In x d1 -> ~ In x d2) -> RawStep sx a c (d1 ++ d2).
Proof.
  intros R1 R2 Hdis. constructor.
  - apply (sys_same_trans a b c); [apply (rs_sys _ _ _ _ R1)|apply (rs_sys _ _ _ _ R2)].
  - rewrite (rs_last _ _ _ _ R2). apply (rs_last _ _ _ _ R1).
  - intros t k Hn. rewrite (rs_frame _ _ _ _ R2 t k); [apply (rs_frame _ _ _ _ R1 t k)|]; intros H; apply Hn; apply in_or_app; auto.
  - intros t k Hin. apply in_app_or in Hin. destruct Hin as [H|H].
    + destruct (rs_trans _ _ _ _ R1 t k H) as (A1 & A2 & A3). split; [exact A1|]. split; [exact A2|].
      rewrite (rs_frame _ _ _ _ R2 t k (Hdis _ H)). exact A3.
    + destruct (rs_trans _ _ _ _ R2 t k H) as (A1 & A2 & A3).
      destruct (rs_sys _ _ _ _ R1) as (_ & L & _). split; [rewrite <- L; exact A1|]. split; [exact A2|].
      assert (Hn1 : ~ In (t, k) d1) by (intros H1; apply (Hdis _ H1 H)).
      rewrite <- (rs_frame _ _ _ _ R1 t k Hn1). exact A3.
Qed.

Lemma RawStep_sys sx st st1 : sys_same st st1 -> raws st1 = raws st -> prv_last st1 = prv_last st -> RawStep sx st st1 [].
Proof.
  intros S R L. constructor; [exact S|exact L| |intros t k []].
  intros t k _. apply raw_of_same_raws. exact R.
Qed.

Lemma chan_step_raw sx st who k a v st1 d :
  Bnd sx st -> chan_step sx st who k a v = Ok (st1, d) -> RawStep sx st st1 d.
Proof.
  intros B H. unfold chan_step, nth_opt in H.
  destruct (nth_error (threads st) who) as [th|] eqn:Hn; [|discriminate].
  destruct (nth_error (s_chans sx) k) as [sp|] eqn:Hk; [|discriminate].
  destruct (raw_apply sp (nth k (t_raw th) empty_raw) a v) as [[r' dd]|] eqn:Ea; [|discriminate].
  inversion H; subst st1 d. clear H.
  destruct (nth_error_thr _ _ _ Hn) as [Hth Hlt].
  pose proof (nth_error_lt _ _ _ Hk) as Hklt.
  assert (Hrl : length (t_raw th) = length (s_chans sx)) by (rewrite <- Hth; apply (n_raw _ _ B who Hlt)).
  assert (Hsp : spec_of sx k = sp) by (unfold spec_of; apply nth_error_nth; exact Hk).
  assert (Hro : raw_of st who k = nth k (t_raw th) empty_raw) by (unfold raw_of; fold (thr st who); rewrite Hth; reflexivity).
  set (st1 := set_thread st who (with_raw th (update (t_raw th) k r'))).
  assert (Hsys : sys_same st st1).
  { apply (sys_same_set_thread st who th); [exact Hn|reflexivity|reflexivity|]. cbn. apply update_length. }
  assert (Hother : forall t k', (t, k') <> (who, k) -> raw_of st1 t k' = raw_of st t k').
  { intros t k' Hne. unfold raw_of. fold (thr st1 t). fold (thr st t). unfold st1.
    destruct (Nat.eq_dec t who) as [->|Ht].
    - rewrite thr_set_thread_same by exact Hlt. rewrite Hth. cbn [t_raw with_raw].
      rewrite nth_update_other; [reflexivity|]. intros ->. apply Hne. reflexivity.
    - rewrite thr_set_thread_other by congruence. reflexivity. }
  assert (Hsame : raw_of st1 who k = r').
  { unfold raw_of. fold (thr st1 who). unfold st1. rewrite thr_set_thread_same by exact Hlt. cbn [t_raw with_raw].
    apply nth_update_same. rewrite Hrl. exact Hklt. }
  constructor.
  - exact Hsys.
  - reflexivity.
  - intros t k' Hnin. destruct dd.
    + apply Hother. intros E. apply Hnin. rewrite E. left. reflexivity.
    + destruct (Nat.eq_dec t who) as [->|Ht]; [destruct (Nat.eq_dec k' k) as [->|Hk']|].
      * rewrite Hsame, Hro. apply (raw_apply_clean _ _ _ _ _ Ea).
      * apply Hother. congruence.
      * apply Hother. congruence.
  - intros t k' Hin. destruct dd; [|destruct Hin]. destruct Hin as [E|[]]. inversion E; subst t k'.
    split; [exact Hlt|]. split; [exact Hklt|]. rewrite Hsp, Hsame, Hro. apply (raw_apply_trans _ _ _ _ _ Ea).
Qed.

Lemma chan_step_dirty sx st who k a v st1 d : chan_step sx st who k a v = Ok (st1, d) -> d = [] \/ d = [(who, k)].
Proof.
  unfold chan_step. intros H. destruct (nth_opt (threads st) who); [|discriminate]. destruct (nth_opt (s_chans sx) k); [|discriminate].
  destruct (raw_apply c (nth k (t_raw t) empty_raw) a v) as [[r' dd]|]; [|discriminate]. inversion H. destruct dd; auto.
Qed.

Lemma NoDup_app_r' {A} (a b : list A) : NoDup (a ++ b) -> NoDup b.
Proof. induction a as [|x a IH]; intros H; [exact H|]. cbn in H. inversion H; subst. apply IH. assumption. Qed.

Lemma set_chans_raw sx who ws : forall st d0 st1 d,
  Bnd sx st -> set_chans sx st who ws d0 = Ok (st1, d) ->
  exists d', d = d0 ++ d' /\ (NoDup d' -> RawStep sx st st1 d').
Proof.
  induction ws as [|[k v] ws IH]; intros st d0 st1 d B H; cbn [set_chans] in H.
  - inversion H; subst. exists []. split; [rewrite app_nil_r; reflexivity|intros _; apply RawStep_refl].
  - destruct (chan_step sx st who k SET v) as [[st' d1]|] eqn:E; [|discriminate].
    pose proof (chan_step_raw _ _ _ _ _ _ _ _ B E) as R1.
    pose proof (Bnd_sys_same _ _ _ B (rs_sys _ _ _ _ R1)) as B1.
    destruct (IH _ _ _ _ B1 H) as (d' & -> & R2).
    exists (d1 ++ d'). split; [rewrite app_assoc; reflexivity|]. intros Hnd.
    apply (RawStep_trans sx st st' st1); [exact R1| |].
    + apply R2. apply NoDup_app_r' in Hnd. exact Hnd.
    + intros x H1 H2. revert x H1 H2. clear -Hnd. induction d1 as [|a d1 IHd]; intros x H1 H2; [destruct H1|].
      cbn in Hnd. inversion Hnd as [|? ? Ha Hnd']; subst. destruct H1 as [<-|H1].
      * apply Ha. apply in_or_app. right. exact H2.
      * apply (IHd Hnd' x H1 H2).
Qed.

Lemma task_op_sys st who th loom pid mdl kind tid bid st1 :
  nth_error (threads st) who = Some th ->
  task_op st who th loom pid mdl kind tid bid = Ok st1 -> sys_same st st1.
Proof.
  intros Hn H. unfold task_op in H.
  assert (G : forall ti tk bi b th', t_state th' = t_state th -> t_cpu th' = t_cpu th -> t_raw th' = t_raw th ->
            sys_same st (set_thread (store_body st ti tk bi b) who th')).
  { intros ti tk bi b th' Hs Hc Hr. apply (sys_same_trans st (store_body st ti tk bi b)).
    - unfold store_body. split; [intros t; auto|auto].
    - apply (sys_same_set_thread (store_body st ti tk bi b) who th); [exact Hn|exact Hs|exact Hc|rewrite Hr; reflexivity]. }
  assert (G0 : forall ti tk bi b, sys_same st (store_body st ti tk bi b)).
  { intros. unfold store_body. split; [intros t; auto|auto]. }
  break_in H; inversion H; subst; try (apply G; reflexivity); try apply G0.
Qed.

Lemma NoDup_app_disj {A} (a b : list A) : NoDup (a ++ b) -> forall x, In x a -> ~ In x b.
Proof.
  induction a as [|y a IH]; intros Hnd x H1 H2; [destruct H1|].
  cbn in Hnd. inversion Hnd as [|? ? Ha Hnd']; subst. destruct H1 as [<-|H1].
  - apply Ha. apply in_or_app. right. exact H2.
  - apply (IH Hnd' x H1 H2).
Qed.

Lemma task_event_raw sx st who cfg mdl kind tid bid st1 dirty :
  Bnd sx st -> task_event sx st who cfg mdl kind tid bid = Ok (st1, dirty) -> NoDup dirty -> RawStep sx st st1 dirty.
Proof.
  intros B H Hnd. unfold task_event, nth_opt in H.
  destruct (nth_error (threads st) who) as [th|] eqn:Hn; [|discriminate].
  destruct (nth_error (s_threads sx) who) as [ti|]; [|discriminate].
  destruct (find_task st (ti_loom ti) (ti_pid ti) mdl tid) as [[i0 tk0]|]; [|discriminate].
  match type of H with match ?o with Some _ => _ | None => _ end = _ => destruct o as [b|]; [|discriminate] end.
  destruct (task_op st who th (ti_loom ti) (ti_pid ti) mdl kind tid b) as [s1|] eqn:Eop; [|discriminate].
  destruct (task_op_frame _ _ _ _ _ _ _ _ _ _ Hn Eop) as [Hr1 Hl1].
  pose proof (task_op_sys _ _ _ _ _ _ _ _ _ _ Hn Eop) as S1.
  pose proof (Bnd_sys_same _ _ _ B S1) as B1.
  pose proof (RawStep_sys sx st s1 S1 Hr1 Hl1) as R1.
  match type of H with match ?ssr with Ok _ => _ | Err _ => _ end = _ => destruct ssr as [[s2 d1]|] eqn:Ess; [|discriminate] end.
  assert (R2 : RawStep sx s1 s2 d1).
  { destruct (kind =? 120)%Z; [apply (chan_step_raw _ _ _ _ _ _ _ _ B1 Ess)|].
    destruct (kind =? 101)%Z; [apply (chan_step_raw _ _ _ _ _ _ _ _ B1 Ess)|].
    inversion Ess; subst. apply RawStep_refl. }
  pose proof (Bnd_sys_same _ _ _ B1 (rs_sys _ _ _ _ R2)) as B2.
  match type of H with match ?w with Ok _ => _ | Err _ => _ end = _ => destruct w as [ws|]; [|discriminate] end.
  destruct (set_chans sx s2 who ws d1) as [[s3 d]|] eqn:Esc; [|discriminate].
  destruct (set_chans_raw _ _ _ _ _ _ _ B2 Esc) as (d' & -> & R3).
  assert (Ed : dirty = d1 ++ d' /\ st1 = s3) by (break_in H; inversion H; subst; auto).
  destruct Ed as [-> ->].
  change (d1 ++ d') with ([] ++ (d1 ++ d')). apply (RawStep_trans sx st s1 s3); [exact R1| |intros x []].
  apply (RawStep_trans sx s1 s2 s3); [exact R2|apply R3; apply NoDup_app_r' in Hnd; exact Hnd|].
  apply NoDup_app_disj. exact Hnd.
Qed.

Lemma core_step_raw sx st who ev st1 dirty :
  Bnd sx st -> (forall e, ev <> EvOvni e) -> core_step sx st who ev = Ok (st1, dirty) -> NoDup dirty ->
  RawStep sx st st1 dirty.
Proof.
  intros B Hne H Hnd. unfold core_step, nth_opt in H. destruct ev.
  - exfalso. apply (Hne e). reflexivity.
  - destruct (nth_error (threads st) who) as [th|]; [|discriminate].
    break_in H. apply (chan_step_raw _ _ _ _ _ _ _ _ B H).
  - destruct (nth_error (threads st) who) as [th|] eqn:Hn; [|discriminate].
    assert (S1 : sys_same st (set_thread st who (with_ooc th out))).
    { apply (sys_same_set_thread st who th); [exact Hn|reflexivity|reflexivity|reflexivity]. }
    pose proof (Bnd_sys_same _ _ _ B S1) as B1.
    pose proof (chan_step_raw _ _ _ _ _ _ _ _ B1 H) as R2.
    change dirty with ([] ++ dirty). apply (RawStep_trans sx st (set_thread st who (with_ooc th out)) st1); [|exact R2|intros x []].
    apply RawStep_sys; [exact S1| |reflexivity]. apply (raws_set_thread st who th); [exact Hn|reflexivity].
  - destruct (nth_error (threads st) who) as [th|]; [|discriminate].
    destruct (need_ok (tc_need cfg) th); [|discriminate].
    apply (task_event_raw _ _ _ _ _ _ _ _ _ _ B H Hnd).
  - destruct (nth_error (threads st) who) as [th|]; [|discriminate].
    destruct (need_ok need th); [|discriminate].
    destruct (task_create sx st who mdl tid typeid par res pause relax) as [s|] eqn:E; [|discriminate].
    inversion H; subst. unfold task_create, nth_opt in E. break_in E. inversion E; subst.
    apply RawStep_sys; [split; [intros ?; auto|auto]|reflexivity|reflexivity].
  - destruct (nth_error (threads st) who) as [th|]; [|discriminate].
    destruct (need_ok need th); [|discriminate].
    destruct (type_create sx st who mdl typeid gid) as [s|] eqn:E; [|discriminate].
    inversion H; subst. unfold type_create, nth_opt in E. break_in E. inversion E; subst.
    apply RawStep_sys; [split; [intros ?; auto|auto]|reflexivity|reflexivity].
  - destruct (nth_error (threads st) who) as [th|]; [|discriminate].
    destruct (t_ooc th); [discriminate|]. inversion H; subst. apply RawStep_refl.
  - discriminate.
Qed.

(* ---------------------------------------------------------------- a handler writes each raw channel at most once *)

(* the task events write the subsystem channel and the channels of tc_chans: these must be distinct
   (they are, for the nOS-V and Nanos6 configurations of DecodeDefs: Properties_C06.C06_task_cfgs_distinct) *)
Definition ev_wf (ev : event) : Prop :=
  match ev with
  | EvTask cfg _ _ _ _ => NoDup (tc_ss cfg :: map snd (tc_chans cfg))
  | _ => True
  end.

Lemma chan_step_set_dirty sx st who k v st1 d : chan_step sx st who k SET v = Ok (st1, d) -> d = [(who, k)].
Proof.
  unfold chan_step. intros H. destruct (nth_opt (threads st) who); [|discriminate]. destruct (nth_opt (s_chans sx) k); [|discriminate].
  destruct (raw_apply c (nth k (t_raw t) empty_raw) SET v) as [[r' dd]|] eqn:E; [|discriminate]. inversion H; subst.
  unfold raw_apply in E. destruct (cs_stack c); [discriminate|]. destruct (negb (cs_dup c) && value_eqb (r_val (nth k (t_raw t) empty_raw)) v); [discriminate|].
  inversion E. reflexivity.
Qed.

Lemma set_chans_dirty sx who ws : forall st d0 st1 d,
  set_chans sx st who ws d0 = Ok (st1, d) -> d = d0 ++ map (fun kv => (who, fst kv)) ws.
Proof.
  induction ws as [|[k v] ws IH]; intros st d0 st1 d H; cbn [set_chans] in H.
  - inversion H. rewrite app_nil_r. reflexivity.
  - destruct (chan_step sx st who k SET v) as [[st' d1]|] eqn:E; [|discriminate].
    rewrite (chan_step_set_dirty _ _ _ _ _ _ _ E) in H. rewrite (IH _ _ _ _ H). cbn [map fst]. rewrite <- app_assoc. reflexivity.
Qed.

Lemma NoDup_map_filter {A B} (f : A -> B) (p : A -> bool) l : NoDup (map f l) -> NoDup (map f (filter p l)).
Proof.
  induction l as [|x l IH]; intros H; cbn; [constructor|]. cbn in H. inversion H as [|? ? Hx Hl]; subst.
  destruct (p x); [|apply IH; exact Hl]. cbn. constructor; [|apply IH; exact Hl].
  intros Hin. apply Hx. apply in_map_iff in Hin. destruct Hin as (y & E & Hy). apply filter_In in Hy. rewrite <- E. apply in_map. apply Hy.
Qed.

Lemma in_map_filter {A B} (f : A -> B) (p : A -> bool) l y : In y (map f (filter p l)) -> In y (map f l).
Proof. intros H. apply in_map_iff in H. destruct H as (x & E & Hx). apply filter_In in Hx. rewrite <- E. apply in_map. apply Hx. Qed.

Lemma task_event_nodup sx st who cfg mdl kind tid bid st1 dirty :
  NoDup (tc_ss cfg :: map snd (tc_chans cfg)) ->
  task_event sx st who cfg mdl kind tid bid = Ok (st1, dirty) -> NoDup dirty.
Proof.
  intros Hwf H. unfold task_event, nth_opt in H.
  destruct (nth_error (threads st) who) as [th|]; [|discriminate].
  destruct (nth_error (s_threads sx) who) as [ti|]; [|discriminate].
  destruct (find_task st (ti_loom ti) (ti_pid ti) mdl tid) as [[i0 tk0]|]; [|discriminate].
  match type of H with match ?o with Some _ => _ | None => _ end = _ => destruct o as [b|]; [|discriminate] end.
  destruct (task_op st who th (ti_loom ti) (ti_pid ti) mdl kind tid b) as [s1|]; [|discriminate].
  match type of H with match ?ssr with Ok _ => _ | Err _ => _ end = _ => destruct ssr as [[s2 d1]|] eqn:Ess; [|discriminate] end.
  assert (Hd1 : d1 = [] \/ d1 = [(who, tc_ss cfg)]).
  { destruct (kind =? 120)%Z; [apply (chan_step_dirty _ _ _ _ _ _ _ _ Ess)|].
    destruct (kind =? 101)%Z; [apply (chan_step_dirty _ _ _ _ _ _ _ _ Ess)|]. inversion Ess. left. reflexivity. }
  set (fields := filter (fun '(f, _) => match f with FRank => (0 <=? ti_rank ti)%Z | _ => true end) (tc_chans cfg)) in *.
  match type of H with match ?w with Ok _ => _ | Err _ => _ end = _ => destruct w as [ws|] eqn:Ew; [|discriminate] end.
  assert (Hks : map fst ws = map snd fields).
  { repeat match type of Ew with
           | (if ?c then _ else _) = _ => destruct c; try discriminate
           | match ?x with Some _ => _ | None => _ end = _ => destruct x as [[? ?]|]; try discriminate
           end; inversion Ew; subst; rewrite map_map; apply map_ext; intros [f k]; reflexivity. }
  destruct (set_chans sx s2 who ws d1) as [[s3 d]|] eqn:Esc; [|discriminate].
  pose proof (set_chans_dirty _ _ _ _ _ _ _ Esc) as Ed.
  assert (Edirty : dirty = d) by (break_in H; inversion H; reflexivity). subst dirty. rewrite Ed.
  assert (E2 : map (fun kv : nat * value => (who, fst kv)) ws = map (fun k => (who, k)) (map snd fields)).
  { rewrite <- Hks, map_map. reflexivity. }
  rewrite E2. inversion Hwf as [|? ? Hss Hnd]; subst.
  assert (Hnd2 : NoDup (map (fun k => (who, k)) (map snd fields))).
  { apply EmuCoreWf.NoDup_map_inj_in; [apply NoDup_map_filter; exact Hnd|]. intros x y _ _ E. inversion E. reflexivity. }
  destruct Hd1 as [-> | ->]; [exact Hnd2|]. cbn. constructor; [|exact Hnd2].
  intros Hin. apply in_map_iff in Hin. destruct Hin as (k & E & Hk). inversion E; subst k. apply Hss. apply (in_map_filter _ _ _ _ Hk).
Qed.

Lemma core_step_nodup sx st who ev st1 dirty : ev_wf ev -> core_step sx st who ev = Ok (st1, dirty) -> NoDup dirty.
Proof.
  intros Hwf H. unfold core_step, nth_opt in H. destruct ev.
  - destruct (oh_step sx st who e); [|discriminate]. inversion H. constructor.
  - destruct (nth_error (threads st) who); [|discriminate]. break_in H.
    destruct (chan_step_dirty _ _ _ _ _ _ _ _ H) as [-> | ->]; [constructor|constructor; [intros []|constructor]].
  - destruct (nth_error (threads st) who); [|discriminate].
    destruct (chan_step_dirty _ _ _ _ _ _ _ _ H) as [-> | ->]; [constructor|constructor; [intros []|constructor]].
  - destruct (nth_error (threads st) who); [|discriminate]. destruct (need_ok (tc_need cfg) t); [|discriminate].
    apply (task_event_nodup _ _ _ _ _ _ _ _ _ _ Hwf H).
  - destruct (nth_error (threads st) who); [|discriminate]. destruct (need_ok need t); [|discriminate].
    destruct (task_create sx st who mdl tid typeid par res pause relax); [|discriminate]. inversion H. constructor.
  - destruct (nth_error (threads st) who); [|discriminate]. destruct (need_ok need t); [|discriminate].
    destruct (type_create sx st who mdl typeid gid); [|discriminate]. inversion H. constructor.
  - destruct (nth_error (threads st) who); [|discriminate]. destruct (t_ooc t); [discriminate|]. inversion H. constructor.
  - discriminate.
Qed.
