(* prv_register (prv.c) and chan_init (chan.c) from source (unit prvreg), and the composition with unit connect: the
   meanings Emu/ConnectPre.v gives to prv_register / chan_init are what the generated functions compute. *)
From Coq Require Import ZArith List Bool Lia String.
From OV Require Import Base.CInt Emu.EmuCoreDefs.
From OV Require Emu.BayDefs Emu.PrvRegPre Gen.PrvReg_gen Emu.ChanInitPre Gen.ChanInit_gen Emu.ChanPre Emu.ConnectPre Proofs.ConnectComposeProofs.
Import ListNotations.
Local Open Scope Z_scope.

Module B := BayDefs.
Module R := PrvRegPre.
Module GR := PrvReg_gen.
Module I := ChanInitPre.
Module GI := ChanInit_gen.
Module C := ConnectPre.
Module CC := ConnectComposeProofs.

(* ---- check_flags *)
Definition has (flags bit : Z) : bool := negb (Z.land flags bit =? 0).
Definition flags_ok (flags : Z) : bool :=
  negb (has flags GR.c_PRV_EMITDUP && has flags GR.c_PRV_SKIPDUPNULL) &&
  negb (has flags GR.c_PRV_EMITDUP && has flags GR.c_PRV_SKIPDUP) &&
  negb (has flags GR.c_PRV_SKIPDUP && has flags GR.c_PRV_SKIPDUPNULL).

Lemma check_flags_from_source flags sx st :
  GR.check_flags flags sx st = if flags_ok flags then Ok (tt, st) else Err R.E_FAIL.
Proof.
  unfold GR.check_flags, flags_ok, has, R.ite, R.fail, R.ret.
  destruct (negb (Z.land flags GR.c_PRV_EMITDUP =? 0)), (negb (Z.land flags GR.c_PRV_SKIPDUPNULL =? 0)),
           (negb (Z.land flags GR.c_PRV_SKIPDUP =? 0)); reflexivity.
Qed.

(* ---- prv_register *)
Definition id_of_row (sx : R.renv) (type row : Z) : Z := type * R.rn_nrows sx + row.
Definition filled (sx : R.renv) (row type : Z) (c : nat) (flags : Z) : R.rchanobj :=
  {| R.rc_id := id_of_row sx type row; R.rc_chan := Some c; R.rc_row_base1 := row + 1; R.rc_type := type; R.rc_prv := Some tt;
     R.rc_last := None; R.rc_last_set := 0; R.rc_flags := flags |}.
Definition ecb_for (sx : R.renv) (row type flags : Z) : B.ecb :=
  {| B.e_cpu := R.rn_cpu sx; B.e_row := Z.to_nat row; B.e_type := type; B.e_flags := flags |}.

Theorem prv_register_from_source sx st row type c flags :
  R.rn_alloc_ok sx = true -> R.valid st c = true -> flags_ok flags = true ->
  existsb (Z.eqb (id_of_row sx type row)) (R.rs_ids st) = false ->
  GR.prv_register (Some tt) row type (Some tt) (Some c) flags sx st =
  Ok (tt, {| R.rs_bay := R.set_ecbs (R.rs_bay st) c (B.ecbs_of (R.rs_bay st) c ++ [ecb_for sx row type flags]);
             R.rs_ids := id_of_row sx type row :: R.rs_ids st;
             R.rs_new := filled sx row type c flags |}).
Proof.
  intros Ha Hv Hf Hn. destruct st as [bay ids new]. cbn [R.rs_ids R.rs_bay] in *. unfold R.valid in Hv. cbn [R.rs_bay] in Hv.
  unfold GR.prv_register, R.need, R.bind_. unfold R.bind, R.eval, R.ite, R.fail, R.ret.
  cbn [GR.get_id_safe is_null negb]. unfold GR.get_id, R.get_prv__nrows, R.find_prv_chan. cbn [R.rs_ids].
  change (type * R.rn_nrows sx + row) with (id_of_row sx type row). rewrite Hn. cbn [is_null negb].
  unfold R.calloc_ptr_rchan, R.with_new. rewrite Ha. cbn [is_null negb R.rs_bay R.rs_ids R.rs_new]. rewrite check_flags_from_source, Hf.
  (* one field setter at a time, projections reduced after each: the struct stays an explicit record *)
  unfold R.set_prv_chan_id, R.upd_new, R.with_new.
  cbn [R.rs_new R.rs_bay R.rs_ids R.with_new R.rc_id R.rc_chan R.rc_row_base1 R.rc_type R.rc_prv R.rc_last R.rc_last_set R.rc_flags R.rchan0].
  unfold R.set_prv_chan_chan, R.upd_new, R.with_new.
  cbn [R.rs_new R.rs_bay R.rs_ids R.with_new R.rc_id R.rc_chan R.rc_row_base1 R.rc_type R.rc_prv R.rc_last R.rc_last_set R.rc_flags R.rchan0].
  unfold R.set_prv_chan_row_base1, R.upd_new, R.with_new.
  cbn [R.rs_new R.rs_bay R.rs_ids R.with_new R.rc_id R.rc_chan R.rc_row_base1 R.rc_type R.rc_prv R.rc_last R.rc_last_set R.rc_flags R.rchan0].
  unfold R.set_prv_chan_type, R.upd_new, R.with_new.
  cbn [R.rs_new R.rs_bay R.rs_ids R.with_new R.rc_id R.rc_chan R.rc_row_base1 R.rc_type R.rc_prv R.rc_last R.rc_last_set R.rc_flags R.rchan0].
  unfold R.set_prv_chan_prv, R.upd_new, R.with_new.
  cbn [R.rs_new R.rs_bay R.rs_ids R.with_new R.rc_id R.rc_chan R.rc_row_base1 R.rc_type R.rc_prv R.rc_last R.rc_last_set R.rc_flags R.rchan0].
  unfold R.set_prv_chan_last_value, R.upd_new, R.value_null, R.with_new.
  cbn [R.rs_new R.rs_bay R.rs_ids R.with_new R.rc_id R.rc_chan R.rc_row_base1 R.rc_type R.rc_prv R.rc_last R.rc_last_set R.rc_flags R.rchan0].
  unfold R.set_prv_chan_last_value_set, R.upd_new, R.with_new.
  cbn [R.rs_new R.rs_bay R.rs_ids R.with_new R.rc_id R.rc_chan R.rc_row_base1 R.rc_type R.rc_prv R.rc_last R.rc_last_set R.rc_flags R.rchan0].
  unfold R.set_prv_chan_flags, R.upd_new, R.with_new.
  cbn [R.rs_new R.rs_bay R.rs_ids R.with_new R.rc_id R.rc_chan R.rc_row_base1 R.rc_type R.rc_prv R.rc_last R.rc_last_set R.rc_flags R.rchan0].
  unfold R.bay_add_cb, R.fn_cb_prv, R.void_of_ptr_rchan, R.valid. change (cast_uint32 GR.c_BAY_CB_EMIT =? 1) with true.
  cbn [negb R.rs_bay]. rewrite Hv, Ha. cbn [negb Z.eqb is_null].
  unfold R.HASH_ADD_LONG_prv_channels, R.with_ids, R.with_bay, R.ecb_of, ecb_for, filled.
  cbn [R.rs_bay R.rs_ids R.rs_new R.rc_id R.rc_row_base1 R.rc_type R.rc_flags].
  replace (row + 1 - 1) with row by lia. reflexivity.
Qed.

(* refusals of the generated prv_register: a (row, type) pair that already has a channel; inconsistent flags *)
Theorem prv_register_refusals sx st row type c flags :
  (existsb (Z.eqb (id_of_row sx type row)) (R.rs_ids st) = true ->
     GR.prv_register (Some tt) row type (Some tt) (Some c) flags sx st = Err R.E_FAIL) /\
  (existsb (Z.eqb (id_of_row sx type row)) (R.rs_ids st) = false -> R.rn_alloc_ok sx = true -> flags_ok flags = false ->
     GR.prv_register (Some tt) row type (Some tt) (Some c) flags sx st = Err R.E_FAIL).
Proof.
  split.
  - intros Hn. unfold GR.prv_register, R.need, R.bind_. unfold R.bind, R.eval, R.ite, R.fail, R.ret.
    cbn [GR.get_id_safe is_null negb]. unfold GR.get_id, R.get_prv__nrows, R.find_prv_chan.
    change (type * R.rn_nrows sx + row) with (id_of_row sx type row). rewrite Hn. reflexivity.
  - intros Hn Ha Hf. unfold GR.prv_register, R.need, R.bind_. unfold R.bind, R.eval, R.ite, R.fail, R.ret.
    cbn [GR.get_id_safe is_null negb]. unfold GR.get_id, R.get_prv__nrows, R.find_prv_chan.
    change (type * R.rn_nrows sx + row) with (id_of_row sx type row). rewrite Hn. cbn [is_null negb].
    unfold R.calloc_ptr_rchan. rewrite Ha. cbn [is_null negb]. rewrite check_flags_from_source, Hf. reflexivity.
Qed.

(* ---- chan_init *)
Definition inited (type : Z) : ChanPre.chan :=
  {| ChanPre.is_dirty := 0; ChanPre.prop := [0; 0; 0]; ChanPre.has_cb := false; ChanPre.last_value := ChanPre.vnull; ChanPre.ctype := type;
     ChanPre.dvalue := ChanPre.vnull; ChanPre.sn := 0; ChanPre.svalues := repeat ChanPre.vnull MAX_CHAN_STACK |}.

Theorem chan_init_from_source sx st type fmt :
  GI.chan_init (Some tt) type fmt sx st =
  if (I.ie_len sx <? 0) || (cast_uint64 (I.ie_len sx) >=? I.c_arraylen) then Err I.E_DIE else Ok (tt, {| I.ic := inited type |}).
Proof.
  unfold GI.chan_init, I.need, I.bind_. unfold I.bind, I.eval, I.ite, I.fail, I.ret, I.zero_chan, I.vsnprintf, I.set_chan_type.
  cbn [is_null negb]. destruct (I.ie_len sx <? 0); [reflexivity|]. cbn [orb].
  destruct (cast_uint64 (I.ie_len sx) >=? I.c_arraylen); reflexivity.
Qed.

(* ---- composition with unit connect *)
Theorem prv_register_composed sx st cpu row type a ci flags ids nrows new :
  CC.Reg st -> C.id_of st a = Some ci -> flags_ok flags = true ->
  existsb (Z.eqb (type * nrows + row)) ids = false ->
  exists rs',
    GR.prv_register (Some tt) row type (Some tt) (Some ci) flags {| R.rn_cpu := cpu; R.rn_nrows := nrows; R.rn_alloc_ok := true |}
      {| R.rs_bay := C.cs_bay st; R.rs_ids := ids; R.rs_new := new |} = Ok (tt, rs') /\
    C.prv_register (Some cpu) row type (Some tt) (Some a) flags sx st = Ok (tt, C.with_bay st (R.rs_bay rs')) /\
    R.rs_ids rs' = (type * nrows + row) :: ids.
Proof.
  intros [Hr Hd] Hi Hf Hn. pose proof (CC.id_of_lt _ _ _ Hi) as Hl. rewrite Hr in Hl.
  eexists. split; [|split].
  - apply prv_register_from_source; try assumption; try reflexivity.
    unfold R.valid. cbn. apply Nat.ltb_lt. exact Hl.
  - unfold C.prv_register. rewrite Hi. reflexivity.
  - reflexivity.
Qed.

Theorem chan_init_composed sx st a type fmt isx ist :
  0 <= I.ie_len isx < I.c_arraylen ->
  exists ist' st',
    GI.chan_init (Some tt) type fmt isx ist = Ok (tt, ist') /\
    C.chan_init (Some a) type fmt sx st = Ok (tt, st') /\
    C.pend_get st' a = Some (type =? C.T_STACK, false, false) /\
    ChanPre.prop (I.ic ist') = [0; b2z false; b2z false] /\ ChanPre.ctype (I.ic ist') = type /\ ChanPre.has_cb (I.ic ist') = false.
Proof.
  intros Hl. eexists. eexists. split; [|split; [reflexivity|split; [apply CC.pend_get_set|]]].
  - rewrite chan_init_from_source.
    assert (E1 : (I.ie_len isx <? 0) = false) by (apply Z.ltb_ge; lia).
    assert (E2 : (cast_uint64 (I.ie_len isx) >=? I.c_arraylen) = false).
    { unfold cast_uint64, wrapu. rewrite Z.mod_small; [|unfold I.c_arraylen in Hl; lia]. rewrite Z.geb_leb. apply Z.leb_gt. lia. }
    rewrite E1, E2. reflexivity.
  - repeat split; reflexivity.
Qed.
