(* C13: proofs about the Paraver writer model (Emu/PvDefs.v). *)
From Coq Require Import ZArith List Bool Lia.
From OV Require Import Base.CInt Emu.EmuCoreDefs Emu.DecodeDefs Emu.MarkDefs Emu.PvDefs.
From OV Require Gen.Tables_gen Gen.Pv_gen.
Import ListNotations.
Local Open Scope Z_scope.

(* ================================================================== decimal printing *)
Definition dstep (a c : Z) : Z := a * 10 + (c - 48).

Lemma is_digit_ok d : 0 <= d < 10 -> is_digit (48 + d) = true.
Proof. intros H. unfold is_digit. apply andb_true_iff. split; apply Z.leb_le; lia. Qed.

Lemma digits_ok f : forall n, 0 <= n -> n < 10 ^ Z.of_nat f -> (0 < f)%nat ->
  digits f n <> [] /\ forallb is_digit (digits f n) = true /\ fold_left dstep (digits f n) 0 = n.
Proof.
  induction f as [|f IH]; intros n Hn Hlt Hf; [lia|].
  cbn [digits]. destruct (n <? 10) eqn:E.
  - apply Z.ltb_lt in E. repeat split; [discriminate| |].
    + cbn [forallb]. rewrite is_digit_ok by lia. reflexivity.
    + cbn [fold_left]. unfold dstep. lia.
  - apply Z.ltb_ge in E.
    assert (Hq : 0 <= n / 10) by (apply Z.div_pos; lia).
    assert (Hq1 : 1 <= n / 10) by (apply Z.div_le_lower_bound; lia).
    assert (Hqlt : n / 10 < 10 ^ Z.of_nat f).
    { apply Z.div_lt_upper_bound; [lia|]. rewrite Nat2Z.inj_succ, Z.pow_succ_r in Hlt by lia. lia. }
    assert (Hf' : (0 < f)%nat).
    { destruct f; [|lia]. cbn in Hqlt. lia. }
    destruct (IH (n / 10) Hq Hqlt Hf') as (N & D & F).
    repeat split.
    + intros H. apply app_eq_nil in H. destruct H as [_ H]. discriminate H.
    + rewrite forallb_app, D. cbn [forallb]. pose proof (Z.mod_pos_bound n 10 ltac:(lia)).
      rewrite is_digit_ok by lia. reflexivity.
    + rewrite fold_left_app, F. cbn [fold_left]. unfold dstep.
      pose proof (Z.div_mod n 10 ltac:(lia)). lia.
Qed.

Lemma dec_u_fuel n : 0 <= n -> n < 10 ^ Z.of_nat (S (Z.to_nat (Z.log2 n))).
Proof.
  intros Hn. destruct (Z.eq_dec n 0) as [->|Hz]; [cbn; lia|].
  pose proof (Z.log2_spec n ltac:(lia)) as [_ Hs]. pose proof (Z.log2_nonneg n) as Hl.
  rewrite Nat2Z.inj_succ, Z2Nat.id by lia.
  eapply Z.lt_le_trans; [exact Hs|]. apply Z.pow_le_mono_l. lia.
Qed.

Lemma dec_u_ok n : 0 <= n -> dec_u n <> [] /\ forallb is_digit (dec_u n) = true /\ fold_left dstep (dec_u n) 0 = n.
Proof. intros Hn. unfold dec_u. apply digits_ok; [exact Hn|now apply dec_u_fuel|lia]. Qed.

Lemma undec_u_dec_u n : 0 <= n -> undec_u (dec_u n) = Some n.
Proof.
  intros Hn. destruct (dec_u_ok n Hn) as (N & D & F). unfold undec_u.
  destruct (dec_u n) as [|c r] eqn:E; [congruence|]. rewrite D. f_equal. exact F.
Qed.

Lemma dec_u_head n : 0 <= n -> exists c r, dec_u n = c :: r /\ is_digit c = true.
Proof.
  intros Hn. destruct (dec_u_ok n Hn) as (N & D & _). destruct (dec_u n) as [|c r]; [congruence|].
  exists c, r. split; [reflexivity|]. cbn [forallb] in D. now apply andb_true_iff in D.
Qed.

(* printf("%d") can be read back: in particular it is injective *)
Theorem undec_dec n : undec (dec n) = Some n.
Proof.
  unfold dec. destruct (n <? 0) eqn:E.
  - apply Z.ltb_lt in E. cbn [undec]. rewrite undec_u_dec_u by lia. f_equal. lia.
  - apply Z.ltb_ge in E. destruct (dec_u_head n E) as (c & r & Hc & Hd). unfold undec. rewrite Hc.
    assert (c <> 45). { unfold is_digit in Hd. apply andb_true_iff in Hd. destruct Hd as [H1 _]. apply Z.leb_le in H1. lia. }
    rewrite <- Hc. destruct (dec_u n) as [|c' r'] eqn:E2; [congruence|]. injection Hc as -> ->.
    destruct (Z.eq_dec c 45); [contradiction|]. rewrite <- E2.
    replace (match c with 45 => _ | _ => undec_u (dec_u n) end) with (undec_u (dec_u n)).
    + now apply undec_u_dec_u.
    + destruct c as [|p|p]; try reflexivity. repeat (destruct p as [p|p|]; try reflexivity). contradiction.
Qed.

Corollary dec_inj a b : dec a = dec b -> a = b.
Proof. intros H. pose proof (undec_dec a) as Ha. rewrite H, undec_dec in Ha. congruence. Qed.

Definition numchar (c : Z) : bool := is_digit c || (c =? 45).

Lemma dec_chars n : forallb numchar (dec n) = true.
Proof.
  assert (A : forall l, forallb is_digit l = true -> forallb numchar l = true).
  { induction l as [|c l IH]; [reflexivity|]. cbn [forallb]. intros H. apply andb_true_iff in H as [H1 H2].
    unfold numchar at 1. rewrite H1. cbn. auto. }
  unfold dec. destruct (n <? 0) eqn:E.
  - apply Z.ltb_lt in E. cbn [forallb]. destruct (dec_u_ok (- n) ltac:(lia)) as (_ & D & _). rewrite (A _ D). reflexivity.
  - apply Z.ltb_ge in E. destruct (dec_u_ok n E) as (_ & D & _). auto.
Qed.

Lemma dec_nonempty n : dec n <> [].
Proof.
  unfold dec. destruct (n <? 0) eqn:E; [discriminate|]. apply Z.ltb_ge in E. now destruct (dec_u_ok n E).
Qed.

Lemma numchar_no_nl l : forallb numchar l = true -> no_nl l.
Proof.
  intros H Hin. rewrite forallb_forall in H. specialize (H _ Hin). unfold numchar, is_digit, NL in H.
  cbn in H. discriminate H.
Qed.

Lemma dec_no_nl n : no_nl (dec n).
Proof. apply numchar_no_nl, dec_chars. Qed.

(* the number at the head of a line, when something that is not part of a number follows *)
Lemma span_digits_app ds : forall c r, forallb is_digit ds = true -> is_digit c = false ->
  span_digits (ds ++ c :: r) = (ds, c :: r).
Proof.
  induction ds as [|d ds IH]; intros c r D C; cbn [app span_digits].
  - now rewrite C.
  - cbn [forallb] in D. apply andb_true_iff in D as [D1 D2]. rewrite D1, (IH c r D2 C). reflexivity.
Qed.

Lemma span_num_dec n c r : is_digit c = false -> span_num (dec n ++ c :: r) = (dec n, c :: r).
Proof.
  intros C. unfold dec. destruct (n <? 0) eqn:E.
  - apply Z.ltb_lt in E. destruct (dec_u_ok (- n) ltac:(lia)) as (_ & D & _).
    cbn [app span_num]. now rewrite span_digits_app.
  - apply Z.ltb_ge in E. destruct (dec_u_ok n E) as (_ & D & _). destruct (dec_u_head n E) as (c0 & r0 & Hc & Hd).
    unfold span_num. rewrite Hc. cbn [app].
    assert (c0 <> 45). { unfold is_digit in Hd. apply andb_true_iff in Hd. destruct Hd as [H1 _]. apply Z.leb_le in H1. lia. }
    replace (match c0 with 45 => _ | _ => span_digits (c0 :: r0 ++ c :: r) end) with (span_digits ((c0 :: r0) ++ c :: r)).
    + rewrite <- Hc. now apply span_digits_app.
    + destruct c0 as [|p|p]; try reflexivity. repeat (destruct p as [p|p|]; try reflexivity). contradiction.
Qed.

Lemma drop_exact_repeat n c r : drop_exact n c (repeat c n ++ r) = Some r.
Proof. induction n as [|n IH]; cbn [repeat app drop_exact]; [reflexivity|]. now rewrite Z.eqb_refl. Qed.

Theorem parse_num_label_ok w n lab : parse_num_label w (num_label w n lab) = Some (n, lab).
Proof.
  unfold parse_num_label, num_label, pad_right. rewrite <- app_assoc.
  assert (S : exists r, repeat SP (w - length (dec n)) ++ SP :: lab = SP :: r).
  { destruct (w - length (dec n))%nat; cbn [repeat app]; eauto. }
  destruct S as [r Hr]. rewrite Hr, span_num_dec by reflexivity. rewrite undec_dec, <- Hr, drop_exact_repeat.
  now rewrite Z.eqb_refl.
Qed.

(* ================================================================== lines *)
Lemma lines_nonempty t : lines t <> [].
Proof. destruct t as [|c r]; cbn [lines]; [discriminate|]. destruct (c =? NL); [discriminate|]. destruct (lines r); discriminate. Qed.

Lemma lines_app_nl l : forall r, no_nl l -> lines (l ++ NL :: r) = l :: lines r.
Proof.
  induction l as [|c l IH]; intros r H; cbn [app lines].
  - now rewrite Z.eqb_refl.
  - assert (c <> NL) by (intros ->; apply H; now left).
    destruct (c =? NL) eqn:E; [apply Z.eqb_eq in E; contradiction|].
    rewrite IH; [reflexivity|]. intros Hin. apply H. now right.
Qed.

Theorem lines_unlines ls : Forall no_nl ls -> lines (unlines ls) = ls ++ [[]].
Proof.
  induction 1 as [|l ls Hl _ IH]; [reflexivity|].
  unfold unlines in *. cbn [map concat]. rewrite <- app_assoc. cbn [app]. rewrite lines_app_nl by exact Hl. now rewrite IH.
Qed.

Lemma strip_prefix_app p : forall t, strip_prefix p (p ++ t) = Some t.
Proof. induction p as [|a p IH]; intros t; cbn [app strip_prefix]; [reflexivity|]. now rewrite Z.eqb_refl. Qed.

Lemma str_eq_refl s : str_eq s s = true.
Proof. unfold str_eq, str_eqb. destruct (list_eq_dec Z.eq_dec s s); congruence. Qed.
Lemma str_eq_true a b : str_eq a b = true -> a = b.
Proof. unfold str_eq, str_eqb. destruct (list_eq_dec Z.eq_dec a b); [auto|discriminate]. Qed.

(* ================================================================== ROW file *)
Lemma split_last_app ls : split_last (ls ++ [[]]) = Some (ls, []).
Proof.
  induction ls as [|l ls IH]; [reflexivity|]. cbn [app split_last]. rewrite IH.
  destruct (ls ++ [[]]) eqn:E; [destruct ls; discriminate|reflexivity].
Qed.

Theorem parse_prf_text ls : Forall no_nl ls -> parse_prf (prf_text ls) = Some ls.
Proof.
  intros H. unfold parse_prf, prf_text. rewrite strip_prefix_app, lines_unlines.
  - cbn [app]. rewrite undec_dec, split_last_app, Z.eqb_refl. reflexivity.
  - constructor; [apply dec_no_nl|exact H].
Qed.

Lemma all_set_spec p ls : all_set p = Some ls -> p = map Some ls.
Proof.
  revert ls. induction p as [|[l|] p IH]; cbn [all_set]; intros ls H.
  - now injection H as <-.
  - destruct (all_set p) as [ls'|]; [|discriminate]. injection H as <-. cbn [map]. f_equal. now apply IH.
  - discriminate.
Qed.

Lemma all_set_map ls : all_set (map Some ls) = Some ls.
Proof. induction ls as [|l ls IH]; [reflexivity|]. cbn [map all_set]. now rewrite IH. Qed.

(* prf_close: a row that was never set is an emulator error, not a short file *)
Theorem prf_close_unset p : In None p -> prf_close p = Err E_PRF_UNSET.
Proof.
  intros H. unfold prf_close. destruct (all_set p) as [ls|] eqn:E; [|reflexivity].
  apply all_set_spec in E. subst p. apply in_map_iff in H as [x [Hx _]]. discriminate.
Qed.

(* the file prf_close writes names exactly the rows that were set, as many as the table has *)
Theorem prf_close_ok p text : prf_close p = Ok text ->
  exists ls, p = map Some ls /\ text = prf_text ls /\ length ls = length p /\ (Forall no_nl ls -> parse_prf text = Some ls).
Proof.
  unfold prf_close. destruct (all_set p) as [ls|] eqn:E; [|discriminate]. intros H. injection H as <-.
  exists ls. pose proof (all_set_spec _ _ E) as ->. rewrite map_length. repeat split. apply parse_prf_text.
Qed.

(* prf_add refusals *)
Theorem prf_add_bounds p i l : i < 0 \/ Z.of_nat (length p) <= i -> prf_add p i l = Err E_PRF_BOUNDS.
Proof.
  intros H. unfold prf_add. destruct ((i <? 0) || (Z.of_nat (length p) <=? i)) eqn:E; [reflexivity|].
  apply orb_false_iff in E as [E1 E2]. apply Z.ltb_ge in E1. apply Z.leb_gt in E2. lia.
Qed.
Theorem prf_add_twice p i l l' p' : prf_add p i l = Ok p' -> prf_add p' i l' = Err E_PRF_SET.
Proof.
  unfold prf_add. destruct ((i <? 0) || (Z.of_nat (length p) <=? i)) eqn:E; [discriminate|].
  destruct (nth (Z.to_nat i) p None) eqn:En; [discriminate|]. destruct (MAXR <=? slen l); [discriminate|].
  intros H. injection H as <-.
  assert (L : forall (q : prf) k x, (k < length q)%nat -> length (update q k x) = length q /\ nth k (update q k x) None = x).
  { induction q as [|a q IHq]; intros k x Hk; [cbn in Hk; lia|]. destruct k; cbn [update length nth]; [auto|].
    destruct (IHq k x ltac:(cbn in Hk; lia)) as [A B]. rewrite A. auto. }
  apply orb_false_iff in E as [E1 E2]. apply Z.ltb_ge in E1. apply Z.leb_gt in E2.
  destruct (L p (Z.to_nat i) (Some l) ltac:(lia)) as [A B]. rewrite A.
  replace ((i <? 0) || (Z.of_nat (length p) <=? i)) with false by (symmetry; apply orb_false_iff; split; [apply Z.ltb_ge|apply Z.leb_gt]; lia).
  now rewrite B.
Qed.
Theorem prf_add_long p i l : MAXR <= slen l -> forall p', prf_add p i l <> Ok p'.
Proof.
  intros H p'. unfold prf_add. destruct ((i <? 0) || (Z.of_nat (length p) <=? i)); [discriminate|].
  destruct (nth (Z.to_nat i) p None); [discriminate|]. apply Z.leb_le in H. rewrite H. discriminate.
Qed.

(* ================================================================== PCF file *)
Definition line_wf (t : pcf_type) : Prop := no_nl (pt_label t) /\ forall x, In x (pt_values t) -> no_nl (snd x).

Lemma no_nl_app a b : no_nl a -> no_nl b -> no_nl (a ++ b).
Proof. intros A B H. apply in_app_or in H as [H|H]; auto. Qed.
Lemma no_nl_repeat_sp n : no_nl (repeat SP n).
Proof. intros H. apply repeat_spec in H. discriminate H. Qed.
Lemma no_nl_cons c l : c <> NL -> no_nl l -> no_nl (c :: l).
Proof. intros C L [H|H]; [congruence|auto]. Qed.

Lemma num_label_no_nl w n lab : no_nl lab -> no_nl (num_label w n lab).
Proof.
  intros H. unfold num_label, pad_right. apply no_nl_app; [apply no_nl_app; [apply dec_no_nl|apply no_nl_repeat_sp]|].
  apply no_nl_cons; [discriminate|exact H].
Qed.

Lemma type_lines_no_nl t : line_wf t -> Forall no_nl (type_lines t).
Proof.
  intros [Hl Hv]. unfold type_lines. repeat constructor; try (intros []; fail).
  - intros H. vm_compute in H. intuition discriminate.
  - unfold type_line. apply no_nl_cons; [discriminate|]. apply no_nl_cons; [discriminate|]. now apply num_label_no_nl.
  - intros H. vm_compute in H. intuition discriminate.
  - apply Forall_forall. intros l Hin. apply in_map_iff in Hin as [x [<- Hx]]. apply num_label_no_nl. now apply Hv.
Qed.

Lemma num_label_nonempty w n lab : num_label w n lab <> [].
Proof.
  unfold num_label, pad_right. pose proof (dec_nonempty n). destruct (dec n); [congruence|discriminate].
Qed.

Lemma pstep_value acc id lab vs v l :
  pstep (PInValues acc id lab vs) (num_label 4 v l) = PInValues acc id lab ((v, l) :: vs).
Proof.
  pose proof (num_label_nonempty 4 v l) as N. pose proof (parse_num_label_ok 4 v l) as P.
  unfold pstep. destruct (num_label 4 v l) as [|c r]; [congruence|]. now rewrite P.
Qed.

Lemma values_fold acc id lab : forall vals vs,
  fold_left pstep (map value_line vals) (PInValues acc id lab vs) = PInValues acc id lab (rev vals ++ vs).
Proof.
  induction vals as [|[v l] vals IH]; intros vs; [reflexivity|].
  cbn [map fold_left]. change (value_line (v, l)) with (num_label 4 v l). rewrite pstep_value, IH. cbn [rev]. now rewrite <- app_assoc.
Qed.

Lemma pstep_et acc : pstep (PIdle acc) S_EVENT_TYPE = PWantType acc.
Proof. reflexivity. Qed.
Lemma pstep_vals acc id lab : pstep (PWantValues acc id lab) S_VALUES = PInValues acc id lab [].
Proof. reflexivity. Qed.
Lemma pstep_type acc t : pstep (PWantType acc) (type_line t) = PWantValues acc (pt_id t) (pt_label t).
Proof. unfold type_line. cbn [app pstep]. now rewrite parse_num_label_ok. Qed.
Lemma pstep_idle_nil acc : pstep (PIdle acc) [] = PIdle acc.
Proof. reflexivity. Qed.

Lemma block_fold t s acc : pstep s [] = PIdle acc ->
  fold_left pstep (type_lines t) s = PInValues acc (pt_id t) (pt_label t) (rev (pt_values t)).
Proof.
  intros Hs. unfold type_lines. cbn [app fold_left]. rewrite Hs, pstep_idle_nil, pstep_et, pstep_type, pstep_vals.
  now rewrite values_fold, app_nil_r.
Qed.

Lemma blocks_fold p : forall s acc, pstep s [] = PIdle acc ->
  fold_left pstep (flat_map type_lines p ++ [[]]) s = PIdle (rev p ++ acc).
Proof.
  induction p as [|t p IH]; intros s acc Hs.
  - cbn. exact Hs.
  - cbn [flat_map]. rewrite <- app_assoc, fold_left_app, (block_fold t s acc Hs). rewrite (IH _ (t :: acc)).
    + cbn [rev]. now rewrite <- app_assoc.
    + cbn [pstep]. rewrite rev_involutive. now destruct t.
Qed.

(* what pcf_close writes can be read back: the PCF on disk determines the type and value tables *)
Theorem parse_pcf_text p : (forall t, In t p -> line_wf t) -> parse_pcf (pcf_text p) = Some p.
Proof.
  intros H. unfold parse_pcf, pcf_text. rewrite strip_prefix_app, lines_unlines.
  - rewrite (blocks_fold p (PIdle []) []) by reflexivity. now rewrite app_nil_r, rev_involutive.
  - apply Forall_forall. intros l Hl. apply in_flat_map in Hl as [t [Ht Hl]].
    pose proof (type_lines_no_nl t (H t Ht)) as F. rewrite Forall_forall in F. now apply F.
Qed.


(* ================================================================== tools *)
Lemma bindr_ok {A B} (r : result A) (f : A -> result B) b : bindr r f = Ok b -> exists a, r = Ok a /\ f a = Ok b.
Proof. destruct r as [a|e]; cbn [bindr]; [eauto|discriminate]. Qed.

Lemma foldr_inv {A S} (f : A -> S -> result A) (P : A -> Prop) l :
  (forall a s a', In s l -> P a -> f a s = Ok a' -> P a') -> forall a a', P a -> foldr f l a = Ok a' -> P a'.
Proof.
  induction l as [|s l IH]; intros H a a' Pa E; cbn [foldr] in E.
  - now injection E as <-.
  - destruct (f a s) as [a1|] eqn:E1; [|discriminate]. apply (IH (fun a0 s0 a0' Hin => H a0 s0 a0' (or_intror Hin)) a1 a'); [|exact E].
    apply (H a s a1); [now left|exact Pa|exact E1].
Qed.

(* a relation carried along a loop *)
Lemma foldr_rel {A S} (f : A -> S -> result A) (R : A -> A -> Prop) l :
  (forall a, R a a) -> (forall a b c, R a b -> R b c -> R a c) ->
  (forall a s a', In s l -> f a s = Ok a' -> R a a') -> forall a a', foldr f l a = Ok a' -> R a a'.
Proof.
  intros Rr Rt H a a' E. apply (foldr_inv f (fun x => R a x) l) with (a := a); auto.
  intros a0 s a0' Hin Ra E0. eapply Rt; [exact Ra|]. now apply (H a0 s).
Qed.

(* every element's step establishes its fact, later steps keep it *)
Lemma foldr_est {A S} (f : A -> S -> result A) (R : A -> A -> Prop) (Q : S -> A -> Prop) l :
  (forall a s a', In s l -> f a s = Ok a' -> R a a' /\ Q s a') ->
  (forall s a a', Q s a -> R a a' -> Q s a') ->
  forall a a', foldr f l a = Ok a' -> forall s, In s l -> Q s a'.
Proof.
  induction l as [|s0 l IH]; intros H K a a' E s Hin; [contradiction|]. cbn [foldr] in E.
  destruct (f a s0) as [a1|] eqn:E1; [|discriminate].
  destruct Hin as [<-|Hin].
  - destruct (H a s0 a1 (or_introl eq_refl) E1) as [_ Q0].
    apply (foldr_inv f (Q s0) l) with (a := a1); [|exact Q0|exact E].
    intros a0 s1 a0' Hi Qa E0. eapply K; [exact Qa|]. now destruct (H a0 s1 a0' (or_intror Hi) E0).
  - apply (IH (fun a0 s1 a0' Hi => H a0 s1 a0' (or_intror Hi)) K a1 a' E s Hin).
Qed.

Lemma on_th_ok r f r' : on_th r f = Ok r' -> exists v, f (rc_th r) = Ok v /\ r' = {| rc_th := v; rc_cpu := rc_cpu r |}.
Proof. unfold on_th. intros H. apply bindr_ok in H as [v [E H]]. injection H as <-. eauto. Qed.
Lemma on_cpu_ok r f r' : on_cpu r f = Ok r' -> exists v, f (rc_cpu r) = Ok v /\ r' = {| rc_th := rc_th r; rc_cpu := v |}.
Proof. unfold on_cpu. intros H. apply bindr_ok in H as [v [E H]]. injection H as <-. eauto. Qed.

(* ================================================================== the primitive operations *)
Definition declared (p : pcf) (ty : Z) : Prop := In ty (map pt_id p).
Definition has_value (p : pcf) (ty v : Z) : Prop := exists t l, In t p /\ pt_id t = ty /\ In (v, l) (pt_values t).
Definition pcf_ok (p : pcf) : Prop := forall t, In t p -> line_wf t.

(* what later operations never undo *)
Record ext (v v' : pvt) : Prop := {
  e_nrows : pv_nrows (v_prv v') = pv_nrows (v_prv v);
  e_chans : incl (pv_chans (v_prv v)) (pv_chans (v_prv v'));
  e_decl : forall ty, declared (v_pcf v) ty -> declared (v_pcf v') ty;
  e_val : forall ty x, has_value (v_pcf v) ty x -> has_value (v_pcf v') ty x;
  e_len : length (v_prf v') = length (v_prf v);
  e_row : forall g l, nth g (v_prf v) None = Some l -> nth g (v_prf v') None = Some l
}.

Lemma ext_refl v : ext v v.
Proof. constructor; auto. apply incl_refl. Qed.
Lemma ext_trans a b c : ext a b -> ext b c -> ext a c.
Proof.
  intros [A1 A2 A3 A4 A5 A6] [B1 B2 B3 B4 B5 B6]. constructor; auto; try congruence.
  eapply incl_tran; eauto.
Qed.

Lemma find_none_id p id : pcf_find_type p id = None -> ~ declared p id.
Proof.
  unfold pcf_find_type, declared. intros H Hin. apply in_map_iff in Hin as [t [<- Ht]].
  pose proof (find_none _ _ H t Ht) as E. cbn in E. now rewrite Z.eqb_refl in E.
Qed.

Lemma pcf_add_type_ok p id l p' : pcf_add_type p id l = Ok p' ->
  p' = p ++ [{| pt_id := id; pt_label := l; pt_values := [] |}] /\ ~ declared p id /\ slen l < MAXL.
Proof.
  unfold pcf_add_type. destruct (pcf_find_type p id) eqn:F; [discriminate|].
  destruct (MAXL <=? slen l) eqn:E; [discriminate|]. intros H. injection H as <-.
  apply Z.leb_gt in E. repeat split; [now apply find_none_id|exact E].
Qed.

Lemma pcf_add_value_ok p : forall id x l p', pcf_add_value p id x l = Ok p' ->
  map pt_id p' = map pt_id p /\ (forall ty y, has_value p ty y -> has_value p' ty y) /\ has_value p' id x /\
  (no_nl l -> pcf_ok p -> pcf_ok p').
Proof.
  induction p as [|t r IH]; intros id x l p' H; cbn [pcf_add_value] in H; [discriminate|].
  destruct (pt_id t =? id) eqn:E.
  - apply Z.eqb_eq in E. destruct (pcf_find_value t x); [discriminate|]. destruct (MAXL <=? slen l); [discriminate|].
    injection H as <-. split; [reflexivity|split; [|split]].
    + intros ty y (t0 & l0 & [<-|Hin] & Hid & Hv).
      * eexists _, l0. split; [now left|]. split; [exact Hid|]. cbn [pt_values]. apply in_or_app. now left.
      * exists t0, l0. split; [now right|]. auto.
    + eexists _, l. split; [now left|]. split; [exact E|]. cbn [pt_values]. apply in_or_app. right. now left.
    + intros Hl Hok t0 [<-|Hin]; [|apply Hok; now right].
      destruct (Hok t (or_introl eq_refl)) as [A B]. split; [exact A|]. cbn [pt_values]. intros y Hy.
      apply in_app_or in Hy as [Hy|[<-|[]]]; [now apply B|exact Hl].
  - destruct (pcf_add_value r id x l) as [r'|] eqn:Er; [|discriminate]. injection H as <-.
    destruct (IH _ _ _ _ Er) as (A & B & C & D). split; [|split; [|split]].
    + cbn [map]. now rewrite A.
    + intros ty y (t0 & l0 & [<-|Hin] & Hid & Hv).
      * exists t, l0. split; [now left|]. auto.
      * destruct (B ty y) as (t1 & l1 & H1 & H2 & H3); [exists t0, l0; auto|]. exists t1, l1. split; [now right|]. auto.
    + destruct C as (t1 & l1 & H1 & H2 & H3). exists t1, l1. split; [now right|]. auto.
    + intros Hl Hok t0 [<-|Hin]; [apply Hok; now left|]. apply (D Hl); [|exact Hin]. intros t1 H1. apply Hok. now right.
Qed.

(* the refusal cases of pcf.c *)
Theorem pcf_add_type_dup p id l : declared p id -> pcf_add_type p id l = Err E_PCF_DUPTYPE.
Proof.
  intros H. unfold pcf_add_type. destruct (pcf_find_type p id) eqn:F; [reflexivity|]. now apply find_none_id in F.
Qed.
Theorem pcf_add_type_long p id l : MAXL <= slen l -> forall p', pcf_add_type p id l <> Ok p'.
Proof. intros H p' E. apply pcf_add_type_ok in E as (_ & _ & L). lia. Qed.
Theorem pcf_add_value_dup p id x l l' p' : pcf_add_value p id x l = Ok p' -> NoDup (map pt_id p) ->
  pcf_add_value p' id x l' = Err E_PCF_DUPVAL.
Proof.
  revert p'. induction p as [|t r IH]; intros p' H N; cbn [pcf_add_value] in H; [discriminate|].
  destruct (pt_id t =? id) eqn:E.
  - destruct (pcf_find_value t x) eqn:F; [discriminate|]. destruct (MAXL <=? slen l); [discriminate|]. injection H as <-.
    cbn [pcf_add_value pt_id]. rewrite E. unfold pcf_find_value. cbn [pt_values].
    assert (G : forall vals, find (fun y : Z * str => fst y =? x) (vals ++ [(x, l)]) <> None).
    { induction vals as [|a vals IHv]; cbn [app find fst]; [now rewrite Z.eqb_refl|]. destruct (fst a =? x); [discriminate|exact IHv]. }
    specialize (G (pt_values t)). destruct (find _ (pt_values t ++ [(x, l)])); [reflexivity|congruence].
  - destruct (pcf_add_value r id x l) as [r'|] eqn:Er; [|discriminate]. injection H as <-.
    cbn [pcf_add_value]. rewrite E. cbn [map] in N. inversion N; subst. now rewrite (IH r' eq_refl).
Qed.
Theorem pcf_add_value_long p id x l : MAXL <= slen l -> forall p', pcf_add_value p id x l <> Ok p'.
Proof.
  intros H. apply Z.leb_le in H. induction p as [|t r IH]; intros p' E; cbn [pcf_add_value] in E; [discriminate|].
  destruct (pt_id t =? id).
  - destruct (pcf_find_value t x); [discriminate|]. rewrite H in E. discriminate.
  - destruct (pcf_add_value r id x l) as [r'|] eqn:Er; [|discriminate]. now apply (IH r').
Qed.

Lemma declared_app p q ty : declared (p ++ q) ty <-> declared p ty \/ declared q ty.
Proof. unfold declared. rewrite map_app, in_app_iff. tauto. Qed.

Lemma pvt_register_ok v g ty fl v' : pvt_register v g ty fl = Ok v' ->
  v_pcf v' = v_pcf v /\ v_prf v' = v_prf v /\ pv_nrows (v_prv v') = pv_nrows (v_prv v) /\
  pv_time (v_prv v') = pv_time (v_prv v) /\ pv_file (v_prv v') = pv_file (v_prv v) /\
  pv_chans (v_prv v') = pv_chans (v_prv v) ++
    [{| pc_id := ty * pv_nrows (v_prv v) + g; pc_row1 := g + 1; pc_type := ty; pc_flags := fl |}].
Proof.
  unfold pvt_register, prv_register. intros H. apply bindr_ok in H as [x [E H]]. injection H as <-.
  destruct (prv_find _ _); [discriminate|]. destruct (negb (check_flags fl)); [discriminate|]. injection E as <-.
  cbn. auto 10.
Qed.

Lemma pvt_register_ext v g ty fl v' : pvt_register v g ty fl = Ok v' -> ext v v'.
Proof.
  intros H. apply pvt_register_ok in H as (A & B & C & _ & _ & D). constructor; rewrite ?A, ?B, ?C, ?D; auto.
  apply incl_appl, incl_refl.
Qed.

Lemma pvt_add_type_ok v id l v' : pvt_add_type v id l = Ok v' ->
  v_prv v' = v_prv v /\ v_prf v' = v_prf v /\ v_pcf v' = v_pcf v ++ [{| pt_id := id; pt_label := l; pt_values := [] |}] /\
  ~ declared (v_pcf v) id.
Proof.
  unfold pvt_add_type. intros H. apply bindr_ok in H as [x [E H]]. injection H as <-.
  apply pcf_add_type_ok in E as (-> & N & _). cbn. auto.
Qed.

Lemma pvt_add_type_ext v id l v' : pvt_add_type v id l = Ok v' -> ext v v' /\ declared (v_pcf v') id /\ (no_nl l -> pcf_ok (v_pcf v) -> pcf_ok (v_pcf v')).
Proof.
  intros H. apply pvt_add_type_ok in H as (A & B & C & _). split; [|split].
  - constructor; rewrite ?A, ?B, ?C; auto; try apply incl_refl.
    + intros ty D. apply declared_app. now left.
    + intros ty x (t & l0 & H1 & H2 & H3). exists t, l0. split; [apply in_or_app; now left|auto].
  - rewrite C. apply declared_app. right. now left.
  - intros Hl Hok. rewrite C. intros t Ht. apply in_app_or in Ht as [Ht|[<-|[]]]; [now apply Hok|].
    split; [exact Hl|intros x []].
Qed.

Lemma pvt_add_value_ext v id x l v' : pvt_add_value v id x l = Ok v' ->
  ext v v' /\ v_prv v' = v_prv v /\ has_value (v_pcf v') id x /\ (no_nl l -> pcf_ok (v_pcf v) -> pcf_ok (v_pcf v')).
Proof.
  unfold pvt_add_value. intros H. apply bindr_ok in H as [p' [E H]]. injection H as <-.
  apply pcf_add_value_ok in E as (A & B & C & D). cbn [v_prv v_pcf v_prf set_pcf]. split; [|auto].
  constructor; cbn [v_prv v_pcf v_prf set_pcf]; auto; try apply incl_refl.
  intros ty. unfold declared. now rewrite A.
Qed.

Lemma update_nth {A} (q : list A) : forall k x d, (k < length q)%nat ->
  length (update q k x) = length q /\ nth k (update q k x) d = x /\ forall j, j <> k -> nth j (update q k x) d = nth j q d.
Proof.
  induction q as [|a q IHq]; intros k x d Hk; [cbn in Hk; lia|]. destruct k; cbn [update length nth].
  - repeat split. intros [|j] Hj; [congruence|reflexivity].
  - destruct (IHq k x d ltac:(cbn in Hk; lia)) as (A1 & B & C). rewrite A1. repeat split; [exact B|].
    intros [|j] Hj; [reflexivity|]. apply C. congruence.
Qed.

Lemma pvt_add_row_ext v i l v' : pvt_add_row v i l = Ok v' ->
  ext v v' /\ v_prv v' = v_prv v /\ v_pcf v' = v_pcf v /\ nth (Z.to_nat i) (v_prf v') None = Some l.
Proof.
  unfold pvt_add_row, prf_add. intros H. apply bindr_ok in H as [p' [E H]]. injection H as <-.
  destruct ((i <? 0) || (Z.of_nat (length (v_prf v)) <=? i)) eqn:Eb; [discriminate|].
  destruct (nth (Z.to_nat i) (v_prf v) None) eqn:En; [discriminate|]. destruct (MAXR <=? slen l); [discriminate|].
  injection E as <-. apply orb_false_iff in Eb as [E1 E2]. apply Z.ltb_ge in E1. apply Z.leb_gt in E2.
  destruct (update_nth (v_prf v) (Z.to_nat i) (Some l) None ltac:(lia)) as (A & B & C).
  cbn [v_prv v_pcf v_prf set_prf]. split; [|auto].
  constructor; cbn [v_prv v_pcf v_prf set_prf]; auto; try apply incl_refl.
  intros g l0 Hg. destruct (Nat.eq_dec g (Z.to_nat i)) as [->|Hne]; [congruence|]. now rewrite C.
Qed.

(* ================================================================== composite operations *)
(* ext + the PCF stays readable *)
Definition good (v v' : pvt) : Prop := ext v v' /\ (pcf_ok (v_pcf v) -> pcf_ok (v_pcf v')).
Lemma good_refl v : good v v.
Proof. split; [apply ext_refl|auto]. Qed.
Lemma good_trans a b c : good a b -> good b c -> good a c.
Proof. intros [A1 A2] [B1 B2]. split; [eapply ext_trans; eauto|auto]. Qed.

Definition rgood (r r' : recorder) : Prop := good (rc_th r) (rc_th r') /\ good (rc_cpu r) (rc_cpu r').
Lemma rgood_refl r : rgood r r.
Proof. split; apply good_refl. Qed.
Lemma rgood_trans a b c : rgood a b -> rgood b c -> rgood a c.
Proof. intros [A1 A2] [B1 B2]. split; eapply good_trans; eauto. Qed.

Lemma on_th_good r f r' : (forall v', f (rc_th r) = Ok v' -> good (rc_th r) v') -> on_th r f = Ok r' -> rgood r r'.
Proof. intros H E. apply on_th_ok in E as (v & E & ->). split; cbn; [now apply H|apply good_refl]. Qed.
Lemma on_cpu_good r f r' : (forall v', f (rc_cpu r) = Ok v' -> good (rc_cpu r) v') -> on_cpu r f = Ok r' -> rgood r r'.
Proof. intros H E. apply on_cpu_ok in E as (v & E & ->). split; cbn; [apply good_refl|now apply H]. Qed.

Lemma register_good v g ty fl v' : pvt_register v g ty fl = Ok v' -> good v v'.
Proof. intros H. split; [now apply pvt_register_ext in H|]. apply pvt_register_ok in H as (-> & _). auto. Qed.
Lemma add_row_good v i l v' : pvt_add_row v i l = Ok v' -> good v v'.
Proof. intros H. apply pvt_add_row_ext in H as (A & _ & B & _). split; [exact A|]. now rewrite B. Qed.
Lemma add_type_good v id l v' : no_nl l -> pvt_add_type v id l = Ok v' -> good v v'.
Proof. intros Hl H. apply pvt_add_type_ext in H as (A & _ & B). split; auto. Qed.
Lemma add_value_good v id x l v' : no_nl l -> pvt_add_value v id x l = Ok v' -> good v v'.
Proof. intros Hl H. apply pvt_add_value_ext in H as (A & _ & _ & B). split; auto. Qed.

Definition labels_clean (labs : list (Z * str)) : Prop := forall x, In x labs -> no_nl (snd x).

Lemma add_values_good cast id labs v v' : labels_clean labs -> add_values_c cast id v labs = Ok v' ->
  good v v' /\ v_prv v' = v_prv v /\ forall x, In x labs -> has_value (v_pcf v') id (cast (fst x)).
Proof.
  intros C H. unfold add_values_c in H. split; [|split].
  - revert H. apply foldr_rel; [apply good_refl|apply good_trans|]. intros a s a' Hin E. eapply add_value_good; [|exact E]. now apply C.
  - revert H. eapply (foldr_rel _ (fun a b => v_prv b = v_prv a)); [auto|congruence|].
    intros a s a' _ E. now apply pvt_add_value_ext in E as (_ & -> & _).
  - eapply (foldr_est _ good (fun x a => has_value (v_pcf a) id (cast (fst x))) labs); [| |exact H].
    + intros a s a' Hin E. split; [eapply add_value_good; [|exact E]; now apply C|]. now apply pvt_add_value_ext in E as (_ & _ & V & _).
    + intros s a a' Q [G _]. now apply (e_val _ _ G).
Qed.

(* one PCF type with its values: thread.c create_type, model_pvt.c create_type, mark.c create_type *)
Lemma type_with_values cast v id l labs v' : no_nl l -> labels_clean labs ->
  bindr (pvt_add_type v id l) (fun v1 => add_values_c cast id v1 labs) = Ok v' ->
  good v v' /\ v_prv v' = v_prv v /\ declared (v_pcf v') id /\ forall x, In x labs -> has_value (v_pcf v') id (cast (fst x)).
Proof.
  intros Hl C H. apply bindr_ok in H as (v1 & E1 & E2).
  pose proof (add_type_good _ _ _ _ Hl E1) as G1. pose proof (pvt_add_type_ok _ _ _ _ E1) as (P1 & _).
  apply pvt_add_type_ext in E1 as (X1 & D1 & _).
  destruct (add_values_good _ _ _ _ _ C E2) as (G2 & P2 & V2).
  split; [eapply good_trans; eauto|]. split; [congruence|]. split; [|exact V2].
  destruct G2 as [G2 _]. now apply (e_decl _ _ G2).
Qed.

(* ================================================================== facts about the dumped tables (by computation) *)
Lemma no_nlb_ok s : no_nlb s = true -> no_nl s.
Proof.
  unfold no_nlb, no_nl. intros H Hin. apply negb_true_iff in H.
  assert (existsb (Z.eqb NL) s = true) by (apply existsb_exists; exists NL; split; [exact Hin|apply Z.eqb_refl]). congruence.
Qed.
Definition clean_labs (labs : list (Z * str)) : bool := forallb (fun x => no_nlb (snd x)) labs.
Lemma clean_labs_ok labs : clean_labs labs = true -> labels_clean labs.
Proof. unfold clean_labs. intros H x Hx. rewrite forallb_forall in H. now apply no_nlb_ok, H. Qed.

Definition is_int (x : Z) : bool := (0 <=? x) && (x <? 2147483648).
Lemma is_int_ok x : is_int x = true -> int x = x /\ 0 <= x.
Proof.
  unfold is_int. intros H. apply andb_true_iff in H as [A B]. apply Z.leb_le in A. apply Z.ltb_lt in B.
  unfold int, cast_int32, wraps. split; [|lia]. rewrite Z.mod_small by lia. 
  destruct (_ <? _) eqn:E; [reflexivity|]. apply Z.ltb_ge in E. cbn in E. lia.
Qed.

Definition th_sys_okb : bool :=
  forallb (fun e : Z * Z * str * list (Z * str) => let '(ty, _, name, labs) := e in is_int ty && no_nlb name && clean_labs labs) Pv_gen.th_sys.
Definition cpu_sys_okb : bool :=
  forallb (fun e : Z * Z * str => let '(ty, _, name) := e in ((ty =? -1) || is_int ty) && no_nlb name) Pv_gen.cpu_sys.
Definition spec_okb (s : pvspec) : bool := is_int (ps_type s) && no_nlb (spec_label s) && clean_labs (ps_labels s).
Definition specs_okb (all : list pvspec) : bool := forallb spec_okb all.

Lemma th_sys_fine : th_sys_okb = true. Proof. vm_compute. reflexivity. Qed.
Lemma cpu_sys_fine : cpu_sys_okb = true. Proof. vm_compute. reflexivity. Qed.
Lemma specs_fine : specs_okb Pv_gen.pv_chans = true. Proof. vm_compute. reflexivity. Qed.

(* ================================================================== registration phases *)
Definition has_type_vals_c (cast : Z -> Z) (v : pvt) (ty : Z) (labs : list (Z * str)) : Prop :=
  declared (v_pcf v) ty /\ forall x, In x labs -> has_value (v_pcf v) ty (cast (fst x)).
Definition has_type_vals := has_type_vals_c int.
Lemma htv_mono_c cast v v' ty labs : good v v' -> has_type_vals_c cast v ty labs -> has_type_vals_c cast v' ty labs.
Proof. intros [G _] [A B]. split; [now apply (e_decl _ _ G)|]. intros x Hx. apply (e_val _ _ G). now apply B. Qed.
Lemma htv_mono v v' ty labs : good v v' -> has_type_vals v ty labs -> has_type_vals v' ty labs.
Proof. apply htv_mono_c. Qed.

Lemma thread_create_pcf_types_ok v v' : thread_create_pcf_types v = Ok v' ->
  good v v' /\ forall ty fl name labs, In (ty, fl, name, labs) Pv_gen.th_sys -> has_type_vals v' ty labs.
Proof.
  intros H. unfold thread_create_pcf_types in H.
  pose proof th_sys_fine as F. unfold th_sys_okb in F. rewrite forallb_forall in F.
  assert (St : forall a e a', In e Pv_gen.th_sys ->
     (let '(ty, _, name, labs) := e in if ty =? -1 then Ok a else bindr (pvt_add_type a (int ty) name) (fun v1 => add_values (int ty) v1 labs)) = Ok a' ->
     good a a' /\ (let '(ty, _, _, labs) := e in has_type_vals a' ty labs)).
  { intros a [[[ty fl] name] labs] a' Hin E. specialize (F _ Hin). cbn in F.
    apply andb_true_iff in F as [F F3]. apply andb_true_iff in F as [F1 F2]. destruct (is_int_ok _ F1) as [I1 I2].
    destruct (ty =? -1) eqn:E1; [apply Z.eqb_eq in E1; lia|]. rewrite I1 in E.
    destruct (type_with_values int _ _ _ _ _ (no_nlb_ok _ F2) (clean_labs_ok _ F3) E) as (G & _ & D & V). split; [exact G|]. split; auto. }
  split.
  - revert H. eapply foldr_rel; [apply good_refl|apply good_trans|]. intros a s a' Hin E. now destruct (St a s a' Hin E).
  - intros ty fl name labs Hin.
    match type of H with foldr ?f ?l _ = _ =>
      pose proof (foldr_est f good (fun (e : Z * Z * str * list (Z * str)) a => let '(ty, _, _, labs) := e in has_type_vals a ty labs) l St) as K end.
    assert (M : forall (s : Z * Z * str * list (Z * str)) (a a' : pvt),
              (let '(ty0, _, _, labs0) := s in has_type_vals a ty0 labs0) -> good a a' -> let '(ty0, _, _, labs0) := s in has_type_vals a' ty0 labs0).
    { intros [[[ty0 ?] ?] labs0] a a' Q G. now apply (htv_mono a a'). }
    exact (K M v v' H _ Hin).
Qed.

Lemma cpu_create_pcf_types_ok v v' : cpu_create_pcf_types v = Ok v' ->
  good v v' /\ forall ty fl name, In (ty, fl, name) Pv_gen.cpu_sys -> ty <> -1 -> declared (v_pcf v') ty.
Proof.
  intros H. unfold cpu_create_pcf_types in H.
  pose proof cpu_sys_fine as F. unfold cpu_sys_okb in F. rewrite forallb_forall in F.
  assert (St : forall a e a', In e Pv_gen.cpu_sys ->
     (let '(ty, _, name) := e in if ty =? -1 then Ok a else pvt_add_type a (int ty) name) = Ok a' ->
     good a a' /\ (let '(ty, _, _) := e in ty <> -1 -> declared (v_pcf a') ty)).
  { intros a [[ty fl] name] a' Hin E. specialize (F _ Hin). cbn in F. apply andb_true_iff in F as [F1 F2].
    destruct (ty =? -1) eqn:E1.
    - injection E as <-. split; [apply good_refl|]. apply Z.eqb_eq in E1. congruence.
    - cbn [orb] in F1. destruct (is_int_ok _ F1) as [I1 _]. rewrite I1 in E.
      split; [eapply add_type_good; [apply no_nlb_ok, F2|exact E]|]. intros _. now apply pvt_add_type_ext in E as (_ & D & _). }
  split.
  - revert H. eapply foldr_rel; [apply good_refl|apply good_trans|]. intros a s a' Hin E. now destruct (St a s a' Hin E).
  - intros ty fl name Hin.
    match type of H with foldr ?f ?l _ = _ =>
      pose proof (foldr_est f good (fun (e : Z * Z * str) a => let '(ty, _, _) := e in ty <> -1 -> declared (v_pcf a) ty) l St) as K end.
    assert (M : forall (s : Z * Z * str) (a a' : pvt),
              (let '(ty0, _, _) := s in ty0 <> -1 -> declared (v_pcf a) ty0) -> good a a' -> let '(ty0, _, _) := s in ty0 <> -1 -> declared (v_pcf a') ty0).
    { intros [[ty0 ?] ?] a a' Q [G _] N. apply (e_decl _ _ G). now apply Q. }
    exact (K M v v' H _ Hin).
Qed.

(* register a list of (type, flags) on every row *)
Lemma register_rows_good {S} (ty fl : S -> Z) (specs : list S) rows v v' :
  foldr (fun v1 g => foldr (fun v2 s => pvt_register v2 g (ty s) (fl s)) specs v1) rows v = Ok v' -> good v v'.
Proof.
  apply foldr_rel; [apply good_refl|apply good_trans|]. intros a g a' _.
  apply foldr_rel; [apply good_refl|apply good_trans|]. intros b s b' _. apply register_good.
Qed.

Lemma connect_side_ok n specs v v' : forallb spec_okb specs = true -> connect_side n specs v = Ok v' ->
  good v v' /\ forall s, In s specs -> has_type_vals v' (ps_type s) (ps_labels s).
Proof.
  intros F H. unfold connect_side in H. apply bindr_ok in H as (v1 & E1 & E2).
  apply register_rows_good in E1. rewrite forallb_forall in F.
  assert (St : forall a s a', In s specs -> create_type a s = Ok a' -> good a a' /\ has_type_vals a' (ps_type s) (ps_labels s)).
  { intros a s a' Hin E. specialize (F _ Hin). unfold spec_okb in F.
    apply andb_true_iff in F as [F F3]. apply andb_true_iff in F as [F1 F2]. destruct (is_int_ok _ F1) as [I1 I2].
    unfold create_type in E. destruct (ps_type s =? -1) eqn:E0; [apply Z.eqb_eq in E0; lia|].
    destruct (MAXL <=? slen (spec_label s)); [discriminate|]. rewrite I1 in E.
    destruct (type_with_values int _ _ _ _ _ (no_nlb_ok _ F2) (clean_labs_ok _ F3) E) as (G & _ & D & V). split; [exact G|]. split; auto. }
  split.
  - eapply good_trans; [exact E1|]. revert E2. eapply foldr_rel; [apply good_refl|apply good_trans|].
    intros a s a' Hin E. now destruct (St a s a' Hin E).
  - intros s Hin. eapply (foldr_est _ good (fun s a => has_type_vals a (ps_type s) (ps_labels s)) specs St); [|exact E2|exact Hin].
    intros s0 a a' Q G. now apply (htv_mono a a').
Qed.

Definition mark_ok (m : mtype) : Prop := 0 <= mt_type m < 100 /\ no_nl (mt_title m) /\ labels_clean (mt_labels m).

Lemma int_small x : 0 <= x < 2147483648 -> int x = x.
Proof. intros H. apply is_int_ok. unfold is_int. apply andb_true_iff. split; [apply Z.leb_le|apply Z.ltb_lt]; lia. Qed.

Lemma mark_side_ok n ms v v' : (forall m, In m ms -> mark_ok m) -> mark_side n ms v = Ok v' ->
  good v v' /\ forall m, In m ms -> has_type_vals_c cast_int64 v' (100 + mt_type m) (mt_labels m).
Proof.
  intros F H. unfold mark_side in H. apply bindr_ok in H as (v1 & E1 & E2).
  apply (register_rows_good (fun m => 100 + mt_type m) (fun _ => PRV_SKIPDUPNULL)) in E1.
  assert (St : forall a m a', In m ms ->
     bindr (pvt_add_type a (int (100 + mt_type m)) (mt_title m)) (fun v2 => add_values_c cast_int64 (int (100 + mt_type m)) v2 (mt_labels m)) = Ok a' ->
     good a a' /\ has_type_vals_c cast_int64 a' (100 + mt_type m) (mt_labels m)).
  { intros a m a' Hin E. destruct (F _ Hin) as (R & T & L). rewrite int_small in E by lia.
    destruct (type_with_values cast_int64 _ _ _ _ _ T L E) as (G & _ & D & V). split; [exact G|]. split; auto. }
  split.
  - eapply good_trans; [exact E1|]. revert E2. eapply foldr_rel; [apply good_refl|apply good_trans|].
    intros a s a' Hin E. now destruct (St a s a' Hin E).
  - intros m Hin. eapply (foldr_est _ good (fun m a => has_type_vals_c cast_int64 a (100 + mt_type m) (mt_labels m)) ms St); [|exact E2|exact Hin].
    intros s0 a a' Q G. now apply (htv_mono_c cast_int64 a a').
Qed.

(* ================================================================== system_connect *)
Lemma number_in {A} (l : list A) g x d : In (g, x) (number l) -> 0 <= g /\ (Z.to_nat g < length l)%nat /\ nth (Z.to_nat g) l d = x.
Proof.
  unfold number. intros H. apply (In_nth _ _ (0, d)) in H as (k & Hk & E).
  rewrite combine_length, map_length, seq_length, Nat.min_id in Hk.
  rewrite combine_nth in E by now rewrite map_length, seq_length.
  injection E as E1 E2. rewrite (nth_indep _ 0 (Z.of_nat 0)), map_nth, seq_nth in E1 by (rewrite ?map_length, ?seq_length; lia).
  subst g. rewrite Nat2Z.id. cbn [plus]. split; [lia|]. split; [exact Hk|exact E2].
Qed.

Lemma number_nth {A} (l : list A) g d : (g < length l)%nat -> In (Z.of_nat g, nth g l d) (number l).
Proof.
  intros Hg. unfold number.
  assert (E : nth g (combine (map Z.of_nat (seq 0 (length l))) l) (Z.of_nat 0, d) = (Z.of_nat g, nth g l d)).
  { rewrite combine_nth by now rewrite map_length, seq_length. now rewrite map_nth, seq_nth. }
  rewrite <- E. apply nth_In. now rewrite combine_length, map_length, seq_length, Nat.min_id.
Qed.

Lemma th_label_no_nl ti : no_nl (th_label ti).
Proof.
  unfold th_label. repeat apply no_nl_app; try apply dec_no_nl.
  - intros H. vm_compute in H. intuition discriminate.
  - intros [H|[]]. discriminate H.
Qed.
Lemma cpu_name_no_nl ci phy : no_nl (cpu_name ci phy).
Proof.
  unfold cpu_name. destruct (ci_virtual ci); repeat apply no_nl_app; try apply dec_no_nl.
  - intros H. vm_compute in H. intuition discriminate.
  - intros [H|[H|[]]]; discriminate H.
  - intros H. vm_compute in H. intuition discriminate.
  - intros [H|[]]. discriminate H.
Qed.

Lemma connect_thread_ok r g ti r' : connect_thread r (g, ti) = Ok r' ->
  rgood r r' /\ nth (Z.to_nat g) (v_prf (rc_th r')) None = Some (th_label ti).
Proof.
  unfold connect_thread. intros H. apply bindr_ok in H as (r1 & E1 & E2).
  assert (G1 : rgood r r1).
  { revert E1. apply foldr_rel; [apply rgood_refl|apply rgood_trans|]. intros a [[[ty fl] ?] ?] a' _ E.
    eapply on_th_good; [|exact E]. intros v'. apply register_good. }
  apply on_th_ok in E2 as (v & E2 & ->). pose proof (add_row_good _ _ _ _ E2) as G2.
  apply pvt_add_row_ext in E2 as (_ & _ & _ & N). split; [|exact N].
  eapply rgood_trans; [exact G1|]. split; cbn; [exact G2|apply good_refl].
Qed.

Lemma connect_cpu_ok r g ci phy r' : connect_cpu r (g, (ci, phy)) = Ok r' ->
  rgood r r' /\ nth (Z.to_nat g) (v_prf (rc_cpu r')) None = Some (cpu_name ci phy) /\
  has_value (v_pcf (rc_th r')) (int affinity_type) (int g + 1).
Proof.
  unfold connect_cpu. intros H. apply bindr_ok in H as (r1 & E1 & H). apply bindr_ok in H as (r2 & E2 & E3).
  assert (G1 : rgood r r1).
  { revert E1. apply foldr_rel; [apply rgood_refl|apply rgood_trans|]. intros a [[ty fl] ?] a' _ E.
    destruct (ty <? 0); [injection E as <-; apply rgood_refl|]. eapply on_cpu_good; [|exact E]. intros v'. apply register_good. }
  apply on_cpu_ok in E2 as (v2 & E2 & ->). pose proof (add_row_good _ _ _ _ E2) as G2.
  apply pvt_add_row_ext in E2 as (_ & _ & _ & N).
  apply on_th_ok in E3 as (v3 & E3 & ->). cbn [rc_th rc_cpu] in *.
  pose proof (add_value_good _ _ _ _ _ (cpu_name_no_nl ci phy) E3) as G3.
  apply pvt_add_value_ext in E3 as (_ & _ & V & _).
  split; [|split; [exact N|exact V]].
  eapply rgood_trans; [exact G1|]. split; cbn; [exact G3|exact G2].
Qed.

Definition sys_facts (sx : static) (phy : list Z) (r : recorder) : Prop :=
  (forall g ti, In (g, ti) (number (s_threads sx)) -> nth (Z.to_nat g) (v_prf (rc_th r)) None = Some (th_label ti)) /\
  (forall g ci p, In (g, (ci, p)) (number (combine (s_cpus sx) phy)) ->
     nth (Z.to_nat g) (v_prf (rc_cpu r)) None = Some (cpu_name ci p) /\ has_value (v_pcf (rc_th r)) (int affinity_type) (int g + 1)) /\
  (forall ty fl name labs, In (ty, fl, name, labs) Pv_gen.th_sys -> has_type_vals (rc_th r) ty labs) /\
  (forall ty fl name, In (ty, fl, name) Pv_gen.cpu_sys -> ty <> -1 -> declared (v_pcf (rc_cpu r)) ty).

Lemma sys_facts_mono sx phy r r' : rgood r r' -> sys_facts sx phy r -> sys_facts sx phy r'.
Proof.
  intros [[G1 K1] [G2 K2]] (A & B & C & D). repeat split.
  - intros g ti H. apply (e_row _ _ G1). now apply A.
  - apply (e_row _ _ G2). now apply (B g ci p).
  - apply (e_val _ _ G1). now apply (B g ci p).
  - destruct (C _ _ _ _ H) as [X _]. now apply (e_decl _ _ G1).
  - intros x Hx. destruct (C _ _ _ _ H) as [_ X]. apply (e_val _ _ G1). now apply X.
  - intros ty fl name H N. apply (e_decl _ _ G2). now apply (D ty fl name).
Qed.

Definition r_init (sx : static) : recorder :=
  {| rc_th := pvt_open (length (s_threads sx)); rc_cpu := pvt_open (length (s_cpus sx)) |}.

Lemma system_connect_ok sx phy r : system_connect sx phy = Ok r -> rgood (r_init sx) r /\ sys_facts sx phy r.
Proof.
  unfold system_connect. fold (r_init sx). intros H.
  apply bindr_ok in H as (r1 & E1 & H). apply bindr_ok in H as (r2 & E2 & H). apply bindr_ok in H as (r3 & E3 & E4).
  assert (G1 : rgood (r_init sx) r1).
  { revert E1. apply foldr_rel; [apply rgood_refl|apply rgood_trans|]. intros a [g ti] a' _ E. now apply connect_thread_ok in E. }
  assert (F1 : forall g ti, In (g, ti) (number (s_threads sx)) -> nth (Z.to_nat g) (v_prf (rc_th r1)) None = Some (th_label ti)).
  { intros g ti Hin.
    apply (foldr_est connect_thread rgood (fun (x : Z * thread_info) a => nth (Z.to_nat (fst x)) (v_prf (rc_th a)) None = Some (th_label (snd x)))
             (number (s_threads sx))) with (a := r_init sx) (s := (g, ti)); [| |exact E1|exact Hin].
    - intros a [g0 t0] a' _ E. now apply connect_thread_ok in E.
    - intros [g0 t0] a a' Q [[G _] _]. now apply (e_row _ _ G). }
  apply on_th_ok in E2 as (v2 & E2 & ->). destruct (thread_create_pcf_types_ok _ _ E2) as (G2 & T2).
  apply on_cpu_ok in E3 as (v3 & E3 & ->). cbn [rc_th rc_cpu] in *. destruct (cpu_create_pcf_types_ok _ _ E3) as (G3 & T3).
  set (r3 := {| rc_th := v2; rc_cpu := v3 |}) in *.
  assert (G13 : rgood r1 r3) by (split; cbn; assumption).
  assert (G4 : rgood r3 r).
  { revert E4. apply foldr_rel; [apply rgood_refl|apply rgood_trans|]. intros a [g [ci p]] a' _ E. now apply connect_cpu_ok in E. }
  split; [eapply rgood_trans; [exact G1|eapply rgood_trans; eauto]|].
  destruct G4 as [G4t G4c]. destruct G4t as [X4t _]. destruct G4c as [X4c _].
  repeat split.
  - intros g ti Hin. apply (e_row _ _ X4t). cbn. destruct G2 as [X2 _]. apply (e_row _ _ X2). now apply F1.
  - apply (foldr_est connect_cpu rgood (fun (x : Z * (cpu_info * Z)) a => nth (Z.to_nat (fst x)) (v_prf (rc_cpu a)) None = Some (cpu_name (fst (snd x)) (snd (snd x))))
             (number (combine (s_cpus sx) phy))) with (a := r3) (s := (g, (ci, p))); [| |exact E4|exact H].
    + intros a [g0 [c0 p0]] a' _ E. apply connect_cpu_ok in E. tauto.
    + intros [g0 [c0 p0]] a a' Q [_ [G _]]. now apply (e_row _ _ G).
  - apply (foldr_est connect_cpu rgood (fun (x : Z * (cpu_info * Z)) a => has_value (v_pcf (rc_th a)) (int affinity_type) (int (fst x) + 1))
             (number (combine (s_cpus sx) phy))) with (a := r3) (s := (g, (ci, p))); [| |exact E4|exact H].
    + intros a [g0 [c0 p0]] a' _ E. apply connect_cpu_ok in E. tauto.
    + intros [g0 [c0 p0]] a a' Q [[G _] _]. now apply (e_val _ _ G).
  - destruct (T2 _ _ _ _ H) as [X _]. now apply (e_decl _ _ X4t).
  - intros x Hx. destruct (T2 _ _ _ _ H) as [_ X]. apply (e_val _ _ X4t). now apply X.
  - intros ty fl name H N. apply (e_decl _ _ X4c). now apply (T3 ty fl name).
Qed.

(* ================================================================== model_connect, connect *)
Definition marks_ok (ms : list mtype) : Prop := forall m, In m ms -> mark_ok m.

Definition model_facts (all : list pvspec) (ms : list mtype) (m : Z) (r : recorder) : Prop :=
  (forall s, In s (side_specs all m false) -> has_type_vals (rc_th r) (ps_type s) (ps_labels s)) /\
  (forall s, In s (side_specs all m true) -> has_type_vals (rc_cpu r) (ps_type s) (ps_labels s)) /\
  (m = M_OVNI -> forall k, In k ms ->
     has_type_vals_c cast_int64 (rc_th r) (100 + mt_type k) (mt_labels k) /\ has_type_vals_c cast_int64 (rc_cpu r) (100 + mt_type k) (mt_labels k)).

Lemma model_facts_mono all ms m r r' : rgood r r' -> model_facts all ms m r -> model_facts all ms m r'.
Proof.
  intros [G1 G2] (A & B & C). split; [|split].
  - intros s Hs. now apply (htv_mono _ _ _ _ G1), A.
  - intros s Hs. now apply (htv_mono _ _ _ _ G2), B.
  - intros E k Hk. destruct (C E k Hk). split; [now apply (htv_mono_c _ _ _ _ _ G1)|now apply (htv_mono_c _ _ _ _ _ G2)].
Qed.

Lemma side_specs_ok all m c : specs_okb all = true -> forallb spec_okb (side_specs all m c) = true.
Proof.
  unfold specs_okb, side_specs. intros H. rewrite forallb_forall in *. intros s Hs. apply filter_In in Hs as [Hs _]. now apply H.
Qed.

Lemma model_connect_ok all sx ms r m r' : specs_okb all = true -> marks_ok ms ->
  model_connect all sx ms r m = Ok r' -> rgood r r' /\ model_facts all ms m r'.
Proof.
  intros F M H. unfold model_connect in H. apply bindr_ok in H as (r1 & E1 & H). apply bindr_ok in H as (r2 & E2 & E3).
  apply on_th_ok in E1 as (v1 & E1 & ->). destruct (connect_side_ok _ _ _ _ (side_specs_ok all m false F) E1) as (G1 & T1).
  apply on_cpu_ok in E2 as (v2 & E2 & ->). cbn [rc_th rc_cpu] in *.
  destruct (connect_side_ok _ _ _ _ (side_specs_ok all m true F) E2) as (G2 & T2).
  set (r2 := {| rc_th := v1; rc_cpu := v2 |}) in *.
  assert (G12 : rgood r r2) by (split; cbn; assumption).
  destruct ((m =? M_OVNI) && negb (Nat.eqb (length ms) 0)) eqn:Eb.
  - apply bindr_ok in E3 as (r3 & E3 & E4). apply on_th_ok in E3 as (v3 & E3 & ->). apply on_cpu_ok in E4 as (v4 & E4 & ->).
    cbn [rc_th rc_cpu] in *. destruct (mark_side_ok _ _ _ _ M E3) as (G3 & T3). destruct (mark_side_ok _ _ _ _ M E4) as (G4 & T4).
    split; [eapply rgood_trans; [exact G12|split; cbn; assumption]|]. split; [|split]; cbn [rc_th rc_cpu].
    + intros s Hs. apply (htv_mono _ _ _ _ G3). now apply T1.
    + intros s Hs. apply (htv_mono _ _ _ _ G4). now apply T2.
    + intros _ k Hk. split; [now apply T3|now apply T4].
  - injection E3 as <-. split; [exact G12|]. split; [exact T1|split; [exact T2|]].
    intros -> k Hk. rewrite Z.eqb_refl in Eb. cbn [andb] in Eb. apply negb_false_iff, Nat.eqb_eq in Eb.
    destruct ms; [contradiction|discriminate].
Qed.

Lemma connect_ok all sx phy en ms r : specs_okb all = true -> marks_ok ms -> connect_gen all sx phy en ms = Ok r ->
  rgood (r_init sx) r /\ sys_facts sx phy r /\ forall m, In m (enabled_order en) -> model_facts all ms m r.
Proof.
  intros F M H. unfold connect_gen in H. apply bindr_ok in H as (r0 & E0 & E1).
  destruct (system_connect_ok _ _ _ E0) as (G0 & S0).
  assert (G1 : rgood r0 r).
  { revert E1. apply foldr_rel; [apply rgood_refl|apply rgood_trans|]. intros a m a' _ E. now apply (model_connect_ok all sx ms) in E. }
  split; [eapply rgood_trans; eauto|]. split; [now apply (sys_facts_mono _ _ r0)|].
  intros m Hm. apply (foldr_est (model_connect all sx ms) rgood (fun m a => model_facts all ms m a) (enabled_order en)) with (a := r0); [| |exact E1|exact Hm].
  - intros a s a' _ E. now apply model_connect_ok in E.
  - intros s a a' Q G. now apply (model_facts_mono all ms s a a').
Qed.

(* ================================================================== the run only touches the PRV *)
Lemma prv_only_good v x : pv_nrows x = pv_nrows (v_prv v) -> pv_chans x = pv_chans (v_prv v) -> good v (set_prv v x).
Proof.
  intros A B. split; [|auto]. constructor; cbn [set_prv v_prv v_pcf v_prf]; auto. rewrite B. apply incl_refl.
Qed.

Lemma rec_advance_good r t r' : rec_advance r t = Ok r' -> rgood r r'.
Proof.
  unfold rec_advance. intros H. apply bindr_ok in H as (r1 & E1 & E2).
  assert (A : forall v v', bindr (prv_advance (v_prv v) t) (fun x => Ok (set_prv v x)) = Ok v' -> good v v').
  { intros v v' E. apply bindr_ok in E as (x & Ex & E). injection E as <-. unfold prv_advance in Ex.
    destruct (t <? pv_time (v_prv v)); [discriminate|]. injection Ex as <-. now apply prv_only_good. }
  eapply rgood_trans; [eapply on_th_good; [|exact E1]|eapply on_cpu_good; [|exact E2]]; intros v'; apply A.
Qed.

Lemma rec_write_good r l r' : rec_write r l = Ok r' -> rgood r r'.
Proof.
  unfold rec_write, on_side.
  assert (A : forall v v', bindr (prv_write (v_prv v) (Z.of_nat (l_row l)) (l_type l) (l_val l)) (fun x => Ok (set_prv v x)) = Ok v' -> good v v').
  { intros v v' E. apply bindr_ok in E as (x & Ex & E). injection E as <-. unfold prv_write in Ex.
    destruct (prv_find _ _); [|discriminate]. injection Ex as <-. now apply prv_only_good. }
  destruct (l_cpu l); intros H; [eapply on_cpu_good|eapply on_th_good]; try exact H; intros v'; apply A.
Qed.

Lemma pv_run_good sx evs : forall st r t0 st' r', pv_run_from sx st r t0 evs = Ok (st', r') -> rgood r r'.
Proof.
  induction evs as [|[[tm who] ev] evs IH]; intros st r t0 st' r' H; cbn [pv_run_from] in H.
  - injection H as _ <-. apply rgood_refl.
  - destruct (rec_advance r (tm - t0)) as [r1|] eqn:E1; [|discriminate].
    destruct (step sx st who ev) as [[st1 ls]|]; [|discriminate].
    destruct (foldr rec_write ls r1) as [r2|] eqn:E2; [|discriminate].
    eapply rgood_trans; [eapply rec_advance_good; exact E1|]. eapply rgood_trans; [|eapply IH; exact H].
    revert E2. apply foldr_rel; [apply rgood_refl|apply rgood_trans|]. intros a s a' _. apply rec_write_good.
Qed.

(* ================================================================== finish: task types *)
Definition tl_clean (tl : list (tkey * str)) : Prop := forall x, In x tl -> no_nl (snd x).
Lemma tlabel_clean tl k : tl_clean tl -> no_nl (tlabel tl k).
Proof.
  induction tl as [|[k' s] tl IH]; intros C; cbn [tlabel]; [intros []|].
  destruct (tkey_eqb k k'); [apply (C (k', s)); now left|]. apply IH. intros x Hx. apply C. now right.
Qed.

Lemma task_values_clean sx tys tl m : tl_clean tl -> labels_clean (task_values sx tys tl m).
Proof.
  intros C x Hx. unfold task_values in Hx. apply in_flat_map in Hx as (p & _ & Hx). apply in_flat_map in Hx as (ty & _ & Hx).
  destruct (_ && _); [|contradiction]. destruct Hx as [<-|[]]. cbn [snd]. now apply tlabel_clean.
Qed.

Lemma add_task_value_ok id v x v' : no_nl (snd x) -> add_task_value id v x = Ok v' ->
  good v v' /\ has_value (v_pcf v') id (int (fst x)).
Proof.
  intros Hl H. unfold add_task_value in H. destruct (pcf_find_type (v_pcf v) id) as [t|] eqn:Ft; [|discriminate].
  destruct (pcf_find_value t (int (fst x))) as [l|] eqn:Fv.
  - destruct (str_eq l (snd x)); [|discriminate]. injection H as <-. split; [apply good_refl|].
    unfold pcf_find_type in Ft. apply find_some in Ft as [Ht Hid]. apply Z.eqb_eq in Hid.
    unfold pcf_find_value in Fv. destruct (find _ (pt_values t)) as [y|] eqn:Fy; [|discriminate]. injection Fv as <-.
    apply find_some in Fy as [Hy Hv]. apply Z.eqb_eq in Hv. exists t, (snd y). repeat split; auto. rewrite <- Hv. now destruct y.
  - split; [now apply add_value_good in H|]. now apply pvt_add_value_ext in H as (_ & _ & V & _).
Qed.

Lemma finish_pvt_ok all sx tys tl m v v' : tl_clean tl -> finish_pvt all sx tys tl m v = Ok v' ->
  good v v' /\ forall ch, task_model_chan m = Some ch -> forall x, In x (task_values sx tys tl m) ->
     has_value (v_pcf v') (int (type_of_chan all m ch)) (int (fst x)).
Proof.
  intros C H. unfold finish_pvt in H. destruct (task_model_chan m) as [ch|]; [|injection H as <-; split; [apply good_refl|discriminate]].
  destruct (pcf_find_type _ _); [|discriminate].
  pose proof (task_values_clean sx tys tl m C) as L.
  split.
  - revert H. apply foldr_rel; [apply good_refl|apply good_trans|]. intros a s a' Hin E. apply add_task_value_ok in E; [tauto|now apply L].
  - intros ch' E x Hx. injection E as <-.
    apply (foldr_est (add_task_value (int (type_of_chan all m ch))) good (fun x a => has_value (v_pcf a) (int (type_of_chan all m ch)) (int (fst x)))
             (task_values sx tys tl m)) with (a := v); [| |exact H|exact Hx].
    + intros a s a' Hin E. apply add_task_value_ok in E; [exact E|now apply L].
    + intros s a a' Q [G _]. now apply (e_val _ _ G).
Qed.

Definition task_facts (all : list pvspec) (sx : static) (tys : list ttype) (tl : list (tkey * str)) (m : Z) (r : recorder) : Prop :=
  forall ch, task_model_chan m = Some ch -> forall x, In x (task_values sx tys tl m) ->
    has_value (v_pcf (rc_th r)) (int (type_of_chan all m ch)) (int (fst x)) /\
    has_value (v_pcf (rc_cpu r)) (int (type_of_chan all m ch)) (int (fst x)).

Lemma finish_ok all sx en tys tl r r' : tl_clean tl -> finish_gen all sx en tys tl r = Ok r' ->
  rgood r r' /\ forall m, In m (enabled_order en) -> task_facts all sx tys tl m r'.
Proof.
  intros C H. unfold finish_gen in H.
  assert (St : forall a m a', bindr (on_th a (finish_pvt all sx tys tl m)) (fun r1 => on_cpu r1 (finish_pvt all sx tys tl m)) = Ok a' ->
                              rgood a a' /\ task_facts all sx tys tl m a').
  { intros a m a' E. apply bindr_ok in E as (r1 & E1 & E2). apply on_th_ok in E1 as (v1 & E1 & ->). apply on_cpu_ok in E2 as (v2 & E2 & ->).
    cbn [rc_th rc_cpu] in *. destruct (finish_pvt_ok _ _ _ _ _ _ _ C E1) as (G1 & T1). destruct (finish_pvt_ok _ _ _ _ _ _ _ C E2) as (G2 & T2).
    split; [split; cbn; assumption|]. intros ch Hc x Hx. cbn [rc_th rc_cpu]. split; [now apply (T1 ch)|now apply (T2 ch)]. }
  split.
  - revert H. apply foldr_rel; [apply rgood_refl|apply rgood_trans|]. intros a m a' _ E. now apply St in E.
  - intros m Hm. eapply (foldr_est _ rgood (fun m a => task_facts all sx tys tl m a) (enabled_order en)); [| |exact H|exact Hm].
    + intros a s a' _ E. now apply St in E.
    + intros s a a' Q [[G1 _] [G2 _]] ch Hc x Hx. destruct (Q ch Hc x Hx). split; [now apply (e_val _ _ G1)|now apply (e_val _ _ G2)].
Qed.

(* ================================================================== the files of a whole emulation *)
Lemma rows_eq {A} (p : prf) (items : list A) (lab : A -> str) (d : A) ls :
  p = map Some ls -> length p = length items ->
  (forall g, (g < length items)%nat -> nth g p None = Some (lab (nth g items d))) -> ls = map lab items.
Proof.
  intros -> L H. rewrite map_length in L. apply (nth_ext _ _ [] (lab d)); [now rewrite map_length|].
  intros g Hg. assert (Hg' : (g < length items)%nat) by (rewrite <- L; exact Hg). specialize (H g Hg').
  rewrite (nth_indep (map Some ls) None (Some [])) in H by (rewrite map_length; exact Hg).
  assert (E : Some (nth g ls []) = Some (lab (nth g items d))) by (rewrite <- H; symmetry; apply (map_nth (@Some str))).
  injection E as E. transitivity (lab (nth g items d)); [exact E|symmetry; apply (map_nth lab)].
Qed.

Lemma pvt_close_ok v f : pvt_close v = Ok f ->
  prf_close (v_prf v) = Ok (f_row f) /\ f_pcf f = pcf_text (v_pcf v) /\ f_prv f = prv_close (v_prv v).
Proof. unfold pvt_close. intros H. apply bindr_ok in H as (row & E & H). injection H as <-. cbn [f_row f_pcf f_prv]. auto. Qed.

Lemma pv_run_state sx evs : forall st r t0 st' r', pv_run_from sx st r t0 evs = Ok (st', r') ->
  exists tl, run_from sx st evs = Ok (st', tl).
Proof.
  induction evs as [|[[tm who] ev] evs IH]; intros st r t0 st' r' H; cbn [pv_run_from run_from] in *.
  - injection H as <- _. eauto.
  - destruct (rec_advance r (tm - t0)) as [ra|]; [|discriminate]. destruct (step sx st who ev) as [[st1 ls]|]; [|discriminate].
    destruct (foldr rec_write ls ra) as [rb|]; [|discriminate]. destruct (IH _ _ _ _ _ H) as [tl ->]. eauto.
Qed.

Definition inputs_ok (sx : static) (phy : list Z) (ms : list mtype) (tl : list (tkey * str)) : Prop :=
  length phy = length (s_cpus sx) /\ marks_ok ms /\ tl_clean tl.

Definition cpu_label (x : cpu_info * Z) : str := cpu_name (fst x) (snd x).

Record files_ok (sx : static) (phy en : list Z) (ms : list mtype) (tl : list (tkey * str)) (st : state) (out : outfiles) (r : recorder) : Prop := {
  fo_pcf_th : parse_pcf (f_pcf (o_th out)) = Some (v_pcf (rc_th r));
  fo_pcf_cpu : parse_pcf (f_pcf (o_cpu out)) = Some (v_pcf (rc_cpu r));
  fo_row_th : parse_prf (f_row (o_th out)) = Some (map th_label (s_threads sx));
  fo_row_cpu : parse_prf (f_row (o_cpu out)) = Some (map cpu_label (combine (s_cpus sx) phy));
  fo_sys : sys_facts sx phy r;
  fo_models : forall m, In m (enabled_order en) -> model_facts Pv_gen.pv_chans ms m r /\ task_facts Pv_gen.pv_chans sx (types st) tl m r
}.

Theorem emulate_files sx phy en ms lc tl evs out :
  inputs_ok sx phy ms tl -> emulate sx phy en ms lc tl evs = Ok out ->
  exists st r tlines, run_from sx (init sx) evs = Ok (st, tlines) /\ files_ok sx phy en ms tl st out r.
Proof.
  intros (Lp & M & C) H. unfold emulate in H. apply bindr_ok in H as (r0 & E0 & H).
  destruct (pv_run_from sx (init sx) r0 (ev_t0 evs) evs) as [[st r1]|] eqn:Er; [|discriminate].
  destruct (negb (all_dead st)); [discriminate|]. destruct (s_lint sx && negb (lint_ok sx lc st)); [discriminate|].
  apply bindr_ok in H as (r2 & E2 & H). apply bindr_ok in H as (fth & Et & H). apply bindr_ok in H as (fcpu & Ec & H).
  injection H as <-. cbn [o_th o_cpu].
  destruct (connect_ok _ _ _ _ _ _ specs_fine M E0) as (G0 & S0 & M0).
  pose proof (pv_run_good _ _ _ _ _ _ _ Er) as G1. destruct (finish_ok _ _ _ _ _ _ _ C E2) as (G2 & T2).
  destruct (pv_run_state _ _ _ _ _ _ _ Er) as [tlines Rn].
  assert (G : rgood (r_init sx) r2) by (eapply rgood_trans; [exact G0|eapply rgood_trans; eauto]).
  assert (G12 : rgood r0 r2) by (eapply rgood_trans; eauto).
  destruct (pvt_close_ok _ _ Et) as (Rt & Pt & _). destruct (pvt_close_ok _ _ Ec) as (Rc & Pc & _).
  pose proof (sys_facts_mono _ _ _ _ G12 S0) as S2.
  exists st, r2, tlines. split; [exact Rn|]. destruct G as [[Xt Kt] [Xc Kc]].
  constructor; cbn [o_th o_cpu].
  - rewrite Pt. apply parse_pcf_text. apply Kt. intros t [].
  - rewrite Pc. apply parse_pcf_text. apply Kc. intros t [].
  - destruct (prf_close_ok _ _ Rt) as (ls & Ep & -> & Ll & Pp).
    assert (ls = map th_label (s_threads sx)) as ->.
    { apply (rows_eq (v_prf (rc_th r2)) (s_threads sx) th_label dummy_info ls Ep).
      - rewrite (e_len _ _ Xt). cbn. unfold prf_open. now rewrite repeat_length.
      - intros g Hg. destruct S2 as (A & _). specialize (A _ _ (number_nth (s_threads sx) g dummy_info Hg)). now rewrite Nat2Z.id in A. }
    apply Pp. apply Forall_forall. intros l Hl. apply in_map_iff in Hl as [ti [<- _]]. apply th_label_no_nl.
  - destruct (prf_close_ok _ _ Rc) as (ls & Ep & -> & Ll & Pp).
    assert (Lc : length (combine (s_cpus sx) phy) = length (s_cpus sx)) by (rewrite combine_length; lia).
    assert (ls = map cpu_label (combine (s_cpus sx) phy)) as ->.
    { apply (rows_eq (v_prf (rc_cpu r2)) (combine (s_cpus sx) phy) cpu_label ({| ci_virtual := false; ci_loom := 0; ci_index := 0 |}, 0) ls Ep).
      - rewrite (e_len _ _ Xc). cbn. unfold prf_open. now rewrite repeat_length, Lc.
      - intros g Hg. destruct S2 as (_ & B & _).
        pose proof (number_nth (combine (s_cpus sx) phy) g ({| ci_virtual := false; ci_loom := 0; ci_index := 0 |}, 0) Hg) as Hin.
        destruct (nth g (combine (s_cpus sx) phy) _) as [ci p] eqn:En. destruct (B _ _ _ Hin) as [B1 _]. now rewrite Nat2Z.id in B1. }
    apply Pp. apply Forall_forall. intros l Hl. apply in_map_iff in Hl as [[ci p] [<- _]]. apply cpu_name_no_nl.
  - exact S2.
  - intros m Hm. split; [|now apply T2]. apply (model_facts_mono _ _ _ r0 r2 G12). now apply M0.
Qed.

