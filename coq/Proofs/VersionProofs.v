From OV Require Import Base.CInt Emu.VersionDefs Gen.Version_gen.
From Coq Require Import ZifyBool.
Local Open Scope Z_scope.
Ltac Zify.zify_post_hook ::= Z.div_mod_to_equations.

(* ------------------------------------------------------------------ *)
(* version_is_compatible (translated from C) is semantic versioning     *)

Definition semver_ok (want have : list Z) : Prop :=
  ix want 0 = ix have 0 /\ ix want 1 <= ix have 1.

Lemma compat_iff want have :
  version_is_compatible want have = 1 <-> semver_ok want have.
Proof.
  unfold version_is_compatible, semver_ok.
  destruct (Z.eqb (ix want 0) (ix have 0)) eqn:E0; cbn [negb];
    destruct (Z.gtb (ix want 1) (ix have 1)) eqn:E1; split; intros H; try lia.
Qed.

Lemma compat_01 want have :
  version_is_compatible want have = 0 \/ version_is_compatible want have = 1.
Proof.
  unfold version_is_compatible.
  destruct (negb _); [left; reflexivity|]. destruct (Z.gtb _ _); [left|right]; reflexivity.
Qed.

(* the acceptance relation as an order: reflexive, transitive, closed downwards in the minor of the request and
   upwards in the minor of the provider; a different major or a newer minor is refused with 0 *)
Lemma compat_refl v : version_is_compatible v v = 1.
Proof. apply compat_iff. unfold semver_ok. lia. Qed.

Lemma compat_trans a b c :
  version_is_compatible a b = 1 -> version_is_compatible b c = 1 -> version_is_compatible a c = 1.
Proof. rewrite !compat_iff. unfold semver_ok. lia. Qed.

Lemma compat_older_request want want' have :
  version_is_compatible want have = 1 ->
  ix want' 0 = ix want 0 -> ix want' 1 <= ix want 1 ->
  version_is_compatible want' have = 1.
Proof. rewrite !compat_iff. unfold semver_ok. lia. Qed.

Lemma compat_newer_provider want have have' :
  version_is_compatible want have = 1 ->
  ix have' 0 = ix have 0 -> ix have 1 <= ix have' 1 ->
  version_is_compatible want have' = 1.
Proof. rewrite !compat_iff. unfold semver_ok. lia. Qed.

Lemma compat_refused want have :
  (ix want 0 <> ix have 0 \/ ix have 1 < ix want 1) <-> version_is_compatible want have = 0.
Proof.
  unfold version_is_compatible.
  destruct (Z.eqb (ix want 0) (ix have 0)) eqn:E0; cbn [negb];
    destruct (Z.gtb (ix want 1) (ix have 1)) eqn:E1; split; intros H; try lia.
Qed.

Lemma compat_antisym_minor a b :
  version_is_compatible a b = 1 -> version_is_compatible b a = 1 ->
  ix a 0 = ix b 0 /\ ix a 1 = ix b 1.
Proof. rewrite !compat_iff. unfold semver_ok. lia. Qed.

Lemma compat_patch_ignored a b c c' h :
  version_is_compatible [a; b; c] h = version_is_compatible [a; b; c'] h.
Proof. reflexivity. Qed.

(* ------------------------------------------------------------------ *)
(* ovni_version_check_str (translated from C)                          *)

Lemma lib_version_parses : exists h, version_parse (Some OVNI_LIB_VERSION) = Some h.
Proof. eexists. vm_compute. reflexivity. Qed.

Lemma check_str_iff (s : cstring) :
  ovni_version_check_str s = Ret tt <->
  exists w h, version_parse s = Some w /\ version_parse (Some OVNI_LIB_VERSION) = Some h /\ semver_ok w h.
Proof.
  destruct lib_version_parses as [h Hh].
  unfold ovni_version_check_str, OVNI_LIB_VERSION in *.
  destruct s as [s|]; cbn [is_null].
  2:{ split; [discriminate|]. intros (w & h' & Hw & _). cbn in Hw. discriminate. }
  destruct (version_parse (Some s)) as [w|] eqn:Ew.
  2:{ split; [discriminate|]. intros (w & h' & Hw & _). discriminate. }
  rewrite Hh.
  unfold semver_ok.
  destruct (Z.eqb (ix w 0) (ix h 0)) eqn:E0; cbn [negb];
    destruct (Z.gtb (ix w 1) (ix h 1)) eqn:E1; split; intros H;
    try discriminate; try reflexivity.
  all: try (exists w, h; repeat split; try assumption; lia).
  all: destruct H as (w' & h' & Hw & Hh' & Hc1 & Hc2);
       inversion Hw; inversion Hh'; subst; lia.
Qed.

Lemma check_str_total (s : cstring) :
  ovni_version_check_str s = Ret tt \/ ovni_version_check_str s = Die.
Proof.
  unfold ovni_version_check_str.
  destruct (is_null s); [right; reflexivity|].
  destruct (version_parse s); [|right; reflexivity].
  destruct (version_parse _); [|right; reflexivity].
  destruct (negb _); [right; reflexivity|].
  destruct (Z.gtb _ _); [right|left]; reflexivity.
Qed.

(* ------------------------------------------------------------------ *)
(* decimal rendering and parsing                                       *)

Definition step (acc c : Z) : Z := acc * 10 + (c - 48).

Lemma digits_value_fold ds : digits_value ds = fold_left step ds 0.
Proof. reflexivity. Qed.

Lemma digits_of_spec f : forall n acc,
  (1 <= f)%nat -> 0 <= n < 10 ^ Z.of_nat f ->
  exists d, digits_of f n acc = d ++ acc /\ d <> [] /\ Forall (fun c => is_digit c = true) d /\
            (length d <= f)%nat /\
            (forall a, fold_left step d a = a * 10 ^ Z.of_nat (length d) + n).
Proof.
  induction f as [|f IH]; intros n acc Hf Hn; [lia|].
  cbn [digits_of].
  destruct (n <? 10) eqn:E.
  - exists [48 + n mod 10]. repeat split.
    + discriminate.
    + constructor; [|constructor]. cbv beta. unfold is_digit. lia.
    + cbn. lia.
    + intros a. cbn [fold_left length]. unfold step. change (10 ^ Z.of_nat 1) with 10. lia.
  - assert (Hf2 : (1 <= f)%nat).
    { destruct f; [|lia]. cbn in Hn. lia. }
    assert (Hn' : 0 <= n / 10 < 10 ^ Z.of_nat f).
    { replace (Z.of_nat (S f)) with (1 + Z.of_nat f) in Hn by lia.
      rewrite Z.pow_add_r in Hn by lia. change (10 ^ 1) with 10 in Hn. lia. }
    destruct (IH (n / 10) ((48 + n mod 10) :: acc) Hf2 Hn') as (d & Hd & Hne & Hdig & Hlen & Hval).
    exists (d ++ [48 + n mod 10]). repeat split.
    + rewrite Hd. rewrite <- app_assoc. reflexivity.
    + destruct d; discriminate.
    + apply Forall_app. split; [exact Hdig|]. constructor; [|constructor]. cbv beta. unfold is_digit. lia.
    + rewrite app_length. cbn. lia.
    + intros a. rewrite fold_left_app. cbn [fold_left]. rewrite Hval. unfold step.
      rewrite app_length. cbn [length]. replace (Z.of_nat (length d + 1)) with (Z.of_nat (length d) + 1) by lia.
      rewrite Z.pow_add_r by lia. change (10 ^ 1) with 10. lia.
Qed.

Lemma render_num_spec n : 0 <= n < 2 ^ 31 ->
  render_num n <> [] /\ Forall (fun c => is_digit c = true) (render_num n) /\
  (length (render_num n) <= 20)%nat /\ digits_value (render_num n) = n.
Proof.
  intros Hn. unfold render_num.
  destruct (digits_of_spec 20 n [] ltac:(lia)) as (d & Hd & Hne & Hdig & Hlen & Hval).
  { change (10 ^ Z.of_nat 20) with 100000000000000000000. change (2 ^ 31) with 2147483648 in Hn. lia. }
  rewrite Hd, app_nil_r. repeat split; try assumption.
  rewrite digits_value_fold, Hval. lia.
Qed.

Lemma span_digits_all d : Forall (fun c => is_digit c = true) d -> span_digits d = (d, []).
Proof.
  induction 1 as [|c d Hc _ IH]; [reflexivity|]. cbn. rewrite Hc, IH. reflexivity.
Qed.

Lemma digit_not_space c : is_digit c = true -> is_space c = false.
Proof. unfold is_digit, is_space. lia. Qed.

Lemma parse_num_digits d :
  d <> [] -> Forall (fun c => is_digit c = true) d -> 0 <= digits_value d < 2 ^ 31 ->
  parse_num d = Some (digits_value d).
Proof.
  intros Hne Hd Hv. unfold parse_num.
  destruct d as [|c d]; [contradiction|].
  assert (Hc : is_digit c = true) by (inversion Hd; assumption).
  cbn [skip_space]. rewrite (digit_not_space c Hc).
  assert (Hsign : c <> 45 /\ c <> 43) by (unfold is_digit in Hc; lia).
  assert (Hs : strip_sign (c :: d) = (false, c :: d)).
  { unfold strip_sign. destruct (c =? 45) eqn:E1; [lia|]. destruct (c =? 43) eqn:E2; [lia|]. reflexivity. }
  rewrite Hs. rewrite (span_digits_all (c :: d) Hd).
  change (2 ^ 31) with 2147483648 in Hv.
  assert (Hl : ((digits_value (c :: d) >? LONG_MAX) || (digits_value (c :: d) <? LONG_MIN)) = false).
  { unfold LONG_MAX, LONG_MIN. change (2 ^ 63) with 9223372036854775808. lia. }
  rewrite Hl.
  destruct (digits_value (c :: d) <? 0) eqn:E; [lia|].
  destruct (digits_value (c :: d) >? INT_MAX) eqn:E2; [|reflexivity].
  unfold INT_MAX in E2. change (2 ^ 31) with 2147483648 in E2. lia.
Qed.

Lemma parse_render_num n : 0 <= n < 2 ^ 31 -> parse_num (render_num n) = Some n.
Proof.
  intros Hn. destruct (render_num_spec n Hn) as (Hne & Hd & _ & Hv).
  rewrite <- Hv at 2. apply parse_num_digits; try assumption. rewrite Hv. exact Hn.
Qed.

(* ------------------------------------------------------------------ *)
(* tokenisation                                                        *)

Definition nodelim (delim d : list Z) : Prop := Forall (fun c => mem c delim = false) d.

Lemma take_token_stop delim d c r :
  nodelim delim d -> mem c delim = true -> take_token delim (d ++ c :: r) = (d, r).
Proof.
  induction 1 as [|x d Hx _ IH]; intros Hc; cbn.
  - rewrite Hc. reflexivity.
  - rewrite Hx, (IH Hc). reflexivity.
Qed.

Lemma take_token_end delim d : nodelim delim d -> take_token delim d = (d, []).
Proof.
  induction 1 as [|x d Hx _ IH]; cbn; [reflexivity|]. rewrite Hx, IH. reflexivity.
Qed.

Lemma strtok_stop delim d c r :
  d <> [] -> nodelim delim d -> mem c delim = true -> strtok delim (d ++ c :: r) = Some (d, r).
Proof.
  intros Hne Hd Hc. unfold strtok.
  destruct d as [|x d]; [contradiction|].
  assert (Hx : mem x delim = false) by (inversion Hd; assumption).
  cbn [app skip_delims]. rewrite Hx.
  change (x :: d ++ c :: r) with ((x :: d) ++ c :: r).
  rewrite (take_token_stop delim (x :: d) c r Hd Hc). reflexivity.
Qed.

Lemma strtok_end delim d : d <> [] -> nodelim delim d -> strtok delim d = Some (d, []).
Proof.
  intros Hne Hd. unfold strtok. destruct d as [|x d]; [contradiction|].
  assert (Hx : mem x delim = false) by (inversion Hd; assumption).
  cbn [skip_delims]. rewrite Hx. rewrite (take_token_end delim (x :: d) Hd). reflexivity.
Qed.

Lemma digits_nodelim delim d :
  Forall (fun c => is_digit c = true) d -> Forall (fun c => is_digit c = false) delim -> nodelim delim d.
Proof.
  intros Hd Hdel. unfold nodelim. eapply Forall_impl; [|exact Hd].
  intros c Hc. cbv beta in Hc. unfold mem.
  destruct (existsb (Z.eqb c) delim) eqn:E; [|reflexivity].
  apply existsb_exists in E. destruct E as (x & Hin & Hx).
  rewrite Forall_forall in Hdel. specialize (Hdel x Hin). apply Z.eqb_eq in Hx. subst. congruence.
Qed.

(* version_parse on a string of the shape A.B.C[rest]: A, B non-empty without
   dots, C non-empty without dots and dashes, rest empty or starting with a
   dot or a dash.  This is the equation every other statement is derived from. *)
Lemma version_parse_structured A B C rest :
  A <> [] -> B <> [] -> C <> [] ->
  nodelim [DOT] A -> nodelim [DOT] B -> nodelim [DOT; DASH] C ->
  (rest = [] \/ exists c r, rest = c :: r /\ mem c [DOT; DASH] = true) ->
  (length (A ++ DOT :: B ++ DOT :: C ++ rest) < 64)%nat ->
  version_parse (Some (A ++ DOT :: B ++ DOT :: C ++ rest)) =
  match parse_num A, parse_num B, parse_num C with
  | Some a, Some b, Some c => Some [a; b; c]
  | _, _, _ => None
  end.
Proof.
  intros HA HB HC HnA HnB HnC Hrest Hlen.
  unfold version_parse.
  destruct (64 <=? Z.of_nat (length (A ++ DOT :: B ++ DOT :: C ++ rest))) eqn:E; [lia|].
  rewrite (strtok_stop [DOT] A DOT _ HA HnA eq_refl).
  destruct (parse_num A) as [a|]; [|reflexivity].
  rewrite (strtok_stop [DOT] B DOT _ HB HnB eq_refl).
  destruct (parse_num B) as [b|]; [|reflexivity].
  assert (Ht : strtok [DOT; DASH] (C ++ rest) = Some (C, match rest with [] => [] | _ :: r => r end)).
  { destruct Hrest as [-> | (c & r & -> & Hc)].
    - rewrite app_nil_r. apply strtok_end; assumption.
    - apply strtok_stop; assumption. }
  rewrite Ht. destruct (parse_num C) as [c|]; reflexivity.
Qed.

Lemma not_digit_dot : Forall (fun c => is_digit c = false) [DOT].
Proof. repeat constructor. Qed.
Lemma not_digit_dotdash : Forall (fun c => is_digit c = false) [DOT; DASH].
Proof. repeat constructor. Qed.

Lemma parse_render_suffix a b c rest :
  0 <= a < 2 ^ 31 -> 0 <= b < 2 ^ 31 -> 0 <= c < 2 ^ 31 ->
  (rest = [] \/ exists x r, rest = x :: r /\ mem x [DOT; DASH] = true) ->
  (length rest <= 1)%nat \/ (length (render a b c ++ rest) < 64)%nat ->
  version_parse (Some (render a b c ++ rest)) = Some [a; b; c].
Proof.
  intros Ha Hb Hc Hrest Hlen.
  destruct (render_num_spec a Ha) as (HneA & HdA & HlA & _).
  destruct (render_num_spec b Hb) as (HneB & HdB & HlB & _).
  destruct (render_num_spec c Hc) as (HneC & HdC & HlC & _).
  unfold render. repeat rewrite <- app_assoc. cbn [app].
  rewrite (version_parse_structured (render_num a) (render_num b) (render_num c) rest); try assumption.
  - rewrite (parse_render_num a Ha), (parse_render_num b Hb), (parse_render_num c Hc). reflexivity.
  - apply digits_nodelim; [assumption|apply not_digit_dot].
  - apply digits_nodelim; [assumption|apply not_digit_dot].
  - apply digits_nodelim; [assumption|apply not_digit_dotdash].
  - destruct Hlen as [Hl|Hl].
    + repeat (rewrite app_length; cbn [length]). lia.
    + unfold render in Hl. repeat rewrite <- app_assoc in Hl. cbn [app] in Hl. exact Hl.
Qed.

Lemma parse_render a b c :
  0 <= a < 2 ^ 31 -> 0 <= b < 2 ^ 31 -> 0 <= c < 2 ^ 31 ->
  version_parse (Some (render a b c)) = Some [a; b; c].
Proof.
  intros Ha Hb Hc. rewrite <- (app_nil_r (render a b c)).
  apply parse_render_suffix; try assumption; left; [reflexivity|cbn; lia].
Qed.

(* ------------------------------------------------------------------ *)
(* malformed strings                                                   *)

Lemma parse_null : version_parse None = None.
Proof. reflexivity. Qed.

Lemma parse_too_long s : (64 <= length s)%nat -> version_parse (Some s) = None.
Proof. intros H. unfold version_parse. destruct (64 <=? Z.of_nat (length s)) eqn:E; [reflexivity|lia]. Qed.

Definition dots (s : list Z) : nat := count_occ Z.eq_dec s DOT.

Lemma mem_dot c : mem c [DOT] = (c =? DOT).
Proof. unfold mem. cbn. rewrite orb_false_r. reflexivity. Qed.

Lemma skip_delims_dots s : (dots (skip_delims [DOT] s) <= dots s)%nat.
Proof.
  induction s as [|c s IH]; cbn [skip_delims]; [lia|].
  rewrite mem_dot. destruct (c =? DOT) eqn:E.
  - unfold dots in *. cbn [count_occ]. destruct (Z.eq_dec c DOT); lia.
  - lia.
Qed.

Lemma take_token_dots s t r :
  take_token [DOT] s = (t, r) -> (dots r <= dots s - 1)%nat /\ (dots s = 0%nat -> r = []).
Proof.
  revert t r. induction s as [|c s IH]; intros t r H; cbn [take_token] in H.
  - inversion H. cbn. split; [lia|reflexivity].
  - rewrite mem_dot in H. destruct (c =? DOT) eqn:E.
    + inversion H; subst. apply Z.eqb_eq in E. subst c. unfold dots. cbn [count_occ].
      destruct (Z.eq_dec DOT DOT); [|contradiction]. split; [lia|discriminate].
    + destruct (take_token [DOT] s) as (t', r') eqn:Et. inversion H; subst.
      destruct (IH t' r eq_refl) as (H1 & H2). unfold dots in *. cbn [count_occ].
      destruct (Z.eq_dec c DOT) as [->|]; [discriminate|]. split; [lia|exact H2].
Qed.

Lemma strtok_dots s t r :
  strtok [DOT] s = Some (t, r) -> (dots r <= dots s - 1)%nat /\ (dots s = 0%nat -> r = []).
Proof.
  unfold strtok. intros H.
  pose proof (skip_delims_dots s) as Hs.
  destruct (skip_delims [DOT] s) as [|c s'] eqn:E; [discriminate|].
  assert (H' : take_token [DOT] (c :: s') = (t, r)) by congruence.
  destruct (take_token_dots _ _ _ H') as (H1 & H2).
  split; [lia|]. intros Hz. apply H2. lia.
Qed.

Lemma strtok_nil delim : strtok delim [] = None.
Proof. reflexivity. Qed.

(* fewer than three components: at most one dot in the string *)
Lemma parse_few_components s : (dots s <= 1)%nat -> version_parse (Some s) = None.
Proof.
  intros Hd. unfold version_parse.
  destruct (64 <=? Z.of_nat (length s)); [reflexivity|].
  destruct (strtok [DOT] s) as [[t0 r0]|] eqn:E0; [|reflexivity].
  destruct (parse_num t0); [|reflexivity].
  destruct (strtok_dots _ _ _ E0) as (H1 & H2).
  destruct (strtok [DOT] r0) as [[t1 r1]|] eqn:E1; [|reflexivity].
  destruct (parse_num t1); [|reflexivity].
  destruct (strtok_dots _ _ _ E1) as (H3 & H4).
  assert (r1 = []) by (apply H4; lia). subst r1. reflexivity.
Qed.

(* a component containing a character that is neither a digit, white space nor a sign *)
Definition bad_char (c : Z) : Prop :=
  is_digit c = false /\ is_space c = false /\ c <> 45 /\ c <> 43.

Lemma skip_space_in c s : In c s -> is_space c = false -> In c (skip_space s).
Proof.
  induction s as [|x s IH]; intros Hin Hc; [contradiction|].
  cbn. destruct (is_space x) eqn:E.
  - destruct Hin as [->|Hin]; [congruence|]. apply IH; assumption.
  - exact Hin.
Qed.

Lemma span_digits_app s d r : span_digits s = (d, r) -> s = d ++ r /\ Forall (fun c => is_digit c = true) d.
Proof.
  revert d r. induction s as [|x s IH]; intros d r H; cbn in H.
  - inversion H. split; [reflexivity|constructor].
  - destruct (is_digit x) eqn:E.
    + destruct (span_digits s) as (d', r') eqn:Es. inversion H; subst.
      destruct (IH d' r eq_refl) as (-> & Hf). split; [reflexivity|constructor; assumption].
    + inversion H; subst. split; [reflexivity|constructor].
Qed.

Lemma parse_num_bad_char tok c : In c tok -> bad_char c -> parse_num tok = None.
Proof.
  intros Hin (Hd & Hs & Hm & Hp). unfold parse_num.
  pose proof (skip_space_in c tok Hin Hs) as Hin'.
  set (s := skip_space tok) in *. clearbody s.
  assert (Hsplit : exists neg s1, strip_sign s = (neg, s1) /\ In c s1).
  { destruct s as [|x s]; [contradiction|]. unfold strip_sign.
    destruct (x =? 45) eqn:E1.
    - exists true, s. split; [reflexivity|]. destruct Hin' as [E|I]; [lia|exact I].
    - destruct (x =? 43) eqn:E2.
      + exists false, s. split; [reflexivity|]. destruct Hin' as [E|I]; [lia|exact I].
      + exists false, (x :: s). split; [reflexivity|exact Hin']. }
  destruct Hsplit as (neg & s1 & -> & Hin1).
  destruct (span_digits s1) as (ds, rest) eqn:Es.
  destruct (span_digits_app _ _ _ Es) as (-> & Hf).
  destruct ds as [|d0 ds]; [reflexivity|].
  destruct rest as [|r0 rest]; [|reflexivity].
  exfalso. rewrite app_nil_r in Hin1. rewrite Forall_forall in Hf. specialize (Hf c Hin1). congruence.
Qed.

(* a negative component *)
Lemma parse_num_negative d :
  d <> [] -> Forall (fun c => is_digit c = true) d -> 0 < digits_value d ->
  parse_num (45 :: d) = None.
Proof.
  intros Hne Hd Hv. unfold parse_num. cbn [skip_space].
  replace (is_space 45) with false by reflexivity.
  unfold strip_sign. change (45 =? 45) with true. cbv iota.
  rewrite (span_digits_all d Hd).
  destruct d as [|c d]; [contradiction|].
  destruct ((- digits_value (c :: d) >? LONG_MAX) || (- digits_value (c :: d) <? LONG_MIN)); [reflexivity|].
  destruct (- digits_value (c :: d) <? 0) eqn:E; [reflexivity|lia].
Qed.

(* a component that does not fit an int *)
Lemma parse_num_too_large d :
  Forall (fun c => is_digit c = true) d -> 2 ^ 31 <= digits_value d ->
  parse_num d = None.
Proof.
  intros Hd Hv. unfold parse_num.
  destruct d as [|c d]; [reflexivity|].
  assert (Hc : is_digit c = true) by (inversion Hd; assumption).
  cbn [skip_space]. rewrite (digit_not_space c Hc).
  assert (Hs : strip_sign (c :: d) = (false, c :: d)).
  { unfold strip_sign. unfold is_digit in Hc. destruct (c =? 45) eqn:E1; [lia|]. destruct (c =? 43) eqn:E2; [lia|]. reflexivity. }
  rewrite Hs, (span_digits_all (c :: d) Hd).
  destruct ((digits_value (c :: d) >? LONG_MAX) || (digits_value (c :: d) <? LONG_MIN)); [reflexivity|].
  destruct (digits_value (c :: d) <? 0); [reflexivity|].
  destruct (digits_value (c :: d) >? INT_MAX) eqn:E; [reflexivity|].
  unfold INT_MAX in E. change (2 ^ 31) with 2147483648 in *. lia.
Qed.

Lemma parse_num_empty_digits tok :
  (forall c, In c tok -> is_digit c = false) -> parse_num tok = None.
Proof.
  intros H. unfold parse_num.
  assert (Hsk : forall c, In c (skip_space tok) -> is_digit c = false).
  { intros c Hc. apply H. clear H. induction tok as [|x t IH]; [contradiction|].
    cbn in Hc. destruct (is_space x); [right; apply IH; exact Hc|exact Hc]. }
  set (s := skip_space tok) in *. clearbody s.
  assert (Hs1 : exists neg s1, strip_sign s = (neg, s1) /\ forall c, In c s1 -> is_digit c = false).
  { destruct s as [|x s]; [exists false, []; split; [reflexivity|intros c []]|]. unfold strip_sign.
    destruct (x =? 45); [exists true, s; split; [reflexivity|intros c Hc; apply Hsk; right; exact Hc]|].
    destruct (x =? 43); [exists false, s; split; [reflexivity|intros c Hc; apply Hsk; right; exact Hc]|].
    exists false, (x :: s). split; [reflexivity|exact Hsk]. }
  destruct Hs1 as (neg & s1 & -> & Hnd).
  destruct s1 as [|x s1]; [reflexivity|].
  cbn [span_digits]. rewrite (Hnd x (or_introl eq_refl)). reflexivity.
Qed.

(* ------------------------------------------------------------------ *)
(* model enabling                                                      *)

Section Enable.
  Let compatible := version_is_compatible.

  Definition requires_ok (have name : list Z) (t : thread_req) : Prop :=
    exists req v want, t = Some req /\ lookup name req = Some v /\
                       version_parse (Some v) = Some want /\ semver_ok want have.

  Definition requires_bad (have name : list Z) (t : thread_req) : Prop :=
    t = None \/
    exists req v, t = Some req /\ lookup name req = Some v /\
      (version_parse (Some v) = None \/
       exists want, version_parse (Some v) = Some want /\ ~ semver_ok want have).

  Lemma should_enable_on have name t :
    should_enable compatible have name t = POn <-> requires_ok have name t.
  Proof.
    unfold should_enable, requires_ok, compatible. split.
    - destruct t as [req|]; [|discriminate].
      destruct (lookup name req) as [v|] eqn:El; [|discriminate].
      destruct (version_parse (Some v)) as [want|] eqn:Ep; [|discriminate].
      destruct (version_is_compatible want have =? 0) eqn:E; [discriminate|].
      intros _. exists req, v, want. repeat split; try assumption; apply compat_iff;
      destruct (compat_01 want have); lia.
    - intros (req & v & want & -> & -> & -> & Hc). apply compat_iff in Hc. rewrite Hc. reflexivity.
  Qed.

  Lemma should_enable_err have name t :
    should_enable compatible have name t = PErr <-> requires_bad have name t.
  Proof.
    unfold should_enable, requires_bad, compatible. split.
    - destruct t as [req|]; [|left; reflexivity].
      destruct (lookup name req) as [v|] eqn:El; [|discriminate].
      destruct (version_parse (Some v)) as [want|] eqn:Ep.
      + destruct (version_is_compatible want have =? 0) eqn:E; [|discriminate].
        intros _. right. exists req, v. repeat split; try assumption. right. exists want. split; [exact Ep|].
        intros Hc. apply compat_iff in Hc. lia.
      + intros _. right. exists req, v. repeat split; try assumption. left. exact Ep.
    - intros [-> | (req & v & -> & -> & [-> | (want & -> & Hn)])]; try reflexivity.
      destruct (version_is_compatible want have =? 0) eqn:E; [reflexivity|].
      exfalso. apply Hn. apply compat_iff. destruct (compat_01 want have); lia.
  Qed.

  Lemma probe_threads_spec have name ts : forall e,
    (probe_threads compatible have name ts e = PErr <-> exists t, In t ts /\ requires_bad have name t) /\
    (probe_threads compatible have name ts e = POn <->
       (~ exists t, In t ts /\ requires_bad have name t) /\
       (e = true \/ exists t, In t ts /\ requires_ok have name t)).
  Proof.
    induction ts as [|t ts IH]; intros e.
    - cbn. split; split.
      + destruct e; discriminate.
      + intros (t & [] & _).
      + destruct e; [|discriminate]. intros _. split; [intros (t & [] & _)|left; reflexivity].
      + intros (_ & [-> | (t & [] & _)]). reflexivity.
    - cbn [probe_threads].
      pose proof (should_enable_on have name t) as Hon.
      pose proof (should_enable_err have name t) as Herr.
      destruct (should_enable compatible have name t) eqn:Es.
      + (* PErr *)
        assert (Hb : requires_bad have name t) by (apply Herr; reflexivity).
        split; split; try discriminate; try (intros _; reflexivity).
        * intros _. exists t. split; [left; reflexivity|exact Hb].
        * intros (Hno & _). exfalso. apply Hno. exists t. split; [left; reflexivity|exact Hb].
      + (* POff *)
        assert (Hnb : ~ requires_bad have name t) by (intros Hb; apply Herr in Hb; discriminate).
        assert (Hno : ~ requires_ok have name t) by (intros Hb; apply Hon in Hb; discriminate).
        destruct (IH e) as (IH1 & IH2). split; split.
        * intros H. apply IH1 in H. destruct H as (t' & Hin & Hb). exists t'. split; [right; exact Hin|exact Hb].
        * intros (t' & [<- | Hin] & Hb); [contradiction|]. apply IH1. exists t'. split; assumption.
        * intros H. apply IH2 in H. destruct H as (Hnone & Hsome). split.
          -- intros (t' & [<- | Hin] & Hb); [contradiction|]. apply Hnone. exists t'. split; assumption.
          -- destruct Hsome as [->|(t' & Hin & Hok)]; [left; reflexivity|right; exists t'; split; [right; exact Hin|exact Hok]].
        * intros (Hnone & Hsome). apply IH2. split.
          -- intros (t' & Hin & Hb). apply Hnone. exists t'. split; [right; exact Hin|exact Hb].
          -- destruct Hsome as [->|(t' & [<- | Hin] & Hok)]; [left; reflexivity|contradiction|right; exists t'; split; assumption].
      + (* POn *)
        assert (Hok : requires_ok have name t) by (apply Hon; reflexivity).
        assert (Hnb : ~ requires_bad have name t) by (intros Hb; apply Herr in Hb; discriminate).
        destruct (IH true) as (IH1 & IH2). split; split.
        * intros H. apply IH1 in H. destruct H as (t' & Hin & Hb). exists t'. split; [right; exact Hin|exact Hb].
        * intros (t' & [<- | Hin] & Hb); [contradiction|]. apply IH1. exists t'. split; assumption.
        * intros H. apply IH2 in H. destruct H as (Hnone & _). split.
          -- intros (t' & [<- | Hin] & Hb); [contradiction|]. apply Hnone. exists t'. split; assumption.
          -- right. exists t. split; [left; reflexivity|exact Hok].
        * intros (Hnone & _). apply IH2. split.
          -- intros (t' & Hin & Hb). apply Hnone. exists t'. split; [right; exact Hin|exact Hb].
          -- left. reflexivity.
  Qed.

  (* what "model (name, ver) is broken for this trace" means *)
  Definition model_bad (name ver : list Z) (ts : list thread_req) : Prop :=
    version_parse (Some ver) = None \/
    exists have t, version_parse (Some ver) = Some have /\ In t ts /\ requires_bad have name t.

  Definition model_required (name ver : list Z) (ts : list thread_req) : Prop :=
    exists have t, version_parse (Some ver) = Some have /\ In t ts /\ requires_ok have name t.

  Lemma model_version_probe_err name ver ts :
    model_version_probe compatible name ver ts = PErr <-> model_bad name ver ts.
  Proof.
    unfold model_version_probe, model_bad.
    destruct (version_parse (Some ver)) as [have|] eqn:E.
    - destruct (probe_threads_spec have name ts false) as (H1 & _). rewrite H1. split.
      + intros (t & Hin & Hb). right. exists have, t. repeat split; assumption.
      + intros [H | (have' & t & Hh & Hin & Hb)]; [discriminate|]. inversion Hh; subst. exists t. split; assumption.
    - split; [left; reflexivity|reflexivity].
  Qed.

  Lemma model_version_probe_on name ver ts :
    model_version_probe compatible name ver ts = POn <-> (~ model_bad name ver ts /\ model_required name ver ts).
  Proof.
    unfold model_version_probe, model_bad, model_required.
    destruct (version_parse (Some ver)) as [have|] eqn:E.
    - destruct (probe_threads_spec have name ts false) as (_ & H2). rewrite H2. split.
      + intros (Hno & [Hf | (t & Hin & Hok)]); [discriminate|]. split.
        * intros [H | (have' & t' & Hh & Hin' & Hb)]; [discriminate|]. inversion Hh; subst. apply Hno. exists t'. split; assumption.
        * exists have, t. repeat split; assumption.
      + intros (Hno & (have' & t & Hh & Hin & Hok)). inversion Hh; subst. split.
        * intros (t' & Hin' & Hb). apply Hno. right. exists have', t'. repeat split; assumption.
        * right. exists t. split; assumption.
    - split; [discriminate|]. intros (Hno & _). exfalso. apply Hno. left. reflexivity.
  Qed.

  Variable always : Z -> bool.

  Lemma model_probe_none models ts all :
    model_probe compatible always models ts all = None <->
    exists id name ver, In (id, name, ver) models /\ model_bad name ver ts.
  Proof.
    induction models as [|[[id name] ver] models IH]; cbn [model_probe].
    - split; [discriminate|]. intros (? & ? & ? & [] & _).
    - pose proof (model_version_probe_err name ver ts) as Herr.
      destruct (model_version_probe compatible name ver ts) eqn:Ep.
      + split; [|reflexivity]. intros _. exists id, name, ver. split; [left; reflexivity|apply Herr; reflexivity].
      + destruct (model_probe compatible always models ts all) eqn:Er.
        * split; [discriminate|]. intros (id' & name' & ver' & [Heq | Hin] & Hb).
          -- inversion Heq; subst. apply Herr in Hb. discriminate.
          -- destruct IH as (_ & IH2). specialize (IH2 (ex_intro _ id' (ex_intro _ name' (ex_intro _ ver' (conj Hin Hb))))). discriminate.
        * split; [|reflexivity]. intros _. destruct IH as (IH1 & _). destruct (IH1 eq_refl) as (id' & name' & ver' & Hin & Hb).
          exists id', name', ver'. split; [right; exact Hin|exact Hb].
      + destruct (model_probe compatible always models ts all) eqn:Er.
        * split; [discriminate|]. intros (id' & name' & ver' & [Heq | Hin] & Hb).
          -- inversion Heq; subst. apply Herr in Hb. discriminate.
          -- destruct IH as (_ & IH2). specialize (IH2 (ex_intro _ id' (ex_intro _ name' (ex_intro _ ver' (conj Hin Hb))))). discriminate.
        * split; [|reflexivity]. intros _. destruct IH as (IH1 & _). destruct (IH1 eq_refl) as (id' & name' & ver' & Hin & Hb).
          exists id', name', ver'. split; [right; exact Hin|exact Hb].
  Qed.

  Definition flag (p : probe) (all : bool) (id : Z) : bool :=
    (match p with POn => true | _ => false end) || all || always id.

  Lemma flag_iff name ver ts all id :
    model_version_probe compatible name ver ts <> PErr ->
    (flag (model_version_probe compatible name ver ts) all id = true <->
     all = true \/ always id = true \/ model_required name ver ts).
  Proof.
    intros Hne. unfold flag.
    pose proof (model_version_probe_on name ver ts) as Hon.
    pose proof (model_version_probe_err name ver ts) as Herr.
    destruct (model_version_probe compatible name ver ts) eqn:Ep; [contradiction| |].
    - assert (Hnreq : ~ model_required name ver ts).
      { intros Hr. assert (Hnb : ~ model_bad name ver ts) by (intros Hb; apply Herr in Hb; discriminate).
        destruct Hon as (_ & Hon2). specialize (Hon2 (conj Hnb Hr)). discriminate. }
      cbn [orb]. destruct all, (always id); cbn [orb]; split; intros H; try reflexivity; try discriminate; auto.
      destruct H as [H|[H|H]]; try discriminate. contradiction.
    - cbn [orb]. split; [intros _|reflexivity]. right. right. apply Hon. reflexivity.
  Qed.

  Lemma model_probe_subset models ts all : forall en,
    model_probe compatible always models ts all = Some en ->
    forall j, In j en -> In j (map (fun m => fst (fst m)) models).
  Proof.
    induction models as [|[[i0 n] v] ms IHm]; intros en Er j Hj; cbn [model_probe] in Er.
    - inversion Er; subst. contradiction.
    - destruct (model_version_probe compatible n v ts); [discriminate| |];
        destruct (model_probe compatible always ms ts all) as [e2|]; try discriminate;
        match type of Er with Some (if ?c then _ else _) = _ => destruct c end;
        inversion Er; subst; cbn [map fst];
        try (destruct Hj as [<-|Hj]; [left; reflexivity|]); right; eapply IHm; eauto.
  Qed.

  Lemma model_probe_enabled models ts all : forall en,
    NoDup (map (fun m => fst (fst m)) models) ->
    model_probe compatible always models ts all = Some en ->
    forall id name ver, In (id, name, ver) models ->
      (In id en <-> all = true \/ always id = true \/ model_required name ver ts).
  Proof.
    induction models as [|[[id0 name0] ver0] models IH]; intros en Hnd Hp id name ver Hin; [contradiction|].
    cbn [model_probe] in Hp. cbn [map fst] in Hnd. inversion Hnd as [|? ? Hnotin Hnd']; subst.
    fold (flag (model_version_probe compatible name0 ver0 ts) all id0) in Hp.
    assert (Hne : model_version_probe compatible name0 ver0 ts <> PErr).
    { intros E. rewrite E in Hp. discriminate. }
    pose proof (flag_iff name0 ver0 ts all id0 Hne) as Hflag.
    destruct (model_probe compatible always models ts all) as [en'|] eqn:Er.
    2:{ destruct (model_version_probe compatible name0 ver0 ts); discriminate. }
    assert (Hen : en = if flag (model_version_probe compatible name0 ver0 ts) all id0 then id0 :: en' else en').
    { destruct (model_version_probe compatible name0 ver0 ts); [contradiction| |]; inversion Hp; reflexivity. }
    clear Hp.
    pose proof (model_probe_subset models ts all en' Er) as Hsub.
    destruct Hin as [Heq | Hin].
    - inversion Heq; subst id0 name0 ver0. rewrite <- Hflag.
      destruct (flag _ all id) eqn:Ef; subst en.
      + split; [reflexivity|intros _; left; reflexivity].
      + split; [intros Hi; exfalso; apply Hnotin; apply Hsub; exact Hi|discriminate].
    - assert (Hneq : id <> id0).
      { intros ->. apply Hnotin. apply in_map_iff. exists (id0, name, ver). split; [reflexivity|exact Hin]. }
      specialize (IH en' Hnd' eq_refl id name ver Hin). rewrite <- IH.
      destruct (flag _ all id0); subst en; [|reflexivity].
      split; [intros [H|H]; [congruence|exact H]|intros H; right; exact H].
  Qed.

  Lemma disabled_rejected registered enabled m :
    mem m enabled = false -> model_event_admitted registered enabled m = false.
  Proof. intros H. unfold model_event_admitted. rewrite H. apply andb_false_r. Qed.

  Lemma unregistered_rejected registered enabled m :
    mem m registered = false -> model_event_admitted registered enabled m = false.
  Proof. intros H. unfold model_event_admitted. rewrite H. reflexivity. Qed.
End Enable.

Lemma base_model_always_enabled :
  exists ts en, model_probe version_is_compatible (Z.eqb 79) [(79, [111], render 1 1 0)] ts false = Some en /\
                In 79 en /\ ~ model_required [111] (render 1 1 0) ts.
Proof.
  exists [Some []], [79]. split; [vm_compute; reflexivity|]. split; [left; reflexivity|].
  intros (have & t & _ & Hin & (req & v & want & Ht & Hl & _)).
  destruct Hin as [<-|[]]. inversion Ht; subst. discriminate.
Qed.
