(* C08: the stack channel accepts exactly the well-nested histories (grammar hist) that never re-enter
   the innermost open region (unless the channel allows duplicates) and never exceed the stack limit. *)
From Coq Require Import ZArith List Bool Lia.
From OV Require Import Emu.EmuCoreDefs Emu.StackSpecDefs Proofs.EmitProofs.
Import ListNotations.
Local Open Scope Z_scope.

(* ---------------------------------------------------------------- plain stack machine *)

Definition mstep (s : list Z) (e : sev) : option (list Z) :=
  match e with
  | Enter v => Some (v :: s)
  | Leave v => match s with x :: s' => if x =? v then Some s' else None | [] => None end
  end.

Fixpoint mrun (s : list Z) (evs : list sev) : option (list Z) :=
  match evs with
  | [] => Some s
  | e :: r => match mstep s e with Some s' => mrun s' r | None => None end
  end.

Lemma mrun_app s a b : mrun s (a ++ b) = match mrun s a with Some s' => mrun s' b | None => None end.
Proof.
  revert s. induction a as [|e a IH]; intros s; cbn; [reflexivity|].
  destruct (mstep s e); [apply IH|reflexivity].
Qed.

Lemma hist_mrun evs o : hist evs o -> forall s, mrun s evs = Some (o ++ s).
Proof.
  induction 1 as [|v w evs o Hw IHw He IHe|v evs o He IHe]; intros s.
  - reflexivity.
  - cbn [mrun mstep]. rewrite mrun_app, IHw. cbn [app mrun mstep]. rewrite Z.eqb_refl. apply IHe.
  - cbn [mrun mstep]. rewrite IHe, <- app_assoc. reflexivity.
Qed.

Lemma mrun_hist_gen n : forall evs s s', (length evs <= n)%nat -> mrun s evs = Some s' ->
  (exists o, s' = o ++ s /\ hist evs o) \/
  (exists v s0 e1 e2, s = v :: s0 /\ evs = e1 ++ Leave v :: e2 /\ hist e1 [] /\ mrun s0 e2 = Some s').
Proof.
  induction n as [|n IH]; intros evs s s' Hlen H.
  - destruct evs; [|cbn in Hlen; lia]. cbn in H. inversion H; subst. left. exists []. split; [reflexivity|constructor].
  - destruct evs as [|[v|v] r].
    + cbn in H. inversion H; subst. left. exists []. split; [reflexivity|constructor].
    + cbn [mrun mstep] in H. cbn in Hlen.
      destruct (IH r (v :: s) s' ltac:(lia) H) as [(o & -> & Ho) | (v' & s0 & e1 & e2 & Hs & -> & He1 & Hrun)].
      * left. exists (o ++ [v]). split; [rewrite <- app_assoc; reflexivity|constructor; exact Ho].
      * inversion Hs; subst v' s0. clear Hs.
        assert (Hl2 : (length e2 <= n)%nat) by (rewrite app_length in Hlen; cbn in Hlen; lia).
        destruct (IH e2 s s' Hl2 Hrun) as [(o & -> & Ho) | (v2 & s1 & f1 & f2 & -> & -> & Hf1 & Hrun2)].
        -- left. exists o. split; [reflexivity|constructor; assumption].
        -- right. exists v2, s1, (Enter v :: e1 ++ Leave v :: f1), f2. repeat split.
           ++ cbn. rewrite <- app_assoc. reflexivity.
           ++ constructor; assumption.
           ++ exact Hrun2.
    + cbn [mrun mstep] in H. destruct s as [|x s0]; [discriminate|].
      destruct (x =? v) eqn:E; [|discriminate]. apply Z.eqb_eq in E. subst x.
      right. exists v, s0, [], r. repeat split; [constructor|exact H].
Qed.

Theorem mrun_iff_hist evs o : mrun [] evs = Some o <-> hist evs o.
Proof.
  split.
  - intros H. destruct (mrun_hist_gen (length evs) evs [] o (le_n _) H) as [(o' & -> & Ho) | (v & s0 & _ & _ & Hs & _)].
    + rewrite app_nil_r. exact Ho.
    + discriminate.
  - intros H. rewrite (hist_mrun evs o H []). rewrite app_nil_r. reflexivity.
Qed.

(* ---------------------------------------------------------------- with the duplicate and depth checks *)

Definition cstep (dup : bool) (s : list Z) (e : sev) : option (list Z) :=
  match e with
  | Enter v =>
    if negb dup && value_eqb (hd_error s) (Some v) then None
    else if Nat.leb MAX_CHAN_STACK (length s) then None
    else Some (v :: s)
  | Leave v => match s with x :: s' => if x =? v then Some s' else None | [] => None end
  end.

Fixpoint crun (dup : bool) (s : list Z) (evs : list sev) : option (list Z) :=
  match evs with
  | [] => Some s
  | e :: r => match cstep dup s e with Some s' => crun dup s' r | None => None end
  end.

Lemma crun_app dup s a b : crun dup s (a ++ b) = match crun dup s a with Some s' => crun dup s' b | None => None end.
Proof.
  revert s. induction a as [|e a IH]; intros s; cbn; [reflexivity|].
  destruct (cstep dup s e); [apply IH|reflexivity].
Qed.

Lemma cstep_mstep dup s e s' : cstep dup s e = Some s' -> mstep s e = Some s'.
Proof.
  destruct e as [v|v]; cbn [cstep mstep]; [|auto].
  destruct (negb dup && value_eqb (hd_error s) (Some v)); [discriminate|].
  destruct (Nat.leb MAX_CHAN_STACK (length s)); [discriminate|auto].
Qed.

Lemma crun_mrun dup s evs s' : crun dup s evs = Some s' -> mrun s evs = Some s'.
Proof.
  revert s. induction evs as [|e r IH]; intros s H; cbn [crun mrun] in *; [exact H|].
  destruct (cstep dup s e) as [s1|] eqn:E; [|discriminate].
  rewrite (cstep_mstep _ _ _ _ E). apply IH. exact H.
Qed.

Lemma hd_error_value (s : list Z) v : value_eqb (hd_error s) (Some v) = true <-> hd_error s = Some v.
Proof. exact (value_eqb_eq (hd_error s) (Some v)). Qed.

Theorem crun_iff dup evs o :
  crun dup [] evs = Some o <-> (hist evs o /\ entries_ok dup evs).
Proof.
  split.
  - intros H. split; [apply mrun_iff_hist; eapply crun_mrun; eauto|].
    intros p v q o' -> Hp.
    apply mrun_iff_hist in Hp.
    rewrite crun_app in H.
    destruct (crun dup [] p) as [s|] eqn:Ep; [|discriminate].
    pose proof (crun_mrun _ _ _ _ Ep) as Hm. rewrite Hp in Hm. inversion Hm; subst s. clear Hm.
    cbn [crun cstep] in H.
    destruct (negb dup && value_eqb (hd_error o') (Some v)) eqn:E1; [discriminate|].
    destruct (Nat.leb MAX_CHAN_STACK (length o')) eqn:E2; [discriminate|].
    split.
    + destruct dup; [left; reflexivity|right]. cbn in E1. intros Hh. apply hd_error_value in Hh. congruence.
    + apply Nat.leb_gt in E2. exact E2.
  - intros [Hh Hok].
    apply mrun_iff_hist in Hh.
    (* generalise over the already processed prefix *)
    assert (G : forall rest p s, evs = p ++ rest -> mrun [] p = Some s -> mrun s rest = Some o -> crun dup s rest = Some o).
    { induction rest as [|e rest IH]; intros p s Hev Hp Hr; cbn [crun mrun] in *; [exact Hr|].
      destruct (mstep s e) as [s1|] eqn:Em; [|discriminate].
      assert (Hc : cstep dup s e = Some s1).
      { destruct e as [v|v]; [|exact Em]. cbn [mstep] in Em. inversion Em; subst s1. cbn [cstep].
        destruct (Hok p v rest s Hev (proj1 (mrun_iff_hist p s) Hp)) as [Hd Hl].
        assert (E1 : negb dup && value_eqb (hd_error s) (Some v) = false).
        { destruct Hd as [->|Hd]; [reflexivity|]. destruct dup; [reflexivity|]. cbn.
          destruct (value_eqb (hd_error s) (Some v)) eqn:E; [apply hd_error_value in E; contradiction|reflexivity]. }
        rewrite E1. apply Nat.leb_gt in Hl. rewrite Hl. reflexivity. }
      rewrite Hc. apply (IH (p ++ [e]) s1).
      - rewrite <- app_assoc. exact Hev.
      - rewrite mrun_app, Hp. cbn [mrun]. rewrite Em. reflexivity.
      - exact Hr. }
    apply (G evs [] []); [reflexivity|reflexivity|exact Hh].
Qed.

(* ---------------------------------------------------------------- the emulator's channel operations *)

Lemma sev_apply_cstep sp r e :
  cs_stack sp = true ->
  match sev_apply sp r e with
  | Ok (r', dirty) => cstep (cs_dup sp) (r_stk r) e = Some (r_stk r') /\ r_val r' = r_val r /\ dirty = true
  | Err _ => cstep (cs_dup sp) (r_stk r) e = None
  end.
Proof.
  intros Hs. destruct e as [v|v]; cbn [sev_apply raw_apply cstep]; rewrite Hs; cbn [negb].
  - unfold raw_read. rewrite Hs.
    destruct (r_stk r) as [|x s0]; cbn [hd_error length].
    + destruct (negb (cs_dup sp) && value_eqb None (Some v)); [reflexivity|].
      destruct (Nat.leb MAX_CHAN_STACK 0); [reflexivity|]. cbn [r_stk r_val]. auto.
    + destruct (negb (cs_dup sp) && value_eqb (Some x) (Some v)); [reflexivity|].
      destruct (Nat.leb MAX_CHAN_STACK (S (length s0))); [reflexivity|]. cbn [r_stk r_val]. auto.
  - destruct (r_stk r) as [|x s]; [reflexivity|]. destruct (x =? v); [cbn [r_stk r_val]; auto|reflexivity].
Qed.

Theorem chan_run_crun sp r evs :
  cs_stack sp = true ->
  match chan_run sp r evs with
  | Some r' => crun (cs_dup sp) (r_stk r) evs = Some (r_stk r') /\ r_val r' = r_val r
  | None => crun (cs_dup sp) (r_stk r) evs = None
  end.
Proof.
  intros Hs. revert r. induction evs as [|e rest IH]; intros r; cbn [chan_run crun]; [auto|].
  pose proof (sev_apply_cstep sp r e Hs) as K.
  destruct (sev_apply sp r e) as [[r1 d]|].
  - destruct K as (K1 & K2 & _). rewrite K1. specialize (IH r1). destruct (chan_run sp r1 rest).
    + destruct IH as [I1 I2]. split; [exact I1|congruence].
    + exact IH.
  - rewrite K. reflexivity.
Qed.

(* the property, for one stack channel starting empty *)
Theorem stack_channel_iff sp evs :
  cs_stack sp = true ->
  (exists r', chan_run sp (empty_stack_chan sp) evs = Some r') <->
  (exists o, hist evs o /\ entries_ok (cs_dup sp) evs).
Proof.
  intros Hs. pose proof (chan_run_crun sp (empty_stack_chan sp) evs Hs) as K. cbn [empty_stack_chan r_stk] in K.
  split.
  - intros [r' Hr]. rewrite Hr in K. destruct K as [K _]. exists (r_stk r'). apply crun_iff. exact K.
  - intros [o Ho]. apply crun_iff in Ho. destruct (chan_run sp (empty_stack_chan sp) evs) as [r'|].
    + exists r'. reflexivity.
    + rewrite K in Ho. discriminate.
Qed.

(* what the channel holds after an accepted history: the open regions, innermost on top; the value
   it shows (raw_read) is the innermost open region, nothing when none is open *)
Theorem stack_channel_top sp evs r' :
  cs_stack sp = true ->
  chan_run sp (empty_stack_chan sp) evs = Some r' ->
  hist evs (r_stk r') /\ raw_read sp r' = hd_error (r_stk r').
Proof.
  intros Hs Hr. pose proof (chan_run_crun sp (empty_stack_chan sp) evs Hs) as K. rewrite Hr in K.
  destruct K as [K _]. cbn in K. apply crun_iff in K. split; [apply K|].
  unfold raw_read. rewrite Hs. destruct (r_stk r'); reflexivity.
Qed.

(* acceptance is prefix closed, and the statement above holds at every instant of an accepted history:
   after every prefix the channel holds the regions that prefix leaves open and shows the innermost one *)
Lemma chan_run_app sp r p q :
  chan_run sp r (p ++ q) =
  match chan_run sp r p with Some rp => chan_run sp rp q | None => None end.
Proof.
  revert r. induction p as [|e p IH]; intros r; cbn [app chan_run]; [reflexivity|].
  destruct (sev_apply sp r e) as [[r1 d]|err]; [apply IH|reflexivity].
Qed.

Theorem stack_channel_prefix_closed sp p q r' :
  chan_run sp (empty_stack_chan sp) (p ++ q) = Some r' ->
  exists rp, chan_run sp (empty_stack_chan sp) p = Some rp /\ chan_run sp rp q = Some r'.
Proof.
  rewrite chan_run_app. destruct (chan_run sp (empty_stack_chan sp) p) as [rp|]; [|discriminate].
  intros H. exists rp. split; [reflexivity|exact H].
Qed.

Theorem stack_channel_every_instant sp p q r' :
  cs_stack sp = true ->
  chan_run sp (empty_stack_chan sp) (p ++ q) = Some r' ->
  exists rp, chan_run sp (empty_stack_chan sp) p = Some rp /\
             hist p (r_stk rp) /\ raw_read sp rp = hd_error (r_stk rp).
Proof.
  intros Hs H. destruct (stack_channel_prefix_closed sp p q r' H) as (rp & Hp & _).
  exists rp. split; [exact Hp|]. apply stack_channel_top; assumption.
Qed.

(* once a history is refused no continuation is accepted *)
Theorem stack_channel_refusal_is_final sp p q :
  chan_run sp (empty_stack_chan sp) p = None -> chan_run sp (empty_stack_chan sp) (p ++ q) = None.
Proof. intros H. rewrite chan_run_app, H. reflexivity. Qed.

(* ---------------------------------------------------------------- inside the emulator core *)
From OV Require Import Proofs.EmuCoreProofs.

(* a table-driven event on channel k of thread who is exactly raw_apply on that channel *)
Lemma chan_step_spec sx st who k a v :
  (who < length (threads st))%nat -> (k < length (s_chans sx))%nat ->
  (k < length (t_raw (nth who (threads st) dummy_thread)))%nat ->
  match chan_step sx st who k a v with
  | Ok (st', d) => exists b, raw_apply (spec_of sx k) (raw_of st who k) a v = Ok (raw_of st' who k, b) /\
                             d = (if b then [(who, k)] else [])
  | Err e => raw_apply (spec_of sx k) (raw_of st who k) a v = Err e
  end.
Proof.
  intros Hw Hk Hl. unfold chan_step, nth_opt.
  destruct (nth_error (threads st) who) as [th|] eqn:Hn; [|apply nth_error_None in Hn; lia].
  destruct (nth_error (s_chans sx) k) as [sp|] eqn:Hs; [|apply nth_error_None in Hs; lia].
  assert (Esp : spec_of sx k = sp) by (unfold spec_of; apply nth_error_nth; exact Hs).
  assert (Eth : nth who (threads st) dummy_thread = th) by (apply nth_error_nth; exact Hn).
  assert (Eraw : raw_of st who k = nth k (t_raw th) empty_raw) by (unfold raw_of; rewrite Eth; reflexivity).
  rewrite Eth in Hl. rewrite Esp, Eraw.
  destruct (raw_apply sp (nth k (t_raw th) empty_raw) a v) as [[r' d]|e] eqn:Ea; [|reflexivity].
  exists d. split; [|reflexivity].
  unfold raw_of, set_thread. cbn [threads]. rewrite nth_update_same by exact Hw. cbn [t_raw with_raw].
  rewrite nth_update_same by exact Hl. reflexivity.
Qed.

(* the state requirement of the model is checked before the channel is touched *)
Lemma need_refused sx st who th k a v need :
  nth_error (threads st) who = Some th ->
  ((need = 1 /\ is_running (t_state th) = false) \/
   (need = 2 /\ is_active (t_state th) = false) \/
   (need = 4 /\ (is_active (t_state th) = false \/ t_ooc th = true))) ->
  exists e, core_step sx st who (EvChan k a v need) = Err e.
Proof.
  intros Hn H. unfold core_step, nth_opt. rewrite Hn.
  destruct H as [[-> Hr] | [[-> Ha] | [-> Ho]]].
  - rewrite Hr. cbn. eexists. reflexivity.
  - cbn [Z.eqb andb negb]. rewrite Ha. cbn. eexists. reflexivity.
  - cbn [Z.eqb andb negb]. destruct Ho as [Ha|Ho].
    + rewrite Ha. cbn. eexists. reflexivity.
    + rewrite Ho. rewrite orb_true_r. eexists. reflexivity.
Qed.

(* lint mode: a trace that ends with an open region on a linted channel is rejected *)
Lemma lint_rejects sx lintchans evs st tl :
  run_from sx (init sx) evs = Ok (st, tl) -> s_lint sx = true -> lint_ok sx lintchans st = false ->
  exists e, run sx lintchans evs = Err e.
Proof.
  intros H Hl Ho. unfold run. rewrite H. destruct (negb (all_dead st)); [eexists; reflexivity|].
  rewrite Hl, Ho. cbn. eexists. reflexivity.
Qed.
