(* The task event handlers generated from src/emu/nosv/event.c and src/emu/nanos6/event.c (Gen/TaskNosv_gen.v,
   Gen/TaskNanos6_gen.v, unit taskev) compute EmuCoreDefs.task_event / task_create. *)
From Coq Require Import ZArith List Bool Lia.
From OV Require Import Base.CInt Emu.EmuCoreDefs Emu.DecodeDefs Emu.TaskEvPre.
From OV Require Emu.ChanPre Emu.GuardsPre Gen.Guards_gen Proofs.GuardsProofs Proofs.GuardsTaskProofs Proofs.EmuCoreProofs.
From OV Require Gen.TaskNosv_gen Gen.TaskNanos6_gen.
Import ListNotations.
Local Open Scope Z_scope.

Ltac munf := unfold need, ite, bind_, bind, eval, ret, fail, exec.

Definition mk (who : nat) (m v : Z) (p : list Z) : emu :=
  {| GuardsPre.e_who := who; GuardsPre.e_m := m; GuardsPre.e_c := 84; GuardsPre.e_v := v; GuardsPre.e_payload := p |}.
Definition W (s : state) (d : list (nat * nat)) : tw := {| w_st := s; w_dirty := d |}.

(* an unit-valued computation whose outcome is that of r *)
Lemma outcome_run (m : GuardsPre.M unit) sx s r :
  GuardsPre.outcome_of (GuardsPre.exec m sx s) = GuardsPre.outcome_of r ->
  match r with
  | Ok s1 => m sx s = Ok (tt, s1)
  | Err e => exists e', m sx s = Err e' /\ (e <> GuardsPre.E_TRAP -> e' <> GuardsPre.E_TRAP)
  end.
Proof.
  unfold GuardsPre.exec, GuardsPre.outcome_of. destruct (m sx s) as [[[] s']|e']; destruct r as [s1|e]; intros H.
  - inversion H; reflexivity.
  - destruct (Nat.eqb e GuardsPre.E_TRAP); discriminate.
  - destruct (Nat.eqb e' GuardsPre.E_TRAP); discriminate.
  - exists e'. split; [reflexivity|]. intros Hn Heq. subst e'.
    rewrite Nat.eqb_refl in H. apply Nat.eqb_neq in Hn. rewrite Hn in H. discriminate.
Qed.

(* task_op refuses with E_TASK only *)
Lemma task_op_err st who th loom pid mdl kind tid bid e :
  task_op st who th loom pid mdl kind tid bid = Err e -> e = E_TASK.
Proof.
  unfold task_op.
  repeat match goal with
  | |- context [match ?x with _ => _ end] => destruct x
  | |- context [if ?x then _ else _] => destruct x
  end; intros H; inversion H; reflexivity.
Qed.


(* x = f(..); if (x != 0) return -1; *)
Lemma status_wrap (m : M unit) sx w :
  bind (status m) (fun r => ite (fun _ _ => negb (r =? 0)) (fail E_FAIL) (ret tt)) sx w =
  match m sx w with
  | Ok (_, w') => Ok (tt, w')
  | Err e => if Nat.eqb e E_TRAP then Err e else Err E_FAIL
  end.
Proof.
  unfold bind, status, ite, fail, ret. destruct (m sx w) as [[[] w']|e]; [reflexivity|].
  destruct (Nat.eqb e E_TRAP); reflexivity.
Qed.

(* the part of task_event after the subsystem channel: writes, set_chans, enforce_task_rules (a copy of its text;
   task_event_split checks the copy) *)
Definition m_tail (sx : static) (who : nat) (cfg : taskcfg) (ti : thread_info) (kind : Z) (prev next : option (task * body))
  (st2 : state) (d1 : list (nat * nat)) : result (state * list (nat * nat)) :=
  let was := match prev with Some _ => true | None => false end in
  let now := match next with Some _ => true | None => false end in
  let nested := ((kind =? 120) && was) || ((kind =? 101) && now) in
  let fields := filter (fun '(f, _) => match f with FRank => 0 <=? ti_rank ti | _ => true end) (tc_chans cfg) in
  let writes : result (list (nat * value)) :=
    if nested then
      match prev, next with
      | Some (tp, bp), Some (tn, bn) =>
        if (tk_id tp =? tk_id tn) && (if tc_bodyrule cfg then b_id bp =? b_id bn else true) then Err E_TASK
        else if (tk_id tn =? 0) || (tk_gid tn =? 0) then Err E_TASK
        else Ok (map (fun '(f, k) => (k, field_value ti tn bn f)) fields)
      | _, _ => Err E_TASK
      end
    else if (kind =? 120) || (kind =? 114) then
      match next with
      | Some (tn, bn) =>
        if (tk_id tn =? 0) || (tk_gid tn =? 0) || (tc_appid_checked cfg && (ti_appid ti <=? 0)) then Err E_TASK
        else Ok (map (fun '(f, k) => (k, field_value ti tn bn f)) fields)
      | None => Err E_TASK
      end
    else Ok (map (fun '(f, k) => (k, None)) fields) in
  match writes with
  | Err e => Err e
  | Ok ws =>
    match set_chans sx st2 who ws d1 with
    | Err e => Err e
    | Ok (st3, d) =>
      if kind =? 120 then
        match raw_read (spec_of sx (tc_ss cfg)) (raw_of st3 who (tc_ss cfg)) with
        | Some v => if v =? tc_ssval cfg then Ok (st3, d) else Err E_TASK
        | None => Ok (st3, d)
        end
      else Ok (st3, d)
    end
  end.

Lemma task_event_split sx st who cfg mdl kind tid rawbid :
  task_event sx st who cfg mdl kind tid rawbid =
  match nth_opt (threads st) who, nth_opt (s_threads sx) who with
  | Some th, Some ti =>
    let loom := ti_loom ti in let pid := ti_pid ti in
    match find_task st loom pid mdl tid with
    | None => Err E_TASK
    | Some (_, tk0) =>
      let obid := if tc_bodyrule cfg then
                    (if tk_par tk0 then (if rawbid =? 0 then None else Some rawbid)
                     else (if rawbid =? 0 then Some 1 else None))
                  else Some 1 in
      match obid with
      | None => Err E_TASK
      | Some bid =>
        let prev := running_top st loom pid th mdl in
        match task_op st who th loom pid mdl kind tid bid with
        | Err e => Err e
        | Ok st1 =>
          let th1 := nth who (threads st1) dummy_thread in
          let next := running_top st1 loom pid th1 mdl in
          let ssr := if kind =? 120 then chan_step sx st1 who (tc_ss cfg) PUSH (Some (tc_ssval cfg))
                     else if kind =? 101 then chan_step sx st1 who (tc_ss cfg) POP (Some (tc_ssval cfg))
                     else Ok (st1, []) in
          match ssr with
          | Err e => Err e
          | Ok (st2, d1) => m_tail sx who cfg ti kind prev next st2 d1
          end
        end
      end
    end
  | _, _ => Err E_UNKNOWN
  end.
Proof. reflexivity. Qed.

Lemma geb_leb x : (x >=? 0) = (0 <=? x).
Proof. apply Z.geb_leb. Qed.


(* what an accepted task_op does to the task table: one body of the task found by its id is replaced in place (same
   body id), or a body with that id is appended when there was none *)
Definition new_bodies (tk : task) (obi : option nat) (b' : body) : list body :=
  match obi with Some i => update (tk_bodies tk) i b' | None => tk_bodies tk ++ [b'] end.

Lemma task_op_shape st who th loom pid mdl kind tid bid s1 :
  task_op st who th loom pid mdl kind tid bid = Ok s1 ->
  exists ti tk obi b', find_task st loom pid mdl tid = Some (ti, tk) /\
    tasks s1 = update (tasks st) ti (set_bodies tk (new_bodies tk obi b')) /\ b_id b' = bid /\
    match obi with Some i => exists b, find_body tk bid = Some (i, b) | None => find_body tk bid = None end.
Proof.
  unfold task_op. destruct (find_task st loom pid mdl tid) as [[ti tk]|]; [|discriminate].
  intros H. exists ti, tk. revert H.
  destruct (find_body tk bid) as [[bi b]|] eqn:Fb;
  repeat match goal with
  | |- context [if ?c then _ else _] => destruct c
  | |- context [match ?x with _ => _ end] => destruct x
  end; intros H; inversion H; subst; clear H;
  first [ exists (Some bi); eexists; split; [reflexivity|]; split; [reflexivity|]; split; [reflexivity|]; eexists; reflexivity
        | exists None; eexists; split; [reflexivity|]; split; [reflexivity|]; split; reflexivity ].
Qed.


(* an accepted execute / resume leaves its body running, on top of the stack of its model on the current thread *)
Lemma task_op_run st who th loom pid mdl kind tid bid s1 :
  nth_error (threads st) who = Some th -> kind = 120 \/ kind = 114 ->
  task_op st who th loom pid mdl kind tid bid = Ok s1 ->
  exists ti tk obi b', find_task st loom pid mdl tid = Some (ti, tk) /\
    tasks s1 = update (tasks st) ti (set_bodies tk (new_bodies tk obi b')) /\ b_id b' = bid /\
    match obi with Some i => exists b, find_body tk bid = Some (i, b) | None => find_body tk bid = None end /\
    b_state b' = BRunning /\
    exists m' r, model_stack (nth who (threads s1) dummy_thread) mdl = (m', tid, bid) :: r.
Proof.
  intros Hth Hk. unfold task_op. destruct (find_task st loom pid mdl tid) as [[ti tk]|]; [|discriminate].
  assert (Hlt : (who < length (threads st))%nat) by (apply nth_error_Some; congruence).
  intros H. exists ti, tk. revert H.
  destruct Hk as [ -> | -> ]; cbn [Z.eqb Pos.eqb].
  - (* execute: the entry is pushed *)
    assert (Top : forall s', exists m' r, model_stack (nth who (threads (set_thread s' who (with_bstack th ((mdl, tid, bid) :: t_bstack th)))) dummy_thread) mdl = (m', tid, bid) :: r
                             \/ (length (threads s') <> length (threads st))).
    { intros s'. destruct (Nat.eq_dec (length (threads s')) (length (threads st))) as [El|Nl]; [|exists mdl, []; right; exact Nl].
      exists mdl. eexists. left. unfold set_thread; cbn [threads].
      rewrite (EmuCoreProofs.nth_update_same _ _ _ _) by lia. unfold model_stack, with_bstack; cbn [t_bstack filter]. rewrite Z.eqb_refl. reflexivity. }
    destruct (find_body tk bid) as [[bi b]|] eqn:Fb;
    repeat match goal with
    | |- context [if ?c then _ else _] => destruct c
    | |- context [match ?x with _ => _ end] => destruct x
    end; intros H; inversion H; subst; clear H;
    (first [ exists (Some bi) | exists None ]); eexists; (split; [reflexivity|]); (split; [reflexivity|]); (split; [reflexivity|]);
    (split; [first [eexists; reflexivity | reflexivity]|]); (split; [reflexivity|]);
    match goal with |- context [set_thread ?s' _ _] => destruct (Top s') as (m' & r & [T|T]); [exists m', r; exact T| exfalso; apply T; unfold store_body, set_tasks; reflexivity] end.
  - (* resume: the entry is the top already *)
    destruct (find_body tk bid) as [[bi b]|] eqn:Fb; [|discriminate].
    destruct (negb (bstate_eqb (b_state b) BPaused)); [discriminate|].
    destruct (negb _); [discriminate|].
    destruct (negb (is_top th mdl tid bid)) eqn:Et; [discriminate|].
    intros H; inversion H; subst; clear H.
    exists (Some bi). eexists. split; [reflexivity|]. split; [reflexivity|]. split; [reflexivity|]. split; [eexists; reflexivity|]. split; [reflexivity|].
    unfold store_body, set_tasks; cbn [threads]. rewrite (GuardsProofs.nth_of_nth_error _ _ _ _ Hth).
    apply negb_false_iff in Et. unfold is_top in Et. destruct (model_stack th mdl) as [|[[m' t] b0] r]; [discriminate|].
    apply andb_true_iff in Et as [A B]. apply Z.eqb_eq in A, B. subst. exists m', r. reflexivity.
Qed.

Section Ev.
Variables (sx : static) (cs : list chanspec) (who : nat) (me : thread_info).
Hypothesis Hme : nth_error (s_threads sx) who = Some me.
Let E := {| te_sx := sx; te_cs := cs |}.
Let loom := ti_loom me.
Let pid := ti_pid me.

Lemma tinfo_me : tinfo E who = me.
Proof. unfold tinfo. cbn [te_sx E]. apply GuardsProofs.nth_of_nth_error. exact Hme. Qed.

(* the state part of the model's task_event: lookup, body id rule, task_op *)
Definition m_state (st : state) (th : thread) (rule : bool) (mdl kind tid rawbid : Z) : result state :=
  match find_task st loom pid mdl tid with
  | None => Err E_TASK
  | Some (_, tk0) =>
    let obid := if rule then (if tk_par tk0 then (if rawbid =? 0 then None else Some rawbid)
                               else (if rawbid =? 0 then Some 1 else None))
                else Some 1 in
    match obid with
    | None => Err E_TASK
    | Some bid => task_op st who th loom pid mdl kind tid bid
    end
  end.

Definition kinds (v : Z) : Prop := v = 120 \/ v = 101 \/ v = 112 \/ v = 114.

Lemma lifted_op (g : GuardsPre.M unit) st d r :
  GuardsPre.outcome_of (GuardsPre.exec g sx st) = GuardsPre.outcome_of r ->
  (forall e, r = Err e -> e = E_TASK) ->
  match r with
  | Ok s1 => bind (status (lift g)) (fun ret_ => ite (fun _ _ => negb (ret_ =? 0)) (fail E_FAIL) (ret tt)) E (W st d) = Ok (tt, W s1 d)
  | Err _ => exists e', bind (status (lift g)) (fun ret_ => ite (fun _ _ => negb (ret_ =? 0)) (fail E_FAIL) (ret tt)) E (W st d) = Err e' /\ e' <> E_TRAP
  end.
Proof.
  intros Ho He. pose proof (outcome_run g sx st r Ho) as K.
  unfold bind, status, lift, ite, fail, ret. cbn [te_sx E w_st w_dirty W].
  destruct r as [s1|e].
  - rewrite K. reflexivity.
  - destruct K as (e' & K & Kn). rewrite K.
    assert (Hn : e' <> E_TRAP) by (apply Kn; rewrite (He e eq_refl); discriminate).
    apply Nat.eqb_neq in Hn. rewrite Hn. cbn. exists E_FAIL. split; [reflexivity|discriminate].
Qed.

Lemma nosv_state_eq st th v p d : nth_error (threads st) who = Some th -> kinds v -> (8 <= length p)%nat ->
  match m_state st th true M_NOSV v (le_u32 p 0) (le_u32 p 4) with
  | Ok s1 => TaskNosv_gen.update_task_state (mk who M_NOSV v p) E (W st d) = Ok (tt, W s1 d)
  | Err _ => exists e', TaskNosv_gen.update_task_state (mk who M_NOSV v p) E (W st d) = Err e' /\ e' <> E_TRAP
  end.
Proof.
  intros Hth Hv Hp.
  pose proof (fun bid => GuardsTaskProofs.task_ops_eq sx st who th me M_NOSV (le_u32 p 0) bid Hth Hme) as OPS.
  unfold m_state, TaskNosv_gen.update_task_state. munf.
  unfold get_emu_ev_payload_size, get_emu_ev_payload, get_emu_ev_payload_u32, get_emu_thread, get_emu_proc, get_emu_ev_v.
  cbn [mk GuardsPre.e_payload GuardsPre.e_who GuardsPre.e_v].
  assert (H4 : (Z.of_nat (length p) <? cast_uint64 4) = false) by (apply Z.ltb_ge; change (cast_uint64 4) with 4; lia).
  assert (H8 : (Z.of_nat (length p) <? cast_uint64 8) = false) by (apply Z.ltb_ge; change (cast_uint64 8) with 8; lia).
  rewrite H4, H8. destruct p as [|p0 pr]; [cbn in Hp; lia|]. cbn [is_null negb].
  cbn [addr_thread_ext addr_proc_ext extend_get cast_ptr_ext_ptr_mthread cast_ptr_ext_ptr_mproc is_null negb
       addr_nosv_proc_task_info addr_nosv_thread_task_stack get_task_info_tasks ix Z.to_nat nth].
  unfold task_find. rewrite tinfo_me. fold loom pid. cbn [w_st W].
  change 86 with M_NOSV.
  destruct (find_task st loom pid M_NOSV (le_u32 (p0 :: pr) 0)) as [[ti tk]|] eqn:Ft; cbn [is_null negb].
  2:{ exists E_FAIL. split; [reflexivity|discriminate]. }
  destruct (GuardsTaskProofs.find_task_spec _ _ _ _ _ _ _ Ft) as (Hn & Hid & Hmd).
  unfold TaskNosv_gen.task_is_parallel, get_task_flags, GuardsPre.get_task_flags. cbn [gtask w_st W].
  rewrite (GuardsTaskProofs.tsk_of _ _ _ Hn).
  change TaskNosv_gen.c_TASK_FLAG_PARALLEL with Guards_gen.c_TASK_FLAG_PARALLEL. rewrite GuardsTaskProofs.flag_par.
  change (cast_uint32 0) with 0. change (Pos.to_nat 1) with 1%nat. cbn [nth].
  set (rawbid := le_u32 (p0 :: pr) 4).
  assert (TP : GuardsTaskProofs.task_ptr me M_NOSV (le_u32 (p0 :: pr) 0) st = Some ti).
  { unfold GuardsTaskProofs.task_ptr. fold loom pid. rewrite Ft. reflexivity. }
  cbv zeta in OPS. rewrite TP in OPS. fold loom pid in OPS.
  assert (Fin : forall bid, bid <> 0 ->
    match task_op st who th loom pid M_NOSV v (le_u32 (p0 :: pr) 0) bid with
    | Ok s1 =>
      (if v =? 120 then bind (status (task_execute (Some (who, M_NOSV)) (Some (TaskAt ti)) bid)) (fun ret_ => ite (fun _ _ => negb (ret_ =? 0)) (fail E_FAIL) (ret tt))
       else if v =? 101 then bind (status (task_end (Some (who, M_NOSV)) (Some (TaskAt ti)) bid)) (fun ret_ => ite (fun _ _ => negb (ret_ =? 0)) (fail E_FAIL) (ret tt))
       else if v =? 112 then bind (status (task_pause (Some (who, M_NOSV)) (Some (TaskAt ti)) bid)) (fun ret_ => ite (fun _ _ => negb (ret_ =? 0)) (fail E_FAIL) (ret tt))
       else if v =? 114 then bind (status (task_resume (Some (who, M_NOSV)) (Some (TaskAt ti)) bid)) (fun ret_ => ite (fun _ _ => negb (ret_ =? 0)) (fail E_FAIL) (ret tt))
       else fail E_FAIL) E (W st d) = Ok (tt, W s1 d)
    | Err _ => exists e',
      (if v =? 120 then bind (status (task_execute (Some (who, M_NOSV)) (Some (TaskAt ti)) bid)) (fun ret_ => ite (fun _ _ => negb (ret_ =? 0)) (fail E_FAIL) (ret tt))
       else if v =? 101 then bind (status (task_end (Some (who, M_NOSV)) (Some (TaskAt ti)) bid)) (fun ret_ => ite (fun _ _ => negb (ret_ =? 0)) (fail E_FAIL) (ret tt))
       else if v =? 112 then bind (status (task_pause (Some (who, M_NOSV)) (Some (TaskAt ti)) bid)) (fun ret_ => ite (fun _ _ => negb (ret_ =? 0)) (fail E_FAIL) (ret tt))
       else if v =? 114 then bind (status (task_resume (Some (who, M_NOSV)) (Some (TaskAt ti)) bid)) (fun ret_ => ite (fun _ _ => negb (ret_ =? 0)) (fail E_FAIL) (ret tt))
       else fail E_FAIL) E (W st d) = Err e' /\ e' <> E_TRAP
    end).
  { intros bid Hb. specialize (OPS bid). destruct OPS as (O1 & O2 & O3 & O4). specialize (O1 Hb).
    unfold kinds in Hv; destruct Hv as [ -> | [ -> | [ -> | -> ] ] ]; cbn [Z.eqb Pos.eqb]; unfold task_execute, task_end, task_pause, task_resume; cbn [gtask];
      apply lifted_op; try assumption; intros e He; exact (task_op_err _ _ _ _ _ _ _ _ _ _ He). }
  destruct (tk_par tk); cbn [negb].
  - destruct (rawbid =? 0) eqn:Eb.
    + exists E_FAIL. split; [reflexivity|discriminate].
    + apply Z.eqb_neq in Eb. exact (Fin rawbid Eb).
  - destruct (rawbid =? 0) eqn:Eb; cbn [negb].
    + change (cast_uint32 1) with 1. apply (Fin 1). discriminate.
    + exists E_FAIL. split; [reflexivity|discriminate].
Qed.


(* ---- channel writes *)
Lemma chan_step_tasks s k a v s' d : chan_step sx s who k a v = Ok (s', d) -> tasks s' = tasks s.
Proof.
  unfold chan_step. destruct (nth_opt (threads s) who); [|discriminate]. destruct (nth_opt (s_chans sx) k); [|discriminate].
  destruct (raw_apply _ _ _ _) as [[r' dd]|]; [|discriminate]. intros H; inversion H; subst. reflexivity.
Qed.

(* a sequence of chan_set on channels i of model m of the current thread, the values read in the current state *)
Fixpoint seqF (m : Z) (ws : list (Z * (tw -> value))) : M unit :=
  match ws with
  | [] => ret tt
  | (i, f) :: r => fun sx w =>
    match chan_step (te_sx sx) (w_st w) who (chan_of (te_cs sx) m i) SET (f w) with
    | Err _ => Err E_FAIL
    | Ok (s', d') => seqF m r sx (W s' (w_dirty w ++ d'))
    end
  end.

Definition inv (f : tw -> value) : Prop := forall w w', tasks (w_st w) = tasks (w_st w') -> f w = f w'.

Lemma seqF_eq m ws : Forall (fun x => inv (snd x)) ws -> forall s d,
  match set_chans sx s who (map (fun x => (chan_of cs m (fst x), snd x (W s d))) ws) d with
  | Ok (s3, d3) => seqF m ws E (W s d) = Ok (tt, W s3 d3) /\ tasks s3 = tasks s
  | Err _ => seqF m ws E (W s d) = Err E_FAIL
  end.
Proof.
  induction ws as [|[i f] r IH]; intros Hall s d; cbn [map set_chans seqF fst snd].
  - split; reflexivity.
  - cbn [te_sx te_cs E w_st w_dirty W]. inversion Hall as [|x l Hf Hr]; subst. cbn [snd] in Hf.
    destruct (chan_step sx s who (chan_of cs m i) SET (f (W s d))) as [[s' d']|e] eqn:Ec; [|reflexivity].
    pose proof (chan_step_tasks _ _ _ _ _ _ Ec) as Ht.
    specialize (IH Hr s' (d ++ d')).
    assert (Hm : map (fun x => (chan_of cs m (fst x), snd x (W s' (d ++ d')))) r = map (fun x => (chan_of cs m (fst x), snd x (W s d))) r).
    { apply map_ext_in. intros [i0 f0] Hin. cbn [fst snd]. f_equal.
      rewrite Forall_forall in Hr. apply (Hr (i0, f0) Hin). cbn [w_st W]. exact Ht. }
    rewrite Hm in IH.
    destruct (set_chans sx s' who (map (fun x => (chan_of cs m (fst x), snd x (W s d))) r) (d ++ d')) as [[s3 d3]|]; [|exact IH].
    destruct IH as [I1 I2]. split; [exact I1|congruence].
Qed.

(* ---- the running body *)
Lemma run_rel m s th' d : nth_error (threads s) who = Some th' ->
  match TaskNosv_gen.task_get_running E (W s d) (Some (who, m)) with
  | Some (i, j) => running_top s loom pid th' m = Some (GuardsPre.tsk s i, GuardsPre.bdy s i j)
  | None => running_top s loom pid th' m = None
  end.
Proof.
  intros Hth. exact (proj2 (GuardsTaskProofs.running_rel sx who me m Hme s th' Hth)).
Qed.

Lemma running_top_running s th' m tk b : running_top s loom pid th' m = Some (tk, b) -> b_state b = BRunning.
Proof.
  unfold running_top. destruct (model_stack th' m) as [|e r]; [discriminate|].
  destruct (body_state_of s loom pid e) as [[tk' b']|]; [|discriminate].
  destruct (bstate_eqb (b_state b') BRunning) eqn:Eb; [|discriminate]. intros H; inversion H; subst.
  destruct (b_state b); try discriminate; reflexivity.
Qed.

Lemma task_op_len st who' th loom' pid' mdl kind tid bid s1 :
  task_op st who' th loom' pid' mdl kind tid bid = Ok s1 -> length (threads s1) = length (threads st).
Proof.
  unfold task_op.
  repeat match goal with
  | |- context [match ?x with _ => _ end] => destruct x
  | |- context [if ?x then _ else _] => destruct x
  end; intros H; inversion H; subst; unfold store_body, set_thread, set_tasks; cbn [threads]; rewrite ?EmuCoreProofs.update_length; reflexivity.
Qed.


Ltac seq_steps :=
  unfold chan_set, chan_op, M_NOSV, M_NANOS6, E, W; rewrite ?Z.add_0_l;
  cbn [seqF app val_of value_null value_int64 ChanPre.vt ChanPre.vi ChanPre.vnull Z.eqb Pos.eqb te_sx te_cs w_st w_dirty];
  repeat (match goal with |- context [chan_step ?a ?b ?c ?d ?e ?f] => destruct (chan_step a b c d e f) as [[? ?]|] end;
          unfold W, ret; cbn [w_st w_dirty te_sx te_cs seqF]; try reflexivity).


(* ---- nOS-V: the three channel functions as sequences of writes *)
Definition rank_ws (v : value) : list (Z * (tw -> value)) :=
  if 0 <=? ti_rank (tinfo E who) then [(TaskNosv_gen.c_CH_RANK, fun _ => v)] else [].

Definition nosv_ws (body : ptr_body) (task : ptr_task) : list (Z * (tw -> value)) :=
  [(TaskNosv_gen.c_CH_BODYID, fun w => Some (get_body_id E w body)); (TaskNosv_gen.c_CH_TASKID, fun w => Some (get_task_id E w task));
   (TaskNosv_gen.c_CH_TYPE, fun w => Some (get_task_type_gid E w task)); (TaskNosv_gen.c_CH_APPID, fun w => Some (ti_appid (tinfo E who)))]
  ++ rank_ws (Some (ti_rank (tinfo E who) + 1)).
Definition nosv_null_ws : list (Z * (tw -> value)) :=
  [(TaskNosv_gen.c_CH_BODYID, fun _ => None); (TaskNosv_gen.c_CH_TASKID, fun _ => None);
   (TaskNosv_gen.c_CH_TYPE, fun _ => None); (TaskNosv_gen.c_CH_APPID, fun _ => None)] ++ rank_ws None.

Lemma nosv_stopped_gen v p w :
  TaskNosv_gen.chan_body_stopped (mk who M_NOSV v p) E w = seqF M_NOSV nosv_null_ws E w.
Proof.
  unfold TaskNosv_gen.chan_body_stopped, nosv_null_ws, rank_ws. munf.
  cbn [get_emu_thread get_emu_proc mk GuardsPre.e_who addr_thread_ext extend_get cast_ptr_ext_ptr_mthread is_null negb
       get_nosv_thread_m_ch m_ch addr_ptr_chan_at get_proc_rank].
  rewrite geb_leb. destruct (0 <=? ti_rank (tinfo E who)); seq_steps.
Qed.

Lemma nosv_running_gen v p i j w :
  TaskNosv_gen.chan_body_running (mk who M_NOSV v p) (Some (i, j)) E w =
  if (get_task_id E w (Some (TaskAt i)) =? 0) then Err E_FAIL
  else if (get_task_type_gid E w (Some (TaskAt i)) =? 0) then Err E_FAIL
  else if (ti_appid (tinfo E who) <=? 0) then Err E_FAIL
  else seqF M_NOSV (nosv_ws (Some (i, j)) (Some (TaskAt i))) E w.
Proof.
  unfold TaskNosv_gen.chan_body_running, nosv_ws, rank_ws. munf.
  unfold TaskNosv_gen.body_get_task_safe, TaskNosv_gen.body_get_task, TaskNosv_gen.body_get_id_safe, TaskNosv_gen.body_get_id.
  cbn [get_emu_thread get_emu_proc mk GuardsPre.e_who addr_thread_ext extend_get cast_ptr_ext_ptr_mthread is_null negb andb
       get_nosv_thread_m_ch m_ch addr_ptr_chan_at get_proc_rank get_proc_appid get_body_task get_task_type gtask].
  change (cast_uint32 0) with 0.
  destruct (get_task_id E w (Some (TaskAt i)) =? 0); [reflexivity|].
  destruct (get_task_type_gid E w (Some (TaskAt i)) =? 0); [reflexivity|].
  destruct (ti_appid (tinfo E who) <=? 0); [reflexivity|].
  rewrite geb_leb. destruct (0 <=? ti_rank (tinfo E who)); seq_steps.
Qed.

Lemma nosv_switch_gen v p bp i j w :
  TaskNosv_gen.chan_body_switch (mk who M_NOSV v p) bp (Some (i, j)) E w =
  if is_null bp then Err E_FAIL else if ptr_eqb_body bp (Some (i, j)) then Err E_FAIL
  else if (get_task_id E w (Some (TaskAt i)) =? 0) then Err E_FAIL
  else if (get_task_type_gid E w (Some (TaskAt i)) =? 0) then Err E_FAIL
  else seqF M_NOSV (nosv_ws (Some (i, j)) (Some (TaskAt i))) E w.
Proof.
  unfold TaskNosv_gen.chan_body_switch, nosv_ws, rank_ws. munf.
  unfold TaskNosv_gen.body_get_task_safe, TaskNosv_gen.body_get_task, TaskNosv_gen.body_get_id_safe, TaskNosv_gen.body_get_id.
  cbn [get_emu_thread get_emu_proc mk GuardsPre.e_who addr_thread_ext extend_get cast_ptr_ext_ptr_mthread is_null negb andb orb
       get_nosv_thread_m_ch m_ch addr_ptr_chan_at get_proc_rank get_proc_appid get_body_task get_task_type gtask].
  change (cast_uint32 0) with 0.
  destruct bp as [[pi pj]|]; cbn [is_null negb orb]; [|reflexivity].
  destruct (ptr_eqb_body (Some (pi, pj)) (Some (i, j))); [reflexivity|].
  destruct (get_task_id E w (Some (TaskAt i)) =? 0); [reflexivity|].
  destruct (get_task_type_gid E w (Some (TaskAt i)) =? 0); [reflexivity|].
  rewrite geb_leb. destruct (0 <=? ti_rank (tinfo E who)); seq_steps.
Qed.


Lemma nosv_ss_gen v p tr s d :
  TaskNosv_gen.update_task_ss_channel (mk who M_NOSV v p) tr E (W s d) =
  if tr =? 120 then
    match chan_step sx s who (chan_of cs M_NOSV TaskNosv_gen.c_CH_SUBSYSTEM) PUSH (Some TaskNosv_gen.c_ST_TASK_BODY) with
    | Err _ => Err E_FAIL | Ok (s', d') => Ok (tt, W s' (d ++ d')) end
  else if tr =? 101 then
    match chan_step sx s who (chan_of cs M_NOSV TaskNosv_gen.c_CH_SUBSYSTEM) POP (Some TaskNosv_gen.c_ST_TASK_BODY) with
    | Err _ => Err E_FAIL | Ok (s', d') => Ok (tt, W s' (d ++ d')) end
  else Ok (tt, W s d).
Proof.
  unfold TaskNosv_gen.update_task_ss_channel. munf.
  cbn [get_emu_thread mk GuardsPre.e_who addr_thread_ext extend_get cast_ptr_ext_ptr_mthread is_null negb addr_nosv_thread_m_ch_at m_ch].
  destruct (tr =? 120); [|destruct (tr =? 101); [|reflexivity]];
    unfold chan_push, chan_pop, chan_op, M_NOSV, W; cbn [val_of value_int64 ChanPre.vt ChanPre.vi Z.eqb te_sx te_cs E w_st w_dirty];
    match goal with |- context [chan_step ?a ?b ?c ?d ?e ?f] => destruct (chan_step a b c d e f) as [[? ?]|] end; reflexivity.
Qed.

Lemma nosv_expand_gen v p was now w : kinds v ->
  TaskNosv_gen.expand_transition_value (mk who M_NOSV v p) was now E w =
  Ok (if (v =? 120) && negb (was =? 0) then 88 else if (v =? 101) && negb (now =? 0) then 69 else v, w).
Proof.
  intros Hv. unfold TaskNosv_gen.expand_transition_value. munf. cbn [get_emu_ev_v mk GuardsPre.e_v].
  unfold kinds in Hv. destruct Hv as [ -> | [ -> | [ -> | -> ] ] ];
    change (cast_int8 120) with 120; change (cast_int8 101) with 101; change (cast_int8 112) with 112; change (cast_int8 114) with 114;
    cbn [Z.eqb Pos.eqb orb andb]; try reflexivity.
  all: try (destruct (was =? 0); reflexivity); try (destruct (now =? 0); reflexivity).
Qed.


(* ---- create_task *)
Lemma nosv_create_eq st v p d : v = 67 \/ v = 99 -> (8 <= length p)%nat ->
  match EmuCoreDefs.task_create sx st who M_NOSV (le_u32 p 0) (le_u32 p 4) (v =? 67) (negb (v =? 67)) (negb (v =? 67)) false with
  | Ok s' => TaskNosv_gen.create_task (mk who M_NOSV v p) v E (W st d) = Ok (tt, W s' d)
  | Err _ => TaskNosv_gen.create_task (mk who M_NOSV v p) v E (W st d) = Err E_FAIL
  end.
Proof.
  intros Hv Hp. unfold TaskNosv_gen.create_task. munf.
  unfold get_emu_ev_payload_size, get_emu_ev_payload, get_emu_ev_payload_u32, get_emu_proc.
  cbn [mk GuardsPre.e_payload GuardsPre.e_who].
  assert (H8 : (Z.of_nat (length p) <? cast_uint64 8) = false) by (apply Z.ltb_ge; change (cast_uint64 8) with 8; lia).
  rewrite H8. destruct p as [|p0 pr]; [cbn in Hp; lia|]. cbn [is_null negb].
  cbn [addr_proc_ext extend_get cast_ptr_ext_ptr_mproc is_null negb addr_nosv_proc_task_info ix Z.to_nat nth].
  change (Pos.to_nat 1) with 1%nat. cbn [nth].
  destruct Hv as [ -> | -> ]; cbn [Z.eqb Pos.eqb b2z negb]; unfold task_create; cbn [w_st w_dirty W te_sx E];
    change 86 with M_NOSV;
    repeat match goal with |- context [flag ?a ?b] => let r := eval vm_compute in (flag a b) in change (flag a b) with r end;
    match goal with |- context [EmuCoreDefs.task_create ?a ?b ?c ?d ?e ?f ?g ?h ?i ?j] => destruct (EmuCoreDefs.task_create a b c d e f g h i j) end; reflexivity.
Qed.


(* ---- the values written depend on the tasks only *)
Lemma inv_body_id b : inv (fun w => Some (get_body_id E w b)).
Proof. intros w w' H. destruct b as [[i j]|]; [|reflexivity]. unfold get_body_id, GuardsPre.bdy, GuardsPre.tsk. rewrite H. reflexivity. Qed.
Lemma inv_task_id t : inv (fun w => Some (get_task_id E w t)).
Proof. intros w w' H. unfold get_task_id, GuardsPre.tsk. rewrite H. reflexivity. Qed.
Lemma inv_gid t : inv (fun w => Some (get_task_type_gid E w t)).
Proof. intros w w' H. unfold get_task_type_gid, GuardsPre.tsk. rewrite H. reflexivity. Qed.
Lemma inv_const v : inv (fun _ => v).
Proof. intros w w' H. reflexivity. Qed.

Lemma nosv_ws_inv b t : Forall (fun x => inv (snd x)) (nosv_ws b t).
Proof.
  unfold nosv_ws, rank_ws. destruct (0 <=? ti_rank (tinfo E who)); cbn [app];
    repeat (constructor; [cbn [snd]; first [apply inv_body_id | apply inv_task_id | apply inv_gid | apply inv_const]|]); constructor.
Qed.
Lemma nosv_null_inv : Forall (fun x => inv (snd x)) nosv_null_ws.
Proof.
  unfold nosv_null_ws, rank_ws. destruct (0 <=? ti_rank (tinfo E who)); cbn [app];
    repeat (constructor; [cbn [snd]; apply inv_const|]); constructor.
Qed.

Lemma nosv_enforce_gen v p tr nx s d :
  TaskNosv_gen.enforce_task_rules (mk who M_NOSV v p) tr nx E (W s d) =
  if negb (tr =? 120) && negb (tr =? 88) then Ok (tt, W s d)
  else match nx with
       | None => Err E_TRAP
       | Some (i, j) =>
         if negb (GuardsPre.bstate_code (b_state (GuardsPre.bdy s i j)) =? 2) then Err E_FAIL
         else match raw_read (spec_of sx (chan_of cs M_NOSV TaskNosv_gen.c_CH_SUBSYSTEM)) (raw_of s who (chan_of cs M_NOSV TaskNosv_gen.c_CH_SUBSYSTEM)) with
              | Some x => if negb (x =? TaskNosv_gen.c_ST_TASK_BODY) then Err E_FAIL else Ok (tt, W s d)
              | None => Ok (tt, W s d)
              end
       end.
Proof.
  unfold TaskNosv_gen.enforce_task_rules. munf.
  destruct (negb (tr =? 120) && negb (tr =? 88)); [reflexivity|].
  unfold TaskNosv_gen.body_get_state_safe, TaskNosv_gen.body_get_state.
  destruct nx as [[i j]|]; cbn [is_null negb]; [|reflexivity].
  unfold get_body_state, GuardsPre.get_body_state. cbn [w_st W]. change (cast_uint32 TaskNosv_gen.c_BODY_ST_RUNNING) with 2.
  destruct (negb (GuardsPre.bstate_code (b_state (GuardsPre.bdy s i j)) =? 2)); [reflexivity|].
  cbn [get_emu_thread mk GuardsPre.e_who addr_thread_ext extend_get cast_ptr_ext_ptr_mthread is_null negb addr_nosv_thread_m_ch_at m_ch chan_read].
  cbn [te_sx te_cs E w_st W]. change 86 with M_NOSV.
  destruct (raw_read _ _) as [x|]; cbn [cval_of fld_cvalue_type fld_cvalue_i ChanPre.vt ChanPre.vi ChanPre.vnull]; [|reflexivity].
  change (1 =? TaskNosv_gen.c_VALUE_INT64) with true. cbn [andb]. destruct (negb (x =? TaskNosv_gen.c_ST_TASK_BODY)); reflexivity.
Qed.


(* ---- nOS-V: the rest of update_task after the subsystem channel *)
Definition nosv_gen_tail (v : Z) (p : list Z) (prev next : ptr_body) : M unit :=
  bind (TaskNosv_gen.expand_transition_value (mk who M_NOSV v p) (b2z (negb (is_null prev))) (b2z (negb (is_null next)))) (fun tr =>
    bind_ (TaskNosv_gen.update_task_channels (mk who M_NOSV v p) tr prev next)
      (bind_ (TaskNosv_gen.enforce_task_rules (mk who M_NOSV v p) tr next) (ret tt))).

Definition fin (r : result (unit * tw)) : result (unit * tw) :=
  match r with Ok (_, w') => Ok (tt, w') | Err e => Err e end.

Lemma nosv_tail_form v p prev next w : kinds v ->
  let e := mk who M_NOSV v p in
  let tr := if (v =? 120) && negb (b2z (negb (is_null prev)) =? 0) then 88
            else if (v =? 101) && negb (b2z (negb (is_null next)) =? 0) then 69 else v in
  nosv_gen_tail v p prev next E w =
  match (if (tr =? 120) || (tr =? 114) then TaskNosv_gen.chan_body_running e next
         else if (tr =? 101) || (tr =? 112) then TaskNosv_gen.chan_body_stopped e
         else if (tr =? 88) || (tr =? 69) then TaskNosv_gen.chan_body_switch e prev next
         else fail E_FAIL) E w with
  | Ok (_, w') => fin (TaskNosv_gen.enforce_task_rules e tr next E w')
  | Err er => if Nat.eqb er E_TRAP then Err er else Err E_FAIL
  end.
Proof.
  intros Hv e tr. unfold nosv_gen_tail. unfold bind at 1. rewrite (nosv_expand_gen v p _ _ _ Hv). fold tr. fold e.
  unfold TaskNosv_gen.update_task_channels. unfold bind_ at 1. unfold bind at 1. unfold bind at 1. unfold eval at 1. unfold bind at 1. unfold eval at 1.
  destruct ((tr =? 120) || (tr =? 114)).
  { rewrite status_wrap. destruct (TaskNosv_gen.chan_body_running e next E w) as [[[] w']|er]; [|destruct (Nat.eqb er E_TRAP); reflexivity].
    unfold bind_, bind, ret, fin. reflexivity. }
  destruct ((tr =? 101) || (tr =? 112)).
  { rewrite status_wrap. destruct (TaskNosv_gen.chan_body_stopped e E w) as [[[] w']|er]; [|destruct (Nat.eqb er E_TRAP); reflexivity].
    unfold bind_, bind, ret, fin. reflexivity. }
  destruct ((tr =? 88) || (tr =? 69)).
  { rewrite status_wrap. destruct (TaskNosv_gen.chan_body_switch e prev next E w) as [[[] w']|er]; [|destruct (Nat.eqb er E_TRAP); reflexivity].
    unfold bind_, bind, ret, fin. reflexivity. }
  reflexivity.
Qed.


Lemma after_seq m ws mws s2 d1 (K : tw -> result (unit * tw)) (KM : state -> list (nat * nat) -> result (state * list (nat * nat))) :
  Forall (fun x => inv (snd x)) ws ->
  map (fun x => (chan_of cs m (fst x), snd x (W s2 d1))) ws = mws ->
  (forall st3 d, tasks st3 = tasks s2 ->
     match KM st3 d with Ok (s4, d4) => K (W st3 d) = Ok (tt, W s4 d4) | Err _ => exists e', K (W st3 d) = Err e' /\ e' <> E_TRAP end) ->
  match (match set_chans sx s2 who mws d1 with Ok (st3, d) => KM st3 d | Err e => Err e end) with
  | Ok (s4, d4) => match seqF m ws E (W s2 d1) with Ok (_, w') => K w' | Err er => if Nat.eqb er E_TRAP then Err er else Err E_FAIL end = Ok (tt, W s4 d4)
  | Err _ => exists e', match seqF m ws E (W s2 d1) with Ok (_, w') => K w' | Err er => if Nat.eqb er E_TRAP then Err er else Err E_FAIL end = Err e' /\ e' <> E_TRAP
  end.
Proof.
  intros Hi Hm HK. subst mws. pose proof (seqF_eq m ws Hi s2 d1) as Q.
  destruct (set_chans sx s2 who (map (fun x => (chan_of cs m (fst x), snd x (W s2 d1))) ws) d1) as [[st3 d]|].
  - destruct Q as [-> Ht]. apply HK. exact Ht.
  - rewrite Q. cbn. eexists; split; [reflexivity|discriminate].
Qed.

(* the model's check after an execute, against the generated enforce_task_rules *)
Lemma nosv_enforce_x v p tr i j s1 st3 d : tr = 120 \/ tr = 88 -> tasks st3 = tasks s1 ->
  b_state (GuardsPre.bdy s1 i j) = BRunning ->
  match (match raw_read (spec_of sx (chan_of cs M_NOSV Tables_gen.c_nosv_CH_SUBSYSTEM)) (raw_of st3 who (chan_of cs M_NOSV Tables_gen.c_nosv_CH_SUBSYSTEM)) with
         | Some x => if x =? Tables_gen.c_nosv_ST_TASK_BODY then Ok (st3, d) else Err E_TASK
         | None => Ok (st3, d)
         end) with
  | Ok (s4, d4) => fin (TaskNosv_gen.enforce_task_rules (mk who M_NOSV v p) tr (Some (i, j)) E (W st3 d)) = Ok (tt, W s4 d4)
  | Err _ => exists e', fin (TaskNosv_gen.enforce_task_rules (mk who M_NOSV v p) tr (Some (i, j)) E (W st3 d)) = Err e' /\ e' <> E_TRAP
  end.
Proof.
  intros Htr Ht Hr. rewrite nosv_enforce_gen.
  assert (Hc : negb (tr =? 120) && negb (tr =? 88) = false) by (destruct Htr as [ -> | -> ]; reflexivity). rewrite Hc.
  unfold GuardsPre.bdy, GuardsPre.tsk. rewrite Ht. fold (GuardsPre.tsk s1 i). fold (GuardsPre.bdy s1 i j). rewrite Hr.
  cbn [GuardsPre.bstate_code Z.eqb Pos.eqb negb].
  change Tables_gen.c_nosv_CH_SUBSYSTEM with TaskNosv_gen.c_CH_SUBSYSTEM. change Tables_gen.c_nosv_ST_TASK_BODY with TaskNosv_gen.c_ST_TASK_BODY.
  destruct (raw_read _ _) as [x|]; [|reflexivity].
  destruct (x =? TaskNosv_gen.c_ST_TASK_BODY); cbn [negb fin]; [reflexivity|eexists; split; [reflexivity|discriminate]].
Qed.

Lemma nosv_enforce_other v p tr nx st3 d : tr <> 120 -> tr <> 88 ->
  fin (TaskNosv_gen.enforce_task_rules (mk who M_NOSV v p) tr nx E (W st3 d)) = Ok (tt, W st3 d).
Proof.
  intros H1 H2. rewrite nosv_enforce_gen. apply Z.eqb_neq in H1, H2. rewrite H1, H2. reflexivity.
Qed.


Lemma tid_eq s1 s2 d i : tasks s2 = tasks s1 -> get_task_id E (W s2 d) (Some (TaskAt i)) = tk_id (GuardsPre.tsk s1 i).
Proof. intros H. unfold get_task_id, GuardsPre.tsk. cbn [gtask w_st W]. rewrite H. reflexivity. Qed.
Lemma gid_eq s1 s2 d i : tasks s2 = tasks s1 -> get_task_type_gid E (W s2 d) (Some (TaskAt i)) = tk_gid (GuardsPre.tsk s1 i).
Proof. intros H. unfold get_task_type_gid, GuardsPre.tsk. cbn [gtask w_st W]. rewrite H. reflexivity. Qed.
Lemma bid_eq s1 s2 d i j : tasks s2 = tasks s1 -> get_body_id E (W s2 d) (Some (i, j)) = b_id (GuardsPre.bdy s1 i j).
Proof. intros H. unfold get_body_id, GuardsPre.bdy, GuardsPre.tsk. cbn [w_st W]. rewrite H. reflexivity. Qed.

Lemma nosv_tail_eq v p prev next rt0 rt1 s1 s2 d1 :
  kinds v -> tasks s2 = tasks s1 ->
  match prev with Some _ => rt0 <> None | None => rt0 = None end ->
  match next with Some (i, j) => rt1 = Some (GuardsPre.tsk s1 i, GuardsPre.bdy s1 i j) | None => rt1 = None end ->
  (forall tp bp tn bn, rt0 = Some (tp, bp) -> rt1 = Some (tn, bn) ->
     ptr_eqb_body prev next = (tk_id tp =? tk_id tn) && (b_id bp =? b_id bn)) ->
  (forall tn bn, rt1 = Some (tn, bn) -> b_state bn = BRunning) ->
  (v = 120 \/ v = 114 -> next <> None) ->
  match m_tail sx who (nosv_cfg cs) me v rt0 rt1 s2 d1 with
  | Ok (st3, d) => nosv_gen_tail v p prev next E (W s2 d1) = Ok (tt, W st3 d)
  | Err _ => exists e', nosv_gen_tail v p prev next E (W s2 d1) = Err e' /\ e' <> E_TRAP
  end.
Proof.
  intros Hv Ht H0 H1 Hsame Hrun Hnx.
  rewrite (nosv_tail_form v p prev next _ Hv). cbv zeta.
  unfold m_tail. cbn [nosv_cfg tc_bodyrule tc_ss tc_ssval tc_chans tc_appid_checked filter].
  pose proof tinfo_me as TI.
  destruct prev as [[pi pj]|]; [destruct rt0 as [[tp bp]|]; [|congruence]|subst rt0];
  (destruct next as [[i j]|]; subst rt1);
  unfold kinds in Hv; destruct Hv as [ -> | [ -> | [ -> | -> ] ] ];
  cbn [Z.eqb Pos.eqb andb orb negb is_null b2z].
  all: try rewrite nosv_running_gen; try rewrite nosv_stopped_gen; try rewrite nosv_switch_gen.
  all: cbn [is_null]; rewrite ?TI.
  all: rewrite ?(tid_eq s1 s2 d1 _ Ht), ?(gid_eq s1 s2 d1 _ Ht).
  all: try rewrite (Hsame _ _ _ _ eq_refl eq_refl).
  all: repeat match goal with
       | |- context [if (?a && ?b) then Err E_TASK else _] => destruct (a && b)
       | |- context [(tk_id ?t =? 0)] => destruct (tk_id t =? 0)
       | |- context [(tk_gid ?t =? 0)] => destruct (tk_gid t =? 0)
       | |- context [(ti_appid me <=? 0)] => destruct (ti_appid me <=? 0)
       end; cbn [orb andb].
  all: try (exfalso; apply Hnx; [first [left; reflexivity | right; reflexivity]|reflexivity]).
  all: try (eexists; split; [cbn; reflexivity|discriminate]).
  all: try (unfold TaskNosv_gen.chan_body_running, TaskNosv_gen.chan_body_switch, TaskNosv_gen.body_get_task_safe; munf;
            cbn [is_null negb orb andb get_emu_thread get_emu_proc mk GuardsPre.e_who addr_thread_ext extend_get cast_ptr_ext_ptr_mthread];
            eexists; cbn; reflexivity).
  all: apply after_seq; [first [apply nosv_ws_inv | apply nosv_null_inv] | | ].
  all: try (unfold nosv_ws, nosv_null_ws, rank_ws; rewrite TI; destruct (0 <=? ti_rank me); cbn [map app fst snd field_value];
            rewrite ?(bid_eq s1 s2 d1 _ _ Ht), ?(tid_eq s1 s2 d1 _ Ht), ?(gid_eq s1 s2 d1 _ Ht); reflexivity).
  all: try (intros st3 d Ht3; apply nosv_enforce_other; discriminate).
  all: intros st3 d Ht3; apply nosv_enforce_x with (s1 := s1); [auto | congruence | apply (Hrun _ _ eq_refl)].
Qed.


Lemma run_after st th m v tid bid s1 : nth_error (threads st) who = Some th -> v = 120 \/ v = 114 ->
  task_op st who th loom pid m v tid bid = Ok s1 ->
  TaskNosv_gen.task_get_running E (W s1 []) (Some (who, m)) <> None.
Proof.
  intros Hth Hv Hop.
  assert (H1 : nth_error (threads s1) who = Some (nth who (threads s1) dummy_thread)).
  { apply nth_error_nth'. rewrite (task_op_len _ _ _ _ _ _ _ _ _ _ Hop). apply nth_error_Some. congruence. }
  pose proof (run_rel m s1 _ [] H1) as R1.
  destruct (task_op_run _ _ _ _ _ _ _ _ _ _ Hth Hv Hop) as (ti & tk & obi & b' & Ft & Hts & Hbid & Hobi & Hrun & m' & r & Hms).
  pose proof (GuardsTaskProofs.head_model m _ _ _ _ _ Hms) as ->.
  destruct (GuardsTaskProofs.find_task_spec _ _ _ _ _ _ _ Ft) as (Nt & It & _).
  intros Hnone. rewrite Hnone in R1. revert R1.
  unfold running_top. rewrite Hms. unfold body_state_of, find_task. rewrite Hts.
  rewrite (GuardsTaskProofs.find_task_from_update _ loom pid m tid ti 0 tk _ Nt) by (unfold GuardsTaskProofs.same_keys, set_bodies; cbn; auto).
  fold (find_task st loom pid m tid). rewrite Ft. rewrite Nat.add_0_r, Nat.eqb_refl.
  unfold find_body. cbn [set_bodies tk_bodies]. unfold new_bodies.
  destruct obi as [bi|].
  - destruct Hobi as (b & Fb). destruct (GuardsTaskProofs.find_body_spec _ _ _ _ Fb) as (Nb & Ib).
    rewrite (GuardsTaskProofs.find_body_from_update _ bid bi 0 b b' Nb) by congruence.
    fold (find_body tk bid). rewrite Fb. rewrite Nat.add_0_r, Nat.eqb_refl. rewrite Hrun. cbn. discriminate.
  - rewrite GuardsTaskProofs.find_body_from_app. fold (find_body tk bid). rewrite Hobi.
    rewrite Hbid, Z.eqb_refl. rewrite Hrun. cbn. discriminate.
Qed.

(* ---- nOS-V: update_task *)
Lemma nosv_update_form v p w : kinds v ->
  TaskNosv_gen.update_task (mk who M_NOSV v p) E w =
  match TaskNosv_gen.update_task_state (mk who M_NOSV v p) E w with
  | Ok (_, w1) =>
    match TaskNosv_gen.update_task_ss_channel (mk who M_NOSV v p) v E w1 with
    | Ok (_, w2) => nosv_gen_tail v p (TaskNosv_gen.task_get_running E w (Some (who, M_NOSV)))
                                  (TaskNosv_gen.task_get_running E w1 (Some (who, M_NOSV))) E w2
    | Err e => Err e
    end
  | Err e => Err e
  end.
Proof.
  intros Hv. unfold TaskNosv_gen.update_task, nosv_gen_tail. munf.
  cbn [get_emu_thread mk GuardsPre.e_who addr_thread_ext extend_get cast_ptr_ext_ptr_mthread is_null negb addr_nosv_thread_task_stack get_emu_ev_v GuardsPre.e_v].
  change 86 with M_NOSV.
  destruct (TaskNosv_gen.update_task_state (mk who M_NOSV v p) E w) as [[[] w1]|]; [|reflexivity].
  assert (Hc : cast_int8 v = v) by (unfold kinds in Hv; destruct Hv as [ -> | [ -> | [ -> | -> ] ] ]; reflexivity). rewrite Hc.
  destruct (TaskNosv_gen.update_task_ss_channel (mk who M_NOSV v p) v E w1) as [[[] w2]|]; reflexivity.
Qed.

(* side condition of the nested transitions: the C compares the two body pointers, the model their (task id, body id) *)
Definition same_body_ok (m : Z) (st : state) (th : thread) (s1 : state) (prev next : ptr_body) : Prop :=
  forall tp bp tn bn, running_top st loom pid th m = Some (tp, bp) ->
    running_top s1 loom pid (nth who (threads s1) dummy_thread) m = Some (tn, bn) ->
    ptr_eqb_body prev next = (tk_id tp =? tk_id tn) && (b_id bp =? b_id bn).

Theorem nosv_update_task_eq st th v p : nth_error (threads st) who = Some th -> kinds v -> (8 <= length p)%nat ->
  (forall s1, m_state st th true M_NOSV v (le_u32 p 0) (le_u32 p 4) = Ok s1 ->
     same_body_ok M_NOSV st th s1 (TaskNosv_gen.task_get_running E (W st []) (Some (who, M_NOSV)))
                                  (TaskNosv_gen.task_get_running E (W s1 []) (Some (who, M_NOSV)))) ->
  match task_event sx st who (nosv_cfg cs) M_NOSV v (le_u32 p 0) (le_u32 p 4) with
  | Ok (st', d) => TaskNosv_gen.update_task (mk who M_NOSV v p) E (W st []) = Ok (tt, W st' d)
  | Err _ => exists e', TaskNosv_gen.update_task (mk who M_NOSV v p) E (W st []) = Err e' /\ e' <> E_TRAP
  end.
Proof.
  intros Hth Hv Hp Hsame.
  pose proof (nosv_state_eq st th v p [] Hth Hv Hp) as S.
  pose proof (run_rel M_NOSV st th [] Hth) as R0.
  rewrite task_event_split. unfold nth_opt. rewrite Hth, Hme. cbv zeta. fold loom pid.
  rewrite (nosv_update_form v p _ Hv).
  destruct (m_state st th true M_NOSV v (le_u32 p 0) (le_u32 p 4)) as [s1|em] eqn:Em.
  2:{ destruct S as (e' & S & Sn). rewrite S.
      unfold m_state in Em. revert Em. cbn [nosv_cfg tc_bodyrule].
      destruct (find_task st loom pid M_NOSV (le_u32 p 0)) as [[ti0 tk0]|]; [|intros _; cbv beta iota; exists e'; split; [reflexivity|exact Sn]].
      destruct (if tk_par tk0 then if le_u32 p 4 =? 0 then None else Some (le_u32 p 4) else if le_u32 p 4 =? 0 then Some 1 else None) as [bid|]; [|intros _; cbv beta iota; exists e'; split; [reflexivity|exact Sn]].
      intros Em. rewrite Em. cbv beta iota. exists e'; split; [reflexivity|exact Sn]. }
  rewrite S. specialize (Hsame s1 eq_refl).
  unfold m_state in Em. revert Em. cbn [nosv_cfg tc_bodyrule].
  destruct (find_task st loom pid M_NOSV (le_u32 p 0)) as [[ti0 tk0]|]; [|discriminate].
  destruct (if tk_par tk0 then if le_u32 p 4 =? 0 then None else Some (le_u32 p 4) else if le_u32 p 4 =? 0 then Some 1 else None) as [bid|]; [|discriminate].
  intros Em. rewrite Em. cbv beta iota.
  assert (H1 : nth_error (threads s1) who = Some (nth who (threads s1) dummy_thread)).
  { apply nth_error_nth'. rewrite (task_op_len _ _ _ _ _ _ _ _ _ _ Em). apply nth_error_Some. congruence. }
  pose proof (run_rel M_NOSV s1 _ [] H1) as R1.
  rewrite nosv_ss_gen. cbn [app].
  change (tc_ss (nosv_cfg cs)) with (chan_of cs M_NOSV TaskNosv_gen.c_CH_SUBSYSTEM). change (tc_ssval (nosv_cfg cs)) with TaskNosv_gen.c_ST_TASK_BODY.
  set (prev := TaskNosv_gen.task_get_running E (W st []) (Some (who, M_NOSV))) in *.
  set (next := TaskNosv_gen.task_get_running E (W s1 []) (Some (who, M_NOSV))) in *.
  assert (Fin : forall s2 d1, tasks s2 = tasks s1 ->
    match m_tail sx who (nosv_cfg cs) me v (running_top st loom pid th M_NOSV)
            (running_top s1 loom pid (nth who (threads s1) dummy_thread) M_NOSV) s2 d1 with
    | Ok (st3, d) => nosv_gen_tail v p prev next E (W s2 d1) = Ok (tt, W st3 d)
    | Err _ => exists e', nosv_gen_tail v p prev next E (W s2 d1) = Err e' /\ e' <> E_TRAP
    end).
  { intros s2 d1 Ht. apply (nosv_tail_eq v p prev next _ _ s1 s2 d1 Hv Ht).
    - destruct prev as [[pi pj]|]; rewrite R0; congruence.
    - destruct next as [[i j]|]; exact R1.
    - exact Hsame.
    - intros tn bn Hr. exact (running_top_running _ _ _ _ _ Hr).
    - intros Hk. exact (run_after st th _ v _ _ s1 Hth Hk Em). }
  destruct (v =? 120).
  { destruct (chan_step sx s1 who (chan_of cs M_NOSV TaskNosv_gen.c_CH_SUBSYSTEM) PUSH (Some TaskNosv_gen.c_ST_TASK_BODY)) as [[s2 d1]|] eqn:Ec; [|cbv beta iota; eexists; split; [reflexivity|discriminate]].
    cbv beta iota. apply Fin. exact (chan_step_tasks _ _ _ _ _ _ Ec). }
  destruct (v =? 101).
  { destruct (chan_step sx s1 who (chan_of cs M_NOSV TaskNosv_gen.c_CH_SUBSYSTEM) POP (Some TaskNosv_gen.c_ST_TASK_BODY)) as [[s2 d1]|] eqn:Ec; [|cbv beta iota; eexists; split; [reflexivity|discriminate]].
    cbv beta iota. apply Fin. exact (chan_step_tasks _ _ _ _ _ _ Ec). }
  apply Fin. reflexivity.
Qed.


(* ---- nOS-V: pre_task *)
Lemma nosv_pre_task_form v p w : kinds v ->
  TaskNosv_gen.pre_task (mk who M_NOSV v p) E w =
  match TaskNosv_gen.update_task (mk who M_NOSV v p) E w with
  | Ok (_, w') => Ok (tt, w')
  | Err er => if Nat.eqb er E_TRAP then Err er else Err E_FAIL
  end.
Proof.
  intros Hv. unfold TaskNosv_gen.pre_task. unfold bind at 1. unfold eval at 1. unfold bind at 1. unfold eval at 1.
  cbn [get_emu_ev_v mk GuardsPre.e_v].
  unfold kinds in Hv. destruct Hv as [ -> | [ -> | [ -> | -> ] ] ]; cbn [Z.eqb Pos.eqb orb]; apply status_wrap.
Qed.

Theorem nosv_pre_task_eq st th v p : nth_error (threads st) who = Some th -> kinds v -> (8 <= length p)%nat ->
  (forall s1, m_state st th true M_NOSV v (le_u32 p 0) (le_u32 p 4) = Ok s1 ->
     same_body_ok M_NOSV st th s1 (TaskNosv_gen.task_get_running E (W st []) (Some (who, M_NOSV)))
                                  (TaskNosv_gen.task_get_running E (W s1 []) (Some (who, M_NOSV)))) ->
  match task_event sx st who (nosv_cfg cs) M_NOSV v (le_u32 p 0) (le_u32 p 4) with
  | Ok (st', d) => TaskNosv_gen.pre_task (mk who M_NOSV v p) E (W st []) = Ok (tt, W st' d)
  | Err _ => exists e', TaskNosv_gen.pre_task (mk who M_NOSV v p) E (W st []) = Err e' /\ e' <> E_TRAP
  end.
Proof.
  intros Hth Hv Hp Hsame. pose proof (nosv_update_task_eq st th v p Hth Hv Hp Hsame) as U.
  rewrite (nosv_pre_task_form v p _ Hv).
  destruct (task_event sx st who (nosv_cfg cs) M_NOSV v (le_u32 p 0) (le_u32 p 4)) as [[st' d]|].
  - rewrite U. reflexivity.
  - destruct U as (e' & U & Un). rewrite U. apply Nat.eqb_neq in Un. rewrite Un. eexists; split; [reflexivity|discriminate].
Qed.


(* ================================================================ Nanos6 *)

Lemma n6_state_eq st th v p d : nth_error (threads st) who = Some th -> kinds v -> (4 <= length p)%nat ->
  match m_state st th false M_NANOS6 v (le_u32 p 0) 0 with
  | Ok s1 => TaskNanos6_gen.update_task_state (mk who M_NANOS6 v p) E (W st d) = Ok (tt, W s1 d)
  | Err _ => exists e', TaskNanos6_gen.update_task_state (mk who M_NANOS6 v p) E (W st d) = Err e' /\ e' <> E_TRAP
  end.
Proof.
  intros Hth Hv Hp.
  pose proof (fun bid => GuardsTaskProofs.task_ops_eq sx st who th me M_NANOS6 (le_u32 p 0) bid Hth Hme) as OPS.
  unfold m_state, TaskNanos6_gen.update_task_state. munf.
  unfold get_emu_ev_payload_size, get_emu_ev_payload, get_emu_ev_payload_u32, get_emu_thread, get_emu_proc, get_emu_ev_v.
  cbn [mk GuardsPre.e_payload GuardsPre.e_who GuardsPre.e_v].
  assert (H4 : (Z.of_nat (length p) <? cast_uint64 4) = false) by (apply Z.ltb_ge; change (cast_uint64 4) with 4; lia).
  rewrite H4. destruct p as [|p0 pr]; [cbn in Hp; lia|]. cbn [is_null negb].
  cbn [addr_thread_ext addr_proc_ext extend_get cast_ptr_ext_ptr_mthread cast_ptr_ext_ptr_mproc is_null negb
       addr_nanos6_proc_task_info addr_nanos6_thread_task_stack get_task_info_tasks ix Z.to_nat nth].
  unfold task_find. rewrite tinfo_me. fold loom pid. cbn [w_st W].
  change 54 with M_NANOS6.
  destruct (find_task st loom pid M_NANOS6 (le_u32 (p0 :: pr) 0)) as [[ti tk]|] eqn:Ft; cbn [is_null negb].
  2:{ exists E_FAIL. split; [reflexivity|discriminate]. }
  assert (TP : GuardsTaskProofs.task_ptr me M_NANOS6 (le_u32 (p0 :: pr) 0) st = Some ti).
  { unfold GuardsTaskProofs.task_ptr. fold loom pid. rewrite Ft. reflexivity. }
  cbv zeta in OPS. rewrite TP in OPS. fold loom pid in OPS.
  change (cast_uint32 1) with 1.
  specialize (OPS 1). destruct OPS as (O1 & O2 & O3 & O4). specialize (O1 ltac:(discriminate)).
  unfold kinds in Hv; destruct Hv as [ -> | [ -> | [ -> | -> ] ] ]; cbn [Z.eqb Pos.eqb]; unfold task_execute, task_end, task_pause, task_resume; cbn [gtask];
    apply lifted_op; try assumption; intros e He; exact (task_op_err _ _ _ _ _ _ _ _ _ _ He).
Qed.

Definition rank_ws6 (v : value) : list (Z * (tw -> value)) :=
  if 0 <=? ti_rank (tinfo E who) then [(TaskNanos6_gen.c_CH_RANK, fun _ => v)] else [].
Definition n6_ws (task : ptr_task) : list (Z * (tw -> value)) :=
  [(TaskNanos6_gen.c_CH_TASKID, fun w => Some (get_task_id E w task)); (TaskNanos6_gen.c_CH_TYPE, fun w => Some (get_task_type_gid E w task))]
  ++ rank_ws6 (Some (ti_rank (tinfo E who) + 1)).
Definition n6_null_ws : list (Z * (tw -> value)) :=
  [(TaskNanos6_gen.c_CH_TASKID, fun _ => None); (TaskNanos6_gen.c_CH_TYPE, fun _ => None)] ++ rank_ws6 None.

Ltac n6_ptrs :=
  cbn [get_emu_thread get_emu_proc mk GuardsPre.e_who addr_thread_ext extend_get cast_ptr_ext_ptr_mthread is_null negb andb orb
       addr_nanos6_thread_m_ch_at m_ch get_proc_rank get_task_type gtask].

Lemma n6_stopped_gen v p w :
  TaskNanos6_gen.chan_task_stopped (mk who M_NANOS6 v p) E w = seqF M_NANOS6 n6_null_ws E w.
Proof.
  unfold TaskNanos6_gen.chan_task_stopped, n6_null_ws, rank_ws6. munf. n6_ptrs.
  rewrite geb_leb. destruct (0 <=? ti_rank (tinfo E who)); seq_steps.
Qed.

Lemma n6_running_gen v p i w :
  TaskNanos6_gen.chan_task_running (mk who M_NANOS6 v p) (Some (TaskAt i)) E w =
  if (get_task_id E w (Some (TaskAt i)) =? 0) then Err E_FAIL
  else if (get_task_type_gid E w (Some (TaskAt i)) =? 0) then Err E_FAIL
  else seqF M_NANOS6 (n6_ws (Some (TaskAt i))) E w.
Proof.
  unfold TaskNanos6_gen.chan_task_running, n6_ws, rank_ws6. munf. n6_ptrs.
  change (cast_uint32 0) with 0.
  destruct (get_task_id E w (Some (TaskAt i)) =? 0); [reflexivity|].
  destruct (get_task_type_gid E w (Some (TaskAt i)) =? 0); [reflexivity|].
  rewrite geb_leb. destruct (0 <=? ti_rank (tinfo E who)); seq_steps.
Qed.

Lemma n6_switch_gen v p tp i w :
  TaskNanos6_gen.chan_task_switch (mk who M_NANOS6 v p) tp (Some (TaskAt i)) E w =
  if is_null tp then Err E_FAIL else if ptr_eqb_task tp (Some (TaskAt i)) then Err E_FAIL
  else if (get_task_id E w (Some (TaskAt i)) =? 0) then Err E_FAIL
  else if (get_task_type_gid E w (Some (TaskAt i)) =? 0) then Err E_FAIL
  else seqF M_NANOS6 (n6_ws (Some (TaskAt i))) E w.
Proof.
  unfold TaskNanos6_gen.chan_task_switch, n6_ws, rank_ws6. munf. n6_ptrs.
  change (cast_uint32 0) with 0.
  destruct tp as [tp|]; cbn [is_null negb orb]; [|reflexivity].
  destruct (ptr_eqb_task (Some tp) (Some (TaskAt i))); [reflexivity|].
  destruct (get_task_id E w (Some (TaskAt i)) =? 0); [reflexivity|].
  destruct (get_task_type_gid E w (Some (TaskAt i)) =? 0); [reflexivity|].
  rewrite geb_leb. destruct (0 <=? ti_rank (tinfo E who)); seq_steps.
Qed.


Lemma n6_ss_gen v p tr s d :
  TaskNanos6_gen.update_task_ss_channel (mk who M_NANOS6 v p) tr E (W s d) =
  if tr =? 120 then
    match chan_step sx s who (chan_of cs M_NANOS6 TaskNanos6_gen.c_CH_SUBSYSTEM) PUSH (Some TaskNanos6_gen.c_ST_TASK_BODY) with
    | Err _ => Err E_FAIL | Ok (s', d') => Ok (tt, W s' (d ++ d')) end
  else if tr =? 101 then
    match chan_step sx s who (chan_of cs M_NANOS6 TaskNanos6_gen.c_CH_SUBSYSTEM) POP (Some TaskNanos6_gen.c_ST_TASK_BODY) with
    | Err _ => Err E_FAIL | Ok (s', d') => Ok (tt, W s' (d ++ d')) end
  else Ok (tt, W s d).
Proof.
  unfold TaskNanos6_gen.update_task_ss_channel. munf.
  cbn [get_emu_thread mk GuardsPre.e_who addr_thread_ext extend_get cast_ptr_ext_ptr_mthread is_null negb addr_nanos6_thread_m_ch_at m_ch].
  destruct (tr =? 120); [|destruct (tr =? 101); [|reflexivity]];
    unfold chan_push, chan_pop, chan_op, M_NANOS6, W; cbn [val_of value_int64 ChanPre.vt ChanPre.vi Z.eqb te_sx te_cs E w_st w_dirty];
    match goal with |- context [chan_step ?a ?b ?c ?d ?e ?f] => destruct (chan_step a b c d e f) as [[? ?]|] end; reflexivity.
Qed.

Lemma n6_expand_gen v p was now w : kinds v ->
  TaskNanos6_gen.expand_transition_value (mk who M_NANOS6 v p) was now E w =
  Ok (if (v =? 120) && negb (was =? 0) then 88 else if (v =? 101) && negb (now =? 0) then 69 else v, w).
Proof.
  intros Hv. unfold TaskNanos6_gen.expand_transition_value. munf. cbn [get_emu_ev_v mk GuardsPre.e_v].
  unfold kinds in Hv. destruct Hv as [ -> | [ -> | [ -> | -> ] ] ];
    change (cast_int8 120) with 120; change (cast_int8 101) with 101; change (cast_int8 112) with 112; change (cast_int8 114) with 114;
    cbn [Z.eqb Pos.eqb orb andb]; try reflexivity.
  all: try (destruct (was =? 0); reflexivity); try (destruct (now =? 0); reflexivity).
Qed.

Lemma n6_enforce_gen v p tr nx s d :
  TaskNanos6_gen.enforce_task_rules (mk who M_NANOS6 v p) tr nx E (W s d) =
  if negb (tr =? 120) && negb (tr =? 88) then Ok (tt, W s d)
  else match nx with
       | None => Err E_TRAP
       | Some (i, j) =>
         if negb (GuardsPre.bstate_code (b_state (GuardsPre.bdy s i j)) =? 2) then Err E_FAIL
         else match raw_read (spec_of sx (chan_of cs M_NANOS6 TaskNanos6_gen.c_CH_SUBSYSTEM)) (raw_of s who (chan_of cs M_NANOS6 TaskNanos6_gen.c_CH_SUBSYSTEM)) with
              | Some x => if negb (x =? TaskNanos6_gen.c_ST_TASK_BODY) then Err E_FAIL else Ok (tt, W s d)
              | None => Ok (tt, W s d)
              end
       end.
Proof.
  unfold TaskNanos6_gen.enforce_task_rules. munf.
  destruct (negb (tr =? 120) && negb (tr =? 88)); [reflexivity|].
  unfold TaskNanos6_gen.body_get_state_safe, TaskNanos6_gen.body_get_state.
  destruct nx as [[i j]|]; cbn [is_null negb]; [|reflexivity].
  unfold get_body_state, GuardsPre.get_body_state. cbn [w_st W]. change (cast_uint32 TaskNanos6_gen.c_BODY_ST_RUNNING) with 2.
  destruct (negb (GuardsPre.bstate_code (b_state (GuardsPre.bdy s i j)) =? 2)); [reflexivity|].
  cbn [get_emu_thread mk GuardsPre.e_who addr_thread_ext extend_get cast_ptr_ext_ptr_mthread is_null negb addr_nanos6_thread_m_ch_at m_ch chan_read].
  cbn [te_sx te_cs E w_st W]. change 54 with M_NANOS6.
  destruct (raw_read _ _) as [x|]; cbn [cval_of fld_cvalue_type fld_cvalue_i ChanPre.vt ChanPre.vi ChanPre.vnull]; [|reflexivity].
  change (1 =? TaskNanos6_gen.c_VALUE_INT64) with true. cbn [andb]. destruct (negb (x =? TaskNanos6_gen.c_ST_TASK_BODY)); reflexivity.
Qed.

Lemma n6_enforce_x v p tr i j s1 st3 d : tr = 120 \/ tr = 88 -> tasks st3 = tasks s1 ->
  b_state (GuardsPre.bdy s1 i j) = BRunning ->
  match (match raw_read (spec_of sx (chan_of cs M_NANOS6 Tables_gen.c_nanos6_CH_SUBSYSTEM)) (raw_of st3 who (chan_of cs M_NANOS6 Tables_gen.c_nanos6_CH_SUBSYSTEM)) with
         | Some x => if x =? Tables_gen.c_nanos6_ST_TASK_BODY then Ok (st3, d) else Err E_TASK
         | None => Ok (st3, d)
         end) with
  | Ok (s4, d4) => fin (TaskNanos6_gen.enforce_task_rules (mk who M_NANOS6 v p) tr (Some (i, j)) E (W st3 d)) = Ok (tt, W s4 d4)
  | Err _ => exists e', fin (TaskNanos6_gen.enforce_task_rules (mk who M_NANOS6 v p) tr (Some (i, j)) E (W st3 d)) = Err e' /\ e' <> E_TRAP
  end.
Proof.
  intros Htr Ht Hr. rewrite n6_enforce_gen.
  assert (Hc : negb (tr =? 120) && negb (tr =? 88) = false) by (destruct Htr as [ -> | -> ]; reflexivity). rewrite Hc.
  unfold GuardsPre.bdy, GuardsPre.tsk. rewrite Ht. fold (GuardsPre.tsk s1 i). fold (GuardsPre.bdy s1 i j). rewrite Hr.
  cbn [GuardsPre.bstate_code Z.eqb Pos.eqb negb].
  change Tables_gen.c_nanos6_CH_SUBSYSTEM with TaskNanos6_gen.c_CH_SUBSYSTEM. change Tables_gen.c_nanos6_ST_TASK_BODY with TaskNanos6_gen.c_ST_TASK_BODY.
  destruct (raw_read _ _) as [x|]; [|reflexivity].
  destruct (x =? TaskNanos6_gen.c_ST_TASK_BODY); cbn [negb fin]; [reflexivity|eexists; split; [reflexivity|discriminate]].
Qed.

Lemma n6_enforce_other v p tr nx st3 d : tr <> 120 -> tr <> 88 ->
  fin (TaskNanos6_gen.enforce_task_rules (mk who M_NANOS6 v p) tr nx E (W st3 d)) = Ok (tt, W st3 d).
Proof.
  intros H1 H2. rewrite n6_enforce_gen. apply Z.eqb_neq in H1, H2. rewrite H1, H2. reflexivity.
Qed.


Definition tk_of (b : ptr_body) : ptr_task := match b with Some (i, _) => Some (TaskAt i) | None => None end.
Definition n6_gen_tail (v : Z) (p : list Z) (prev next : ptr_body) : M unit :=
  bind (TaskNanos6_gen.expand_transition_value (mk who M_NANOS6 v p) (b2z (negb (is_null (tk_of prev)))) (b2z (negb (is_null (tk_of next))))) (fun tr =>
    bind_ (TaskNanos6_gen.update_task_channels (mk who M_NANOS6 v p) tr (tk_of prev) (tk_of next))
      (bind_ (TaskNanos6_gen.enforce_task_rules (mk who M_NANOS6 v p) tr next) (ret tt))).

Lemma n6_ws_inv t : Forall (fun x => inv (snd x)) (n6_ws t).
Proof.
  unfold n6_ws, rank_ws6. destruct (0 <=? ti_rank (tinfo E who)); cbn [app];
    repeat (constructor; [cbn [snd]; first [apply inv_task_id | apply inv_gid | apply inv_const]|]); constructor.
Qed.
Lemma n6_null_inv : Forall (fun x => inv (snd x)) n6_null_ws.
Proof.
  unfold n6_null_ws, rank_ws6. destruct (0 <=? ti_rank (tinfo E who)); cbn [app];
    repeat (constructor; [cbn [snd]; apply inv_const|]); constructor.
Qed.

Lemma n6_tail_form v p prev next w : kinds v ->
  let e := mk who M_NANOS6 v p in
  let tr := if (v =? 120) && negb (b2z (negb (is_null (tk_of prev))) =? 0) then 88
            else if (v =? 101) && negb (b2z (negb (is_null (tk_of next))) =? 0) then 69 else v in
  n6_gen_tail v p prev next E w =
  match (if (tr =? 120) || (tr =? 114) then TaskNanos6_gen.chan_task_running e (tk_of next)
         else if (tr =? 101) || (tr =? 112) then TaskNanos6_gen.chan_task_stopped e
         else if (tr =? 88) || (tr =? 69) then TaskNanos6_gen.chan_task_switch e (tk_of prev) (tk_of next)
         else fail E_FAIL) E w with
  | Ok (_, w') => fin (TaskNanos6_gen.enforce_task_rules e tr next E w')
  | Err er => if Nat.eqb er E_TRAP then Err er else Err E_FAIL
  end.
Proof.
  intros Hv e tr. unfold n6_gen_tail. unfold bind at 1. rewrite (n6_expand_gen v p _ _ _ Hv). fold tr. fold e.
  unfold TaskNanos6_gen.update_task_channels. unfold bind_ at 1. unfold bind at 1. unfold bind at 1. unfold eval at 1. unfold bind at 1. unfold eval at 1.
  destruct ((tr =? 120) || (tr =? 114)).
  { rewrite status_wrap. destruct (TaskNanos6_gen.chan_task_running e (tk_of next) E w) as [[[] w']|er]; [|destruct (Nat.eqb er E_TRAP); reflexivity].
    unfold bind_, bind, ret, fin. reflexivity. }
  destruct ((tr =? 101) || (tr =? 112)).
  { rewrite status_wrap. destruct (TaskNanos6_gen.chan_task_stopped e E w) as [[[] w']|er]; [|destruct (Nat.eqb er E_TRAP); reflexivity].
    unfold bind_, bind, ret, fin. reflexivity. }
  destruct ((tr =? 88) || (tr =? 69)).
  { rewrite status_wrap. destruct (TaskNanos6_gen.chan_task_switch e (tk_of prev) (tk_of next) E w) as [[[] w']|er]; [|destruct (Nat.eqb er E_TRAP); reflexivity].
    unfold bind_, bind, ret, fin. reflexivity. }
  reflexivity.
Qed.

Lemma n6_tail_eq v p prev next rt0 rt1 s1 s2 d1 :
  kinds v -> tasks s2 = tasks s1 ->
  match prev with Some _ => rt0 <> None | None => rt0 = None end ->
  match next with Some (i, j) => rt1 = Some (GuardsPre.tsk s1 i, GuardsPre.bdy s1 i j) | None => rt1 = None end ->
  (forall tp bp tn bn, rt0 = Some (tp, bp) -> rt1 = Some (tn, bn) ->
     ptr_eqb_task (tk_of prev) (tk_of next) = (tk_id tp =? tk_id tn)) ->
  (forall tn bn, rt1 = Some (tn, bn) -> b_state bn = BRunning) ->
  (v = 120 \/ v = 114 -> next <> None) ->
  match m_tail sx who (nanos6_cfg cs) me v rt0 rt1 s2 d1 with
  | Ok (st3, d) => n6_gen_tail v p prev next E (W s2 d1) = Ok (tt, W st3 d)
  | Err _ => exists e', n6_gen_tail v p prev next E (W s2 d1) = Err e' /\ e' <> E_TRAP
  end.
Proof.
  intros Hv Ht H0 H1 Hsame Hrun Hnx.
  rewrite (n6_tail_form v p prev next _ Hv). cbv zeta.
  unfold m_tail. cbn [nanos6_cfg tc_bodyrule tc_ss tc_ssval tc_chans tc_appid_checked filter].
  pose proof tinfo_me as TI.
  destruct prev as [[pi pj]|]; [destruct rt0 as [[tp bp]|]; [|congruence]|subst rt0];
  (destruct next as [[i j]|]; subst rt1);
  unfold kinds in Hv; destruct Hv as [ -> | [ -> | [ -> | -> ] ] ];
  cbn [Z.eqb Pos.eqb andb orb negb is_null b2z tk_of].
  all: try rewrite n6_running_gen; try rewrite n6_stopped_gen; try rewrite n6_switch_gen.
  all: cbn [is_null]; rewrite ?TI; rewrite ?andb_true_r.
  all: rewrite ?(tid_eq s1 s2 d1 _ Ht), ?(gid_eq s1 s2 d1 _ Ht).
  all: try (cbn [tk_of] in Hsame; rewrite (Hsame _ _ _ _ eq_refl eq_refl)).
  all: repeat match goal with
       | |- context [if (tk_id ?a =? tk_id ?b) then Err E_TASK else _] => destruct (tk_id a =? tk_id b)
       | |- context [(tk_id ?t =? 0)] => destruct (tk_id t =? 0)
       | |- context [(tk_gid ?t =? 0)] => destruct (tk_gid t =? 0)
       end; cbn [orb andb].
  all: try (exfalso; apply Hnx; [first [left; reflexivity | right; reflexivity]|reflexivity]).
  all: try (eexists; split; [cbn; reflexivity|discriminate]).
  all: try (unfold TaskNanos6_gen.chan_task_running, TaskNanos6_gen.chan_task_switch; munf;
            cbn [is_null negb orb andb get_emu_thread get_emu_proc mk GuardsPre.e_who addr_thread_ext extend_get cast_ptr_ext_ptr_mthread];
            eexists; cbn; reflexivity).
  all: apply after_seq; [first [apply n6_ws_inv | apply n6_null_inv] | | ].
  all: try (unfold n6_ws, n6_null_ws, rank_ws6; rewrite TI; destruct (0 <=? ti_rank me); cbn [map app fst snd field_value];
            rewrite ?(tid_eq s1 s2 d1 _ Ht), ?(gid_eq s1 s2 d1 _ Ht); reflexivity).
  all: try (intros st3 d Ht3; apply n6_enforce_other; discriminate).
  all: intros st3 d Ht3; apply n6_enforce_x with (s1 := s1); [auto | congruence | apply (Hrun _ _ eq_refl)].
Qed.


Lemma safe_if {A} (b : option A) : (if is_null b then true else negb (is_null b)) = true.
Proof. destruct b; reflexivity. Qed.

Lemma tk_of_eq w b : (if is_null b then None else TaskNanos6_gen.body_get_task E w b) = tk_of b.
Proof. destruct b as [[i j]|]; reflexivity. Qed.

Lemma n6_update_form v p w : kinds v ->
  TaskNanos6_gen.update_task (mk who M_NANOS6 v p) E w =
  match TaskNanos6_gen.update_task_state (mk who M_NANOS6 v p) E w with
  | Ok (_, w1) =>
    match TaskNanos6_gen.update_task_ss_channel (mk who M_NANOS6 v p) v E w1 with
    | Ok (_, w2) => n6_gen_tail v p (TaskNanos6_gen.task_get_running E w (Some (who, M_NANOS6)))
                                (TaskNanos6_gen.task_get_running E w1 (Some (who, M_NANOS6))) E w2
    | Err e => Err e
    end
  | Err e => Err e
  end.
Proof.
  intros Hv. unfold TaskNanos6_gen.update_task, n6_gen_tail. munf.
  cbn [get_emu_thread mk GuardsPre.e_who addr_thread_ext extend_get cast_ptr_ext_ptr_mthread is_null negb addr_nanos6_thread_task_stack get_emu_ev_v GuardsPre.e_v].
  change 54 with M_NANOS6.
  unfold TaskNanos6_gen.task_get_running_safe, TaskNanos6_gen.body_get_task_safe. cbn [is_null negb].
  rewrite tk_of_eq, safe_if.
  destruct (TaskNanos6_gen.update_task_state (mk who M_NANOS6 v p) E w) as [[[] w1]|]; [|reflexivity].
  rewrite tk_of_eq, safe_if.
  assert (Hc : cast_int8 v = v) by (unfold kinds in Hv; destruct Hv as [ -> | [ -> | [ -> | -> ] ] ]; reflexivity). rewrite Hc.
  destruct (TaskNanos6_gen.update_task_ss_channel (mk who M_NANOS6 v p) v E w1) as [[[] w2]|]; reflexivity.
Qed.

(* side condition of the nested transitions: the C compares the two task pointers, the model their task ids *)
Definition same_task_ok (m : Z) (st : state) (th : thread) (s1 : state) (prev next : ptr_body) : Prop :=
  forall tp bp tn bn, running_top st loom pid th m = Some (tp, bp) ->
    running_top s1 loom pid (nth who (threads s1) dummy_thread) m = Some (tn, bn) ->
    ptr_eqb_task (tk_of prev) (tk_of next) = (tk_id tp =? tk_id tn).

Theorem n6_update_task_eq st th v p : nth_error (threads st) who = Some th -> kinds v -> (4 <= length p)%nat ->
  (forall s1, m_state st th false M_NANOS6 v (le_u32 p 0) 0 = Ok s1 ->
     same_task_ok M_NANOS6 st th s1 (TaskNanos6_gen.task_get_running E (W st []) (Some (who, M_NANOS6)))
                                    (TaskNanos6_gen.task_get_running E (W s1 []) (Some (who, M_NANOS6)))) ->
  match task_event sx st who (nanos6_cfg cs) M_NANOS6 v (le_u32 p 0) 0 with
  | Ok (st', d) => TaskNanos6_gen.update_task (mk who M_NANOS6 v p) E (W st []) = Ok (tt, W st' d)
  | Err _ => exists e', TaskNanos6_gen.update_task (mk who M_NANOS6 v p) E (W st []) = Err e' /\ e' <> E_TRAP
  end.
Proof.
  intros Hth Hv Hp Hsame.
  pose proof (n6_state_eq st th v p [] Hth Hv Hp) as S.
  pose proof (run_rel M_NANOS6 st th [] Hth) as R0.
  rewrite task_event_split. unfold nth_opt. rewrite Hth, Hme. cbv zeta. fold loom pid.
  rewrite (n6_update_form v p _ Hv).
  destruct (m_state st th false M_NANOS6 v (le_u32 p 0) 0) as [s1|em] eqn:Em.
  2:{ destruct S as (e' & S & Sn). rewrite S.
      unfold m_state in Em. revert Em. cbn [nanos6_cfg tc_bodyrule].
      destruct (find_task st loom pid M_NANOS6 (le_u32 p 0)) as [[ti0 tk0]|]; [|intros _; cbv beta iota; exists e'; split; [reflexivity|exact Sn]].
      intros Em. rewrite Em. cbv beta iota. exists e'; split; [reflexivity|exact Sn]. }
  rewrite S. specialize (Hsame s1 eq_refl).
  unfold m_state in Em. revert Em. cbn [nanos6_cfg tc_bodyrule].
  destruct (find_task st loom pid M_NANOS6 (le_u32 p 0)) as [[ti0 tk0]|]; [|discriminate].
  intros Em. rewrite Em. cbv beta iota.
  assert (H1 : nth_error (threads s1) who = Some (nth who (threads s1) dummy_thread)).
  { apply nth_error_nth'. rewrite (task_op_len _ _ _ _ _ _ _ _ _ _ Em). apply nth_error_Some. congruence. }
  pose proof (run_rel M_NANOS6 s1 _ [] H1) as R1.
  rewrite n6_ss_gen. cbn [app].
  change (tc_ss (nanos6_cfg cs)) with (chan_of cs M_NANOS6 TaskNanos6_gen.c_CH_SUBSYSTEM). change (tc_ssval (nanos6_cfg cs)) with TaskNanos6_gen.c_ST_TASK_BODY.
  change (TaskNanos6_gen.task_get_running E (W st []) (Some (who, M_NANOS6))) with (TaskNosv_gen.task_get_running E (W st []) (Some (who, M_NANOS6))) in *.
  change (TaskNanos6_gen.task_get_running E (W s1 []) (Some (who, M_NANOS6))) with (TaskNosv_gen.task_get_running E (W s1 []) (Some (who, M_NANOS6))) in *.
  set (prev := TaskNosv_gen.task_get_running E (W st []) (Some (who, M_NANOS6))) in *.
  set (next := TaskNosv_gen.task_get_running E (W s1 []) (Some (who, M_NANOS6))) in *.
  assert (Fin : forall s2 d1, tasks s2 = tasks s1 ->
    match m_tail sx who (nanos6_cfg cs) me v (running_top st loom pid th M_NANOS6)
            (running_top s1 loom pid (nth who (threads s1) dummy_thread) M_NANOS6) s2 d1 with
    | Ok (st3, d) => n6_gen_tail v p prev next E (W s2 d1) = Ok (tt, W st3 d)
    | Err _ => exists e', n6_gen_tail v p prev next E (W s2 d1) = Err e' /\ e' <> E_TRAP
    end).
  { intros s2 d1 Ht. apply (n6_tail_eq v p prev next _ _ s1 s2 d1 Hv Ht).
    - destruct prev as [[pi pj]|]; rewrite R0; congruence.
    - destruct next as [[i j]|]; exact R1.
    - exact Hsame.
    - intros tn bn Hr. exact (running_top_running _ _ _ _ _ Hr).
    - intros Hk. exact (run_after st th _ v _ _ s1 Hth Hk Em). }
  destruct (v =? 120).
  { destruct (chan_step sx s1 who (chan_of cs M_NANOS6 TaskNanos6_gen.c_CH_SUBSYSTEM) PUSH (Some TaskNanos6_gen.c_ST_TASK_BODY)) as [[s2 d1]|] eqn:Ec; [|cbv beta iota; eexists; split; [reflexivity|discriminate]].
    cbv beta iota. apply Fin. exact (chan_step_tasks _ _ _ _ _ _ Ec). }
  destruct (v =? 101).
  { destruct (chan_step sx s1 who (chan_of cs M_NANOS6 TaskNanos6_gen.c_CH_SUBSYSTEM) POP (Some TaskNanos6_gen.c_ST_TASK_BODY)) as [[s2 d1]|] eqn:Ec; [|cbv beta iota; eexists; split; [reflexivity|discriminate]].
    cbv beta iota. apply Fin. exact (chan_step_tasks _ _ _ _ _ _ Ec). }
  apply Fin. reflexivity.
Qed.

Lemma n6_pre_task_form v p w : kinds v ->
  TaskNanos6_gen.pre_task (mk who M_NANOS6 v p) E w =
  match TaskNanos6_gen.update_task (mk who M_NANOS6 v p) E w with
  | Ok (_, w') => Ok (tt, w')
  | Err er => if Nat.eqb er E_TRAP then Err er else Err E_FAIL
  end.
Proof.
  intros Hv. unfold TaskNanos6_gen.pre_task. unfold bind at 1. unfold eval at 1. unfold bind at 1. unfold eval at 1.
  cbn [get_emu_ev_v mk GuardsPre.e_v].
  unfold kinds in Hv. destruct Hv as [ -> | [ -> | [ -> | -> ] ] ]; cbn [Z.eqb Pos.eqb orb]; apply status_wrap.
Qed.

Theorem n6_pre_task_eq st th v p : nth_error (threads st) who = Some th -> kinds v -> (4 <= length p)%nat ->
  (forall s1, m_state st th false M_NANOS6 v (le_u32 p 0) 0 = Ok s1 ->
     same_task_ok M_NANOS6 st th s1 (TaskNanos6_gen.task_get_running E (W st []) (Some (who, M_NANOS6)))
                                    (TaskNanos6_gen.task_get_running E (W s1 []) (Some (who, M_NANOS6)))) ->
  match task_event sx st who (nanos6_cfg cs) M_NANOS6 v (le_u32 p 0) 0 with
  | Ok (st', d) => TaskNanos6_gen.pre_task (mk who M_NANOS6 v p) E (W st []) = Ok (tt, W st' d)
  | Err _ => exists e', TaskNanos6_gen.pre_task (mk who M_NANOS6 v p) E (W st []) = Err e' /\ e' <> E_TRAP
  end.
Proof.
  intros Hth Hv Hp Hsame. pose proof (n6_update_task_eq st th v p Hth Hv Hp Hsame) as U.
  rewrite (n6_pre_task_form v p _ Hv).
  destruct (task_event sx st who (nanos6_cfg cs) M_NANOS6 v (le_u32 p 0) 0) as [[st' d]|].
  - rewrite U. reflexivity.
  - destruct U as (e' & U & Un). rewrite U. apply Nat.eqb_neq in Un. rewrite Un. eexists; split; [reflexivity|discriminate].
Qed.

(* create_task: 6Tc (exactly 8 bytes of payload); flags PAUSE | RELAX_NESTING *)
Lemma n6_create_eq st p d : length p = 8%nat ->
  match EmuCoreDefs.task_create sx st who M_NANOS6 (le_u32 p 0) (le_u32 p 4) false false true true with
  | Ok s' => TaskNanos6_gen.create_task (mk who M_NANOS6 99 p) E (W st d) = Ok (tt, W s' d)
  | Err _ => TaskNanos6_gen.create_task (mk who M_NANOS6 99 p) E (W st d) = Err E_FAIL
  end.
Proof.
  intros Hp. unfold TaskNanos6_gen.create_task. munf.
  unfold get_emu_ev_payload_size, get_emu_ev_payload, get_emu_ev_payload_u32, get_emu_proc.
  cbn [mk GuardsPre.e_payload GuardsPre.e_who]. rewrite Hp. change (negb (Z.of_nat 8 =? cast_uint64 8)) with false. cbv beta iota.
  destruct p as [|p0 pr]; [discriminate|]. cbn [is_null negb].
  cbn [addr_proc_ext extend_get cast_ptr_ext_ptr_mproc is_null negb addr_nanos6_proc_task_info ix Z.to_nat nth].
  change (Pos.to_nat 1) with 1%nat. cbn [nth].
  unfold task_create; cbn [w_st w_dirty W te_sx E]. change 54 with M_NANOS6.
  repeat match goal with |- context [flag ?a ?b] => let r := eval vm_compute in (flag a b) in change (flag a b) with r end.
  match goal with |- context [EmuCoreDefs.task_create ?a ?b ?c ?d ?e ?f ?g ?h ?i ?j] => destruct (EmuCoreDefs.task_create a b c d e f g h i j) end; reflexivity.
Qed.


(* ================================================================ the pointer comparisons of the nested transitions *)

(* the running body as indices, with the ids its stack entry carries *)
Lemma run_idx m s th' d i j : nth_error (threads s) who = Some th' ->
  TaskNosv_gen.task_get_running E (W s d) (Some (who, m)) = Some (i, j) ->
  exists t b tk bd, find_task s loom pid m t = Some (i, tk) /\ find_body tk b = Some (j, bd).
Proof.
  intros Hth. unfold TaskNosv_gen.task_get_running, body_get_running, addr_task_stack_body_stack. cbn [te_sx E w_st W].
  unfold Guards_gen.body_get_running. cbv zeta. unfold GuardsPre.get_body_stack_top. rewrite (GuardsProofs.thr_of _ _ _ Hth).
  destruct (model_stack th' m) as [|[[m0 t] b] r] eqn:Em; [cbn; discriminate|].
  pose proof (GuardsTaskProofs.head_model m _ _ _ _ _ Em) as ->.
  unfold GuardsPre.resolve, nth_opt. rewrite Hme. fold loom pid.
  destruct (find_task s loom pid m t) as [[i' tk]|] eqn:Ft; [|cbn; discriminate].
  destruct (find_body tk b) as [[j' bd]|] eqn:Fb; [|cbn; discriminate].
  destruct (negb (is_null (Some (i', j'))) && _); [|discriminate].
  intros H; inversion H; subst. exists t, b, tk, bd. split; [exact Ft|exact Fb].
Qed.

(* first-match lookups: equal ids <-> equal positions *)
Lemma find_body_same tk b0 b1 pj j x y : find_body tk b0 = Some (pj, x) -> find_body tk b1 = Some (j, y) ->
  Nat.eqb pj j = (b0 =? b1).
Proof.
  intros H0 H1. destruct (Z.eqb_spec b0 b1) as [->|N].
  - rewrite H0 in H1. inversion H1; subst. apply Nat.eqb_refl.
  - apply Nat.eqb_neq. intros ->.
    destruct (GuardsTaskProofs.find_body_spec _ _ _ _ H0) as (A & B). destruct (GuardsTaskProofs.find_body_spec _ _ _ _ H1) as (C & D). congruence.
Qed.

Lemma ptr_ids st th m kind tid bid s1 pi pj i j :
  nth_error (threads st) who = Some th -> task_op st who th loom pid m kind tid bid = Ok s1 ->
  TaskNosv_gen.task_get_running E (W st []) (Some (who, m)) = Some (pi, pj) ->
  TaskNosv_gen.task_get_running E (W s1 []) (Some (who, m)) = Some (i, j) ->
  Nat.eqb pi i = (tk_id (GuardsPre.tsk st pi) =? tk_id (GuardsPre.tsk s1 i)) /\
  (pi = i -> Nat.eqb pj j = (b_id (GuardsPre.bdy st pi pj) =? b_id (GuardsPre.bdy s1 i j))).
Proof.
  intros Hth Hop Hp Hn.
  assert (H1 : nth_error (threads s1) who = Some (nth who (threads s1) dummy_thread)).
  { apply nth_error_nth'. rewrite (task_op_len _ _ _ _ _ _ _ _ _ _ Hop). apply nth_error_Some. congruence. }
  destruct (run_idx m st th [] pi pj Hth Hp) as (t0 & b0 & tk0 & bd0 & F0 & B0).
  destruct (run_idx m s1 _ [] i j H1 Hn) as (t1 & b1 & tk1 & bd1 & F1 & B1).
  destruct (task_op_shape _ _ _ _ _ _ _ _ _ _ Hop) as (ti & tk & obi & b' & Ft & Hts & Hbid & Hobi).
  destruct (GuardsTaskProofs.find_task_spec _ _ _ _ _ _ _ F0) as (N0 & I0 & _).
  destruct (GuardsTaskProofs.find_task_spec _ _ _ _ _ _ _ F1) as (N1 & I1 & _).
  destruct (GuardsTaskProofs.find_task_spec _ _ _ _ _ _ _ Ft) as (Nt & It & _).
  destruct (GuardsTaskProofs.find_body_spec _ _ _ _ B0) as (NB0 & IB0).
  destruct (GuardsTaskProofs.find_body_spec _ _ _ _ B1) as (NB1 & IB1).
  rewrite (GuardsTaskProofs.tsk_of _ _ _ N0), (GuardsTaskProofs.tsk_of _ _ _ N1), I0, I1.
  rewrite (GuardsTaskProofs.bdy_of _ _ _ _ _ N0 NB0), (GuardsTaskProofs.bdy_of _ _ _ _ _ N1 NB1), IB0, IB1.
  (* the lookup in s1 is the lookup in st, up to the record *)
  unfold find_task in F1. rewrite Hts in F1.
  rewrite (GuardsTaskProofs.find_task_from_update _ loom pid m t1 ti 0 tk _ Nt) in F1 by (unfold GuardsTaskProofs.same_keys, set_bodies; cbn; auto).
  fold (find_task st loom pid m t1) in F1.
  destruct (find_task st loom pid m t1) as [[i' y]|] eqn:F1'; [|discriminate].
  inversion F1; subst i'. clear F1. rewrite Nat.add_0_r in H2.
  destruct (GuardsTaskProofs.find_task_spec _ _ _ _ _ _ _ F1') as (N1' & I1' & _).
  assert (Hi : Nat.eqb pi i = (t0 =? t1)).
  { destruct (Z.eqb_spec t0 t1) as [->|N].
    - rewrite F0 in F1'. inversion F1'; subst. apply Nat.eqb_refl.
    - apply Nat.eqb_neq. intros ->. congruence. }
  split; [exact Hi|]. intros ->.
  assert (y = tk0) by congruence. subst y.
  destruct (Nat.eqb_spec i ti) as [->|Ni].
  2:{ subst tk1. exact (find_body_same _ _ _ _ _ _ _ B0 B1). }
  assert (tk0 = tk) by congruence. subst tk0. subst tk1.
  unfold find_body in B1. cbn [set_bodies tk_bodies] in B1. unfold new_bodies in B1.
  destruct obi as [bi|].
  - destruct Hobi as (b & Fb). destruct (GuardsTaskProofs.find_body_spec _ _ _ _ Fb) as (Nb & Ib).
    rewrite (GuardsTaskProofs.find_body_from_update _ b1 bi 0 b b' Nb) in B1 by congruence.
    fold (find_body tk b1) in B1. destruct (find_body tk b1) as [[j' y]|] eqn:B1'; [|discriminate].
    inversion B1; subst j'. exact (find_body_same _ _ _ _ _ _ _ B0 B1').
  - rewrite GuardsTaskProofs.find_body_from_app in B1. fold (find_body tk b1) in B1.
    destruct (find_body tk b1) as [[j' y]|] eqn:B1'.
    + inversion B1; subst. exact (find_body_same _ _ _ _ _ _ _ B0 B1').
    + destruct (b_id b' =? b1) eqn:Eb; [|discriminate]. inversion B1; subst j. apply Z.eqb_eq in Eb.
      assert (Hlt : (pj < length (tk_bodies tk))%nat) by (apply nth_error_Some; congruence).
      assert (Hne : b0 <> b1) by (intros ->; congruence).
      apply Z.eqb_neq in Hne. rewrite Hne. apply Nat.eqb_neq. cbn. lia.
Qed.


Lemma m_state_op st th rule m v tid rawbid s1 : m_state st th rule m v tid rawbid = Ok s1 ->
  exists bid, task_op st who th loom pid m v tid bid = Ok s1.
Proof.
  unfold m_state. destruct (find_task st loom pid m tid) as [[ti tk]|]; [|discriminate].
  destruct (if rule then _ else _) as [bid|]; [|discriminate]. intros H. exists bid. exact H.
Qed.

Lemma same_body_holds st th rule m v tid rawbid s1 : nth_error (threads st) who = Some th ->
  m_state st th rule m v tid rawbid = Ok s1 ->
  same_body_ok m st th s1 (TaskNosv_gen.task_get_running E (W st []) (Some (who, m))) (TaskNosv_gen.task_get_running E (W s1 []) (Some (who, m))).
Proof.
  intros Hth Hm. destruct (m_state_op _ _ _ _ _ _ _ _ Hm) as (bid & Hop).
  assert (H1 : nth_error (threads s1) who = Some (nth who (threads s1) dummy_thread)).
  { apply nth_error_nth'. rewrite (task_op_len _ _ _ _ _ _ _ _ _ _ Hop). apply nth_error_Some. congruence. }
  pose proof (run_rel m st th [] Hth) as R0. pose proof (run_rel m s1 _ [] H1) as R1.
  intros tp bp tn bn Hp Hn.
  destruct (TaskNosv_gen.task_get_running E (W st []) (Some (who, m))) as [[pi pj]|] eqn:Ep; [|congruence].
  destruct (TaskNosv_gen.task_get_running E (W s1 []) (Some (who, m))) as [[i j]|] eqn:En; [|congruence].
  rewrite Hp in R0. rewrite Hn in R1. inversion R0; subst tp bp. inversion R1; subst tn bn.
  destruct (ptr_ids st th m v tid bid s1 pi pj i j Hth Hop Ep En) as [A B].
  unfold ptr_eqb_body, GuardsPre.ptr_eqb_body.
  destruct (Nat.eqb_spec pi i) as [Et|Et]; rewrite <- A; [|reflexivity].
  rewrite (B Et). reflexivity.
Qed.

Lemma same_task_holds st th rule m v tid rawbid s1 : nth_error (threads st) who = Some th ->
  m_state st th rule m v tid rawbid = Ok s1 ->
  same_task_ok m st th s1 (TaskNosv_gen.task_get_running E (W st []) (Some (who, m))) (TaskNosv_gen.task_get_running E (W s1 []) (Some (who, m))).
Proof.
  intros Hth Hm. destruct (m_state_op _ _ _ _ _ _ _ _ Hm) as (bid & Hop).
  assert (H1 : nth_error (threads s1) who = Some (nth who (threads s1) dummy_thread)).
  { apply nth_error_nth'. rewrite (task_op_len _ _ _ _ _ _ _ _ _ _ Hop). apply nth_error_Some. congruence. }
  pose proof (run_rel m st th [] Hth) as R0. pose proof (run_rel m s1 _ [] H1) as R1.
  intros tp bp tn bn Hp Hn.
  destruct (TaskNosv_gen.task_get_running E (W st []) (Some (who, m))) as [[pi pj]|] eqn:Ep; [|congruence].
  destruct (TaskNosv_gen.task_get_running E (W s1 []) (Some (who, m))) as [[i j]|] eqn:En; [|congruence].
  rewrite Hp in R0. rewrite Hn in R1. inversion R0; subst tp bp. inversion R1; subst tn bn.
  destruct (ptr_ids st th m v tid bid s1 pi pj i j Hth Hop Ep En) as [A _].
  cbn [tk_of ptr_eqb_task]. exact A.
Qed.

(* ---- the two theorems without side condition *)
Theorem nosv_task_events st th v p : nth_error (threads st) who = Some th -> kinds v -> (8 <= length p)%nat ->
  match task_event sx st who (nosv_cfg cs) M_NOSV v (le_u32 p 0) (le_u32 p 4) with
  | Ok (st', d) => TaskNosv_gen.pre_task (mk who M_NOSV v p) E (W st []) = Ok (tt, W st' d)
  | Err _ => exists e', TaskNosv_gen.pre_task (mk who M_NOSV v p) E (W st []) = Err e' /\ e' <> E_TRAP
  end.
Proof.
  intros Hth Hv Hp. apply (nosv_pre_task_eq st th v p Hth Hv Hp).
  intros s1 Hm. exact (same_body_holds st th true M_NOSV v _ _ s1 Hth Hm).
Qed.

Theorem n6_task_events st th v p : nth_error (threads st) who = Some th -> kinds v -> (4 <= length p)%nat ->
  match task_event sx st who (nanos6_cfg cs) M_NANOS6 v (le_u32 p 0) 0 with
  | Ok (st', d) => TaskNanos6_gen.pre_task (mk who M_NANOS6 v p) E (W st []) = Ok (tt, W st' d)
  | Err _ => exists e', TaskNanos6_gen.pre_task (mk who M_NANOS6 v p) E (W st []) = Err e' /\ e' <> E_TRAP
  end.
Proof.
  intros Hth Hv Hp. apply (n6_pre_task_eq st th v p Hth Hv Hp).
  intros s1 Hm. exact (same_task_holds st th false M_NANOS6 v _ _ s1 Hth Hm).
Qed.




(* ---- pre_task on the create events *)
Theorem nosv_pre_task_create st v p d : v = 67 \/ v = 99 -> (8 <= length p)%nat ->
  match EmuCoreDefs.task_create sx st who M_NOSV (le_u32 p 0) (le_u32 p 4) (v =? 67) (negb (v =? 67)) (negb (v =? 67)) false with
  | Ok s' => TaskNosv_gen.pre_task (mk who M_NOSV v p) E (W st d) = Ok (tt, W s' d)
  | Err _ => TaskNosv_gen.pre_task (mk who M_NOSV v p) E (W st d) = Err E_FAIL
  end.
Proof.
  intros Hv Hp. pose proof (nosv_create_eq st v p d Hv Hp) as C.
  assert (F : TaskNosv_gen.pre_task (mk who M_NOSV v p) E (W st d) =
              match TaskNosv_gen.create_task (mk who M_NOSV v p) v E (W st d) with
              | Ok (_, w') => Ok (tt, w') | Err e => if Nat.eqb e E_TRAP then Err e else Err E_FAIL end).
  { unfold TaskNosv_gen.pre_task. unfold bind at 1. unfold eval at 1. unfold bind at 1. unfold eval at 1.
    cbn [get_emu_ev_v mk GuardsPre.e_v].
    assert (Hc : cast_int8 v = v) by (destruct Hv as [ -> | -> ]; reflexivity).
    assert (Hs : (v =? 67) || (v =? 99) = true) by (destruct Hv as [ -> | -> ]; reflexivity). rewrite Hs.
    rewrite status_wrap. unfold bind at 1. unfold eval at 1. cbn [get_emu_ev_v mk GuardsPre.e_v]. rewrite Hc. reflexivity. }
  rewrite F.
  destruct (EmuCoreDefs.task_create sx st who M_NOSV (le_u32 p 0) (le_u32 p 4) (v =? 67) (negb (v =? 67)) (negb (v =? 67)) false); rewrite C; reflexivity.
Qed.

(* 6Tc creates; the old 6TC is accepted and ignored *)
Theorem n6_pre_task_create st p d : length p = 8%nat ->
  match EmuCoreDefs.task_create sx st who M_NANOS6 (le_u32 p 0) (le_u32 p 4) false false true true with
  | Ok s' => TaskNanos6_gen.pre_task (mk who M_NANOS6 99 p) E (W st d) = Ok (tt, W s' d)
  | Err _ => TaskNanos6_gen.pre_task (mk who M_NANOS6 99 p) E (W st d) = Err E_FAIL
  end.
Proof.
  intros Hp. pose proof (n6_create_eq st p d Hp) as C.
  assert (F : TaskNanos6_gen.pre_task (mk who M_NANOS6 99 p) E (W st d) =
              match TaskNanos6_gen.create_task (mk who M_NANOS6 99 p) E (W st d) with
              | Ok (_, w') => Ok (tt, w') | Err e => if Nat.eqb e E_TRAP then Err e else Err E_FAIL end).
  { unfold TaskNanos6_gen.pre_task. unfold bind at 1. unfold eval at 1. unfold bind at 1. unfold eval at 1.
    cbn [get_emu_ev_v mk GuardsPre.e_v Z.eqb Pos.eqb]. apply status_wrap. }
  rewrite F.
  destruct (EmuCoreDefs.task_create sx st who M_NANOS6 (le_u32 p 0) (le_u32 p 4) false false true true); rewrite C; reflexivity.
Qed.
Theorem n6_pre_task_old_create p w : TaskNanos6_gen.pre_task (mk who M_NANOS6 67 p) E w = Ok (tt, w).
Proof. reflexivity. Qed.

End Ev.
