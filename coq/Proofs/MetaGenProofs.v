(* The emulator-side metadata gates, generated from the C source (Gen/Meta_gen.v, unit meta) = the hand models:
   (1) Emu/LoaderMetaDefs.meta_check on the look-ups of the tree (Rt/RtMetaDefs.to_loader_meta)        -> C12
   (2) the claims Emu/MetaDefs starts from (Rt/RtMetaDefs.to_stream_meta) and its per-level refusals      -> C15
   (3) the per-thread step of Emu/VersionDefs' enable rule                                                -> C14 *)
From OV Require Import Base.CInt Emu.LoaderMetaDefs Emu.VersionDefs Rt.RtMetaDefs Emu.MetaPre Gen.Meta_gen Gen.Version_gen.
From OV Require Emu.MetaDefs.
From OV Require Import Proofs.RtMetaProofs.
From Coq Require Import ZifyBool.
Local Open Scope Z_scope.

(* ------------------------------------------------------------------ basics *)
Lemma str_cmp_refl a : str_cmp a a = 0.
Proof. induction a as [|x a IH]; cbn [str_cmp]; [reflexivity|]. rewrite Z.ltb_irrefl. exact IH. Qed.

Lemma str_cmp_eq a : forall b, str_cmp a b = 0 -> a = b.
Proof.
  induction a as [|x a IH]; intros [|y b]; cbn [str_cmp]; try discriminate; [reflexivity|].
  destruct (x <? y) eqn:E1; [discriminate|]. destruct (y <? x) eqn:E2; [discriminate|].
  intros H. f_equal; [lia|apply IH; exact H].
Qed.

Lemma list_Z_eqb_eq a : forall b, list_Z_eqb a b = true <-> a = b.
Proof.
  unfold list_Z_eqb. induction a as [|x a IH]; intros [|y b]; cbn [length combine forallb fst snd Nat.eqb andb]; try (split; [discriminate|discriminate]); [tauto|].
  specialize (IH b). split.
  - intros H. apply andb_true_iff in H. destruct H as [L H]. apply andb_true_iff in H. destruct H as [E F].
    f_equal; [lia|]. apply IH. rewrite L, F. reflexivity.
  - intros H. injection H as -> ->. destruct IH as [_ IH]. specialize (IH eq_refl). apply andb_true_iff in IH. destruct IH as [L F].
    rewrite L, F, Z.eqb_refl. reflexivity.
Qed.

Lemma str_cmp_thread p : (str_cmp p [116; 104; 114; 101; 97; 100] =? 0) = list_Z_eqb p str_thread.
Proof.
  destruct (list_Z_eqb p str_thread) eqn:E.
  - apply list_Z_eqb_eq in E. subst p. reflexivity.
  - destruct (str_cmp p [116; 104; 114; 101; 97; 100] =? 0) eqn:C; [|reflexivity].
    apply Z.eqb_eq, str_cmp_eq in C. subst p. discriminate.
Qed.

(* the dotted names the emulator asks for, as component paths *)
Definition n_part : str := [111; 118; 110; 105; 46; 112; 97; 114; 116].
Lemma dotget_paths fs :
  dotget fs [111; 118; 110; 105; 46; 112; 97; 114; 116] = pget fs [k_ovni; k_part] /\
  dotget fs [111; 118; 110; 105; 46; 108; 111; 111; 109] = pget fs [k_ovni; k_loom] /\
  dotget fs [111; 118; 110; 105; 46; 112; 105; 100] = pget fs [k_ovni; k_pid] /\
  dotget fs [111; 118; 110; 105; 46; 116; 105; 100] = pget fs [k_ovni; k_tid] /\
  dotget fs [111; 118; 110; 105; 46; 97; 112; 112; 95; 105; 100] = pget fs [k_ovni; k_app_id] /\
  dotget fs [111; 118; 110; 105; 46; 102; 105; 110; 105; 115; 104; 101; 100] = pget fs [k_ovni; k_finished] /\
  dotget fs [111; 118; 110; 105; 46; 114; 101; 113; 117; 105; 114; 101] = pget fs [k_ovni; k_require] /\
  dotget fs [111; 118; 110; 105; 46; 114; 97; 110; 107] = pget fs [k_ovni; k_rank] /\
  dotget fs [111; 118; 110; 105; 46; 110; 114; 97; 110; 107; 115] = pget fs [k_ovni; k_nranks] /\
  dotget fs [111; 118; 110; 105; 46; 108; 111; 111; 109; 95; 99; 112; 117; 115] = pget fs [k_ovni; k_loom_cpus] /\
  dotget fs [111; 118; 110; 105; 46; 108; 105; 98; 46; 118; 101; 114; 115; 105; 111; 110] = pget fs [k_ovni; k_lib; k_version] /\
  dotget fs [111; 118; 110; 105; 46; 108; 105; 98; 46; 99; 111; 109; 109; 105; 116] = pget fs [k_ovni; k_lib; k_commit].
Proof. repeat split. Qed.

(* what the look-ups of LoaderMetaDefs are on a tree value *)
Lemma jnum_jv v : json_number (mkE None (fun _ _ => 0)) (fresh None) v = j_number (jv v).
Proof. destruct v as [[|b|z|s|l|o]|]; reflexivity. Qed.
Lemma jstr_jv v : jv_string v = j_string (jv v).
Proof. destruct v as [[|b|z|s|l|o]|]; reflexivity. Qed.
Lemma jpres_jv (v : option json) : is_null v = negb (j_present (jv v)).
Proof. destruct v as [[|b|z|s|l|o]|]; reflexivity. Qed.
Lemma jobj_jv v : is_null (jv_object v) = negb (j_is_object (jv v)).
Proof. destruct v as [[|b|z|s|l|o]|]; reflexivity. Qed.

(* ------------------------------------------------------------------ each generated gate on a tree *)
Section Gates.
Variable sx : menv.
Variable fs : fields.

Lemma check_version_spec st :
  check_version sx st (Some fs) =
  (let v := jv (pget fs [k_version]) in if j_present v && (j_number v =? METADATA_VERSION) then 0 else -1).
Proof.
  unfold check_version, json_object_get_value, str_lit, int_of_double, json_number. change (pget fs [k_version]) with (fget fs k_version).
  change [118; 101; 114; 115; 105; 111; 110] with k_version.
  destruct (fget fs k_version) as [[|b|z|s|l|o]|]; try reflexivity. cbn [is_null jv j_present j_number andb].
  unfold METADATA_VERSION. destruct (z =? 3); reflexivity.
Qed.

Lemma is_thread_stream_spec st : sm st = Some fs ->
  is_thread_stream sx st tt =
  match j_string (jv (pget fs [k_ovni; k_part])) with
  | None => -1
  | Some p => if list_Z_eqb p str_thread then 1 else 0
  end.
Proof.
  intros H. unfold is_thread_stream, stream_metadata, json_object_dotget_string, json_object_dotget_value, str_lit, strcmp. rewrite H.
  cbn [is_null]. destruct (dotget_paths fs) as (-> & _). rewrite jstr_jv.
  destruct (j_string (jv (pget fs [k_ovni; k_part]))) as [p|]; cbn [is_null]; [|reflexivity].
  rewrite str_cmp_thread. reflexivity.
Qed.

Lemma loom_name_spec st : sm st = Some fs -> loom_name sx st tt = j_string (jv (pget fs [k_ovni; k_loom])).
Proof.
  intros H. unfold loom_name, stream_metadata, json_object_dotget_string, json_object_dotget_value, str_lit. rewrite H.
  destruct (dotget_paths fs) as (_ & -> & _). rewrite jstr_jv. destruct (j_string _); reflexivity.
Qed.

Lemma pid_spec st : sm st = Some fs ->
  proc_stream_get_pid sx st tt = (let n := j_number (jv (pget fs [k_ovni; k_pid])) in if n =? 0 then -1 else n).
Proof.
  intros H. unfold proc_stream_get_pid, stream_metadata, json_object_dotget_number, json_object_dotget_value, str_lit, double_eqb, double_of_int, int_of_double. rewrite H.
  destruct (dotget_paths fs) as (_ & _ & -> & _). destruct (pget fs [k_ovni; k_pid]) as [[|b|z|s|l|o]|]; reflexivity.
Qed.

Lemma tid_spec st : sm st = Some fs ->
  thread_stream_get_tid sx st tt = (let n := j_number (jv (pget fs [k_ovni; k_tid])) in if n =? 0 then -1 else n).
Proof.
  intros H. unfold thread_stream_get_tid, stream_metadata, json_object_dotget_number, json_object_dotget_value, str_lit, double_eqb, double_of_int, int_of_double. rewrite H.
  destruct (dotget_paths fs) as (_ & _ & _ & -> & _). destruct (pget fs [k_ovni; k_tid]) as [[|b|z|s|l|o]|]; reflexivity.
Qed.

Definition with_appid (st : mstate) (a : Z) : mstate := mkM (sm st) a (p_rank st) (p_nranks st) (th_meta st).
Definition with_rank (st : mstate) (r n : Z) : mstate := mkM (sm st) (p_appid st) r n (th_meta st).
Definition with_tmeta (st : mstate) (m : ptr_jobj) : mstate := mkM (sm st) (p_appid st) (p_rank st) (p_nranks st) m.

Lemma load_appid_spec st : sm st = Some fs ->
  exec (load_appid tt tt) sx st =
  (let v := jv (pget fs [k_ovni; k_app_id]) in
   if negb (j_present v) then MOk st
   else if negb (p_appid st =? 0) && negb (p_appid st =? j_number v) then MErr E_FAIL
   else if j_number v <=? 0 then MErr E_FAIL
   else MOk (with_appid st (j_number v))).
Proof.
  intros H. unfold exec, load_appid, bind, bind_, eval, ite, ret, fail, stream_metadata, json_object_dotget_value, str_lit, int_of_double,
    get_proc_appid, set_proc_appid, json_number. rewrite H.
  destruct (dotget_paths fs) as (_ & _ & _ & _ & -> & _).
  destruct (pget fs [k_ovni; k_app_id]) as [[|b|z|s|l|o]|]; cbn [is_null jv j_present j_number negb];
    try (destruct (negb (p_appid st =? 0) && negb (p_appid st =? 0)); reflexivity); try reflexivity.
  destruct (negb (p_appid st =? 0) && negb (p_appid st =? z)); [reflexivity|]. destruct (z <=? 0); reflexivity.
Qed.

Lemma thread_load_metadata_spec st : sm st = Some fs ->
  exec (thread_load_metadata tt tt) sx st =
  if negb (is_null (th_meta st)) then MErr E_FAIL
  else if negb (j_number (jv (pget fs [k_ovni; k_finished])) =? 1) then MErr E_FAIL
  else MOk (with_tmeta st (Some fs)).
Proof.
  intros H. unfold exec, thread_load_metadata, bind, bind_, eval, ite, ret, fail, stream_metadata, json_object_dotget_number, json_object_dotget_value,
    str_lit, double_eqb, double_of_int, get_thread_meta, set_thread_meta. rewrite H.
  destruct (negb (is_null (th_meta st))); [reflexivity|].
  destruct (dotget_paths fs) as (_ & _ & _ & _ & _ & -> & _).
  destruct (pget fs [k_ovni; k_finished]) as [[|b|z|s|l|o]|]; cbn [json_number jv j_number]; try reflexivity.
  destruct (negb (z =? 1)); reflexivity.
Qed.

(* should_enable of a spec without a name: only the spec-independent gates are left *)
Lemma should_enable_gate c st have : th_meta st = Some fs ->
  should_enable (mkE None c) st have tt tt = if j_is_object (jv (pget fs [k_ovni; k_require])) then 0 else -1.
Proof.
  intros H. unfold should_enable, get_thread_meta, json_object_dotget_object, json_object_dotget_value, str_lit, get_model_spec_name,
    json_object_get_string, json_object_get_value. rewrite H. cbn [is_null spec_name].
  destruct (dotget_paths fs) as (_ & _ & _ & _ & _ & _ & -> & _).
  destruct (pget fs [k_ovni; k_require]) as [[|b|z|s|l|r]|]; reflexivity.
Qed.
Definition rank_num (v : option json) : Z := match v with Some (jnum z) => z | _ => 0 end.
Lemma load_rank_spec st : sm st = Some fs ->
  exec (load_rank tt tt) sx st =
  (let vr := pget fs [k_ovni; k_rank] in let vn := pget fs [k_ovni; k_nranks] in
   let r := rank_num vr in let n := rank_num vn in
   if is_null vr then MOk st
   else if r <? 0 then MErr E_FAIL
   else if (p_rank st >=? 0) && negb (p_rank st =? r) then MErr E_FAIL
   else if is_null vn then MErr E_FAIL
   else if n <=? 0 then MErr E_FAIL
   else if (p_nranks st >? 0) && negb (p_nranks st =? n) then MErr E_FAIL
   else if r >=? n then MErr E_FAIL
   else MOk (with_rank st r n)).
Proof.
  intros H. unfold exec, load_rank, bind_, bind, eval, ite, ret, fail, stream_metadata, json_object_dotget_value, str_lit, int_of_double,
    get_proc_rank, get_proc_nranks, set_proc_rank, set_proc_nranks, json_number, rank_num. rewrite H.
  destruct (dotget_paths fs) as (_ & _ & _ & _ & _ & _ & _ & -> & -> & _). cbv zeta.
  destruct (pget fs [k_ovni; k_rank]) as [[|b|r|l|ar|o]|]; destruct (pget fs [k_ovni; k_nranks]) as [[|b2|n|l2|ar2|o2]|];
    cbv beta iota; cbn [is_null];
    repeat (match goal with |- context [if ?c then _ else _] => lazymatch c with context [if _ then _ else _] => fail | _ => destruct c end end);
    try reflexivity; unfold with_rank; cbn [sm p_appid p_rank p_nranks th_meta]; rewrite H; reflexivity.
Qed.
End Gates.

(* ------------------------------------------------------------------ (1) the gates in the order the emulator runs them *)
(* which function refuses *)
Inductive gate := GNotObject | GVersion | GPart | GLoom | GLoomName | GPid | GAppId | GTid | GFinished
                | GLibVersion | GLibCommit | GNoAppId | GRequire.
Inductive gate_res := GateOk | GateIgnored | GateErr (g : gate).

(* the error classes of LoaderMetaDefs per refusing function: check_version has two (no "version" / another version) *)
Definition gate_of (e : meta_err) : gate :=
  match e with
  | MUnparsable | MNotObject => GNotObject
  | MNoVersion | MVersionMismatch => GVersion
  | MNoPart => GPart | MNoLoom => GLoom | MBadLoomName => GLoomName | MNoPid => GPid | MBadAppId => GAppId
  | MNoTid => GTid | MNotFinished => GFinished | MNoLibVersion => GLibVersion | MNoLibCommit => GLibCommit
  | MNoAppId => GNoAppId | MNoRequire => GRequire
  end.
Definition coarse (r : meta_res) : gate_res :=
  match r with MetaOk => GateOk | MetaIgnored => GateIgnored | MetaErr e => GateErr (gate_of e) end.

Definition n_lib_version : str := [111; 118; 110; 105; 46; 108; 105; 98; 46; 118; 101; 114; 115; 105; 111; 110].
Definition n_lib_commit : str := [111; 118; 110; 105; 46; 108; 105; 98; 46; 99; 111; 109; 109; 105; 116].

(* One stream through the loader and create_system, the GENERATED functions called as the C callers call them; the glue
   (what the callers do with the results, and the three gates that are not generated) is written here after
   stream.c load_json, system.c create_system / create_loom / create_proc / create_thread / report_libovni_version,
   loom.c loom_init_begin, proc.c proc_init_end, model.c model_version_probe.  load_rank and load_cpus are C15's
   (stream_claims_from_source below); they do not change what the other gates see. *)
Definition gate_run (sx : menv) (j : json) (proc_has_app_id : bool) : gate_res :=
  match j with
  | jobj fs =>                                                         (* load_json: json_value_get_object != NULL *)
    let st := fresh (Some fs) in
    if negb (check_version sx st (Some fs) =? 0) then GateErr GVersion else          (* load_json: check_version(meta) != 0 *)
    let ok := is_thread_stream sx st tt in                                            (* create_system *)
    if ok <? 0 then GateErr GPart else if ok =? 0 then GateIgnored else
    match loom_name sx st tt with                                                     (* create_loom *)
    | None => GateErr GLoom
    | Some name =>
      if existsb (Z.eqb SLASH) name then GateErr GLoomName else                      (* loom_init_begin: strchr(name, '/'), hand *)
      if proc_stream_get_pid sx st tt <? 0 then GateErr GPid else                     (* create_proc: pid < 0 *)
      match exec (load_appid tt tt) sx st with                                        (* proc_load_metadata *)
      | MErr _ => GateErr GAppId
      | MOk st1 =>
        if thread_stream_get_tid sx st1 tt <? 0 then GateErr GTid else                (* create_thread: tid < 0 *)
        match exec (thread_load_metadata tt tt) sx st1 with
        | MErr _ => GateErr GFinished
        | MOk st2 =>
          (* report_libovni_version: a loop over the threads, hand *)
          if is_null (json_object_dotget_string sx st2 (th_meta st2) (Some n_lib_version)) then GateErr GLibVersion else
          if is_null (json_object_dotget_string sx st2 (th_meta st2) (Some n_lib_commit)) then GateErr GLibCommit else
          (* proc_init_end: appid set by some stream of the process, hand *)
          if negb proc_has_app_id then GateErr GNoAppId else
          (* model_version_probe -> should_enable for every model: the part that does not depend on the model *)
          if should_enable (mkE None (compat sx)) st2 [] tt tt <? 0 then GateErr GRequire else GateOk
        end
      end
    end
  | _ => GateErr GNotObject
  end.

Theorem gates_from_source : forall sx j has_app,
  gate_run sx j has_app = coarse (meta_check (to_loader_meta j) has_app).
Proof.
  intros sx j has_app. destruct j as [|b|z|s|l|fs]; try reflexivity.
  unfold gate_run. set (st := fresh (Some fs)).
  assert (Hs : sm st = Some fs) by reflexivity.
  rewrite check_version_spec, (is_thread_stream_spec sx fs st Hs), (loom_name_spec sx fs st Hs), (pid_spec sx fs st Hs), (load_appid_spec sx fs st Hs).
  unfold meta_check, to_loader_meta.
  cbn [m_parses m_is_object m_version m_part m_loom m_pid m_tid m_app_id m_finished m_require m_lib_version m_lib_commit negb].
  set (vv := jv (pget fs [k_version])). set (vp := jv (pget fs [k_ovni; k_part])). set (vl := jv (pget fs [k_ovni; k_loom])).
  set (vpid := jv (pget fs [k_ovni; k_pid])). set (vapp := jv (pget fs [k_ovni; k_app_id])).
  cbv zeta.
  destruct (j_present vv) eqn:Pv; cbn [andb negb]; [|reflexivity].
  destruct (j_number vv =? METADATA_VERSION) eqn:Ev; cbn [negb]; [|reflexivity].
  change (0 =? 0) with true. cbn [negb].
  destruct (j_string vp) as [part|]; [|reflexivity].
  destruct (list_Z_eqb part str_thread); [|reflexivity].
  change (1 <? 0) with false. change (1 =? 0) with false. cbn [negb].
  destruct (j_string vl) as [name|]; [|reflexivity].
  destruct (existsb (Z.eqb SLASH) name); [reflexivity|].
  assert (Epid : ((if j_number vpid =? 0 then -1 else j_number vpid) <? 0) = (j_number vpid <=? 0)).
  { destruct (j_number vpid =? 0) eqn:E; lia. }
  rewrite Epid. destruct (j_number vpid <=? 0); [reflexivity|].
  change (p_appid st) with 0. change (0 =? 0) with true. cbn [negb andb].
  assert (Eapp : match (if negb (j_present vapp) then MOk st else if j_number vapp <=? 0 then MErr E_FAIL else MOk (with_appid st (j_number vapp))) with
                 | MErr _ => true | MOk _ => false end = j_present vapp && (j_number vapp <=? 0)).
  { destruct (j_present vapp); cbn [negb andb]; [|reflexivity]. destruct (j_number vapp <=? 0); reflexivity. }
  destruct (j_present vapp && (j_number vapp <=? 0)) eqn:Ea.
  - destruct (j_present vapp); cbn [negb andb] in *; [|discriminate]. rewrite Ea. reflexivity.
  - set (st1 := if negb (j_present vapp) then st else with_appid st (j_number vapp)).
    assert (E1 : (if negb (j_present vapp) then MOk st else if j_number vapp <=? 0 then MErr E_FAIL else MOk (with_appid st (j_number vapp))) = MOk st1).
    { unfold st1. destruct (j_present vapp); cbn [negb andb] in *; [rewrite Ea|]; reflexivity. }
    rewrite E1.
    assert (Hs1 : sm st1 = Some fs) by (unfold st1; destruct (negb (j_present vapp)); reflexivity).
    assert (Ht1 : th_meta st1 = None) by (unfold st1; destruct (negb (j_present vapp)); reflexivity).
    rewrite (tid_spec sx fs st1 Hs1), (thread_load_metadata_spec sx fs st1 Hs1). rewrite Ht1. cbn [is_null negb]. cbv zeta.
    set (vtid := jv (pget fs [k_ovni; k_tid])).
    assert (Etid : ((if j_number vtid =? 0 then -1 else j_number vtid) <? 0) = (j_number vtid <=? 0)).
    { destruct (j_number vtid =? 0) eqn:E; lia. }
    rewrite Etid. destruct (j_number vtid <=? 0); [reflexivity|].
    destruct (j_number (jv (pget fs [k_ovni; k_finished])) =? 1); cbn [negb]; [|reflexivity].
    change (th_meta (with_tmeta st1 (Some fs))) with (Some fs).
    unfold json_object_dotget_string, json_object_dotget_value, n_lib_version, n_lib_commit.
    destruct (dotget_paths fs) as (_ & _ & _ & _ & _ & _ & _ & _ & _ & _ & -> & ->). rewrite !jstr_jv.
    destruct (j_string (jv (pget fs [k_ovni; k_lib; k_version]))); cbn [is_null]; [|reflexivity].
    destruct (j_string (jv (pget fs [k_ovni; k_lib; k_commit]))); cbn [is_null]; [|reflexivity].
    destruct has_app; cbn [negb]; [|reflexivity].
    match goal with |- context [should_enable ?e ?s0 ?h tt tt] => rewrite (should_enable_gate fs (compat sx) s0 h eq_refl) end.
    destruct (j_is_object (jv (pget fs [k_ovni; k_require]))); reflexivity.
Qed.

(* ------------------------------------------------------------------ (3) should_enable = the per-thread step of the enable rule *)
Definition probe_code (p : probe) : Z := match p with PErr => -1 | POff => 0 | POn => 1 end.
Definition req_entry (kv : str * json) : list (list Z * list Z) := match snd kv with jstr v => [(fst kv, v)] | _ => [] end.

Lemma lookup_notin name r : existsb (fun k' => if str_dec name k' then true else false) (map fst r) = false ->
  lookup name (flat_map req_entry r) = None.
Proof.
  induction r as [|[k v] r IH]; cbn [map fst existsb flat_map]; [reflexivity|].
  intros H. apply orb_false_iff in H. destruct H as [H1 H2]. specialize (IH H2).
  unfold req_entry at 1. cbn [fst snd]. destruct v; cbn [app]; try exact IH.
  cbn [lookup]. destruct (list_eq_dec Z.eq_dec k name) as [E|E]; [|exact IH].
  subst k. destruct (str_dec name name); [discriminate|contradiction].
Qed.

Lemma lookup_require name r : nodup_keys (map fst r) = true ->
  lookup name (flat_map req_entry r) = jv_string (fget r name).
Proof.
  induction r as [|[k v] r IH]; cbn [map fst nodup_keys flat_map fget]; [reflexivity|].
  intros H. apply andb_true_iff in H. destruct H as [H1 H2]. specialize (IH H2). apply negb_true_iff in H1.
  destruct (str_dec k name) as [E|E].
  - subst k. unfold req_entry at 1. cbn [fst snd]. destruct v; cbn [app jv_string]; try (apply lookup_notin; exact H1).
    cbn [lookup]. destruct (list_eq_dec Z.eq_dec name name); [reflexivity|contradiction].
  - unfold req_entry at 1. cbn [fst snd]. destruct v; cbn [app]; try exact IH.
    cbn [lookup]. destruct (list_eq_dec Z.eq_dec k name); [contradiction|exact IH].
Qed.

Theorem should_enable_from_source : forall c name have fs st,
  th_meta st = Some fs ->
  (forall r, pget fs [k_ovni; k_require] = Some (jobj r) -> nodup_keys (map fst r) = true) ->   (* json_parse refuses a repeated name *)
  Meta_gen.should_enable (mkE (Some name) c) st have tt tt =
  probe_code (VersionDefs.should_enable c have name (to_thread_req (jobj fs))).
Proof.
  intros c name have fs st H N.
  unfold Meta_gen.should_enable, VersionDefs.should_enable, to_thread_req, get_thread_meta, json_object_dotget_object, json_object_dotget_value, str_lit,
    get_model_spec_name, json_object_get_string, json_object_get_value, version_parse_c, MetaPre.version_is_compatible.
  rewrite H. cbn [is_null spec_name compat].
  destruct (dotget_paths fs) as (_ & _ & _ & _ & _ & _ & -> & _).
  destruct (pget fs [k_ovni; k_require]) as [[|b|z|s|l|r]|] eqn:P; try reflexivity.
  cbn [jv_object is_null]. fold req_entry. change (fun kv : str * json => match snd kv with jstr v => [(fst kv, v)] | _ => [] end) with req_entry.
  set (x := lookup _ _). assert (X : x = jv_string (fget r name)) by (apply lookup_require; apply N; reflexivity). rewrite X. clear x X.
  destruct (jv_string (fget r name)) as [v|]; cbn [is_null probe_code]; [|reflexivity].
  unfold RtMetaDefs.str in *. destruct (version_parse (Some v)) as [want|]; [|reflexivity].
  destruct (c want have =? 0); reflexivity.
Qed.

Corollary should_enable_from_source_gen : forall name have fs st,
  th_meta st = Some fs ->
  (forall r, pget fs [k_ovni; k_require] = Some (jobj r) -> nodup_keys (map fst r) = true) ->
  Meta_gen.should_enable (mkE (Some name) Version_gen.version_is_compatible) st have tt tt =
  probe_code (VersionDefs.should_enable Version_gen.version_is_compatible have name (to_thread_req (jobj fs))).
Proof. intros. apply should_enable_from_source; assumption. Qed.

(* ------------------------------------------------------------------ (2) the claims of a stream, from the generated readers *)
Definition num_or_absent (o : option json) : bool := match o with None | Some (jnum _) => true | _ => false end.
(* to_stream_meta reads a present attribute of another JSON type as absent; the C reads it as the number 0 *)
Definition nums_typed (fs : fields) : bool :=
  num_or_absent (pget fs [k_ovni; k_app_id]) && num_or_absent (pget fs [k_ovni; k_rank]) && num_or_absent (pget fs [k_ovni; k_nranks]).

Lemma stream_meta_fields fs s : to_stream_meta (jobj fs) = Some s ->
  pget fs [k_ovni; k_loom] = Some (jstr (MetaDefs.s_loom s)) /\ pget fs [k_ovni; k_pid] = Some (jnum (MetaDefs.s_pid s)) /\
  pget fs [k_ovni; k_tid] = Some (jnum (MetaDefs.s_tid s)) /\
  MetaDefs.s_app s = num_of (pget fs [k_ovni; k_app_id]) /\ MetaDefs.s_rank s = num_of (pget fs [k_ovni; k_rank]) /\
  MetaDefs.s_nranks s = num_of (pget fs [k_ovni; k_nranks]) /\
  match pget fs [k_ovni; k_loom_cpus] with
  | None => MetaDefs.s_cpus s = None
  | Some (jarr cs) => exists l, all_some (map cpu_of_json cs) = Some l /\ MetaDefs.s_cpus s = Some l
  | Some _ => False
  end.
Proof.
  unfold to_stream_meta.
  destruct (pget fs [k_ovni; k_loom]) as [[|b|z|l|a|o]|]; try discriminate.
  destruct (pget fs [k_ovni; k_pid]) as [[|b|z|l2|a|o]|]; try discriminate.
  destruct (pget fs [k_ovni; k_tid]) as [[|b|z2|l2|a|o]|]; try discriminate.
  destruct (pget fs [k_ovni; k_loom_cpus]) as [[|b|z3|l3|cs|o]|]; try discriminate.
  - destruct (all_some (map cpu_of_json cs)) as [lc|] eqn:A; [|discriminate]. intros H. injection H as <-. cbn. repeat split; eauto.
  - intros H. injection H as <-. cbn. repeat split; eauto.
Qed.

Section Claims.
Variable sx : menv.
Variable fs : fields.
Variable s : MetaDefs.stream_meta.
Hypothesis HS : to_stream_meta (jobj fs) = Some s.
Hypothesis HT : nums_typed fs = true.
Let k : MetaDefs.pkey := MetaDefs.spkey s.

(* loom, process and thread identity; the refusals of create_proc / create_thread on them *)
Lemma ids_from_source st : sm st = Some fs ->
  loom_name sx st tt = Some (MetaDefs.s_loom s) /\
  (proc_stream_get_pid sx st tt <? 0) = negb (MetaDefs.valid_proc k) /\
  (0 <= proc_stream_get_pid sx st tt -> proc_stream_get_pid sx st tt = MetaDefs.s_pid s) /\
  (thread_stream_get_tid sx st tt <? 0) = (MetaDefs.s_tid s <=? 0) /\
  (0 <= thread_stream_get_tid sx st tt -> thread_stream_get_tid sx st tt = MetaDefs.s_tid s).
Proof.
  intros H. destruct (stream_meta_fields fs s HS) as (L & P & T & _).
  rewrite (loom_name_spec sx fs st H), (pid_spec sx fs st H), (tid_spec sx fs st H), L, P, T.
  cbn [jv j_string j_number]. unfold MetaDefs.valid_proc, k, MetaDefs.spkey. cbn [snd]. cbv zeta.
  repeat split.
  - destruct (MetaDefs.s_pid s =? 0) eqn:E; lia.
  - destruct (MetaDefs.s_pid s =? 0) eqn:E; lia.
  - destruct (MetaDefs.s_tid s =? 0) eqn:E; lia.
  - destruct (MetaDefs.s_tid s =? 0) eqn:E; lia.
Qed.

(* struct proc holds the facts of its own key: appid 0 = none yet *)
Definition slice_app (a0 : Z) : list MetaDefs.app_fact := if a0 =? 0 then [] else [(k, a0)].
Definition app_of (X : list MetaDefs.app_fact) : Z := match X with [] => 0 | f :: _ => snd f end.

Lemma pkey_eqb_refl x : MetaDefs.pkey_eqb x x = true.
Proof. unfold MetaDefs.pkey_eqb. destruct (MetaDefs.pkey_dec x x); [reflexivity|contradiction]. Qed.

Theorem load_appid_from_source st : sm st = Some fs -> 0 <= p_appid st ->
  exec (load_appid tt tt) sx st =
  match MetaDefs.part MetaDefs.add_app MetaDefs.app_claim (slice_app (p_appid st)) s with
  | MetaDefs.Ok X' => MOk (with_appid st (app_of X'))
  | _ => MErr E_FAIL
  end.
Proof.
  intros H A0. destruct (stream_meta_fields fs s HS) as (_ & _ & _ & A & _).
  rewrite (load_appid_spec sx fs st H). unfold MetaDefs.part, MetaDefs.app_claim. rewrite A.
  unfold nums_typed in HT. apply andb_true_iff in HT. destruct HT as [HT1 _]. apply andb_true_iff in HT1. destruct HT1 as [HA _].
  destruct (pget fs [k_ovni; k_app_id]) as [[|b|a|l|ar|o]|]; try discriminate; cbn [num_of jv j_present j_number negb MetaDefs.run]; cbv zeta.
  - (* a number *)
    fold k. unfold MetaDefs.add_app, MetaDefs.ins, MetaDefs.valid_app, MetaDefs.lift. cbn [snd].
    unfold slice_app. destruct (p_appid st =? 0) eqn:E0; cbn [negb andb existsb].
    + destruct (a <=? 0) eqn:Ea.
      * destruct (0 <? a) eqn:E1; [lia|]. reflexivity.
      * destruct (0 <? a) eqn:E1; [|lia]. cbn [negb]. destruct (in_dec MetaDefs.app_fact_dec (k, a) []) as [[]|_]. reflexivity.
    + unfold MetaDefs.confl_app. cbn [fst snd]. rewrite pkey_eqb_refl. cbn [andb orb].
      destruct (p_appid st =? a) eqn:Ea.
      * assert (a = p_appid st) by lia. subst a. destruct (p_appid st <=? 0) eqn:E2; [lia|]. destruct (0 <? p_appid st) eqn:E3; [|lia].
        cbn [negb]. rewrite Z.eqb_refl. cbn [negb orb].
        destruct (in_dec MetaDefs.app_fact_dec (k, p_appid st) [(k, p_appid st)]) as [_|N]; [reflexivity|exfalso; apply N; left; reflexivity].
      * cbn [negb]. destruct (0 <? a); cbn [negb]; [|reflexivity]. rewrite Z.eqb_sym, Ea. reflexivity.
  - (* absent *)
    unfold slice_app, app_of. destruct (p_appid st =? 0) eqn:E0.
    + assert (p_appid st = 0) by lia. destruct st; cbn in *; subst; reflexivity.
    + destruct st; reflexivity.
Qed.

(* rank < 0 = none yet (proc_init_begin); otherwise 0 <= rank < nranks *)
Definition slice_rank (r0 n0 : Z) : list MetaDefs.rank_fact := if r0 <? 0 then [] else [(k, (r0, Some n0))].
Definition rank_inv (st : mstate) : Prop := (p_rank st < 0 /\ p_nranks st <= 0) \/ (0 <= p_rank st < p_nranks st).
Definition with_rank_of (st : mstate) (X : list MetaDefs.rank_fact) : mstate :=
  match X with
  | (_, (r, Some n)) :: _ => with_rank st r n
  | _ => st
  end.

Theorem load_rank_from_source st : sm st = Some fs -> rank_inv st ->
  exec (load_rank tt tt) sx st =
  match MetaDefs.part MetaDefs.add_rank MetaDefs.rank_claim (slice_rank (p_rank st) (p_nranks st)) s with
  | MetaDefs.Ok X' => MOk (with_rank_of st X')
  | _ => MErr E_FAIL
  end.
Proof.
  intros H I. destruct (stream_meta_fields fs s HS) as (_ & _ & _ & _ & R & N & _).
  rewrite (load_rank_spec sx fs st H). cbv zeta.
  unfold MetaDefs.part, MetaDefs.rank_claim. rewrite R, N.
  unfold nums_typed in HT. apply andb_true_iff in HT. destruct HT as [HT1 HN]. apply andb_true_iff in HT1. destruct HT1 as [_ HR].
  destruct (pget fs [k_ovni; k_rank]) as [[|b|r|l|ar|o]|]; try discriminate; cbn [num_of is_null MetaDefs.run rank_num].
  2:{ unfold slice_rank. destruct (p_rank st <? 0); [reflexivity|]. cbn [with_rank_of]. destruct st; reflexivity. }
  fold k. unfold MetaDefs.add_rank, MetaDefs.ins, MetaDefs.lift, MetaDefs.valid_rank. cbn [snd fst].
  unfold slice_rank, rank_inv in *.
  destruct (pget fs [k_ovni; k_nranks]) as [[|b|n|l|ar|o]|]; try discriminate; cbn [num_of is_null rank_num].
  - (* rank and nranks *)
    destruct (r <? 0) eqn:Er; [replace (0 <=? r) with false by lia; reflexivity|]. replace (0 <=? r) with true by lia. cbn [andb].
    destruct (p_rank st <? 0) eqn:E0.
    + replace (p_rank st >=? 0) with false by lia. cbn [andb existsb].
      destruct (n <=? 0) eqn:En; [replace (0 <? n) with false by lia; reflexivity|]. replace (0 <? n) with true by lia.
      replace (p_nranks st >? 0) with false by lia. cbn [andb negb].
      destruct (r >=? n) eqn:Ern; [replace (r <? n) with false by lia; reflexivity|]. replace (r <? n) with true by lia. cbn [negb].
      destruct (in_dec MetaDefs.rank_fact_dec (k, (r, Some n)) []) as [[]|_]. reflexivity.
    + replace (p_rank st >=? 0) with true by lia. cbn [andb existsb orb].
      unfold MetaDefs.confl_rank. cbn [fst snd]. rewrite pkey_eqb_refl. cbn [andb].
      destruct (p_rank st =? r) eqn:Err; cbn [negb].
      * assert (r = p_rank st) by lia. subst r.
        destruct (n <=? 0) eqn:En; [replace (0 <? n) with false by lia; reflexivity|]. replace (0 <? n) with true by lia. cbn [andb].
        replace (p_nranks st >? 0) with true by lia. cbn [andb].
        destruct (p_nranks st =? n) eqn:Enn; cbn [negb].
        -- assert (n = p_nranks st) by lia. subst n. replace (p_rank st >=? p_nranks st) with false by lia. replace (p_rank st <? p_nranks st) with true by lia. cbn [negb].
           destruct (MetaDefs.rattr_dec (p_rank st, Some (p_nranks st)) (p_rank st, Some (p_nranks st))) as [_|C]; [|contradiction]. cbn [orb].
           destruct (in_dec MetaDefs.rank_fact_dec (k, (p_rank st, Some (p_nranks st))) [(k, (p_rank st, Some (p_nranks st)))]) as [_|C]; [|exfalso; apply C; left; reflexivity].
           cbn [with_rank_of]. destruct st; reflexivity.
        -- destruct (p_rank st <? n); cbn [negb]; [|reflexivity].
           destruct (MetaDefs.rattr_dec (p_rank st, Some n) (p_rank st, Some (p_nranks st))) as [C|_]; [injection C as C; lia|]. reflexivity.
      * destruct ((0 <? n) && (r <? n)); cbn [negb]; [|reflexivity].
        destruct (MetaDefs.rattr_dec (r, Some n) (p_rank st, Some (p_nranks st))) as [C|_]; [injection C as C; lia|]. reflexivity.
  - (* rank without nranks: refused *)
    cbn [andb negb]. destruct (r <? 0); [reflexivity|].
    destruct ((p_rank st >=? 0) && negb (p_rank st =? r)); reflexivity.
Qed.

(* load_cpus: the head (array look-up, empty array) and one entry *)
Definition cpus_ptr (st : mstate) : ptr_jarr := json_object_dotget_array sx st (Some fs) (str_lit [111; 118; 110; 105; 46; 108; 111; 111; 109; 95; 99; 112; 117; 115]).

Lemma all_some_nth {A B} (f : A -> option B) (l : list A) : forall r i x, all_some (map f l) = Some r -> nth_error l i = Some x ->
  exists y, f x = Some y /\ nth_error r i = Some y.
Proof.
  induction l as [|a l IH]; intros r i x H N; [destruct i; discriminate|].
  cbn [map all_some] in H. destruct (f a) as [b|] eqn:Fa; [|discriminate]. destruct (all_some (map f l)) as [r'|] eqn:A'; [|discriminate].
  injection H as <-. destruct i as [|i]; cbn [nth_error] in *.
  - injection N as <-. eauto.
  - eapply IH; eauto.
Qed.
Lemma all_some_len {A B} (f : A -> option B) (l : list A) : forall r, all_some (map f l) = Some r -> length r = length l.
Proof.
  induction l as [|a l IH]; intros r H; cbn [map all_some] in H; [injection H as <-; reflexivity|].
  destruct (f a); [|discriminate]. destruct (all_some (map f l)) as [r'|]; [|discriminate]. injection H as <-. cbn [length]. f_equal. apply IH. reflexivity.
Qed.

Theorem load_cpus_from_source st :
  load_cpus_head sx st tt (Some fs) = match MetaDefs.s_cpus s with None => 0 | Some [] => -1 | Some (_ :: _) => 1 end /\
  forall cs, MetaDefs.s_cpus s = Some cs -> forall i e, nth_error cs i = Some e ->
    load_cpus_entry sx st (cpus_ptr st) (Z.of_nat i) = if fst e <? 0 then None else Some e.
Proof.
  destruct (stream_meta_fields fs s HS) as (_ & _ & _ & _ & _ & _ & C).
  unfold load_cpus_head, load_cpus_entry, cpus_ptr, json_object_dotget_array, json_object_dotget_value, str_lit.
  destruct (dotget_paths fs) as (_ & _ & _ & _ & _ & _ & _ & _ & _ & -> & _).
  destruct (pget fs [k_ovni; k_loom_cpus]) as [[|b|z|l|cs0|o]|]; try contradiction.
  - destruct C as (lc & A & ->). cbn [jv_array is_null json_array_get_count]. split.
    + pose proof (all_some_len _ _ _ A) as Len. destruct lc as [|e lc]; destruct cs0 as [|c0 cs0]; try discriminate; reflexivity.
    + intros cs E i e N. injection E as <-. pose proof (all_some_len _ _ _ A) as Len.
      assert (Hi : (i < length cs0)%nat) by (rewrite <- Len; apply nth_error_Some; congruence).
      destruct (nth_error cs0 i) as [x|] eqn:Nx; [|apply nth_error_None in Nx; lia].
      destruct (all_some_nth _ _ _ _ _ A Nx) as (y & Fy & Ny). assert (y = e) by congruence. subst y.
      unfold json_array_get_object. replace ((0 <=? Z.of_nat i) && (Z.of_nat i <? Z.of_nat (length cs0))) with true by lia.
      rewrite Nat2Z.id, Nx. unfold cpu_of_json in Fy. destruct x as [|b|z|l|a|f]; try discriminate. cbn [jv_object is_null].
      unfold json_object_get_number, json_object_get_value, int_of_double. change [105; 110; 100; 101; 120] with k_index. change [112; 104; 121; 105; 100] with k_phyid.
      destruct (fget f k_index) as [[|b|ix|l|a|o]|]; try discriminate. destruct (fget f k_phyid) as [[|b|ph|l|a|o]|]; try discriminate.
      injection Fy as <-. cbn [json_number fst]. destruct (ix <? 0); reflexivity.
  - rewrite C. cbn [jv_array is_null]. split; [reflexivity|]. intros cs E. discriminate.
Qed.
End Claims.

(* (2) assembled *)
Theorem stream_claims_from_source : forall sx fs s st,
  to_stream_meta (jobj fs) = Some s -> nums_typed fs = true -> sm st = Some fs ->
  (* identity: loom name, pid, tid; create_proc / create_thread refuse what add_proc / add_thread refuse on them *)
  (loom_name sx st tt = Some (MetaDefs.s_loom s) /\
   (proc_stream_get_pid sx st tt <? 0) = negb (MetaDefs.valid_proc (MetaDefs.spkey s)) /\
   (0 <= proc_stream_get_pid sx st tt -> proc_stream_get_pid sx st tt = MetaDefs.s_pid s) /\
   (thread_stream_get_tid sx st tt <? 0) = (MetaDefs.s_tid s <=? 0) /\
   (0 <= thread_stream_get_tid sx st tt -> thread_stream_get_tid sx st tt = MetaDefs.s_tid s)) /\
  (* load_appid = add_app on the app claim, struct proc being the slice of the facts of its key *)
  (0 <= p_appid st ->
   exec (load_appid tt tt) sx st =
   match MetaDefs.part MetaDefs.add_app MetaDefs.app_claim (slice_app s (p_appid st)) s with
   | MetaDefs.Ok X' => MOk (with_appid st (app_of X'))
   | _ => MErr E_FAIL
   end) /\
  (* load_rank = add_rank on the rank claim *)
  (rank_inv st ->
   exec (load_rank tt tt) sx st =
   match MetaDefs.part MetaDefs.add_rank MetaDefs.rank_claim (slice_rank s (p_rank st) (p_nranks st)) s with
   | MetaDefs.Ok X' => MOk (with_rank_of st X')
   | _ => MErr E_FAIL
   end) /\
  (* load_cpus: no array / empty array / iterate; every entry yields its (index, phyid) claim or is refused (index < 0) *)
  (load_cpus_head sx st tt (Some fs) = match MetaDefs.s_cpus s with None => 0 | Some [] => -1 | Some (_ :: _) => 1 end /\
   forall cs, MetaDefs.s_cpus s = Some cs -> forall i e, nth_error cs i = Some e ->
     load_cpus_entry sx st (cpus_ptr sx fs st) (Z.of_nat i) = if fst e <? 0 then None else Some e).
Proof.
  intros sx fs s st HS HT H. split; [exact (ids_from_source sx fs s HS HT st H)|].
  split; [exact (load_appid_from_source sx fs s HS HT st H)|].
  split; [exact (load_rank_from_source sx fs s HS HT st H)|exact (load_cpus_from_source sx fs s HS HT st)].
Qed.

(* what the hypothesis nums_typed hides: a present attribute of another JSON type is the number 0 for the C *)
Lemma appid_not_a_number_refused sx fs st v : sm st = Some fs -> p_appid st = 0 ->
  pget fs [k_ovni; k_app_id] = Some v -> (forall z, v <> jnum z) -> exec (load_appid tt tt) sx st = MErr E_FAIL.
Proof.
  intros H A P N. rewrite (load_appid_spec sx fs st H), P, A. destruct v; try reflexivity. exfalso. eapply N. reflexivity.
Qed.

(* ------------------------------------------------------------------ examples *)
Definition ex_fs : fields :=
  [(k_version, jnum 3);
   (k_ovni, jobj [(k_lib, jobj [(k_version, jstr [49; 46; 49; 49; 46; 48]); (k_commit, jstr [120])]);
                  (k_part, jstr k_thread); (k_tid, jnum 101); (k_pid, jnum 100); (k_loom, jstr [110; 48]); (k_app_id, jnum 1);
                  (k_require, jobj [(k_ovni, jstr [49; 46; 49; 46; 48]); ([110; 111; 115; 118], jstr [50; 46; 53; 46; 49])]);
                  (k_rank, jnum 1); (k_nranks, jnum 4);
                  (k_loom_cpus, jarr [cpu_json (0, 7); cpu_json (1, 9)]); (k_finished, jnum 1)])].
Definition ex_sx (name : str) : menv := mkE (Some name) Version_gen.version_is_compatible.
Definition ex_with (key : str) (v : json) : fields := match pset ex_fs [k_ovni; key] v with Some f => f | None => [] end.

Example ex_gates :
  gate_run (ex_sx []) (jobj ex_fs) true = GateOk /\
  gate_run (ex_sx []) (jobj (ex_with k_finished (jnum 2))) true = GateErr GFinished /\
  gate_run (ex_sx []) (jobj (ex_with k_pid (jnum 0))) true = GateErr GPid /\
  gate_run (ex_sx []) (jobj (ex_with k_app_id (jnum 0))) true = GateErr GAppId /\
  gate_run (ex_sx []) (jobj (ex_with k_part (jstr [120]))) true = GateIgnored /\
  gate_run (ex_sx []) (jobj (ex_with k_require (jnum 1))) true = GateErr GRequire /\
  gate_run (ex_sx []) (jobj [(k_version, jnum 4)]) true = GateErr GVersion /\
  gate_run (ex_sx []) (jobj ex_fs) false = GateErr GNoAppId.
Proof. repeat split; vm_compute; reflexivity. Qed.

Example ex_claims :
  to_stream_meta (jobj ex_fs) = Some (MetaDefs.mkS [110; 48] 100 101 (Some 1) (Some 1) (Some 4) (Some [(0, 7); (1, 9)])) /\
  nums_typed ex_fs = true /\
  exec (load_appid tt tt) (ex_sx []) (fresh (Some ex_fs)) = MOk (mkM (Some ex_fs) 1 (-1) 0 None) /\
  exec (load_rank tt tt) (ex_sx []) (fresh (Some ex_fs)) = MOk (mkM (Some ex_fs) 0 1 4 None) /\
  exec (load_rank tt tt) (ex_sx []) (mkM (Some ex_fs) 1 2 4 None) = MErr E_FAIL /\
  load_cpus_head (ex_sx []) (fresh (Some ex_fs)) tt (Some ex_fs) = 1 /\
  load_cpus_entry (ex_sx []) (fresh (Some ex_fs)) (cpus_ptr (ex_sx []) ex_fs (fresh (Some ex_fs))) 1 = Some (1, 9).
Proof. repeat split; vm_compute; reflexivity. Qed.

Example ex_should_enable :
  let st := mkM (Some ex_fs) 1 1 4 (Some ex_fs) in
  Meta_gen.should_enable (ex_sx [110; 111; 115; 118]) st [2; 5; 1] tt tt = 1 /\       (* nosv 2.5.1 wanted, 2.5.1 offered *)
  Meta_gen.should_enable (ex_sx [110; 111; 115; 118]) st [2; 4; 0] tt tt = -1 /\      (* minor too old *)
  Meta_gen.should_enable (ex_sx [110; 111; 115; 118]) st [3; 0; 0] tt tt = -1 /\      (* other major *)
  Meta_gen.should_enable (ex_sx [116; 97; 109; 112; 105]) st [1; 0; 0] tt tt = 0 /\   (* tampi not required *)
  Meta_gen.should_enable (ex_sx [111; 118; 110; 105]) (fresh (Some ex_fs)) [1; 1; 0] tt tt = -1.   (* thread->meta == NULL *)
Proof. repeat split; vm_compute; reflexivity. Qed.
