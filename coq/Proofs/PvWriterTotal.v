(* C13 / C04: every (row, type) the emulator core can emit a record for has a registered PRV channel after connect, hence the
   Paraver writer accepts whatever the core accepts (times in order). *)
From Coq Require Import ZArith List Bool Lia Sorted.
From OV Require Import Base.CInt Emu.EmuCoreDefs Emu.DecodeDefs Emu.MarkDefs Emu.PvDefs Proofs.PvProofs Proofs.PvThms Proofs.EmuCoreWf Proofs.PrvProofs.
From OV Require Gen.Tables_gen Gen.Pv_gen.
Import ListNotations.
Local Open Scope Z_scope.

Definition HasChan (v : pvt) (ty g : Z) : Prop :=
  exists c, In c (pv_chans (v_prv v)) /\ pc_type c = ty /\ pc_row1 c = g + 1 /\ pc_id c = ty * pv_nrows (v_prv v) + g.

Lemma HasChan_mono v v' ty g : good v v' -> HasChan v ty g -> HasChan v' ty g.
Proof. intros [G _] (c & Hc & A & B & C). exists c. split; [now apply (e_chans _ _ G)|]. rewrite (e_nrows _ _ G). auto. Qed.

Lemma register_has v g ty fl v' : pvt_register v g ty fl = Ok v' -> HasChan v' ty g.
Proof.
  intros H. apply pvt_register_ok in H as (_ & _ & N & _ & _ & C). eexists. split; [rewrite C; apply in_or_app; right; now left|]. cbn. rewrite N. auto.
Qed.

(* every row, every type *)
Lemma register_rows_has {S} (ty fl : S -> Z) (specs : list S) rows v v' :
  foldr (fun v1 g => foldr (fun v2 s => pvt_register v2 g (ty s) (fl s)) specs v1) rows v = Ok v' ->
  forall g s, In g rows -> In s specs -> HasChan v' (ty s) g.
Proof.
  intros H g s Hg Hs.
  apply (foldr_est (fun v1 g => foldr (fun v2 s => pvt_register v2 g (ty s) (fl s)) specs v1) good (fun g a => forall s, In s specs -> HasChan a (ty s) g) rows)
    with (a := v) (s := g); [| |exact H|exact Hg|exact Hs].
  - intros a g0 a' _ E. split.
    + revert E. apply foldr_rel; [apply good_refl|apply good_trans|]. intros b s0 b' _. apply register_good.
    + intros s0 Hs0. apply (foldr_est (fun v2 s => pvt_register v2 g0 (ty s) (fl s)) good (fun s b => HasChan b (ty s) g0) specs) with (a := a) (s := s0); [| |exact E|exact Hs0].
      * intros b s1 b' _ E1. split; [now apply register_good in E1|now apply register_has in E1].
      * intros s1 b b' Q G. now apply (HasChan_mono b b').
  - intros g0 a a' Q G s0 Hs0. apply (HasChan_mono a a'); auto.
Qed.

Lemma connect_side_has n specs v v' : forallb spec_okb specs = true -> connect_side n specs v = Ok v' ->
  forall g s, (g < n)%nat -> In s specs -> HasChan v' (ps_type s) (Z.of_nat g).
Proof.
  intros F H g s Hg Hs. unfold connect_side in H. apply bindr_ok in H as (v1 & E1 & E2).
  assert (G2 : good v1 v').
  { assert (X : connect_side 0 specs v1 = Ok v') by (unfold connect_side; cbn [seq map foldr bindr]; exact E2).
    now destruct (connect_side_ok _ _ _ _ F X). }
  apply (HasChan_mono v1 v' _ _ G2). apply (register_rows_has ps_type ps_flags specs _ v v1 E1); [|exact Hs].
  apply in_map. apply in_seq. lia.
Qed.

Lemma mark_side_has n ms v v' : (forall m, In m ms -> mark_ok m) -> mark_side n ms v = Ok v' ->
  forall g m, (g < n)%nat -> In m ms -> HasChan v' (100 + mt_type m) (Z.of_nat g).
Proof.
  intros F H g m Hg Hm. unfold mark_side in H. apply bindr_ok in H as (v1 & E1 & E2).
  assert (G2 : good v1 v').
  { assert (X : mark_side 0 ms v1 = Ok v') by (unfold mark_side; cbn [seq map foldr bindr]; exact E2).
    now destruct (mark_side_ok _ _ _ _ F X). }
  apply (HasChan_mono v1 v' _ _ G2). apply (register_rows_has (fun m => 100 + mt_type m) (fun _ => PRV_SKIPDUPNULL) ms _ v v1 E1); [|exact Hm].
  apply in_map. apply in_seq. lia.
Qed.

Definition chan_facts (all : list pvspec) (sx : static) (ms : list mtype) (m : Z) (r : recorder) : Prop :=
  (forall g s, (g < length (s_threads sx))%nat -> In s (side_specs all m false) -> HasChan (rc_th r) (ps_type s) (Z.of_nat g)) /\
  (forall g s, (g < length (s_cpus sx))%nat -> In s (side_specs all m true) -> HasChan (rc_cpu r) (ps_type s) (Z.of_nat g)) /\
  (m = M_OVNI -> forall k, In k ms ->
     (forall g, (g < length (s_threads sx))%nat -> HasChan (rc_th r) (100 + mt_type k) (Z.of_nat g)) /\
     (forall g, (g < length (s_cpus sx))%nat -> HasChan (rc_cpu r) (100 + mt_type k) (Z.of_nat g))).

Lemma chan_facts_mono all sx ms m r r' : rgood r r' -> chan_facts all sx ms m r -> chan_facts all sx ms m r'.
Proof.
  intros [G1 G2] (A & B & C). split; [|split].
  - intros g s Hg Hs. apply (HasChan_mono _ _ _ _ G1). now apply A.
  - intros g s Hg Hs. apply (HasChan_mono _ _ _ _ G2). now apply B.
  - intros E k Hk. destruct (C E k Hk) as [C1 C2]. split; intros g Hg; [apply (HasChan_mono _ _ _ _ G1); now apply C1|apply (HasChan_mono _ _ _ _ G2); now apply C2].
Qed.

Lemma model_connect_has all sx ms r m r' : specs_okb all = true -> marks_ok ms ->
  model_connect all sx ms r m = Ok r' -> rgood r r' /\ chan_facts all sx ms m r'.
Proof.
  intros F M H. pose proof (model_connect_ok all sx ms r m r' F M H) as [G _]. split; [exact G|].
  unfold model_connect in H. apply bindr_ok in H as (r1 & E1 & H). apply bindr_ok in H as (r2 & E2 & E3).
  apply on_th_ok in E1 as (v1 & E1 & ->). apply on_cpu_ok in E2 as (v2 & E2 & ->). cbn [rc_th rc_cpu] in *.
  pose proof (connect_side_has _ _ _ _ (side_specs_ok all m false F) E1) as H1. pose proof (connect_side_has _ _ _ _ (side_specs_ok all m true F) E2) as H2.
  destruct ((m =? M_OVNI) && negb (Nat.eqb (length ms) 0)) eqn:Eb.
  - apply bindr_ok in E3 as (r3 & E3 & E4). apply on_th_ok in E3 as (v3 & E3 & ->). apply on_cpu_ok in E4 as (v4 & E4 & ->). cbn [rc_th rc_cpu] in *.
    destruct (mark_side_ok _ _ _ _ M E3) as (G3 & _). destruct (mark_side_ok _ _ _ _ M E4) as (G4 & _).
    split; [|split]; cbn [rc_th rc_cpu].
    + intros g s Hg Hs. apply (HasChan_mono _ _ _ _ G3). now apply H1.
    + intros g s Hg Hs. apply (HasChan_mono _ _ _ _ G4). now apply H2.
    + intros _ k Hk. split; intros g Hg; [now apply (mark_side_has _ _ _ _ M E3)|now apply (mark_side_has _ _ _ _ M E4)].
  - injection E3 as <-. split; [exact H1|split; [exact H2|]]. intros -> k Hk. rewrite Z.eqb_refl in Eb. cbn [andb] in Eb. apply negb_false_iff, Nat.eqb_eq in Eb.
    destruct ms; [contradiction|discriminate].
Qed.

(* system channels *)
Lemma connect_thread_has r g ti r' : connect_thread r (g, ti) = Ok r' ->
  forall ty fl name labs, In (ty, fl, name, labs) Pv_gen.th_sys -> HasChan (rc_th r') ty g.
Proof.
  intros H ty fl name labs Hin. unfold connect_thread in H. apply bindr_ok in H as (r1 & E1 & E2).
  apply on_th_ok in E2 as (v & E2 & ->). cbn [rc_th]. apply (HasChan_mono (rc_th r1) v _ _ (add_row_good _ _ _ _ E2)).
  apply (foldr_est _ rgood (fun (e : Z * Z * str * list (Z * str)) a => let '(ty0, _, _, _) := e in HasChan (rc_th a) ty0 g) Pv_gen.th_sys) with (a := r) (s := (ty, fl, name, labs)) in E1; [exact E1| | |exact Hin].
  - intros a [[[ty0 fl0] ?] ?] a' _ E. apply on_th_ok in E as (v0 & E & ->). split; [split; cbn; [now apply register_good in E|apply good_refl]|]. cbn [rc_th]. now apply register_has in E.
  - intros [[[ty0 fl0] ?] ?] a a' Q [G _]. now apply (HasChan_mono _ _ _ _ G).
Qed.

Lemma connect_cpu_has r g ci phy r' : connect_cpu r (g, (ci, phy)) = Ok r' ->
  forall ty fl name, In (ty, fl, name) Pv_gen.cpu_sys -> 0 <= ty -> HasChan (rc_cpu r') ty g.
Proof.
  intros H ty fl name Hin Hty. destruct (connect_cpu_ok _ _ _ _ _ H) as (_ & _ & _). unfold connect_cpu in H.
  apply bindr_ok in H as (r1 & E1 & H). apply bindr_ok in H as (r2 & E2 & E3).
  apply on_cpu_ok in E2 as (v2 & E2 & ->). apply on_th_ok in E3 as (v3 & E3 & ->). cbn [rc_th rc_cpu] in *.
  apply (HasChan_mono (rc_cpu r1) v2 _ _ (add_row_good _ _ _ _ E2)).
  apply (foldr_est _ rgood (fun (e : Z * Z * str) a => let '(ty0, _, _) := e in 0 <= ty0 -> HasChan (rc_cpu a) ty0 g) Pv_gen.cpu_sys) with (a := r) (s := (ty, fl, name)) in E1; [now apply E1| | |exact Hin].
  - intros a [[ty0 fl0] ?] a' _ E. destruct (ty0 <? 0) eqn:El.
    + injection E as <-. split; [apply rgood_refl|]. apply Z.ltb_lt in El. lia.
    + apply on_cpu_ok in E as (v0 & E & ->). split; [split; cbn; [apply good_refl|now apply register_good in E]|]. cbn [rc_cpu]. intros _. now apply register_has in E.
  - intros [[ty0 fl0] ?] a a' Q [_ G] Hp. apply (HasChan_mono _ _ _ _ G). now apply Q.
Qed.

(* ------------------------------------------------------------------ after connect: a channel for every row and type *)
Theorem connect_has sx phy en ms r : s_chans sx = mk_chans en ++ mark_chans ms -> marks_ok ms -> memz M_OVNI en = true ->
  length phy = length (s_cpus sx) -> connect sx phy en ms = Ok r ->
  (forall g ty, (g < length (s_threads sx))%nat -> In ty (th_types sx) -> HasChan (rc_th r) ty (Z.of_nat g)) /\
  (forall g ty, (g < length (s_cpus sx))%nat -> In ty (cpu_types sx) -> HasChan (rc_cpu r) ty (Z.of_nat g)).
Proof.
  intros Hch M Ov Lp H. unfold connect, connect_gen in H. apply bindr_ok in H as (r0 & E0 & E1).
  assert (G1 : rgood r0 r).
  { revert E1. apply foldr_rel; [apply rgood_refl|apply rgood_trans|]. intros a m a' _ E. now apply (model_connect_has _ sx ms) in E; [|exact specs_fine|exact M]. }
  assert (MF : forall m, In m (enabled_order en) -> chan_facts Pv_gen.pv_chans sx ms m r).
  { intros m Hm. apply (foldr_est (model_connect Pv_gen.pv_chans sx ms) rgood (fun m a => chan_facts Pv_gen.pv_chans sx ms m a) (enabled_order en)) with (a := r0); [| |exact E1|exact Hm].
    - intros a s a' _ E. now apply model_connect_has in E; [|exact specs_fine|exact M].
    - intros s a a' Q G. now apply (chan_facts_mono _ _ _ s a a'). }
  (* the system channels *)
  unfold system_connect in E0. apply bindr_ok in E0 as (r1 & A1 & E0). apply bindr_ok in E0 as (r2 & A2 & E0). apply bindr_ok in E0 as (r3 & A3 & A4).
  apply on_th_ok in A2 as (v2 & A2 & ->). apply on_cpu_ok in A3 as (v3 & A3 & ->). cbn [rc_th rc_cpu] in *.
  destruct (thread_create_pcf_types_ok _ _ A2) as (G2 & _). destruct (cpu_create_pcf_types_ok _ _ A3) as (G3 & _).
  assert (G4 : rgood {| rc_th := v2; rc_cpu := v3 |} r0).
  { revert A4. apply foldr_rel; [apply rgood_refl|apply rgood_trans|]. intros a [g [ci p]] a' _ E. now apply connect_cpu_ok in E. }
  assert (ST : forall g ty fl name labs, (g < length (s_threads sx))%nat -> In (ty, fl, name, labs) Pv_gen.th_sys -> HasChan (rc_th r) ty (Z.of_nat g)).
  { intros g ty fl name labs Hg Hin. destruct G1 as [G1t _]. destruct G4 as [G4t _]. cbn [rc_th] in G4t.
    apply (HasChan_mono _ _ _ _ G1t), (HasChan_mono _ _ _ _ G4t), (HasChan_mono _ _ _ _ G2).
    pose proof (number_nth (s_threads sx) g dummy_info Hg) as Hn.
    assert (K1 : forall a (x : Z * thread_info) a', In x (number (s_threads sx)) -> connect_thread a x = Ok a' ->
               rgood a a' /\ (forall ty fl name labs, In (ty, fl, name, labs) Pv_gen.th_sys -> HasChan (rc_th a') ty (fst x))).
    { intros a [g0 t0] a' _ E. split; [now apply connect_thread_ok in E|]. cbn [fst]. now apply (connect_thread_has a g0 t0 a'). }
    assert (K2 : forall (x : Z * thread_info) a a', (forall ty fl name labs, In (ty, fl, name, labs) Pv_gen.th_sys -> HasChan (rc_th a) ty (fst x)) -> rgood a a' ->
               forall ty fl name labs, In (ty, fl, name, labs) Pv_gen.th_sys -> HasChan (rc_th a') ty (fst x)).
    { intros [g0 t0] a a' Q [G _] ty0 fl0 n0 l0 H0. apply (HasChan_mono _ _ _ _ G). now apply (Q ty0 fl0 n0 l0). }
    exact (foldr_est connect_thread rgood _ (number (s_threads sx)) K1 K2 _ _ A1 _ Hn ty fl name labs Hin). }
  assert (SC : forall g ty fl name, (g < length (s_cpus sx))%nat -> In (ty, fl, name) Pv_gen.cpu_sys -> 0 <= ty -> HasChan (rc_cpu r) ty (Z.of_nat g)).
  { intros g ty fl name Hg Hin Hty. destruct G1 as [_ G1c]. apply (HasChan_mono _ _ _ _ G1c).
    assert (Lc : (g < length (combine (s_cpus sx) phy))%nat) by (rewrite combine_length; lia).
    pose proof (number_nth (combine (s_cpus sx) phy) g ({| ci_virtual := false; ci_loom := 0; ci_index := 0 |}, 0) Lc) as Hn.
    assert (K1 : forall a (x : Z * (cpu_info * Z)) a', In x (number (combine (s_cpus sx) phy)) -> connect_cpu a x = Ok a' ->
               rgood a a' /\ (forall ty fl name, In (ty, fl, name) Pv_gen.cpu_sys -> 0 <= ty -> HasChan (rc_cpu a') ty (fst x))).
    { intros a [g0 [c0 p0]] a' _ E. split; [now apply connect_cpu_ok in E|]. cbn [fst]. now apply (connect_cpu_has a g0 c0 p0 a'). }
    assert (K2 : forall (x : Z * (cpu_info * Z)) a a', (forall ty fl name, In (ty, fl, name) Pv_gen.cpu_sys -> 0 <= ty -> HasChan (rc_cpu a) ty (fst x)) -> rgood a a' ->
               forall ty fl name, In (ty, fl, name) Pv_gen.cpu_sys -> 0 <= ty -> HasChan (rc_cpu a') ty (fst x)).
    { intros [g0 [c0 p0]] a a' Q [_ G] ty0 fl0 n0 H0 H1. apply (HasChan_mono _ _ _ _ G). now apply (Q ty0 fl0 n0). }
    exact (foldr_est connect_cpu rgood _ (number (combine (s_cpus sx) phy)) K1 K2 _ _ A4 _ Hn ty fl name Hin Hty). }
  pose proof sys_types_fine as Y. unfold sys_types_okb in Y.
  apply andb_true_iff in Y as [Y Y4]. apply andb_true_iff in Y as [Y Y3]. apply andb_true_iff in Y as [Y1 Y2]. rewrite forallb_forall in Y1, Y2.
  assert (Ovo : In M_OVNI (enabled_order en)) by now apply enabled_in.
  assert (CH : forall sp, In sp (s_chans sx) ->
            (forall g, (g < length (s_threads sx))%nat -> HasChan (rc_th r) (cs_type sp) (Z.of_nat g)) /\
            (forall g, (g < length (s_cpus sx))%nat -> HasChan (rc_cpu r) (cs_type sp) (Z.of_nat g))).
  { intros sp Hsp. rewrite Hch in Hsp. apply in_app_or in Hsp as [Hsp|Hsp].
    - destruct (mk_chans_in en sp Hsp) as (i & X1 & _ & X2 & X3 & X4). destruct (MF _ (enabled_in _ _ X1 X2)) as (A & B & _).
      destruct (has_spec_in _ _ _ _ X3) as (s1 & H1 & _ & T1). destruct (has_spec_in _ _ _ _ X4) as (s2 & H2 & _ & T2).
      split; intros g Hg; [rewrite <- T1; now apply A|rewrite <- T2; now apply B].
    - unfold mark_chans in Hsp. apply in_map_iff in Hsp as (k & <- & Hk). cbn [cs_type]. destruct (MF _ Ovo) as (_ & _ & C). now apply (C eq_refl k Hk). }
  split; intros g ty Hg Hty.
  - unfold th_types in Hty. apply in_app_or in Hty as [Hty|Hty].
    + specialize (Y1 _ Hty). apply existsb_exists in Y1 as ([[[t fl] name] labs] & He & E). apply Z.eqb_eq in E. subst t. now apply (ST g ty fl name labs).
    + apply in_map_iff in Hty as (sp & <- & Hsp). now apply CH.
  - unfold cpu_types in Hty. apply in_app_or in Hty as [Hty|Hty].
    + specialize (Y2 _ Hty). apply existsb_exists in Y2 as ([[t fl] name] & He & E). apply Z.eqb_eq in E. subst t. apply (SC g ty fl name Hg He).
      cbn in Hty. unfold PRV_CPU_TID, PRV_CPU_PID, PRV_CPU_NRUN in Hty. intuition lia.
    + apply in_map_iff in Hty as (sp & <- & Hsp). now apply CH.
Qed.

(* ------------------------------------------------------------------ the replay: the writer accepts what the core accepts *)
Definition WI (sx : static) (r : recorder) : Prop :=
  (forall g ty, (g < length (s_threads sx))%nat -> In ty (th_types sx) -> HasChan (rc_th r) ty (Z.of_nat g)) /\
  (forall g ty, (g < length (s_cpus sx))%nat -> In ty (cpu_types sx) -> HasChan (rc_cpu r) ty (Z.of_nat g)).

Lemma prv_write_total pv row ty v : (exists c, In c (pv_chans pv) /\ pc_id c = ty * pv_nrows pv + row) ->
  exists pv', prv_write pv row ty v = Ok pv' /\ pv_chans pv' = pv_chans pv /\ pv_nrows pv' = pv_nrows pv /\ pv_time pv' = pv_time pv.
Proof.
  intros (c & Hc & Hid). unfold prv_write, prv_find, prv_get_id. destruct (find (fun c0 => pc_id c0 =? ty * pv_nrows pv + row) (pv_chans pv)) as [c1|] eqn:F.
  - eexists. split; [reflexivity|]. cbn. auto.
  - exfalso. pose proof (find_none _ _ F c Hc) as X. cbn in X. rewrite Hid, Z.eqb_refl in X. discriminate.
Qed.

Definition same_prv_shape (r r' : recorder) : Prop :=
  pv_chans (v_prv (rc_th r')) = pv_chans (v_prv (rc_th r)) /\ pv_nrows (v_prv (rc_th r')) = pv_nrows (v_prv (rc_th r)) /\
  pv_chans (v_prv (rc_cpu r')) = pv_chans (v_prv (rc_cpu r)) /\ pv_nrows (v_prv (rc_cpu r')) = pv_nrows (v_prv (rc_cpu r)).

Lemma WI_shape sx r r' : same_prv_shape r r' -> WI sx r -> WI sx r'.
Proof.
  intros (A & B & C & D) [W1 W2]. split; intros g ty Hg Hty; [destruct (W1 g ty Hg Hty) as (c & Hc & X)|destruct (W2 g ty Hg Hty) as (c & Hc & X)];
    exists c; unfold HasChan in *; rewrite ?A, ?B, ?C, ?D; auto.
Qed.

Definition rtime (r : recorder) (t : Z) : Prop := pv_time (v_prv (rc_th r)) = t /\ pv_time (v_prv (rc_cpu r)) = t.

Lemma rec_write_total sx r l t : WI sx r -> rtime r t -> line_ok sx l ->
  exists r', rec_write r l = Ok r' /\ same_prv_shape r r' /\ rtime r' t.
Proof.
  intros [W1 W2] [T1 T2] L. unfold rec_write, on_side, line_ok in *. destruct (l_cpu l).
  - destruct L as [Lr Lt]. destruct (W2 _ _ Lr Lt) as (c & Hc & _ & _ & Hid).
    destruct (prv_write_total (v_prv (rc_cpu r)) (Z.of_nat (l_row l)) (l_type l) (l_val l)) as (pv' & E & A & B & C); [eauto|].
    unfold on_cpu. rewrite E. cbn [bindr]. eexists. split; [reflexivity|]. unfold same_prv_shape, rtime. cbn [rc_th rc_cpu set_prv v_prv]. rewrite A, B, C. auto 10.
  - destruct L as [Lr Lt]. destruct (W1 _ _ Lr Lt) as (c & Hc & _ & _ & Hid).
    destruct (prv_write_total (v_prv (rc_th r)) (Z.of_nat (l_row l)) (l_type l) (l_val l)) as (pv' & E & A & B & C); [eauto|].
    unfold on_th. rewrite E. cbn [bindr]. eexists. split; [reflexivity|]. unfold same_prv_shape, rtime. cbn [rc_th rc_cpu set_prv v_prv]. rewrite A, B, C. auto 10.
Qed.

Lemma same_shape_refl r : same_prv_shape r r. Proof. unfold same_prv_shape. auto. Qed.
Lemma same_shape_trans a b c : same_prv_shape a b -> same_prv_shape b c -> same_prv_shape a c.
Proof. unfold same_prv_shape. intros (A1 & A2 & A3 & A4) (B1 & B2 & B3 & B4). repeat split; congruence. Qed.

Lemma rec_writes_total sx ls : forall r t, WI sx r -> rtime r t -> Forall (line_ok sx) ls ->
  exists r', foldr rec_write ls r = Ok r' /\ same_prv_shape r r' /\ rtime r' t.
Proof.
  induction ls as [|l ls IH]; intros r t W T F; cbn [foldr]; [exists r; split; [reflexivity|split; [apply same_shape_refl|exact T]]|].
  inversion F as [|? ? Fl Ft]; subst. destruct (rec_write_total sx r l t W T Fl) as (r1 & E1 & S1 & T1). rewrite E1.
  destruct (IH r1 t (WI_shape _ _ _ S1 W) T1 Ft) as (r2 & E2 & S2 & T2). exists r2. split; [exact E2|]. split; [eapply same_shape_trans; eauto|exact T2].
Qed.

Lemma rec_advance_total r t t' : rtime r t -> t <= t' -> exists r', rec_advance r t' = Ok r' /\ same_prv_shape r r' /\ rtime r' t'.
Proof.
  intros [T1 T2] Le. unfold rec_advance, on_th, on_cpu, prv_advance. rewrite T1.
  replace (t' <? t) with false by (symmetry; apply Z.ltb_ge; lia). cbn [bindr rc_th rc_cpu set_prv v_prv]. rewrite T2.
  replace (t' <? t) with false by (symmetry; apply Z.ltb_ge; lia). cbn [bindr]. eexists. split; [reflexivity|].
  unfold same_prv_shape, rtime. cbn. auto 10.
Qed.

Theorem pv_run_total sx evs : forall st r t0 t st' tl, WI sx r -> rtime r t ->
  StronglySorted Z.le (map ev_time evs) -> (forall e, In e evs -> t <= ev_time e - t0) ->
  run_from sx st evs = Ok (st', tl) -> exists r', pv_run_from sx st r t0 evs = Ok (st', r').
Proof.
  induction evs as [|[[tm who] ev] evs IH]; intros st r t0 t st' tl W T Srt Lo H; cbn [run_from pv_run_from] in *.
  - injection H as <- _. eauto.
  - destruct (step sx st who ev) as [[st1 ls]|] eqn:Es; [|discriminate]. destruct (run_from sx st1 evs) as [[st2 ls2]|] eqn:Er; [|discriminate].
    injection H as <- _.
    destruct (rec_advance_total r t (tm - t0) T (Lo _ (or_introl eq_refl))) as (r1 & E1 & S1 & T1). rewrite E1.
    destruct (rec_writes_total sx ls r1 (tm - t0) (WI_shape _ _ _ S1 W) T1 (step_lines_ok _ _ _ _ _ _ Es)) as (r2 & E2 & S2 & T2). rewrite E2.
    cbn [map ev_time] in Srt. inversion Srt as [|? ? Srt' Hle]; subst.
    apply (IH st1 r2 t0 (tm - t0) st2 ls2 (WI_shape _ _ _ S2 (WI_shape _ _ _ S1 W)) T2 Srt'); [|exact Er].
    intros e He. rewrite Forall_forall in Hle. specialize (Hle (ev_time e) (in_map ev_time _ _ He)). lia.
Qed.

(* ------------------------------------------------------------------ finish (no task types) and close *)
Definition task_chans_okb : bool :=
  forallb (fun m => match task_model_chan m with
                    | Some ch => let ty := type_of_chan Pv_gen.pv_chans m ch in
                                 is_int ty && has_spec m false ch ty && has_spec m true ch ty && memz m model_order
                    | None => false end) [M_NOSV; M_NANOS6].
Lemma task_chans_fine : task_chans_okb = true. Proof. vm_compute. reflexivity. Qed.

Lemma declared_find p id : declared p id -> pcf_find_type p id <> None.
Proof.
  unfold declared, pcf_find_type. intros H N. apply in_map_iff in H as (t & E & Ht). pose proof (find_none _ _ N t Ht) as X. cbn in X. rewrite E, Z.eqb_refl in X. discriminate.
Qed.

Lemma task_values_nil sx tl m : task_values sx [] tl m = [].
Proof. unfold task_values. induction (procs_of (s_threads sx) []) as [|p l IH]; [reflexivity|]. cbn [flat_map app]. exact IH. Qed.

Lemma finish_pvt_notypes sx tl m v : (forall ch, task_model_chan m = Some ch -> declared (v_pcf v) (int (type_of_chan Pv_gen.pv_chans m ch))) ->
  finish_pvt Pv_gen.pv_chans sx [] tl m v = Ok v.
Proof.
  intros D. unfold finish_pvt. destruct (task_model_chan m) as [ch|]; [|reflexivity].
  pose proof (declared_find _ _ (D ch eq_refl)) as N. destruct (pcf_find_type _ _); [|congruence]. now rewrite task_values_nil.
Qed.

Lemma finish_notypes sx en tl r :
  (forall m ch, In m (enabled_order en) -> task_model_chan m = Some ch ->
     declared (v_pcf (rc_th r)) (int (type_of_chan Pv_gen.pv_chans m ch)) /\ declared (v_pcf (rc_cpu r)) (int (type_of_chan Pv_gen.pv_chans m ch))) ->
  finish sx en [] tl r = Ok r.
Proof.
  intros D. unfold finish, finish_gen. induction (enabled_order en) as [|m l IH]; [reflexivity|]. cbn [foldr].
  destruct (D m) as (_ & _) || idtac.
  assert (E1 : on_th r (finish_pvt Pv_gen.pv_chans sx [] tl m) = Ok r).
  { unfold on_th. rewrite finish_pvt_notypes by (intros ch E; now destruct (D m ch (or_introl eq_refl) E)). now destruct r. }
  assert (E2 : on_cpu r (finish_pvt Pv_gen.pv_chans sx [] tl m) = Ok r).
  { unfold on_cpu. rewrite finish_pvt_notypes by (intros ch E; now destruct (D m ch (or_introl eq_refl) E)). now destruct r. }
  rewrite E1. cbn [bindr]. rewrite E2. apply IH. intros m' ch Hm. apply D. now right.
Qed.

Lemma all_set_total (p : prf) : (forall g, (g < length p)%nat -> exists l, nth g p None = Some l) -> exists ls, all_set p = Some ls.
Proof.
  induction p as [|x p IH]; intros H; [exists []; reflexivity|]. destruct (H O ltac:(cbn; lia)) as [l E]. cbn [nth] in E. subst x.
  destruct IH as [ls E]; [intros g Hg; apply (H (S g)); cbn; lia|]. cbn [all_set]. rewrite E. eauto.
Qed.

(* ------------------------------------------------------------------ the writer follows the core *)
From OV Require Proofs.PvTotalProofs Proofs.PvPrvProofs.

Lemma close_total v n : length (v_prf v) = n -> (forall g, (g < n)%nat -> exists l, nth g (v_prf v) None = Some l) -> exists f, pvt_close v = Ok f.
Proof.
  intros L H. unfold pvt_close, prf_close. destruct (all_set_total (v_prf v)) as [ls E]; [intros g Hg; apply H; lia|]. rewrite E. cbn [bindr]. eauto.
Qed.

Theorem emulate_total sx phy en ms lc tl evs ls :
  s_chans sx = mk_chans en ++ mark_chans ms -> marks_ok ms -> PvTotalProofs.marks_fine ms -> PvTotalProofs.cpu_ok sx phy -> memz M_OVNI en = true ->
  StronglySorted Z.le (map ev_time evs) ->
  EmuCoreDefs.run sx lc evs = Ok ls -> (forall st tl', run_from sx (init sx) evs = Ok (st, tl') -> types st = []) ->
  exists out, emulate sx phy en ms lc tl evs = Ok out.
Proof.
  intros Hch Mk Mf Ck Ov Srt Hrun Hty.
  destruct (PvTotalProofs.connect_gen_total Pv_gen.pv_chans sx phy en ms PvTotalProofs.specs_are_fine Ck Mf) as [r0 E0].
  change (connect_gen Pv_gen.pv_chans sx phy en ms) with (connect sx phy en ms) in E0.
  unfold emulate. rewrite E0. cbn [bindr].
  destruct Ck as (Lp & _ & _).
  pose proof (connect_has sx phy en ms r0 Hch Mk Ov Lp E0) as W0.
  pose proof (PvPrvProofs.Jr_connect _ _ _ _ _ _ E0) as [[_ [_ T1]] [_ [_ T2]]].
  destruct (connect_ok _ _ _ _ _ _ specs_fine Mk E0) as (G0 & S0 & M0).
  unfold EmuCoreDefs.run in Hrun. destruct (run_from sx (init sx) evs) as [[st tl']|] eqn:Er; [|discriminate].
  destruct (pv_run_total sx evs (init sx) r0 (ev_t0 evs) 0 st tl' W0 (conj T1 T2) Srt) as [r1 E1]; [|exact Er|].
  { intros e He. destruct evs as [|[[t1 w1] e1] evs']; [contradiction|]. cbn [ev_t0]. cbn [map ev_time] in Srt. inversion Srt as [|? ? _ Hle]; subst.
    destruct He as [<-|He]; [cbn; lia|]. rewrite Forall_forall in Hle. specialize (Hle (ev_time e) (in_map ev_time _ _ He)). lia. }
  rewrite E1. destruct (negb (all_dead st)); [discriminate|]. destruct (s_lint sx && negb (lint_ok sx lc st)); [discriminate|].
  pose proof (pv_run_good _ _ _ _ _ _ _ E1) as G1. rewrite (Hty st tl' eq_refl).
  assert (G01 : rgood (r_init sx) r1) by (eapply rgood_trans; eauto).
  rewrite finish_notypes.
  - cbn [bindr]. pose proof (sys_facts_mono _ _ _ _ G1 S0) as (R1 & R2 & _). destruct G01 as [[Xt _] [Xc _]].
    destruct (close_total (rc_th r1) (length (s_threads sx))) as [fth Eth].
    { rewrite (e_len _ _ Xt). cbn. unfold prf_open. now rewrite repeat_length. }
    { intros g Hg. specialize (R1 _ _ (number_nth (s_threads sx) g dummy_info Hg)). rewrite Nat2Z.id in R1. eauto. }
    assert (Lc : length (combine (s_cpus sx) phy) = length (s_cpus sx)) by (rewrite combine_length; lia).
    destruct (close_total (rc_cpu r1) (length (s_cpus sx))) as [fcpu Ecpu].
    { rewrite (e_len _ _ Xc). cbn. unfold prf_open. now rewrite repeat_length. }
    { intros g Hg. pose proof (number_nth (combine (s_cpus sx) phy) g ({| ci_virtual := false; ci_loom := 0; ci_index := 0 |}, 0) ltac:(lia)) as Hn.
      destruct (nth g (combine (s_cpus sx) phy) _) as [ci p]. destruct (R2 _ _ _ Hn) as [X _]. rewrite Nat2Z.id in X. eauto. }
    rewrite Eth. cbn [bindr]. rewrite Ecpu. cbn [bindr]. eauto.
  - intros m ch Hm Ech. pose proof task_chans_fine as TF. unfold task_chans_okb in TF. rewrite forallb_forall in TF.
    assert (Hin : In m [M_NOSV; M_NANOS6]).
    { unfold task_model_chan in Ech. destruct (m =? M_NOSV) eqn:A; [apply Z.eqb_eq in A; subst; now left|].
      destruct (m =? M_NANOS6) eqn:B; [apply Z.eqb_eq in B; subst; right; now left|discriminate]. }
    specialize (TF m Hin). rewrite Ech in TF. cbv zeta in TF.
    apply andb_true_iff in TF as [TF _]. apply andb_true_iff in TF as [TF H2]. apply andb_true_iff in TF as [Hi H1].
    destruct (is_int_ok _ Hi) as [-> _]. destruct (has_spec_in _ _ _ _ H1) as (s1 & I1 & _ & T1'). destruct (has_spec_in _ _ _ _ H2) as (s2 & I2 & _ & T2').
    destruct (model_facts_mono _ _ _ _ _ G1 (M0 m Hm)) as (A & B & _). destruct (A s1 I1) as [D1 _]. destruct (B s2 I2) as [D2 _].
    rewrite T1' in D1. rewrite T2' in D2. auto.
Qed.
