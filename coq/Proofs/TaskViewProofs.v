(* C07, views: in every state reached by accepted events every task channel of every thread holds the field
   (task id, type, body id, app id, rank) of the body running on that thread, and null when none runs. *)
From Coq Require Import ZArith List Bool Lia.
From OV Require Import Emu.EmuCoreDefs Emu.DecodeDefs Emu.MarkDefs Emu.TaskViewDefs Proofs.EmitProofs Proofs.EmuCoreProofs
  Proofs.EmuCoreWf Proofs.TaskProofs Proofs.LabelProofs Proofs.LabelDecode.
From OV Require Gen.Tables_gen.
Import ListNotations.
Local Open Scope Z_scope.

(* ---------------------------------------------------------------- accessors *)

Definition bstacks (st : state) : list (list (Z * Z * Z)) := map t_bstack (threads st).
Definition bs (st : state) (t : nat) : list (Z * Z * Z) := t_bstack (nth t (threads st) dummy_thread).
Definition rv (st : state) (t k : nat) : value := r_val (raw_of st t k).

Lemma bs_bstacks st t : bs st t = nth t (bstacks st) [].
Proof. unfold bs, bstacks. change (@nil (Z * Z * Z)) with (t_bstack dummy_thread). rewrite map_nth. reflexivity. Qed.

Lemma bstacks_set_thread st t th th' :
  nth_error (threads st) t = Some th -> t_bstack th' = t_bstack th -> bstacks (set_thread st t th') = bstacks st.
Proof.
  intros Hn Hr. unfold bstacks, set_thread. cbn [threads]. rewrite map_update, Hr.
  rewrite <- (nth_error_nth _ _ _ dummy_thread Hn).
  change (t_bstack (nth t (threads st) dummy_thread)) with ((fun x => t_bstack x) (nth t (threads st) dummy_thread)).
  rewrite <- (map_nth (fun x => t_bstack x)). apply update_nth_id.
Qed.

Lemma running_top_ext st st1 loom pid th th1 mdl :
  tasks st1 = tasks st -> t_bstack th1 = t_bstack th -> running_top st1 loom pid th1 mdl = running_top st loom pid th mdl.
Proof. intros Ht Hb. unfold running_top, model_stack, body_state_of, find_task. rewrite Ht, Hb. reflexivity. Qed.

Lemma thread_top_ext sx st st1 t mdl :
  tasks st1 = tasks st -> bs st1 t = bs st t -> thread_top sx st1 t mdl = thread_top sx st t mdl.
Proof. intros Ht Hb. unfold thread_top. apply running_top_ext; assumption. Qed.

Lemma nth_update_if {A} (l : list A) n m x d :
  nth m (update l n x) d = if Nat.eqb m n && Nat.ltb n (length l) then x else nth m l d.
Proof.
  destruct (Nat.eq_dec m n) as [->|Hne].
  - rewrite Nat.eqb_refl. cbn [andb]. destruct (Nat.ltb n (length l)) eqn:E.
    + apply Nat.ltb_lt in E. now apply nth_update_same.
    + apply Nat.ltb_ge in E. rewrite !nth_overflow; [reflexivity|exact E|rewrite update_length; exact E].
  - apply Nat.eqb_neq in Hne as Hb. rewrite Hb. cbn [andb]. apply nth_update_other. congruence.
Qed.

(* ---------------------------------------------------------------- lookups after an update *)

Definition tmatch (tk : task) (loom : nat) (pid mdl id : Z) : bool :=
  Nat.eqb (tk_loom tk) loom && (tk_pid tk =? pid) && (tk_model tk =? mdl) && (tk_id tk =? id).

Lemma tmatch_true tk loom pid mdl id :
  tmatch tk loom pid mdl id = true <-> tk_loom tk = loom /\ tk_pid tk = pid /\ tk_model tk = mdl /\ tk_id tk = id.
Proof.
  unfold tmatch. rewrite !andb_true_iff, Nat.eqb_eq, !Z.eqb_eq. tauto.
Qed.

Lemma ft_cons tk r loom pid mdl id i :
  find_task_from (tk :: r) loom pid mdl id i = if tmatch tk loom pid mdl id then Some (i, tk) else find_task_from r loom pid mdl id (S i).
Proof. reflexivity. Qed.

Lemma ft_match l loom pid mdl id : forall i j tk,
  find_task_from l loom pid mdl id i = Some (j, tk) -> tmatch tk loom pid mdl id = true.
Proof.
  induction l as [|a r IH]; intros i j tk H; [discriminate|]. rewrite ft_cons in H.
  destruct (tmatch a loom pid mdl id) eqn:E; [injection H as <- <-; exact E|eapply IH; eauto].
Qed.

Lemma ft_update_same l loom pid mdl id tk' : forall i j tk,
  find_task_from l loom pid mdl id i = Some (j, tk) -> tmatch tk' loom pid mdl id = true ->
  find_task_from (update l (j - i) tk') loom pid mdl id i = Some (j, tk').
Proof.
  induction l as [|a r IH]; intros i j tk H Hm; [discriminate|]. rewrite ft_cons in H.
  destruct (tmatch a loom pid mdl id) eqn:E.
  - injection H as <- <-. rewrite Nat.sub_diag. cbn [update]. rewrite ft_cons, Hm. reflexivity.
  - destruct (find_task_from_in _ _ _ _ _ _ _ _ H) as (_ & _ & Hle).
    replace (j - i)%nat with (S (j - S i)) by lia. cbn [update]. rewrite ft_cons, E. eapply IH; eauto.
Qed.

Lemma ft_update_other l loom pid mdl id tk' loom' pid' mdl' id' : forall i j tk,
  find_task_from l loom pid mdl id i = Some (j, tk) ->
  tmatch tk loom' pid' mdl' id' = false -> tmatch tk' loom' pid' mdl' id' = false ->
  find_task_from (update l (j - i) tk') loom' pid' mdl' id' i = find_task_from l loom' pid' mdl' id' i.
Proof.
  induction l as [|a r IH]; intros i j tk H Hm Hm'; [discriminate|]. rewrite ft_cons in H.
  destruct (tmatch a loom pid mdl id) eqn:E.
  - injection H as <- <-. rewrite Nat.sub_diag. cbn [update]. rewrite !ft_cons, Hm, Hm'. reflexivity.
  - destruct (find_task_from_in _ _ _ _ _ _ _ _ H) as (_ & _ & Hle).
    replace (j - i)%nat with (S (j - S i)) by lia. cbn [update]. rewrite !ft_cons.
    destruct (tmatch a loom' pid' mdl' id'); [reflexivity|]. eapply IH; eauto.
Qed.

Lemma ft_app l x loom pid mdl id : forall i j tk,
  find_task_from l loom pid mdl id i = Some (j, tk) -> find_task_from (l ++ [x]) loom pid mdl id i = Some (j, tk).
Proof.
  induction l as [|a r IH]; intros i j tk H; [discriminate|]. cbn [app]. rewrite ft_cons in *.
  destruct (tmatch a loom pid mdl id); [exact H|now apply IH].
Qed.

Lemma fb_le l id : forall i j b, find_body_from l id i = Some (j, b) -> (i <= j)%nat.
Proof.
  induction l as [|a r IH]; intros i j b H; cbn [find_body_from] in H; [discriminate|].
  destruct (b_id a =? id); [injection H as <- _; lia|]. apply IH in H. lia.
Qed.

Lemma fb_update l id b' : forall i j b,
  find_body_from l id i = Some (j, b) -> b_id b' = id ->
  find_body_from (update l (j - i) b') id i = Some (j, b') /\
  forall id', id' <> id -> find_body_from (update l (j - i) b') id' i = find_body_from l id' i.
Proof.
  induction l as [|a r IH]; intros i j b H Hb; cbn [find_body_from] in H; [discriminate|].
  destruct (b_id a =? id) eqn:E.
  - injection H as <- <-. rewrite Nat.sub_diag. cbn [update find_body_from]. apply Z.eqb_eq in E. split.
    + rewrite Hb, Z.eqb_refl. reflexivity.
    + intros id' Hne. rewrite Hb, E. destruct (id =? id') eqn:E2; [apply Z.eqb_eq in E2; congruence|reflexivity].
  - pose proof (fb_le _ _ _ _ _ H) as Hle.
    replace (j - i)%nat with (S (j - S i)) by lia. cbn [update find_body_from]. rewrite E.
    destruct (IH _ _ _ H Hb) as [I1 I2]. split; [exact I1|]. intros id' Hne. destruct (b_id a =? id'); [reflexivity|now apply I2].
Qed.

Lemma fb_app l id b' : forall i,
  find_body_from l id i = None -> b_id b' = id ->
  (exists j, find_body_from (l ++ [b']) id i = Some (j, b')) /\
  forall id', id' <> id -> find_body_from (l ++ [b']) id' i = find_body_from l id' i.
Proof.
  induction l as [|a r IH]; intros i H Hb; cbn [find_body_from app] in *.
  - split.
    + exists i. rewrite Hb, Z.eqb_refl. reflexivity.
    + intros id' Hne. rewrite Hb. destruct (id =? id') eqn:E2; [apply Z.eqb_eq in E2; congruence|reflexivity].
  - destruct (b_id a =? id) eqn:E; [discriminate|]. destruct (IH _ H Hb) as [I1 I2]. split; [exact I1|].
    intros id' Hne. destruct (b_id a =? id'); [reflexivity|now apply I2].
Qed.

Lemma fb_id l id : forall i j b, find_body_from l id i = Some (j, b) -> b_id b = id.
Proof.
  induction l as [|a r IH]; intros i j b H; cbn [find_body_from] in H; [discriminate|].
  destruct (b_id a =? id) eqn:E; [injection H as _ <-; now apply Z.eqb_eq|eapply IH; eauto].
Qed.

(* the body a stack entry refers to, after one body of one task has been replaced / appended *)
Lemma store_body_look st loom pid mdl tid bid ti tk bi b' :
  find_task st loom pid mdl tid = Some (ti, tk) ->
  b_id b' = bid ->
  match bi with Some i => exists b0, find_body tk bid = Some (i, b0) | None => find_body tk bid = None end ->
  (exists tk', body_state_of (store_body st ti tk bi b') loom pid (mdl, tid, bid) = Some (tk', b') /\
               tk_id tk' = tk_id tk /\ tk_gid tk' = tk_gid tk) /\
  (forall loom' pid' e' tk1 b1, ~ (loom' = loom /\ pid' = pid /\ e' = (mdl, tid, bid)) ->
     body_state_of st loom' pid' e' = Some (tk1, b1) ->
     exists tk1', body_state_of (store_body st ti tk bi b') loom' pid' e' = Some (tk1', b1) /\
                  tk_id tk1' = tk_id tk1 /\ tk_gid tk1' = tk_gid tk1).
Proof.
  intros Hf Hb Hbi. unfold find_task in Hf.
  set (bsn := match bi with Some i => update (tk_bodies tk) i b' | None => tk_bodies tk ++ [b'] end).
  assert (Hst : tasks (store_body st ti tk bi b') = update (tasks st) (ti - 0) (set_bodies tk bsn))
    by (rewrite Nat.sub_0_r; reflexivity).
  pose proof (ft_match _ _ _ _ _ _ _ _ Hf) as Hm.
  assert (Hbs : (exists j, find_body_from bsn bid 0 = Some (j, b')) /\
                forall id', id' <> bid -> find_body_from bsn id' 0 = find_body_from (tk_bodies tk) id' 0).
  { subst bsn. destruct bi as [i|].
    - destruct Hbi as [b0 Hb0]. unfold find_body in Hb0. destruct (fb_update _ _ b' _ _ _ Hb0 Hb) as [U1 U2].
      rewrite Nat.sub_0_r in U1, U2. split; [eexists; exact U1|exact U2].
    - unfold find_body in Hbi. apply (fb_app _ _ b' _ Hbi Hb). }
  destruct Hbs as [[jn Hbn] Hbo].
  split.
  - exists (set_bodies tk bsn). split; [|split; reflexivity].
    unfold body_state_of, find_task. rewrite Hst.
    rewrite (ft_update_same _ _ _ _ _ (set_bodies tk bsn) _ _ _ Hf Hm).
    unfold find_body. cbn [tk_bodies set_bodies]. rewrite Hbn. reflexivity.
  - intros loom' pid' [[m' t'] bid'] tk1 b1 Hne H. unfold body_state_of, find_task in *. rewrite Hst.
    destruct (tmatch tk loom' pid' m' t') eqn:Em.
    + apply tmatch_true in Em. apply tmatch_true in Hm. destruct Em as (E1 & E2 & E3 & E4), Hm as (M1 & M2 & M3 & M4).
      assert (loom' = loom) by congruence. assert (pid' = pid) by congruence.
      assert (m' = mdl) by congruence. assert (t' = tid) by congruence. clear E1 E2 E3 E4. subst loom' pid' m' t'.
      assert (Hbne : bid' <> bid) by (intros ->; apply Hne; repeat split).
      rewrite Hf in H.
      rewrite (ft_update_same _ _ _ _ _ (set_bodies tk bsn) _ _ _ Hf (proj2 (tmatch_true _ _ _ _ _) (conj M1 (conj M2 (conj M3 M4))))).
      unfold find_body in *. cbn [tk_bodies set_bodies]. rewrite (Hbo bid' Hbne).
      destruct (find_body_from (tk_bodies tk) bid' 0) as [[j b]|]; [|discriminate]. injection H as <- <-.
      exists (set_bodies tk bsn). auto.
    + rewrite (ft_update_other _ _ _ _ _ (set_bodies tk bsn) _ _ _ _ _ _ _ Hf Em Em).
      destruct (find_task_from (tasks st) loom' pid' m' t' 0) as [[i1 tk0]|]; [|discriminate].
      destruct (find_body tk0 bid') as [[j b]|]; [|discriminate]. injection H as <- <-. exists tk0. auto.
Qed.

(* ---------------------------------------------------------------- what an accepted task operation does *)

Definition op_result (st : state) (who : nat) (th : thread) (mdl kind tid bid : Z) (tk : task) (bi : option nat) (b' : body)
  (st1 : state) : Prop :=
  (kind = 120 /\ b_state b' = BRunning /\ b_on b' = Some who /\
   match bi with
   | Some i => exists b0, find_body tk bid = Some (i, b0) /\ b_on b0 = None
   | None => find_body tk bid = None
   end /\
   threads st1 = update (threads st) who (with_bstack th ((mdl, tid, bid) :: t_bstack th)))
  \/
  (kind <> 120 /\ (exists i b0, bi = Some i /\ find_body tk bid = Some (i, b0) /\ b_on b0 = Some who) /\
   is_top th mdl tid bid = true /\
   ((kind = 112 /\ b_state b' = BPaused /\ b_on b' = Some who /\ threads st1 = threads st) \/
    (kind = 114 /\ b_on b' = Some who /\ threads st1 = threads st) \/
    (kind = 101 /\ b_on b' = None /\
     threads st1 = update (threads st) who (with_bstack th (remove_entry (t_bstack th) mdl tid bid))))).

Lemma task_op_inv st who th loom pid mdl kind tid bid st1 :
  task_op st who th loom pid mdl kind tid bid = Ok st1 ->
  exists ti tk bi b',
    find_task st loom pid mdl tid = Some (ti, tk) /\ b_id b' = bid /\
    tasks st1 = tasks (store_body st ti tk bi b') /\
    op_result st who th mdl kind tid bid tk bi b' st1.
Proof.
  intros H. unfold task_op in H.
  destruct (find_task st loom pid mdl tid) as [[ti tk]|] eqn:Ef; [|discriminate].
  exists ti, tk. unfold op_result.
  destruct (kind =? 120) eqn:Ex.
  - apply Z.eqb_eq in Ex.
    destruct (find_body tk bid) as [[i b0]|] eqn:Eb.
    + exists (Some i), {| b_id := bid; b_state := BRunning; b_on := Some who |}.
      split; [reflexivity|]. split; [reflexivity|]. cbv beta iota in H.
      break_in H; injection H as <-; (split; [reflexivity|]); left; cbn [b_state b_on];
        (repeat split; try assumption; try reflexivity); exists b0; auto.
    + exists None, {| b_id := bid; b_state := BRunning; b_on := Some who |}.
      split; [reflexivity|]. split; [reflexivity|].
      destruct (negb (tk_par tk) && negb (Nat.eqb (length (tk_bodies tk)) 0)); [discriminate|]. cbv beta iota in H. cbn [b_state b_on] in H.
      break_in H; injection H as <-; (split; [reflexivity|]); left; cbn [b_state b_on]; repeat split; try assumption; reflexivity.
  - apply Z.eqb_neq in Ex.
    destruct (find_body tk bid) as [[i b0]|] eqn:Eb; [|discriminate].
    assert (Hon : negb (match b_on b0 with Some w => Nat.eqb w who | None => false end) = false -> b_on b0 = Some who).
    { intros E. apply negb_false_iff in E. now apply on_me_eq. }
    destruct (kind =? 112) eqn:Ep; [|destruct (kind =? 114) eqn:Er; [|destruct (kind =? 101) eqn:Ee; [|discriminate]]].
    + apply Z.eqb_eq in Ep. exists (Some i), {| b_id := bid; b_state := BPaused; b_on := b_on b0 |}.
      break_in H. injection H as <-. split; [reflexivity|]. split; [reflexivity|]. split; [reflexivity|]. right.
      split; [exact Ex|]. split; [exists i, b0; auto|]. split; [now apply negb_false_iff|]. left. cbn [b_state b_on]. auto.
    + apply Z.eqb_eq in Er. exists (Some i), {| b_id := bid; b_state := BRunning; b_on := b_on b0 |}.
      break_in H. injection H as <-. split; [reflexivity|]. split; [reflexivity|]. split; [reflexivity|]. right.
      split; [exact Ex|]. split; [exists i, b0; auto|]. split; [now apply negb_false_iff|]. right; left. cbn [b_state b_on]. auto.
    + apply Z.eqb_eq in Ee. exists (Some i), {| b_id := bid; b_state := BDead; b_on := None |}.
      break_in H. injection H as <-. split; [reflexivity|]. split; [reflexivity|]. split; [reflexivity|]. right.
      split; [exact Ex|]. split; [exists i, b0; auto|]. split; [now apply negb_false_iff|]. right; right. cbn [b_state b_on]. auto.
Qed.

(* ---------------------------------------------------------------- auxiliary invariant: stacks and bodies agree *)

Record AInv (sx : static) (st : state) : Prop := {
  a_len : length (threads st) = length (s_threads sx);
  a_raw : forall t, (t < length (s_threads sx))%nat -> length (t_raw (nth t (threads st) dummy_thread)) = length (s_chans sx);
  a_nodup : forall t, NoDup (bs st t);
  (* every stack entry refers to an existing body that is on that thread *)
  a_on : forall t e, In e (bs st t) ->
         exists tk b, body_state_of st (ti_loom (tinfo sx t)) (ti_pid (tinfo sx t)) e = Some (tk, b) /\ b_on b = Some t
}.

Lemma raws_shape st st1 : raws st1 = raws st ->
  length (threads st1) = length (threads st) /\
  forall t, t_raw (nth t (threads st1) dummy_thread) = t_raw (nth t (threads st) dummy_thread).
Proof.
  intros H. split.
  - apply (f_equal (@length _)) in H. unfold raws in H. now rewrite !map_length in H.
  - assert (G : forall s t, t_raw (nth t (threads s) dummy_thread) = nth t (raws s) []).
    { intros s t. unfold raws. change (@nil raw) with (t_raw dummy_thread). rewrite map_nth. reflexivity. }
    intros t. rewrite !G, H. reflexivity.
Qed.

Lemma bso_ext st st1 loom pid e : tasks st1 = tasks st -> body_state_of st1 loom pid e = body_state_of st loom pid e.
Proof. intros H. unfold body_state_of, find_task. rewrite H. reflexivity. Qed.

Lemma ainv_ext' sx st st1 :
  length (threads st1) = length (threads st) ->
  (forall t, length (t_raw (nth t (threads st1) dummy_thread)) = length (t_raw (nth t (threads st) dummy_thread))) ->
  bstacks st1 = bstacks st -> tasks st1 = tasks st -> AInv sx st -> AInv sx st1.
Proof.
  intros Hl Hrt Hb Ht [L R N O].
  assert (Hbs : forall t, bs st1 t = bs st t) by (intros t; rewrite !bs_bstacks, Hb; reflexivity).
  split.
  - congruence.
  - intros t Hlt. rewrite Hrt. now apply R.
  - intros t. rewrite Hbs. apply N.
  - intros t e Hin. rewrite Hbs in Hin. destruct (O t e Hin) as (tk & b & H1 & H2). exists tk, b. split; [|exact H2].
    rewrite (bso_ext st st1 _ _ _ Ht). exact H1.
Qed.

Lemma ainv_ext sx st st1 :
  raws st1 = raws st -> bstacks st1 = bstacks st -> tasks st1 = tasks st -> AInv sx st -> AInv sx st1.
Proof.
  intros Hr Hb Ht A. destruct (raws_shape _ _ Hr) as [Hl Hrt].
  apply (ainv_ext' sx st st1); auto. intros t. now rewrite Hrt.
Qed.

Lemma entry_eqb_eq (m t b m' t' b' : Z) : (m' =? m) && (t' =? t) && (b' =? b) = true <-> (m', t', b') = (m, t, b).
Proof.
  rewrite !andb_true_iff, !Z.eqb_eq. split; [intros [[-> ->] ->]; reflexivity|intros E; injection E as -> -> ->; auto].
Qed.

Lemma in_remove_entry l m t b e : In e (remove_entry l m t b) -> In e l.
Proof.
  induction l as [|[[m' t'] b'] r IH]; cbn [remove_entry]; [auto|].
  destruct ((m' =? m) && (t' =? t) && (b' =? b)); cbn [In]; [auto|]. intros [H|H]; auto.
Qed.

Lemma nodup_remove_entry l m t b : NoDup l -> NoDup (remove_entry l m t b) /\ ~ In (m, t, b) (remove_entry l m t b).
Proof.
  induction l as [|[[m' t'] b'] r IH]; cbn [remove_entry]; intros H; [split; [constructor|intros []]|].
  inversion H as [|? ? Hn Hr]; subst.
  destruct ((m' =? m) && (t' =? t) && (b' =? b)) eqn:E.
  - apply entry_eqb_eq in E. rewrite <- E. auto.
  - destruct (IH Hr) as [I1 I2]. split.
    + constructor; [|exact I1]. intros Hin. apply Hn. eapply in_remove_entry; eauto.
    + intros [Hin|Hin]; [|now apply I2]. apply entry_eqb_eq in Hin. congruence.
Qed.

Lemma entry_touch sx st t e loom pid ti tk :
  AInv sx st -> In e (bs st t) -> ti_loom (tinfo sx t) = loom -> ti_pid (tinfo sx t) = pid ->
  find_task st loom pid (fst (fst e)) (snd (fst e)) = Some (ti, tk) ->
  exists i b0, find_body tk (snd e) = Some (i, b0) /\ b_on b0 = Some t.
Proof.
  intros A Hin <- <- Hf. destruct (a_on _ _ A t e Hin) as (tk1 & b1 & H1 & H2).
  destruct e as [[m t'] b]. cbn [fst snd] in *. unfold body_state_of in H1. rewrite Hf in H1.
  destruct (find_body tk b) as [[i b0]|]; [|discriminate]. injection H1 as <- <-. eauto.
Qed.

Lemma slot_dec (loom loom' : nat) (pid pid' : Z) (e e' : Z * Z * Z) :
  {loom' = loom /\ pid' = pid /\ e' = e} + {~ (loom' = loom /\ pid' = pid /\ e' = e)}.
Proof.
  destruct (Nat.eq_dec loom' loom) as [E1|N]; [|right; tauto].
  destruct (Z.eq_dec pid' pid) as [E2|N]; [|right; tauto].
  destruct e as [[m t] b], e' as [[m' t'] b'].
  destruct (Z.eq_dec m' m) as [->|N]; [|right; intros (_ & _ & E); congruence].
  destruct (Z.eq_dec t' t) as [->|N]; [|right; intros (_ & _ & E); congruence].
  destruct (Z.eq_dec b' b) as [->|N]; [|right; intros (_ & _ & E); congruence].
  left. auto.
Qed.

Lemma bs_update st st1 who th' :
  threads st1 = update (threads st) who th' -> (who < length (threads st))%nat ->
  forall t, bs st1 t = if Nat.eqb t who then t_bstack th' else bs st t.
Proof.
  intros H Hlt t. unfold bs. rewrite H, nth_update_if. apply Nat.ltb_lt in Hlt. rewrite Hlt, andb_true_r.
  destruct (Nat.eqb t who); reflexivity.
Qed.

Lemma bs_same st st1 : threads st1 = threads st -> forall t, bs st1 t = bs st t.
Proof. intros H t. unfold bs. now rewrite H. Qed.

Theorem task_op_ainv sx st who th mdl kind tid bid st1 :
  AInv sx st -> nth_error (threads st) who = Some th ->
  task_op st who th (ti_loom (tinfo sx who)) (ti_pid (tinfo sx who)) mdl kind tid bid = Ok st1 ->
  AInv sx st1.
Proof.
  intros A Hn H.
  destruct (task_op_frame _ _ _ _ _ _ _ _ _ _ Hn H) as [Hraws _].
  destruct (raws_shape _ _ Hraws) as [Hlen Hrt].
  pose proof (nth_error_lt _ _ _ Hn) as Hlt.
  pose proof (nth_error_nth _ _ _ dummy_thread Hn) as Hth.
  destruct (task_op_inv _ _ _ _ _ _ _ _ _ _ H) as (ti & tk & bi & b' & Hf & Hb & Ht & Hop).
  set (loom := ti_loom (tinfo sx who)) in *. set (pid := ti_pid (tinfo sx who)) in *.
  assert (Hbi : match bi with Some i => exists b0, find_body tk bid = Some (i, b0) | None => find_body tk bid = None end).
  { destruct Hop as [(_ & _ & _ & Hbi & _)|(_ & (i & b0 & -> & Hb0 & _) & _)].
    - destruct bi as [i|]; [destruct Hbi as (b0 & Hb0 & _); eauto|exact Hbi].
    - eauto. }
  destruct (store_body_look st loom pid mdl tid bid ti tk bi b' Hf Hb Hbi) as [(tkn & Hnew & _) Hold].
  assert (Hnew1 : body_state_of st1 loom pid (mdl, tid, bid) = Some (tkn, b')) by (rewrite (bso_ext _ _ _ _ _ Ht); exact Hnew).
  (* an entry of some stack that is not the touched body keeps its body *)
  assert (Hkeep : forall t e, In e (bs st t) ->
            ~ (ti_loom (tinfo sx t) = loom /\ ti_pid (tinfo sx t) = pid /\ e = (mdl, tid, bid)) ->
            exists tk1 b1, body_state_of st1 (ti_loom (tinfo sx t)) (ti_pid (tinfo sx t)) e = Some (tk1, b1) /\ b_on b1 = Some t).
  { intros t e Hin Hne. destruct (a_on _ _ A t e Hin) as (tk1 & b1 & H1 & H2).
    destruct (Hold _ _ _ _ _ Hne H1) as (tk1' & H1' & _). exists tk1', b1. split; [|exact H2].
    rewrite (bso_ext _ _ _ _ _ Ht). exact H1'. }
  (* an entry that is the touched body: the body was on that thread *)
  assert (Htouch : forall t, In (mdl, tid, bid) (bs st t) -> ti_loom (tinfo sx t) = loom -> ti_pid (tinfo sx t) = pid ->
            exists i b0, find_body tk bid = Some (i, b0) /\ b_on b0 = Some t).
  { intros t Hin El Ep. apply (entry_touch sx st t (mdl, tid, bid) loom pid ti tk A Hin El Ep Hf). }
  split.
  - rewrite Hlen. exact (a_len _ _ A).
  - intros t Htl. rewrite Hrt. now apply (a_raw _ _ A).
  - (* NoDup *)
    intros t. destruct Hop as [(_ & _ & _ & Hfree & Hthr)|(_ & _ & _ & [(_ & _ & _ & Hthr)|[(_ & _ & Hthr)|(_ & _ & Hthr)]])].
    + rewrite (bs_update _ _ _ _ Hthr Hlt). destruct (Nat.eqb t who) eqn:E; [|apply (a_nodup _ _ A)].
      apply Nat.eqb_eq in E. subst t. cbn [t_bstack with_bstack]. constructor; [|rewrite <- Hth; apply (a_nodup _ _ A who)].
      intros Hin. rewrite <- Hth in Hin. destruct (Htouch who Hin eq_refl eq_refl) as (i & b0 & Hb0 & Hon).
      destruct bi as [i'|]; [destruct Hfree as (b0' & Hb0' & Hon'); congruence|congruence].
    + rewrite (bs_same _ _ Hthr). apply (a_nodup _ _ A).
    + rewrite (bs_same _ _ Hthr). apply (a_nodup _ _ A).
    + rewrite (bs_update _ _ _ _ Hthr Hlt). destruct (Nat.eqb t who) eqn:E; [|apply (a_nodup _ _ A)].
      cbn [t_bstack with_bstack]. apply nodup_remove_entry. rewrite <- Hth. apply (a_nodup _ _ A who).
  - (* on *)
    intros t e Hin.
    destruct Hop as [(_ & _ & Hon' & Hfree & Hthr)|(_ & (i & b0 & -> & Hb0 & Hon0) & _ & [(_ & _ & Hon' & Hthr)|[(_ & Hon' & Hthr)|(_ & _ & Hthr)]])].
    + (* execute *)
      rewrite (bs_update _ _ _ _ Hthr Hlt) in Hin.
      assert (Hnot : forall t', In e (bs st t') -> ~ (ti_loom (tinfo sx t') = loom /\ ti_pid (tinfo sx t') = pid /\ e = (mdl, tid, bid))).
      { intros t' Hin' (El & Ep & ->). destruct (Htouch t' Hin' El Ep) as (i & b0 & Hb0 & Hon).
        destruct bi as [i'|]; [destruct Hfree as (b0' & Hb0' & Hon''); congruence|congruence]. }
      destruct (Nat.eqb t who) eqn:E.
      * apply Nat.eqb_eq in E. subst t. cbn [t_bstack with_bstack In] in Hin. destruct Hin as [<-|Hin].
        -- exists tkn, b'. split; [exact Hnew1|exact Hon'].
        -- rewrite <- Hth in Hin. apply Hkeep; [exact Hin|now apply Hnot].
      * apply Hkeep; [exact Hin|now apply Hnot].
    + (* pause *)
      rewrite (bs_same _ _ Hthr) in Hin.
      destruct (slot_dec loom (ti_loom (tinfo sx t)) pid (ti_pid (tinfo sx t)) (mdl, tid, bid) e) as [(El & Ep & ->)|Hne]; [|now apply Hkeep].
      destruct (Htouch t Hin El Ep) as (i' & b0' & Hb0' & Hon). assert (t = who) by congruence. subst t.
      exists tkn, b'. split; [exact Hnew1|exact Hon'].
    + (* resume *)
      rewrite (bs_same _ _ Hthr) in Hin.
      destruct (slot_dec loom (ti_loom (tinfo sx t)) pid (ti_pid (tinfo sx t)) (mdl, tid, bid) e) as [(El & Ep & ->)|Hne]; [|now apply Hkeep].
      destruct (Htouch t Hin El Ep) as (i' & b0' & Hb0' & Hon). assert (t = who) by congruence. subst t.
      exists tkn, b'. split; [exact Hnew1|exact Hon'].
    + (* end *)
      rewrite (bs_update _ _ _ _ Hthr Hlt) in Hin. destruct (Nat.eqb t who) eqn:E.
      * apply Nat.eqb_eq in E. subst t. cbn [t_bstack with_bstack] in Hin. rewrite <- Hth in Hin. fold (bs st who) in Hin.
        destruct (nodup_remove_entry _ mdl tid bid (a_nodup _ _ A who)) as [_ Hnotin].
        apply Hkeep; [eapply in_remove_entry; eauto|]. intros (_ & _ & ->). contradiction.
      * apply Nat.eqb_neq in E. apply Hkeep; [exact Hin|]. intros (El & Ep & ->).
        destruct (Htouch t Hin El Ep) as (i' & b0' & Hb0' & Hon). congruence.
Qed.

(* ---------------------------------------------------------------- channel writes *)

Lemma raw_apply_rval sp r a v r' d :
  raw_apply sp r a v = Ok (r', d) -> (a = SET -> r_val r' = v) /\ (a <> SET -> r_val r' = r_val r).
Proof.
  unfold raw_apply. intros H. destruct a; destruct v as [x|]; break_in H; inversion H; subst; cbn [r_val];
    split; intros E; try reflexivity; try discriminate E; try congruence.
Qed.

Lemma chan_step_eff sx st who k a v st1 d :
  chan_step sx st who k a v = Ok (st1, d) ->
  tasks st1 = tasks st /\ bstacks st1 = bstacks st /\
  (forall t k', (t <> who \/ k' <> k \/ a <> SET) -> rv st1 t k' = rv st t k') /\
  (AInv sx st -> AInv sx st1 /\ (a = SET -> rv st1 who k = v)).
Proof.
  unfold chan_step, nth_opt. intros H.
  destruct (nth_error (threads st) who) as [th|] eqn:Hn; [|discriminate].
  destruct (nth_error (s_chans sx) k) as [sp|] eqn:Hsp; [|discriminate].
  destruct (raw_apply sp (nth k (t_raw th) empty_raw) a v) as [[r' dd]|] eqn:Ea; [|discriminate].
  inversion H; subst st1 d. clear H.
  pose proof (nth_error_lt _ _ _ Hn) as Hlt. pose proof (nth_error_lt _ _ _ Hsp) as Hk.
  pose proof (nth_error_nth _ _ _ dummy_thread Hn) as Hth.
  destruct (raw_apply_rval _ _ _ _ _ _ Ea) as [Vset Vother].
  set (th' := with_raw th (update (t_raw th) k r')).
  assert (Hnth : forall t, nth t (threads (set_thread st who th')) dummy_thread = if Nat.eqb t who then th' else nth t (threads st) dummy_thread).
  { intros t. cbn [threads set_thread]. rewrite nth_update_if. apply Nat.ltb_lt in Hlt. rewrite Hlt, andb_true_r. reflexivity. }
  split; [reflexivity|]. split; [apply (bstacks_set_thread st who th); [exact Hn|reflexivity]|]. split.
  - intros t k' Hc. unfold rv, raw_of. rewrite Hnth. destruct (Nat.eqb t who) eqn:E; [|reflexivity].
    apply Nat.eqb_eq in E. subst t. rewrite Hth. cbn [t_raw th' with_raw].
    destruct (Nat.eq_dec k' k) as [->|Hne]; [|rewrite nth_update_other by congruence; reflexivity].
    destruct Hc as [Hc|[Hc|Hc]]; try congruence.
    destruct (nth_update_cases (t_raw th) k k r' empty_raw) as [E|E]; rewrite E; [now apply Vother|reflexivity].
  - intros A. split.
    + apply (ainv_ext' sx st); try reflexivity; [cbn [threads set_thread]; apply update_length| |apply (bstacks_set_thread st who th); [exact Hn|reflexivity]|exact A].
      intros t. rewrite Hnth. destruct (Nat.eqb t who) eqn:E; [|reflexivity]. apply Nat.eqb_eq in E. subst t.
      rewrite Hth. cbn [t_raw th' with_raw]. apply update_length.
    + intros Ha. unfold rv, raw_of. rewrite Hnth, Nat.eqb_refl. cbn [t_raw th' with_raw].
      rewrite nth_update_same; [now apply Vset|].
      rewrite <- Hth. rewrite (a_raw _ _ A who); [exact Hk|]. rewrite <- (a_len _ _ A). exact Hlt.
Qed.

Lemma set_chans_eff sx who ws : forall st d0 st1 d,
  set_chans sx st who ws d0 = Ok (st1, d) -> AInv sx st -> NoDup (map fst ws) ->
  AInv sx st1 /\ tasks st1 = tasks st /\ bstacks st1 = bstacks st /\
  (forall k v, In (k, v) ws -> rv st1 who k = v) /\
  (forall t k, (t <> who \/ ~ In k (map fst ws)) -> rv st1 t k = rv st t k).
Proof.
  induction ws as [|[k v] ws IH]; intros st d0 st1 d H A N; cbn [set_chans] in H.
  - inversion H; subst. split; [exact A|]. split; [reflexivity|]. split; [reflexivity|]. split; [intros k v []|reflexivity].
  - destruct (chan_step sx st who k SET v) as [[st' d1]|] eqn:E; [|discriminate].
    destruct (chan_step_eff _ _ _ _ _ _ _ _ E) as (T1 & B1 & R1 & A1). destruct (A1 A) as [A' S1]. specialize (S1 eq_refl).
    cbn [map fst] in N. apply NoDup_cons_iff in N as [Nk Nr].
    destruct (IH _ _ _ _ H A' Nr) as (A2 & T2 & B2 & S2 & R2).
    split; [exact A2|]. split; [congruence|]. split; [congruence|]. split.
    + intros k0 v0 [Eq|Hin]; [injection Eq as <- <-|now apply S2].
      rewrite (R2 who k); [exact S1|right; exact Nk].
    + intros t k0 Hc. rewrite (R2 t k0).
      * apply R1. destruct Hc as [Hc|Hc]; [now left|right; left]. intros ->. apply Hc. now left.
      * destruct Hc as [Hc|Hc]; [now left|right]. intros Hin. apply Hc. now right.
Qed.

(* ---------------------------------------------------------------- what an accepted task event does *)

Definition rank_filter (ti : thread_info) (l : list (tfield * nat)) : list (tfield * nat) :=
  filter (fun '(f, _) => match f with FRank => 0 <=? ti_rank ti | _ => true end) l.

Lemma task_op_kinds st who th loom pid mdl kind tid bid st1 :
  task_op st who th loom pid mdl kind tid bid = Ok st1 -> kind = 120 \/ kind = 112 \/ kind = 114 \/ kind = 101.
Proof.
  intros H. destruct (task_op_inv _ _ _ _ _ _ _ _ _ _ H) as (? & ? & ? & ? & _ & _ & _ & [(K & _)|(_ & _ & _ & [(K & _)|[(K & _)|(K & _)]])]); auto.
Qed.

Lemma task_event_inv sx st who cfg mdl kind tid rawbid st3 d :
  task_event sx st who cfg mdl kind tid rawbid = Ok (st3, d) ->
  exists th ti bid s1 s2 d1 V,
    nth_error (threads st) who = Some th /\ nth_error (s_threads sx) who = Some ti /\
    task_op st who th (ti_loom ti) (ti_pid ti) mdl kind tid bid = Ok s1 /\
    (s2 = s1 \/ exists a, a <> SET /\ chan_step sx s1 who (tc_ss cfg) a (Some (tc_ssval cfg)) = Ok (s2, d1)) /\
    set_chans sx s2 who (map (fun '(f, k) => (k, V f)) (rank_filter ti (tc_chans cfg))) d1 = Ok (st3, d) /\
    ((kind = 112 /\ forall f, V f = None) \/
     forall f, V f = match running_top s1 (ti_loom ti) (ti_pid ti) (nth who (threads s1) dummy_thread) mdl with
                     | Some (tn, bn) => field_value ti tn bn f | None => None end).
Proof.
  unfold task_event, nth_opt. intros H.
  destruct (nth_error (threads st) who) as [th|] eqn:Hn; [|discriminate].
  destruct (nth_error (s_threads sx) who) as [ti|] eqn:Hi; [|discriminate].
  destruct (find_task st (ti_loom ti) (ti_pid ti) mdl tid) as [[i0 tk0]|]; [|discriminate].
  match type of H with match ?o with Some _ => _ | None => _ end = _ => destruct o as [bid|]; [|discriminate] end.
  destruct (task_op st who th (ti_loom ti) (ti_pid ti) mdl kind tid bid) as [s1|] eqn:Eop; [|discriminate].
  match type of H with match ?ssr with Ok _ => _ | Err _ => _ end = _ => destruct ssr as [[s2 d1]|] eqn:Ess; [|discriminate] end.
  match type of H with match ?w with Ok _ => _ | Err _ => _ end = _ => destruct w as [ws|] eqn:Ew; [|discriminate] end.
  destruct (set_chans sx s2 who ws d1) as [[s3 d']|] eqn:Esc; [|discriminate].
  assert (E3 : s3 = st3 /\ d' = d) by (break_in H; inversion H; subst; auto). destruct E3 as [-> ->]. clear H.
  assert (Hss : s2 = s1 \/ exists a, a <> SET /\ chan_step sx s1 who (tc_ss cfg) a (Some (tc_ssval cfg)) = Ok (s2, d1)).
  { destruct (kind =? 120); [right; exists PUSH; split; [discriminate|exact Ess]|].
    destruct (kind =? 101); [right; exists POP; split; [discriminate|exact Ess]|]. left. now inversion Ess. }
  pose proof (task_op_kinds _ _ _ _ _ _ _ _ _ _ Eop) as K.
  exists th, ti, bid, s1, s2, d1.
  fold (rank_filter ti (tc_chans cfg)) in Ew.
  remember (running_top s1 (ti_loom ti) (ti_pid ti) (nth who (threads s1) dummy_thread) mdl) as next eqn:Enext.
  remember (running_top st (ti_loom ti) (ti_pid ti) th mdl) as prev eqn:Eprev.
  clear Ess.
  destruct next as [[tn bn]|]; destruct prev as [[tp bp]|].
  all: repeat match type of Ew with
       | (if ?c then _ else _) = _ => let E := fresh "Hc" in destruct c eqn:E
       | Err _ = Ok _ => discriminate Ew
       end; injection Ew as <-.
  all: try (exists (fun f => field_value ti tn bn f); repeat (split; [assumption || reflexivity|]); right; reflexivity).
  all: exists (fun _ : tfield => None); repeat (split; [assumption || reflexivity|]).
  all: try (right; reflexivity).
  all: left; split; [|reflexivity]; destruct K as [ -> | [ -> | [ -> | -> ] ] ]; try reflexivity;
       repeat match goal with H : _ = false |- _ => vm_compute in H; try discriminate H; clear H end.
Qed.

(* ---------------------------------------------------------------- the running body of a thread across an operation *)

Lemma model_stack_head th mdl e r : model_stack th mdl = e :: r -> fst (fst e) = mdl /\ In e (t_bstack th).
Proof.
  unfold model_stack. intros H.
  assert (Hin : In e (filter (fun '(m, _, _) => m =? mdl) (t_bstack th))) by (rewrite H; now left).
  apply filter_In in Hin as [Hin Hm]. destruct e as [[m t] b]. cbn [fst]. apply Z.eqb_eq in Hm. auto.
Qed.

Lemma expected_same ti tk b tk' f : tk_id tk' = tk_id tk -> tk_gid tk' = tk_gid tk -> expected_field ti tk' b f = expected_field ti tk b f.
Proof. intros H1 H2. unfold expected_field, field_value. destruct f; congruence. Qed.

Lemma rtop_sim st st1 loom pid th th1 mdl ti :
  model_stack th1 mdl = model_stack th mdl ->
  (forall e r, model_stack th mdl = e :: r ->
     exists tk b tk', body_state_of st loom pid e = Some (tk, b) /\ body_state_of st1 loom pid e = Some (tk', b) /\
                      tk_id tk' = tk_id tk /\ tk_gid tk' = tk_gid tk) ->
  forall f, expected ti (running_top st1 loom pid th1 mdl) f = expected ti (running_top st loom pid th mdl) f.
Proof.
  intros Hm Hs f. unfold running_top. rewrite Hm. destruct (model_stack th mdl) as [|e r]; [reflexivity|].
  destruct (Hs e r eq_refl) as (tk & b & tk' & -> & -> & H1 & H2).
  destruct (bstate_eqb (b_state b) BRunning); [|reflexivity]. cbn [expected]. now apply expected_same.
Qed.

Lemma filter_remove_entry l mdl tid bid mdl' :
  mdl' <> mdl ->
  filter (fun '(m, _, _) => m =? mdl') (remove_entry l mdl tid bid) = filter (fun '(m, _, _) => m =? mdl') l.
Proof.
  intros Hne. induction l as [|[[m t] b] r IH]; [reflexivity|]. cbn [remove_entry].
  destruct ((m =? mdl) && (t =? tid) && (b =? bid)) eqn:E.
  - apply andb_prop in E as [E _]. apply andb_prop in E as [E _]. apply Z.eqb_eq in E. subst m.
    cbn [filter]. destruct (mdl =? mdl') eqn:E2; [apply Z.eqb_eq in E2; congruence|reflexivity].
  - cbn [filter]. rewrite IH. reflexivity.
Qed.

(* the bodies behind the stack entries of other threads, or of another model, are not the touched one *)
Lemma task_op_keep sx st who th mdl kind tid bid s1 :
  AInv sx st -> nth_error (threads st) who = Some th ->
  task_op st who th (ti_loom (tinfo sx who)) (ti_pid (tinfo sx who)) mdl kind tid bid = Ok s1 ->
  forall t e, In e (bs st t) -> (t <> who \/ fst (fst e) <> mdl) ->
  forall tk b, body_state_of st (ti_loom (tinfo sx t)) (ti_pid (tinfo sx t)) e = Some (tk, b) ->
  exists tk', body_state_of s1 (ti_loom (tinfo sx t)) (ti_pid (tinfo sx t)) e = Some (tk', b) /\
              tk_id tk' = tk_id tk /\ tk_gid tk' = tk_gid tk.
Proof.
  intros A Hn H t e Hin Hc tk1 b1 H1.
  destruct (task_op_inv _ _ _ _ _ _ _ _ _ _ H) as (ti & tk & bi & b' & Hf & Hb & Ht & Hop).
  set (loom := ti_loom (tinfo sx who)) in *. set (pid := ti_pid (tinfo sx who)) in *.
  assert (Hbi : match bi with Some i => exists b0, find_body tk bid = Some (i, b0) | None => find_body tk bid = None end).
  { destruct Hop as [(_ & _ & _ & Hbi & _)|(_ & (i & b0 & -> & Hb0 & _) & _)].
    - destruct bi as [i|]; [destruct Hbi as (b0 & Hb0 & _); eauto|exact Hbi].
    - eauto. }
  destruct (store_body_look st loom pid mdl tid bid ti tk bi b' Hf Hb Hbi) as [_ Hold].
  assert (Hne : ~ (ti_loom (tinfo sx t) = loom /\ ti_pid (tinfo sx t) = pid /\ e = (mdl, tid, bid))).
  { intros (El & Ep & ->). destruct Hc as [Hc|Hc]; [|now apply Hc].
    destruct (entry_touch sx st t (mdl, tid, bid) loom pid ti tk A Hin El Ep Hf) as (i & b0 & Hb0 & Hon). cbn [snd] in Hb0.
    destruct Hop as [(_ & _ & _ & Hfree & _)|(_ & (i' & b0' & _ & Hb0' & Hon') & _)].
    - destruct bi as [i'|]; [destruct Hfree as (b0' & Hb0' & Hon'); congruence|congruence].
    - congruence. }
  destruct (Hold _ _ _ _ _ Hne H1) as (tk1' & H1' & Hid). exists tk1'. split; [|exact Hid].
  rewrite (bso_ext _ _ _ _ _ Ht). exact H1'.
Qed.

Lemma task_op_bs sx st who th mdl kind tid bid s1 :
  nth_error (threads st) who = Some th ->
  task_op st who th (ti_loom (tinfo sx who)) (ti_pid (tinfo sx who)) mdl kind tid bid = Ok s1 ->
  forall t mdl', (t <> who \/ mdl' <> mdl) ->
  model_stack (nth t (threads s1) dummy_thread) mdl' = model_stack (nth t (threads st) dummy_thread) mdl'.
Proof.
  intros Hn H t mdl' Hc.
  pose proof (nth_error_lt _ _ _ Hn) as Hlt. pose proof (nth_error_nth _ _ _ dummy_thread Hn) as Hth.
  destruct (task_op_inv _ _ _ _ _ _ _ _ _ _ H) as (ti & tk & bi & b' & _ & _ & _ & Hop).
  unfold model_stack. fold (bs s1 t) (bs st t).
  destruct Hop as [(_ & _ & _ & _ & Hthr)|(_ & _ & _ & [(_ & _ & _ & Hthr)|[(_ & _ & Hthr)|(_ & _ & Hthr)]])].
  - rewrite (bs_update _ _ _ _ Hthr Hlt). destruct (Nat.eqb t who) eqn:E; [|reflexivity]. apply Nat.eqb_eq in E. subst t.
    destruct Hc as [Hc|Hc]; [congruence|]. cbn [t_bstack with_bstack filter].
    destruct (mdl =? mdl') eqn:E2; [apply Z.eqb_eq in E2; congruence|]. unfold bs. now rewrite Hth.
  - now rewrite (bs_same _ _ Hthr).
  - now rewrite (bs_same _ _ Hthr).
  - rewrite (bs_update _ _ _ _ Hthr Hlt). destruct (Nat.eqb t who) eqn:E; [|reflexivity]. apply Nat.eqb_eq in E. subst t.
    destruct Hc as [Hc|Hc]; [congruence|]. cbn [t_bstack with_bstack]. rewrite filter_remove_entry by exact Hc. unfold bs. now rewrite Hth.
Qed.

Lemma task_op_other_top sx st who th mdl kind tid bid s1 t mdl' :
  AInv sx st -> nth_error (threads st) who = Some th ->
  task_op st who th (ti_loom (tinfo sx who)) (ti_pid (tinfo sx who)) mdl kind tid bid = Ok s1 ->
  (t <> who \/ mdl' <> mdl) ->
  forall f, expected (tinfo sx t) (thread_top sx s1 t mdl') f = expected (tinfo sx t) (thread_top sx st t mdl') f.
Proof.
  intros A Hn H Hc f. unfold thread_top. apply rtop_sim.
  - eapply task_op_bs; eauto.
  - intros e r Hm. destruct (model_stack_head _ _ _ _ Hm) as [Hmdl Hin]. fold (bs st t) in Hin.
    destruct (a_on _ _ A t e Hin) as (tk & b & H1 & _).
    destruct (task_op_keep sx st who th mdl kind tid bid s1 A Hn H t e Hin) with (tk := tk) (b := b) as (tk' & H1' & Hid & Hg).
    + destruct Hc as [Hc|Hc]; [now left|right; congruence].
    + exact H1.
    + exists tk, b, tk'. auto.
Qed.

Lemma pause_top sx st who th mdl tid bid s1 :
  nth_error (threads st) who = Some th ->
  task_op st who th (ti_loom (tinfo sx who)) (ti_pid (tinfo sx who)) mdl 112 tid bid = Ok s1 ->
  thread_top sx s1 who mdl = None.
Proof.
  intros Hn H. pose proof (nth_error_nth _ _ _ dummy_thread Hn) as Hth.
  destruct (task_op_inv _ _ _ _ _ _ _ _ _ _ H) as (ti & tk & bi & b' & Hf & Hb & Ht & Hop).
  destruct Hop as [(K & _)|(_ & (i & b0 & -> & Hb0 & _) & Htop & [(_ & Hst & _ & Hthr)|[(K & _)|(K & _)]])]; try discriminate K.
  destruct (store_body_look st _ _ mdl tid bid ti tk (Some i) b' Hf Hb (ex_intro _ b0 Hb0)) as [(tkn & Hnew & _) _].
  unfold thread_top, running_top. rewrite Hthr, Hth. unfold is_top in Htop.
  destruct (model_stack th mdl) as [|[[m t] b] r] eqn:Em; [discriminate|].
  destruct (model_stack_head _ _ _ _ Em) as [Hm _]. cbn [fst] in Hm. subst m.
  apply andb_prop in Htop as [E1 E2]. apply Z.eqb_eq in E1, E2. subst t b.
  rewrite (bso_ext _ _ _ _ _ Ht), Hnew, Hst. reflexivity.
Qed.

(* ---------------------------------------------------------------- static facts and the event condition *)

Record TaskStatic (sx : static) (en : list Z) : Prop := {
  ts_nodup : forall cfg mdl, In (cfg, mdl) (task_models en (s_chans sx)) -> NoDup (map snd (tc_chans cfg));
  ts_spec : forall cfg mdl f k, In (cfg, mdl) (task_models en (s_chans sx)) -> In (f, k) (tc_chans cfg) ->
            (k < length (s_chans sx))%nat /\ cs_stack (spec_of sx k) = false /\ cs_init (spec_of sx k) = None;
  ts_disj : forall cfg mdl cfg' mdl', In (cfg, mdl) (task_models en (s_chans sx)) -> In (cfg', mdl') (task_models en (s_chans sx)) ->
            (cfg = cfg' /\ mdl = mdl') \/
            (mdl <> mdl' /\ forall f k f' k', In (f, k) (tc_chans cfg) -> In (f', k') (tc_chans cfg') -> k <> k')
}.

(* task events belong to an enabled task model; no other event sets a task channel *)
Definition ev_tv (sx : static) (en : list Z) (ev : event) : Prop :=
  match ev with
  | EvChan k a _ _ => a = SET -> forall cfg mdl f k', In (cfg, mdl) (task_models en (s_chans sx)) -> In (f, k') (tc_chans cfg) -> k' <> k
  | EvTask cfg mdl _ _ _ => In (cfg, mdl) (task_models en (s_chans sx))
  | _ => True
  end.

Lemma map_fst_writes (V : tfield -> value) (l : list (tfield * nat)) : map fst (map (fun '(f, k) => (k, V f)) l) = map snd l.
Proof. induction l as [|[f k] l IH]; [reflexivity|]. cbn [map fst snd]. now rewrite IH. Qed.

Lemma nodup_map_filter {A B} (g : A -> B) (p : A -> bool) (l : list A) : NoDup (map g l) -> NoDup (map g (filter p l)).
Proof.
  induction l as [|a l IH]; cbn [map filter]; intros H; [constructor|]. apply NoDup_cons_iff in H as [Hn Hr].
  destruct (p a); [|now apply IH]. cbn [map]. constructor; [|now apply IH].
  intros Hin. apply Hn. apply in_map_iff in Hin as (x & E & Hx). apply filter_In in Hx as [Hx _]. apply in_map_iff. eauto.
Qed.

Lemma nodup_snd_unique {A B} (l : list (A * B)) a a' k : NoDup (map snd l) -> In (a, k) l -> In (a', k) l -> a = a'.
Proof.
  induction l as [|[x y] l IH]; cbn [map snd In]; intros N H1 H2; [contradiction|]. apply NoDup_cons_iff in N as [Hn Hr].
  destruct H1 as [E1|H1], H2 as [E2|H2].
  - congruence.
  - injection E1 as -> ->. exfalso. apply Hn. apply in_map_iff. exists (a', k). auto.
  - injection E2 as -> ->. exfalso. apply Hn. apply in_map_iff. exists (a, k). auto.
  - eauto.
Qed.

Lemma expected_norank ti o : (0 <=? ti_rank ti) = false -> expected ti o FRank = None.
Proof. intros E. destruct o as [[tk b]|]; [|reflexivity]. cbn [expected expected_field]. now rewrite E. Qed.

Lemma expected_pass ti o f :
  (match f with FRank => 0 <=? ti_rank ti | _ => true end) = true ->
  expected ti o f = match o with Some (tn, bn) => field_value ti tn bn f | None => None end.
Proof. intros E. destruct o as [[tk b]|]; [|reflexivity]. cbn [expected]. unfold expected_field. destruct f; try reflexivity. now rewrite E. Qed.

Theorem task_event_tv sx en st who cfg mdl kind tid rawbid st3 d :
  TaskStatic sx en -> In (cfg, mdl) (task_models en (s_chans sx)) -> AInv sx st -> TV sx en st ->
  task_event sx st who cfg mdl kind tid rawbid = Ok (st3, d) -> AInv sx st3 /\ TV sx en st3.
Proof.
  intros TS Hcfg A T H.
  destruct (task_event_inv _ _ _ _ _ _ _ _ _ _ H) as (th & ti & bid & s1 & s2 & d1 & V & Hn & Hi & Eop & Hss & Esc & HV).
  assert (Eti : tinfo sx who = ti) by (unfold tinfo; now apply nth_error_nth). rewrite <- Eti in Eop.
  assert (A1 : AInv sx s1) by (eapply task_op_ainv; eauto).
  destruct (task_op_frame _ _ _ _ _ _ _ _ _ _ Hn Eop) as [Hraws1 _].
  assert (X2 : AInv sx s2 /\ tasks s2 = tasks s1 /\ bstacks s2 = bstacks s1 /\ forall t k, rv s2 t k = rv s1 t k).
  { destruct Hss as [->|(a & Ha & Ess)]; [auto|].
    destruct (chan_step_eff _ _ _ _ _ _ _ _ Ess) as (T2 & B2 & R2 & A2). destruct (A2 A1) as [A2' _].
    split; [exact A2'|]. split; [exact T2|]. split; [exact B2|]. intros t k. apply R2. right; right; exact Ha. }
  destruct X2 as (A2 & T2 & B2 & R2).
  set (ws := map (fun '(f, k) => (k, V f)) (rank_filter ti (tc_chans cfg))) in *.
  assert (Nws : NoDup (map fst ws)).
  { subst ws. rewrite map_fst_writes. apply nodup_map_filter. exact (ts_nodup _ _ TS _ _ Hcfg). }
  destruct (set_chans_eff _ _ _ _ _ _ _ Esc A2 Nws) as (A3 & T3 & B3 & S3 & R3).
  split; [exact A3|].
  assert (Htop : forall t m, thread_top sx st3 t m = thread_top sx s1 t m).
  { intros t m. apply thread_top_ext; [congruence|]. rewrite !bs_bstacks. congruence. }
  assert (Hrv1 : forall t k, rv s1 t k = rv st t k) by (intros t k; unfold rv; now rewrite (raw_of_same_raws _ _ Hraws1)).
  intros t Ht cfg' mdl' Hcfg' f k Hfk. fold (rv st3 t k). rewrite Htop.
  assert (Hold : rv st t k = expected (tinfo sx t) (thread_top sx st t mdl') f) by (apply (T t Ht cfg' mdl' Hcfg' f k Hfk)).
  assert (Hws : In k (map fst ws) -> exists f', In (f', k) (tc_chans cfg) /\ (match f' with FRank => 0 <=? ti_rank ti | _ => true end) = true).
  { subst ws. rewrite map_fst_writes. intros Hin. apply in_map_iff in Hin as ([f' k'] & E & Hin). cbn [snd] in E. subst k'.
    apply filter_In in Hin. exists f'. exact Hin. }
  destruct (ts_disj _ _ TS _ _ _ _ Hcfg Hcfg') as [[<- <-]|[Hm Hd]].
  - destruct (Nat.eq_dec t who) as [->|Hne].
    + rewrite Eti.
      destruct (match f with FRank => 0 <=? ti_rank ti | _ => true end) eqn:Ef.
      * assert (Hin : In (k, V f) ws).
        { subst ws. apply in_map_iff. exists (f, k). split; [reflexivity|]. apply filter_In. auto. }
        rewrite (S3 _ _ Hin), (expected_pass _ _ _ Ef).
        destruct HV as [[-> HV]|HV].
        -- rewrite HV, (pause_top sx st who th mdl tid bid s1 Hn Eop). reflexivity.
        -- rewrite HV. unfold thread_top. rewrite Eti. reflexivity.
      * assert (f = FRank) by (destruct f; try discriminate Ef; reflexivity). subst f.
        rewrite (expected_norank _ _ Ef). rewrite R3, R2, Hrv1, Hold, Eti; [now apply expected_norank|].
        right. intros Hin. destruct (Hws Hin) as (f' & Hin' & Ef').
        assert (FRank = f') by (eapply nodup_snd_unique; [exact (ts_nodup _ _ TS _ _ Hcfg)|exact Hfk|exact Hin']). subst f'. congruence.
    + rewrite R3 by (now left). rewrite R2, Hrv1, Hold. symmetry. eapply task_op_other_top; eauto.
  - rewrite R3, R2, Hrv1, Hold.
    + symmetry. eapply task_op_other_top; eauto.
    + right. intros Hin. destruct (Hws Hin) as (f' & Hin' & _). exact (Hd _ _ _ _ Hin' Hfk eq_refl).
Qed.

(* ---------------------------------------------------------------- every event *)

Lemma tv_ext sx en st st1 :
  raws st1 = raws st -> bstacks st1 = bstacks st -> tasks st1 = tasks st -> TV sx en st -> TV sx en st1.
Proof.
  intros Hr Hb Ht T t Hlt cfg mdl Hc f k Hfk. rewrite (raw_of_same_raws _ _ Hr).
  rewrite (thread_top_ext sx st st1 t mdl Ht); [now apply (T t Hlt cfg mdl Hc f k Hfk)|]. rewrite !bs_bstacks. congruence.
Qed.

Lemma change_state_bstacks sx st who th ok new st1 :
  nth_error (threads st) who = Some th -> change_state sx st who th ok new = Ok st1 -> bstacks st1 = bstacks st.
Proof.
  intros Hn H. unfold change_state in H. break_in H. inversion H; subst.
  change (bstacks (touch (set_thread st who (with_state th new)) n)) with (bstacks (set_thread st who (with_state th new))).
  apply (bstacks_set_thread st who th); [exact Hn|reflexivity].
Qed.

Lemma migrate_bstacks sx st t th old new st1 :
  nth_error (threads st) t = Some th -> migrate sx st t th old new = Ok st1 -> bstacks st1 = bstacks st.
Proof.
  intros Hn H. unfold migrate in H. break_in H. inversion H; subst.
  etransitivity; [apply (bstacks_set_thread _ t th); [exact Hn|reflexivity]|reflexivity].
Qed.

Lemma oh_step_bstacks sx st who e st1 : oh_step sx st who e = Ok st1 -> bstacks st1 = bstacks st.
Proof.
  intros H. unfold oh_step, nth_opt in H.
  destruct (nth_error (threads st) who) as [th|] eqn:Hn; [|discriminate].
  destruct (t_ooc th); [discriminate|].
  assert (G : forall th' c l, t_bstack th' = t_bstack th ->
            bstacks (touch (set_cpu_threads (set_thread st who th') c l) c) = bstacks st).
  { intros th' c l Hb. change (bstacks (touch (set_cpu_threads (set_thread st who th') c l) c)) with (bstacks (set_thread st who th')).
    apply (bstacks_set_thread st who th); [exact Hn|exact Hb]. }
  destruct e.
  - break_in H. inversion H; subst. apply G. reflexivity.
  - break_in H; inversion H; subst; apply G; reflexivity.
  - eapply change_state_bstacks; eauto.
  - eapply change_state_bstacks; eauto.
  - eapply change_state_bstacks; eauto.
  - eapply change_state_bstacks; eauto.
  - destruct (t_cpu th) as [old|]; [|discriminate].
    destruct (negb (is_active (t_state th))); [discriminate|].
    destruct (find_cpu sx (thread_loom sx who) cpuidx) as [new|]; [|discriminate].
    destruct (Nat.eqb old new); [inversion H; subst; reflexivity|eapply migrate_bstacks; eauto].
  - destruct (find_remote sx who tid) as [r|]; [|discriminate].
    destruct (nth_error (threads st) r) as [rth|] eqn:Hr; [|discriminate].
    destruct (t_state rth); try discriminate;
      (destruct (t_cpu rth) as [old|]; [|discriminate];
       destruct (find_cpu sx (thread_loom sx who) cpuidx) as [new|]; [|discriminate];
       destruct (Nat.eqb old new); [discriminate|]; eapply migrate_bstacks; eauto).
Qed.

Lemma bso_app st tk loom pid e x :
  body_state_of st loom pid e = Some x -> body_state_of (set_tasks st (tasks st ++ [tk])) loom pid e = Some x.
Proof.
  destruct e as [[m t] b]. unfold body_state_of, find_task. cbn [tasks set_tasks]. intros H.
  destruct (find_task_from (tasks st) loom pid m t 0) as [[i tk0]|] eqn:E; [|discriminate].
  rewrite (ft_app _ tk _ _ _ _ _ _ _ E). exact H.
Qed.

Theorem core_step_tv sx en st who ev st1 dirty :
  TaskStatic sx en -> ev_tv sx en ev -> AInv sx st -> TV sx en st ->
  core_step sx st who ev = Ok (st1, dirty) -> AInv sx st1 /\ TV sx en st1.
Proof.
  intros TS Hev A T H. unfold core_step, nth_opt in H. destruct ev.
  - (* EvOvni *) destruct (oh_step sx st who e) as [s|] eqn:E; [|discriminate]. inversion H; subst.
    destruct (oh_step_frame _ _ _ _ _ E) as [Hr _]. pose proof (oh_step_bstacks _ _ _ _ _ E) as Hb. pose proof (oh_step_tasks _ _ _ _ _ E) as Ht.
    split; [eapply ainv_ext; eauto|eapply tv_ext; eauto].
  - (* EvChan *) destruct (nth_error (threads st) who) as [th|]; [|discriminate].
    assert (Hc : chan_step sx st who k a v = Ok (st1, dirty)) by (break_in H; exact H). clear H.
    destruct (chan_step_eff _ _ _ _ _ _ _ _ Hc) as (T1 & B1 & R1 & A1). destruct (A1 A) as [A' _]. split; [exact A'|].
    intros t Hlt cfg mdl Hcfg f k' Hfk. fold (rv st1 t k'). rewrite R1.
    + rewrite (thread_top_ext sx st st1 t mdl T1); [now apply (T t Hlt cfg mdl Hcfg f k' Hfk)|]. rewrite !bs_bstacks. congruence.
    + cbn [ev_tv] in Hev. destruct a; try (right; right; discriminate). right; left. eapply Hev; eauto.
  - (* EvOoc *) destruct (nth_error (threads st) who) as [th|] eqn:Hn; [|discriminate].
    set (st' := set_thread st who (with_ooc th out)) in *.
    assert (Hr : raws st' = raws st) by (apply (raws_set_thread st who th); [exact Hn|reflexivity]).
    assert (Hb : bstacks st' = bstacks st) by (apply (bstacks_set_thread st who th); [exact Hn|reflexivity]).
    assert (A0 : AInv sx st') by (apply (ainv_ext sx st); auto).
    assert (T0 : TV sx en st') by (apply (tv_ext sx en st); auto).
    destruct (chan_step_eff _ _ _ _ _ _ _ _ H) as (T1 & B1 & R1 & A1). destruct (A1 A0) as [A' _]. split; [exact A'|].
    intros t Hlt cfg mdl Hcfg f k' Hfk. fold (rv st1 t k'). rewrite R1.
    + rewrite (thread_top_ext sx st' st1 t mdl T1); [now apply (T0 t Hlt cfg mdl Hcfg f k' Hfk)|]. rewrite !bs_bstacks. congruence.
    + right; right. destruct out; discriminate.
  - (* EvTask *) destruct (nth_error (threads st) who) as [th|]; [|discriminate].
    destruct (need_ok (tc_need cfg) th); [|discriminate]. eapply task_event_tv; eauto.
  - (* EvTaskCreate *) destruct (nth_error (threads st) who) as [th|]; [|discriminate].
    destruct (need_ok need th); [|discriminate].
    destruct (task_create sx st who mdl tid typeid par res pause relax) as [s|] eqn:E; [|discriminate].
    inversion H; subst. unfold task_create, nth_opt in E. break_in E. inversion E; subst. clear E H.
    match goal with |- AInv _ (set_tasks _ (_ ++ [?x])) /\ _ => set (tkn := x) end.
    split.
    + destruct A as [L R N O]. split; try assumption.
      intros tq e Hin. destruct (O tq e Hin) as (tk & b & H1 & H2). exists tk, b. split; [now apply bso_app|exact H2].
    + intros tq Hlt cfg mdl0 Hcfg f k Hfk. change (raw_of (set_tasks st (tasks st ++ [tkn])) tq k) with (raw_of st tq k).
      rewrite (T tq Hlt cfg mdl0 Hcfg f k Hfk). symmetry. unfold thread_top. apply rtop_sim; [reflexivity|].
      intros e r Hm. destruct (model_stack_head _ _ _ _ Hm) as [_ Hin]. fold (bs st tq) in Hin.
      destruct (a_on _ _ A tq e Hin) as (tk & b & H1 & _). exists tk, b, tk. split; [exact H1|]. split; [now apply bso_app|auto].
  - (* EvTypeCreate *) destruct (nth_error (threads st) who) as [th|]; [|discriminate].
    destruct (need_ok need th); [|discriminate].
    destruct (type_create sx st who mdl typeid gid) as [s|] eqn:E; [|discriminate].
    inversion H; subst. unfold type_create, nth_opt in E. break_in E. inversion E; subst.
    split; [apply (ainv_ext sx st); auto|apply (tv_ext sx en st); auto].
  - (* EvNop *) destruct (nth_error (threads st) who) as [th|]; [|discriminate].
    destruct (t_ooc th); [discriminate|]. inversion H; subst. auto.
  - discriminate.
Qed.

Lemma bs_init sx t : bs (init sx) t = [].
Proof.
  unfold bs. destruct (Nat.lt_ge_cases t (length (s_threads sx))) as [H|H].
  - rewrite thr_init by exact H. reflexivity.
  - rewrite nth_overflow; [reflexivity|]. cbn [init threads]. now rewrite map_length.
Qed.

Lemma init_tv sx en : TaskStatic sx en -> AInv sx (init sx) /\ TV sx en (init sx).
Proof.
  intros TS. split.
  - split.
    + cbn [init threads]. apply map_length.
    + intros t Ht. rewrite thr_init by exact Ht. cbn [init_thread t_raw]. apply map_length.
    + intros t. rewrite bs_init. constructor.
    + intros t e Hin. rewrite bs_init in Hin. contradiction.
  - intros t Ht cfg mdl Hcfg f k Hfk. destruct (ts_spec _ _ TS _ _ _ _ Hcfg Hfk) as (Hk & _ & Hi).
    unfold raw_of. rewrite thr_init by exact Ht. cbn [init_thread t_raw].
    change empty_raw with ((fun sp => {| r_stk := []; r_val := cs_init sp |}) null_spec). rewrite map_nth. fold (spec_of sx k).
    cbn [r_val]. rewrite Hi. unfold thread_top, running_top, model_stack. fold (bs (init sx) t). rewrite bs_init. reflexivity.
Qed.

Theorem run_from_tv sx en : TaskStatic sx en -> forall evs st st' tl,
  Forall (fun e => ev_tv sx en (snd e)) evs -> AInv sx st -> TV sx en st ->
  run_from sx st evs = Ok (st', tl) -> AInv sx st' /\ TV sx en st'.
Proof.
  intros TS. induction evs as [|[[tm who] ev] evs IH]; cbn [run_from]; intros st st' tl F A T H.
  - injection H as <- <-. auto.
  - destruct (step sx st who ev) as [[st1 ls]|] eqn:Es; [|discriminate H].
    destruct (run_from sx st1 evs) as [[st2 ls2]|] eqn:Er; [|discriminate H].
    injection H as <- <-. inversion F as [|? ? Fe Fr]; subst. cbn [snd] in Fe.
    unfold step in Es. destruct (core_step sx st who ev) as [[s1 dd]|] eqn:Ec; [|discriminate].
    destruct (emit_all (prv_last s1) (all_reqs sx st s1 dd)) as [[l' ls']|]; [|discriminate]. inversion Es; subst.
    destruct (core_step_tv _ _ _ _ _ _ _ TS Fe A T Ec) as [A1 T1].
    apply (IH (set_last s1 l') st2 ls2 Fr); [apply (ainv_ext sx s1); auto|apply (tv_ext sx en s1); auto|exact Er].
Qed.

(* ---------------------------------------------------------------- the static facts hold for the dumped specs *)

Lemma nosv_cfg_chans cs : tc_chans (nosv_cfg cs) = map (fun '(f, m, i) => (f, chan_of cs m i)) nosv_ids.
Proof. reflexivity. Qed.
Lemma nanos6_cfg_chans cs : tc_chans (nanos6_cfg cs) = map (fun '(f, m, i) => (f, chan_of cs m i)) nanos6_ids.
Proof. reflexivity. Qed.

Lemma task_models_cases en cs cfg mdl :
  In (cfg, mdl) (task_models en cs) ->
  (memz M_NOSV en = true /\ cfg = nosv_cfg cs /\ mdl = M_NOSV) \/ (memz M_NANOS6 en = true /\ cfg = nanos6_cfg cs /\ mdl = M_NANOS6).
Proof.
  unfold task_models. intros H. apply in_app_or in H as [H|H].
  - destruct (memz M_NOSV en); [|contradiction]. destruct H as [E|[]]. injection E as <- <-. auto.
  - destruct (memz M_NANOS6 en); [|contradiction]. destruct H as [E|[]]. injection E as <- <-. auto.
Qed.

Definition ids_found (cs : list chanspec) (ids : list (tfield * Z * Z)) : Prop :=
  forall f m i, In (f, m, i) ids -> (match chan_pos cs m i with Some _ => true | None => false end) = true.

Lemma nosv_ids_found en cs : tasks_found en cs -> memz M_NOSV en = true -> ids_found cs nosv_ids.
Proof.
  intros [Fv _] E. specialize (Fv E). unfold foundb, nosv_fields in Fv. cbn [forallb] in Fv.
  repeat (apply andb_prop in Fv as [?F0 Fv]).
  intros f m i Hin. unfold nosv_ids in Hin. cbn [In] in Hin.
  destruct Hin as [H|[H|[H|[H|[H|[]]]]]]; injection H as <- <- <-; assumption.
Qed.

Lemma nanos6_ids_found en cs : tasks_found en cs -> memz M_NANOS6 en = true -> ids_found cs nanos6_ids.
Proof.
  intros [_ Fv] E. specialize (Fv E). unfold foundb, nanos6_fields in Fv. cbn [forallb] in Fv.
  repeat (apply andb_prop in Fv as [?F0 Fv]).
  intros f m i Hin. unfold nanos6_ids in Hin. cbn [In] in Hin.
  destruct Hin as [H|[H|[H|[]]]]; injection H as <- <- <-; assumption.
Qed.

Lemma ids_chan sx ids f k :
  ids_found (s_chans sx) ids ->
  In (f, k) (map (fun '(f, m, i) => (f, chan_of (s_chans sx) m i)) ids) ->
  exists m i, In (f, m, i) ids /\ (k < length (s_chans sx))%nat /\ cs_model (spec_of sx k) = m /\ cs_index (spec_of sx k) = i.
Proof.
  intros Hf Hin. apply in_map_iff in Hin as ([[f' m] i] & E & Hin). injection E as -> <-. exists m, i. split; [exact Hin|].
  specialize (Hf _ _ _ Hin). unfold chan_of, spec_of. destruct (chan_pos (s_chans sx) m i) as [k|] eqn:Ep; [|discriminate].
  exact (chan_pos_spec _ _ _ _ Ep).
Qed.

(* the identity of every task channel of an enabled model *)
Lemma task_chan_id sx en cfg mdl f k :
  tasks_found en (s_chans sx) -> In (cfg, mdl) (task_models en (s_chans sx)) -> In (f, k) (tc_chans cfg) ->
  (k < length (s_chans sx))%nat /\
  ((mdl = M_NOSV /\ In (f, cs_model (spec_of sx k), cs_index (spec_of sx k)) nosv_ids) \/
   (mdl = M_NANOS6 /\ In (f, cs_model (spec_of sx k), cs_index (spec_of sx k)) nanos6_ids)).
Proof.
  intros TF Hc Hfk. destruct (task_models_cases _ _ _ _ Hc) as [(E & -> & ->)|(E & -> & ->)].
  - rewrite nosv_cfg_chans in Hfk. destruct (ids_chan sx _ _ _ (nosv_ids_found _ _ TF E) Hfk) as (m & i & Hin & Hk & <- & <-). auto.
  - rewrite nanos6_cfg_chans in Hfk. destruct (ids_chan sx _ _ _ (nanos6_ids_found _ _ TF E) Hfk) as (m & i & Hin & Hk & <- & <-). auto.
Qed.

Lemma ids_is_field f m i : In (f, m, i) (nosv_ids ++ nanos6_ids) -> is_field m i = true.
Proof.
  intros H. unfold is_field. apply existsb_exists. exists (f, m, i). split; [exact H|]. now rewrite !Z.eqb_refl.
Qed.

Lemma task_chan_field sx en cfg mdl f k :
  tasks_found en (s_chans sx) -> In (cfg, mdl) (task_models en (s_chans sx)) -> In (f, k) (tc_chans cfg) ->
  is_field (cs_model (spec_of sx k)) (cs_index (spec_of sx k)) = true.
Proof.
  intros TF Hc Hfk. destruct (task_chan_id _ _ _ _ _ _ TF Hc Hfk) as (_ & [[_ H]|[_ H]]); apply (ids_is_field f); apply in_or_app; auto.
Qed.

Lemma nosv_ids_model f m i : In (f, m, i) nosv_ids -> m = M_NOSV.
Proof. unfold nosv_ids. cbn [In]. intros [H|[H|[H|[H|[H|[]]]]]]; now injection H as _ <- _. Qed.
Lemma nanos6_ids_model f m i : In (f, m, i) nanos6_ids -> m = M_NANOS6.
Proof. unfold nanos6_ids. cbn [In]. intros [H|[H|[H|[]]]]; now injection H as _ <- _. Qed.

Lemma nosv_ids_inj f f' m i : In (f, m, i) nosv_ids -> In (f', m, i) nosv_ids -> f = f'.
Proof.
  unfold nosv_ids. cbn [In].
  intros [H|[H|[H|[H|[H|[]]]]]] [H'|[H'|[H'|[H'|[H'|[]]]]]]; injection H as <- <- <-; injection H'; intros; subst; try reflexivity;
    exfalso; vm_compute in H'; discriminate H'.
Qed.
Lemma nanos6_ids_inj f f' m i : In (f, m, i) nanos6_ids -> In (f', m, i) nanos6_ids -> f = f'.
Proof.
  unfold nanos6_ids. cbn [In].
  intros [H|[H|[H|[]]]] [H'|[H'|[H'|[]]]]; injection H as <- <- <-; injection H'; intros; subst; try reflexivity;
    exfalso; vm_compute in H'; discriminate H'.
Qed.

Lemma dumped_fields_ok : forallb (fun en => forallb field_spec_okb (mk_chans en)) (sublists all_models) = true.
Proof. vm_compute. reflexivity. Qed.

Lemma mark_fields_ok ms : forallb field_spec_okb (mark_chans ms) = true.
Proof. unfold mark_chans. apply forallb_forall. intros sp H. apply in_map_iff in H as [mt [<- _]]. reflexivity. Qed.

Lemma nodup_snd_tc sx ids :
  ids_found (s_chans sx) ids -> (forall f f' m i, In (f, m, i) ids -> In (f', m, i) ids -> f = f') ->
  forall l, incl l ids -> NoDup l -> NoDup (map snd (map (fun '(f, m, i) => (f, chan_of (s_chans sx) m i)) l)).
Proof.
  intros Hf Hinj. induction l as [|[[f m] i] l IH]; intros Hi N; cbn [map snd]; [constructor|].
  apply NoDup_cons_iff in N as [Nn Nr]. constructor; [|apply IH; [intros x Hx; apply Hi; now right|exact Nr]].
  intros Hin. apply in_map_iff in Hin as ([f' k'] & E & Hin). cbn [snd] in E. subst k'.
  assert (Hl : incl l ids) by (intros x Hx; apply Hi; now right).
  assert (Hfl : ids_found (s_chans sx) l) by (intros a b c Habc; apply (Hf a b c); now apply Hl).
  destruct (ids_chan sx l f' _ Hfl Hin) as (m' & i' & Hin' & _ & Em & Ei).
  assert (H0 : In (f, m, i) ids) by (apply Hi; now left).
  pose proof (Hf _ _ _ H0) as Hfound. destruct (chan_of_found sx m i Hfound) as [Em0 Ei0].
  subst m' i'. rewrite Em0, Ei0 in Hin'.
  assert (f = f') by (apply (Hinj f f' m i); [exact H0|now apply Hl]). subst f'. contradiction.
Qed.

Theorem specs_task_static sx en ms :
  In en (sublists all_models) -> s_chans sx = mk_chans en ++ mark_chans ms -> TaskStatic sx en /\ tasks_found en (s_chans sx).
Proof.
  intros Hen Hcs. destruct (specs_of_any_trace sx en ms Hen Hcs) as [_ TF]. split; [|exact TF].
  assert (Hall : forall k, field_spec_okb (spec_of sx k) = true).
  { intros k. destruct (spec_of_cases sx k) as [Hin|E0]; [|rewrite E0; reflexivity].
    pose proof dumped_fields_ok as D. rewrite forallb_forall in D. specialize (D en Hen).
    assert (G : forallb field_spec_okb (s_chans sx) = true) by (rewrite Hcs, forallb_app, D, mark_fields_ok; reflexivity).
    rewrite forallb_forall in G. now apply G. }
  split.
  - intros cfg mdl Hc. destruct (task_models_cases _ _ _ _ Hc) as [(E & -> & ->)|(E & -> & ->)].
    + rewrite nosv_cfg_chans. apply (nodup_snd_tc sx nosv_ids (nosv_ids_found _ _ TF E) nosv_ids_inj); [apply incl_refl|].
      unfold nosv_ids. repeat constructor; cbn [In]; intuition discriminate.
    + rewrite nanos6_cfg_chans. apply (nodup_snd_tc sx nanos6_ids (nanos6_ids_found _ _ TF E) nanos6_ids_inj); [apply incl_refl|].
      unfold nanos6_ids. repeat constructor; cbn [In]; intuition discriminate.
  - intros cfg mdl f k Hc Hfk. destruct (task_chan_id _ _ _ _ _ _ TF Hc Hfk) as [Hk _]. split; [exact Hk|].
    pose proof (task_chan_field _ _ _ _ _ _ TF Hc Hfk) as Hfld. specialize (Hall k). unfold field_spec_okb in Hall.
    rewrite Hfld in Hall. cbn [negb orb] in Hall. apply andb_prop in Hall as [H1 H2]. apply negb_true_iff in H1.
    split; [exact H1|]. destruct (cs_init (spec_of sx k)); [discriminate|reflexivity].
  - intros cfg mdl cfg' mdl' Hc Hc'.
    destruct (task_models_cases _ _ _ _ Hc) as [(E & -> & ->)|(E & -> & ->)];
    destruct (task_models_cases _ _ _ _ Hc') as [(E' & -> & ->)|(E' & -> & ->)]; try (left; split; reflexivity); right.
    + split; [discriminate|]. intros f k f' k' H1 H2 ->.
      destruct (task_chan_id _ _ _ _ _ _ TF Hc H1) as (_ & [[_ I1]|[D1 _]]); [|discriminate D1].
      destruct (task_chan_id _ _ _ _ _ _ TF Hc' H2) as (_ & [[D2 _]|[_ I2]]); [discriminate D2|].
      apply nosv_ids_model in I1. apply nanos6_ids_model in I2. rewrite I1 in I2. discriminate I2.
    + split; [discriminate|]. intros f k f' k' H1 H2 ->.
      destruct (task_chan_id _ _ _ _ _ _ TF Hc H1) as (_ & [[D1 _]|[_ I1]]); [discriminate D1|].
      destruct (task_chan_id _ _ _ _ _ _ TF Hc' H2) as (_ & [[_ I2]|[D2 _]]); [|discriminate D2].
      apply nanos6_ids_model in I1. apply nosv_ids_model in I2. rewrite I1 in I2. discriminate I2.
Qed.

(* ---------------------------------------------------------------- the decoders satisfy the event condition *)

Lemma table_fields_ok : forallb field_row_okb Tables_gen.table = true.
Proof. vm_compute. reflexivity. Qed.

Lemma table_lookup_field tb m c v ch a x :
  forallb field_row_okb tb = true -> table_lookup tb m c v = Some (ch, a, x) -> conv_action a = SET -> is_field m ch = false.
Proof.
  induction tb as [|[[[[[m' c'] v'] ch'] a'] x'] tb IH]; cbn [table_lookup forallb]; intros F H Ha; [discriminate|].
  apply andb_prop in F as [F0 F]. destruct ((m =? m') && (c =? c') && (v =? v')) eqn:E.
  - injection H as <- <- <-. apply andb_prop in E as [E _]. apply andb_prop in E as [Em _]. apply Z.eqb_eq in Em. subst.
    cbn [field_row_okb] in F0. destruct a'; try discriminate Ha. now apply negb_true_iff in F0.
  - now apply IH.
Qed.

(* a channel found by (model, index) that is not a task field is none of the task channels *)
Lemma not_field_chan sx en m i k :
  tasks_found en (s_chans sx) -> chan_pos (s_chans sx) m i = Some k -> is_field m i = false ->
  forall cfg mdl f k', In (cfg, mdl) (task_models en (s_chans sx)) -> In (f, k') (tc_chans cfg) -> k' <> k.
Proof.
  intros TF Hp Hnf cfg mdl f k' Hc Hfk ->. pose proof (task_chan_field _ _ _ _ _ _ TF Hc Hfk) as H.
  destruct (chan_pos_spec _ _ _ _ Hp) as (_ & Hm & Hi). fold (spec_of sx k) in Hm, Hi. rewrite Hm, Hi in H. congruence.
Qed.

Ltac walk_tv :=
  repeat match goal with
  | |- ev_tv _ _ (if ?b then _ else _) => destruct b eqn:?
  | |- ev_tv _ _ (match ?o with Some _ => _ | None => _ end) => destruct o eqn:?
  | |- ev_tv _ _ (let '(_, _) := ?p in _) => destruct p
  end.

Ltac chan_tv TF :=
  cbn [ev_tv]; intros Hset; try discriminate Hset;
  match goal with
  | Hp : chan_pos (s_chans _) _ _ = Some _ |- _ => apply (not_field_chan _ _ _ _ _ TF Hp); reflexivity
  end.

Theorem decode_all_ev_tv en sx m c v p j aux :
  tasks_found en (s_chans sx) -> ev_tv sx en (decode_all en (s_chans sx) m c v p j aux).
Proof.
  intros TF. unfold decode_all.
  destruct ((m =? M_OVNI) && (c =? 77)).
  { (* marks *) destruct (memz M_OVNI en); [|exact I]. unfold decode_mark. walk_tv; try exact I; chan_tv TF. }
  unfold decode_full. destruct (negb (memz m en)) eqn:En; [exact I|]. apply negb_false_iff in En.
  destruct (decode_task (s_chans sx) m c v p j aux) as [e|] eqn:Et.
  { unfold decode_task in Et.
    repeat match type of Et with
    | (if ?b then _ else _) = _ => destruct b eqn:?
    | None = Some _ => discriminate Et
    | Some _ = Some _ => injection Et as <-
    end; walk_tv; try exact I; cbn [ev_tv]; try (intros Hset; discriminate Hset);
    repeat match goal with H : (_ =? _) = true |- _ => apply Z.eqb_eq in H; subst end.
    - unfold task_models. rewrite En. now left.
    - unfold task_models. rewrite En. apply in_or_app. right. now left. }
  unfold decode. rewrite En. cbn [negb].
  destruct (m =? M_OVNI).
  { unfold decode_ovni. walk_tv; try exact I; chan_tv TF. }
  destruct (m =? M_KERNEL).
  { walk_tv; exact I. }
  destruct (negb _); [exact I|].
  destruct (table_lookup Tables_gen.table m c v) as [[[ch a] x]|] eqn:Etab; [|exact I].
  destruct (chan_pos (s_chans sx) m ch) as [k|] eqn:Ep; [|exact I]. cbn [ev_tv].
  intros Ha. apply (not_field_chan _ _ _ _ _ TF Ep). exact (table_lookup_field _ _ _ _ _ _ _ table_fields_ok Etab Ha).
Qed.

(* ---------------------------------------------------------------- whole runs: what the rows of the task channels show *)

Lemma any_init_ok_specs sx en ms :
  In en (sublists all_models) -> s_chans sx = mk_chans en ++ mark_chans ms -> any_init_ok sx.
Proof.
  intros Hen Hcs. apply any_init_okb_ok. rewrite Hcs. unfold any_init_okb. rewrite forallb_app.
  pose proof dumped_specs_ok as D. rewrite forallb_forall in D. specialize (D en Hen). apply andb_prop in D as [_ D].
  unfold any_init_okb in D. rewrite D. cbn [andb].
  unfold mark_chans. apply forallb_forall. intros sp H. apply in_map_iff in H as [mt [<- _]]. reflexivity.
Qed.

Lemma decode_events_app en cs a b : decode_events en cs (a ++ b) = decode_events en cs a ++ decode_events en cs b.
Proof. unfold decode_events. apply map_app. Qed.

Lemma decode_events_tv sx en revs :
  tasks_found en (s_chans sx) -> Forall (fun e => ev_tv sx en (snd e)) (decode_events en (s_chans sx) revs).
Proof.
  intros TF. unfold decode_events. apply Forall_forall. intros e He.
  apply in_map_iff in He as [[[[[[tm who] [[m c] v]] p] j] aux] [<- _]]. cbn [snd]. now apply decode_all_ev_tv.
Qed.

(* the invariant in every state reached from the initial one by decoded events *)
Theorem reachable_tv sx en ms revs st tl :
  In en (sublists all_models) -> s_chans sx = mk_chans en ++ mark_chans ms ->
  run_from sx (init sx) (decode_events en (s_chans sx) revs) = Ok (st, tl) -> TV sx en st.
Proof.
  intros Hen Hcs H. destruct (specs_task_static sx en ms Hen Hcs) as [TS TF]. destruct (init_tv sx en TS) as [A0 T0].
  exact (proj2 (run_from_tv sx en TS _ _ _ _ (decode_events_tv sx en revs TF) A0 T0 H)).
Qed.

Theorem task_views sx en ms revs1 revs2 st tl :
  In en (sublists all_models) -> s_chans sx = mk_chans en ++ mark_chans ms -> types_ok sx ->
  run_from sx (init sx) (decode_events en (s_chans sx) (revs1 ++ revs2)) = Ok (st, tl) ->
  exists st1 tl1, run_from sx (init sx) (decode_events en (s_chans sx) revs1) = Ok (st1, tl1) /\
    forall t, (t < length (s_threads sx))%nat ->
    forall cfg mdl, In (cfg, mdl) (task_models en (s_chans sx)) ->
    forall f k, In (f, k) (tc_chans cfg) ->
      let sp := spec_of sx k in
      shown (lines_of tl1) (false, t, cs_type sp) =
      printed (cs_flags sp)
        (if mode_ok (cs_thtrack sp) (thread_state_of st1 t)
         then expected (tinfo sx t) (thread_top sx st1 t mdl) f else None).
Proof.
  intros Hen Hcs Hty H. rewrite decode_events_app in H.
  destruct (tracked_rows sx _ _ st tl Hty (any_init_ok_specs sx en ms Hen Hcs) H) as (st1 & tl1 & E1 & K).
  exists st1, tl1. split; [exact E1|]. intros t Ht cfg mdl Hc f k Hfk. cbv zeta.
  destruct (specs_task_static sx en ms Hen Hcs) as [TS _].
  destruct (ts_spec _ _ TS _ _ _ _ Hc Hfk) as (Hk & Hstk & _).
  rewrite (proj1 (K k Hk) t Ht). unfold raw_read. rewrite Hstk.
  rewrite (reachable_tv sx en ms revs1 st1 tl1 Hen Hcs E1 t Ht cfg mdl Hc f k Hfk). reflexivity.
Qed.

(* ---------------------------------------------------------------- a sufficient condition for types_ok: distinct mark types *)

Lemma dumped_types_small : forallb (fun en => forallb (fun sp => cs_type sp <? 100) (mk_chans en)) (sublists all_models) = true.
Proof. vm_compute. reflexivity. Qed.

Theorem types_ok_marks sx en ms :
  In en (sublists all_models) -> s_chans sx = mk_chans en ++ mark_chans ms ->
  NoDup (map mt_type ms) -> (forall m, In m ms -> 0 <= mt_type m) -> types_ok sx.
Proof.
  intros Hen Hcs Nd Hpos.
  pose proof dumped_specs_ok as D. rewrite forallb_forall in D. specialize (D en Hen). apply andb_prop in D as [D _].
  pose proof (types_okb_ok {| s_threads := []; s_cpus := []; s_chans := mk_chans en; s_lint := false |} D) as [N1 N2].
  unfold th_types, cpu_types in N1, N2. cbn [s_chans] in N1, N2.
  pose proof dumped_types_small as S. rewrite forallb_forall in S. specialize (S en Hen). rewrite forallb_forall in S.
  assert (Nm : NoDup (map cs_type (mark_chans ms))).
  { unfold mark_chans. rewrite map_map. cbn [cs_type].
    replace (map (fun x : mtype => 100 + mt_type x) ms) with (map (fun z => 100 + z) (map mt_type ms)) by (rewrite map_map; reflexivity).
    apply NoDup_map_inj_in; [exact Nd|]. intros x y _ _ E. lia. }
  assert (Hbig : forall b, In b (map cs_type (mark_chans ms)) -> 100 <= b).
  { intros b Hb. unfold mark_chans in Hb. rewrite map_map in Hb. apply in_map_iff in Hb as (m & <- & Hm). cbn [cs_type]. specialize (Hpos m Hm). lia. }
  assert (Hsmall : forall b, In b (map cs_type (mk_chans en)) -> b < 100).
  { intros b Hb. apply in_map_iff in Hb as (sp & <- & Hsp). specialize (S sp Hsp). lia. }
  unfold types_ok, th_types, cpu_types. rewrite Hcs, map_app, !app_assoc.
  split; (apply NoDup_app_disjoint; [assumption|exact Nm|]); intros b H1 H2; specialize (Hbig b H2);
    apply in_app_or in H1 as [H1|H1]; try (specialize (Hsmall b H1); lia);
    cbn [In] in H1; unfold PRV_THREAD_CPU, PRV_THREAD_TID, PRV_THREAD_STATE, PRV_CPU_TID, PRV_CPU_PID, PRV_CPU_NRUN in H1; lia.
Qed.
