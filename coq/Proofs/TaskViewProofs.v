(* C07, views: in every state reached by accepted events every task channel of every thread holds the field
   (task id, type, body id, app id, rank) of the body running on that thread, and null when none runs. *)
From Coq Require Import ZArith List Bool Lia.
From OV Require Import Emu.EmuCoreDefs Emu.DecodeDefs Emu.MarkDefs Emu.TaskViewDefs Proofs.EmitProofs Proofs.EmuCoreProofs
  Proofs.EmuCoreWf Proofs.TaskProofs Proofs.LabelProofs Proofs.LabelDecode.
From OV Require Gen.Tables_gen.
Import ListNotations.
Local Open Scope Z_scope.

(* ---------------------------------------------------------------- accessors *)

Definition bstacks (st : state) : list (list (Z * Z * Z)) := map t_bstack (threads st).
Definition bs (st : state) (t : nat) : list (Z * Z * Z) := t_bstack (nth t (threads st) dummy_thread).
Definition rv (st : state) (t k : nat) : value := r_val (raw_of st t k).

Lemma bs_bstacks st t : bs st t = nth t (bstacks st) [].
Proof. unfold bs, bstacks. change (@nil (Z * Z * Z)) with (t_bstack dummy_thread). rewrite map_nth. reflexivity. Qed.

Lemma bstacks_set_thread st t th th' :
  nth_error (threads st) t = Some th -> t_bstack th' = t_bstack th -> bstacks (set_thread st t th') = bstacks st.
Proof.
  intros Hn Hr. unfold bstacks, set_thread. cbn [threads]. rewrite map_update, Hr.
  rewrite <- (nth_error_nth _ _ _ dummy_thread Hn).
  change (t_bstack (nth t (threads st) dummy_thread)) with ((fun x => t_bstack x) (nth t (threads st) dummy_thread)).
  rewrite <- (map_nth (fun x => t_bstack x)). apply update_nth_id.
Qed.

Lemma running_top_ext st st1 loom pid th th1 mdl :
  tasks st1 = tasks st -> t_bstack th1 = t_bstack th -> running_top st1 loom pid th1 mdl = running_top st loom pid th mdl.
Proof. intros Ht Hb. unfold running_top, model_stack, body_state_of, find_task. rewrite Ht, Hb. reflexivity. Qed.

Lemma thread_top_ext sx st st1 t mdl :
  tasks st1 = tasks st -> bs st1 t = bs st t -> thread_top sx st1 t mdl = thread_top sx st t mdl.
Proof. intros Ht Hb. unfold thread_top. apply running_top_ext; assumption. Qed.

Lemma nth_update_if {A} (l : list A) n m x d :
  nth m (update l n x) d = if Nat.eqb m n && Nat.ltb n (length l) then x else nth m l d.
Proof.
  destruct (Nat.eq_dec m n) as [->|Hne].
  - rewrite Nat.eqb_refl. cbn [andb]. destruct (Nat.ltb n (length l)) eqn:E.
    + apply Nat.ltb_lt in E. now apply nth_update_same.
    + apply Nat.ltb_ge in E. rewrite !nth_overflow; [reflexivity|exact E|rewrite update_length; exact E].
  - apply Nat.eqb_neq in Hne as Hb. rewrite Hb. cbn [andb]. apply nth_update_other. congruence.
Qed.

(* ---------------------------------------------------------------- lookups after an update *)

Definition tmatch (tk : task) (loom : nat) (pid mdl id : Z) : bool :=
  Nat.eqb (tk_loom tk) loom && (tk_pid tk =? pid) && (tk_model tk =? mdl) && (tk_id tk =? id).

Lemma tmatch_true tk loom pid mdl id :
  tmatch tk loom pid mdl id = true <-> tk_loom tk = loom /\ tk_pid tk = pid /\ tk_model tk = mdl /\ tk_id tk = id.
Proof.
  unfold tmatch. rewrite !andb_true_iff, Nat.eqb_eq, !Z.eqb_eq. tauto.
Qed.

Lemma ft_cons tk r loom pid mdl id i :
  find_task_from (tk :: r) loom pid mdl id i = if tmatch tk loom pid mdl id then Some (i, tk) else find_task_from r loom pid mdl id (S i).
Proof. reflexivity. Qed.

Lemma ft_match l loom pid mdl id : forall i j tk,
  find_task_from l loom pid mdl id i = Some (j, tk) -> tmatch tk loom pid mdl id = true.
Proof.
  induction l as [|a r IH]; intros i j tk H; [discriminate|]. rewrite ft_cons in H.
  destruct (tmatch a loom pid mdl id) eqn:E; [injection H as <- <-; exact E|eapply IH; eauto].
Qed.

Lemma ft_update_same l loom pid mdl id tk' : forall i j tk,
  find_task_from l loom pid mdl id i = Some (j, tk) -> tmatch tk' loom pid mdl id = true ->
  find_task_from (update l (j - i) tk') loom pid mdl id i = Some (j, tk').
Proof.
  induction l as [|a r IH]; intros i j tk H Hm; [discriminate|]. rewrite ft_cons in H.
  destruct (tmatch a loom pid mdl id) eqn:E.
  - injection H as <- <-. rewrite Nat.sub_diag. cbn [update]. rewrite ft_cons, Hm. reflexivity.
  - destruct (find_task_from_in _ _ _ _ _ _ _ _ H) as (_ & _ & Hle).
    replace (j - i)%nat with (S (j - S i)) by lia. cbn [update]. rewrite ft_cons, E. eapply IH; eauto.
Qed.

Lemma ft_update_other l loom pid mdl id tk' loom' pid' mdl' id' : forall i j tk,
  find_task_from l loom pid mdl id i = Some (j, tk) ->
  tmatch tk loom' pid' mdl' id' = false -> tmatch tk' loom' pid' mdl' id' = false ->
  find_task_from (update l (j - i) tk') loom' pid' mdl' id' i = find_task_from l loom' pid' mdl' id' i.
Proof.
  induction l as [|a r IH]; intros i j tk H Hm Hm'; [discriminate|]. rewrite ft_cons in H.
  destruct (tmatch a loom pid mdl id) eqn:E.
  - injection H as <- <-. rewrite Nat.sub_diag. cbn [update]. rewrite !ft_cons, Hm, Hm'. reflexivity.
  - destruct (find_task_from_in _ _ _ _ _ _ _ _ H) as (_ & _ & Hle).
    replace (j - i)%nat with (S (j - S i)) by lia. cbn [update]. rewrite !ft_cons.
    destruct (tmatch a loom' pid' mdl' id'); [reflexivity|]. eapply IH; eauto.
Qed.

Lemma ft_app l x loom pid mdl id : forall i j tk,
  find_task_from l loom pid mdl id i = Some (j, tk) -> find_task_from (l ++ [x]) loom pid mdl id i = Some (j, tk).
Proof.
  induction l as [|a r IH]; intros i j tk H; [discriminate|]. cbn [app]. rewrite ft_cons in *.
  destruct (tmatch a loom pid mdl id); [exact H|now apply IH].
Qed.

Lemma fb_le l id : forall i j b, find_body_from l id i = Some (j, b) -> (i <= j)%nat.
Proof.
  induction l as [|a r IH]; intros i j b H; cbn [find_body_from] in H; [discriminate|].
  destruct (b_id a =? id); [injection H as <- _; lia|]. apply IH in H. lia.
Qed.

Lemma fb_update l id b' : forall i j b,
  find_body_from l id i = Some (j, b) -> b_id b' = id ->
  find_body_from (update l (j - i) b') id i = Some (j, b') /\
  forall id', id' <> id -> find_body_from (update l (j - i) b') id' i = find_body_from l id' i.
Proof.
  induction l as [|a r IH]; intros i j b H Hb; cbn [find_body_from] in H; [discriminate|].
  destruct (b_id a =? id) eqn:E.
  - injection H as <- <-. rewrite Nat.sub_diag. cbn [update find_body_from]. apply Z.eqb_eq in E. split.
    + rewrite Hb, Z.eqb_refl. reflexivity.
    + intros id' Hne. rewrite Hb, E. destruct (id =? id') eqn:E2; [apply Z.eqb_eq in E2; congruence|reflexivity].
  - pose proof (fb_le _ _ _ _ _ H) as Hle.
    replace (j - i)%nat with (S (j - S i)) by lia. cbn [update find_body_from]. rewrite E.
    destruct (IH _ _ _ H Hb) as [I1 I2]. split; [exact I1|]. intros id' Hne. destruct (b_id a =? id'); [reflexivity|now apply I2].
Qed.

Lemma fb_app l id b' : forall i,
  find_body_from l id i = None -> b_id b' = id ->
  (exists j, find_body_from (l ++ [b']) id i = Some (j, b')) /\
  forall id', id' <> id -> find_body_from (l ++ [b']) id' i = find_body_from l id' i.
Proof.
  induction l as [|a r IH]; intros i H Hb; cbn [find_body_from app] in *.
  - split.
    + exists i. rewrite Hb, Z.eqb_refl. reflexivity.
    + intros id' Hne. rewrite Hb. destruct (id =? id') eqn:E2; [apply Z.eqb_eq in E2; congruence|reflexivity].
  - destruct (b_id a =? id) eqn:E; [discriminate|]. destruct (IH _ H Hb) as [I1 I2]. split; [exact I1|].
    intros id' Hne. destruct (b_id a =? id'); [reflexivity|now apply I2].
Qed.

Lemma fb_id l id : forall i j b, find_body_from l id i = Some (j, b) -> b_id b = id.
Proof.
  induction l as [|a r IH]; intros i j b H; cbn [find_body_from] in H; [discriminate|].
  destruct (b_id a =? id) eqn:E; [injection H as _ <-; now apply Z.eqb_eq|eapply IH; eauto].
Qed.

(* the body a stack entry refers to, after one body of one task has been replaced / appended *)
Lemma store_body_look st loom pid mdl tid bid ti tk bi b' :
  find_task st loom pid mdl tid = Some (ti, tk) ->
  b_id b' = bid ->
  match bi with Some i => exists b0, find_body tk bid = Some (i, b0) | None => find_body tk bid = None end ->
  (exists tk', body_state_of (store_body st ti tk bi b') loom pid (mdl, tid, bid) = Some (tk', b') /\
               tk_id tk' = tk_id tk /\ tk_gid tk' = tk_gid tk) /\
  (forall loom' pid' e' tk1 b1, ~ (loom' = loom /\ pid' = pid /\ e' = (mdl, tid, bid)) ->
     body_state_of st loom' pid' e' = Some (tk1, b1) ->
     exists tk1', body_state_of (store_body st ti tk bi b') loom' pid' e' = Some (tk1', b1) /\
                  tk_id tk1' = tk_id tk1 /\ tk_gid tk1' = tk_gid tk1).
Proof.
  intros Hf Hb Hbi. unfold find_task in Hf.
  set (bsn := match bi with Some i => update (tk_bodies tk) i b' | None => tk_bodies tk ++ [b'] end).
  assert (Hst : tasks (store_body st ti tk bi b') = update (tasks st) (ti - 0) (set_bodies tk bsn))
    by (rewrite Nat.sub_0_r; reflexivity).
  pose proof (ft_match _ _ _ _ _ _ _ _ Hf) as Hm.
  assert (Hbs : (exists j, find_body_from bsn bid 0 = Some (j, b')) /\
                forall id', id' <> bid -> find_body_from bsn id' 0 = find_body_from (tk_bodies tk) id' 0).
  { subst bsn. destruct bi as [i|].
    - destruct Hbi as [b0 Hb0]. unfold find_body in Hb0. destruct (fb_update _ _ b' _ _ _ Hb0 Hb) as [U1 U2].
      rewrite Nat.sub_0_r in U1, U2. split; [eexists; exact U1|exact U2].
    - unfold find_body in Hbi. apply (fb_app _ _ b' _ Hbi Hb). }
  destruct Hbs as [[jn Hbn] Hbo].
  split.
  - exists (set_bodies tk bsn). split; [|split; reflexivity].
    unfold body_state_of, find_task. rewrite Hst.
    rewrite (ft_update_same _ _ _ _ _ (set_bodies tk bsn) _ _ _ Hf Hm).
    unfold find_body. cbn [tk_bodies set_bodies]. rewrite Hbn. reflexivity.
  - intros loom' pid' [[m' t'] bid'] tk1 b1 Hne H. unfold body_state_of, find_task in *. rewrite Hst.
    destruct (tmatch tk loom' pid' m' t') eqn:Em.
    + apply tmatch_true in Em. apply tmatch_true in Hm. destruct Em as (E1 & E2 & E3 & E4), Hm as (M1 & M2 & M3 & M4).
      assert (loom' = loom) by congruence. assert (pid' = pid) by congruence.
      assert (m' = mdl) by congruence. assert (t' = tid) by congruence. clear E1 E2 E3 E4. subst loom' pid' m' t'.
      assert (Hbne : bid' <> bid) by (intros ->; apply Hne; repeat split).
      rewrite Hf in H.
      rewrite (ft_update_same _ _ _ _ _ (set_bodies tk bsn) _ _ _ Hf (proj2 (tmatch_true _ _ _ _ _) (conj M1 (conj M2 (conj M3 M4))))).
      unfold find_body in *. cbn [tk_bodies set_bodies]. rewrite (Hbo bid' Hbne).
      destruct (find_body_from (tk_bodies tk) bid' 0) as [[j b]|]; [|discriminate]. injection H as <- <-.
      exists (set_bodies tk bsn). auto.
    + rewrite (ft_update_other _ _ _ _ _ (set_bodies tk bsn) _ _ _ _ _ _ _ Hf Em Em).
      destruct (find_task_from (tasks st) loom' pid' m' t' 0) as [[i1 tk0]|]; [|discriminate].
      destruct (find_body tk0 bid') as [[j b]|]; [|discriminate]. injection H as <- <-. exists tk0. auto.
Qed.

(* ---------------------------------------------------------------- what an accepted task operation does *)

Definition op_result (st : state) (who : nat) (th : thread) (mdl kind tid bid : Z) (tk : task) (bi : option nat) (b' : body)
  (st1 : state) : Prop :=
  (kind = 120 /\ b_state b' = BRunning /\ b_on b' = Some who /\
   match bi with
   | Some i => exists b0, find_body tk bid = Some (i, b0) /\ b_on b0 = None
   | None => find_body tk bid = None
   end /\
   threads st1 = update (threads st) who (with_bstack th ((mdl, tid, bid) :: t_bstack th)))
  \/
  (kind <> 120 /\ (exists i b0, bi = Some i /\ find_body tk bid = Some (i, b0) /\ b_on b0 = Some who) /\
   is_top th mdl tid bid = true /\
   ((kind = 112 /\ b_state b' = BPaused /\ b_on b' = Some who /\ threads st1 = threads st) \/
    (kind = 114 /\ b_on b' = Some who /\ threads st1 = threads st) \/
    (kind = 101 /\ b_on b' = None /\
     threads st1 = update (threads st) who (with_bstack th (remove_entry (t_bstack th) mdl tid bid))))).

Lemma task_op_inv st who th loom pid mdl kind tid bid st1 :
  task_op st who th loom pid mdl kind tid bid = Ok st1 ->
  exists ti tk bi b',
    find_task st loom pid mdl tid = Some (ti, tk) /\ b_id b' = bid /\
    tasks st1 = tasks (store_body st ti tk bi b') /\
    op_result st who th mdl kind tid bid tk bi b' st1.
Proof.
  intros H. unfold task_op in H.
  destruct (find_task st loom pid mdl tid) as [[ti tk]|] eqn:Ef; [|discriminate].
  exists ti, tk. unfold op_result.
  destruct (kind =? 120) eqn:Ex.
  - apply Z.eqb_eq in Ex.
    destruct (find_body tk bid) as [[i b0]|] eqn:Eb.
    + exists (Some i), {| b_id := bid; b_state := BRunning; b_on := Some who |}.
      split; [reflexivity|]. split; [reflexivity|]. cbv beta iota in H.
      break_in H; injection H as <-; (split; [reflexivity|]); left; cbn [b_state b_on];
        (repeat split; try assumption; try reflexivity); exists b0; auto.
    + exists None, {| b_id := bid; b_state := BRunning; b_on := Some who |}.
      split; [reflexivity|]. split; [reflexivity|].
      destruct (negb (tk_par tk) && negb (Nat.eqb (length (tk_bodies tk)) 0)); [discriminate|]. cbv beta iota in H. cbn [b_state b_on] in H.
      break_in H; injection H as <-; (split; [reflexivity|]); left; cbn [b_state b_on]; repeat split; try assumption; reflexivity.
  - apply Z.eqb_neq in Ex.
    destruct (find_body tk bid) as [[i b0]|] eqn:Eb; [|discriminate].
    assert (Hon : negb (match b_on b0 with Some w => Nat.eqb w who | None => false end) = false -> b_on b0 = Some who).
    { intros E. apply negb_false_iff in E. now apply on_me_eq. }
    destruct (kind =? 112) eqn:Ep; [|destruct (kind =? 114) eqn:Er; [|destruct (kind =? 101) eqn:Ee; [|discriminate]]].
    + apply Z.eqb_eq in Ep. exists (Some i), {| b_id := bid; b_state := BPaused; b_on := b_on b0 |}.
      break_in H. injection H as <-. split; [reflexivity|]. split; [reflexivity|]. split; [reflexivity|]. right.
      split; [exact Ex|]. split; [exists i, b0; auto|]. split; [now apply negb_false_iff|]. left. cbn [b_state b_on]. auto.
    + apply Z.eqb_eq in Er. exists (Some i), {| b_id := bid; b_state := BRunning; b_on := b_on b0 |}.
      break_in H. injection H as <-. split; [reflexivity|]. split; [reflexivity|]. split; [reflexivity|]. right.
      split; [exact Ex|]. split; [exists i, b0; auto|]. split; [now apply negb_false_iff|]. right; left. cbn [b_state b_on]. auto.
    + apply Z.eqb_eq in Ee. exists (Some i), {| b_id := bid; b_state := BDead; b_on := None |}.
      break_in H. injection H as <-. split; [reflexivity|]. split; [reflexivity|]. split; [reflexivity|]. right.
      split; [exact Ex|]. split; [exists i, b0; auto|]. split; [now apply negb_false_iff|]. right; right. cbn [b_state b_on]. auto.
Qed.
