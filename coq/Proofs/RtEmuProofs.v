(* C02, second half: the trace of a conformant emulator-ready program is accepted by the stream
   loader model and by the emulator-core model (handlers, propagation, PRV, end-of-trace check).
   Part 1  PRV totality for any accepted handler step whose raw channels hold PRV-safe values
           (generalises Proofs/TotalProofs.v from thread events to channel events).
   Part 2  the emulator core accepts every sequence of kinds that satisfies kinds_ready (theorem B).
   Part 3  decode_all gives the event of the kind; composition with the runtime model and the
           loader (theorem C). *)
From Coq Require Import ZArith List Bool Lia ZifyBool.
From OV Require Import Base.CInt Rt.CodecPre Gen.Codec_gen Rt.CodecDefs Rt.RtBufDefs.
From OV Require Import Emu.EmuCoreDefs Emu.DecodeDefs Emu.MarkDefs Emu.ThreadSpecDefs Rt.RtEmuDefs.
From OV Require Import Proofs.EmitProofs Proofs.EmuCoreProofs Proofs.EmuCoreWf Proofs.ThreadCpuProofs Proofs.PrvProofs
  Proofs.LabelProofs Proofs.LabelDecode Proofs.TotalProofs Proofs.TaskViewProofs.
From OV Require Gen.Tables_gen Emu.LoaderPre Emu.StreamDefs Emu.LoaderSpec Proofs.StreamProofs.
From OV Require Import Proofs.RtLoaderBridge Proofs.RtDiskKinds.
Import ListNotations.
Local Open Scope Z_scope.

(* ================================================================ part 1: PRV totality *)

(* every value a raw channel holds may be printed under the flags of its spec *)
Definition raw_safe (sp : chanspec) (r : raw) : Prop :=
  Forall (fun x => nzv (cs_flags sp) (Some x) = true) (r_stk r) /\ nzv (cs_flags sp) (r_val r) = true.

Definition RawSafe (sx : static) (st : state) : Prop :=
  forall t k, (k < length (s_chans sx))%nat -> raw_safe (spec_of sx k) (raw_of st t k).

Lemma raw_read_safe sp r : raw_safe sp r -> nzv (cs_flags sp) (raw_read sp r) = true.
Proof.
  intros [Hs Hv]. unfold raw_read. destruct (cs_stack sp); [|exact Hv].
  destruct (r_stk r) as [|x l]; [reflexivity|]. now inversion Hs.
Qed.

Lemma safe_good sp lg v : spec_safeb sp = true -> nzv (cs_flags sp) v = true -> emit_good lg (cs_flags sp) v.
Proof.
  intros S N. unfold spec_safeb in S.
  apply andb_prop in S as [S _]. apply andb_prop in S as [S _]. apply andb_prop in S as [Sf Sn].
  apply negb_true_iff in Sn. split.
  - apply orb_prop in Sf as [Sf|Sf]; [apply orb_prop in Sf as [Sf|Sf]|]; auto. right. right. right. now apply negb_true_iff in Sf.
  - destruct v as [x|]; [|exact I]. rewrite Sn. cbn [nzv] in N.
    apply orb_prop in N as [N|N]; [now left|right]. apply negb_true_iff in N. now apply Z.eqb_neq in N.
Qed.

Lemma spec_safe_parts sp : spec_safeb sp = true ->
  nzv (cs_flags sp) (cs_init sp) = true /\ nzv (cs_flags sp) (cs_cpudef sp) = true.
Proof.
  unfold spec_safeb. intros S. apply andb_prop in S as [S Sd]. apply andb_prop in S as [_ Si]. now split.
Qed.

(* the PRV layer accepts everything an accepted handler step offers, provided the raw channels of the
   new state hold safe values and no thread went back to the Unknown state *)
Theorem emit_total_gen sx st ls who ev st1 dirty :
  wf_keys sx -> OhStatic sx -> Inv sx st ls ->
  core_step sx st who ev = Ok (st1, dirty) ->
  RawSafe sx st1 ->
  (forall t, t_state (nth t (threads st1) dummy_thread) = Unknown -> t_state (nth t (threads st) dummy_thread) = Unknown) ->
  exists res, emit_all (prv_last st1) (all_reqs sx st st1 dirty) = Ok res.
Proof.
  intros Hwf O HI H R1 HU.
  destruct (core_step_frame _ _ _ _ _ _ H) as [Hlast _].
  apply emit_all_total; [now apply all_reqs_keys|].
  intros k f v Hin. destruct (all_reqs_slot_req _ _ _ _ _ _ _ Hin) as (s & Hs & Hr & -> & -> & ->).
  rewrite Hlast. pose proof (HI s Hs) as [_ HB]. cbv zeta in HB.
  pose proof (in_slots_shape sx s Hs) as Sh.
  destruct s as [t w|t k|c w|c k]; cbn [requested] in Hr.
  - (* thread system rows *)
    assert (Hc : care (flags_of sx (STh t w)) = true) by (destruct w as [|[|w]]; reflexivity).
    rewrite Hc in HB. apply changed_neq in Hr. split.
    + left. destruct HB as [HB|HB]; rewrite HB; [discriminate|]. intros E. apply Hr. now inversion E.
    + cbn [view flags_of]. destruct w as [|[|w]].
      * unfold v_cpu. destruct (t_cpu _) as [c|]; [|exact I]. right. change (has_flag PRV_NEXT PRV_NEXT) with true. cbn iota. lia.
      * unfold v_tid. destruct (is_active _); [|exact I]. right. change (has_flag 0 PRV_NEXT) with false. cbn iota.
        apply (os_ids _ O). apply nth_In. exact Sh.
      * unfold v_state. right. change (has_flag PRV_SKIPDUP PRV_NEXT) with false. cbn iota.
        destruct (t_state (nth t (threads st1) dummy_thread)) eqn:Es; cbn [tst_code]; try lia.
        exfalso. apply Hr. cbn [view]. unfold v_state. rewrite Es. now rewrite (HU t Es).
  - (* tracked thread rows *)
    destruct Sh as [_ Hk]. cbn [view flags_of]. apply safe_good; [now apply spec_safe_of|].
    destruct (mode_ok _ _); [|reflexivity]. apply raw_read_safe. now apply R1.
  - (* CPU system rows *)
    assert (Hc : care (flags_of sx (SCpu c w)) = true) by (destruct w as [|[|w]]; reflexivity).
    rewrite Hc in HB. apply changed_neq in Hr. split.
    + left. destruct HB as [HB|HB]; rewrite HB; [discriminate|]. intros E. apply Hr. now inversion E.
    + cbn [view flags_of]. destruct w as [|[|w]].
      * unfold v_cputid. destruct (th_running st1 c) as [t|]; [|exact I]. unfold nth_opt.
        destruct (nth_error (s_threads sx) t) as [ti|] eqn:En; [|exact I]. right. change (has_flag 0 PRV_NEXT) with false. cbn iota.
        apply (os_ids _ O). eapply nth_error_In; eauto.
      * unfold v_cpupid. destruct (th_running st1 c) as [t|]; [|exact I]. unfold nth_opt.
        destruct (nth_error (s_threads sx) t) as [ti|] eqn:En; [|exact I]. right. change (has_flag 0 PRV_NEXT) with false. cbn iota.
        apply (os_ids _ O). eapply nth_error_In; eauto.
      * destruct (v_nrun st1 c); [left; reflexivity|exact I].
  - (* tracked CPU rows *)
    destruct Sh as [_ Hk]. cbn [view flags_of]. pose proof (spec_safe_of sx k O Hk) as S. apply safe_good; [exact S|].
    destruct (th_running st1 c) as [t|]; [apply raw_read_safe; now apply R1|]. now apply spec_safe_parts.
Qed.

(* a full step (handler + propagation) under the same conditions, with the timeline invariant kept *)
Lemma step_total_gen sx st ls who ev st1 dirty :
  wf_keys sx -> OhStatic sx -> Inv sx st ls ->
  core_step sx st who ev = Ok (st1, dirty) ->
  RawSafe sx st1 ->
  (forall t, t_state (nth t (threads st1) dummy_thread) = Unknown -> t_state (nth t (threads st) dummy_thread) = Unknown) ->
  exists last' ls', step sx st who ev = Ok (set_last st1 last', ls') /\ Inv sx (set_last st1 last') (ls ++ ls').
Proof.
  intros Hwf O HI H R1 HU.
  destruct (emit_total_gen sx st ls who ev st1 dirty Hwf O HI H R1 HU) as [[last' ls'] E].
  exists last', ls'.
  assert (Es : step sx st who ev = Ok (set_last st1 last', ls')) by (unfold step; rewrite H, E; reflexivity).
  split; [exact Es|]. exact (step_inv sx st who ev _ ls' ls Hwf HI Es).
Qed.

Lemma RawSafe_set_last sx st l : RawSafe sx st -> RawSafe sx (set_last st l).
Proof. intros R t k Hk. exact (R t k Hk). Qed.

Lemma RawSafe_same_raws sx st st1 : raws st1 = raws st -> RawSafe sx st -> RawSafe sx st1.
Proof. intros E R t k Hk. rewrite (raw_of_same_raws st st1 E). now apply R. Qed.

Lemma raw_apply_safe sp r a ov r' d :
  raw_safe sp r -> nzv (cs_flags sp) ov = true -> raw_apply sp r a ov = Ok (r', d) -> raw_safe sp r'.
Proof.
  intros [Hs Hv] N H. unfold raw_apply in H.
  destruct a, ov as [v|]; break_in H; inversion H; subst; clear H; unfold raw_safe; cbn [r_stk r_val];
    try (split; assumption).
  - split; [constructor; assumption|assumption].
  - split; [now inversion Hs|assumption].
Qed.

(* ================================================================ part 2: the emulator core accepts ready kinds *)

Local Notation FLUSHING := Tables_gen.c_ovni_ST_FLUSHING.

(* what the proof needs to know about the channel specs of the trace *)
Record MStatic (sx : static) (ms : list mtype) : Prop := {
  st_wf : wf_keys sx;
  st_oh : OhStatic sx;
  st_init : init_ok sx;
  st_flush : exists kf sp,
      chan_pos (s_chans sx) M_OVNI Tables_gen.c_ovni_CH_FLUSH = Some kf /\ nth_error (s_chans sx) kf = Some sp /\
      cs_stack sp = false /\ cs_init sp = None /\ cs_model sp <> MARK_MODEL /\ nzv (cs_flags sp) (Some FLUSHING) = true;
  st_mark : forall ty m, find_mt ms ty = Some m ->
      exists k sp, chan_pos (s_chans sx) MARK_MODEL ty = Some k /\ nth_error (s_chans sx) k = Some sp /\
                   cs_stack sp = mt_stack m /\ cs_dup sp = true;
  st_inj : forall k k' sp sp', nth_error (s_chans sx) k = Some sp -> nth_error (s_chans sx) k' = Some sp' ->
      cs_model sp = MARK_MODEL -> cs_model sp' = MARK_MODEL -> cs_index sp = cs_index sp' -> k = k';
  st_mstack : forall k sp, nth_error (s_chans sx) k = Some sp -> cs_model sp = MARK_MODEL ->
      exists m, In m ms /\ mt_type m = cs_index sp
}.

Definition is_mstack (sp : chanspec) : bool := (cs_model sp =? MARK_MODEL) && cs_stack sp.

(* the raw channels of one thread against the scanner's view of that thread *)
Definition RawSim (sx : static) (kf : nat) (rs : list raw) (fl : bool) (stk : Z -> list Z) : Prop :=
  length rs = length (s_chans sx) /\
  (forall k sp, nth_error (s_chans sx) k = Some sp ->
     r_stk (nth k rs empty_raw) = if is_mstack sp then stk (cs_index sp) else []) /\
  r_val (nth kf rs empty_raw) = (if fl then Some FLUSHING else None).

Definition MSim (sx : static) (kf : nat) (st : state) (s : mscan) : Prop :=
  Bind sx st /\ proj st = m_ss s /\ RawSafe sx st /\
  forall t th, nth_error (threads st) t = Some th -> RawSim sx kf (t_raw th) (m_fl s t) (m_stk s t).

Lemma MSim_set_last sx kf st s l : MSim sx kf st s -> MSim sx kf (set_last st l) s.
Proof.
  intros (B & P & R & T). split; [|split; [|split]].
  - apply (same_core_Bind sx st); [split; reflexivity|exact B].
  - exact P.
  - now apply RawSafe_set_last.
  - exact T.
Qed.

(* ---------------------------------------------------------------- list facts *)

Lemma nth_error_update {A} (l : list A) n m x y :
  nth_error (update l n x) m = Some y -> (m = n /\ y = x /\ (n < length l)%nat) \/ (m <> n /\ nth_error l m = Some y).
Proof.
  revert n m. induction l as [|a l IH]; intros n m H.
  - destruct n, m; discriminate H.
  - destruct n as [|n], m as [|m]; cbn [update nth_error] in H.
    + injection H as <-. left. cbn [length]. repeat split; lia.
    + right. split; [discriminate|exact H].
    + right. split; [discriminate|exact H].
    + destruct (IH n m H) as [(-> & -> & Hl)|(Hne & E)]; [left; cbn [length]; repeat split; lia|right; split; [congruence|exact E]].
Qed.

Lemma nth_error_nth' {A} (l : list A) n x d : nth_error l n = Some x -> nth n l d = x.
Proof. apply nth_error_nth. Qed.

Lemma spec_of_nth_error sx k sp : nth_error (s_chans sx) k = Some sp -> spec_of sx k = sp.
Proof. intros H. unfold spec_of. now apply nth_error_nth. Qed.

Lemma raws_nth st st1 t th1 :
  raws st1 = raws st -> nth_error (threads st1) t = Some th1 ->
  exists th, nth_error (threads st) t = Some th /\ t_raw th = t_raw th1.
Proof.
  intros E H. unfold raws in E.
  assert (H1 : nth_error (map t_raw (threads st1)) t = Some (t_raw th1)) by (now apply map_nth_error).
  rewrite E in H1. destruct (nth_error (threads st) t) as [th|] eqn:En.
  - exists th. split; [reflexivity|]. rewrite (map_nth_error t_raw _ _ En) in H1. now injection H1.
  - apply nth_error_None in En. assert (nth_error (map t_raw (threads st)) t = None) by (apply nth_error_None; now rewrite map_length).
    congruence.
Qed.

(* ---------------------------------------------------------------- a channel event on thread who *)

Lemma Bind_set_raw sx st who th r :
  Bind sx st -> nth_error (threads st) who = Some th ->
  Bind sx (set_thread st who (with_raw th r)) /\ proj (set_thread st who (with_raw th r)) = proj st.
Proof.
  intros [B N] Hn. destruct (nth_error_thr _ _ _ Hn) as [Hth Hlt].
  set (st1 := set_thread st who (with_raw th r)).
  assert (Hf : forall t, t_cpu (thr st1 t) = t_cpu (thr st t) /\ t_state (thr st1 t) = t_state (thr st t) /\
                         t_ooc (thr st1 t) = t_ooc (thr st t)).
  { intros t. destruct (Nat.eq_dec who t) as [<-|Hne].
    - unfold st1. rewrite thr_set_thread_same by exact Hlt. rewrite Hth. repeat split.
    - unfold st1. rewrite thr_set_thread_other by exact Hne. repeat split. }
  assert (Hl : length (threads st1) = length (threads st)) by apply len_t_set_thread.
  split; [split|].
  - destruct B as [l1 l2 bi bc bn bs bo]. constructor.
    + now rewrite Hl.
    + exact l2.
    + intros c t Hin. rewrite Hl. destruct (Hf t) as (-> & _ & _). now apply bi.
    + intros t c Ht Hc. rewrite Hl in Ht. destruct (Hf t) as (E & _ & _). rewrite E in Hc. now apply bc.
    + exact bn.
    + intros t Ht. rewrite Hl in Ht. destruct (Hf t) as (-> & -> & _). now apply bs.
    + intros t Ht. rewrite Hl in Ht. destruct (Hf t) as (_ & _ & ->). now apply bo.
  - intros c. rewrite <- (N c). unfold oversubscribed, nrunning. rewrite !running_on_cl.
    change (cl st1 c) with (cl st c). f_equal. f_equal. f_equal. apply filter_ext. intros t. now destruct (Hf t) as (_ & -> & _).
  - unfold st1. rewrite proj_set_thread. cbn [t_state t_cpu with_raw]. now apply update_proj_id.
Qed.

Lemma chan_sim sx st who th k sp a v r' d :
  Bind sx st -> RawSafe sx st ->
  nth_error (threads st) who = Some th -> nth_error (s_chans sx) k = Some sp ->
  raw_apply sp (nth k (t_raw th) empty_raw) a v = Ok (r', d) -> nzv (cs_flags sp) v = true ->
  let st1 := set_thread st who (with_raw th (update (t_raw th) k r')) in
  core_step sx st who (EvChan k a v 3) = Ok (st1, if d then [(who, k)] else []) /\
  Bind sx st1 /\ proj st1 = proj st /\ RawSafe sx st1 /\
  (forall t, t_state (nth t (threads st1) dummy_thread) = Unknown -> t_state (nth t (threads st) dummy_thread) = Unknown).
Proof.
  intros B R Hn Hk Ha Hz st1. destruct (nth_error_thr _ _ _ Hn) as [Hth Hlt].
  assert (Hooc : t_ooc th = false) by (rewrite <- Hth; apply (b_ooc _ _ (proj1 B) who Hlt)).
  destruct (Bind_set_raw sx st who th (update (t_raw th) k r') B Hn) as [B1 P1]. fold st1 in B1, P1.
  split; [|split; [exact B1|split; [exact P1|split]]].
  - unfold core_step, nth_opt. rewrite Hn, Hooc.
    change (3 =? 1) with false. change (3 =? 2) with false. change (3 =? 3) with true. change (3 =? 4) with false. cbn [andb].
    unfold chan_step, nth_opt. rewrite Hn, Hk, Ha. reflexivity.
  - intros t k' Hk'. unfold raw_of, st1, set_thread. cbn [threads].
    destruct (nth_update_dec (threads st) who t (with_raw th (update (t_raw th) k r')) dummy_thread) as [[-> E]|E]; rewrite E.
    + cbn [t_raw with_raw].
      assert (S0 : forall j, (j < length (s_chans sx))%nat -> raw_safe (spec_of sx j) (nth j (t_raw th) empty_raw)).
      { intros j Hj. specialize (R who j Hj). unfold raw_of in R. fold (thr st who) in R. now rewrite Hth in R. }
      destruct (nth_update_dec (t_raw th) k k' r' empty_raw) as [[-> E2]|E2]; rewrite E2; [|now apply S0].
      rewrite (spec_of_nth_error sx k sp Hk). apply (raw_apply_safe sp (nth k (t_raw th) empty_raw) a v r' d); [|exact Hz|exact Ha].
      rewrite <- (spec_of_nth_error sx k sp Hk). now apply S0.
    + now apply R.
  - intros t. unfold st1, set_thread. cbn [threads].
    destruct (nth_update_dec (threads st) who t (with_raw th (update (t_raw th) k r')) dummy_thread) as [[-> E]|E]; rewrite E; [|auto].
    cbn [t_state with_raw]. fold (thr st who). now rewrite Hth.
Qed.

(* the threads of the state after a channel event *)
Lemma set_raw_threads st who th rs t th1 :
  nth_error (threads st) who = Some th ->
  nth_error (threads (set_thread st who (with_raw th rs))) t = Some th1 ->
  (t = who /\ t_raw th1 = rs) \/ (t <> who /\ nth_error (threads st) t = Some th1).
Proof.
  intros Hn H. unfold set_thread in H. cbn [threads] in H.
  destruct (nth_error_update _ _ _ _ _ H) as [(-> & -> & _)|(Hne & E)]; [left; split; reflexivity|right; split; assumption].
Qed.

(* ---------------------------------------------------------------- one kind *)

Definition FlushAt (sx : static) (kf : nat) (spf : chanspec) : Prop :=
  chan_pos (s_chans sx) M_OVNI Tables_gen.c_ovni_CH_FLUSH = Some kf /\ nth_error (s_chans sx) kf = Some spf /\
  cs_stack spf = false /\ cs_init spf = None /\ cs_model spf <> MARK_MODEL /\ nzv (cs_flags spf) (Some FLUSHING) = true.

Lemma nzv_nonzero f v : v <> 0 -> nzv f (Some v) = true.
Proof. intros H. cbn [nzv]. apply orb_true_iff. right. apply negb_true_iff. now apply Z.eqb_neq. Qed.

Lemma set_at_same {A} (f : nat -> A) t x : set_at f t x t = x.
Proof. unfold set_at. now rewrite Nat.eqb_refl. Qed.
Lemma set_at_other {A} (f : nat -> A) t t' x : t' <> t -> set_at f t x t' = f t'.
Proof. intros H. unfold set_at. apply Nat.eqb_neq in H. now rewrite H. Qed.

Lemma step_kind sx ms kf spf st ls s who k s' :
  MStatic sx ms -> FlushAt sx kf spf ->
  MSim sx kf st s -> Inv sx st ls ->
  mkind_step sx ms s who k = Some s' ->
  exists st' ls', step sx st who (kind_event (s_chans sx) k) = Ok (st', ls') /\ MSim sx kf st' s' /\ Inv sx st' (ls ++ ls').
Proof.
  intros MS (Fp & Fn & Fstk & Fini & Fmod & Fnz) (B & P & R & T) HI H.
  unfold mkind_step in H. destruct (Nat.ltb who (length (m_ss s))) eqn:Ew; [|discriminate H]. cbn [negb] in H.
  apply Nat.ltb_lt in Ew. rewrite <- P, proj_length in Ew.
  destruct (nth_error (threads st) who) as [th|] eqn:Hn; [|apply nth_error_None in Hn; lia].
  destruct (nth_error_thr _ _ _ Hn) as [Hth Hlt].
  assert (Hooc : t_ooc th = false) by (rewrite <- Hth; apply (b_ooc _ _ (proj1 B) who Hlt)).
  pose proof (st_wf _ _ MS) as Hwf. pose proof (st_oh _ _ MS) as O.
  destruct k as [e| |b|a ty v]; cbn [kind_event].
  - (* thread state event *)
    destruct (spec_step sx (m_ss s) who e) as [ss'|] eqn:Es; [|discriminate H]. injection H as <-.
    rewrite <- P in Es. pose proof (sim_step sx st who e B) as K.
    destruct (oh_step sx st who e) as [st1|x] eqn:Eo; [|congruence]. destruct K as [K1 B1].
    rewrite Es in K1. injection K1 as K1.
    destruct (oh_step_frame _ _ _ _ _ Eo) as [Hr _].
    assert (Hc : core_step sx st who (EvOvni e) = Ok (st1, [])) by (cbn [core_step]; now rewrite Eo).
    destruct (step_total_gen sx st ls who (EvOvni e) st1 [] Hwf O HI Hc (RawSafe_same_raws sx st st1 Hr R)
                (oh_step_not_unknown _ _ _ _ _ Eo)) as (last' & ls' & Es' & HI').
    exists (set_last st1 last'), ls'. split; [exact Es'|split; [|exact HI']]. apply MSim_set_last.
    split; [exact B1|split; [now symmetry|split; [now apply (RawSafe_same_raws sx st)|]]].
    cbn [m_fl m_stk]. intros t th1 H1. destruct (raws_nth st st1 t th1 Hr H1) as (th0 & H0 & <-). now apply T.
  - (* ignored event *)
    injection H as <-.
    assert (Hc : core_step sx st who EvNop = Ok (st, [])) by (cbn [core_step]; unfold nth_opt; now rewrite Hn, Hooc).
    destruct (step_total_gen sx st ls who EvNop st [] Hwf O HI Hc R (fun t E => E)) as (last' & ls' & Es' & HI').
    exists (set_last st last'), ls'. split; [exact Es'|split; [|exact HI']]. apply MSim_set_last. exact (conj B (conj P (conj R T))).
  - (* flush marker *)
    rewrite Fp. destruct (Bool.eqb (m_fl s who) b) eqn:Eb; [discriminate H|]. injection H as <-.
    destruct (T who th Hn) as (L & S & F).
    set (ov := if b then Some FLUSHING else None).
    set (r := nth kf (t_raw th) empty_raw).
    assert (Ha : raw_apply spf r SET ov = Ok ({| r_stk := r_stk r; r_val := ov |}, true)).
    { unfold raw_apply. rewrite Fstk.
      assert (Ev : value_eqb (r_val r) ov = false).
      { unfold r, ov. rewrite F. destruct (m_fl s who), b; try discriminate Eb; reflexivity. }
      rewrite Ev, andb_false_r. now destruct ov. }
    assert (Hz : nzv (cs_flags spf) ov = true) by (unfold ov; destruct b; [exact Fnz|reflexivity]).
    destruct (chan_sim sx st who th kf spf SET ov _ true B R Hn Fn Ha Hz) as (Hc & B1 & P1 & R1 & U1).
    set (rs' := update (t_raw th) kf {| r_stk := r_stk r; r_val := ov |}) in *.
    set (st1 := set_thread st who (with_raw th rs')) in *.
    destruct (step_total_gen sx st ls who _ st1 _ Hwf O HI Hc R1 U1) as (last' & ls' & Es' & HI').
    exists (set_last st1 last'), ls'. split; [exact Es'|split; [|exact HI']]. apply MSim_set_last.
    split; [exact B1|split; [cbn [m_ss]; congruence|split; [exact R1|]]]. cbn [m_fl m_stk].
    intros t th1 H1. destruct (set_raw_threads st who th rs' t th1 Hn H1) as [[-> ->]|[Hne H0]].
    + rewrite set_at_same. assert (Hkl : (kf < length (t_raw th))%nat) by (rewrite L; eapply nth_error_lt; eauto).
      split; [|split].
      * unfold rs'. now rewrite update_length.
      * intros k' sp' Hk'. unfold rs'.
        destruct (nth_update_dec (t_raw th) kf k' {| r_stk := r_stk r; r_val := ov |} empty_raw) as [[-> E]|E]; rewrite E.
        -- cbn [r_stk]. unfold r. now apply S.
        -- now apply S.
      * unfold rs'. rewrite nth_update_same by exact Hkl. cbn [r_val]. unfold ov. now destruct b.
    + rewrite set_at_other by exact Hne. now apply T.
  - (* mark *)
    destruct (mark_step ms (m_stk s who) a ty v) as [g|] eqn:Em; [|discriminate H]. injection H as <-.
    unfold mark_step in Em. destruct (v =? 0) eqn:Ev0; [discriminate Em|]. apply Z.eqb_neq in Ev0.
    destruct (find_mt ms ty) as [m|] eqn:Ef; [|discriminate Em].
    destruct (st_mark _ _ MS ty m Ef) as (km & sp & Hp & Hk & Hstk & Hdup). rewrite Hp.
    destruct (chan_pos_spec _ _ _ _ Hp) as (_ & Hmod & Hidx).
    rewrite (nth_error_nth _ _ _ null_spec Hk) in Hmod, Hidx.
    destruct (T who th Hn) as (L & S & F).
    set (r := nth km (t_raw th) empty_raw).
    assert (Sr : r_stk r = if cs_stack sp then m_stk s who ty else []).
    { unfold r. rewrite (S km sp Hk). unfold is_mstack. now rewrite Hmod, Z.eqb_refl, Hidx. }
    assert (Hz : nzv (cs_flags sp) (Some v) = true) by now apply nzv_nonzero.
    assert (Hkf : km <> kf) by (intros ->; rewrite Fn in Hk; injection Hk as <-; contradiction).
    (* common tail: given the outcome of raw_apply *)
    assert (Tail : forall r', raw_apply sp r a (Some v) = Ok (r', true) ->
              r_stk r' = (if cs_stack sp then g (cs_index sp) else []) ->
              (forall i, i <> cs_index sp -> g i = m_stk s who i) ->
              exists st' ls', step sx st who (EvChan km a (Some v) 3) = Ok (st', ls') /\
                MSim sx kf st' {| m_ss := m_ss s; m_fl := m_fl s; m_stk := set_at (m_stk s) who g |} /\ Inv sx st' (ls ++ ls')).
    { intros r' Ha Hr Hg.
      destruct (chan_sim sx st who th km sp a (Some v) r' true B R Hn Hk Ha Hz) as (Hc & B1 & P1 & R1 & U1).
      set (rs' := update (t_raw th) km r') in *. set (st1 := set_thread st who (with_raw th rs')) in *.
      destruct (step_total_gen sx st ls who _ st1 _ Hwf O HI Hc R1 U1) as (last' & ls' & Es' & HI').
      exists (set_last st1 last'), ls'. split; [exact Es'|split; [|exact HI']]. apply MSim_set_last.
      split; [exact B1|split; [cbn [m_ss]; congruence|split; [exact R1|]]]. cbn [m_fl m_stk].
      intros t th1 H1. destruct (set_raw_threads st who th rs' t th1 Hn H1) as [[-> ->]|[Hne H0]].
      - rewrite set_at_same. unfold rs'.
        assert (RS : RawSim sx kf (update (t_raw th) km r') (m_fl s who) g).
        { split; [now rewrite update_length|split].
          - intros k' sp' Hk'. destruct (nth_update_dec (t_raw th) km k' r' empty_raw) as [[-> E]|E]; rewrite E.
            + assert (sp' = sp) by congruence. subst sp'. unfold is_mstack. rewrite Hmod, Z.eqb_refl. cbn [andb]. exact Hr.
            + rewrite (S k' sp' Hk'). destruct (is_mstack sp') eqn:Ems; [|reflexivity].
              destruct (Nat.eq_dec k' km) as [->|Hne].
              * assert (sp' = sp) by congruence. subst sp'.
                assert (Hlt' : (km < length (t_raw th))%nat) by (rewrite L; eapply nth_error_lt; eauto).
                rewrite (nth_update_same (t_raw th) km r' empty_raw Hlt') in E.
                pose proof (S km sp Hk) as Sk. rewrite Ems, <- E, Hr in Sk.
                unfold is_mstack in Ems. apply andb_prop in Ems as [_ Es]. rewrite Es in Sk. now symmetry.
              * symmetry. apply Hg. intros Ei. apply Hne. unfold is_mstack in Ems. apply andb_prop in Ems as [Ems _].
                apply Z.eqb_eq in Ems. exact (st_inj _ _ MS k' km sp' sp Hk' Hk Ems Hmod Ei).
          - rewrite nth_update_other by exact Hkf. exact F. }
        exact RS.
      - rewrite set_at_other by exact Hne. now apply T. }
    rewrite <- Hstk in Em. rewrite Hidx in Tail.
    destruct a.
    + (* PUSH *)
      destruct (cs_stack sp) eqn:Est; [|discriminate Em]. cbn [andb] in Em.
      destruct (Nat.leb MAX_CHAN_STACK (length (m_stk s who ty))) eqn:El; [discriminate Em|]. injection Em as <-.
      apply (Tail {| r_stk := v :: r_stk r; r_val := r_val r |}).
      * unfold raw_apply. rewrite Est, Hdup. cbn [negb andb]. rewrite Sr, El. reflexivity.
      * cbn [r_stk]. unfold set_stk. now rewrite Z.eqb_refl, Sr.
      * intros i Hi. unfold set_stk. apply Z.eqb_neq in Hi. now rewrite Hi.
    + (* POP *)
      destruct (cs_stack sp) eqn:Est; [|discriminate Em].
      destruct (m_stk s who ty) as [|x rest] eqn:Estk; [discriminate Em|].
      destruct (x =? v) eqn:Ex; [|discriminate Em]. injection Em as <-.
      apply (Tail {| r_stk := rest; r_val := r_val r |}).
      * unfold raw_apply. rewrite Est. cbn [negb]. rewrite Sr, Ex. reflexivity.
      * cbn [r_stk]. unfold set_stk. now rewrite Z.eqb_refl.
      * intros i Hi. unfold set_stk. apply Z.eqb_neq in Hi. now rewrite Hi.
    + (* SET *)
      destruct (cs_stack sp) eqn:Est; [discriminate Em|]. injection Em as <-.
      apply (Tail {| r_stk := r_stk r; r_val := Some v |}).
      * unfold raw_apply. rewrite Est, Hdup. reflexivity.
      * cbn [r_stk]. exact Sr.
      * reflexivity.
    + discriminate Em.
Qed.

(* ---------------------------------------------------------------- whole runs *)

Lemma run_from_ready sx ms kf spf :
  MStatic sx ms -> FlushAt sx kf spf ->
  forall tks st ls s s',
  MSim sx kf st s -> Inv sx st ls ->
  mkinds_scan sx ms s tks = Some s' ->
  exists st' tl, run_from sx st (mkinds_events (s_chans sx) tks) = Ok (st', tl) /\ MSim sx kf st' s'.
Proof.
  intros MS FA. induction tks as [|[[tm who] k] tks IH]; intros st ls s s' M HI H; cbn [mkinds_scan mkinds_events map run_from] in *.
  - injection H as <-. exists st, []. now split.
  - destruct (mkind_step sx ms s who k) as [s1|] eqn:E1; [|discriminate H].
    destruct (step_kind sx ms kf spf st ls s who k s1 MS FA M HI E1) as (st1 & ls1 & Es & M1 & HI1). rewrite Es.
    destruct (IH st1 (ls ++ ls1) s1 s' M1 HI1 H) as (st' & tl & Er & M'). fold (mkinds_events (s_chans sx) tks). rewrite Er.
    eexists _, _. split; [reflexivity|exact M'].
Qed.

Lemma nth_error_map_const {A B} (l : list A) (b : B) n x : nth_error (map (fun _ => b) l) n = Some x -> x = b.
Proof. revert n. induction l as [|a l IH]; intros [|n] H; cbn [map nth_error] in H; try discriminate; [now injection H|eauto]. Qed.

Lemma MSim_init sx ms kf spf : MStatic sx ms -> FlushAt sx kf spf -> MSim sx kf (init sx) (mscan0 sx).
Proof.
  intros MS (Fp & Fn & Fstk & Fini & Fmod & Fnz). pose proof (st_oh _ _ MS) as O.
  assert (Hraw : forall k sp, nth_error (s_chans sx) k = Some sp ->
            nth k (map (fun sp => {| r_stk := []; r_val := cs_init sp |}) (s_chans sx)) empty_raw = {| r_stk := []; r_val := cs_init sp |}).
  { intros k sp Hk. apply nth_error_nth. now apply (map_nth_error (fun sp => {| r_stk := []; r_val := cs_init sp |})). }
  split; [apply init_Bind|split; [apply proj_init|split]].
  - intros t k Hk. unfold raw_of. cbn [init threads].
    destruct (nth_error (s_chans sx) k) as [sp|] eqn:Ek; [|apply nth_error_None in Ek; lia].
    rewrite (spec_of_nth_error sx k sp Ek).
    assert (Ssp : spec_safeb sp = true) by (rewrite <- (spec_of_nth_error sx k sp Ek); now apply spec_safe_of).
    destruct (Nat.lt_ge_cases t (length (s_threads sx))) as [Ht|Ht].
    + rewrite (nth_map_const' _ (init_thread sx) dummy_thread t Ht). cbn [init_thread t_raw]. rewrite (Hraw k sp Ek).
      split; cbn [r_stk r_val]; [constructor|now apply spec_safe_parts].
    + assert (E : nth t (map (fun _ : thread_info => init_thread sx) (s_threads sx)) dummy_thread = dummy_thread)
        by (apply nth_overflow; rewrite map_length; exact Ht).
      rewrite E. cbn [dummy_thread t_raw].
      replace (nth k [] empty_raw) with empty_raw by (now destruct k). split; cbn [empty_raw r_stk r_val nzv]; [constructor|reflexivity].
  - intros t th Hn. cbn [init threads] in Hn. apply nth_error_map_const in Hn. subst th. cbn [init_thread t_raw mscan0 m_fl m_stk].
    split; [now rewrite map_length|split].
    + intros k sp Hk. rewrite (Hraw k sp Hk). cbn [r_stk]. now destruct (is_mstack sp).
    + rewrite (Hraw kf spf Fn). cbn [r_val]. exact Fini.
Qed.

Lemma forallb_seq_nth (f : nat -> bool) n t : forallb f (seq 0 n) = true -> (t < n)%nat -> f t = true.
Proof. intros H Ht. rewrite forallb_forall in H. apply H. apply in_seq. lia. Qed.

(* B: the complete emulator-core model (handlers, propagation to the PRV layer, end-of-trace check)
   accepts every trace of thread state events, ignored events, flush markers and marks that
   satisfies the discipline mkinds_ready: any number of threads and CPUs, any lint channel list *)
Theorem core_accepts_multi sx ms lintchans tks :
  MStatic sx ms -> mkinds_ready sx ms tks = true ->
  exists ls, run sx lintchans (mkinds_events (s_chans sx) tks) = Ok ls.
Proof.
  intros MS H. destruct (st_flush _ _ MS) as (kf & spf & FA). fold (FlushAt sx kf spf) in FA.
  unfold mkinds_ready in H. destruct (mkinds_scan sx ms (mscan0 sx) tks) as [s|] eqn:Es; [|discriminate H].
  destruct (run_from_ready sx ms kf spf MS FA tks (init sx) [] (mscan0 sx) s (MSim_init sx ms kf spf MS FA)
              (init_inv sx (st_init _ _ MS)) Es) as (st & tl & Er & (B & P & R & T)).
  unfold run. rewrite Er. unfold mscan_final in H. apply andb_prop in H as [Hd Hl].
  assert (Ed : all_dead st = true) by (rewrite all_dead_proj, P; exact Hd). rewrite Ed. cbn [negb].
  destruct (s_lint sx) eqn:El; [|eexists; reflexivity]. cbn [negb orb andb] in *.
  assert (Lk : lint_ok sx lintchans st = true).
  { unfold lint_ok. apply forallb_forall. intros th Hth. apply forallb_forall. intros k _.
    destruct (In_nth_error _ _ Hth) as [t Hn]. destruct (T t th Hn) as (L & S & _).
    change {| r_stk := []; r_val := None |} with empty_raw.
    destruct (nth_error (s_chans sx) k) as [sp|] eqn:Ek.
    - rewrite (S k sp Ek). destruct (is_mstack sp) eqn:Em; [|reflexivity].
      unfold is_mstack in Em. apply andb_prop in Em as [Em _]. apply Z.eqb_eq in Em.
      destruct (st_mstack _ _ MS k sp Ek Em) as (m & Hm & <-).
      assert (Ht : (t < length (m_ss s))%nat) by (rewrite <- P, proj_length; eapply nth_error_lt; eauto).
      pose proof (forallb_seq_nth _ _ t Hl Ht) as Hf. cbn beta in Hf. rewrite forallb_forall in Hf. exact (Hf m Hm).
    - apply nth_error_None in Ek. rewrite nth_overflow by (now rewrite L). reflexivity. }
  rewrite Lk. eexists. reflexivity.
Qed.

(* ---------------------------------------------------------------- the static conditions hold for every trace *)

Definition flush_okb (en : list Z) : bool :=
  negb (memz M_OVNI en) ||
  match chan_pos (mk_chans en) M_OVNI Tables_gen.c_ovni_CH_FLUSH with
  | Some kf =>
    match nth_error (mk_chans en) kf with
    | Some sp => negb (cs_stack sp) && (match cs_init sp with None => true | Some _ => false end) &&
                 negb (cs_model sp =? MARK_MODEL) && nzv (cs_flags sp) (Some FLUSHING)
    | None => false
    end
  | None => false
  end.

Lemma dumped_flush_ok : forallb flush_okb (sublists all_models) = true.
Proof. vm_compute. reflexivity. Qed.

Lemma dumped_no_mark_model :
  forallb (fun en => forallb (fun sp => negb (cs_model sp =? MARK_MODEL)) (mk_chans en)) (sublists all_models) = true.
Proof. vm_compute. reflexivity. Qed.

Lemma chan_pos_from_app_l a b m i : forall g k, chan_pos_from a m i g = Some k -> chan_pos_from (a ++ b) m i g = Some k.
Proof.
  induction a as [|sp a IH]; intros g k H; cbn [chan_pos_from app] in *; [discriminate|].
  destruct ((cs_model sp =? m) && (cs_index sp =? i)); [exact H|now apply IH].
Qed.

Lemma chan_pos_from_app_r a b m i :
  forallb (fun sp => negb (cs_model sp =? m)) a = true ->
  forall g, chan_pos_from (a ++ b) m i g = chan_pos_from b m i (g + length a).
Proof.
  induction a as [|sp a IH]; intros Hn g; cbn [chan_pos_from app length].
  - now rewrite Nat.add_0_r.
  - cbn [forallb] in Hn. apply andb_prop in Hn as [H1 H2]. apply negb_true_iff in H1. rewrite H1. cbn [andb].
    rewrite (IH H2). f_equal. lia.
Qed.

Definition mark_chan (m : mtype) : chanspec :=
  {| cs_model := MARK_MODEL; cs_index := mt_type m; cs_stack := mt_stack m; cs_dup := true;
     cs_thtrack := TRACK_ACT; cs_cputrack := TRACK_RUN; cs_type := 100 + mt_type m;
     cs_flags := PRV_SKIPDUPNULL; cs_init := None; cs_cpudef := None |}.

Lemma mark_chans_map ms : mark_chans ms = map mark_chan ms.
Proof. reflexivity. Qed.

Lemma chan_pos_from_marks ms ty m : forall g,
  find_mt ms ty = Some m ->
  exists i, chan_pos_from (mark_chans ms) MARK_MODEL ty g = Some (g + i)%nat /\ nth_error ms i = Some m.
Proof.
  induction ms as [|m0 ms IH]; intros g H; cbn [find_mt] in H; [discriminate|].
  rewrite mark_chans_map. cbn [map chan_pos_from mark_chan cs_model cs_index]. rewrite Z.eqb_refl. cbn [andb].
  destruct (mt_type m0 =? ty) eqn:E.
  - injection H as <-. exists 0%nat. split; [now rewrite Nat.add_0_r|reflexivity].
  - destruct (IH (S g) H) as (i & Hp & Hn). exists (S i). split; [|exact Hn].
    rewrite <- mark_chans_map, Hp. f_equal. lia.
Qed.

(* a channel of the mark model lies in the mark part *)
Lemma mark_part a ms k sp :
  forallb (fun sp => negb (cs_model sp =? MARK_MODEL)) a = true ->
  nth_error (a ++ mark_chans ms) k = Some sp -> cs_model sp = MARK_MODEL ->
  exists i m, k = (length a + i)%nat /\ nth_error ms i = Some m /\ sp = mark_chan m.
Proof.
  intros Ha Hk Hm. destruct (Nat.lt_ge_cases k (length a)) as [Hlt|Hge].
  - rewrite nth_error_app1 in Hk by exact Hlt. rewrite forallb_forall in Ha.
    specialize (Ha sp (nth_error_In _ _ Hk)). rewrite Hm, Z.eqb_refl in Ha. discriminate Ha.
  - rewrite nth_error_app2 in Hk by exact Hge. exists (k - length a)%nat.
    rewrite mark_chans_map in Hk. destruct (nth_error ms (k - length a)) as [m|] eqn:En.
    + rewrite (map_nth_error mark_chan _ _ En) in Hk. injection Hk as <-. exists m. split; [lia|split; reflexivity].
    + apply nth_error_None in En. assert (nth_error (map mark_chan ms) (k - length a) = None) by (apply nth_error_None; now rewrite map_length).
      congruence.
Qed.

Lemma mark_chans_safe ms : forallb spec_safeb (mark_chans ms) = true.
Proof. apply forallb_forall. intros sp H. rewrite mark_chans_map in H. apply in_map_iff in H as [m [<- _]]. reflexivity. Qed.

(* the static description of any trace: a subset of the models including ovni, the mark types of the
   trace (distinct, non-negative), thread and process ids as the loader demands them *)
Theorem mstatic_of_trace sx en ms :
  In en (sublists all_models) -> memz M_OVNI en = true ->
  s_chans sx = mk_chans en ++ mark_chans ms ->
  NoDup (map mt_type ms) -> (forall m, In m ms -> 0 <= mt_type m) ->
  (forall ti, In ti (s_threads sx) -> ti_tid ti <> 0 /\ ti_pid ti <> 0) ->
  MStatic sx ms.
Proof.
  intros Hen Hov Hcs Nd Hpos Hids.
  pose proof dumped_no_mark_model as NM. rewrite forallb_forall in NM. specialize (NM en Hen).
  constructor.
  - apply wf_keys_of_types. now apply (types_ok_marks sx en ms).
  - constructor; [exact Hids|]. rewrite Hcs, forallb_app, mark_chans_safe, andb_true_r.
    pose proof dumped_specs_safe as D. rewrite forallb_forall in D. now apply D.
  - apply init_ok_of. now apply (any_init_ok_specs sx en ms).
  - pose proof dumped_flush_ok as D. rewrite forallb_forall in D. specialize (D en Hen). unfold flush_okb in D.
    rewrite Hov in D. cbn [negb orb] in D.
    destruct (chan_pos (mk_chans en) M_OVNI Tables_gen.c_ovni_CH_FLUSH) as [kf|] eqn:Ep; [|discriminate D].
    destruct (nth_error (mk_chans en) kf) as [sp|] eqn:En; [|discriminate D].
    apply andb_prop in D as [D D4]. apply andb_prop in D as [D D3]. apply andb_prop in D as [D1 D2].
    exists kf, sp. rewrite Hcs. split; [now apply chan_pos_from_app_l|]. split.
    + rewrite nth_error_app1; [exact En|eapply nth_error_lt; eauto].
    + split; [now apply negb_true_iff in D1|]. split; [destruct (cs_init sp); [discriminate D2|reflexivity]|].
      split; [|exact D4]. apply negb_true_iff in D3. now apply Z.eqb_neq in D3.
  - intros ty m Hf. rewrite Hcs. unfold chan_pos. rewrite (chan_pos_from_app_r _ _ _ _ NM).
    destruct (chan_pos_from_marks ms ty m (0 + length (mk_chans en)) Hf) as (i & Hp & Hn).
    exists (0 + length (mk_chans en) + i)%nat, (mark_chan m). split; [exact Hp|]. split; [|split; reflexivity].
    rewrite nth_error_app2 by lia. replace (0 + length (mk_chans en) + i - length (mk_chans en))%nat with i by lia.
    rewrite mark_chans_map. now apply map_nth_error.
  - intros k k' sp sp' Hk Hk' Hm Hm' Hi. rewrite Hcs in Hk, Hk'.
    destruct (mark_part _ _ _ _ NM Hk Hm) as (i & m & -> & Hn & ->).
    destruct (mark_part _ _ _ _ NM Hk' Hm') as (i' & m' & -> & Hn' & ->).
    cbn [mark_chan cs_index] in Hi. f_equal.
    apply (proj1 (NoDup_nth_error (map mt_type ms)) Nd).
    + rewrite map_length. eapply nth_error_lt; eauto.
    + rewrite (map_nth_error mt_type _ _ Hn), (map_nth_error mt_type _ _ Hn'). now rewrite Hi.
  - intros k sp Hk Hm. rewrite Hcs in Hk. destruct (mark_part _ _ _ _ NM Hk Hm) as (i & m & _ & Hn & ->).
    exists m. split; [eapply nth_error_In; eauto|reflexivity].
Qed.

(* ---------------------------------------------------------------- one thread: kinds_ready implies mkinds_ready *)

Lemma kind_step_mark ms cpus S a ty v :
  kind_step ms cpus S (KMark a ty v) =
  match mark_step ms (sc_stk S) a ty v with Some g => Some (mkScan (sc_ts S) g) | None => None end.
Proof.
  unfold kind_step, mark_step. destruct (v =? 0); [reflexivity|]. destruct (find_mt ms ty) as [m|]; [|reflexivity].
  destruct a; try reflexivity.
  - destruct (mt_stack m && negb (Nat.leb MAX_CHAN_STACK (length (sc_stk S ty)))); reflexivity.
  - destruct (mt_stack m); [|reflexivity]. destruct (sc_stk S ty) as [|x rest]; [reflexivity|]. destruct (x =? v); reflexivity.
  - destruct (mt_stack m); [reflexivity|]. now destruct S.
Qed.

Lemma mark_step_ext ms stk stk' a ty v g :
  (forall i, stk' i = stk i) -> mark_step ms stk a ty v = Some g ->
  exists g', mark_step ms stk' a ty v = Some g' /\ forall i, g' i = g i.
Proof.
  intros E H. unfold mark_step in *. destruct (v =? 0); [discriminate H|]. destruct (find_mt ms ty) as [m|]; [|discriminate H].
  destruct a; try discriminate H; rewrite ?(E ty).
  - destruct (mt_stack m && negb (Nat.leb MAX_CHAN_STACK (length (stk ty)))); [|discriminate H]. injection H as <-.
    eexists. split; [reflexivity|]. intros i. unfold set_stk. destruct (i =? ty); [reflexivity|apply E].
  - destruct (mt_stack m); [|discriminate H]. destruct (stk ty) as [|x rest]; [discriminate H|]. destruct (x =? v); [|discriminate H].
    injection H as <-. eexists. split; [reflexivity|]. intros i. unfold set_stk. destruct (i =? ty); [reflexivity|apply E].
  - destruct (mt_stack m); [discriminate H|]. injection H as <-. eexists. split; [reflexivity|exact E].
Qed.

Lemma existsb_all_false {A} (f : A -> bool) l : (forall x, In x l -> f x = false) -> existsb f l = false.
Proof. intros H. induction l as [|a l IH]; cbn [existsb]; [reflexivity|]. rewrite (H a (or_introl eq_refl)), IH; [reflexivity|]. intros x Hx. apply H. now right. Qed.

Lemma check_single sx p : check sx [p] = Some [p].
Proof.
  unfold check. replace (s_oversub sx [p]) with false; [reflexivity|]. symmetry. unfold s_oversub.
  apply existsb_all_false. intros c _. unfold srunning. cbn [filter]. destruct (bound_running c p); cbn [length]; apply andb_false_r.
Qed.

(* a single scanner state against the state of the scanner of a one-thread trace *)
Definition Rel1 (S : scan) (fl : bool) (M : mscan) : Prop :=
  (exists oc, m_ss M = [(sc_ts S, oc)]) /\ m_fl M 0%nat = fl /\ forall i, m_stk M 0%nat i = sc_stk S i.

Lemma mkind_step_single sx ms ti cpus S fl M k S' fl' :
  s_threads sx = [ti] -> (forall idx, In idx cpus -> find_cpu sx (ti_loom ti) idx <> None) ->
  Rel1 S fl M ->
  kind_step ms cpus S k = Some S' ->
  kflush_scan fl [k] = Some fl' ->
  exists M', mkind_step sx ms M 0%nat k = Some M' /\ Rel1 S' fl' M'.
Proof.
  intros Hthr Hcpus ([oc Hss] & Hfl & Hstk) Hk Hf. unfold mkind_step. rewrite Hss. cbn [length Nat.ltb Nat.leb negb].
  destruct k as [e| |b|a ty v].
  - (* thread state event *)
    cbn [kflush_scan] in Hf. injection Hf as <-. cbn [kind_step] in Hk.
    assert (Hloom : thread_loom sx 0 = ti_loom ti) by (unfold thread_loom, nth_opt; now rewrite Hthr).
    unfold spec_step. cbn [nth_error]. rewrite Hloom.
    destruct e as [idx| | | | | |idx|idx tid]; try discriminate Hk.
    + destruct (memz idx cpus) eqn:Em; [|discriminate Hk].
      destruct (fsm (sc_ts S) (Execute idx)) as [ts'|] eqn:Ef; [|discriminate Hk]. injection Hk as <-.
      unfold memz in Em. apply existsb_exists in Em as (x & Hx & Ex). apply Z.eqb_eq in Ex. subst x.
      destruct (find_cpu sx (ti_loom ti) idx) as [c|] eqn:Ec; [|exfalso; now apply (Hcpus idx Hx)].
      cbn [update]. rewrite check_single. eexists. split; [reflexivity|]. split; [now exists (Some c)|split; assumption].
    + destruct (fsm (sc_ts S) End_) as [ts'|] eqn:Ef; [|discriminate Hk]. injection Hk as <-.
      cbn [update]. rewrite check_single. eexists. split; [reflexivity|]. split; [now exists None|split; assumption].
    + destruct (fsm (sc_ts S) Pause) as [ts'|] eqn:Ef; [|discriminate Hk]. injection Hk as <-.
      cbn [update]. rewrite check_single. eexists. split; [reflexivity|]. split; [now exists oc|split; assumption].
    + destruct (fsm (sc_ts S) Resume) as [ts'|] eqn:Ef; [|discriminate Hk]. injection Hk as <-.
      cbn [update]. rewrite check_single. eexists. split; [reflexivity|]. split; [now exists oc|split; assumption].
    + destruct (fsm (sc_ts S) Cool) as [ts'|] eqn:Ef; [|discriminate Hk]. injection Hk as <-.
      cbn [update]. rewrite check_single. eexists. split; [reflexivity|]. split; [now exists oc|split; assumption].
    + destruct (fsm (sc_ts S) Warm) as [ts'|] eqn:Ef; [|discriminate Hk]. injection Hk as <-.
      cbn [update]. rewrite check_single. eexists. split; [reflexivity|]. split; [now exists oc|split; assumption].
  - cbn [kflush_scan] in Hf. injection Hf as <-. injection Hk as <-.
    eexists. split; [reflexivity|]. split; [now exists oc|split; assumption].
  - injection Hk as <-. rewrite Hfl.
    assert (E : Bool.eqb fl b = false /\ fl' = b).
    { cbn [kflush_scan] in Hf. destruct b, fl; try discriminate Hf; injection Hf as <-; split; reflexivity. }
    destruct E as [-> ->]. eexists. split; [reflexivity|]. cbn [m_ss m_fl m_stk].
    split; [now exists oc|split; [apply set_at_same|exact Hstk]].
  - cbn [kflush_scan] in Hf. injection Hf as <-. rewrite kind_step_mark in Hk.
    destruct (mark_step ms (sc_stk S) a ty v) as [g|] eqn:Em; [|discriminate Hk]. injection Hk as <-.
    destruct (mark_step_ext ms (sc_stk S) (m_stk M 0%nat) a ty v g Hstk Em) as (g' & -> & Hg).
    eexists. split; [reflexivity|]. cbn [m_ss m_fl m_stk sc_ts sc_stk].
    split; [now exists oc|split; [exact Hfl|]]. intros i. cbn [m_stk sc_stk]. rewrite set_at_same. apply Hg.
Qed.

Lemma kflush_scan_cons fl k ks fl' :
  kflush_scan fl (k :: ks) = Some fl' -> exists fl1, kflush_scan fl [k] = Some fl1 /\ kflush_scan fl1 ks = Some fl'.
Proof.
  cbn [kflush_scan]. destruct k as [e| |b|a ty v]; try (intros H; exists fl; now split).
  destruct b, fl; intros H; try discriminate H; eexists; (split; [reflexivity|exact H]).
Qed.

Definition thread0 (tks : list (Z * kind)) : list (Z * nat * kind) := map (fun tk => (fst tk, 0%nat, snd tk)) tks.

Lemma mkinds_scan_single sx ms ti cpus :
  s_threads sx = [ti] -> (forall idx, In idx cpus -> find_cpu sx (ti_loom ti) idx <> None) ->
  forall tks S fl M S' fl',
  Rel1 S fl M ->
  kinds_scan ms cpus S (map snd tks) = Some S' -> kflush_scan fl (map snd tks) = Some fl' ->
  exists M', mkinds_scan sx ms M (thread0 tks) = Some M' /\ Rel1 S' fl' M'.
Proof.
  intros Hthr Hcpus. induction tks as [|[tm k] tks IH]; intros S fl M S' fl' R Hk Hf; cbn [map snd kinds_scan thread0 mkinds_scan fst] in *.
  - injection Hk as <-. injection Hf as <-. exists M. now split.
  - destruct (kind_step ms cpus S k) as [S1|] eqn:E1; [|discriminate Hk].
    destruct (kflush_scan_cons fl k (map snd tks) fl' Hf) as (fl1 & Hf1 & Hf2).
    destruct (mkind_step_single sx ms ti cpus S fl M k S1 fl1 Hthr Hcpus R E1 Hf1) as (M1 & -> & R1).
    exact (IH S1 fl1 M1 S' fl' R1 Hk Hf2).
Qed.

(* B for one thread, as the composition uses it: thread 0 is the only thread of the trace *)
Theorem core_accepts sx ms ti cpus lintchans tks :
  MStatic sx ms -> s_threads sx = [ti] ->
  (forall idx, In idx cpus -> find_cpu sx (ti_loom ti) idx <> None) ->
  kinds_ready ms cpus (s_lint sx) (map snd tks) = true ->
  exists ls, run sx lintchans (kinds_events (s_chans sx) tks) = Ok ls.
Proof.
  intros MS Hthr Hcpus H.
  assert (Ev : kinds_events (s_chans sx) tks = mkinds_events (s_chans sx) (thread0 tks)).
  { unfold kinds_events, mkinds_events, thread0. rewrite map_map. reflexivity. }
  rewrite Ev. apply (core_accepts_multi sx ms lintchans (thread0 tks) MS).
  unfold kinds_ready in H. apply andb_prop in H as [Hf Hm].
  destruct (kflush_scan false (map snd tks)) as [fl'|] eqn:Ef; [|discriminate Hf].
  unfold main_ok in Hm. destruct (kinds_scan ms cpus scan0 (map snd tks)) as [S'|] eqn:Es; [|discriminate Hm].
  assert (R0 : Rel1 scan0 false (mscan0 sx)).
  { split; [exists None; cbn [mscan0 m_ss scan0 sc_ts]; unfold spec_init; now rewrite Hthr|split; reflexivity]. }
  destruct (mkinds_scan_single sx ms ti cpus Hthr Hcpus tks scan0 false (mscan0 sx) S' fl' R0 Es Ef) as (M' & EM & ([oc Hss] & _ & Hstk)).
  unfold mkinds_ready. rewrite EM. unfold scan_final in Hm. unfold mscan_final. rewrite Hss. cbn [forallb fst length seq].
  apply andb_prop in Hm as [Hd Hl]. rewrite Hd. cbn [andb]. destruct (s_lint sx); [|reflexivity]. cbn [negb orb] in *.
  rewrite andb_true_r. unfold stacks_empty in Hl. rewrite forallb_forall in Hl. apply forallb_forall. intros m Hm.
  rewrite Hstk. now apply Hl.
Qed.

(* ================================================================ part 3: decoding and composition *)

Lemma decode_all_ovni en cs c v p j aux :
  memz M_OVNI en = true ->
  decode_all en cs M_OVNI c v p j aux = if c =? 77 then decode_mark cs v p else decode_ovni cs c v p.
Proof.
  intros He. unfold decode_all. change (M_OVNI =? M_OVNI) with true. cbn [andb]. rewrite He.
  destruct (c =? 77); [reflexivity|]. unfold decode_full. rewrite He. cbn [negb]. unfold decode_task.
  change (M_OVNI =? M_NOSV) with false. change (M_OVNI =? M_NANOS6) with false. cbv iota.
  unfold decode. rewrite He. change (M_OVNI =? M_OVNI) with true. reflexivity.
Qed.

(* decode_all makes of an event on disk exactly the event of its kind *)
Theorem decode_kind en cs e k :
  memz M_OVNI en = true -> uev_kind e = Some k ->
  decode_all en cs (u_m e) (u_c e) (u_v e) (payload_of e) (u_jumbo e) 0 = kind_event cs k.
Proof.
  intros He H. unfold uev_kind in H. cbv zeta in H.
  destruct (u_m e =? 79) eqn:Em; [|discriminate H]. apply Z.eqb_eq in Em. rewrite Em. cbn [negb] in H.
  change 79 with M_OVNI. rewrite (decode_all_ovni en cs _ _ _ _ _ He).
  set (c := u_c e) in *. set (v := u_v e) in *. set (p := payload_of e) in *. set (j := u_jumbo e) in *. clearbody c v p j.
  destruct (c =? 72) eqn:E72.
  { apply Z.eqb_eq in E72. subst c. unfold decode_ovni. cbn [Z.eqb Pos.eqb].
    destruct (v =? 120).
    { destruct (j || Nat.ltb (length p) 4) eqn:Ej; [discriminate H|]. injection H as <-. apply orb_false_elim in Ej as [_ ->]. reflexivity. }
    destruct (v =? 101); [injection H as <-; reflexivity|].
    destruct (v =? 112); [injection H as <-; reflexivity|].
    destruct (v =? 114); [injection H as <-; reflexivity|].
    destruct (v =? 99); [injection H as <-; reflexivity|].
    destruct (v =? 119); [injection H as <-; reflexivity|].
    destruct (v =? 67); [injection H as <-; reflexivity|discriminate H]. }
  destruct (c =? 66) eqn:E66.
  { apply Z.eqb_eq in E66. subst c. cbn [orb] in H. injection H as <-. unfold decode_ovni. cbn [Z.eqb Pos.eqb]. reflexivity. }
  destruct (c =? 85) eqn:E85.
  { apply Z.eqb_eq in E85. subst c. cbn [orb] in H. injection H as <-. unfold decode_ovni. cbn [Z.eqb Pos.eqb]. reflexivity. }
  cbn [orb] in H.
  destruct (c =? 67) eqn:E67.
  { apply Z.eqb_eq in E67. subst c. unfold decode_ovni. cbn [Z.eqb Pos.eqb].
    destruct (v =? 110); [injection H as <-; reflexivity|discriminate H]. }
  destruct (c =? 70) eqn:E70.
  { apply Z.eqb_eq in E70. subst c. unfold decode_ovni. cbn [Z.eqb Pos.eqb].
    destruct (v =? 91); [injection H as <-; cbn [kind_event]; destruct (chan_pos cs M_OVNI Tables_gen.c_ovni_CH_FLUSH); reflexivity|].
    destruct (v =? 93); [injection H as <-; cbn [kind_event]; destruct (chan_pos cs M_OVNI Tables_gen.c_ovni_CH_FLUSH); reflexivity|discriminate H]. }
  destruct (c =? 77) eqn:E77; [|discriminate H].
  unfold decode_mark. destruct (negb (Nat.eqb (length p) 12)); [discriminate H|].
  destruct (le_i64 p 0 =? 0) eqn:E0; [discriminate H|].
  destruct (v =? 91); [injection H as <-; reflexivity|].
  destruct (v =? 93); [injection H as <-; reflexivity|].
  destruct (v =? 61); [injection H as <-; reflexivity|discriminate H].
Qed.

Lemma decode_uevs en cs : memz M_OVNI en = true -> forall es ks,
  uevs_kinds es = Some ks ->
  exists tks, map snd tks = ks /\ map (fun e => decode_raw en cs (raw_of_uev e)) es = kinds_events cs tks.
Proof.
  intros He. induction es as [|e es IH]; intros ks H; cbn [uevs_kinds] in H.
  - injection H as <-. exists []. split; reflexivity.
  - destruct (uev_kind e) as [k|] eqn:Ek; [|discriminate H]. destruct (uevs_kinds es) as [ks'|]; [|discriminate H]. injection H as <-.
    destruct (IH ks' eq_refl) as (tks & Hs & Hm). exists ((u_clock e, k) :: tks). split; [cbn [map snd]; now rewrite Hs|].
    cbn [map kinds_events fst snd]. fold (kinds_events cs tks). rewrite <- Hm. f_equal.
    unfold decode_raw, raw_of_uev. now rewrite (decode_kind en cs e k He Ek).
Qed.

(* C: the bytes a conformant emulator-ready program leaves on disk are accepted by the stream loader,
   and the events it delivers, decoded by decode_all, are accepted by the emulator core *)
Theorem conformant_accepted cap ops clock s log sx en ms ti cpus lintchans junk :
  64 <= cap -> cap <= 2 ^ 31 ->
  forallb op_wfb ops = true -> clock_okb clock = true -> clock_i63b clock = true ->
  emu_ready ms cpus (s_lint sx) ops = true ->
  RtBufDefs.run true cap (ops ++ [Flush; Free]) clock = RtBufDefs.ROk (s, log) ->
  LoaderPre.blen (disk_bytes s) < 2 ^ 63 ->
  In en (sublists all_models) -> memz M_OVNI en = true ->
  s_chans sx = mk_chans en ++ mark_chans ms ->
  NoDup (map mt_type ms) -> (forall m, In m ms -> 0 <= mt_type m) ->
  s_threads sx = [ti] -> ti_tid ti <> 0 -> ti_pid ti <> 0 ->
  (forall idx, In idx cpus -> find_cpu sx (ti_loom ti) idx <> None) ->
  exists recs ls,
    StreamDefs.run (disk_bytes s) junk false = StreamDefs.Run StreamDefs.VEnd recs /\
    EmuCoreDefs.run sx lintchans (decode_stream en (s_chans sx) (disk_bytes s) recs) = Ok ls.
Proof.
  intros Hcap Hcap2 WF CK C63 ER H Hlen Hen Hov Hcs Nd Hpos Hthr Htid Hpid Hcpus.
  destruct (disk_kinds cap ops clock s log ms cpus (s_lint sx) Hcap Hcap2 WF CK C63 ER H)
    as (es & ks & Hd & Hwf & H63 & Hsz & Hsort & Hk & Hready).
  assert (MS : MStatic sx ms).
  { apply (mstatic_of_trace sx en ms Hen Hov Hcs Nd Hpos). intros ti' Hin. rewrite Hthr in Hin. destruct Hin as [<-|[]]. now split. }
  destruct (decode_uevs en (s_chans sx) Hov es ks Hk) as (tks & Hs & Hm).
  rewrite <- Hs in Hready.
  destruct (core_accepts sx ms ti cpus lintchans tks MS Hthr Hcpus Hready) as [ls Hrun].
  exists (layout 8 es), ls. split.
  - apply (proj2 (StreamProofs.run_accept_iff (disk_bytes s) junk false (layout 8 es) Hlen)).
    rewrite Hd. exact (bridge_valid es Hwf H63 Hsz Hsort).
  - unfold decode_stream. rewrite <- (map_map (raw_at (disk_bytes s)) (decode_raw en (s_chans sx))).
    rewrite Hd, (bridge_raw es Hwf), map_map, Hm. exact Hrun.
Qed.

(* ================================================================ what emu_ready means, call by call *)

Ltac Zify.zify_post_hook ::= Z.div_mod_to_equations.

(* OU? and OB? with any value byte and any payload, normal or jumbo: ignored *)
Lemma op_kinds_unordered v chunks : op_kinds (Emit 79 85 v chunks) = Some [KNop].
Proof. reflexivity. Qed.
Lemma op_kinds_burst v chunks : op_kinds (Emit 79 66 v chunks) = Some [KNop].
Proof. reflexivity. Qed.
Lemma op_kinds_unordered_jumbo v data : op_kinds (JumboEmit 79 85 v data) = Some [KNop].
Proof. reflexivity. Qed.
Lemma op_kinds_burst_jumbo v data : op_kinds (JumboEmit 79 66 v data) = Some [KNop].
Proof. reflexivity. Qed.

(* OHx with a payload of at least 4 bytes (documented: 16 = cpu, creator tid, tag) whose first int32 is the CPU index *)
Lemma op_kinds_execute chunks :
  (4 <= length (concat chunks))%nat ->
  op_kinds (Emit 79 72 120 chunks) = Some [KOh (Execute (le_i32 (concat chunks) 0))].
Proof.
  intros H. unfold op_kinds, op_uev, uev_kind. cbv zeta. cbn [u_m u_c u_v u_jumbo u_data payload_of Z.eqb Pos.eqb negb orb].
  destruct (Nat.ltb (length (concat chunks)) 4) eqn:E; [apply Nat.ltb_lt in E; lia|reflexivity].
Qed.
Lemma op_kinds_end chunks : op_kinds (Emit 79 72 101 chunks) = Some [KOh End_].
Proof. reflexivity. Qed.
Lemma op_kinds_pause chunks : op_kinds (Emit 79 72 112 chunks) = Some [KOh Pause].
Proof. reflexivity. Qed.
Lemma op_kinds_resume chunks : op_kinds (Emit 79 72 114 chunks) = Some [KOh Resume].
Proof. reflexivity. Qed.
Lemma op_kinds_cool chunks : op_kinds (Emit 79 72 99 chunks) = Some [KOh Cool].
Proof. reflexivity. Qed.
Lemma op_kinds_warm chunks : op_kinds (Emit 79 72 119 chunks) = Some [KOh Warm].
Proof. reflexivity. Qed.

(* ovni_flush() is allowed anywhere; forged OF* events, events of other models, affinity events and
   ovni_thread_free() in the middle are not emulator-ready *)
Lemma op_kinds_flush : op_kinds Flush = Some [].
Proof. reflexivity. Qed.
Lemma op_kinds_free : op_kinds Free = None.
Proof. reflexivity. Qed.
Lemma op_kinds_forged_flush v chunks : op_kinds (Emit 79 70 v chunks) = None.
Proof.
  unfold op_kinds, op_uev, uev_kind. cbv zeta. cbn [u_m u_c u_v u_jumbo u_data payload_of Z.eqb Pos.eqb negb orb].
  destruct (v =? 91); [reflexivity|]. destruct (v =? 93); reflexivity.
Qed.
Lemma op_kinds_other_model m c v chunks : m <> 79 -> op_kinds (Emit m c v chunks) = None.
Proof.
  intros H. unfold op_kinds, op_uev, uev_kind. cbv zeta. cbn [u_m]. apply Z.eqb_neq in H. now rewrite H.
Qed.

(* the mark calls: the bytes of (value, type) decode to the arguments of the call *)
Lemma mark_payload_decode ty va :
  - 2 ^ 31 <= ty < 2 ^ 31 -> - 2 ^ 63 <= va < 2 ^ 63 ->
  length (concat (mark_payload ty va)) = 12%nat /\
  le_i64 (concat (mark_payload ty va)) 0 = va /\ le_i32 (concat (mark_payload ty va)) 8 = ty.
Proof.
  intros Ht Hv. unfold mark_payload. cbn [concat le_bytes app]. split; [reflexivity|].
  unfold le_i64, le_i32, le_u32, byte_at. cbn [nth Nat.add]. split.
  - match goal with |- (if ?u <? _ then _ else _) = _ => set (x := u) end.
    assert (E : x = va mod 2 ^ 64) by (unfold x; lia).
    destruct (x <? 9223372036854775808) eqn:El; lia.
  - match goal with |- (if ?u <? _ then _ else _) = _ => set (x := u) end.
    assert (E : x = ty mod 2 ^ 32) by (unfold x; lia).
    destruct (x <? 2147483648) eqn:El; lia.
Qed.

Lemma mark_kind v a ty va :
  - 2 ^ 31 <= ty < 2 ^ 31 -> - 2 ^ 63 <= va < 2 ^ 63 ->
  (v = c_LB /\ a = PUSH) \/ (v = c_RB /\ a = POP) \/ (v = c_EQ /\ a = SET) ->
  uev_kind (mkU false c_O c_M v 0 (concat (mark_payload ty va))) = if va =? 0 then None else Some (KMark a ty va).
Proof.
  intros Ht Hv Hva. destruct (mark_payload_decode ty va Ht Hv) as (L & E64 & E32).
  unfold uev_kind. cbv zeta. cbn [u_m u_c u_v u_jumbo u_data payload_of]. rewrite L, E64, E32.
  change (c_O =? 79) with true. change (c_M =? 72) with false. change (c_M =? 66) with false. change (c_M =? 85) with false.
  change (c_M =? 67) with false. change (c_M =? 70) with false. change (c_M =? 77) with true.
  cbn [negb orb Nat.eqb]. destruct (va =? 0); [reflexivity|].
  destruct Hva as [[-> ->]|[[-> ->]|[-> ->]]]; reflexivity.
Qed.

Lemma op_kinds_mark_push ty va : op_wfb (MarkPush ty va) = true ->
  op_kinds (MarkPush ty va) = if va =? 0 then None else Some [KMark PUSH ty va].
Proof.
  intros W. cbn [op_wfb] in W. unfold op_kinds, op_uev. rewrite (mark_kind c_LB PUSH ty va); [|lia|lia|tauto].
  destruct (va =? 0); reflexivity.
Qed.
Lemma op_kinds_mark_pop ty va : op_wfb (MarkPop ty va) = true ->
  op_kinds (MarkPop ty va) = if va =? 0 then None else Some [KMark POP ty va].
Proof.
  intros W. cbn [op_wfb] in W. unfold op_kinds, op_uev. rewrite (mark_kind c_RB POP ty va); [|lia|lia|tauto].
  destruct (va =? 0); reflexivity.
Qed.
Lemma op_kinds_mark_set ty va : op_wfb (MarkSet ty va) = true ->
  op_kinds (MarkSet ty va) = if va =? 0 then None else Some [KMark SET ty va].
Proof.
  intros W. cbn [op_wfb] in W. unfold op_kinds, op_uev. rewrite (mark_kind c_EQ SET ty va); [|lia|lia|tauto].
  destruct (va =? 0); reflexivity.
Qed.

(* ================================================================ the hypothesis on the clock is needed *)

(* C02_valid_stream_always allows clock values up to 2^64 - 1; the emulator reads the clock as int64_t
   (stream.c), so a conformant program whose ovni_clock_now() returns 2^63 gets a valid stream that the
   loader rejects (clock goes backwards from 0): conformant_accepted is false without clock_i63b *)
Lemma accepted_needs_i63_refuted :
  exists cap ops clock,
    64 <= cap /\ cap <= 2 ^ 31 /\ forallb op_wfb ops = true /\ clock_okb clock = true /\
    emu_ready [] [0] true ops = true /\
    match RtBufDefs.run true cap (ops ++ [Flush; Free]) clock with
    | RtBufDefs.ROk (s, _) =>
      valid_stream (disk_bytes s) = true /\
      StreamDefs.accepted (StreamDefs.run (disk_bytes s) StreamProofs.zero_junk false) = false
    | _ => False
    end.
Proof.
  exists 64, [Emit 79 72 120 [[0; 0; 0; 0]; [255; 255; 255; 255]; [0; 0; 0; 0; 0; 0; 0; 0]]; Emit 79 72 101 []],
         (repeat (2 ^ 63) 12).
  vm_compute. repeat split; congruence.
Qed.

Lemma nil_in_sublists {A} (l : list A) : In [] (sublists l).
Proof. induction l as [|x l IH]; cbn [sublists]; [now left|]. apply in_or_app. now left. Qed.

Lemma self_in_sublists {A} (l : list A) : In l (sublists l).
Proof. induction l as [|x l IH]; cbn [sublists]; [now left|]. apply in_or_app. right. now apply in_map. Qed.

Lemma ovni_only_in_sublists : In [M_OVNI] (sublists all_models).
Proof.
  change (In [M_OVNI] (sublists (tl all_models) ++ map (cons M_OVNI) (sublists (tl all_models)))).
  apply in_or_app. right. apply in_map. apply nil_in_sublists.
Qed.


(* ================================================================ the mark types the emulator builds from the metadata *)

(* whatever the threads declared, the merged list (mark.c: mark_create) has distinct types in 0..99:
   the hypotheses on ms of conformant_accepted hold for every ms the emulator accepts *)
Lemma find_mt_none l t : find_mt l t = None -> ~ In t (map mt_type l).
Proof.
  induction l as [|d l IH]; cbn [find_mt map In]; [tauto|]. destruct (mt_type d =? t) eqn:E; [discriminate|].
  intros H [H1|H1]; [apply Z.eqb_neq in E; contradiction|now apply IH].
Qed.

Lemma find_mt_some l t m : find_mt l t = Some m -> mt_type m = t /\ In m l.
Proof.
  induction l as [|d l IH]; cbn [find_mt In]; [discriminate|]. destruct (mt_type d =? t) eqn:E.
  - intros H. injection H as <-. apply Z.eqb_eq in E. split; [exact E|now left].
  - intros H. destruct (IH H). split; [assumption|now right].
Qed.

Lemma replace_mt_types l m : map mt_type (replace_mt l m) = map mt_type l.
Proof.
  induction l as [|d l IH]; cbn [replace_mt map]; [reflexivity|]. destruct (mt_type d =? mt_type m) eqn:E; cbn [map].
  - apply Z.eqb_eq in E. now rewrite E.
  - now rewrite IH.
Qed.

Definition types_fine (l : list mtype) : Prop := NoDup (map mt_type l) /\ forall t, In t (map mt_type l) -> 0 <= t < 100.

Lemma merge_def_types acc d acc' : merge_def acc d = Some acc' -> types_fine acc -> types_fine acc'.
Proof.
  unfold merge_def. intros H [Nd Hb].
  destruct ((md_type d <? 0) || (100 <=? md_type d)) eqn:Er; [discriminate H|].
  apply orb_false_elim in Er as [E1 E2]. apply Z.ltb_ge in E1. apply Z.leb_gt in E2.
  destruct (find_mt acc (md_type d)) as [m|] eqn:Ef.
  - destruct (negb (str_eqb (mt_title m) (md_title d))); [discriminate H|].
    destruct (negb (Bool.eqb (mt_stack m) (md_stack d))); [discriminate H|].
    destruct (merge_labels (mt_labels m) (md_labels d)) as [ls|]; [|discriminate H]. injection H as <-.
    unfold types_fine. rewrite replace_mt_types. now split.
  - destruct (merge_labels [] (md_labels d)) as [ls|]; [|discriminate H]. injection H as <-.
    unfold types_fine. rewrite map_app. cbn [map mt_type]. split.
    + apply NoDup_app_disjoint; [exact Nd|repeat constructor; intros []|].
      intros b Hb1 [<-|[]]. now apply (find_mt_none acc (md_type d) Ef).
    + intros t Ht. apply in_app_or in Ht as [Ht|[<-|[]]]; [now apply Hb|lia].
Qed.

Lemma merge_defs_types ds : forall acc ms, merge_defs acc ds = Some ms -> types_fine acc -> types_fine ms.
Proof.
  induction ds as [|d ds IH]; intros acc ms H F; cbn [merge_defs] in H; [now injection H as <-|].
  destruct (merge_def acc d) as [acc'|] eqn:E; [|discriminate H]. exact (IH acc' ms H (merge_def_types acc d acc' E F)).
Qed.

Theorem merged_mark_types_fine ths ms :
  merge_threads ths = Some ms -> NoDup (map mt_type ms) /\ forall m, In m ms -> 0 <= mt_type m.
Proof.
  intros H. destruct (merge_defs_types (concat ths) [] ms H) as [Nd Hb].
  - split; [constructor|intros t []].
  - split; [exact Nd|]. intros m Hm. apply (Hb (mt_type m)). now apply in_map.
Qed.
