(* C17, the JSON leg: the tree the runtime's mark calls write is the canonical encoding of rt_defs, the
   emulator-side reader gives rt_defs back, the composition runtime -> stream.json -> merged types, what
   hand-made metadata the reader refuses (and what it does not), user attributes do not interfere, the PCF sections
   for all int64 label values, and the (int) truncation of label values of the code before the repair. *)
From OV Require Import Base.CInt Emu.LoaderMetaDefs Emu.VersionDefs Emu.MarkDefs Proofs.MarkProofs Rt.RtMetaDefs Rt.MarkJsonDefs
  Proofs.RtMetaProofs.
From Coq Require Import ZifyBool.
Local Open Scope Z_scope.
Ltac Zify.zify_post_hook ::= Z.div_mod_to_equations.

(* ------------------------------------------------------------------ numbers: strtol (printf "%d" z) = z *)
Lemma rdigits_len f : forall n, (length (rdigits f n) <= f)%nat.
Proof.
  induction f as [|f IH]; intros n; cbn [rdigits]; [cbn; lia|].
  destruct (n <? 10); cbn [length]; [lia|]. specialize (IH (n / 10)). lia.
Qed.

Lemma rdigits_digit f : forall n, 0 <= n -> forallb is_digit (rdigits f n) = true.
Proof.
  induction f as [|f IH]; intros n H; cbn [rdigits]; [reflexivity|].
  destruct (n <? 10) eqn:E; cbn [forallb].
  - unfold is_digit. lia.
  - rewrite IH by lia. unfold is_digit. lia.
Qed.

Lemma rdigits_ne f n : rdigits (S f) n <> [].
Proof. cbn [rdigits]. destruct (n <? 10); discriminate. Qed.

Definition rval (l : list Z) : Z := fold_right (fun c a => a * 10 + (c - 48)) 0 l.

Lemma rdigits_val f : forall n, 0 <= n < 10 ^ Z.of_nat f -> rval (rdigits f n) = n.
Proof.
  induction f as [|f IH]; intros n H.
  - change (10 ^ Z.of_nat 0) with 1 in H. unfold rval. cbn [rdigits fold_right]. lia.
  - rewrite Nat2Z.inj_succ, Z.pow_succ_r in H by lia. cbn [rdigits].
    destruct (n <? 10) eqn:E.
    + unfold rval. cbn [fold_right]. lia.
    + change (rval ((48 + n mod 10) :: rdigits f (n / 10))) with (rval (rdigits f (n / 10)) * 10 + (48 + n mod 10 - 48)).
      rewrite IH by lia. lia.
Qed.

Lemma digits_val_rev l : digits_val (rev l) = rval l.
Proof.
  unfold digits_val, rval. rewrite <- (rev_involutive l) at 2. rewrite fold_left_rev_right. reflexivity.
Qed.

Lemma forallb_rev {A} (f : A -> bool) l : forallb f (rev l) = forallb f l.
Proof.
  destruct (forallb f l) eqn:E.
  - apply forallb_forall. intros x Hx. apply in_rev in Hx. rewrite forallb_forall in E. auto.
  - destruct (forallb f (rev l)) eqn:E2; [|reflexivity].
    rewrite <- E. symmetry. apply forallb_forall. intros x Hx. rewrite forallb_forall in E2. apply E2. apply in_rev. rewrite rev_involutive. exact Hx.
Qed.

Lemma render_nonneg z : 0 <= z -> render_int z = rev (rdigits 20 z).
Proof. intros H. unfold render_int. destruct (z <? 0) eqn:E; [lia|reflexivity]. Qed.

Lemma render_digits z : 0 <= z -> forallb is_digit (render_int z) = true.
Proof. intros H. rewrite render_nonneg by exact H. rewrite forallb_rev. apply rdigits_digit. exact H. Qed.

Lemma render_ne z : render_int z <> [].
Proof.
  unfold render_int. destruct (z <? 0); [discriminate|].
  intros E. apply (f_equal (@length Z)) in E. rewrite rev_length in E.
  pose proof (rdigits_ne 19 z) as N. destruct (rdigits 20 z); [contradiction|discriminate].
Qed.

Lemma render_len z : (length (render_int z) <= 21)%nat.
Proof.
  unfold render_int. destruct (z <? 0); cbn [length]; rewrite rev_length.
  - pose proof (rdigits_len 20 (- z)). lia.
  - pose proof (rdigits_len 20 z). lia.
Qed.

Lemma parse_digits_string s : s <> [] -> forallb is_digit s = true ->
  parse_number s = if digits_val s <? 2 ^ 63 then Some (digits_val s) else None.
Proof.
  intros N D. destruct s as [|c r]; [contradiction|]. clear N.
  assert (Hc : is_digit c = true) by (cbn [forallb] in D; apply andb_true_iff in D; tauto).
  unfold parse_number. cbn [skip_spaces].
  assert (E1 : is_space c = false) by (unfold is_space, is_digit in *; lia). rewrite E1.
  assert (E2 : (c =? 45) = false) by (unfold is_digit in Hc; lia).
  assert (E3 : (c =? 43) = false) by (unfold is_digit in Hc; lia). rewrite E2, E3, D.
  assert (P : 0 <= digits_val (c :: r)).
  { unfold digits_val. generalize (c :: r) D. intros l. assert (G : forall a, 0 <= a -> forallb is_digit l = true -> 0 <= fold_left (fun a c => a * 10 + (c - 48)) l a).
    { induction l as [|x l IH]; intros a Ha Hl; cbn [fold_left]; [exact Ha|].
      cbn [forallb] in Hl. apply andb_true_iff in Hl. destruct Hl as [Hx Hl]. apply IH; [unfold is_digit in Hx; lia|exact Hl]. }
    apply G. lia. }
  destruct (digits_val (c :: r) <? 2 ^ 63) eqn:E4.
  - assert (E5 : (- 2 ^ 63 <=? digits_val (c :: r)) = true) by lia. rewrite E5. reflexivity.
  - rewrite andb_false_r. reflexivity.
Qed.

Lemma parse_render z : 0 <= z < 2 ^ 63 -> parse_number (render_int z) = Some z.
Proof.
  intros H. rewrite parse_digits_string; [|apply render_ne|apply render_digits; lia].
  rewrite render_nonneg by lia. rewrite digits_val_rev, rdigits_val.
  - destruct (z <? 2 ^ 63) eqn:E; [reflexivity|lia].
  - change (10 ^ Z.of_nat 20) with 100000000000000000000. lia.
Qed.

Lemma render_inj a b : 0 <= a < 2 ^ 63 -> 0 <= b < 2 ^ 63 -> render_int a = render_int b -> a = b.
Proof.
  intros Ha Hb E. pose proof (parse_render a Ha) as Pa. rewrite E, (parse_render b Hb) in Pa. congruence.
Qed.

Lemma render_eq_dec a b : 0 <= a < 2 ^ 63 -> 0 <= b < 2 ^ 63 ->
  (if str_dec (render_int a) (render_int b) then true else false) = (a =? b).
Proof.
  intros Ha Hb. destruct (str_dec (render_int a) (render_int b)) as [E|E].
  - apply render_inj in E; [|exact Ha|exact Hb]. lia.
  - destruct (a =? b) eqn:E2; [|reflexivity]. exfalso. apply E. f_equal. lia.
Qed.

(* ------------------------------------------------------------------ the dotted names the runtime builds *)
Definition nodot (s : str) : bool := forallb (fun c => negb (c =? DOTC)) s.

Lemma split_ne_nodot a : nodot a = true -> split_dots_ne a = (a, []).
Proof.
  induction a as [|c r IH]; cbn [split_dots_ne nodot forallb]; [reflexivity|].
  intros H. apply andb_true_iff in H. destruct H as [Hc Hr]. rewrite (IH Hr).
  destruct (c =? DOTC); [discriminate|reflexivity].
Qed.

Lemma split_ne_dotted a b : nodot a = true -> split_dots_ne (dotted a b) = (a, split_dots b).
Proof.
  unfold dotted, split_dots. induction a as [|c r IH]; cbn [app split_dots_ne nodot forallb].
  - intros _. destruct (split_dots_ne b). rewrite Z.eqb_refl. reflexivity.
  - intros H. apply andb_true_iff in H. destruct H as [Hc Hr]. rewrite (IH Hr).
    destruct (c =? DOTC); [discriminate|reflexivity].
Qed.

Lemma split_dotted a b : nodot a = true -> split_dots (dotted a b) = a :: split_dots b.
Proof. intros H. unfold split_dots at 1. rewrite split_ne_dotted by exact H. reflexivity. Qed.
Lemma split_nodot a : nodot a = true -> split_dots a = [a].
Proof. intros H. unfold split_dots. rewrite split_ne_nodot by exact H. reflexivity. Qed.

Lemma dotted_assoc a b c : dotted (dotted a b) c = dotted a (dotted b c).
Proof. unfold dotted. rewrite <- app_assoc. reflexivity. Qed.

Lemma digit_nodot s : forallb is_digit s = true -> nodot s = true.
Proof.
  unfold nodot. induction s as [|c r IH]; cbn [forallb]; [reflexivity|].
  intros H. apply andb_true_iff in H. destruct H as [Hc Hr]. rewrite (IH Hr).
  unfold is_digit, DOTC in *. lia.
Qed.
Lemma render_nodot z : 0 <= z -> nodot (render_int z) = true.
Proof. intros H. apply digit_nodot, render_digits, H. Qed.

Lemma split_mark_key t : 0 <= t -> split_dots (mark_key t) = [k_ovni; k_mark; render_int t].
Proof.
  intros H. unfold mark_key. rewrite split_dotted by reflexivity. rewrite split_dotted by reflexivity.
  rewrite split_nodot by (apply render_nodot; exact H). reflexivity.
Qed.
Lemma split_mark_sub t k : 0 <= t -> nodot k = true -> split_dots (dotted (mark_key t) k) = [k_ovni; k_mark; render_int t; k].
Proof.
  intros H Hk. unfold mark_key. rewrite !dotted_assoc. rewrite split_dotted by reflexivity. rewrite split_dotted by reflexivity.
  rewrite split_dotted by (apply render_nodot; exact H). rewrite split_nodot by exact Hk. reflexivity.
Qed.
Lemma split_mark_label t v : 0 <= t -> 0 <= v ->
  split_dots (dotted (dotted (mark_key t) k_labels) (render_int v)) = [k_ovni; k_mark; render_int t; k_labels; render_int v].
Proof.
  intros H Hv. unfold mark_key. rewrite !dotted_assoc. rewrite split_dotted by reflexivity. rewrite split_dotted by reflexivity.
  rewrite split_dotted by (apply render_nodot; exact H). rewrite split_dotted by reflexivity.
  rewrite split_nodot by (apply render_nodot; exact Hv). reflexivity.
Qed.

Lemma slen_dotted a b : slen (dotted a b) = slen a + 1 + slen b.
Proof. unfold slen, dotted. rewrite app_length. cbn [length]. lia. Qed.
Lemma slen_render z : 0 < slen (render_int z) <= 21.
Proof. unfold slen. pose proof (render_len z). pose proof (render_ne z). destruct (render_int z); [contradiction|]. cbn [length] in *. lia. Qed.

Lemma keys_fit t v :
  (KEYBUF <=? slen (mark_key t)) = false /\ (KEYBUF <=? slen (dotted (mark_key t) k_title)) = false /\
  (KEYBUF <=? slen (dotted (mark_key t) k_chan_type)) = false /\
  (KEYBUF <=? slen (dotted (dotted (mark_key t) k_labels) (render_int v))) = false.
Proof.
  unfold mark_key. rewrite !slen_dotted. pose proof (slen_render t). pose proof (slen_render v).
  change (slen k_ovni) with 4. change (slen k_mark) with 4. change (slen k_title) with 5. change (slen k_chan_type) with 9.
  change (slen k_labels) with 6. unfold KEYBUF. lia.
Qed.

(* ------------------------------------------------------------------ below "ovni.mark": the tree calls as
   operations on the mark object *)
(* the current "ovni.mark" object as the dotted calls see it: absent = empty, a non-object blocks every call *)
Definition mcur (o : fields) : option fields :=
  match fget o k_mark with
  | Some (jobj m) => Some m
  | None => Some []
  | Some _ => None
  end.
Definition lift (fs o m' : fields) : fields := freplace fs k_ovni (jobj (fset o k_mark (jobj m'))).

Lemma pget_mark fs o q1 q : fget fs k_ovni = Some (jobj o) ->
  pget fs (k_ovni :: k_mark :: q1 :: q) = match mcur o with Some m => pget m (q1 :: q) | None => None end.
Proof.
  intros H. rewrite pget_cons2, H, pget_cons2. unfold mcur.
  destruct (fget o k_mark) as [[| | | | |m]|]; try reflexivity. rewrite pget_nil_fields. reflexivity.
Qed.

Lemma pset_mark fs o q1 q v : fget fs k_ovni = Some (jobj o) ->
  pset fs (k_ovni :: k_mark :: q1 :: q) v =
  match mcur o with
  | Some m => match pset m (q1 :: q) v with Some m' => Some (lift fs o m') | None => None end
  | None => None
  end.
Proof.
  intros H. rewrite pset_cons2, H, pset_cons2. unfold mcur, lift, fset.
  destruct (fget o k_mark) as [[| | | | |m]|]; try reflexivity.
  - destruct (pset m (q1 :: q) v); reflexivity.
  - destruct (pset [] (q1 :: q) v); reflexivity.
Qed.

Lemma lift_ovni fs o m' : fget fs k_ovni = Some (jobj o) ->
  fget (lift fs o m') k_ovni = Some (jobj (fset o k_mark (jobj m'))) /\ mcur (fset o k_mark (jobj m')) = Some m'.
Proof.
  intros H. split.
  - unfold lift. eapply fget_freplace_same. exact H.
  - unfold mcur. rewrite fget_fset_same. reflexivity.
Qed.

(* ------------------------------------------------------------------ the canonical encoding *)
Definition wf_labels (ls : list (Z * str)) : Prop := Forall (fun p => 0 < fst p < 2 ^ 63) ls.
Definition wf_def (d : mdef) : Prop := 0 <= md_type d < 100 /\ wf_labels (md_labels d).
Definition WF (ds : list mdef) : Prop := Forall wf_def ds.

Lemma str_dec_render {A} a b (x y : A) : 0 <= a < 2 ^ 63 -> 0 <= b < 2 ^ 63 ->
  (if str_dec (render_int a) (render_int b) then x else y) = if a =? b then x else y.
Proof.
  intros Ha Hb. pose proof (render_eq_dec a b Ha Hb) as E.
  destruct (str_dec (render_int a) (render_int b)); destruct (a =? b); congruence.
Qed.

Lemma fget_enc_defs ds t : WF ds -> 0 <= t < 2 ^ 63 ->
  fget (enc_defs ds) (render_int t) = match find_def ds t with Some d => Some (jobj (enc_body d)) | None => None end.
Proof.
  intros W Ht. induction W as [|a r Ha W IH]; [reflexivity|].
  cbn [enc_defs map fget find_def]. unfold enc_def at 1. destruct Ha as [Ha _].
  rewrite str_dec_render by lia. destruct (md_type a =? t); [reflexivity|exact IH].
Qed.

Lemma fget_enc_labels ls v : wf_labels ls -> 0 <= v < 2 ^ 63 ->
  fget (enc_labels ls) (render_int v) = match lookup_label ls v with Some s => Some (jstr s) | None => None end.
Proof.
  intros W Hv. induction W as [|[v0 s0] r Ha W IH]; [reflexivity|].
  cbn [enc_labels map fget lookup_label fst snd]. cbn [fst] in Ha.
  rewrite str_dec_render by lia. destruct (v0 =? v); [reflexivity|exact IH].
Qed.

Lemma has_label_lookup d v : has_label_def d v = false <-> lookup_label (md_labels d) v = None.
Proof.
  unfold has_label_def. induction (md_labels d) as [|[v0 s0] r IH]; cbn [existsb lookup_label fst]; [tauto|].
  destruct (v0 =? v); cbn [orb]; [split; discriminate|exact IH].
Qed.

Lemma freplace_app_last m k x y : fget m k = None -> freplace (m ++ [(k, x)]) k y = m ++ [(k, y)].
Proof.
  induction m as [|[k' v'] r IH]; cbn [app fget freplace].
  - intros _. destruct (str_dec k k); [reflexivity|contradiction].
  - destruct (str_dec k' k); [discriminate|]. intros H. rewrite (IH H). reflexivity.
Qed.

Lemma fget_body_title ti ct rest : fget ((k_title, ti) :: (k_chan_type, ct) :: rest) k_title = Some ti.
Proof. cbn [fget]. destruct (str_dec k_title k_title); [reflexivity|contradiction]. Qed.
Lemma fget_body_chan ti ct rest : fget ((k_title, ti) :: (k_chan_type, ct) :: rest) k_chan_type = Some ct.
Proof.
  cbn [fget]. destruct (str_dec k_title k_chan_type); [discriminate|].
  destruct (str_dec k_chan_type k_chan_type); [reflexivity|contradiction].
Qed.
Lemma fget_body_labels ti ct rest : fget ((k_title, ti) :: (k_chan_type, ct) :: rest) k_labels = fget rest k_labels.
Proof.
  cbn [fget]. destruct (str_dec k_title k_labels); [discriminate|].
  destruct (str_dec k_chan_type k_labels); [discriminate|]. reflexivity.
Qed.
Lemma freplace_body_labels ti ct rest x :
  freplace ((k_title, ti) :: (k_chan_type, ct) :: rest) k_labels x = (k_title, ti) :: (k_chan_type, ct) :: freplace rest k_labels x.
Proof.
  cbn [freplace]. destruct (str_dec k_title k_labels); [discriminate|].
  destruct (str_dec k_chan_type k_labels); [discriminate|]. reflexivity.
Qed.

Definition with_label (d : mdef) (v : Z) (la : str) : mdef :=
  {| md_type := md_type d; md_title := md_title d; md_stack := md_stack d; md_labels := md_labels d ++ [(v, la)] |}.

(* "<type>.labels.<value>" inside the object of a type *)
Lemma body_label d v la : wf_labels (md_labels d) -> 0 <= v < 2 ^ 63 ->
  pget (enc_body d) [k_labels; render_int v] = match lookup_label (md_labels d) v with Some s => Some (jstr s) | None => None end /\
  (lookup_label (md_labels d) v = None ->
   pset (enc_body d) [k_labels; render_int v] (jstr la) = Some (enc_body (with_label d v la))).
Proof.
  intros W Hv. unfold enc_body, with_label. cbn [md_type md_title md_stack md_labels].
  destruct (md_labels d) as [|l0 ls0] eqn:L.
  - cbn [app]. split.
    + rewrite pget_cons2, fget_body_labels. reflexivity.
    + intros _. rewrite pset_cons2, fget_body_labels. cbn [fget]. rewrite pset_one. reflexivity.
  - cbn [app]. split.
    + rewrite pget_cons2, fget_body_labels. cbn [fget]. destruct (str_dec k_labels k_labels); [|contradiction].
      rewrite pget_one. apply fget_enc_labels; assumption.
    + intros N. rewrite pset_cons2, fget_body_labels. cbn [fget]. destruct (str_dec k_labels k_labels); [|contradiction].
      rewrite pset_one, freplace_body_labels. cbn [freplace]. destruct (str_dec k_labels k_labels); [|contradiction].
      unfold fset. rewrite fget_enc_labels by assumption. rewrite N.
      change (l0 :: ls0 ++ [(v, la)]) with ((l0 :: ls0) ++ [(v, la)]). unfold enc_labels. rewrite map_app. reflexivity.
Qed.

Lemma freplace_enc_defs ds t d v la : WF ds -> 0 <= t < 2 ^ 63 -> find_def ds t = Some d ->
  freplace (enc_defs ds) (render_int t) (jobj (enc_body (with_label d v la))) = enc_defs (add_label_def ds t v la).
Proof.
  intros W Ht. induction W as [|a r Ha W IH]; [discriminate|].
  cbn [enc_defs map freplace find_def add_label_def]. unfold enc_def at 1. destruct Ha as [Ha _].
  rewrite str_dec_render by lia. destruct (md_type a =? t) eqn:E.
  - intros F. injection F as <-. cbn [map]. f_equal.
  - intros F. cbn [map]. f_equal. apply IH. exact F.
Qed.

Definition new_def (t : Z) (stack : bool) (ti : str) : mdef :=
  {| md_type := t; md_title := ti; md_stack := stack; md_labels := [] |}.

(* ovni_mark_type on the mark object *)
Lemma obj_type ds t (stack : bool) ti : WF ds -> 0 <= t < 100 -> find_def ds t = None ->
  pget (enc_defs ds) [render_int t] = None /\
  exists m1, pset (enc_defs ds) [render_int t; k_title] (jstr ti) = Some m1 /\
    pset m1 [render_int t; k_chan_type] (jstr (if stack then s_stack else s_single)) = Some (enc_defs (ds ++ [new_def t stack ti])).
Proof.
  intros W Ht F.
  assert (G : fget (enc_defs ds) (render_int t) = None) by (rewrite fget_enc_defs by (assumption || lia); rewrite F; reflexivity).
  split; [rewrite pget_one; exact G|].
  eexists. split.
  - rewrite pset_cons2, G, pset_one. reflexivity.
  - rewrite pset_cons2, fget_app, G. cbn [fget]. destruct (str_dec (render_int t) (render_int t)); [|contradiction].
    rewrite pset_one. rewrite freplace_app_last by exact G.
    unfold enc_defs. rewrite map_app. cbn [map]. unfold enc_def, new_def, enc_body. cbn [md_type md_title md_stack md_labels app].
    unfold fset. cbn [fget]. destruct (str_dec k_title k_chan_type); [discriminate|]. reflexivity.
Qed.

(* ovni_mark_label on the mark object *)
Lemma obj_label ds t d v la : WF ds -> 0 <= t < 100 -> 0 < v < 2 ^ 63 -> find_def ds t = Some d ->
  pget (enc_defs ds) [render_int t] = Some (jobj (enc_body d)) /\
  pget (enc_defs ds) [render_int t; k_labels; render_int v] = match lookup_label (md_labels d) v with Some s => Some (jstr s) | None => None end /\
  (lookup_label (md_labels d) v = None ->
   pset (enc_defs ds) [render_int t; k_labels; render_int v] (jstr la) = Some (enc_defs (add_label_def ds t v la))).
Proof.
  intros W Ht Hv F.
  assert (G : fget (enc_defs ds) (render_int t) = Some (jobj (enc_body d))) by (rewrite fget_enc_defs by (assumption || lia); rewrite F; reflexivity).
  assert (Wd : wf_labels (md_labels d)).
  { clear G. induction W as [|a r Ha W IH]; [discriminate|]. cbn [find_def] in F. destruct (md_type a =? t).
    - injection F as <-. apply Ha. - apply IH. exact F. }
  destruct (body_label d v la Wd ltac:(lia)) as [B1 B2].
  split; [rewrite pget_one; exact G|]. split.
  - rewrite pget_cons2, G. exact B1.
  - intros N. rewrite pset_cons2, G, (B2 N). f_equal. apply freplace_enc_defs; (assumption || lia).
Qed.

(* ------------------------------------------------------------------ simulation: tree calls vs rt_call *)
(* the thread's tree holds exactly the encoding of ds under "ovni.mark" ("mark" absent when nothing was defined) *)
Definition Inv (ds : list mdef) (fs : fields) : Prop :=
  exists o, fget fs k_ovni = Some (jobj o) /\ mcur o = Some (enc_defs ds).

Lemma wf_find ds t d : WF ds -> find_def ds t = Some d -> wf_def d /\ md_type d = t.
Proof.
  intros W. induction W as [|a r Ha W IH]; [discriminate|]. cbn [find_def]. destruct (md_type a =? t) eqn:E.
  - intros F. injection F as <-. split; [exact Ha|lia].
  - exact IH.
Qed.

Lemma wf_add_label ds t v la : WF ds -> 0 < v < 2 ^ 63 -> WF (add_label_def ds t v la).
Proof.
  intros W Hv. induction W as [|a r Ha W IH]; [constructor|]. cbn [add_label_def]. destruct (md_type a =? t).
  - constructor; [|exact W]. destruct Ha as [H1 H2]. split; [exact H1|]. cbn [md_labels]. unfold wf_labels. apply Forall_app. split; [exact H2|].
    constructor; [exact Hv|constructor].
  - constructor; assumption.
Qed.

Lemma step_sim s fs c : Inv (rt_defs s) fs -> WF (rt_defs s) -> call_typed c = true ->
  match rt_call s c with
  | Die => tree_call fs c = None
  | Ret s' => exists fs', tree_call fs c = Some fs' /\ Inv (rt_defs s') fs' /\ WF (rt_defs s')
  end.
Proof.
  intros (o & Ho & Hm) W T. destruct c as [t stack title|t v label|t v|t v|t v].
  - (* ovni_mark_type *)
    cbn [rt_call tree_call]. unfold mark_type_tree.
    destruct ((t <? 0) || (100 <=? t)) eqn:R; [reflexivity|].
    destruct title as [[|c0 ti]|]; try reflexivity.
    assert (Ht : 0 <= t < 100) by lia.
    destruct (keys_fit t 0) as (K1 & K2 & K3 & _). cbv zeta. rewrite K1, K2, K3.
    unfold dotget, dotset. rewrite split_mark_key by lia. rewrite !split_mark_sub by (lia || reflexivity).
    rewrite (pget_mark fs o _ [] Ho), Hm.
    destruct (find_def (rt_defs s) t) as [d|] eqn:F.
    + rewrite pget_one, fget_enc_defs by (assumption || lia). rewrite F. reflexivity.
    + destruct (obj_type (rt_defs s) t stack (c0 :: ti) W Ht F) as (P0 & m1 & P1 & P2).
      rewrite P0. rewrite (pset_mark fs o _ _ _ Ho), Hm, P1.
      destruct (lift_ovni fs o m1 Ho) as (L1 & L2).
      rewrite (pset_mark _ _ _ _ _ L1), L2, P2.
      eexists. split; [reflexivity|]. cbn [rt_defs]. split.
      * eexists. apply lift_ovni. exact L1.
      * apply Forall_app. split; [exact W|]. constructor; [|constructor]. split; [exact Ht|constructor].
  - (* ovni_mark_label *)
    cbn [rt_call tree_call]. unfold mark_label_tree.
    destruct ((t <? 0) || (100 <=? t)) eqn:R; [reflexivity|].
    destruct (v <=? 0) eqn:V; [reflexivity|].
    destruct label as [[|c0 la]|]; try reflexivity.
    assert (Ht : 0 <= t < 100) by lia.
    assert (Hv : 0 < v < 2 ^ 63) by (cbn [call_typed] in T; unfold i64 in T; lia).
    destruct (keys_fit t v) as (K1 & _ & _ & K4). cbv zeta. rewrite K1, K4.
    unfold dotget, dotset. rewrite split_mark_key by lia. rewrite split_mark_label by lia.
    rewrite (pget_mark fs o _ [] Ho), Hm.
    destruct (find_def (rt_defs s) t) as [d|] eqn:F.
    + destruct (obj_label (rt_defs s) t d v (c0 :: la) W Ht Hv F) as (P0 & P1 & P2).
      rewrite P0. rewrite (pget_mark fs o _ _ Ho), Hm, P1.
      destruct (has_label_def d v) eqn:H.
      * destruct (lookup_label (md_labels d) v) eqn:Lk; [reflexivity|]. apply has_label_lookup in Lk. congruence.
      * apply has_label_lookup in H. rewrite H. rewrite (pset_mark fs o _ _ _ Ho), Hm, (P2 H).
        eexists. split; [reflexivity|]. cbn [rt_defs]. split.
        -- eexists. apply lift_ovni. exact Ho.
        -- apply wf_add_label; assumption.
    + rewrite pget_one, fget_enc_defs by (assumption || lia). rewrite F. reflexivity.
  - cbn [rt_call tree_call]. destruct (v =? 0); [reflexivity|]. exists fs. cbn [rt_defs]. repeat split; try assumption. exists o. tauto.
  - cbn [rt_call tree_call]. destruct (v =? 0); [reflexivity|]. exists fs. cbn [rt_defs]. repeat split; try assumption. exists o. tauto.
  - cbn [rt_call tree_call]. destruct (v =? 0); [reflexivity|]. exists fs. cbn [rt_defs]. repeat split; try assumption. exists o. tauto.
Qed.

(* the two models agree on every call sequence: same refusals, and the tree keeps encoding rt_defs *)
Lemma calls_sim cs : forall s fs, Inv (rt_defs s) fs -> WF (rt_defs s) -> forallb call_typed cs = true ->
  match rt_calls s cs with
  | Die => tree_calls fs cs = None
  | Ret s' => exists fs', tree_calls fs cs = Some fs' /\ Inv (rt_defs s') fs' /\ WF (rt_defs s')
  end.
Proof.
  induction cs as [|c r IH]; intros s fs I W T; cbn [rt_calls tree_calls].
  - exists fs. auto.
  - cbn [forallb] in T. apply andb_true_iff in T. destruct T as [Tc Tr].
    pose proof (step_sim s fs c I W Tc) as S. destruct (rt_call s c) as [s1|].
    + destruct S as (fs1 & -> & I1 & W1). apply IH; assumption.
    + rewrite S. reflexivity.
Qed.

(* ------------------------------------------------------------------ the emulator reads the encoding back *)
Definition fits_def (d : mdef) : Prop :=
  slen (md_title d) < MAX_PCF_LABEL /\ Forall (fun p => slen (snd p) < MAX_PCF_LABEL) (md_labels d).
Definition Fits (ds : list mdef) : Prop := Forall fits_def ds.

Lemma parse_enc_labels ls : wf_labels ls -> Forall (fun p => slen (snd p) < MAX_PCF_LABEL) ls ->
  parse_labels (enc_labels ls) = Some ls.
Proof.
  unfold parse_labels. intros W. induction W as [|[v l] r Ha W IH]; intros F; [reflexivity|].
  inversion F as [|x y Fa Fr]; subst. cbn [enc_labels map all_some fst snd] in *.
  unfold parse_label at 1. cbn [fst snd]. rewrite parse_render by lia.
  destruct (slen l <? MAX_PCF_LABEL) eqn:E; [|lia]. fold (enc_labels r). rewrite (IH Fr). reflexivity.
Qed.

Lemma parse_enc_def d : wf_def d -> fits_def d -> parse_mark_entry (enc_def d) = Some d.
Proof.
  intros [Ht Wl] [Ft Fl]. unfold parse_mark_entry, enc_def. cbn [fst snd]. rewrite parse_render by lia.
  destruct ((md_type d <? 0) || (100 <=? md_type d)) eqn:R; [lia|].
  unfold enc_body. cbn [app]. rewrite fget_body_title, fget_body_chan, fget_body_labels.
  assert (C : chan_type_of (if md_stack d then s_stack else s_single) = Some (md_stack d)) by (destruct (md_stack d); reflexivity).
  rewrite C. destruct (slen (md_title d) <? MAX_PCF_LABEL) eqn:E; [|lia]. cbn [negb].
  destruct d as [ty ti st ls]. cbn [md_type md_title md_stack md_labels] in *.
  destruct ls as [|l0 ls0]; [reflexivity|].
  cbn [fget]. destruct (str_dec k_labels k_labels); [|contradiction].
  rewrite parse_enc_labels by assumption. reflexivity.
Qed.

Lemma parse_enc_defs ds : WF ds -> Fits ds -> all_some (map parse_mark_entry (enc_defs ds)) = Some ds.
Proof.
  intros W. induction W as [|a r Ha W IH]; intros F; [reflexivity|]. inversion F as [|x y Fa Fr]; subst.
  cbn [enc_defs map all_some]. rewrite parse_enc_def by assumption. fold (enc_defs r). rewrite (IH Fr). reflexivity.
Qed.

Lemma parse_inv ds fs : Inv ds fs -> WF ds -> Fits ds -> parse_mark_json (jobj fs) = Some ds.
Proof.
  intros (o & Ho & Hm) W F. unfold parse_mark_json. rewrite pget_cons2, Ho, pget_one.
  unfold mcur in Hm. destruct (fget o k_mark) as [[| | | | |m]|]; try discriminate.
  - injection Hm as ->. apply parse_enc_defs; assumption.
  - injection Hm as Hm. destruct ds; [reflexivity|discriminate].
Qed.

Lemma fits_add_label ds t v la : Fits ds -> slen la < MAX_PCF_LABEL -> Fits (add_label_def ds t v la).
Proof.
  intros F Hl. induction F as [|a r Ha F IH]; [constructor|]. cbn [add_label_def]. destruct (md_type a =? t).
  - constructor; [|exact F]. destruct Ha as [H1 H2]. split; [exact H1|]. cbn [md_labels]. apply Forall_app. split; [exact H2|].
    constructor; [exact Hl|constructor].
  - constructor; assumption.
Qed.

Lemma step_fits s c s' : rt_call s c = Ret s' -> call_fits c = true -> Fits (rt_defs s) -> Fits (rt_defs s').
Proof.
  intros H Cf F. destruct c as [t stack title|t v label|t v|t v|t v]; cbn [rt_call] in H.
  - destruct ((t <? 0) || (100 <=? t)); [discriminate|]. destruct title as [[|c0 ti]|]; try discriminate.
    destruct (find_def (rt_defs s) t); [discriminate|]. injection H as <-. cbn [rt_defs].
    apply Forall_app. split; [exact F|]. constructor; [|constructor]. split; cbn [md_title md_labels]; [cbn [call_fits] in Cf; lia|constructor].
  - destruct ((t <? 0) || (100 <=? t)); [discriminate|]. destruct (v <=? 0); [discriminate|].
    destruct label as [[|c0 la]|]; try discriminate. destruct (find_def (rt_defs s) t); [|discriminate].
    destruct (has_label_def m v); [discriminate|]. injection H as <-. cbn [rt_defs].
    apply fits_add_label; [exact F|cbn [call_fits] in Cf; lia].
  - destruct (v =? 0); [discriminate|]. injection H as <-. exact F.
  - destruct (v =? 0); [discriminate|]. injection H as <-. exact F.
  - destruct (v =? 0); [discriminate|]. injection H as <-. exact F.
Qed.

Lemma calls_fits cs : forall s s', rt_calls s cs = Ret s' -> forallb call_fits cs = true -> Fits (rt_defs s) -> Fits (rt_defs s').
Proof.
  induction cs as [|c r IH]; intros s s' H Cf F; cbn [rt_calls] in H.
  - injection H as <-. exact F.
  - cbn [forallb] in Cf. apply andb_true_iff in Cf. destruct Cf as [C1 C2].
    destruct (rt_call s c) as [s1|] eqn:E; [|discriminate]. eapply IH; [exact H|exact C2|]. eapply step_fits; eauto.
Qed.

(* a tree in which "ovni" is an object without a "mark" member: the thread has made no mark call yet *)
Definition base_tree (fs : fields) : Prop := exists o, fget fs k_ovni = Some (jobj o) /\ fget o k_mark = None.

Lemma base_inv fs : base_tree fs -> Inv [] fs.
Proof. intros (o & Ho & Hm). exists o. split; [exact Ho|]. unfold mcur. rewrite Hm. reflexivity. Qed.

(* B.1 *)
Theorem mark_metadata_roundtrip : forall fs0 cs,
  base_tree fs0 -> forallb call_typed cs = true ->
  match rt_calls rtm_init cs with
  | Die => tree_calls fs0 cs = None                                  (* the same calls abort *)
  | Ret s => exists fs, tree_calls fs0 cs = Some fs /\
             (forallb call_fits cs = true -> parse_mark_json (jobj fs) = Some (rt_defs s) /\ thread_defs_of_tree (jobj fs) = rt_defs s)
  end.
Proof.
  intros fs0 cs B T. pose proof (calls_sim cs rtm_init fs0 (base_inv fs0 B) (Forall_nil _) T) as S.
  destruct (rt_calls rtm_init cs) as [s|] eqn:E; [|exact S].
  destruct S as (fs & Hc & I & W). exists fs. split; [exact Hc|]. intros Cf.
  assert (P : parse_mark_json (jobj fs) = Some (rt_defs s)).
  { apply parse_inv; [exact I|exact W|]. eapply calls_fits; [exact E|exact Cf|constructor]. }
  split; [exact P|]. unfold thread_defs_of_tree. rewrite P. reflexivity.
Qed.

(* ------------------------------------------------------------------ B.4: attributes under other names *)
Lemma user_attr_keeps_marks fs k v fs' : user_key k = true -> attr_set fs k v = Some fs' ->
  parse_mark_json (jobj fs') = parse_mark_json (jobj fs) /\ (forall ds, Inv ds fs -> Inv ds fs').
Proof.
  intros U A. destruct (user_attr_keeps_reserved fs k v fs' U A) as [E _]. split.
  - unfold parse_mark_json. rewrite (pget_head fs' fs k_ovni [k_mark] E). reflexivity.
  - intros ds (o & Ho & Hm). exists o. rewrite E. auto.
Qed.

Lemma marks_of_cons_mark c r : marks_of (TMark c :: r) = c :: marks_of r.
Proof. reflexivity. Qed.
Lemma marks_of_cons_attr k v r : marks_of (TAttr k v :: r) = marks_of r.
Proof. reflexivity. Qed.

Lemma tcalls_sim l : forall s fs fs', Inv (rt_defs s) fs -> WF (rt_defs s) -> Fits (rt_defs s) -> forallb tcall_ok l = true ->
  tree_tcalls fs l = Some fs' ->
  exists s', rt_calls s (marks_of l) = Ret s' /\ Inv (rt_defs s') fs' /\ WF (rt_defs s') /\ Fits (rt_defs s').
Proof.
  induction l as [|tc r IH]; intros s fs fs' I W F T H; cbn [tree_tcalls] in H.
  - injection H as <-. exists s. cbn. auto.
  - cbn [forallb] in T. apply andb_true_iff in T. destruct T as [T1 T2].
    destruct (tree_tcall fs tc) as [fs1|] eqn:E; [|discriminate]. destruct tc as [c|k v]; cbn [tree_tcall tcall_ok] in *.
    + apply andb_true_iff in T1. destruct T1 as [Ty Fi]. rewrite marks_of_cons_mark. cbn [rt_calls].
      pose proof (step_sim s fs c I W Ty) as S. destruct (rt_call s c) as [s1|] eqn:R; [|congruence].
      destruct S as (fs1' & E' & I1 & W1). assert (fs1' = fs1) by congruence. subst fs1'.
      apply (IH s1 fs1 fs'); try assumption. eapply step_fits; eauto.
    + rewrite marks_of_cons_attr. apply (IH s fs1 fs'); try assumption.
      apply (user_attr_keeps_marks fs k v fs1 T1 E). exact I.
Qed.

(* B.1 with attribute stores in between, B.4 *)
Theorem mark_metadata_roundtrip_attrs : forall fs0 l fs,
  base_tree fs0 -> forallb tcall_ok l = true -> tree_tcalls fs0 l = Some fs ->
  exists s, rt_calls rtm_init (marks_of l) = Ret s /\ parse_mark_json (jobj fs) = Some (rt_defs s).
Proof.
  intros fs0 l fs B T H.
  destruct (tcalls_sim l rtm_init fs0 fs (base_inv fs0 B) (Forall_nil _) (Forall_nil _) T H) as (s & R & I & W & F).
  exists s. split; [exact R|]. apply parse_inv; assumption.
Qed.

(* the tree ovni_thread_init leaves is a base tree *)
Lemma init_base c s th tid s' w obs : t_ready (tget (st_threads s) th) = false ->
  step c s th (ThreadInit tid) = ODone s' w obs -> base_tree (t_meta (tget (st_threads s') th)).
Proof.
  intros R H. unfold step in H. destruct (negb (in_dom (ThreadInit tid))); [discriminate|]. rewrite R in H.
  destruct (t_finished (tget (st_threads s) th)); [discriminate|]. destruct (tid =? 0); [discriminate|].
  destruct (negb (proc_ready s)); [discriminate|].
  destruct (populate c s tid) as [f|] eqn:P; [|discriminate].
  destruct (require_tree f k_ovni (c_model_version c)) as [f'|] eqn:Q; [|discriminate].
  injection H as <- _ _. rewrite tget_tset_same. cbn [t_meta].
  unfold populate in P. vm_compute in P. injection P as <-.
  rewrite require_ovni_eq in Q. destruct (version_parse (Some (c_model_version c))); [|discriminate].
  vm_compute in Q. injection Q as <-.
  eexists. split; vm_compute; reflexivity.
Qed.

(* the mark calls inside the metadata state machine are the tree calls on the calling thread's tree *)
Lemma mstep_mark_type c s th t flags title : m_in_dom (MMarkType t flags title) = true -> attr_gate (tget (st_threads s) th) = true ->
  mstep c s th (MMarkType t flags title) =
  match tree_call (t_meta (tget (st_threads s) th)) (MType t (stack_flag flags) title) with
  | Some fs => ODone (tset s th (with_meta (tget (st_threads s) th) fs)) None None
  | None => ODie
  end.
Proof. intros D G. unfold mstep, mark_store. rewrite D, G. reflexivity. Qed.
Lemma mstep_mark_label c s th t v label : m_in_dom (MMarkLabel t v label) = true -> attr_gate (tget (st_threads s) th) = true ->
  mstep c s th (MMarkLabel t v label) =
  match tree_call (t_meta (tget (st_threads s) th)) (MLabel t v label) with
  | Some fs => ODone (tset s th (with_meta (tget (st_threads s) th) fs)) None None
  | None => ODie
  end.
Proof. intros D G. unfold mstep, mark_store. rewrite D, G. reflexivity. Qed.
Lemma mrun_base c p : mrun c (map (fun e => (fst e, MBase (snd e))) p) = run c p.
Proof.
  unfold mrun, run. generalize st0. induction p as [|[th o] r IH]; intros s; [reflexivity|].
  cbn [map mrun_from run_from fst snd]. unfold mstep. cbn [m_in_dom].
  destruct (in_dom o) eqn:D; cbn [negb].
  - destruct (step c s th o); try reflexivity. rewrite IH. reflexivity.
  - unfold step. rewrite D. reflexivity.
Qed.

(* ------------------------------------------------------------------ B.2: runtime -> stream.json -> merged types *)
Lemma all_some_app_one {A} (l : list (option A)) r x : all_some l = Some r -> all_some (l ++ [Some x]) = Some (r ++ [x]).
Proof.
  revert r. induction l as [|[a|] l IH]; intros r H; cbn [all_some app] in *; try discriminate.
  - injection H as <-. reflexivity.
  - destruct (all_some l) as [r'|]; [|discriminate]. injection H as <-. rewrite (IH r' eq_refl). reflexivity.
Qed.

Definition thread_ok (p : fields * list mcall) : Prop :=
  base_tree (fst p) /\ forallb call_typed (snd p) = true /\ forallb call_fits (snd p) = true.

Theorem compose_through_json : forall (ths : list (fields * list mcall)) (finals : list rtm),
  Forall thread_ok ths ->
  Forall2 (fun p s => rt_calls rtm_init (snd p) = Ret s) ths finals ->
  exists trees, Forall2 (fun p fs => tree_calls (fst p) (snd p) = Some fs) ths trees /\
    map thread_defs_of_tree (map jobj trees) = map rt_defs finals /\
    emu_types_of_trees (map jobj trees) = merge_threads (map rt_defs finals).
Proof.
  intros ths finals O R.
  assert (G : exists trees, Forall2 (fun p fs => tree_calls (fst p) (snd p) = Some fs) ths trees /\
            map thread_defs_of_tree (map jobj trees) = map rt_defs finals /\
            all_some (map parse_mark_json (map jobj trees)) = Some (map rt_defs finals)).
  { induction R as [|p s ths finals Rp R IH].
    - exists []. repeat split. constructor.
    - inversion O as [|x y Op Or]; subst. destruct (IH Or) as (trees & F & D & A). destruct Op as (B & T & Cf).
      pose proof (mark_metadata_roundtrip (fst p) (snd p) B T) as M. rewrite Rp in M. destruct M as (fs & Hc & Hp).
      destruct (Hp Cf) as [P1 P2]. exists (fs :: trees). split; [constructor; assumption|]. cbn [map all_some]. rewrite P1, P2, A, D. auto. }
  destruct G as (trees & F & D & A). exists trees. split; [exact F|]. split; [exact D|]. unfold emu_types_of_trees. rewrite A. reflexivity.
Qed.

(* ------------------------------------------------------------------ B.3: hand-made metadata *)
Lemma all_some_none {A} (l : list (option A)) : In None l -> all_some l = None.
Proof.
  induction l as [|[a|] l IH]; cbn [In all_some]; intros H; try reflexivity; [contradiction|].
  destruct H as [H|H]; [discriminate|]. rewrite (IH H). reflexivity.
Qed.

Lemma bad_entry_refused fs ms kv : pget fs [k_ovni; k_mark] = Some (jobj ms) -> In kv ms -> parse_mark_entry kv = None ->
  parse_mark_json (jobj fs) = None.
Proof.
  intros P I N. unfold parse_mark_json. rewrite P. apply all_some_none. rewrite <- N. apply in_map. exact I.
Qed.

Lemma bad_thread_refused ts j : In j ts -> parse_mark_json j = None -> emu_types_of_trees ts = None.
Proof.
  intros I N. unfold emu_types_of_trees. rewrite all_some_none; [reflexivity|]. rewrite <- N. apply in_map. exact I.
Qed.

(* the members parse_mark refuses *)
Inductive bad_member : str * json -> Prop :=
| bad_key k v : parse_number k = None -> bad_member (k, v)                               (* not a number for strtol *)
| bad_range k v t : parse_number k = Some t -> (t < 0 \/ 100 <= t) -> bad_member (k, v)
| bad_not_object k v : (forall m, v <> jobj m) -> bad_member (k, v)
| bad_title k m : (forall s, fget m k_title <> Some (jstr s)) -> bad_member (k, jobj m)  (* missing or not a string *)
| bad_title_long k m s : fget m k_title = Some (jstr s) -> MAX_PCF_LABEL <= slen s -> bad_member (k, jobj m)
| bad_chan_missing k m : (forall s, fget m k_chan_type <> Some (jstr s)) -> bad_member (k, jobj m)
| bad_chan_unknown k m s : fget m k_chan_type = Some (jstr s) -> s <> s_single -> s <> s_stack -> bad_member (k, jobj m)
| bad_labels_not_object k m v : fget m k_labels = Some v -> (forall ls, v <> jobj ls) -> bad_member (k, jobj m)
| bad_label_key k m ls lk lv : fget m k_labels = Some (jobj ls) -> In (lk, lv) ls -> parse_number lk = None -> bad_member (k, jobj m)
| bad_label_value k m ls lk lv : fget m k_labels = Some (jobj ls) -> In (lk, lv) ls -> (forall s, lv <> jstr s) -> bad_member (k, jobj m)
| bad_label_long k m ls lk s : fget m k_labels = Some (jobj ls) -> In (lk, jstr s) ls -> MAX_PCF_LABEL <= slen s -> bad_member (k, jobj m).

Lemma bad_label_in ls lk lv : In (lk, lv) ls -> parse_label (lk, lv) = None -> parse_labels ls = None.
Proof. intros I N. unfold parse_labels. apply all_some_none. rewrite <- N. apply in_map. exact I. Qed.

Lemma bad_member_refused kv : bad_member kv -> parse_mark_entry kv = None.
Proof.
  intros B. unfold parse_mark_entry.
  destruct B as [k v N|k v t P R|k v N|k m N|k m s E L|k m N|k m s E N1 N2|k m v E N|k m ls lk lv E I N|k m ls lk lv E I N|k m ls lk s E I L];
    cbn [fst snd].
  - rewrite N. reflexivity.
  - rewrite P. destruct ((t <? 0) || (100 <=? t)) eqn:X; [reflexivity|lia].
  - destruct (parse_number k); [|reflexivity]. destruct (_ || _); [reflexivity|]. destruct v; try reflexivity. exfalso. eapply N. reflexivity.
  - destruct (parse_number k); [|reflexivity]. destruct (_ || _); [reflexivity|].
    destruct (fget m k_title) as [[| | |s| |]|]; try reflexivity. exfalso. eapply N. reflexivity.
  - destruct (parse_number k); [|reflexivity]. destruct (_ || _); [reflexivity|]. rewrite E.
    destruct (fget m k_chan_type) as [[| | |ct| |]|]; try reflexivity. destruct (chan_type_of ct); [|reflexivity].
    destruct (slen s <? MAX_PCF_LABEL) eqn:X; [lia|reflexivity].
  - destruct (parse_number k); [|reflexivity]. destruct (_ || _); [reflexivity|].
    destruct (fget m k_title) as [[| | |s| |]|]; try reflexivity.
    destruct (fget m k_chan_type) as [[| | |ct| |]|]; try reflexivity. exfalso. eapply N. reflexivity.
  - destruct (parse_number k); [|reflexivity]. destruct (_ || _); [reflexivity|].
    destruct (fget m k_title) as [[| | |ti| |]|]; try reflexivity. rewrite E.
    unfold chan_type_of. destruct (str_dec s s_single); [contradiction|]. destruct (str_dec s s_stack); [contradiction|]. reflexivity.
  - destruct (parse_number k); [|reflexivity]. destruct (_ || _); [reflexivity|].
    destruct (fget m k_title) as [[| | |ti| |]|]; try reflexivity.
    destruct (fget m k_chan_type) as [[| | |ct| |]|]; try reflexivity. destruct (chan_type_of ct); [|reflexivity].
    destruct (negb _); [reflexivity|]. rewrite E. destruct v; try reflexivity. exfalso. eapply N. reflexivity.
  - destruct (parse_number k); [|reflexivity]. destruct (_ || _); [reflexivity|].
    destruct (fget m k_title) as [[| | |ti| |]|]; try reflexivity.
    destruct (fget m k_chan_type) as [[| | |ct| |]|]; try reflexivity. destruct (chan_type_of ct); [|reflexivity].
    destruct (negb _); [reflexivity|]. rewrite E. rewrite (bad_label_in ls lk lv I); [reflexivity|].
    unfold parse_label. cbn [fst]. rewrite N. reflexivity.
  - destruct (parse_number k); [|reflexivity]. destruct (_ || _); [reflexivity|].
    destruct (fget m k_title) as [[| | |ti| |]|]; try reflexivity.
    destruct (fget m k_chan_type) as [[| | |ct| |]|]; try reflexivity. destruct (chan_type_of ct); [|reflexivity].
    destruct (negb _); [reflexivity|]. rewrite E. rewrite (bad_label_in ls lk lv I); [reflexivity|].
    unfold parse_label. cbn [fst snd]. destruct (parse_number lk); [|reflexivity]. destruct lv; try reflexivity. exfalso. eapply N. reflexivity.
  - destruct (parse_number k); [|reflexivity]. destruct (_ || _); [reflexivity|].
    destruct (fget m k_title) as [[| | |ti| |]|]; try reflexivity.
    destruct (fget m k_chan_type) as [[| | |ct| |]|]; try reflexivity. destruct (chan_type_of ct); [|reflexivity].
    destruct (negb _); [reflexivity|]. rewrite E. rewrite (bad_label_in ls lk (jstr s) I); [reflexivity|].
    unfold parse_label. cbn [fst snd]. destruct (parse_number lk); [|reflexivity]. destruct (slen s <? MAX_PCF_LABEL) eqn:X; [lia|reflexivity].
Qed.

Theorem malformed_mark_metadata_refused : forall ts fs ms kv,
  In (jobj fs) ts -> pget fs [k_ovni; k_mark] = Some (jobj ms) -> In kv ms -> bad_member kv ->
  parse_mark_json (jobj fs) = None /\ emu_types_of_trees ts = None /\ emu_pcf_of_trees ts = None.
Proof.
  intros ts fs ms kv I P M B.
  assert (N : parse_mark_json (jobj fs) = None) by (eapply bad_entry_refused; eauto using bad_member_refused).
  assert (E : emu_types_of_trees ts = None) by (eapply bad_thread_refused; eauto).
  split; [exact N|]. split; [exact E|]. unfold emu_pcf_of_trees, emu_pcf_of_trees_with. rewrite E. reflexivity.
Qed.

(* what mark.c does NOT refuse: an "ovni.mark" that is not an object counts as "no marks in this thread" *)
Theorem mark_not_object_ignored : forall fs v,
  pget fs [k_ovni; k_mark] = Some v -> (forall ms, v <> jobj ms) -> parse_mark_json (jobj fs) = Some [].
Proof.
  intros fs v P N. unfold parse_mark_json. rewrite P. destruct v; try reflexivity. exfalso. eapply N. reflexivity.
Qed.

(* ------------------------------------------------------------------ the PCF (int64 values since the repair) *)
Definition good_labels (ls : list (Z * MarkDefs.str)) : Prop := NoDup (map fst ls).

Lemma lookup_none_notin l v : lookup_label l v = None -> ~ In v (map fst l).
Proof.
  induction l as [|[v' s'] r IH]; cbn [lookup_label map fst In]; [tauto|].
  destruct (v' =? v) eqn:E; [discriminate|]. intros H [X|X]; [lia|]. exact (IH H X).
Qed.

Lemma existsb_notin acc v : ~ In v (map fst acc) -> existsb (fun p : Z * MarkDefs.str => fst p =? v) acc = false.
Proof.
  induction acc as [|[v' s'] r IH]; cbn [existsb map fst In]; [reflexivity|].
  intros H. destruct (v' =? v) eqn:E; [exfalso; apply H; left; lia|]. apply IH. tauto.
Qed.

Lemma pcf_values_id ls : forall acc, NoDup (map fst (acc ++ ls)) -> pcf_values_with no_cast acc ls = Some (acc ++ ls).
Proof.
  induction ls as [|[v s] r IH]; intros acc N; cbn [pcf_values_with].
  - rewrite app_nil_r. reflexivity.
  - unfold no_cast at 1 2. rewrite existsb_notin.
    + rewrite IH; [rewrite <- app_assoc; reflexivity|]. rewrite <- app_assoc. exact N.
    + rewrite map_app in N. cbn [map fst] in N. apply NoDup_remove_2 in N. intros X. apply N. apply in_or_app. left. exact X.
Qed.

Lemma NoDup_app_one {A} (l : list A) x : NoDup l -> ~ In x l -> NoDup (l ++ [x]).
Proof.
  induction 1 as [|a l Ha N IH]; intros H; cbn [app].
  - constructor; [tauto|constructor].
  - constructor.
    + intros X. apply in_app_or in X. destruct X as [X|[X|[]]]; [contradiction|]. subst. apply H. left. reflexivity.
    + apply IH. intros X. apply H. right. exact X.
Qed.

Lemma merge_labels_good new : forall have r, good_labels have -> merge_labels have new = Some r -> good_labels r.
Proof.
  induction new as [|[v s] new IH]; intros have r G H; cbn [merge_labels] in H.
  - injection H as <-. exact G.
  - destruct (lookup_label have v) as [s'|] eqn:L.
    + destruct (str_eqb s s'); [|discriminate]. eapply IH; eauto.
    + eapply IH; [|exact H]. unfold good_labels. rewrite map_app. cbn [map fst].
      apply NoDup_app_one; [exact G|apply lookup_none_notin; exact L].
Qed.

Definition good_mt (m : mtype) : Prop := good_labels (mt_labels m).

Lemma find_mt_in acc t m : find_mt acc t = Some m -> In m acc.
Proof.
  induction acc as [|d r IH]; cbn [find_mt]; [discriminate|]. destruct (mt_type d =? t).
  - intros H. injection H as <-. left. reflexivity.
  - intros H. right. exact (IH H).
Qed.

Lemma replace_mt_good acc m : Forall good_mt acc -> good_mt m -> Forall good_mt (replace_mt acc m).
Proof.
  intros F G. induction F as [|d r Hd F IH]; cbn [replace_mt]; [constructor|].
  destruct (mt_type d =? mt_type m); constructor; assumption.
Qed.

Lemma merge_def_good acc d acc' : Forall good_mt acc -> merge_def acc d = Some acc' -> Forall good_mt acc'.
Proof.
  intros F H. unfold merge_def in H. destruct (_ || _); [discriminate|].
  destruct (find_mt acc (md_type d)) as [m|] eqn:E.
  - destruct (negb (str_eqb _ _)); [discriminate|]. destruct (negb (Bool.eqb _ _)); [discriminate|].
    destruct (merge_labels (mt_labels m) (md_labels d)) as [ls|] eqn:L; [|discriminate]. injection H as <-.
    apply replace_mt_good; [exact F|]. unfold good_mt. cbn [mt_labels].
    eapply merge_labels_good; [|exact L]. apply find_mt_in in E. rewrite Forall_forall in F. exact (F m E).
  - destruct (merge_labels [] (md_labels d)) as [ls|] eqn:L; [|discriminate]. injection H as <-.
    apply Forall_app. split; [exact F|]. constructor; [|constructor]. unfold good_mt. cbn [mt_labels].
    eapply merge_labels_good; [|exact L]. constructor.
Qed.

Lemma merge_defs_good ds : forall acc acc', Forall good_mt acc -> merge_defs acc ds = Some acc' -> Forall good_mt acc'.
Proof.
  induction ds as [|d r IH]; intros acc acc' F H; cbn [merge_defs] in H.
  - injection H as <-. exact F.
  - destruct (merge_def acc d) as [a1|] eqn:E; [|discriminate].
    eapply IH; [|exact H]. eapply merge_def_good; eauto.
Qed.

Lemma pcf_section_good m : good_mt m -> pcf_section m = Some (100 + mt_type m, mt_title m, mt_labels m).
Proof.
  intros N. unfold pcf_section, pcf_section_with.
  assert (X : pcf_values_with no_cast [] (mt_labels m) = Some (mt_labels m)) by exact (pcf_values_id (mt_labels m) [] N).
  rewrite X. reflexivity.
Qed.

(* the PCF sections carry exactly the merged titles and labels, whatever the (int64) label values *)
Theorem pcf_labels_as_merged : forall dss ms,
  merge_threads dss = Some ms ->
  pcf_of_types ms = Some (map (fun m => (100 + mt_type m, mt_title m, mt_labels m)) ms).
Proof.
  intros dss ms H. unfold merge_threads in H.
  assert (G : Forall good_mt ms) by (eapply merge_defs_good; [constructor|exact H]).
  unfold pcf_of_types, pcf_of_types_with. fold pcf_section. clear H. induction G as [|m r Hm G IH]; [reflexivity|].
  cbn [map all_some]. rewrite (pcf_section_good m Hm), IH. reflexivity.
Qed.

(* ------------------------------------------------------------------ conflicts between threads, from the definitions *)
Lemma find_mt_app acc x t : find_mt (acc ++ [x]) t = match find_mt acc t with Some m => Some m | None => if mt_type x =? t then Some x else None end.
Proof.
  induction acc as [|d r IH]; cbn [app find_mt]; [reflexivity|]. destruct (mt_type d =? t); [reflexivity|exact IH].
Qed.

Lemma find_mt_type acc t m : find_mt acc t = Some m -> mt_type m = t.
Proof.
  induction acc as [|d r IH]; cbn [find_mt]; [discriminate|]. destruct (mt_type d =? t) eqn:E; [|exact IH].
  intros H. injection H as <-. lia.
Qed.

Lemma find_mt_replace acc m t : find_mt (replace_mt acc m) t =
  match find_mt acc (mt_type m) with
  | Some _ => if mt_type m =? t then Some m else find_mt acc t
  | None => find_mt acc t
  end.
Proof.
  induction acc as [|d r IH]; cbn [replace_mt find_mt]; [reflexivity|].
  destruct (mt_type d =? mt_type m) eqn:E; cbn [find_mt].
  - destruct (mt_type m =? t) eqn:E2; [reflexivity|]. destruct (mt_type d =? t) eqn:E3; [lia|reflexivity].
  - destruct (mt_type d =? t) eqn:E3.
    + destruct (find_mt r (mt_type m)); [|reflexivity]. destruct (mt_type m =? t) eqn:E2; [lia|reflexivity].
    + exact IH.
Qed.

(* the (title, channel type) of a type never changes once some thread has registered it *)
Lemma merge_def_keeps acc d acc' t m : merge_def acc d = Some acc' -> find_mt acc t = Some m ->
  exists m', find_mt acc' t = Some m' /\ mt_title m' = mt_title m /\ mt_stack m' = mt_stack m.
Proof.
  intros H F. unfold merge_def in H. destruct (_ || _); [discriminate|].
  destruct (find_mt acc (md_type d)) as [m0|] eqn:E.
  - destruct (negb (str_eqb _ _)); [discriminate|]. destruct (negb (Bool.eqb _ _)); [discriminate|].
    destruct (merge_labels (mt_labels m0) (md_labels d)) as [ls|]; [|discriminate]. injection H as <-.
    rewrite find_mt_replace. cbn [mt_type]. rewrite (find_mt_type _ _ _ E), E.
    destruct (md_type d =? t) eqn:E2.
    + assert (t = md_type d) by lia. subst t. assert (m0 = m) by congruence. subst m0. eexists. split; [reflexivity|]. cbn. auto.
    + exists m. auto.
  - destruct (merge_labels [] (md_labels d)) as [ls|]; [|discriminate]. injection H as <-.
    rewrite find_mt_app, F. exists m. auto.
Qed.

Lemma merge_def_registers acc d acc' : merge_def acc d = Some acc' ->
  0 <= md_type d < 100 /\ exists m, find_mt acc' (md_type d) = Some m /\ mt_title m = md_title d /\ mt_stack m = md_stack d.
Proof.
  intros H. unfold merge_def in H. destruct (_ || _) eqn:R; [discriminate|]. split; [lia|].
  destruct (find_mt acc (md_type d)) as [m0|] eqn:E.
  - destruct (str_eqb (mt_title m0) (md_title d)) eqn:T; [|discriminate]. cbn [negb] in H.
    destruct (Bool.eqb (mt_stack m0) (md_stack d)) eqn:S; [|discriminate]. cbn [negb] in H.
    destruct (merge_labels (mt_labels m0) (md_labels d)) as [ls|]; [|discriminate]. injection H as <-.
    rewrite find_mt_replace. cbn [mt_type]. rewrite (find_mt_type _ _ _ E), E, Z.eqb_refl.
    eexists. split; [reflexivity|]. cbn [mt_title mt_stack]. apply str_eqb_eq in T. apply Bool.eqb_prop in S. auto.
  - destruct (merge_labels [] (md_labels d)) as [ls|]; [|discriminate]. injection H as <-.
    rewrite find_mt_app, E. cbn [mt_type]. rewrite Z.eqb_refl. eexists. split; [reflexivity|]. auto.
Qed.

Lemma merge_defs_keeps ds : forall acc acc' t m, merge_defs acc ds = Some acc' -> find_mt acc t = Some m ->
  exists m', find_mt acc' t = Some m' /\ mt_title m' = mt_title m /\ mt_stack m' = mt_stack m.
Proof.
  induction ds as [|d r IH]; intros acc acc' t m H F; cbn [merge_defs] in H.
  - injection H as <-. exists m. auto.
  - destruct (merge_def acc d) as [a1|] eqn:E; [|discriminate].
    destruct (merge_def_keeps acc d a1 t m E F) as (m1 & F1 & T1 & S1).
    destruct (IH a1 acc' t m1 H F1) as (m2 & F2 & T2 & S2). exists m2. split; [exact F2|]. split; congruence.
Qed.

Lemma merge_defs_app l1 : forall acc l2, merge_defs acc (l1 ++ l2) = match merge_defs acc l1 with Some a => merge_defs a l2 | None => None end.
Proof.
  induction l1 as [|d r IH]; intros acc l2; cbn [app merge_defs]; [reflexivity|]. destruct (merge_def acc d); [apply IH|reflexivity].
Qed.

(* two definitions of one type that disagree on the title or the channel type, anywhere in the trace *)
Theorem conflicting_definitions_refused : forall l1 d1 l2 d2 l3 acc,
  md_type d1 = md_type d2 -> (md_title d1 <> md_title d2 \/ md_stack d1 <> md_stack d2) ->
  merge_defs acc (l1 ++ d1 :: l2 ++ d2 :: l3) = None.
Proof.
  intros l1 d1 l2 d2 l3 acc Ty C.
  destruct (merge_defs acc (l1 ++ d1 :: l2 ++ d2 :: l3)) as [r|] eqn:H; [exfalso|reflexivity].
  rewrite merge_defs_app in H. destruct (merge_defs acc l1) as [a1|]; [|discriminate]. cbn [merge_defs] in H.
  destruct (merge_def a1 d1) as [a2|] eqn:E1; [|discriminate]. rewrite merge_defs_app in H.
  destruct (merge_defs a2 l2) as [a3|] eqn:E2; [|discriminate]. cbn [merge_defs] in H.
  destruct (merge_def a3 d2) as [a4|] eqn:E3; [|discriminate].
  destruct (merge_def_registers a1 d1 a2 E1) as (R1 & m1 & F1 & T1 & S1).
  destruct (merge_defs_keeps l2 a2 a3 _ m1 E2 F1) as (m3 & F3 & T3 & S3). rewrite Ty in F3.
  destruct C as [C|C].
  - rewrite (merge_title_conflict a3 d2 m3) in E3; [discriminate|lia|exact F3|congruence].
  - rewrite (merge_chan_type_conflict a3 d2 m3) in E3; [discriminate|exact F3|congruence].
Qed.

(* B.2, conflicts: two threads whose accepted calls left definitions of one type with different titles or channel
   types: the emulator refuses the trace the runtime wrote *)
Theorem compose_conflict_through_json : forall ths finals f1 s1 f2 s2 f3 d1 d2,
  Forall thread_ok ths ->
  Forall2 (fun p s => rt_calls rtm_init (snd p) = Ret s) ths finals ->
  finals = f1 ++ s1 :: f2 ++ s2 :: f3 -> In d1 (rt_defs s1) -> In d2 (rt_defs s2) ->
  md_type d1 = md_type d2 -> (md_title d1 <> md_title d2 \/ md_stack d1 <> md_stack d2) ->
  exists trees, Forall2 (fun p fs => tree_calls (fst p) (snd p) = Some fs) ths trees /\
    emu_types_of_trees (map jobj trees) = None /\ emu_pcf_of_trees (map jobj trees) = None.
Proof.
  intros ths finals f1 s1 f2 s2 f3 d1 d2 O R E I1 I2 Ty C.
  destruct (compose_through_json ths finals O R) as (trees & F & _ & M). exists trees. split; [exact F|].
  assert (N : emu_types_of_trees (map jobj trees) = None).
  { rewrite M. unfold merge_threads. subst finals.
    apply in_split in I1. destruct I1 as (a1 & b1 & E1). apply in_split in I2. destruct I2 as (a2 & b2 & E2).
    rewrite map_app. cbn [map]. rewrite map_app. cbn [map]. rewrite E1, E2.
    rewrite concat_app. cbn [concat]. rewrite concat_app. cbn [concat]. rewrite <- !app_assoc. cbn [app].
    rewrite app_assoc.
    replace (b1 ++ concat (map rt_defs f2) ++ a2 ++ d2 :: b2 ++ concat (map rt_defs f3))
      with ((b1 ++ concat (map rt_defs f2) ++ a2) ++ d2 :: (b2 ++ concat (map rt_defs f3))) by (rewrite <- !app_assoc; reflexivity).
    apply conflicting_definitions_refused; assumption. }
  split; [exact N|]. unfold emu_pcf_of_trees, emu_pcf_of_trees_with. rewrite N. reflexivity.
Qed.

(* B.2, labels: the PCF sections of the trace the runtime wrote carry the merged titles and labels, for all label values *)
Theorem compose_pcf_through_json : forall ths finals ms,
  Forall thread_ok ths ->
  Forall2 (fun p s => rt_calls rtm_init (snd p) = Ret s) ths finals ->
  merge_threads (map rt_defs finals) = Some ms ->
  exists trees, Forall2 (fun p fs => tree_calls (fst p) (snd p) = Some fs) ths trees /\
    emu_pcf_of_trees (map jobj trees) = Some (map (fun m => (100 + mt_type m, mt_title m, mt_labels m)) ms).
Proof.
  intros ths finals ms O R M. destruct (compose_through_json ths finals O R) as (trees & F & _ & E). exists trees. split; [exact F|].
  unfold emu_pcf_of_trees, emu_pcf_of_trees_with. rewrite E, M. apply (pcf_labels_as_merged (map rt_defs finals)). exact M.
Qed.

(* ------------------------------------------------------------------ examples and the finding *)
Definition ex_base : fields := [(k_version, jnum 3); (k_ovni, jobj [(k_part, jstr k_thread); (k_tid, jnum 501)])].
Lemma ex_base_ok : base_tree ex_base.
Proof. eexists. split; vm_compute; reflexivity. Qed.

Definition sA : MarkDefs.str := [97].   Definition sB : MarkDefs.str := [98].   Definition sC : MarkDefs.str := [99].
Definition sP : MarkDefs.str := [112; 104].  Definition sQ : MarkDefs.str := [113].

(* thread 1: types 3 (stack) and 7 (single) with labels; thread 2: type 3 again with an overlapping and a new label, type 1 *)
Definition ex_calls1 : list mcall :=
  [MType 3 true (Some sP); MLabel 3 1 (Some sA); MPush 3 1; MType 7 false (Some sQ); MLabel 7 40 (Some sC); MLabel 3 2 (Some sB); MPop 3 1; MSet 7 40].
Definition ex_calls2 : list mcall :=
  [MType 3 true (Some sP); MLabel 3 2 (Some sB); MType 1 false (Some sQ); MLabel 3 9 (Some sC); MSet 1 5].
Definition ex_tree (cs : list mcall) : fields := match tree_calls ex_base cs with Some fs => fs | None => [] end.

Example ex_two_threads :
  rt_calls rtm_init ex_calls1 <> Die /\ rt_calls rtm_init ex_calls2 <> Die /\
  forallb call_typed (ex_calls1 ++ ex_calls2) = true /\ forallb call_fits (ex_calls1 ++ ex_calls2) = true /\
  pget (ex_tree ex_calls1) [k_ovni; k_mark] =
    Some (jobj [([51], jobj [(k_title, jstr sP); (k_chan_type, jstr s_stack); (k_labels, jobj [([49], jstr sA); ([50], jstr sB)])]);
                ([55], jobj [(k_title, jstr sQ); (k_chan_type, jstr s_single); (k_labels, jobj [([52; 48], jstr sC)])])]) /\
  emu_types_of_trees [jobj (ex_tree ex_calls1); jobj (ex_tree ex_calls2)] =
    Some [{| mt_type := 3; mt_title := sP; mt_stack := true; mt_labels := [(1, sA); (2, sB); (9, sC)] |};
          {| mt_type := 7; mt_title := sQ; mt_stack := false; mt_labels := [(40, sC)] |};
          {| mt_type := 1; mt_title := sQ; mt_stack := false; mt_labels := [] |}] /\
  emu_pcf_of_trees [jobj (ex_tree ex_calls1); jobj (ex_tree ex_calls2)] =
    Some [(103, sP, [(1, sA); (2, sB); (9, sC)]); (107, sQ, [(40, sC)]); (101, sQ, [])].
Proof. repeat split; try discriminate; vm_compute; reflexivity. Qed.

(* a second thread that calls type 3 "single" (or with another title, or label 2 with another text) *)
Example ex_conflicts :
  emu_types_of_trees [jobj (ex_tree ex_calls1); jobj (ex_tree [MType 3 false (Some sP)])] = None /\
  emu_types_of_trees [jobj (ex_tree ex_calls1); jobj (ex_tree [MType 3 true (Some sQ)])] = None /\
  emu_types_of_trees [jobj (ex_tree ex_calls1); jobj (ex_tree [MType 3 true (Some sP); MLabel 3 2 (Some sC)])] = None.
Proof. repeat split; vm_compute; reflexivity. Qed.

(* strtol as the emulator uses it: what counts as a number *)
Example ex_numbers :
  parse_number [55] = Some 7 /\ parse_number [48; 55] = Some 7 /\ parse_number [43; 55] = Some 7 /\ parse_number [32; 9; 55] = Some 7 /\
  parse_number [45; 48] = Some 0 /\ parse_number [45; 55] = Some (-7) /\
  parse_number [] = None /\ parse_number [55; 120] = None /\ parse_number [48; 120; 55] = None /\ parse_number [55; 32] = None /\
  parse_number [55; 46; 48] = None /\ parse_number [45] = None /\ parse_number [43; 45; 55] = None /\
  parse_number [57; 50; 50; 51; 51; 55; 50; 48; 51; 54; 56; 53; 52; 55; 55; 53; 56; 48; 55] = Some (2 ^ 63 - 1) /\
  parse_number [57; 50; 50; 51; 51; 55; 50; 48; 51; 54; 56; 53; 52; 55; 55; 53; 56; 48; 56] = None.
Proof. repeat split; vm_compute; reflexivity. Qed.

(* hand-made metadata the emulator does NOT refuse: a key "07" (type 7), " +7" next to "7" (the same type, merged), an
   empty title, labels for the values 0 and -3 *)
Definition ex_odd_mark : fields :=
  [([48; 55], jobj [(k_title, jstr []); (k_chan_type, jstr s_single); (k_labels, jobj [([48], jstr sA); ([45; 51], jstr sB)])]);
   ([32; 43; 55], jobj [(k_chan_type, jstr s_single); (k_title, jstr [])])].
Example ex_odd_accepted :
  emu_types_of_trees [jobj [(k_ovni, jobj [(k_mark, jobj ex_odd_mark)])]] =
    Some [{| mt_type := 7; mt_title := []; mt_stack := false; mt_labels := [(0, sA); (-3, sB)] |}] /\
  emu_types_of_trees [jobj [(k_ovni, jobj [(k_mark, jstr sA)])]] = Some [] /\
  emu_types_of_trees [jobj [(k_ovni, jobj [(k_mark, jarr [])])]] = Some [].
Proof. repeat split; vm_compute; reflexivity. Qed.

(* THE FINDING label-value-truncated-to-int, REPAIRED (C17 "with the labels registered for the type"): label values are int64
   at run time; before the repair the PCF took (int) value (the *_old model):
   (a) two labels of one type whose values agree modulo 2^32: every call is accepted, the merge succeeds, the old emulator
       failed in pcf_add_value;
   (b) one label for 2^32+5: the old emulator filed the label under 5, the value written to the row had none *)
Definition ex_big_a : list mcall := [MType 3 false (Some sP); MLabel 3 5 (Some sA); MLabel 3 4294967301 (Some sB); MSet 3 5; MSet 3 4294967301].
Definition ex_big_b : list mcall := [MType 3 false (Some sP); MLabel 3 4294967301 (Some sB); MSet 3 4294967301].

Theorem labels_beyond_int_refuted_old :
  (exists cs s fs, forallb call_typed cs = true /\ forallb call_fits cs = true /\ rt_calls rtm_init cs = Ret s /\
     tree_calls ex_base cs = Some fs /\ parse_mark_json (jobj fs) = Some (rt_defs s) /\
     emu_types_of_trees [jobj fs] <> None /\ emu_pcf_of_trees_old [jobj fs] = None) /\
  (exists cs s fs secs, forallb call_typed cs = true /\ forallb call_fits cs = true /\ rt_calls rtm_init cs = Ret s /\
     tree_calls ex_base cs = Some fs /\ In (61, 4294967301, 3) (rt_events s) /\
     emu_pcf_of_trees_old [jobj fs] = Some secs /\ pcf_label secs 103 4294967301 = None /\ pcf_label secs 103 5 = Some sB).
Proof.
  split.
  - exists ex_big_a. eexists. eexists. repeat split; try (vm_compute; reflexivity). vm_compute. discriminate.
  - exists ex_big_b. eexists. eexists. eexists. repeat split; try (vm_compute; reflexivity). vm_compute. tauto.
Qed.

(* the witness programs on the repaired code: both labels under type 103, each under its own value *)
Example ex_big_repaired :
  emu_pcf_of_trees [jobj (ex_tree ex_big_a)] = Some [(103, sP, [(5, sA); (4294967301, sB)])] /\
  emu_pcf_of_trees [jobj (ex_tree ex_big_b)] = Some [(103, sP, [(4294967301, sB)])] /\
  (forall secs, emu_pcf_of_trees [jobj (ex_tree ex_big_a)] = Some secs ->
     pcf_label secs 103 5 = Some sA /\ pcf_label secs 103 4294967301 = Some sB).
Proof.
  split; [vm_compute; reflexivity|]. split; [vm_compute; reflexivity|].
  intros secs H. vm_compute in H. injection H as <-. split; vm_compute; reflexivity.
Qed.
