(* C20 unification, part 1: the walk of ONE dirty channel of the breakdown wiring (BayDefs.run_cbs on
   BayBreakdownDefs.bd_bay) computes the state that SortDefs.run_cbs describes (stepf), for each of the six channels,
   by exhaustive case analysis on which input is selected, which channel values are null, which outputs are already
   dirty, and fx. *)
From Coq Require Import ZArith List Bool Lia.
From OV Require Import Emu.EmuCoreDefs Emu.BayDefs Emu.BayBreakdownDefs Emu.BayBreakdownRelDefs.
From OV Require Emu.SortDefs.
Import ListNotations.
Local Open Scope Z_scope.

Lemma unemb_emb v : unemb (emb v) = v. Proof. destruct v; reflexivity. Qed.

Section Bd.
  Variable fx : bool.
  Variables BODY UNKNOWN PROG : Z.

  Definition has (x : SD.chn) (ws : list SD.chn) : bool := existsb (SD.chn_eqb x) ws.

  (* the state after walking channel c, computed with SortDefs.run_cbs *)
  Definition stepf (s : bdst) (c : nat) : bdst :=
    if Nat.eqb c 5 then s else
    let '(w', ws) := SD.run_cbs fx BODY UNKNOWN PROG (wires_of s) (chn_of c) in
    let wtr := has SD.TR ws in
    let wtri := has SD.TRI ws in
    let snk := Nat.eqb c 4 in
    {| v_ss := v_ss s; v_tt := v_tt s; v_idle := v_idle s;
       v_tr := (if wtr then unemb (SD.w_tr w') else v_tr s); v_tri := (if wtri then unemb (SD.w_tri w') else v_tri s); v_sink := if snk then v_tri s else v_sink s;
       l_ss := l_ss s; l_tt := l_tt s; l_idle := l_idle s; l_tr := l_tr s; l_tri := l_tri s; l_sink := l_sink s;
       d_ss := d_ss s; d_tt := d_tt s; d_idle := d_idle s;
       d_tr := (if wtr then true else d_tr s); d_tri := (if wtri then true else d_tri s); d_sink := (if snk then true else d_sink s);
       e_sel0 := SD.w_sel0 w'; e_sel1 := SD.w_sel1 w';
       m_s0 := if Nat.eqb c 0 || (fx && Nat.eqb c 1) then idx (SD.w_sel0 w') else m_s0 s;
       m_s1 := if Nat.eqb c 2 then idx (SD.w_sel1 w') else m_s1 s;
       (* one walk dirties at most one more channel *)
       q_dirty := if wtr && negb (d_tr s) then q_dirty s ++ [3%nat]
                  else if wtri && negb (d_tri s) then q_dirty s ++ [4%nat]
                  else if snk && negb (d_sink s) then q_dirty s ++ [5%nat] else q_dirty s |}.

End Bd.

Section BdSteps.
  Variable fx : bool.
  Variables BODY UNKNOWN PROG : Z.
  Local Notation stepf := (stepf fx BODY UNKNOWN PROG).

  Ltac eqbs := repeat match goal with |- context [(?a =? ?b)] => destruct (a =? b) eqn:? end.

  Ltac brute := cbv -[Z.eqb]; eqbs; reflexivity.

  Lemma step_SS s : okS (e_sel0 s) (m_s0 s) -> run_cbs (bd_bay fx BODY UNKNOWN PROG s) 0 = Ok (bd_bay fx BODY UNKNOWN PROG (stepf s 0)).
  Proof.
    destruct s as [a1 a2 a3 a4 a5 a6 b1 b2 b3 b4 b5 b6 c1 c2 c3 c4 c5 c6 e0 e1 s0 s1 q]. cbn [e_sel0 m_s0]. intros Hok.
    destruct e0 as [[|]|]; cbn [okS] in Hok; [subst s0|subst s0|destruct Hok as [->|[->| ->]]];
      destruct a1 as [i|]; destruct a2 as [j|]; destruct c4; destruct fx; brute.
  Qed.

  Lemma step_TT s : okS (e_sel0 s) (m_s0 s) -> run_cbs (bd_bay fx BODY UNKNOWN PROG s) 1 = Ok (bd_bay fx BODY UNKNOWN PROG (stepf s 1)).
  Proof.
    destruct s as [a1 a2 a3 a4 a5 a6 b1 b2 b3 b4 b5 b6 c1 c2 c3 c4 c5 c6 e0 e1 s0 s1 q]. cbn [e_sel0 m_s0]. intros Hok.
    destruct e0 as [[|]|]; cbn [okS] in Hok; [subst s0|subst s0|destruct Hok as [->|[->| ->]]];
      destruct a1 as [i|]; destruct a2 as [j|]; destruct c4; destruct fx; brute.
  Qed.

  Lemma step_IDLE s : okS (e_sel1 s) (m_s1 s) -> run_cbs (bd_bay fx BODY UNKNOWN PROG s) 2 = Ok (bd_bay fx BODY UNKNOWN PROG (stepf s 2)).
  Proof.
    destruct s as [a1 a2 a3 a4 a5 a6 b1 b2 b3 b4 b5 b6 c1 c2 c3 c4 c5 c6 e0 e1 s0 s1 q]. cbn [e_sel1 m_s1]. intros Hok.
    destruct e1 as [[|]|]; cbn [okS] in Hok; [subst s1|subst s1|destruct Hok as [->|[->| ->]]];
      destruct a3 as [i|]; destruct a4 as [j|]; destruct c5; destruct fx; brute.
  Qed.

  Lemma step_TR s : run_cbs (bd_bay fx BODY UNKNOWN PROG s) 3 = Ok (bd_bay fx BODY UNKNOWN PROG (stepf s 3)).
  Proof.
    destruct s as [a1 a2 a3 a4 a5 a6 b1 b2 b3 b4 b5 b6 c1 c2 c3 c4 c5 c6 e0 e1 s0 s1 q].
    destruct e1 as [[|]|]; destruct a4 as [j|]; destruct c5; destruct fx; brute.
  Qed.

  Lemma step_TRI s : run_cbs (bd_bay fx BODY UNKNOWN PROG s) 4 = Ok (bd_bay fx BODY UNKNOWN PROG (stepf s 4)).
  Proof.
    destruct s as [a1 a2 a3 a4 a5 a6 b1 b2 b3 b4 b5 b6 c1 c2 c3 c4 c5 c6 e0 e1 s0 s1 q].
    destruct a5 as [j|]; destruct c6; destruct fx; brute.
  Qed.

  Lemma step_SINK s : run_cbs (bd_bay fx BODY UNKNOWN PROG s) 5 = Ok (bd_bay fx BODY UNKNOWN PROG (stepf s 5)).
  Proof. reflexivity. Qed.

  Theorem step s c : (c < 6)%nat -> okS (e_sel0 s) (m_s0 s) -> okS (e_sel1 s) (m_s1 s) ->
    run_cbs (bd_bay fx BODY UNKNOWN PROG s) c = Ok (bd_bay fx BODY UNKNOWN PROG (stepf s c)).
  Proof.
    intros Hc H0 H1. do 6 (destruct c as [|c]; [auto using step_SS, step_TT, step_IDLE, step_TR, step_TRI, step_SINK|]). lia.
  Qed.
End BdSteps.
