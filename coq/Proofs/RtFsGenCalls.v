(* General (every thread, every readdir order) call-sequence theorem for the generated relocation code, no fault. *)
From Coq Require Import ZArith List Bool String Arith Lia.
From OV Require Import Rt.RtFsDefs Rt.RtFsPre Proofs.RtFsGenProofs.
From OV Require Gen.RtFs_gen.
Import ListNotations.
Local Open Scope Z_scope.
Lemma skipn_add {A} a b (l : list A) : skipn (a + b) l = skipn b (skipn a l).
Proof. revert l. induction a as [|a IH]; intros l; [reflexivity|]. destruct l; [destruct b; reflexivity|]. cbn. apply IH. Qed.

#[local] Arguments Z.to_nat : simpl never.
#[local] Arguments firstn : simpl never.
#[local] Arguments skipn : simpl never.
#[local] Arguments Z.of_nat : simpl never.

Definition W (log : list op) (errno : Z) rpos ferr dpass dpos buf : world := mkw log None false false errno rpos ferr dpass dpos buf.

Definition copy_cond : expr := EBin OGt (EAssign "bytes" (EPrim "fread" [(EVar "buffer"); (ELit (1)); (ELit (1024)); (EVar "infile")])) (ELit (0)).
Definition copy_body : stmt :=
(SIf (EBin ONe (EPrim "fwrite" [(EVar "buffer"); (ELit (1)); (EVar "bytes"); (EVar "outfile")]) (EVar "bytes"))
(SSeq SErr
(SSeq (SExpr (EAssign "ret" (ELit (-1))))
SBreak))
SSkip).
Definition copy_loop : stmt := SWhile copy_cond copy_body.

Section S.
Variables (E : env) (fns : list (string * fn)) (src dst : path).
Hypothesis Hss : path_eqb src src = true.
Hypothesis Hne : path_eqb src dst = false.

Lemma while_unfold n c b s w : exec E fns (S n) (SWhile c b) s w =
  match eval E fns n c s w with
  | ROk (v, s1, w1) =>
    match truth v with
    | Some true => match exec E fns n b s1 w1 with
                   | ROk (ONormal, s2, w2) | ROk (OContinue, s2, w2) => exec E fns n (SWhile c b) s2 w2
                   | ROk (OBreak, s2, w2) => ROk (ONormal, s2, w2)
                   | r => r
                   end
    | Some false => ROk (ONormal, s1, w1)
    | None => RStuck
    end
  | RDie x => RDie x | RStuck => RStuck | RNoFuel => RNoFuel
  end.
Proof. reflexivity. Qed.
Lemma seq_unfold n a b s w : exec E fns (S n) (SSeq a b) s w =
  match exec E fns n a s w with ROk (ONormal, s1, w1) => exec E fns n b s1 w1 | r => r end.
Proof. reflexivity. Qed.
Ltac seq_step :=
  rewrite seq_unfold;
  match goal with |- context [match exec E fns ?n ?a ?s ?w with _ => _ end] =>
    let r := eval cbn in (exec E fns n a s w) in change (exec E fns n a s w) with r end;
  cbv beta iota.

(* the frame of copy_thread_to_final *)
Definition cst (vret vb : val) : store :=
  [("src"%string, VPath src); ("dst"%string, VPath dst); ("buffer"%string, VUndef); ("ret"%string, vret);
   ("infile"%string, VPath src); ("outfile"%string, VPath dst); ("bytes"%string, vb)].

Lemma cond_ok n vb log errno rpos ferr dpass dpos buf : (5 <= n)%nat ->
  let c := firstn (Z.to_nat 1024) (skipn (rpos src) (e_data E src)) in
  eval E fns n copy_cond (cst (VZ 0) vb) (W log errno rpos ferr dpass dpos buf) =
  ROk (b2v (Z.of_nat (List.length c) >? 0), cst (VZ 0) (VZ (Z.of_nat (List.length c))),
       W (Fread src c :: log) errno (updp rpos src (rpos src + List.length c)%nat) ferr dpass dpos c).
Proof. intros Hn c. do 5 (destruct n as [|n]; [lia|]). unfold copy_cond, W, cst. cbn. reflexivity. Qed.

Lemma body_ok n log errno rpos ferr dpass dpos c : (6 <= n)%nat ->
  exec E fns n copy_body (cst (VZ 0) (VZ (Z.of_nat (List.length c)))) (W log errno rpos ferr dpass dpos c) =
  ROk (ONormal, cst (VZ 0) (VZ (Z.of_nat (List.length c))), W (Fwrite dst c :: log) errno rpos ferr dpass dpos c).
Proof.
  intros Hn. do 6 (destruct n as [|n]; [lia|]). unfold copy_body, W, cst. cbn.
  rewrite Nat2Z.id, firstn_all. cbn. rewrite Z.eqb_refl. cbn. reflexivity.
Qed.

Definition loop_ops (cs : list (list Z)) : list op :=
  flat_map (fun c => [Fread src c; Fwrite dst c]) cs ++ [Fread src []].

Lemma loop_ok : forall k vb log errno rpos ferr dpass dpos buf n,
  (List.length (skipn (rpos src) (e_data E src)) <= k)%nat -> (k + 8 <= n)%nat ->
  exists vb' rpos' buf',
    exec E fns n copy_loop (cst (VZ 0) vb) (W log errno rpos ferr dpass dpos buf) =
      ROk (ONormal, cst (VZ 0) vb', W (rev (loop_ops (chunks k (Z.to_nat 1024) (skipn (rpos src) (e_data E src)))) ++ log) errno rpos' ferr dpass dpos buf').
Proof.
  induction k as [|k IH]; intros vb log errno rpos ferr dpass dpos buf n Hk Hn.
  - destruct n as [|n]; [lia|]. unfold copy_loop. rewrite while_unfold. rewrite (cond_ok n vb log errno rpos ferr dpass dpos buf ltac:(lia)). cbv zeta.
    destruct (skipn (rpos src) (e_data E src)) as [|x r] eqn:Er; [|cbn in Hk; lia].
    rewrite firstn_nil. cbn. eexists _, _, _. reflexivity.
  - destruct n as [|n]; [lia|]. unfold copy_loop. rewrite while_unfold. rewrite (cond_ok n vb log errno rpos ferr dpass dpos buf ltac:(lia)). cbv zeta.
    destruct (skipn (rpos src) (e_data E src)) as [|x r] eqn:Er.
    + rewrite firstn_nil. cbn. eexists _, _, _. reflexivity.
    + set (c := firstn (Z.to_nat 1024) (x :: r)).
      assert (Hc : (0 < List.length c)%nat).
      { unfold c. rewrite firstn_length. cbn [List.length]. assert (0 < Z.to_nat 1024)%nat by (vm_compute; lia). lia. }
      assert (Hpos : (Z.of_nat (List.length c) >? 0) = true) by (apply Z.gtb_lt; lia).
      rewrite Hpos. cbn [b2v truth Z.eqb negb].
      rewrite (body_ok n _ errno _ ferr dpass dpos c ltac:(lia)).
      fold copy_loop.
      set (rpos2 := updp rpos src (rpos src + List.length c)%nat).
      assert (Hr2 : rpos2 src = (rpos src + List.length c)%nat) by (unfold rpos2, updp; rewrite Hss; reflexivity).
      assert (Hsk : skipn (rpos2 src) (e_data E src) = skipn (Z.to_nat 1024) (x :: r)).
      { rewrite Hr2. rewrite skipn_add, Er. unfold c.
        destruct (Nat.le_gt_cases (Z.to_nat 1024) (List.length (x :: r))) as [H|H].
        - rewrite firstn_length_le by exact H. reflexivity.
        - rewrite firstn_all2 by lia. rewrite skipn_all. rewrite skipn_all2 by lia. reflexivity. }
      destruct (IH (VZ (Z.of_nat (List.length c))) (Fwrite dst c :: Fread src c :: log) errno rpos2 ferr dpass dpos c n) as (vb' & rpos' & buf' & X).
      * rewrite Hsk. rewrite skipn_length. cbn [List.length] in Hk |- *. assert (0 < Z.to_nat 1024)%nat by (vm_compute; lia). lia.
      * lia.
      * exists vb', rpos', buf'. rewrite X.
        rewrite Hsk. cbn [chunks]. fold c.
        assert (Hlog : forall CH, rev (loop_ops (c :: CH)) ++ log = rev (loop_ops CH) ++ Fwrite dst c :: Fread src c :: log).
        { intros CH. unfold loop_ops. cbn [flat_map app rev]. rewrite <- !app_assoc. reflexivity. }
        rewrite Hlog. reflexivity.
Qed.

Definition copy_ops (data : list Z) : list op :=
  FopenR src :: FopenW dst :: loop_ops (chunks1024 data) ++ [Fclose dst; Fclose src].

Lemma chunks_fuel n : (0 < n)%nat -> forall f1 f2 (l : list Z), (List.length l <= f1)%nat -> (List.length l <= f2)%nat -> chunks f1 n l = chunks f2 n l.
Proof.
  intros Hn. induction f1 as [|f1 IH]; intros f2 l H1 H2.
  - destruct l; [|cbn in H1; lia]. destruct f2; reflexivity.
  - destruct f2 as [|f2]; [destruct l; [reflexivity|cbn in H2; lia]|].
    destruct l as [|a l]; [reflexivity|]. cbn [chunks]. f_equal.
    assert (L : (List.length (skipn n (a :: l)) <= List.length l)%nat) by (rewrite skipn_length; cbn [List.length]; lia).
    cbn [List.length] in H1, H2. apply IH; lia.
Qed.

Definition copy_pre (rest : stmt) : stmt :=
(SSeq (SDecl "buffer" None)
(SSeq (SDecl "ret" (Some (ELit (0))))
(SSeq (SDecl "infile" (Some (EPrim "fopen" [(EVar "src"); (EStr "r")])))
(SSeq (SIf (EBin OEq (EVar "infile") ENull)
(SSeq SErr
(SRet (Some (ELit (-1)))))
SSkip)
(SSeq (SDecl "outfile" (Some (EPrim "fopen" [(EVar "dst"); (EStr "w")])))
(SSeq (SIf (EBin OEq (EVar "outfile") ENull)
(SSeq SErr
(SSeq (SExpr (EPrim "fclose" [(EVar "infile")]))
(SRet (Some (ELit (-1))))))
SSkip)
(SSeq (SDecl "bytes" None) rest))))))).
Definition copy_tail : stmt :=
(SSeq (SIf (EAnd (EBin OEq (EVar "ret") (ELit (0))) (EPrim "ferror" [(EVar "infile")]))
(SSeq SErr
(SExpr (EAssign "ret" (ELit (-1)))))
SSkip)
(SSeq (SIf (EAnd (EBin ONe (EPrim "fclose" [(EVar "outfile")]) (ELit (0))) (EBin OEq (EVar "ret") (ELit (0))))
(SSeq SErr
(SExpr (EAssign "ret" (ELit (-1)))))
SSkip)
(SSeq (SExpr (EPrim "fclose" [(EVar "infile")]))
(SRet (Some (EVar "ret")))))).

Lemma copy_shape : f_body RtFs_gen.f_copy_thread_to_final = copy_pre (SSeq copy_loop copy_tail).
Proof. reflexivity. Qed.

(* the frame on entry: parameters, then the locals *)
Definition cst0 : store :=
  [("src"%string, VPath src); ("dst"%string, VPath dst); ("buffer"%string, VUndef); ("ret"%string, VUndef);
   ("infile"%string, VUndef); ("outfile"%string, VUndef); ("bytes"%string, VUndef)].
Lemma copy_frame : frame RtFs_gen.f_copy_thread_to_final [VPath src; VPath dst] = Some cst0.
Proof. reflexivity. Qed.

Lemma pre_ok rest n log errno rpos ferr dpass dpos buf :
  exec E fns (S (S (S (S (S (S (S (S (S (S (S (S n)))))))))))) (copy_pre rest) cst0 (W log errno rpos ferr dpass dpos buf) =
  exec E fns (S (S (S (S (S n))))) rest (cst (VZ 0) VUndef)
       (W (FopenW dst :: FopenR src :: log) errno (updp (updp rpos src 0%nat) dst 0%nat) (updp (updp ferr src false) dst false) dpass dpos buf).
Proof. unfold copy_pre, W, cst0. do 7 seq_step. reflexivity. Qed.

Lemma tail_ok n vb log errno rpos ferr dpass dpos buf : (12 <= n)%nat -> ferr src = false ->
  exec E fns n copy_tail (cst (VZ 0) vb) (W log errno rpos ferr dpass dpos buf) =
  ROk (OReturn (VZ 0), cst (VZ 0) vb, W (Fclose src :: Fclose dst :: log) errno rpos ferr dpass dpos buf).
Proof.
  intros Hn Hf. do 12 (destruct n as [|n]; [lia|]). unfold copy_tail, W, cst. cbn. rewrite Hf. cbn. reflexivity.
Qed.

Lemma copy_ok k n log errno rpos ferr dpass dpos buf :
  (List.length (e_data E src) <= k)%nat -> (k + 30 <= n)%nat ->
  exists s' rpos' ferr' buf',
    exec E fns n (f_body RtFs_gen.f_copy_thread_to_final) cst0 (W log errno rpos ferr dpass dpos buf) =
    ROk (OReturn (VZ 0), s', W (rev (copy_ops (e_data E src)) ++ log) errno rpos' ferr' dpass dpos buf').
Proof.
  intros Hk Hn. destruct (Nat.le_exists_sub (k + 30) n Hn) as (m & -> & _).
  replace (m + (k + 30))%nat with (S (S (S (S (S (S (S (S (S (S (S (S (18 + (k + m))))))))))))))%nat by lia.
  rewrite copy_shape, pre_ok, seq_unfold.
  set (rpos7 := updp (updp rpos src 0%nat) dst 0%nat). set (ferr7 := updp (updp ferr src false) dst false).
  assert (Hr7 : rpos7 src = 0%nat) by (unfold rpos7, updp; rewrite Hne, Hss; reflexivity).
  assert (Hf7 : ferr7 src = false) by (unfold ferr7, updp; rewrite Hne, Hss; reflexivity).
  destruct (loop_ok k VUndef (FopenW dst :: FopenR src :: log) errno rpos7 ferr7 dpass dpos buf (S (S (S (S (18 + (k + m)))))))
    as (vb' & rpos' & buf' & X).
  - rewrite Hr7. exact Hk.
  - lia.
  - rewrite X. rewrite (tail_ok (S (S (S (S (18 + (k + m)))))) vb' _ errno rpos' ferr7 dpass dpos buf' ltac:(lia) Hf7).
    eexists _, rpos', ferr7, buf'. f_equal. f_equal. unfold W. f_equal.
    rewrite Hr7. change (skipn 0 (e_data E src)) with (e_data E src).
    unfold copy_ops, chunks1024. rewrite (chunks_fuel (Z.to_nat 1024) ltac:(vm_compute; lia) k (List.length (e_data E src)) (e_data E src) Hk (le_n _)).
    change (Z.to_nat 1024) with 1024%nat.
    cbn [rev app]. rewrite !rev_app_distr. cbn [rev app]. rewrite <- !app_assoc. reflexivity.
Qed.
End S.

(* ================================================================ move_thdir_step *)
#[local] Arguments Z.to_nat : simpl nomatch.
#[local] Arguments Z.of_nat : simpl nomatch.

Fixpoint nth_seq (n : nat) (c : stmt) : stmt :=
  match n, c with O, SSeq a _ => a | S k, SSeq _ b => nth_seq k b | _, _ => c end.
Fixpoint drop_seq (n : nat) (c : stmt) : stmt :=
  match n, c with O, _ => c | S k, SSeq _ b => drop_seq k b | _, _ => c end.
Definition step_loop : stmt := Eval cbv in nth_seq 5 (f_body RtFs_gen.f_move_thdir_step).
Definition step_cond : expr := Eval cbv in match step_loop with SWhile c _ => c | _ => ENull end.
Definition step_body : stmt := Eval cbv in match step_loop with SWhile _ b => b | _ => SSkip end.
Definition step_tail : stmt := Eval cbv in drop_seq 6 (f_body RtFs_gen.f_move_thdir_step).
Definition step_last : stmt := Eval cbv in drop_seq 8 step_body.

Section Step.
Variables (E : env) (fns : list (string * fn)) (t : Z).
Let dir := PThread Tmp t.
Let dirf := PThread Fin t.
Hypothesis Hfn : find_fn fns "copy_thread_to_final" = Some RtFs_gen.f_copy_thread_to_final.

Lemma pf_ss l f : path_eqb (PFile l t f) (PFile l t f) = true.
Proof. cbn. rewrite Z.eqb_refl. destruct l, f; reflexivity. Qed.
Lemma pf_ne f : path_eqb (PFile Tmp t f) (PFile Fin t f) = false.
Proof. reflexivity. Qed.
Lemma dir_ss : path_eqb dir dir = true.
Proof. unfold dir. cbn. rewrite Z.eqb_refl. reflexivity. Qed.

Definition sst (p : Z) (vdir vdirent vmeta vthread vtf : val) : store :=
  [("thdir"%string, VPath dir); ("thdir_final"%string, VPath dirf); ("step"%string, VZ p); ("dir"%string, vdir); ("ret"%string, VZ 0);
   ("dirent"%string, vdirent); ("prefix"%string, VStr "stream."); ("is_meta"%string, vmeta); ("thread"%string, vthread); ("thread_final"%string, vtf)].

(* the calls of one directory entry in pass p, after its readdir *)
Definition ent_ops (p : Z) (e : entry) : list op :=
  match e with
  | EFile f =>
    if p =? 2 then [Remove (PFile Tmp t f)]
    else if (match f with Json => p =? 1 | Obs => p =? 0 end)
         then copy_ops (PFile Tmp t f) (PFile Fin t f) (e_data E (PFile Tmp t f))
         else []
  | _ => []
  end.

Lemma cond2_some n p vd vm vt vtf log errno rpos ferr dpass dpos buf e : (5 <= n)%nat ->
  nth_error (e_rho E dir (dpass dir)) (dpos dir) = Some e ->
  eval E fns n step_cond (sst p (VPath dir) vd vm vt vtf) (W log errno rpos ferr dpass dpos buf) =
  ROk (b2v true, sst p (VPath dir) (VEnt e) vm vt vtf, W (Readdir dir (Some e) :: log) 0 rpos ferr dpass (updp dpos dir (S (dpos dir))) buf).
Proof.
  intros Hn He. do 5 (destruct n as [|n]; [lia|]). unfold step_cond, W, sst. cbn. rewrite He. cbn. reflexivity.
Qed.
Lemma cond2_none n p vd vm vt vtf log errno rpos ferr dpass dpos buf : (5 <= n)%nat ->
  nth_error (e_rho E dir (dpass dir)) (dpos dir) = None ->
  eval E fns n step_cond (sst p (VPath dir) vd vm vt vtf) (W log errno rpos ferr dpass dpos buf) =
  ROk (b2v false, sst p (VPath dir) VNull vm vt vtf, W (Readdir dir None :: log) 0 rpos ferr dpass dpos buf).
Proof.
  intros Hn He. do 5 (destruct n as [|n]; [lia|]). unfold step_cond, W, sst. cbn. rewrite He. cbn. reflexivity.
Qed.

Definition cont (o : out) : Prop := o = ONormal \/ o = OContinue.

(* entries that are skipped or removed: no call of a translated function *)
Lemma body2_simple n p e vm vt vtf log rpos ferr dpass dpos buf : (24 <= n)%nat ->
  p = 0 \/ p = 1 \/ p = 2 ->
  (match e with EFile f => p = 2 \/ (match f with Json => p = 0 | Obs => p = 1 end) | _ => True end) ->
  exists o vm' vt' vtf',
    exec E fns n step_body (sst p (VPath dir) (VEnt e) vm vt vtf) (W log 0 rpos ferr dpass dpos buf) =
    ROk (o, sst p (VPath dir) (VEnt e) vm' vt' vtf', W (rev (ent_ops p e) ++ log) 0 rpos ferr dpass dpos buf) /\ cont o.
Proof.
  intros Hn Hp He. destruct (Nat.le_exists_sub 24 n Hn) as (m & -> & _). rewrite Nat.add_comm. cbn [Nat.add].
  unfold step_body, W, sst, cont, ent_ops.
  destruct e as [| |[|]]; destruct Hp as [-> | [-> | ->]]; try (destruct He as [He|He]; discriminate He); cbn;
    eexists _, _, _, _; (split; [reflexivity|auto]).
Qed.

Lemma if_unfold n e a b s w : exec E fns (S n) (SIf e a b) s w =
  match eval E fns n e s w with
  | ROk (v, s1, w1) => match truth v with Some true => exec E fns n a s1 w1 | Some false => exec E fns n b s1 w1 | None => RStuck end
  | RDie x => RDie x | RStuck => RStuck | RNoFuel => RNoFuel
  end.
Proof. reflexivity. Qed.
Lemma ebin_unfold n o a b s w : eval E fns (S n) (EBin o a b) s w =
  match eval E fns n a s w with
  | ROk (va, s1, w1) =>
    match eval E fns n b s1 w1 with
    | ROk (vb, s2, w2) => match binop_val o va vb with Some v => ROk (v, s2, w2) | None => RStuck end
    | r => r
    end
  | r => r
  end.
Proof. reflexivity. Qed.
Lemma ecall_copy_unfold n s w :
  eval E fns (S (S n)) (ECall "copy_thread_to_final" [EVar "thread"; EVar "thread_final"]) s w =
  match frame RtFs_gen.f_copy_thread_to_final [sget s "thread"; sget s "thread_final"] with
  | Some s0 => match exec E fns (S n) (f_body RtFs_gen.f_copy_thread_to_final) s0 w with
               | ROk (OReturn v, _, w2) => ROk (v, s, w2)
               | ROk (_, _, w2) => ROk (VUndef, s, w2)
               | RDie x => RDie x | RStuck => RStuck | RNoFuel => RNoFuel
               end
  | None => RStuck
  end.
Proof. cbn [eval]. cbn [String.eqb Ascii.eqb Bool.eqb]. rewrite Hfn. reflexivity. Qed.

Lemma seq_unfold' n a b s w : exec E fns (S n) (SSeq a b) s w =
  match exec E fns n a s w with ROk (ONormal, s1, w1) => exec E fns n b s1 w1 | r => r end.
Proof. reflexivity. Qed.
Ltac seq_step' :=
  rewrite seq_unfold';
  match goal with |- context [match exec E fns ?n ?a ?s ?w with _ => _ end] =>
    let r := eval cbn in (exec E fns n a s w) in change (exec E fns n a s w) with r end;
  cbv beta iota.

Lemma body_shape : step_body = SSeq (nth_seq 0 step_body) (SSeq (nth_seq 1 step_body) (SSeq (nth_seq 2 step_body) (SSeq (nth_seq 3 step_body)
  (SSeq (nth_seq 4 step_body) (SSeq (nth_seq 5 step_body) (SSeq (nth_seq 6 step_body) (SSeq (nth_seq 7 step_body) step_last))))))).
Proof. reflexivity. Qed.

(* the entry that is copied in this pass *)
Lemma body2_copy k n p f vm vt vtf log rpos ferr dpass dpos buf :
  (List.length (e_data E (PFile Tmp t f)) <= k)%nat -> (k + 60 <= n)%nat ->
  (match f with Json => p = 1 | Obs => p = 0 end) ->
  exists o vm' vt' vtf' rpos' ferr' buf',
    exec E fns n step_body (sst p (VPath dir) (VEnt (EFile f)) vm vt vtf) (W log 0 rpos ferr dpass dpos buf) =
    ROk (o, sst p (VPath dir) (VEnt (EFile f)) vm' vt' vtf', W (rev (ent_ops p (EFile f)) ++ log) 0 rpos' ferr' dpass dpos buf') /\ cont o.
Proof.
  intros Hk Hn Hp. destruct (Nat.le_exists_sub (k + 60) n Hn) as (m & -> & _).
  replace (m + (k + 60))%nat with (S (S (S (S (S (S (S (S (S (S (S (S (S (S (46 + (k + m))))))))))))))))%nat by lia.
  rewrite body_shape. unfold W, sst, cont, ent_ops.
  destruct f; subst p; cbn [nth_seq step_body step_last Z.eqb].
  - (* stream.obs in pass 0 *)
    do 8 seq_step'. unfold step_last. rewrite if_unfold.
    match goal with |- context [match eval E fns ?n ?a ?s ?w with _ => _ end] =>
      let r := eval cbn in (eval E fns n a s w) in change (eval E fns n a s w) with r end. cbv beta iota. cbn [truth b2v Z.eqb negb].
    rewrite if_unfold, ebin_unfold, ecall_copy_unfold. cbn [sget String.eqb Ascii.eqb Bool.eqb].
    rewrite (copy_frame (PFile Tmp t Obs) (PFile Fin t Obs)).
    destruct (copy_ok E fns (PFile Tmp t Obs) (PFile Fin t Obs) (pf_ss Tmp Obs) (pf_ne Obs) k (S (S (46 + (k + m)))) log 0 rpos ferr dpass dpos buf Hk ltac:(lia))
      as (s' & rpos' & ferr' & buf' & X).
    unfold W in X. rewrite X. cbn.
    eexists _, _, _, _, rpos', ferr', buf'. split; [reflexivity|auto].
  - (* stream.json in pass 1 *)
    do 8 seq_step'. unfold step_last. rewrite if_unfold.
    match goal with |- context [match eval E fns ?n ?a ?s ?w with _ => _ end] =>
      let r := eval cbn in (eval E fns n a s w) in change (eval E fns n a s w) with r end. cbv beta iota. cbn [truth b2v Z.eqb negb].
    rewrite if_unfold, ebin_unfold, ecall_copy_unfold. cbn [sget String.eqb Ascii.eqb Bool.eqb].
    rewrite (copy_frame (PFile Tmp t Json) (PFile Fin t Json)).
    destruct (copy_ok E fns (PFile Tmp t Json) (PFile Fin t Json) (pf_ss Tmp Json) (pf_ne Json) k (S (S (46 + (k + m)))) log 0 rpos ferr dpass dpos buf Hk ltac:(lia))
      as (s' & rpos' & ferr' & buf' & X).
    unfold W in X. rewrite X. cbn.
    eexists _, _, _, _, rpos', ferr', buf'. split; [reflexivity|auto].
Qed.

Variable K : nat.
Hypothesis HK : forall f, (List.length (e_data E (PFile Tmp t f)) <= K)%nat.

Lemma body2_ok n p e vm vt vtf log rpos ferr dpass dpos buf : (K + 60 <= n)%nat -> p = 0 \/ p = 1 \/ p = 2 ->
  exists o vm' vt' vtf' rpos' ferr' buf',
    exec E fns n step_body (sst p (VPath dir) (VEnt e) vm vt vtf) (W log 0 rpos ferr dpass dpos buf) =
    ROk (o, sst p (VPath dir) (VEnt e) vm' vt' vtf', W (rev (ent_ops p e) ++ log) 0 rpos' ferr' dpass dpos buf') /\ cont o.
Proof.
  intros Hn Hp.
  assert (Hs : (match e with EFile f => p = 2 \/ (match f with Json => p = 0 | Obs => p = 1 end) | _ => True end) \/
               (exists f, e = EFile f /\ match f with Json => p = 1 | Obs => p = 0 end)).
  { destruct e as [| |[|]]; auto; destruct Hp as [-> | [-> | ->]]; auto; right; eexists; split; reflexivity. }
  destruct Hs as [Hs | (f & -> & Hf)].
  - destruct (body2_simple n p e vm vt vtf log rpos ferr dpass dpos buf ltac:(lia) Hp Hs) as (o & a & b & c & X & Y).
    exists o, a, b, c, rpos, ferr, buf. split; assumption.
  - exact (body2_copy K n p f vm vt vtf log rpos ferr dpass dpos buf (HK f) Hn Hf).
Qed.

Lemma nth_skipn {A} (l : list A) d : match skipn d l with [] => nth_error l d = None | x :: r => nth_error l d = Some x /\ r = skipn (S d) l end.
Proof.
  revert d. induction l as [|a l IH]; intros d.
  - destruct d; reflexivity.
  - destruct d as [|d]; [cbn; split; reflexivity|]. cbn [skipn nth_error]. apply IH.
Qed.

Definition ents_ops (p : Z) (l : list entry) : list op :=
  flat_map (fun e => Readdir dir (Some e) :: ent_ops p e) l ++ [Readdir dir None].

Lemma loop2_ok p : p = 0 \/ p = 1 \/ p = 2 -> forall r vd vm vt vtf log errno rpos ferr dpass dpos buf n,
  (List.length (skipn (dpos dir) (e_rho E dir (dpass dir))) <= r)%nat -> (r + K + 70 <= n)%nat ->
  exists vm' vt' vtf' rpos' ferr' dpos' buf',
    exec E fns n step_loop (sst p (VPath dir) vd vm vt vtf) (W log errno rpos ferr dpass dpos buf) =
    ROk (ONormal, sst p (VPath dir) VNull vm' vt' vtf',
         W (rev (ents_ops p (skipn (dpos dir) (e_rho E dir (dpass dir)))) ++ log) 0 rpos' ferr' dpass dpos' buf').
Proof.
  intros Hp. induction r as [|r IH]; intros vd vm vt vtf log errno rpos ferr dpass dpos buf n Hr Hn;
    (destruct n as [|n]; [lia|]); unfold step_loop; rewrite while_unfold; fold step_cond; fold step_body;
    pose proof (nth_skipn (e_rho E dir (dpass dir)) (dpos dir)) as NS;
    destruct (skipn (dpos dir) (e_rho E dir (dpass dir))) as [|e rest] eqn:Es.
  - rewrite (cond2_none n p vd vm vt vtf log errno rpos ferr dpass dpos buf ltac:(lia) NS). cbn [truth b2v Z.eqb negb].
    eexists _, _, _, _, _, _, _. reflexivity.
  - cbn in Hr. lia.
  - rewrite (cond2_none n p vd vm vt vtf log errno rpos ferr dpass dpos buf ltac:(lia) NS). cbn [truth b2v Z.eqb negb].
    eexists _, _, _, _, _, _, _. reflexivity.
  - destruct NS as [NS1 NS2].
    rewrite (cond2_some n p vd vm vt vtf log errno rpos ferr dpass dpos buf e ltac:(lia) NS1). cbn [truth b2v Z.eqb negb].
    set (dpos2 := updp dpos dir (S (dpos dir))).
    assert (Hd2 : dpos2 dir = S (dpos dir)) by (unfold dpos2, updp; rewrite dir_ss; reflexivity).
    destruct (body2_ok n p e vm vt vtf (Readdir dir (Some e) :: log) rpos ferr dpass dpos2 buf ltac:(lia) Hp)
      as (o & vm1 & vt1 & vtf1 & rpos1 & ferr1 & buf1 & X & Y).
    rewrite X.
    destruct (IH (VEnt e) vm1 vt1 vtf1 (rev (ent_ops p e) ++ Readdir dir (Some e) :: log) 0 rpos1 ferr1 dpass dpos2 buf1 n) as (a & b & c & d1 & e1 & f1 & g1 & Z1).
    + rewrite Hd2, <- NS2. cbn [List.length] in Hr. lia.
    + lia.
    + fold step_loop. exists a, b, c, d1, e1, f1, g1.
      assert (Hgo : exec E fns n step_loop (sst p (VPath dir) (VEnt e) vm1 vt1 vtf1) (W (rev (ent_ops p e) ++ Readdir dir (Some e) :: log) 0 rpos1 ferr1 dpass dpos2 buf1) =
                    ROk (ONormal, sst p (VPath dir) VNull a b c, W (rev (ents_ops p (e :: rest)) ++ log) 0 d1 e1 dpass f1 g1)).
      { rewrite Z1. rewrite Hd2, <- NS2. f_equal. f_equal. unfold W. f_equal.
        replace (ents_ops p (e :: rest)) with ((Readdir dir (Some e) :: ent_ops p e) ++ ents_ops p rest)
          by (unfold ents_ops; cbn [flat_map]; rewrite <- app_assoc; reflexivity).
        rewrite rev_app_distr. cbn [rev]. rewrite <- !app_assoc. cbn [app]. reflexivity. }
      destruct Y as [-> | ->]; exact Hgo.
Qed.

(* ---- the whole function *)
Definition sst0 (p : Z) : store :=
  [("thdir"%string, VPath dir); ("thdir_final"%string, VPath dirf); ("step"%string, VZ p); ("dir"%string, VUndef); ("ret"%string, VUndef);
   ("dirent"%string, VUndef); ("prefix"%string, VUndef); ("is_meta"%string, VUndef); ("thread"%string, VUndef); ("thread_final"%string, VUndef)].
Lemma step_frame p : frame RtFs_gen.f_move_thdir_step [VPath dir; VPath dirf; VZ p] = Some (sst0 p).
Proof. reflexivity. Qed.

Definition pass_ops (p : Z) (l : list entry) : list op :=
  Opendir dir :: ents_ops p l ++ [Closedir dir].

Lemma step_shape : f_body RtFs_gen.f_move_thdir_step =
  SSeq (nth_seq 0 (f_body RtFs_gen.f_move_thdir_step)) (SSeq (nth_seq 1 (f_body RtFs_gen.f_move_thdir_step)) (SSeq (nth_seq 2 (f_body RtFs_gen.f_move_thdir_step))
  (SSeq (nth_seq 3 (f_body RtFs_gen.f_move_thdir_step)) (SSeq (nth_seq 4 (f_body RtFs_gen.f_move_thdir_step)) (SSeq step_loop step_tail))))).
Proof. reflexivity. Qed.

Lemma tail2_ok n p vm vt vtf log rpos ferr dpass dpos buf : (12 <= n)%nat ->
  exec E fns n step_tail (sst p (VPath dir) VNull vm vt vtf) (W log 0 rpos ferr dpass dpos buf) =
  ROk (OReturn (VZ 0), sst p (VPath dir) VNull vm vt vtf, W (Closedir dir :: log) 0 rpos ferr (updp dpass dir (S (dpass dir))) dpos buf).
Proof. intros Hn. do 12 (destruct n as [|n]; [lia|]). unfold step_tail, W, sst. cbn. reflexivity. Qed.

Lemma step_ok p n log errno rpos ferr dpass dpos buf : p = 0 \/ p = 1 \/ p = 2 ->
  (List.length (e_rho E dir (dpass dir)) + K + 90 <= n)%nat ->
  exists s' rpos' ferr' dpos' buf',
    exec E fns n (f_body RtFs_gen.f_move_thdir_step) (sst0 p) (W log errno rpos ferr dpass dpos buf) =
    ROk (OReturn (VZ 0), s', W (rev (pass_ops p (e_rho E dir (dpass dir))) ++ log) 0 rpos' ferr' (updp dpass dir (S (dpass dir))) dpos' buf').
Proof.
  intros Hp Hn. set (L := List.length (e_rho E dir (dpass dir))) in *.
  destruct (Nat.le_exists_sub (L + K + 90) n Hn) as (m & -> & _).
  replace (m + (L + K + 90))%nat with (S (S (S (S (S (S (S (S (S (S (80 + (L + K + m))))))))))))%nat by lia.
  rewrite step_shape. unfold W, sst0. cbn [nth_seq f_body RtFs_gen.f_move_thdir_step].
  do 5 seq_step'. rewrite seq_unfold'.
  set (dpos1 := updp dpos dir 0%nat).
  assert (Hd1 : dpos1 dir = 0%nat) by (unfold dpos1, updp; rewrite dir_ss; reflexivity).
  destruct (loop2_ok p Hp L VUndef VUndef VUndef VUndef (Opendir dir :: log) errno rpos ferr dpass dpos1 buf (S (S (S (S (80 + (L + K + m)))))))
    as (a & b & c & rpos' & ferr' & dpos' & buf' & X).
  - rewrite Hd1. change (skipn 0 (e_rho E dir (dpass dir))) with (e_rho E dir (dpass dir)). unfold L. lia.
  - lia.
  - unfold W, sst in X. unfold dir, dirf in *. rewrite X.
    pose proof (tail2_ok (S (S (S (S (80 + (L + K + m)))))) p a b c
                  (rev (ents_ops p (skipn (dpos1 dir) (e_rho E dir (dpass dir)))) ++ Opendir dir :: log) rpos' ferr' dpass dpos' buf' ltac:(lia)) as T.
    unfold W, sst, dir, dirf in T. rewrite T.
    eexists _, rpos', ferr', dpos', buf'. f_equal. f_equal. f_equal.
    rewrite Hd1. change (skipn 0 (e_rho E (PThread Tmp t) (dpass (PThread Tmp t)))) with (e_rho E (PThread Tmp t) (dpass (PThread Tmp t))).
    unfold pass_ops, dir. cbn [rev]. rewrite rev_app_distr. cbn [rev app]. rewrite <- !app_assoc. reflexivity.
Qed.
End Step.

(* ================================================================ move_thdir_to_final, try_clean_dir *)
Section Move.
Variables (E : env) (fns : list (string * fn)) (t : Z) (K L : nat).
Let dir := PThread Tmp t.
Let dirf := PThread Fin t.
Hypothesis Hfn : find_fn fns "copy_thread_to_final" = Some RtFs_gen.f_copy_thread_to_final.
Hypothesis Hfn2 : find_fn fns "move_thdir_step" = Some RtFs_gen.f_move_thdir_step.
Hypothesis HK : forall f, (List.length (e_data E (PFile Tmp t f)) <= K)%nat.
Hypothesis HL : forall i, (i <= 2)%nat -> (List.length (e_rho E dir i) <= L)%nat.

Lemma eor_unfold n a b s w : eval E fns (S n) (EOr a b) s w =
  match eval E fns n a s w with
  | ROk (va, s1, w1) =>
    match truth va with
    | Some true => ROk (b2v true, s1, w1)
    | Some false => match eval E fns n b s1 w1 with
                    | ROk (vb, s2, w2) => match truth vb with Some t0 => ROk (b2v t0, s2, w2) | None => RStuck end
                    | r => r
                    end
    | None => RStuck
    end
  | r => r
  end.
Proof. reflexivity. Qed.
Lemma ecall_step_unfold n z s w :
  eval E fns (S (S n)) (ECall "move_thdir_step" [EVar "thdir"; EVar "thdir_final"; ELit z]) s w =
  match frame RtFs_gen.f_move_thdir_step [sget s "thdir"; sget s "thdir_final"; VZ z] with
  | Some s0 => match exec E fns (S n) (f_body RtFs_gen.f_move_thdir_step) s0 w with
               | ROk (OReturn v, _, w2) => ROk (v, s, w2)
               | ROk (_, _, w2) => ROk (VUndef, s, w2)
               | RDie x => RDie x | RStuck => RStuck | RNoFuel => RNoFuel
               end
  | None => RStuck
  end.
Proof. cbn [eval]. cbn [String.eqb Ascii.eqb Bool.eqb]. rewrite Hfn2. reflexivity. Qed.

Definition mst : store := [("thdir"%string, VPath dir); ("thdir_final"%string, VPath dirf)].

(* one `move_thdir_step(thdir, thdir_final, p) != 0` *)
Lemma step_call_ok p n log errno rpos ferr dpass dpos buf : p = 0 \/ p = 1 \/ p = 2 -> (L + K + 100 <= n)%nat -> (dpass dir <= 2)%nat ->
  exists rpos' ferr' dpos' buf',
    eval E fns n (EBin ONe (ECall "move_thdir_step" [EVar "thdir"; EVar "thdir_final"; ELit p]) (ELit 0)) mst (W log errno rpos ferr dpass dpos buf) =
    ROk (b2v false, mst, W (rev (pass_ops E t p (e_rho E dir (dpass dir))) ++ log) 0 rpos' ferr' (updp dpass dir (S (dpass dir))) dpos' buf').
Proof.
  intros Hp Hn Hd2. destruct (Nat.le_exists_sub (L + K + 100) n Hn) as (m & -> & _).
  replace (m + (L + K + 100))%nat with (S (S (S (97 + (L + K + m)))))%nat by lia.
  rewrite ebin_unfold, ecall_step_unfold. unfold mst, dir, dirf. cbn [sget String.eqb Ascii.eqb Bool.eqb].
  rewrite (step_frame t p).
  destruct (step_ok E fns t Hfn K HK p (S (97 + (L + K + m))) log errno rpos ferr dpass dpos buf Hp) as (s' & rpos' & ferr' & dpos' & buf' & X).
  - pose proof (HL (dpass dir) Hd2). unfold dir in *. lia.
  - rewrite X. cbn. exists rpos', ferr', dpos', buf'. reflexivity.
Qed.

Lemma dir_ss' : path_eqb dir dir = true.
Proof. unfold dir. cbn. rewrite Z.eqb_refl. reflexivity. Qed.

Definition reloc_ops (r0 r1 r2 : list entry) : list op :=
  pass_ops E t 0 r0 ++ pass_ops E t 1 r1 ++ pass_ops E t 2 r2.

Lemma move_ok n log errno rpos ferr dpass dpos buf : dpass dir = 0%nat -> (L + K + 110 <= n)%nat ->
  exists s' rpos' ferr' dpass' dpos' buf',
    exec E fns n (f_body RtFs_gen.f_move_thdir_to_final) mst (W log errno rpos ferr dpass dpos buf) =
    ROk (ONormal, s', W (rev (reloc_ops (e_rho E dir 0) (e_rho E dir 1) (e_rho E dir 2)) ++ log) 0 rpos' ferr' dpass' dpos' buf').
Proof.
  intros Hd0 Hn. destruct (Nat.le_exists_sub (L + K + 110) n Hn) as (m & -> & _).
  replace (m + (L + K + 110))%nat with (S (S (S (107 + (L + K + m)))))%nat by lia.
  unfold RtFs_gen.f_move_thdir_to_final. cbn [f_body]. unfold RtFs_gen.c_MOVE_COPY_DATA, RtFs_gen.c_MOVE_COPY_META, RtFs_gen.c_MOVE_REMOVE.
  rewrite if_unfold, eor_unfold, eor_unfold.
  destruct (step_call_ok 0 (107 + (L + K + m)) log errno rpos ferr dpass dpos buf ltac:(auto) ltac:(lia) ltac:(lia)) as (r1 & f1 & d1 & b1 & X1).
  rewrite X1. cbn [truth b2v Z.eqb negb].
  set (dp1 := updp dpass dir (S (dpass dir))).
  assert (H1 : dp1 dir = 1%nat) by (unfold dp1, updp; rewrite dir_ss', Hd0; reflexivity).
  destruct (step_call_ok 1 (107 + (L + K + m)) (rev (pass_ops E t 0 (e_rho E dir (dpass dir))) ++ log) 0 r1 f1 dp1 d1 b1 ltac:(auto) ltac:(lia) ltac:(lia)) as (r2 & f2 & d2 & b2 & X2).
  rewrite X2. cbn [truth b2v Z.eqb negb].
  set (dp2 := updp dp1 dir (S (dp1 dir))).
  assert (H2 : dp2 dir = 2%nat) by (unfold dp2, updp; rewrite dir_ss', H1; reflexivity).
  destruct (step_call_ok 2 (S (107 + (L + K + m))) (rev (pass_ops E t 1 (e_rho E dir (dp1 dir))) ++ rev (pass_ops E t 0 (e_rho E dir (dpass dir))) ++ log) 0 r2 f2 dp2 d2 b2 ltac:(auto) ltac:(lia) ltac:(lia)) as (r3 & f3 & d3 & b3 & X3).
  rewrite X3. cbn [truth b2v Z.eqb negb].
  replace (S (107 + (L + K + m)))%nat with (S (S (106 + (L + K + m))))%nat by lia.
  cbn [exec].
  eexists _, r3, f3, _, d3, b3. f_equal. f_equal. unfold W. f_equal.
  rewrite Hd0, H1, H2. unfold reloc_ops. rewrite !rev_app_distr. rewrite <- !app_assoc. reflexivity.
Qed.

Lemma clean_ok n log errno rpos ferr dpass dpos buf : (12 <= n)%nat ->
  exec E fns n (f_body RtFs_gen.f_try_clean_dir) [("dir"%string, VPath dir)] (W log errno rpos ferr dpass dpos buf) =
  ROk (ONormal, [("dir"%string, VPath dir)], W (Rmdir dir [PFile Tmp t Obs; PFile Tmp t Json] :: log) errno rpos ferr dpass dpos buf).
Proof. intros Hn. do 12 (destruct n as [|n]; [lia|]). unfold W, dir. cbn. reflexivity. Qed.
End Move.

(* ================================================================ against RtFsDefs *)
Lemma map_flat_map {A B C} (g : B -> C) (f : A -> list B) l : map g (flat_map f l) = flat_map (fun x => map g (f x)) l.
Proof. induction l as [|a l IH]; [reflexivity|]. cbn. rewrite map_app, IH. reflexivity. Qed.

Lemma copy_new_ops t g f data :
  map i_op (copy_new t g f data) = copy_ops (PFile Tmp t f) (PFile Fin t f) data.
Proof.
  unfold copy_new, copy_ops, loop_ops. rewrite !map_app, map_flat_map. cbn [map i_op mki].
  cbn [app]. rewrite <- !app_assoc. cbn [app]. reflexivity.
Qed.

Lemma pass_new_ops rho th p : (p < 3)%nat ->
  map i_op (pass_new rho th p) = pass_ops (env_of rho th) (th_tid th) (Z.of_nat p) (rho (th_tid th) p).
Proof.
  intros Hp. unfold pass_new, pass_ops, ents_ops. rewrite !map_app, map_flat_map. cbn [map i_op mki app].
  f_equal. rewrite <- app_assoc. cbn [app]. f_equal.
  apply flat_map_ext. intros e. cbn [map i_op mki]. f_equal.
  unfold ent_ops. cbn [e_data env_of]. rewrite Z.eqb_refl.
  destruct p as [|[|[|p]]]; [| | |lia]; destruct e as [| |[|]]; cbn [Z.of_nat Z.eqb Pos.of_succ_nat Pos.succ Pos.eqb map];
    try reflexivity; apply copy_new_ops.
Qed.

Lemma relocate_new_ops rho th :
  map i_op (relocate_new rho th) =
  reloc_ops (env_of rho th) (th_tid th) (rho (th_tid th) 0%nat) (rho (th_tid th) 1%nat) (rho (th_tid th) 2%nat).
Proof.
  unfold relocate_new, reloc_ops. rewrite !map_app.
  rewrite (pass_new_ops rho th 0), (pass_new_ops rho th 1), (pass_new_ops rho th 2) by lia. reflexivity.
Qed.

(* the complete relocation of a thread (move_thdir_to_final, then try_clean_dir), no fault: for EVERY thread (any data,
   any metadata text) and EVERY readdir order of the three traversals, the generated code makes exactly the calls of
   RtFsDefs.relocate_new followed by the rmdir of thread_free_tr, prints nothing and does not abort *)
Theorem reloc_calls_from_source rho th :
  exists N, forall n, (N <= n)%nat ->
  exists w, gen_reloc n rho th None = ROk w /\
    rev (w_log w) = map i_op (relocate_new rho th) ++ [Rmdir (PThread Tmp (th_tid th)) [PFile Tmp (th_tid th) Obs; PFile Tmp (th_tid th) Json]] /\
    w_diag w = false /\ w_dead w = false /\ w_fault w = None.
Proof.
  set (t := th_tid th). set (E := env_of rho th).
  set (K := (List.length (file_data th Obs) + List.length (file_data th Json))%nat).
  set (L := (List.length (rho t 0%nat) + List.length (rho t 1%nat) + List.length (rho t 2%nat))%nat).
  assert (HK : forall f, (List.length (e_data E (PFile Tmp t f)) <= K)%nat).
  { intros f. unfold E, K. cbn [e_data env_of]. fold t. rewrite Z.eqb_refl. destruct f; lia. }
  assert (HL : forall i, (i <= 2)%nat -> (List.length (e_rho E (PThread Tmp t) i) <= L)%nat).
  { intros i Hi. unfold E, L. cbn [e_rho env_of]. destruct i as [|[|[|i]]]; lia. }
  exists (S (L + K + 110))%nat. intros n Hn. destruct n as [|n]; [lia|].
  unfold gen_reloc. fold t. fold E. unfold call.
  change (find_fn RtFs_gen.fns "move_thdir_to_final") with (Some RtFs_gen.f_move_thdir_to_final). cbv beta iota.
  change (frame RtFs_gen.f_move_thdir_to_final [VPath (PThread Tmp t); VPath (PThread Fin t)]) with (Some (mst t)). cbv beta iota.
  change (w0 None) with (W [] 0 (fun _ => 0%nat) (fun _ => false) (fun _ => 0%nat) (fun _ => 0%nat) []).
  destruct (move_ok E RtFs_gen.fns t K L eq_refl eq_refl HK HL (S n) [] 0 (fun _ => 0%nat) (fun _ => false) (fun _ => 0%nat) (fun _ => 0%nat) [] eq_refl ltac:(lia))
    as (s' & r1 & f1 & dp1 & d1 & b1 & X).
  rewrite X. cbv beta iota.
  change (find_fn RtFs_gen.fns "try_clean_dir") with (Some RtFs_gen.f_try_clean_dir). cbv beta iota.
  change (frame RtFs_gen.f_try_clean_dir [VPath (PThread Tmp t)]) with (Some [("dir"%string, VPath (PThread Tmp t))]). cbv beta iota.
  rewrite (clean_ok E RtFs_gen.fns t (S n) _ 0 r1 f1 dp1 d1 b1 ltac:(lia)).
  eexists. split; [reflexivity|]. unfold W. cbn [w_log w_diag w_dead w_fault]. repeat split.
  cbn [rev]. rewrite rev_app_distr, rev_involutive. cbn [rev app]. unfold E, t. rewrite relocate_new_ops. reflexivity.
Qed.
