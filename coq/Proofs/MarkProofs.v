(* C17: refusals of the mark API at run time and in emulation, merging of definitions. *)
From Coq Require Import ZArith List Bool Lia.
From OV Require Import Base.CInt Emu.EmuCoreDefs Emu.DecodeDefs Emu.MarkDefs.
Import ListNotations.
Local Open Scope Z_scope.

Lemma str_eqb_eq a b : str_eqb a b = true <-> a = b.
Proof. unfold str_eqb. destruct (list_eq_dec Z.eq_dec a b); split; intros; try reflexivity; try discriminate; assumption || contradiction. Qed.

(* ---------------------------------------------------------------- run time *)

Lemma rt_zero_value_refused s t :
  rt_call s (MPush t 0) = Die /\ rt_call s (MPop t 0) = Die /\ rt_call s (MSet t 0) = Die.
Proof. repeat split. Qed.

Lemma rt_type_range_refused s t stack title : (t < 0 \/ 100 <= t) -> rt_call s (MType t stack title) = Die.
Proof. intros H. cbn. destruct ((t <? 0) || (100 <=? t)) eqn:E; [reflexivity|]. apply orb_false_iff in E. lia. Qed.

Lemma rt_empty_title_refused s t stack : rt_call s (MType t stack None) = Die /\ rt_call s (MType t stack (Some [])) = Die.
Proof. split; cbn; destruct ((t <? 0) || (100 <=? t)); reflexivity. Qed.

Lemma rt_redefinition_refused s t stack title d : find_def (rt_defs s) t = Some d -> rt_call s (MType t stack title) = Die.
Proof.
  intros H. cbn. destruct ((t <? 0) || (100 <=? t)); [reflexivity|]. destruct title as [[|c ti]|]; try reflexivity. rewrite H. reflexivity.
Qed.

Lemma rt_label_undefined_type_refused s t v l : find_def (rt_defs s) t = None -> rt_call s (MLabel t v l) = Die.
Proof.
  intros H. cbn. destruct ((t <? 0) || (100 <=? t)); [reflexivity|]. destruct (v <=? 0); [reflexivity|].
  destruct l as [[|c la]|]; try reflexivity. rewrite H. reflexivity.
Qed.

Lemma rt_label_nonpositive_refused s t v l : v <= 0 -> rt_call s (MLabel t v l) = Die.
Proof. intros H. cbn. destruct ((t <? 0) || (100 <=? t)); [reflexivity|]. destruct (v <=? 0) eqn:E; [reflexivity|lia]. Qed.

(* an accepted push/pop/set appends exactly its event; an accepted type/label changes only the metadata *)
Lemma rt_emit s c s' : rt_call s c = Ret s' ->
  match c with
  | MPush t v => rt_events s' = rt_events s ++ [(91, v, t)] /\ rt_defs s' = rt_defs s /\ v <> 0
  | MPop t v => rt_events s' = rt_events s ++ [(93, v, t)] /\ rt_defs s' = rt_defs s /\ v <> 0
  | MSet t v => rt_events s' = rt_events s ++ [(61, v, t)] /\ rt_defs s' = rt_defs s /\ v <> 0
  | _ => rt_events s' = rt_events s
  end.
Proof.
  destruct c; cbn; intros H.
  - destruct ((t <? 0) || (100 <=? t)); [discriminate|]. destruct title as [[|c ti]|]; try discriminate.
    destruct (find_def (rt_defs s) t); [discriminate|]. inversion H; reflexivity.
  - destruct ((t <? 0) || (100 <=? t)); [discriminate|]. destruct (v <=? 0); [discriminate|].
    destruct label as [[|c la]|]; try discriminate. destruct (find_def (rt_defs s) t) as [d|]; [|discriminate].
    destruct (has_label_def d v); [discriminate|]. inversion H; reflexivity.
  - destruct (v =? 0) eqn:E; [discriminate|]. inversion H; subst. cbn. repeat split. lia.
  - destruct (v =? 0) eqn:E; [discriminate|]. inversion H; subst. cbn. repeat split. lia.
  - destruct (v =? 0) eqn:E; [discriminate|]. inversion H; subst. cbn. repeat split. lia.
Qed.

(* ---------------------------------------------------------------- merging in the emulator *)

Lemma lookup_label_app_other l v v2 s2 : v2 <> v -> lookup_label (l ++ [(v2, s2)]) v = lookup_label l v.
Proof.
  intros Hne. induction l as [|[v' s'] l IH]; cbn.
  - destruct (v2 =? v) eqn:E; [lia|reflexivity].
  - destruct (v' =? v); [reflexivity|exact IH].
Qed.

Lemma merge_labels_conflict new : forall have v s s',
  lookup_label have v = Some s' -> In (v, s) new -> s <> s' -> merge_labels have new = None.
Proof.
  induction new as [|[v0 s0] new IH]; intros have v s s' Hl Hin Hne; [contradiction|].
  cbn [merge_labels]. destruct Hin as [E|Hin].
  - inversion E; subst. rewrite Hl. destruct (str_eqb s s') eqn:Es; [apply str_eqb_eq in Es; contradiction|reflexivity].
  - destruct (lookup_label have v0) as [s1|] eqn:E0.
    + destruct (str_eqb s0 s1); [|reflexivity]. apply (IH have v s s' Hl Hin Hne).
    + apply (IH (have ++ [(v0, s0)]) v s s'); [|exact Hin|exact Hne].
      destruct (Z.eq_dec v0 v) as [->|Hd]; [congruence|]. rewrite lookup_label_app_other by exact Hd. exact Hl.
Qed.

Theorem merge_title_conflict acc d m :
  0 <= md_type d < 100 -> find_mt acc (md_type d) = Some m -> mt_title m <> md_title d -> merge_def acc d = None.
Proof.
  intros Hr Hf Hne. unfold merge_def. destruct ((md_type d <? 0) || (100 <=? md_type d)) eqn:E; [reflexivity|]. rewrite Hf.
  destruct (str_eqb (mt_title m) (md_title d)) eqn:Es; [apply str_eqb_eq in Es; contradiction|reflexivity].
Qed.

Theorem merge_chan_type_conflict acc d m :
  find_mt acc (md_type d) = Some m -> mt_stack m <> md_stack d -> merge_def acc d = None.
Proof.
  intros Hf Hne. unfold merge_def. destruct ((md_type d <? 0) || (100 <=? md_type d)); [reflexivity|]. rewrite Hf.
  destruct (negb (str_eqb (mt_title m) (md_title d))); [reflexivity|].
  destruct (Bool.eqb (mt_stack m) (md_stack d)) eqn:E; [apply Bool.eqb_prop in E; contradiction|reflexivity].
Qed.

Theorem merge_label_conflict acc d m v s s' :
  find_mt acc (md_type d) = Some m -> lookup_label (mt_labels m) v = Some s' -> In (v, s) (md_labels d) -> s <> s' ->
  merge_def acc d = None.
Proof.
  intros Hf Hl Hin Hne. unfold merge_def. destruct ((md_type d <? 0) || (100 <=? md_type d)); [reflexivity|]. rewrite Hf.
  destruct (negb (str_eqb (mt_title m) (md_title d))); [reflexivity|].
  destruct (negb (Bool.eqb (mt_stack m) (md_stack d))); [reflexivity|].
  rewrite (merge_labels_conflict (md_labels d) (mt_labels m) v s s' Hl Hin Hne). reflexivity.
Qed.

(* a conflict anywhere makes the whole merge fail *)
Lemma merge_defs_prefix_none ds1 d ds2 acc acc' :
  merge_defs acc ds1 = Some acc' -> merge_def acc' d = None -> merge_defs acc (ds1 ++ d :: ds2) = None.
Proof.
  revert acc. induction ds1 as [|x ds1 IH]; intros acc H Hd; cbn in *.
  - inversion H; subst. rewrite Hd. reflexivity.
  - destruct (merge_def acc x) as [a1|]; [|discriminate]. apply IH; assumption.
Qed.

(* labels that agree merge: the same definition twice gives the same type *)
Lemma merge_labels_same have : forall new,
  (forall v s, In (v, s) new -> lookup_label have v = Some s) -> merge_labels have new = Some have.
Proof.
  induction new as [|[v s] new IH]; intros H; cbn; [reflexivity|].
  rewrite (H v s (or_introl eq_refl)).
  assert (E : str_eqb s s = true) by (apply str_eqb_eq; reflexivity). rewrite E.
  apply IH. intros v' s' Hin. apply H. right. exact Hin.
Qed.

Lemma replace_mt_same acc m : find_mt acc (mt_type m) = Some m -> replace_mt acc m = acc.
Proof.
  induction acc as [|d r IH]; cbn; [reflexivity|].
  destruct (mt_type d =? mt_type m) eqn:E.
  - intros H. inversion H; subst. reflexivity.
  - intros H. rewrite (IH H). reflexivity.
Qed.

Theorem merge_agreeing_definition acc d m :
  0 <= md_type d < 100 ->
  find_mt acc (md_type d) = Some m -> mt_title m = md_title d -> mt_stack m = md_stack d ->
  (forall v s, In (v, s) (md_labels d) -> lookup_label (mt_labels m) v = Some s) ->
  merge_def acc d = Some acc.
Proof.
  intros Hr Hf Ht Hs Hl. unfold merge_def.
  destruct ((md_type d <? 0) || (100 <=? md_type d)) eqn:E; [apply orb_true_iff in E; lia|]. rewrite Hf.
  assert (E1 : str_eqb (mt_title m) (md_title d) = true) by (apply str_eqb_eq; exact Ht). rewrite E1. cbn [negb].
  rewrite Hs, Bool.eqb_reflx. cbn [negb].
  rewrite (merge_labels_same (mt_labels m) (md_labels d) Hl).
  f_equal.
  assert (Hty : mt_type m = md_type d).
  { clear -Hf. induction acc as [|x r IH]; cbn in Hf; [discriminate|].
    destruct (mt_type x =? md_type d) eqn:E; [inversion Hf; subst; apply Z.eqb_eq in E; exact E|apply IH; exact Hf]. }
  destruct m as [ty ti st ls]. cbn [mt_type mt_title mt_stack mt_labels] in *. subst ty ti st.
  apply replace_mt_same. cbn [mt_type]. exact Hf.
Qed.

(* ---------------------------------------------------------------- emulation refusals *)

Lemma decode_mark_bad_payload cs v p : length p <> 12%nat -> decode_mark cs v p = EvBad E_PAYLOAD.
Proof. intros H. unfold decode_mark. destruct (Nat.eqb (length p) 12) eqn:E; [apply Nat.eqb_eq in E; contradiction|reflexivity]. Qed.

Lemma decode_mark_undefined_type cs v p :
  length p = 12%nat -> chan_pos cs MARK_MODEL (le_i32 p 8) = None -> decode_mark cs v p = EvBad E_UNKNOWN.
Proof. intros H Hc. unfold decode_mark. rewrite H. cbn [Nat.eqb negb]. rewrite Hc. reflexivity. Qed.

Lemma decode_mark_zero_value cs v p k :
  length p = 12%nat -> chan_pos cs MARK_MODEL (le_i32 p 8) = Some k -> le_i64 p 0 = 0 -> decode_mark cs v p = EvBad E_PAYLOAD.
Proof. intros H Hc Hz. unfold decode_mark. rewrite H. cbn [Nat.eqb negb]. rewrite Hc, Hz. reflexivity. Qed.

(* push on a single channel and set on a stack channel are refused by the channel *)
Lemma push_on_single_refused sp r v : cs_stack sp = false -> exists e, raw_apply sp r PUSH (Some v) = Err e.
Proof. intros H. cbn. rewrite H. eexists. reflexivity. Qed.
Lemma pop_on_single_refused sp r v : cs_stack sp = false -> exists e, raw_apply sp r POP (Some v) = Err e.
Proof. intros H. cbn. rewrite H. eexists. reflexivity. Qed.
Lemma set_on_stack_refused sp r v : cs_stack sp = true -> exists e, raw_apply sp r SET v = Err e.
Proof. intros H. unfold raw_apply. destruct v; rewrite H; eexists; reflexivity. Qed.

Lemma mark_chans_props ms sp : In sp (mark_chans ms) ->
  cs_thtrack sp = TRACK_ACT /\ cs_cputrack sp = TRACK_RUN /\ cs_flags sp = PRV_SKIPDUPNULL /\ cs_dup sp = true /\
  exists m, In m ms /\ cs_type sp = 100 + mt_type m /\ cs_stack sp = mt_stack m.
Proof.
  unfold mark_chans. intros H. apply in_map_iff in H. destruct H as (m & <- & Hin). cbn.
  repeat split. exists m. repeat split. exact Hin.
Qed.
