(* The generated src/emu/bay.c (Gen/Bay_gen.v, unit bayc) against BayDefs: bay_propagate = BayDefs.propagate (dirty phase,
   emit phase, flush phase, in this order); bay_enable_cb / bay_disable_cb / bay_add_cb / cb_chan_is_dirty / bay_register =
   the list operations of BayDefs. *)
From Coq Require Import ZArith List Bool Lia.
From OV Require Import Base.CInt Emu.EmuCoreDefs Emu.BayCPre.
From OV Require Emu.BayDefs Gen.Bay_gen.
Import ListNotations.
Local Open Scope Z_scope.

Module G := Bay_gen.
Ltac munf := cbv beta delta [bind_ bind ite need eval ret fail].

Lemma with_bay_same st : with_bay st (bs_bay st) = st. Proof. destruct st; reflexivity. Qed.

Lemma skipn_cons' {A} (l : list A) j x r : skipn j l = x :: r -> nth_error l j = Some x /\ skipn (S j) l = r.
Proof.
  revert j. induction l as [|a l IH]; intros [|j] H; simpl in *; try discriminate.
  - injection H as <- <-. split; reflexivity.
  - apply IH, H.
Qed.
Lemma skipn_nil' {A} (l : list A) j : skipn j l = [] -> nth_error l j = None.
Proof.
  revert j. induction l as [|a l IH]; intros [|j] H; simpl in *; try reflexivity; [discriminate|apply IH, H].
Qed.

Section Propagate.
  Variable sx : benv.

  (* ---- propagate_chan(bchan, BAY_CB_DIRTY) = BayDefs.run_cbs *)
  Lemma walk_cb_run c (body : ptr_cb -> unit -> M unit) :
    (forall d st, body (Some (CbAt c (WD d))) tt sx st =
                  match B.run_dcb (bs_bay st) d with Ok b' => Ok (tt, with_bay st b') | Err e => Err e end) ->
    forall fuel cur st, walk_cb fuel c cur tt body sx st =
      match B.walk_from fuel (bs_bay st) c cur with Ok b' => Ok (tt, with_bay st b') | Err e => Err e end.
  Proof.
    intros Hb. induction fuel as [|f IH]; intros cur st; [reflexivity|].
    cbn [walk_cb B.walk_from]. rewrite Hb. destruct (B.run_dcb (bs_bay st) cur) as [b'|e]; [|reflexivity].
    cbn [bs_bay with_bay]. destruct (B.next_after cur (B.dcbs_of b' c)) as [[d|]|]; [|reflexivity|reflexivity].
    rewrite IH. reflexivity.
  Qed.

  Lemma call_dirty c d st :
    call_cb (Some (CbAt c (WD d))) (Some (CReg c)) (get_bay_cb__arg sx st (Some (CbAt c (WD d)))) sx st =
    match B.run_dcb (bs_bay st) d with Ok b' => Ok (tt, with_bay st b') | Err e => Err e end.
  Proof. unfold call_cb. rewrite Nat.eqb_refl. reflexivity. Qed.

  Lemma prop_dirty c st :
    G.propagate_chan (Some (BAt c)) (cast_uint32 G.c_BAY_CB_DIRTY) sx st =
    match B.run_cbs (bs_bay st) c with Ok b' => Ok (tt, with_bay st b') | Err e => Err e end.
  Proof.
    unfold G.propagate_chan, B.run_cbs. munf. cbn [is_null negb]. unfold for_next_bay_cb.
    change (cast_uint32 G.c_BAY_CB_DIRTY) with 0. unfold get_bay_chan__cb, ixp_ptr_cb. cbn [Z.to_nat nth].
    destruct (B.dcbs_of (bs_bay st) c) as [|d r] eqn:Ed.
    - rewrite with_bay_same. reflexivity.
    - rewrite (walk_cb_run c).
      + destruct (B.walk_from _ _ _ _); reflexivity.
      + intros d' st'. cbn [is_null negb get_bay_chan__chan]. rewrite call_dirty. destruct (B.run_dcb (bs_bay st') d'); reflexivity.
  Qed.

  (* ---- the dirty phase *)
  Lemma dirty_loop (body : ptr_bchan -> unit -> M unit) :
    (forall c st, body (Some (BAt c)) tt sx st =
                  match B.run_cbs (bs_bay st) c with Ok b' => Ok (tt, with_bay st b') | Err e => Err e end) ->
    forall fuel i st, walk_dirty fuel i tt body sx st =
      match B.dirty_phase fuel i (bs_bay st) with Ok b' => Ok (tt, with_bay st b') | Err e => Err e end.
  Proof.
    intros Hb. induction fuel as [|f IH]; intros i st; [reflexivity|].
    cbn [walk_dirty B.dirty_phase]. destruct (nth_error (B.b_dirty (bs_bay st)) i) as [c|].
    - rewrite Hb. destruct (B.run_cbs (bs_bay st) c) as [b'|e]; [|reflexivity]. rewrite IH. reflexivity.
    - rewrite with_bay_same. reflexivity.
  Qed.

  (* ---- propagate_chan(bchan, BAY_CB_EMIT) = BayDefs.emit_cbs on the channel's value *)
  Lemma walk_ecbs_run c ch (body : ptr_cb -> unit -> M unit) :
    (forall e st, nth_error (B.b_chans (bs_bay st)) c = Some ch ->
        body (Some (CbAt c (WE e))) tt sx st =
        match emit (bs_last st) (B.e_cpu e) (B.e_row e) (B.e_type e) (B.e_flags e) (B.chan_read ch) with
        | Ok (l1, ls) => Ok (tt, with_emit st l1 (bs_lines st ++ ls)) | Err er => Err er end) ->
    forall es st, nth_error (B.b_chans (bs_bay st)) c = Some ch ->
      walk_ecbs c es tt body sx st =
      match B.emit_cbs (bs_last st) (B.chan_read ch) es with
      | Ok (l', ls) => Ok (tt, with_emit st l' (bs_lines st ++ ls)) | Err er => Err er end.
  Proof.
    intros Hb. induction es as [|e r IH]; intros st Hc.
    - cbn. rewrite app_nil_r. destruct st; reflexivity.
    - cbn [walk_ecbs B.emit_cbs]. unfold bind. rewrite (Hb e st Hc).
      destruct (emit (bs_last st) _ _ _ _ _) as [[l1 ls1]|er]; [|reflexivity].
      rewrite IH by exact Hc. cbn [bs_last bs_lines with_emit].
      destruct (B.emit_cbs l1 (B.chan_read ch) r) as [[l2 ls2]|er]; [|reflexivity].
      rewrite <- app_assoc. reflexivity.
  Qed.

  Lemma prop_emit c ch st : nth_error (B.b_chans (bs_bay st)) c = Some ch ->
    G.propagate_chan (Some (BAt c)) (cast_uint32 G.c_BAY_CB_EMIT) sx st =
    match B.emit_cbs (bs_last st) (B.chan_read ch) (B.ecbs_of (bs_bay st) c) with
    | Ok (l', ls) => Ok (tt, with_emit st l' (bs_lines st ++ ls)) | Err er => Err er end.
  Proof.
    intros Hc. unfold G.propagate_chan. munf. cbn [is_null negb]. unfold for_next_bay_cb.
    change (cast_uint32 G.c_BAY_CB_EMIT) with 1. unfold get_bay_chan__cb, ixp_ptr_cb. cbn [Z.to_nat nth].
    destruct (B.ecbs_of (bs_bay st) c) as [|e r] eqn:Ee.
    - change (Pos.to_nat 1) with 1%nat. cbn. rewrite app_nil_r. destruct st; reflexivity.
    - change (Pos.to_nat 1) with 1%nat. cbv beta iota. rewrite Ee. rewrite (walk_ecbs_run c ch).
      + destruct (B.emit_cbs _ _ _) as [[l' ls]|]; reflexivity.
      + intros e' st' Hc'. cbn [is_null negb get_bay_chan__chan]. unfold call_cb. rewrite Nat.eqb_refl. unfold B.read_chan. rewrite Hc'.
        destruct (emit _ _ _ _ _ _) as [[l1 ls]|]; reflexivity.
      + exact Hc.
  Qed.

  (* ---- the emit phase and the flush phase: the dirty list no longer changes *)
  Lemma emit_loop (body : ptr_bchan -> unit -> M unit) :
    (forall c ch st, nth_error (B.b_chans (bs_bay st)) c = Some ch ->
       body (Some (BAt c)) tt sx st =
       match B.emit_cbs (bs_last st) (B.chan_read ch) (B.ecbs_of (bs_bay st) c) with
       | Ok (l', ls) => Ok (tt, with_emit st l' (bs_lines st ++ ls)) | Err er => Err er end) ->
    forall ds i fuel st, skipn i (B.b_dirty (bs_bay st)) = ds -> (length ds < fuel)%nat ->
      (forall c, In c ds -> nth_error (B.b_chans (bs_bay st)) c <> None) ->
      walk_dirty fuel i tt body sx st =
      match B.emit_phase (bs_bay st) (bs_last st) ds with
      | Ok (l', ls) => Ok (tt, with_emit st l' (bs_lines st ++ ls)) | Err er => Err er end.
  Proof.
    intros Hb. induction ds as [|c r IH]; intros i fuel st Hs Hf Hv; (destruct fuel as [|f]; [simpl in Hf; lia|]).
    - cbn [walk_dirty B.emit_phase]. rewrite (skipn_nil' _ _ Hs). rewrite app_nil_r. destruct st; reflexivity.
    - destruct (skipn_cons' _ _ _ _ Hs) as [Hn Hs']. cbn [walk_dirty B.emit_phase]. rewrite Hn.
      destruct (nth_error (B.b_chans (bs_bay st)) c) as [ch|] eqn:Ec; [|exfalso; apply (Hv c (or_introl eq_refl)); exact Ec].
      rewrite (Hb c ch st Ec).
      destruct (B.emit_cbs (bs_last st) (B.chan_read ch) (B.ecbs_of (bs_bay st) c)) as [[l1 ls1]|er]; [|reflexivity].
      rewrite (IH (S i) f (with_emit st l1 (bs_lines st ++ ls1))); [|exact Hs'|simpl in Hf; lia|intros c' Hc'; apply Hv; right; exact Hc'].
      cbn [bs_bay bs_last bs_lines with_emit].
      destruct (B.emit_phase (bs_bay st) l1 r) as [[l2 ls2]|er]; [|reflexivity]. rewrite <- app_assoc. reflexivity.
  Qed.

  Lemma flush_loop (body : ptr_bchan -> unit -> M unit) :
    (forall c st, body (Some (BAt c)) tt sx st =
       match nth_error (B.b_chans (bs_bay st)) c with
       | None => Err B.E_WIRING
       | Some ch => if B.c_dirty ch then Ok (tt, with_bay st (B.set_chan (bs_bay st) c (B.flushed ch))) else Err B.E_FLUSH
       end) ->
    forall ds i fuel st, skipn i (B.b_dirty (bs_bay st)) = ds -> (length ds < fuel)%nat ->
      walk_dirty fuel i tt body sx st =
      match B.flush_all (bs_bay st) ds with Ok b' => Ok (tt, with_bay st b') | Err e => Err e end.
  Proof.
    intros Hb. induction ds as [|c r IH]; intros i fuel st Hs Hf; (destruct fuel as [|f]; [simpl in Hf; lia|]).
    - cbn [walk_dirty B.flush_all]. rewrite (skipn_nil' _ _ Hs). rewrite with_bay_same. reflexivity.
    - destruct (skipn_cons' _ _ _ _ Hs) as [Hn Hs']. cbn [walk_dirty B.flush_all]. rewrite Hn. rewrite Hb.
      destruct (nth_error (B.b_chans (bs_bay st)) c) as [ch|]; [|reflexivity].
      destruct (B.c_dirty ch); [|reflexivity].
      rewrite (IH (S i) f); [|exact Hs'|simpl in Hf; lia]. reflexivity.
  Qed.

  (* the dirty list after the dirty phase: every id is a channel, and there are no more of them than channels
     (BayProofs: Shape / NoDup of the dirty list, C06_propagate_fuel) *)
  Definition dirty_ok (b : B.bay) : Prop :=
    forall b1, B.dirty_phase (S (length (B.b_chans b))) 0 b = Ok b1 ->
      (forall c, In c (B.b_dirty b1) -> nth_error (B.b_chans b1) c <> None) /\ (length (B.b_dirty b1) <= length (B.b_chans b1))%nat.

  Theorem bay_propagate_from_source st : dirty_ok (bs_bay st) ->
    G.bay_propagate (Some tt) sx st =
    match B.propagate (bs_bay st) (bs_last st) with
    | Ok (b', last', ls) => Ok (tt, with_state (with_emit (with_bay st b') last' (bs_lines st ++ ls)) (cast_uint32 G.c_BAY_READY))
    | Err e => Err e
    end.
  Proof.
    intros Hok. unfold G.bay_propagate, B.propagate. munf. cbn [is_null negb]. unfold set_bay_state at 1.
    set (st0 := with_state st (cast_uint32 G.c_BAY_PROPAGATING)).
    (* dirty phase *)
    assert (E1 : for_next_bay_chan (fun sx0 st1 => get_bay__dirty sx0 st1 (Some tt)) tt
                   (fun cur (_ : unit) sx0 st1 => match G.propagate_chan cur (cast_uint32 G.c_BAY_CB_DIRTY) sx0 st1 with Ok (_, st') => Ok (tt, st') | Err e => Err e end) sx st0 =
                 match B.dirty_phase (S (length (B.b_chans (bs_bay st)))) 0 (bs_bay st) with Ok b' => Ok (tt, with_bay st0 b') | Err e => Err e end).
    { unfold for_next_bay_chan, get_bay__dirty. change (bs_bay st0) with (bs_bay st).
      destruct (B.b_dirty (bs_bay st)) as [|c0 r0] eqn:Ed.
      - cbn [B.dirty_phase]. rewrite Ed. cbn [nth_error]. rewrite <- (with_bay_same st0) at 1. reflexivity.
      - rewrite (dirty_loop _); [reflexivity|]. intros c st'. rewrite prop_dirty. destruct (B.run_cbs (bs_bay st') c); reflexivity. }
    rewrite E1. clear E1. specialize (Hok).
    destruct (B.dirty_phase (S (length (B.b_chans (bs_bay st)))) 0 (bs_bay st)) as [b1|e] eqn:Edp; [|reflexivity].
    destruct (Hok b1 Edp) as [Hv Hl].
    unfold set_bay_state at 1. set (st1 := with_state (with_bay st0 b1) (cast_uint32 G.c_BAY_EMITTING)).
    (* emit phase *)
    assert (E2 : for_next_bay_chan (fun sx0 st2 => get_bay__dirty sx0 st2 (Some tt)) tt
                   (fun cur (_ : unit) sx0 st2 => match G.propagate_chan cur (cast_uint32 G.c_BAY_CB_EMIT) sx0 st2 with Ok (_, st') => Ok (tt, st') | Err e => Err e end) sx st1 =
                 match B.emit_phase b1 (bs_last st) (B.b_dirty b1) with
                 | Ok (l', ls) => Ok (tt, with_emit st1 l' (bs_lines st ++ ls)) | Err er => Err er end).
    { unfold for_next_bay_chan, get_bay__dirty. change (bs_bay st1) with b1.
      destruct (B.b_dirty b1) as [|c0 r0] eqn:Ed.
      - cbn [B.emit_phase]. rewrite app_nil_r. destruct st; reflexivity.
      - rewrite (emit_loop _) with (ds := c0 :: r0).
        + change (bs_bay st1) with b1. change (bs_last st1) with (bs_last st). change (bs_lines st1) with (bs_lines st).
          destruct (B.emit_phase b1 (bs_last st) (c0 :: r0)) as [[l' ls]|]; reflexivity.
        + intros c ch st' Hc. rewrite (prop_emit c ch st' Hc). destruct (B.emit_cbs _ _ _) as [[l' ls]|]; reflexivity.
        + change (bs_bay st1) with b1. rewrite Ed. reflexivity.
        + change (bs_bay st1) with b1. simpl in Hl |- *. lia.
        + change (bs_bay st1) with b1. intros c Hc. apply Hv. exact Hc. }
    rewrite E2. clear E2.
    destruct (B.emit_phase b1 (bs_last st) (B.b_dirty b1)) as [[last' ls]|e]; [|reflexivity].
    unfold set_bay_state at 1. set (st2 := with_state (with_emit st1 last' (bs_lines st ++ ls)) (cast_uint32 G.c_BAY_FLUSHING)).
    (* flush phase *)
    assert (E3 : for_next_bay_chan (fun sx0 st3 => get_bay__dirty sx0 st3 (Some tt)) tt
                   (fun cur (_ : unit) sx0 st3 =>
                      match (if negb (is_null cur) then chan_flush (get_bay_chan__chan sx0 st3 cur) sx0 st3 else Err E_TRAP) with
                      | Ok (_, st') => match set_bay_chan_is_dirty cur (fun _ _ => 0) sx0 st' with Ok (_, st'0) => Ok (tt, st'0) | Err e => Err e end
                      | Err e => Err e end) sx st2 =
                 match B.flush_all b1 (B.b_dirty b1) with Ok b' => Ok (tt, with_bay st2 b') | Err e => Err e end).
    { unfold for_next_bay_chan, get_bay__dirty. change (bs_bay st2) with b1.
      destruct (B.b_dirty b1) as [|c0 r0] eqn:Ed.
      - cbn [B.flush_all]. rewrite <- (with_bay_same st2) at 1. reflexivity.
      - rewrite (flush_loop _) with (ds := c0 :: r0).
        + reflexivity.
        + intros c st'. cbn [is_null negb get_bay_chan__chan chan_flush].
          destruct (nth_error (B.b_chans (bs_bay st')) c) as [ch|]; [|reflexivity]. destruct (B.c_dirty ch); reflexivity.
        + change (bs_bay st2) with b1. rewrite Ed. reflexivity.
        + change (bs_bay st2) with b1. simpl in Hl |- *. lia. }
    rewrite E3. clear E3.
    destruct (B.flush_all b1 (B.b_dirty b1)) as [b2|e]; [|reflexivity].
    unfold set_bay_dirty, set_bay_state. cbn [bs_bay with_bay]. destruct st; reflexivity.
  Qed.
End Propagate.

(* ---- the callback lists *)
Section Callbacks.
  Variable sx : benv.

  Theorem enable_input_from_source st m i mx en c :
    nth_error (B.b_muxes (bs_bay st)) m = Some mx -> nth_error (B.mx_en mx) i = Some en -> nth_error (B.mx_ins mx) i = Some c ->
    G.bay_enable_cb (Some (CbAt c (WD (B.DInput m i)))) sx st =
    match B.enable_input (bs_bay st) m i with Ok b' => Ok (tt, with_bay st b') | Err e => Err e end.
  Proof.
    intros Hm He Hc. unfold G.bay_enable_cb, B.enable_input. munf. cbn [is_null negb get_bay_cb__enabled en_of].
    rewrite Hm, He, Hc. rewrite (nth_error_nth _ _ false He).
    destruct en; cbn [b2z Z.eqb negb].
    - rewrite with_bay_same. reflexivity.
    - unfold set_bay_cb_enabled. cbn [resolve]. rewrite Hm. cbn [Z.eqb negb get_bay_cb__bchan is_null get_bay_chan__is_dirty].
      unfold DL_APPEND_bay_chan_cb_at. cbn [resolve get_bay_cb__type type_of Z.eqb]. rewrite Nat.eqb_refl. cbn [andb].
      unfold incr_bay_chan_ncallbacks_at. cbn [is_null negb andb bs_bay with_bay].
      destruct st; reflexivity.
  Qed.

  Theorem disable_input_from_source st m i mx en c :
    nth_error (B.b_muxes (bs_bay st)) m = Some mx -> nth_error (B.mx_en mx) i = Some en -> nth_error (B.mx_ins mx) i = Some c ->
    G.bay_disable_cb (Some (CbAt c (WD (B.DInput m i)))) sx st =
    match B.disable_input (bs_bay st) m i with Ok b' => Ok (tt, with_bay st b') | Err e => Err e end.
  Proof.
    intros Hm He Hc. unfold G.bay_disable_cb, B.disable_input. munf. cbn [is_null negb get_bay_cb__enabled en_of].
    rewrite Hm, He, Hc. rewrite (nth_error_nth _ _ false He).
    destruct en; cbn [b2z Z.eqb negb].
    - unfold set_bay_cb_enabled. cbn [resolve]. rewrite Hm. cbn [Z.eqb negb get_bay_cb__bchan is_null get_bay_chan__is_dirty].
      unfold DL_DELETE_bay_chan_cb_at. cbn [resolve get_bay_cb__type type_of Z.eqb]. rewrite Nat.eqb_refl. cbn [andb].
      unfold incr_bay_chan_ncallbacks_at. cbn [is_null negb andb bs_bay with_bay].
      destruct st; reflexivity.
    - rewrite with_bay_same. reflexivity.
  Qed.

  (* cb_chan_is_dirty: the channel goes to the END of the dirty list (BayDefs.mark_dirty), unless the bay is emitting / flushing *)
  Theorem chan_is_dirty_from_source st c :
    G.cb_chan_is_dirty (Some (CReg c)) (Some (VBchan (BAt c))) sx st =
    if (bs_state st =? G.c_BAY_READY) || (bs_state st =? G.c_BAY_PROPAGATING)
    then Ok (tt, with_bay st (B.set_dirty_list (bs_bay st) (B.b_dirty (bs_bay st) ++ [c])))
    else Err E_FAIL.
  Proof.
    unfold G.cb_chan_is_dirty. munf. unfold get_bay__state, get_bay_chan__bay, get_bay_chan__is_dirty, DL_APPEND_bay_dirty.
    cbn [ptr_bchan_of_void is_null negb andb Z.eqb].
    change (cast_uint32 G.c_BAY_READY) with G.c_BAY_READY. change (cast_uint32 G.c_BAY_PROPAGATING) with G.c_BAY_PROPAGATING.
    destruct (bs_state st =? G.c_BAY_READY); cbn [negb andb orb]; [reflexivity|].
    destruct (bs_state st =? G.c_BAY_PROPAGATING); reflexivity.
  Qed.

  (* bay_register: refused for a name that is already in the table; else the channel is appended with empty callback lists *)
  Theorem bay_register_from_source st n ch : bn_alloc_ok sx = true ->
    G.bay_register (Some tt) (Some (CNewChan n ch)) sx st =
    if Nat.ltb n (length (B.b_chans (bs_bay st))) then Err E_FAIL
    else if Nat.eqb n (length (B.b_chans (bs_bay st)))
         then Ok (tt, with_bay (with_hooked (with_newbchan st (Some (CNewChan n ch))) (n :: bs_hooked st))
                        {| B.b_chans := B.b_chans (bs_bay st) ++ [ch]; B.b_dcbs := B.b_dcbs (bs_bay st) ++ [[]];
                           B.b_ecbs := B.b_ecbs (bs_bay st) ++ [[]]; B.b_muxes := B.b_muxes (bs_bay st); B.b_dirty := B.b_dirty (bs_bay st) |})
         else Err E_TRAP.
  Proof.
    intros Ha. unfold G.bay_register. munf. cbn [is_null negb get_chan__name find_bay_chan]. unfold valid_chan.
    destruct (Nat.ltb n (length (B.b_chans (bs_bay st)))); cbn [is_null negb]; [reflexivity|].
    unfold calloc_ptr_bchan. rewrite Ha. cbn [is_null negb]. unfold set_bay_chan_chan, set_bay_chan_bay, chan_set_dirty_cb, fn_cb_chan_is_dirty, void_of_ptr_bchan.
    cbn [option_map]. unfold HASH_ADD_STR_bay_channels. cbn [bs_newbchan with_newbchan with_hooked bs_bay].
    destruct (Nat.eqb n (length (B.b_chans (bs_bay st)))); reflexivity.
  Qed.

  (* bay_add_cb(.., cb_select / cb_reselect, mux, 1): appended ENABLED at the end of the channel's dirty callbacks *)
  Theorem add_select_cb_from_source st c f m d : bn_alloc_ok sx = true -> valid_chan st c = true ->
    what_of (Some f) (Some (VMux m)) = Some (WD d) ->
    existsb (B.dcb_eqb d) (B.dcbs_of (bs_bay st) c) = false ->
    exists st', G.bay_add_cb (Some tt) G.c_BAY_CB_DIRTY (Some (CReg c)) (Some f) (Some (VMux m)) 1 sx st = Ok (Some CbNew, st') /\
                bs_bay st' = B.set_dcbs (bs_bay st) c (B.dcbs_of (bs_bay st) c ++ [d]).
  Proof.
    intros Ha Hv Hw Hn. unfold G.bay_add_cb. munf. cbn [is_null negb get_chan__name find_bay_chan]. rewrite Hv. cbn [is_null negb].
    unfold calloc_ptr_cb. rewrite Ha. cbn [is_null negb].
    unfold set_bay_cb_func, set_bay_cb_arg, set_bay_cb_bchan, set_bay_cb_type, set_bay_cb_enabled, upd_new.
    cbn [resolve bs_newcb with_newcb nc_func nc_arg nc_bchan nc_type nc_enabled newcb0].
    change (cast_int32 G.c_BAY_CB_DIRTY) with 0.
    destruct f; cbn [what_of] in Hw; try discriminate; injection Hw as <-; cbn [what_of Z.eqb negb];
      unfold G.bay_enable_cb; munf; cbn [is_null negb get_bay_cb__enabled bs_newcb with_newcb nc_enabled Z.eqb];
      unfold set_bay_cb_enabled; cbn [resolve bs_newcb with_newcb nc_func nc_arg nc_bchan nc_type what_of get_bay_cb__bchan is_null negb get_bay_chan__is_dirty Z.eqb];
      unfold DL_APPEND_bay_chan_cb_at; cbn [resolve bs_newcb with_newcb nc_func nc_arg nc_bchan nc_type what_of get_bay_cb__type type_of Z.eqb];
      rewrite Nat.eqb_refl; cbn [andb]; unfold incr_bay_chan_ncallbacks_at; cbn [is_null negb andb];
      (eexists; split; [reflexivity|reflexivity]).
  Qed.
  (* bay_add_cb(.., cb_input, input, 0): the callback object is created DISABLED: no callback list changes; the enabled flag
     of input i of mux m (BayDefs keeps it in mx_en) is written 0, which it already is after mux_init *)
  Lemma update_id {A} (l : list A) i x : nth_error l i = Some x -> update l i x = l.
  Proof. revert i. induction l as [|a l IH]; intros [|i] H; simpl in *; try discriminate; [congruence|]. f_equal. apply IH. exact H. Qed.

  Theorem add_input_cb_disabled_from_source st c m i mx : bn_alloc_ok sx = true -> valid_chan st c = true ->
    nth_error (B.b_muxes (bs_bay st)) m = Some mx -> nth_error (B.mx_en mx) i = Some false ->
    exists st', G.bay_add_cb (Some tt) G.c_BAY_CB_DIRTY (Some (CReg c)) (Some FInput) (Some (VInput m i)) 0 sx st = Ok (Some CbNew, st') /\
                bs_bay st' = bs_bay st.
  Proof.
    intros Ha Hv Hm He. unfold G.bay_add_cb. munf. cbn [is_null negb get_chan__name find_bay_chan]. rewrite Hv. cbn [is_null negb].
    unfold calloc_ptr_cb. rewrite Ha. cbn [is_null negb].
    unfold set_bay_cb_func, set_bay_cb_arg, set_bay_cb_bchan, set_bay_cb_type, set_bay_cb_enabled, upd_new.
    repeat (cbn [resolve bs_newcb with_newcb nc_func nc_arg nc_bchan nc_type nc_enabled newcb0 Z.eqb negb what_of]).
    change (cast_int32 G.c_BAY_CB_DIRTY) with 0.
    repeat (cbn [resolve bs_newcb with_newcb nc_func nc_arg nc_bchan nc_type nc_enabled newcb0 Z.eqb negb what_of bs_bay]).
    rewrite Hm. cbn [Z.eqb negb]. eexists; split; [reflexivity|].
    cbn [bs_bay with_bay with_newcb]. rewrite (update_id _ _ _ He).
    unfold B.set_mux, B.mux_with_en. destruct mx; cbn. rewrite (update_id _ _ _ Hm). destruct (bs_bay st); reflexivity.
  Qed.
End Callbacks.

(* dirty_ok follows from the precondition of C06_propagate_fuel (BayPropagate.Pre: Shape, Cbs, clean outputs, NoDup level-0
   dirty list): after the dirty phase the dirty list holds distinct channel ids *)
From OV Require Proofs.BayBasics Proofs.BayProofs Proofs.BayPropagate.

Lemma pre_dirty_ok b : BayPropagate.Pre b -> dirty_ok b.
Proof.
  intros P b1 E.
  destruct (BayProofs.dirty_phase_inv b (BayPropagate.pre_shape _ P) (BayPropagate.pre_cbs _ P) (BayPropagate.pre_outs _ P)
              (BayPropagate.pre_sel _ P) (BayPropagate.pre_nodup _ P) (BayPropagate.pre_lvl0 _ P)) as (b1' & Q & E' & I & _).
  rewrite E in E'. inversion E'; subst b1'. clear E'.
  pose proof (BayBasics.skel_len_chans _ _ (BayProofs.i_skel _ _ _ I)) as Hlen.
  destruct (BayProofs.dirty_cur_nodup b (BayPropagate.pre_shape _ P) (BayPropagate.pre_nodup _ P) (BayPropagate.pre_lvl0 _ P) Q b1 I) as [_ Hlt].
  pose proof (BayProofs.dirty_cur_len b (BayPropagate.pre_shape _ P) (BayPropagate.pre_nodup _ P) (BayPropagate.pre_lvl0 _ P) Q b1 I) as Hl.
  split.
  - intros c Hc. apply nth_error_Some. rewrite Hlen. apply Hlt. exact Hc.
  - rewrite Hlen. exact Hl.
Qed.

Theorem bay_propagate_from_source_pre sx st : BayPropagate.Pre (bs_bay st) ->
  (exists b' last' ls, B.propagate (bs_bay st) (bs_last st) = Ok (b', last', ls) /\
  G.bay_propagate (Some tt) sx st = Ok (tt, with_state (with_emit (with_bay st b') last' (bs_lines st ++ ls)) (cast_uint32 G.c_BAY_READY)))
  \/ exists e, e <> B.E_FUEL /\ B.propagate (bs_bay st) (bs_last st) = Err e /\ G.bay_propagate (Some tt) sx st = Err e.
Proof.
  intros P. pose proof (bay_propagate_from_source sx st (pre_dirty_ok _ P)) as H.
  pose proof (BayPropagate.propagate_fuel (bs_bay st) (bs_last st) P) as Hf.
  destruct (B.propagate (bs_bay st) (bs_last st)) as [[[b' last'] ls]|e].
  - left. exists b', last', ls. split; [reflexivity|exact H].
  - right. exists e. split; [intros He; apply Hf; rewrite He; reflexivity|]. split; [reflexivity|exact H].
Qed.
