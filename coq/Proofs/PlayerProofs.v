(* Proofs about the player model (Emu/PlayerDefs.v), for ANY number of streams of ANY length. *)
From Coq Require Import ZArith List Bool Arith Lia Permutation Sorted ZifyNat ZifyBool.
From OV Require Import Emu.HeapDefs Emu.PlayerDefs Proofs.HeapProofs.
Import ListNotations.
Local Open Scope Z_scope.

(* ------------------------------------------------------------------ stream_cmp is a legal comparison *)

Lemma scmp_ge a b : stream_cmp a b >= 0 <-> fst a <= fst b.
Proof. unfold stream_cmp. destruct (fst a <? fst b) eqn:E1; destruct (fst b <? fst a) eqn:E2; lia. Qed.

Lemma scmp_anti a b : stream_cmp a b > 0 <-> stream_cmp b a < 0.
Proof.
  unfold stream_cmp.
  destruct (fst a <? fst b) eqn:E1; destruct (fst b <? fst a) eqn:E2; lia.
Qed.

Lemma scmp_trans a b c : stream_cmp a b >= 0 -> stream_cmp b c >= 0 -> stream_cmp a c >= 0.
Proof. rewrite !scmp_ge. lia. Qed.

(* heap facts specialised to the player's heap *)
Definition sinsert_perm := insert_perm stream_cmp.
Definition spop_perm := pop_max_perm stream_cmp.
Definition sinsert_inv := insert_inv stream_cmp scmp_anti scmp_trans.
Definition spop_inv := pop_max_inv stream_cmp scmp_anti scmp_trans.

Lemma spop_min h k id h' : HeapInv stream_cmp h -> pop_max stream_cmp h = Some ((k, id), h') ->
  forall k' id', In (k', id') h -> k <= k'.
Proof.
  intros H E k' id' Hin.
  pose proof (pop_max_is_max stream_cmp scmp_anti scmp_trans h (k, id) h' H E (k', id') Hin) as G.
  apply scmp_ge in G. exact G.
Qed.

(* ------------------------------------------------------------------ list helpers *)

Lemma nth_upd_same {A} (l : list A) i x d : (i < length l)%nat -> nth i (upd l i x) d = x.
Proof.
  revert i; induction l as [|a t IH]; intros [|i] H; cbn in *; try lia; auto. apply IH; lia.
Qed.

Lemma nth_upd_other {A} (l : list A) i k x d : k <> i -> nth k (upd l i x) d = nth k l d.
Proof.
  revert i k; induction l as [|a t IH]; intros [|i] [|k] H; cbn; auto; try congruence.
Qed.

Lemma nth_nonnil_lt {A} (l : list (list A)) i : nth i l [] <> [] -> (i < length l)%nat.
Proof.
  intros H. destruct (Nat.lt_ge_cases i (length l)) as [L|G]; auto.
  rewrite nth_overflow in H by lia. congruence.
Qed.

Definition total (rem : list (list ev)) : nat := length (concat rem).

Lemma total_upd rem id e r : nth id rem [] = e :: r -> total rem = S (total (upd rem id r)).
Proof.
  unfold total. revert id; induction rem as [|a t IH]; intros [|id] H; cbn in *; try discriminate.
  - subst a. cbn. rewrite !app_length. cbn. lia.
  - rewrite !app_length. rewrite (IH _ H). lia.
Qed.

Lemma chainb_sortedb lo l : chainb lo l = true -> sortedb l = true.
Proof.
  destruct l as [|x t]; cbn; auto. intros H. apply andb_true_iff in H. tauto.
Qed.

Lemma chainb_weaken lo lo' l : lo' <= lo -> chainb lo l = true -> chainb lo' l = true.
Proof.
  destruct l as [|x t]; cbn; auto. intros L H. apply andb_true_iff in H as [H1 H2].
  apply andb_true_iff. split; auto. lia.
Qed.

Lemma chainb_Sorted lo l : chainb lo l = true -> Sorted Z.le (lo :: l).
Proof.
  revert lo; induction l as [|x t IH]; intros lo H; cbn in H.
  - constructor; constructor.
  - apply andb_true_iff in H as [H1 H2]. constructor; [apply IH; exact H2|].
    constructor. lia.
Qed.

Lemma sortedb_Sorted l : sortedb l = true -> Sorted Z.le l.
Proof. destruct l as [|x t]; cbn; [constructor | apply chainb_Sorted]. Qed.

Lemma Sorted_chainb lo l : Sorted Z.le (lo :: l) -> chainb lo l = true.
Proof.
  revert lo; induction l as [|x t IH]; intros lo H; cbn; auto.
  inversion H as [|? ? Hs Hh]; subst. inversion Hh; subst.
  apply andb_true_iff. split; [lia | apply IH; exact Hs].
Qed.

Lemma Sorted_sortedb l : Sorted Z.le l -> sortedb l = true.
Proof. destruct l as [|x t]; cbn; auto. apply Sorted_chainb. Qed.

Definition ids (h : list hnode) : list nat := map snd h.

Lemma in_ids k id (h : list hnode) : In (k, id) h -> In id (ids h).
Proof. intros H. unfold ids. change id with (snd (k, id)). now apply in_map. Qed.

Lemma ids_in id (h : list hnode) : In id (ids h) -> exists k, In (k, id) h.
Proof.
  unfold ids. intros H. apply in_map_iff in H as [[k i] [E H]]. cbn in E; subst. eauto.
Qed.

(* ------------------------------------------------------------------ invariant of the player *)
Section PlayerProofs.
  Variable sorted : bool.
  Variable offs : list Z.

  Notation corr := (corr offs).
  Notation restep := (restep sorted offs).
  Notation pstep := (pstep sorted offs).
  Notation ploop := (ploop sorted offs).

  Record PInv (st : pst) : Prop := {
    pi_heap : HeapInv stream_cmp (p_heap st);
    pi_nodup : NoDup (ids (p_heap st));
    (* a stream in the heap has its current event pending, and its key is the corrected clock *)
    pi_key : forall k id, In (k, id) (p_heap st) ->
               exists e r, nth id (p_rem st) [] = e :: r /\ k = corr id e;
    pi_cur : forall id sl, p_cur st = Some (id, sl) -> ~ In id (ids (p_heap st));
    (* every stream with pending events is in the heap or is the current one *)
    pi_live : forall id, nth id (p_rem st) [] <> [] ->
               In id (ids (p_heap st)) \/ exists sl, p_cur st = Some (id, sl)
  }.

  (* after the re-insertion of the current stream *)
  Record PInv1 (st : pst) : Prop := {
    p1_heap : HeapInv stream_cmp (p_heap st);
    p1_nodup : NoDup (ids (p_heap st));
    p1_key : forall k id, In (k, id) (p_heap st) ->
               exists e r, nth id (p_rem st) [] = e :: r /\ k = corr id e;
    p1_live : forall id, nth id (p_rem st) [] <> [] -> In id (ids (p_heap st))
  }.

  Lemma restep_cases st :
    PInv st ->
    (exists st1, restep st = inr st1 /\ PInv1 st1 /\ p_rem st1 = p_rem st /\ p_clk st1 = p_clk st /\
        (forall x, In x (p_heap st1) ->
           In x (p_heap st) \/
           exists id sl e r, p_cur st = Some (id, sl) /\ nth id (p_rem st) [] = e :: r /\
                             x = (corr id e, id) /\ (sorted = true -> sl <= corr id e)))
    \/ (exists id sl e r, restep st = inl (VBackStream id) /\ sorted = true /\
          p_cur st = Some (id, sl) /\ nth id (p_rem st) [] = e :: r /\ corr id e < sl).
  Proof.
    intros [Hh Hn Hk Hc Hl]. unfold PlayerDefs.restep.
    destruct (p_cur st) as [[id sl]|] eqn:Ecur.
    2:{ left. exists st. split; [reflexivity|]. split; [|auto].
        constructor; auto. intros id H. destruct (Hl id H) as [G|[sl G]]; [exact G | discriminate]. }
    destruct (nth id (p_rem st) []) as [|e r] eqn:Erem.
    { left. exists st. split; [reflexivity|]. split; [|auto].
      constructor; auto. intros id' H. destruct (Hl id' H) as [G|[sl' G]]; [exact G|].
      inversion G; subst. congruence. }
    destruct (sorted && (corr id e <? sl)) eqn:Echk.
    { right. exists id, sl, e, r. apply andb_true_iff in Echk as [E1 E2].
      repeat split; auto. lia. }
    left. eexists. split; [reflexivity|]. cbn [p_heap p_rem p_clk].
    assert (Hperm : Permutation (insert stream_cmp (p_heap st) (corr id e, id)) ((corr id e, id) :: p_heap st))
      by apply sinsert_perm.
    split; [|split; [reflexivity|split; [reflexivity|]]].
    - constructor; cbn [p_heap p_rem].
      + apply sinsert_inv. exact Hh.
      + unfold ids. eapply Permutation_NoDup; [apply Permutation_sym, Permutation_map; exact Hperm|].
        cbn. constructor; [|exact Hn]. apply (Hc id sl). reflexivity.
      + intros k id' Hin. apply (Permutation_in _ Hperm) in Hin. destruct Hin as [E|Hin].
        * inversion E; subst. exists e, r. split; auto.
        * apply (Hk k id' Hin).
      + intros id' H. unfold ids.
        eapply Permutation_in; [apply Permutation_sym, Permutation_map; exact Hperm|].
        cbn. destruct (Hl id' H) as [G|[sl' G]]; [right; exact G|].
        inversion G; subst. now left.
    - intros x Hin. apply (Permutation_in _ Hperm) in Hin. destruct Hin as [E|Hin]; [|now left].
      right. exists id, sl, e, r. repeat split; auto.
      intros Hs. rewrite Hs in Echk. cbn in Echk. lia.
  Qed.

  (* everything a delivering step does *)
  Record Emits (st : pst) (e : oev) (st' : pst) : Prop := {
    em_ev : exists ev r, nth (o_id e) (p_rem st) [] = ev :: r /\
              p_rem st' = upd (p_rem st) (o_id e) r /\
              o_rclock e = fst ev /\ o_pay e = snd ev /\ o_sclock e = corr (o_id e) ev;
    em_inv : PInv st';
    em_clk : p_clk st' = Some (match p_clk st with None => o_sclock e | Some (f, _) => f end, o_sclock e);
    em_dclock : o_dclock e = o_sclock e - match p_clk st with None => o_sclock e | Some (f, _) => f end;
    em_cur : p_cur st' = Some (o_id e, o_sclock e);
    em_mono : sorted = true -> match p_clk st with None => True | Some (_, l) => l <= o_sclock e end;
    (* the delivered key is minimal among the heap left behind; the heap left behind consists of
       old nodes and possibly the re-inserted current stream *)
    em_min : forall k id, In (k, id) (p_heap st') -> o_sclock e <= k;
    em_heap : forall x, In x (p_heap st') \/ x = (o_sclock e, o_id e) ->
           In x (p_heap st) \/
           exists id sl ev r, p_cur st = Some (id, sl) /\ nth id (p_rem st) [] = ev :: r /\
                             x = (corr id ev, id) /\ (sorted = true -> sl <= corr id ev)
  }.

  Lemma pstep_cases st :
    PInv st ->
    (pstep st = SDone /\ forall id, nth id (p_rem st) [] = [])
    \/ (exists id sl e r, pstep st = SErr (VBackStream id) /\ sorted = true /\
          p_cur st = Some (id, sl) /\ nth id (p_rem st) [] = e :: r /\ corr id e < sl)
    \/ (pstep st = SErr VBackPlayer /\ sorted = true /\
          exists f l x, p_clk st = Some (f, l) /\ fst x < l /\
             (In x (p_heap st) \/
              exists id sl ev r, p_cur st = Some (id, sl) /\ nth id (p_rem st) [] = ev :: r /\
                             x = (corr id ev, id) /\ (sorted = true -> sl <= corr id ev)))
    \/ (exists e st', pstep st = SEmit e st' /\ Emits st e st').
  Proof.
    intros HI. unfold PlayerDefs.pstep.
    destruct (restep_cases st HI) as [[st1 [E1 [[Hh Hn Hk Hl] [Erem [Eclk Horig]]]]] | [id [sl [e [r [E1 H]]]]]].
    2:{ right; left. exists id, sl, e, r. rewrite E1. tauto. }
    rewrite E1.
    destruct (pop_max stream_cmp (p_heap st1)) as [[[k id] h']|] eqn:Epop.
    2:{ left. split; [reflexivity|]. apply pop_max_none in Epop.
        intros id. destruct (nth id (p_rem st) []) eqn:E; auto.
        exfalso. assert (G : nth id (p_rem st1) [] <> []) by (rewrite Erem, E; discriminate).
        apply Hl in G. rewrite Epop in G. exact G. }
    pose proof (spop_perm _ _ _ Epop) as Hperm.
    assert (Hin : In (k, id) (p_heap st1)) by (apply (Permutation_in _ Hperm); now left).
    rewrite Eclk.
    set (first := match p_clk st with None => k | Some (f, _) => f end).
    set (last := match p_clk st with None => k | Some (_, l) => l end).
    destruct (sorted && (k <? last)) eqn:Echk.
    { right; right; left. apply andb_true_iff in Echk as [Es Ek].
      split; [reflexivity|]. split; [exact Es|].
      subst last. destruct (p_clk st) as [[f l]|]; [|lia].
      exists f, l, (k, id). split; [reflexivity|]. split; [cbn; lia|]. apply Horig. exact Hin. }
    destruct (Hk k id Hin) as [ev [r [Eev Ekey]]].
    rewrite Eev.
    right; right; right. eexists. eexists. split; [reflexivity|].
    assert (Hnd : NoDup (id :: ids h')).
    { eapply Permutation_NoDup; [|exact Hn]. apply Permutation_sym.
      change (id :: ids h') with (ids ((k, id) :: h')). unfold ids. now apply Permutation_map. }
    inversion Hnd as [|? ? Hnotin Hnd']; subst.
    assert (Hlt : (id < length (p_rem st1))%nat) by (apply nth_nonnil_lt; rewrite Eev; discriminate).
    constructor; cbn [o_id o_rclock o_pay o_sclock o_dclock p_heap p_rem p_cur p_clk].
    - exists ev, r. rewrite <- Erem. repeat split; auto.
    - constructor; cbn [p_heap p_rem p_cur].
      + eapply spop_inv; eauto.
      + exact Hnd'.
      + intros k' id' Hin'.
        assert (id' <> id) by (intros ->; apply Hnotin; eapply in_ids; eauto).
        rewrite nth_upd_other by auto.
        apply Hk. apply (Permutation_in _ Hperm). now right.
      + intros id' sl' E. inversion E; subst. exact Hnotin.
      + intros id' H. destruct (Nat.eq_dec id' id) as [->|N]; [right; eauto|].
        rewrite nth_upd_other in H by auto. apply Hl in H. left.
        unfold ids in H. apply (Permutation_in _ (Permutation_sym (Permutation_map snd Hperm))) in H.
        cbn in H. destruct H; [congruence | exact H].
    - subst first. destruct (p_clk st) as [[f l]|]; reflexivity.
    - subst first. destruct (p_clk st) as [[f l]|]; reflexivity.
    - reflexivity.
    - intros Hs. rewrite Hs in Echk. cbn in Echk. subst last.
      destruct (p_clk st) as [[f l]|]; [lia | exact I].
    - intros k' id' Hin'. apply (spop_min (p_heap st1) _ id h' Hh Epop k' id').
      apply (Permutation_in _ Hperm). now right.
    - intros x Hx. apply Horig. apply (Permutation_in _ Hperm).
      destruct Hx as [Hx| ->]; [now right | now left].
  Qed.

  (* ---------------- the loop *)

  Lemma ploop_S f st :
    ploop (S f) st =
    match pstep st with
    | SDone => ([], VOk)
    | SErr v => ([], v)
    | SEmit e st' => let (l, v) := ploop f st' in (e :: l, v)
    end.
  Proof. reflexivity. Qed.

  Lemma emits_total st e st' : Emits st e st' -> total (p_rem st) = S (total (p_rem st')).
  Proof.
    intros [[ev [r [E1 [E2 _]]]] _ _ _ _ _ _ _]. rewrite E2. eapply total_upd; eauto.
  Qed.

  (* the model artefacts VFuel / VInternal / VGate never come out of the loop *)
  Lemma ploop_verdict fuel : forall st out v,
    PInv st -> (total (p_rem st) < fuel)%nat -> ploop fuel st = (out, v) ->
    v = VOk \/ (sorted = true /\ ((exists id, v = VBackStream id) \/ v = VBackPlayer)).
  Proof.
    induction fuel as [|f IH]; intros st out v HI Hf E; [lia|].
    rewrite ploop_S in E.
    destruct (pstep_cases st HI) as [[E1 _] | [[id [sl [e [r [E1 [Hs _]]]]]] | [[E1 [Hs _]] | [e [st' [E1 HE]]]]]];
      rewrite E1 in E.
    - inversion E; auto.
    - inversion E; subst. right. split; eauto.
    - inversion E; subst. right. split; auto.
    - destruct (ploop f st') as [l v'] eqn:El. inversion E; subst.
      apply (IH st' l v); auto. { apply HE. } pose proof (emits_total _ _ _ HE). lia.
  Qed.

  (* order inside each stream: what a completed replay delivers from stream id is exactly
     what was pending in it, in order *)
  Lemma ploop_order fuel : forall st out,
    PInv st -> ploop fuel st = (out, VOk) ->
    forall id, map as_ev (filter (from id) out) = nth id (p_rem st) [].
  Proof.
    induction fuel as [|f IH]; intros st out HI E id; [discriminate|].
    rewrite ploop_S in E.
    destruct (pstep_cases st HI) as [[E1 Hall] | [[id' [sl [e [r [E1 _]]]]] | [[E1 _] | [e [st' [E1 HE]]]]]];
      rewrite E1 in E; try discriminate.
    - inversion E; subst. cbn. symmetry. apply Hall.
    - destruct (ploop f st') as [l v'] eqn:El. inversion E; subst.
      pose proof (IH st' l (em_inv _ _ _ HE) El id) as G.
      destruct (em_ev _ _ _ HE) as [ev [r [Eev [Erem [Erc [Epay _]]]]]].
      cbn [filter]. unfold from at 1.
      destruct (Nat.eq_dec (o_id e) id) as [Eid|N].
      + subst id. rewrite Nat.eqb_refl. cbn [map]. rewrite G, Erem, Eev.
        rewrite nth_upd_same by (apply nth_nonnil_lt; rewrite Eev; discriminate).
        unfold as_ev. rewrite Erc, Epay. destruct ev; reflexivity.
      + replace (o_id e =? id)%nat with false by (symmetry; apply Nat.eqb_neq; exact N).
        rewrite G, Erem. apply nth_upd_other. auto.
  Qed.

  (* corrected clock, Paraver time, and (with the checks of the emulator) monotonicity of
     whatever is delivered, whatever the verdict *)
  Lemma ploop_events fuel : forall st out v,
    PInv st -> ploop fuel st = (out, v) ->
    Forall (fun o => o_sclock o = o_rclock o + nth (o_id o) offs 0) out /\
    match p_clk st with
    | Some (f, l) => Forall (fun o => o_dclock o = o_sclock o - f) out /\
                     (sorted = true -> chainb l (map o_sclock out) = true)
    | None => spec_dclock out /\ (sorted = true -> sortedb (map o_sclock out) = true)
    end.
  Proof.
    induction fuel as [|f IH]; intros st out v HI E.
    { inversion E; subst. split; [constructor|]. destruct (p_clk st) as [[? ?]|]; cbn; auto. }
    rewrite ploop_S in E.
    assert (Hnil : out = [] ->
      Forall (fun o => o_sclock o = o_rclock o + nth (o_id o) offs 0) out /\
      match p_clk st with
      | Some (f, l) => Forall (fun o => o_dclock o = o_sclock o - f) out /\
                       (sorted = true -> chainb l (map o_sclock out) = true)
      | None => spec_dclock out /\ (sorted = true -> sortedb (map o_sclock out) = true)
      end).
    { intros ->. split; [constructor|]. destruct (p_clk st) as [[? ?]|]; cbn; auto. }
    destruct (pstep_cases st HI) as [[E1 _] | [[id' [sl [e [r [E1 _]]]]] | [[E1 _] | [e [st' [E1 HE]]]]]];
      rewrite E1 in E; try (apply Hnil; inversion E; reflexivity).
    destruct (ploop f st') as [l v'] eqn:El. inversion E; subst. clear Hnil E.
    destruct (IH st' l v (em_inv _ _ _ HE) El) as [G1 G2].
    destruct (em_ev _ _ _ HE) as [ev [r [_ [_ [Erc [_ Esc]]]]]].
    rewrite (em_clk _ _ _ HE) in G2. destruct G2 as [G2 G3].
    split.
    { constructor; [|exact G1]. rewrite Esc, Erc. reflexivity. }
    pose proof (em_dclock _ _ _ HE) as Hd. pose proof (em_mono _ _ _ HE) as Hm.
    destruct (p_clk st) as [[f0 l0]|].
    - split; [constructor; auto|]. intros Hs. cbn [map chainb].
      apply andb_true_iff. split; [specialize (Hm Hs); lia | auto].
    - split.
      + cbn. constructor; auto.
      + intros Hs. cbn [map sortedb]. auto.
  Qed.

  (* ---------------- no error on sorted streams *)

  Definition SInv (st : pst) : Prop :=
    (forall k id f l, In (k, id) (p_heap st) -> p_clk st = Some (f, l) -> l <= k) /\
    (forall id, sortedb (map (corr id) (nth id (p_rem st) [])) = true) /\
    (forall id sl, p_cur st = Some (id, sl) ->
        chainb sl (map (corr id) (nth id (p_rem st) [])) = true /\ exists f, p_clk st = Some (f, sl)).

  Lemma sinv_reinserted st x :
    SInv st ->
    (In x (p_heap st) \/
     exists id sl ev r, p_cur st = Some (id, sl) /\ nth id (p_rem st) [] = ev :: r /\
                        x = (corr id ev, id) /\ (sorted = true -> sl <= corr id ev)) ->
    forall f l, p_clk st = Some (f, l) -> l <= fst x.
  Proof.
    intros [S1 [S2 S3]] [Hin | [id [sl [ev [r [Ec [Er [Ex _]]]]]]]] f l Eclk.
    - destruct x as [k id]. cbn. eapply S1; eauto.
    - destruct (S3 id sl Ec) as [Hch [f' Eclk']]. rewrite Er in Hch. cbn in Hch.
      apply andb_true_iff in Hch as [Hle _]. subst x. cbn. rewrite Eclk in Eclk'. inversion Eclk'; subst. lia.
  Qed.

  Lemma ploop_ok fuel : forall st,
    PInv st -> SInv st -> (total (p_rem st) < fuel)%nat ->
    exists out, ploop fuel st = (out, VOk) /\
      match p_clk st with
      | Some (_, l) => chainb l (map o_sclock out) = true
      | None => sortedb (map o_sclock out) = true
      end.
  Proof.
    induction fuel as [|f IH]; intros st HI HS Hf; [lia|].
    rewrite ploop_S.
    destruct (pstep_cases st HI) as [[E1 _] | [[id [sl [e [r [E1 [_ [Ec [Er Hlt]]]]]]]] | [[E1 [_ [f0 [l0 [x [Eclk [Hlt Hx]]]]]]] | [e [st' [E1 HE]]]]]];
      rewrite E1.
    - exists []. split; auto. destruct (p_clk st) as [[? ?]|]; reflexivity.
    - exfalso. destruct HS as [_ [_ S3]]. destruct (S3 id sl Ec) as [Hch _].
      rewrite Er in Hch. cbn in Hch. apply andb_true_iff in Hch as [Hle _]. lia.
    - exfalso. pose proof (sinv_reinserted st x HS Hx f0 l0 Eclk). lia.
    - destruct (em_ev _ _ _ HE) as [ev [r [Eev [Erem [_ [_ Esc]]]]]].
      assert (Hmono : forall f0 l0, p_clk st = Some (f0, l0) -> l0 <= o_sclock e).
      { intros f0 l0 Eclk.
        apply (sinv_reinserted st (o_sclock e, o_id e) HS (em_heap _ _ _ HE _ (or_intror eq_refl)) f0 l0 Eclk). }
      assert (Hsrt : chainb (o_sclock e) (map (corr (o_id e)) r) = true).
      { destruct HS as [_ [S2 _]]. specialize (S2 (o_id e)). rewrite Eev in S2. cbn in S2. now rewrite Esc. }
      assert (HS' : SInv st').
      { split; [|split].
        - intros k id f0 l0 Hin Eclk. rewrite (em_clk _ _ _ HE) in Eclk. inversion Eclk; subst.
          eapply (em_min _ _ _ HE); eauto.
        - intros id. rewrite Erem. destruct (Nat.eq_dec id (o_id e)) as [->|N].
          + rewrite nth_upd_same by (apply nth_nonnil_lt; rewrite Eev; discriminate).
            eapply chainb_sortedb; eauto.
          + rewrite nth_upd_other by auto. destruct HS as [_ [S2 _]]. apply S2.
        - intros id sl Ec. rewrite (em_cur _ _ _ HE) in Ec. inversion Ec; subst.
          rewrite Erem, nth_upd_same by (apply nth_nonnil_lt; rewrite Eev; discriminate).
          split; [exact Hsrt|]. rewrite (em_clk _ _ _ HE). eauto. }
      destruct (IH st' (em_inv _ _ _ HE) HS') as [l [El Hl]].
      { pose proof (emits_total _ _ _ HE). lia. }
      rewrite El. exists (e :: l). split; [reflexivity|].
      rewrite (em_clk _ _ _ HE) in Hl.
      destruct (p_clk st) as [[f0 l0]|] eqn:Eclk.
      + cbn [map chainb]. apply andb_true_iff. split; [specialize (Hmono f0 l0 eq_refl); lia | exact Hl].
      + cbn [map sortedb]. exact Hl.
  Qed.

  (* ---------------- player_init *)

  Lemma pinit_spec : forall suf pre h,
    HeapInv stream_cmp h -> NoDup (ids h) ->
    (forall k id, In (k, id) h -> (id < length pre)%nat /\
        exists e r, nth id (pre ++ suf) [] = e :: r /\ k = corr id e) ->
    (forall id, (id < length pre)%nat -> nth id (pre ++ suf) [] <> [] -> In id (ids h)) ->
    match pinit sorted offs (length pre) suf h with
    | inr h' =>
        HeapInv stream_cmp h' /\ NoDup (ids h') /\
        (forall k id, In (k, id) h' -> exists e r, nth id (pre ++ suf) [] = e :: r /\ k = corr id e) /\
        (forall id, nth id (pre ++ suf) [] <> [] -> In id (ids h')) /\
        (sorted = true -> forall k id, In (k, id) h' -> In (k, id) h \/ 0 <= k)
    | inl v => sorted = true /\ exists id e r, v = VBackStream id /\
                 nth id (pre ++ suf) [] = e :: r /\ corr id e < 0
    end.
  Proof.
    induction suf as [|s t IH]; intros pre h Hh Hn Hk Hl.
    { cbn [pinit]. repeat split; auto.
      - intros k id Hin. apply Hk in Hin. tauto.
      - intros id H. apply Hl; auto. rewrite app_nil_r in H. now apply nth_nonnil_lt. }
    assert (Eapp : pre ++ s :: t = (pre ++ [s]) ++ t) by (rewrite <- app_assoc; reflexivity).
    assert (Elen : S (length pre) = length (pre ++ [s])) by (rewrite app_length; cbn; lia).
    assert (Ens : nth (length pre) (pre ++ s :: t) [] = s) by (rewrite app_nth2, Nat.sub_diag; auto).
    cbn [pinit]. destruct s as [|e r].
    - (* stream without events *)
      rewrite Elen, Eapp. apply IH; auto.
      + intros k id Hin. destruct (Hk k id Hin) as [L G]. rewrite <- Eapp, <- Elen. split; [lia | exact G].
      + intros id L H. rewrite <- Eapp in H. rewrite <- Elen in L.
        destruct (Nat.eq_dec id (length pre)) as [->|N]; [congruence|]. apply Hl; auto. lia.
    - destruct (sorted && (corr (length pre) e <? 0)) eqn:Echk.
      { apply andb_true_iff in Echk as [Es Ec]. split; [exact Es|].
        exists (length pre), e, r. repeat split; auto. lia. }
      pose proof (sinsert_perm h (corr (length pre) e, length pre)) as Hperm.
      rewrite Elen, Eapp.
      specialize (IH (pre ++ [e :: r]) (insert stream_cmp h (corr (length pre) e, length pre))).
      match type of IH with ?A -> ?B -> ?C -> ?D -> _ =>
        assert (HA : A); [|assert (HB : B); [|assert (HC : C); [|assert (HD : D)]]] end.
      + apply sinsert_inv; auto.
      + unfold ids. eapply Permutation_NoDup; [apply Permutation_sym, Permutation_map; exact Hperm|].
        cbn. constructor; auto. intros Hin. apply ids_in in Hin as [k Hin].
        apply Hk in Hin. lia.
      + intros k id Hin. rewrite <- Eapp, <- Elen. apply (Permutation_in _ Hperm) in Hin.
        destruct Hin as [E|Hin].
        * inversion E; subst. split; [lia|]. exists e, r. split; auto.
        * destruct (Hk k id Hin) as [L G]. split; [lia | exact G].
      + intros id L H. rewrite <- Eapp in H. rewrite <- Elen in L. unfold ids.
        eapply Permutation_in; [apply Permutation_sym, Permutation_map; exact Hperm|]. cbn.
        destruct (Nat.eq_dec id (length pre)) as [->|N]; [now left|]. right. apply Hl; auto. lia.
      + specialize (IH HA HB HC HD).
        destruct (pinit sorted offs (length (pre ++ [e :: r])) t
                    (insert stream_cmp h (corr (length pre) e, length pre))) as [v|h'].
        * exact IH.
        * destruct IH as [I1 [I2 [I3 [I4 I5]]]]. repeat split; auto.
          intros Hs k id Hin. destruct (I5 Hs k id Hin) as [G|G]; [|now right].
          apply (Permutation_in _ Hperm) in G. destruct G as [E|G]; [|now left].
          rewrite Hs in Echk. cbn [andb] in Echk.
          inversion E. right. lia.
  Qed.
End PlayerProofs.

(* ------------------------------------------------------------------ from the loop to `run` *)

Lemma nth_offs ss id : nth id (map s_off ss) 0 = s_off (nth id ss no_strm).
Proof. exact (map_nth s_off ss no_strm id). Qed.

Lemma nth_evs ss id : nth id (map s_evs ss) [] = s_evs (nth id ss no_strm).
Proof. exact (map_nth s_evs ss no_strm id). Qed.

Lemma corr_sclocks ss id l :
  map (corr (map s_off ss) id) l = map (fun e => fst e + s_off (nth id ss no_strm)) l.
Proof. apply map_ext. intros e. unfold corr. now rewrite nth_offs. Qed.

Lemma in_nth_strm ss s : In s ss -> exists id, (id < length ss)%nat /\ nth id ss no_strm = s.
Proof. intros H. apply In_nth with (d := no_strm) in H. destruct H as [n [L E]]. eauto. Qed.

Lemma filter_filter_imp {X} (p q : X -> bool) l :
  (forall x, p x = true -> q x = true) -> filter p (filter q l) = filter p l.
Proof.
  intros H. induction l as [|a t IH]; cbn; auto.
  destruct (q a) eqn:Eq; cbn; destruct (p a) eqn:Ep; cbn; try rewrite IH; auto.
  apply H in Ep. congruence.
Qed.

Lemma filter_split_perm {X} (p : X -> bool) l :
  Permutation l (filter p l ++ filter (fun x => negb (p x)) l).
Proof.
  induction l as [|a t IH]; cbn; auto. destruct (p a); cbn.
  - now apply perm_skip.
  - eapply perm_trans; [apply perm_skip; exact IH|]. apply Permutation_middle.
Qed.

(* per-stream order + no foreign ids ==> every event exactly once *)
Lemma complete_from_order : forall ss k out,
  (forall id, map as_ev (filter (from (k + id)) out) = s_evs (nth id ss no_strm)) ->
  (forall o, In o out -> (k <= o_id o)%nat) ->
  Permutation (map untime out) (tagged k ss).
Proof.
  induction ss as [|s t IH]; intros k out Hord Hlo.
  - cbn. destruct out as [|o out']; auto. exfalso.
    specialize (Hord (o_id o - k)%nat). replace (k + (o_id o - k))%nat with (o_id o) in Hord.
    2:{ specialize (Hlo o (or_introl eq_refl)). lia. }
    cbn [filter] in Hord. unfold from at 1 in Hord. rewrite Nat.eqb_refl in Hord.
    destruct (o_id o - k)%nat; discriminate.
  - cbn [tagged].
    eapply perm_trans; [apply Permutation_map; apply (filter_split_perm (from k))|].
    rewrite map_app. apply Permutation_app.
    + pose proof (Hord 0%nat) as H0. rewrite Nat.add_0_r in H0. cbn [nth] in H0. rewrite <- H0.
      rewrite map_map. apply Permutation_refl'. apply map_ext_in.
      intros o Hin. apply filter_In in Hin as [_ Hf]. unfold from in Hf. apply Nat.eqb_eq in Hf.
      unfold untime, as_ev. cbn. now rewrite Hf.
    + apply IH.
      * intros id. rewrite filter_filter_imp.
        { replace (S k + id)%nat with (k + S id)%nat by lia. apply (Hord (S id)). }
        intros o Hf. unfold from in *. apply Nat.eqb_eq in Hf. apply negb_true_iff, Nat.eqb_neq. lia.
      * intros o Hin. apply filter_In in Hin as [Hin Hf]. apply negb_true_iff in Hf.
        unfold from in Hf. apply Nat.eqb_neq in Hf. specialize (Hlo o Hin). lia.
Qed.

Lemma ssorted_filter {X} (f : X -> Z) (p : X -> bool) l :
  StronglySorted Z.le (map f l) -> StronglySorted Z.le (map f (filter p l)).
Proof.
  induction l as [|a t IH]; cbn; intros H; [constructor|].
  inversion H as [|? ? Hs Hf]; subst. destruct (p a); cbn; auto.
  constructor; auto. apply Forall_forall. intros z Hz. rewrite Forall_forall in Hf. apply Hf.
  apply in_map_iff in Hz as [x [E Hx]]. apply filter_In in Hx as [Hx _]. subst. now apply in_map.
Qed.

Lemma sorted_filter {X} (f : X -> Z) (p : X -> bool) l :
  Sorted Z.le (map f l) -> Sorted Z.le (map f (filter p l)).
Proof.
  intros H. apply StronglySorted_Sorted. apply ssorted_filter.
  apply Sorted_StronglySorted; auto. exact Z.le_trans.
Qed.

Lemma run_unfold sorted ss :
  run sorted ss =
  match pinit sorted (map s_off ss) 0 (map s_evs ss) [] with
  | inl v => ([], v)
  | inr h =>
    if sorted && negb (gate_ok ss) then ([], VGate)
    else ploop sorted (map s_off ss) (S (total (map s_evs ss))) (mkpst h (map s_evs ss) None None)
  end.
Proof. reflexivity. Qed.

Lemma pinit_run sorted ss :
  match pinit sorted (map s_off ss) 0 (map s_evs ss) [] with
  | inr h =>
      PInv (map s_off ss) (mkpst h (map s_evs ss) None None) /\
      (sorted = true -> forall s e r, In s ss -> s_evs s = e :: r -> 0 <= fst e + s_off s)
  | inl v => sorted = true /\ (exists id, v = VBackStream id) /\ exists s, In s ss /\ stream_ok s = false
  end.
Proof.
  pose proof (pinit_spec sorted (map s_off ss) (map s_evs ss) [] []) as H.
  cbn [length app] in H.
  assert (Hinv : HeapInv stream_cmp []) by (intros j x y _ Hx; destruct j; discriminate).
  specialize (H Hinv (NoDup_nil _)).
  assert (H3 : forall k id, In (k, id) (@nil hnode) -> (id < 0)%nat /\
     exists e r, nth id (map s_evs ss) [] = e :: r /\ k = corr (map s_off ss) id e) by (intros ? ? []).
  assert (H4 : forall id, (id < 0)%nat -> nth id (map s_evs ss) [] <> [] -> In id (ids [])) by (intros; lia).
  specialize (H H3 H4).
  destruct (pinit sorted (map s_off ss) 0 (map s_evs ss) []) as [v|h].
  - destruct H as [Hs [id [e [r [Ev [E Hlt]]]]]]. split; auto. split; [eauto|].
    exists (nth id ss no_strm). split.
    + apply nth_In. assert (L : (id < length (map s_evs ss))%nat) by (apply nth_nonnil_lt; rewrite E; discriminate).
      now rewrite map_length in L.
    + rewrite nth_evs in E. unfold stream_ok, sclocks. rewrite E. cbn.
      unfold corr in Hlt. rewrite nth_offs in Hlt. apply andb_false_iff. left. lia.
  - destruct H as [I1 [I2 [I3 [I4 I5]]]]. split.
    + constructor; cbn [p_heap p_rem p_cur]; auto.
      * intros; discriminate.
    + intros Hs s e r Hin E. apply in_nth_strm in Hin as [id [L Es]].
      assert (G : nth id (map s_evs ss) [] <> []) by (rewrite nth_evs, Es, E; discriminate).
      apply I4, ids_in in G as [k G].
      destruct (I5 Hs k id G) as [[]|Hk].
      destruct (I3 k id G) as [e' [r' [E' Ek]]]. rewrite nth_evs, Es, E in E'. inversion E'; subst e' r'.
      unfold corr in Ek. rewrite nth_offs, Es in Ek. lia.
Qed.

(* Everything a completed replay satisfies, in either mode *)
Theorem run_VOk_spec sorted ss out :
  run sorted ss = (out, VOk) ->
  spec_complete ss out /\ spec_stream_order ss out /\ spec_corrected ss out /\ spec_dclock out /\
  (sorted = true -> spec_sorted out /\ gate_ok ss = true /\ forall s, In s ss -> stream_ok s = true).
Proof.
  rewrite run_unfold. pose proof (pinit_run sorted ss) as Hi.
  destruct (pinit sorted (map s_off ss) 0 (map s_evs ss) []) as [v|h].
  { intros E. destruct Hi as [_ [[id Ev] _]]. subst v. discriminate. }
  destruct Hi as [HI Hfirst].
  destruct (sorted && negb (gate_ok ss)) eqn:Eg; [discriminate|].
  intros E.
  pose proof (ploop_order sorted _ _ _ _ HI E) as Hord. cbn [p_rem] in Hord.
  destruct (ploop_events sorted _ _ _ _ _ HI E) as [Hcor [Hdc Hsrt]]. cbn [p_clk] in *.
  assert (Ho : spec_stream_order ss out) by (intros id; rewrite Hord; apply nth_evs).
  assert (Hc : spec_corrected ss out).
  { unfold spec_corrected. eapply Forall_impl; [|exact Hcor]. cbn. intros o G. now rewrite G, nth_offs. }
  split; [|split; [exact Ho|split; [exact Hc|split; [exact Hdc|]]]].
  - apply complete_from_order; [|intros; lia]. intros id. apply Ho.
  - intros Hs. specialize (Hsrt Hs). apply sortedb_Sorted in Hsrt.
    split; [exact Hsrt|]. split.
    { rewrite Hs in Eg. cbn in Eg. now apply negb_false_iff in Eg. }
    intros s Hin. destruct (in_nth_strm _ _ Hin) as [id [L Es]].
    assert (Esc : map o_sclock (filter (from id) out) = sclocks s).
    { rewrite <- Es. unfold sclocks. rewrite <- (Ho id). rewrite map_map. apply map_ext_in.
      intros o Hino. apply filter_In in Hino as [Hino Hf]. unfold from in Hf. apply Nat.eqb_eq in Hf.
      unfold spec_corrected in Hc. rewrite Forall_forall in Hc. rewrite (Hc o Hino), Hf. reflexivity. }
    assert (Hss : sortedb (sclocks s) = true).
    { rewrite <- Esc. apply Sorted_sortedb. now apply sorted_filter. }
    unfold stream_ok. unfold sclocks in *. destruct (s_evs s) as [|e r] eqn:Ee; auto.
    cbn [map chainb] in *. apply andb_true_iff. split; [|exact Hss].
    specialize (Hfirst Hs s e r Hin Ee). lia.
Qed.

(* Sorted streams are replayed completely and in order (both modes) *)
Theorem run_sorted_streams (sorted : bool) (ss : list strm) :
  (forall s, In s ss -> if sorted then stream_ok s = true else stream_sorted s = true) ->
  (sorted = true -> gate_ok ss = true) ->
  exists out, run sorted ss = (out, VOk) /\ spec_all ss out.
Proof.
  intros Hstreams Hgate.
  assert (Hsorted : forall s, In s ss -> stream_sorted s = true).
  { intros s Hin. specialize (Hstreams s Hin). destruct sorted; auto.
    unfold stream_ok in Hstreams. unfold stream_sorted. eapply chainb_sortedb; eauto. }
  assert (Hrun : exists out, run sorted ss = (out, VOk) /\ sortedb (map o_sclock out) = true).
  { rewrite run_unfold. pose proof (pinit_run sorted ss) as Hi.
    destruct (pinit sorted (map s_off ss) 0 (map s_evs ss) []) as [v|h].
    { destruct Hi as [Hs [_ [s [Hin Hbad]]]]. specialize (Hstreams s Hin). rewrite Hs in Hstreams. congruence. }
    destruct Hi as [HI _].
    replace (sorted && negb (gate_ok ss)) with false.
    2:{ destruct sorted; auto. rewrite Hgate; auto. }
    destruct (ploop_ok sorted (map s_off ss) (S (total (map s_evs ss))) _ HI) as [out [E Hs]].
    - split; [|split]; cbn [p_heap p_rem p_cur p_clk]; try (intros; discriminate).
      intros id. rewrite nth_evs, corr_sclocks.
      destruct (Nat.lt_ge_cases id (length ss)) as [L|G].
      + apply (Hsorted (nth id ss no_strm)). now apply nth_In.
      + rewrite nth_overflow by lia. reflexivity.
    - cbn [p_rem]. lia.
    - exists out. split; auto. }
  destruct Hrun as [out [E Hs]]. exists out. split; [exact E|].
  destruct (run_VOk_spec sorted ss out E) as [H1 [H2 [H3 [H4 _]]]].
  repeat split; auto. now apply sortedb_Sorted.
Qed.

(* ovnidump mode never fails, whatever the clocks *)
Theorem run_dump_total ss :
  exists out, run false ss = (out, VOk) /\
    spec_complete ss out /\ spec_stream_order ss out /\ spec_corrected ss out /\ spec_dclock out.
Proof.
  assert (Hrun : exists out, run false ss = (out, VOk)).
  { rewrite run_unfold. pose proof (pinit_run false ss) as Hi.
    destruct (pinit false (map s_off ss) 0 (map s_evs ss) []) as [v|h].
    { destruct Hi as [Hs _]. discriminate. }
    destruct Hi as [HI _]. cbn [andb].
    destruct (ploop false (map s_off ss) (S (total (map s_evs ss))) (mkpst h (map s_evs ss) None None)) as [out v] eqn:E.
    destruct (ploop_verdict false _ _ _ _ _ HI (Nat.lt_succ_diag_r _) E) as [->|[Hs _]]; [eauto | discriminate]. }
  destruct Hrun as [out E]. exists out. split; [exact E|].
  destruct (run_VOk_spec false ss out E) as [H1 [H2 [H3 [H4 _]]]]. auto.
Qed.

(* the emulator's verdict is never a model artefact *)
Theorem run_verdict sorted ss out v :
  run sorted ss = (out, v) ->
  v = VOk \/ (sorted = true /\ ((exists id, v = VBackStream id) \/ v = VBackPlayer \/ v = VGate)).
Proof.
  rewrite run_unfold. pose proof (pinit_run sorted ss) as Hi.
  destruct (pinit sorted (map s_off ss) 0 (map s_evs ss) []) as [v0|h].
  { intros E; inversion E; subst. destruct Hi as [Hs [Hid _]]. right. split; auto. }
  destruct Hi as [HI _].
  destruct (sorted && negb (gate_ok ss)) eqn:Eg.
  { intros E; inversion E; subst. apply andb_true_iff in Eg as [Hs _]. right. auto. }
  intros E. destruct (ploop_verdict sorted _ _ _ _ _ HI (Nat.lt_succ_diag_r _) E) as [->|[Hs [G|G]]]; auto.
Qed.

(* ------------------------------------------------------------------ trace_load order *)

Lemma str_le_total a b : str_le a b = true \/ str_le b a = true.
Proof.
  revert b; induction a as [|x a IH]; intros [|y b]; cbn; auto.
  destruct (x <? y) eqn:E1; destruct (y <? x) eqn:E2; auto.
Qed.

Lemma str_le_trans a b c : str_le a b = true -> str_le b c = true -> str_le a c = true.
Proof.
  revert b c; induction a as [|x a IH]; intros [|y b] [|z c]; cbn; auto; try discriminate.
  destruct (x <? y) eqn:E1; destruct (y <? x) eqn:E2; try discriminate;
  destruct (y <? z) eqn:E3; destruct (z <? y) eqn:E4; try discriminate;
  destruct (x <? z) eqn:E5; destruct (z <? x) eqn:E6; auto; try lia.
  apply IH.
Qed.

Lemma str_le_antisym a b : str_le a b = true -> str_le b a = true -> a = b.
Proof.
  revert b; induction a as [|x a IH]; intros [|y b]; cbn; auto; try discriminate.
  destruct (x <? y) eqn:E1; destruct (y <? x) eqn:E2; try discriminate; try lia.
  intros H1 H2. f_equal; [lia | now apply IH].
Qed.

Definition path_le (x y : list Z * strm) : Prop := str_le (fst x) (fst y) = true.

Lemma ins_stream_perm x l : Permutation (ins_stream x l) (x :: l).
Proof.
  induction l as [|y t IH]; cbn; auto. destruct (str_le (fst x) (fst y)); auto.
  eapply perm_trans; [apply perm_skip; exact IH|]. apply perm_swap.
Qed.

Lemma sort_streams_perm l : Permutation (sort_streams l) l.
Proof.
  induction l as [|x t IH]; cbn; auto.
  eapply perm_trans; [apply ins_stream_perm|]. now apply perm_skip.
Qed.

Lemma ins_stream_sorted x l : StronglySorted path_le l -> StronglySorted path_le (ins_stream x l).
Proof.
  induction l as [|y t IH]; cbn; intros H.
  - constructor; constructor.
  - inversion H as [|? ? Hs Hf]; subst.
    destruct (str_le (fst x) (fst y)) eqn:E.
    + constructor; auto. constructor; auto.
      eapply Forall_impl; [|exact Hf]. intros z Hz. unfold path_le in *. eapply str_le_trans; eauto.
    + constructor; auto. apply Forall_forall. intros z Hz.
      apply (Permutation_in _ (ins_stream_perm x t)) in Hz. destruct Hz as [<-|Hz].
      * unfold path_le. destruct (str_le_total (fst x) (fst y)); congruence.
      * rewrite Forall_forall in Hf. now apply Hf.
Qed.

Lemma sort_streams_sorted l : StronglySorted path_le (sort_streams l).
Proof. induction l as [|x t IH]; cbn; [constructor | now apply ins_stream_sorted]. Qed.

Lemma nodup_map_inj {X Y} (f : X -> Y) l x y :
  NoDup (map f l) -> In x l -> In y l -> f x = f y -> x = y.
Proof.
  induction l as [|a t IH]; cbn; intros Hn Hx Hy E; [contradiction|].
  inversion Hn as [|? ? Hnot Hn']; subst.
  destruct Hx as [->|Hx]; destruct Hy as [->|Hy]; auto.
  - exfalso. apply Hnot. rewrite E. now apply in_map.
  - exfalso. apply Hnot. rewrite <- E. now apply in_map.
Qed.

(* a sorted list without duplicate keys is determined by its content *)
Lemma sorted_perm_unique l1 : forall l2,
  StronglySorted path_le l1 -> StronglySorted path_le l2 -> Permutation l1 l2 ->
  NoDup (map fst l1) -> l1 = l2.
Proof.
  induction l1 as [|x t1 IH]; intros l2 S1 S2 P Hn.
  - apply Permutation_nil in P. now subst.
  - destruct l2 as [|y t2]; [apply Permutation_sym, Permutation_nil in P; discriminate|].
    inversion S1 as [|? ? S1' F1]; inversion S2 as [|? ? S2' F2]; subst.
    assert (Exy : x = y).
    { assert (Hx : In x (y :: t2)) by (apply (Permutation_in _ P); now left).
      assert (Hy : In y (x :: t1)) by (apply (Permutation_in _ (Permutation_sym P)); now left).
      destruct Hx as [->|Hx]; auto. destruct Hy as [->|Hy]; auto.
      rewrite Forall_forall in F1, F2.
      apply (nodup_map_inj fst (x :: t1)); auto; [now left | now right |].
      apply str_le_antisym; [apply (F1 y Hy) | apply (F2 x Hx)]. }
    subst y. f_equal. apply IH; auto.
    + eapply Permutation_cons_inv; eauto.
    + now inversion Hn.
Qed.

Theorem sort_streams_enum_independent l l' :
  Permutation l l' -> NoDup (map fst l) -> sort_streams l = sort_streams l'.
Proof.
  intros P Hn. apply sorted_perm_unique; try apply sort_streams_sorted.
  - eapply perm_trans; [apply sort_streams_perm|].
    eapply perm_trans; [exact P|]. apply Permutation_sym, sort_streams_perm.
  - eapply Permutation_NoDup; [|exact Hn]. apply Permutation_map, Permutation_sym, sort_streams_perm.
Qed.

Theorem run_emu_enum_independent l l' :
  Permutation l l' -> NoDup (map fst l) -> run_emu l = run_emu l'.
Proof. intros P Hn. unfold run_emu. now rewrite (sort_streams_enum_independent l l' P Hn). Qed.

Theorem run_dump_enum_independent l l' :
  Permutation l l' -> NoDup (map fst l) -> run_dump l = run_dump l'.
Proof.
  intros P Hn. unfold run_dump.
  rewrite (sort_streams_enum_independent (map zero_off l) (map zero_off l')); auto.
  - now apply Permutation_map.
  - rewrite map_map. cbn. exact Hn.
Qed.

(* ------------------------------------------------------------------ the tools *)

Definition trace_streams (enum : list (list Z * strm)) : list strm := map snd (sort_streams enum).

Lemma in_trace_streams enum s : In s (trace_streams enum) <-> exists x, In x enum /\ snd x = s.
Proof.
  unfold trace_streams. rewrite in_map_iff. split; intros [x [H1 H2]].
  - exists x. split; auto. apply (Permutation_in _ (sort_streams_perm enum)). tauto.
  - exists x. split; [tauto|]. apply (Permutation_in _ (Permutation_sym (sort_streams_perm enum))). tauto.
Qed.

(* ovniemu on sorted streams *)
Theorem emu_replay enum :
  (forall x, In x enum -> stream_ok (snd x) = true) -> gate_ok (trace_streams enum) = true ->
  exists out, run_emu enum = (out, VOk) /\ spec_all (trace_streams enum) out.
Proof.
  intros Hs Hg. apply (run_sorted_streams true); auto.
  intros s Hin. apply in_trace_streams in Hin as [x [Hx <-]]. auto.
Qed.

(* ovniemu: a completed replay satisfies the spec and implies the side conditions;
   equivalently, a stream that goes backwards (or starts below 0) or a clock gate gives an error *)
Theorem emu_completed enum out :
  run_emu enum = (out, VOk) ->
  spec_all (trace_streams enum) out /\ gate_ok (trace_streams enum) = true /\
  forall x, In x enum -> stream_ok (snd x) = true.
Proof.
  intros E. destruct (run_VOk_spec true _ _ E) as [H1 [H2 [H3 [H4 H5]]]].
  destruct (H5 eq_refl) as [H6 [H7 H8]]. repeat split; auto.
  intros x Hx. apply H8. apply in_trace_streams. eauto.
Qed.

Theorem emu_backwards_rejected enum x :
  In x enum -> stream_ok (snd x) = false -> forall out v, run_emu enum = (out, v) -> v <> VOk.
Proof.
  intros Hx Hbad out v E ->. destruct (emu_completed enum out E) as [_ [_ H]].
  rewrite (H x Hx) in Hbad. discriminate.
Qed.

Theorem emu_gate_rejected enum :
  gate_ok (trace_streams enum) = false -> forall out v, run_emu enum = (out, v) -> v <> VOk.
Proof.
  intros Hbad out v E ->. destruct (emu_completed enum out E) as [_ [H _]]. congruence.
Qed.

(* ovnidump: it never loads the offset table, so the streams it replays have offset 0 *)
Theorem dump_replay enum :
  exists out, run_dump enum = (out, VOk) /\
    let ss := trace_streams (map zero_off enum) in
    spec_complete ss out /\ spec_stream_order ss out /\ spec_corrected ss out /\ spec_dclock out /\
    ((forall x, In x enum -> stream_sorted (snd (zero_off x)) = true) -> spec_sorted out).
Proof.
  destruct (run_dump_total (trace_streams (map zero_off enum))) as [out [E [H1 [H2 [H3 H4]]]]].
  exists out. split; [exact E|]. cbn zeta. repeat split; auto.
  intros Hs. destruct (run_sorted_streams false (trace_streams (map zero_off enum))) as [out' [E' H']].
  - intros s Hin. apply in_trace_streams in Hin as [x [Hx <-]].
    apply in_map_iff in Hx as [y [<- Hy]]. auto.
  - discriminate.
  - unfold run_dump in E. fold (trace_streams (map zero_off enum)) in E. rewrite E in E'.
    inversion E'; subst. apply H'.
Qed.

Definition corrected_in (ss : list strm) (o : oev) : Z := o_rclock o + s_off (nth (o_id o) ss no_strm).

(* ... and therefore its order is NOT the corrected-time order when the table is not trivial:
   "a": one event at 10 (offset 0); "b": one event at 105 (offset -100, corrected 5) *)
Theorem dump_corrected_order_refuted :
  exists enum out,
    NoDup (map fst enum) /\ (forall x, In x enum -> stream_ok (snd x) = true) /\
    gate_ok (trace_streams enum) = true /\
    run_dump enum = (out, VOk) /\
    ~ Sorted Z.le (map (corrected_in (trace_streams enum)) out).
Proof.
  exists [([97], mkstrm 0 [(10, 0)]); ([98], mkstrm (-100) [(105, 0)])].
  eexists. split; [|split; [|split; [|split]]].
  - cbn. constructor; [intros [H|[]]; discriminate|]. constructor; [intros []|constructor].
  - intros x [<-|[<-|[]]]; reflexivity.
  - reflexivity.
  - vm_compute. reflexivity.
  - vm_compute. intros H. inversion H as [|? ? _ Hd]; subst. inversion Hd as [|? ? Hle]; subst.
    apply Hle. reflexivity.
Qed.


(* ------------------------------------------------------------------ update_clocks never fires in the emulator *)
(* With unsorted = 0 every stream is individually checked by stream_step and the heap pops the
   minimum, so the "backwards jump in time" test of update_clocks is unreachable. *)

Definition MInv (st : pst) : Prop :=
  (forall k id f l, In (k, id) (p_heap st) -> p_clk st = Some (f, l) -> l <= k) /\
  (forall id sl, p_cur st = Some (id, sl) -> exists f, p_clk st = Some (f, sl)).

Lemma ploop_no_backplayer offs fuel : forall st out v,
  PInv offs st -> MInv st -> ploop true offs fuel st = (out, v) -> v <> VBackPlayer.
Proof.
  induction fuel as [|f IH]; intros st out v HI [M1 M2] E; [inversion E; discriminate|].
  rewrite ploop_S in E.
  destruct (pstep_cases true offs st HI) as [[E1 _] | [[id [sl [e [r [E1 _]]]]] | [[E1 [_ [f0 [l0 [x [Eclk [Hlt Hx]]]]]]] | [e [st' [E1 HE]]]]]];
    rewrite E1 in E.
  - inversion E; discriminate.
  - inversion E; discriminate.
  - exfalso. destruct Hx as [Hin | [id [sl [ev [r [Ec [_ [Ex Hle]]]]]]]].
    + destruct x as [k id]. specialize (M1 k id f0 l0 Hin Eclk). cbn in Hlt. lia.
    + destruct (M2 id sl Ec) as [f' Eclk']. rewrite Eclk in Eclk'. inversion Eclk'; subst.
      specialize (Hle eq_refl). cbn in Hlt. lia.
  - destruct (ploop true offs f st') as [l v'] eqn:El. inversion E; subst.
    apply (IH st' l v (em_inv _ _ _ _ _ HE)); auto.
    split.
    + intros k id f0 l0 Hin Eclk. rewrite (em_clk _ _ _ _ _ HE) in Eclk. inversion Eclk; subst.
      eapply (em_min _ _ _ _ _ HE); eauto.
    + intros id sl Ec. rewrite (em_cur _ _ _ _ _ HE) in Ec. inversion Ec; subst.
      rewrite (em_clk _ _ _ _ _ HE). eauto.
Qed.

Theorem run_no_backplayer ss out v : run true ss = (out, v) -> v <> VBackPlayer.
Proof.
  rewrite run_unfold. pose proof (pinit_run true ss) as Hi.
  destruct (pinit true (map s_off ss) 0 (map s_evs ss) []) as [v0|h].
  { intros E. inversion E; subst. destruct Hi as [_ [[id ->] _]]. discriminate. }
  destruct Hi as [HI _].
  destruct (true && negb (gate_ok ss)); [intros E; inversion E; discriminate|].
  intros E. eapply ploop_no_backplayer; eauto.
  split; cbn [p_heap p_cur p_clk]; intros; discriminate.
Qed.
