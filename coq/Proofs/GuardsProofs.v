(* The handlers regenerated from the C source (Gen/Guards_gen.v, translate/units/guards.py) equal
   the hand model of Emu/EmuCoreDefs.v that every other theorem is about.

   Thread / affinity part: model_ovni_event (categories 'H' and 'A') = core_step on the decoded
   event, in every state that satisfies the binding invariant of Proofs/ThreadCpuProofs.v.
   Task part: task_execute/pause/resume/end = task_op.
   "Equal" = same outcome: the same accepted state, or both reject; the generated code never
   crashes (E_TRAP) where the model gives a verdict. *)
From Coq Require Import ZArith List Bool Lia.
From OV Require Import Base.CInt Emu.EmuCoreDefs Emu.GuardsPre Emu.ThreadSpecDefs.
From OV Require Proofs.ThreadCpuProofs Emu.DecodeDefs.
From OV Require Gen.Guards_gen.
Import ListNotations.
Local Open Scope Z_scope.

(* ---------------------------------------------------------------- what the hand model relies on *)

(* a bound thread is in the list of its CPU; no CPU is oversubscribed.  Both are part of the
   invariant Bind of ThreadCpuProofs, which holds in every state reached through accepted events. *)
Definition GInv (sx : static) (st : state) : Prop :=
  (forall t th c, nth_error (threads st) t = Some th -> t_cpu th = Some c -> In t (nth c (cpu_threads st) [])) /\
  (forall c, oversubscribed sx st c = false).

Lemma Bind_GInv sx st : ThreadCpuProofs.Bind sx st -> GInv sx st.
Proof.
  intros [B N]. split; [|exact N].
  intros t th c Hn Hc. destruct (ThreadCpuProofs.nth_error_thr _ _ _ Hn) as [Hth Hlt].
  apply (ThreadCpuProofs.b_cpu _ _ B t c Hlt). rewrite Hth. exact Hc.
Qed.

(* ---------------------------------------------------------------- list facts *)

Lemma nth_update_same {A} (l : list A) n x d : (n < length l)%nat -> nth n (update l n x) d = x.
Proof. revert n; induction l as [|a l IH]; intros [|n] H; cbn in *; try lia; [reflexivity|apply IH; lia]. Qed.

Lemma nth_error_update_same {A} (l : list A) n x : (n < length l)%nat -> nth_error (update l n x) n = Some x.
Proof. revert n; induction l as [|a l IH]; intros [|n] H; cbn in *; try lia; [reflexivity|apply IH; lia]. Qed.

Lemma nth_error_lt {A} (l : list A) n x : nth_error l n = Some x -> (n < length l)%nat.
Proof. intros H. apply nth_error_Some. congruence. Qed.

Lemma nth_of_nth_error {A} (l : list A) n x d : nth_error l n = Some x -> nth n l d = x.
Proof. intros H. apply nth_error_nth. exact H. Qed.

(* the thread just written *)
Lemma thr_set_same st t th x : nth_error (threads st) t = Some th -> gthr (set_thread st t x) t = x.
Proof. intros H. unfold gthr, set_thread; cbn [threads]. apply nth_update_same. eapply nth_error_lt; eauto. Qed.

Lemma nth_error_set_same st t th x : nth_error (threads st) t = Some th -> nth_error (threads (set_thread st t x)) t = Some x.
Proof. intros H. unfold set_thread; cbn [threads]. apply nth_error_update_same. eapply nth_error_lt; eauto. Qed.

Lemma thr_of st t th : nth_error (threads st) t = Some th -> gthr st t = th.
Proof. intros H. unfold gthr. apply nth_of_nth_error. exact H. Qed.

(* removing a thread from a CPU's list cannot oversubscribe it *)
Lemma filter_remove_nat_len (f : nat -> bool) x l : (length (filter f (remove_nat x l)) <= length (filter f l))%nat.
Proof.
  induction l as [|y l IH]; cbn [remove_nat filter]; [lia|].
  destruct (Nat.eqb x y).
  - destruct (f y); cbn [length]; lia.
  - cbn [filter]. destruct (f y); cbn [length]; lia.
Qed.

(* ---------------------------------------------------------------- the compiler's constants *)

Lemma k_unknown : cast_uint32 Guards_gen.c_TH_ST_UNKNOWN = tst_code Unknown. Proof. reflexivity. Qed.
Lemma k_running : cast_uint32 Guards_gen.c_TH_ST_RUNNING = tst_code Running. Proof. reflexivity. Qed.
Lemma k_paused : cast_uint32 Guards_gen.c_TH_ST_PAUSED = tst_code Paused. Proof. reflexivity. Qed.
Lemma k_dead : cast_uint32 Guards_gen.c_TH_ST_DEAD = tst_code Dead. Proof. reflexivity. Qed.
Lemma k_cooling : cast_uint32 Guards_gen.c_TH_ST_COOLING = tst_code Cooling. Proof. reflexivity. Qed.
Lemma k_warming : cast_uint32 Guards_gen.c_TH_ST_WARMING = tst_code Warming. Proof. reflexivity. Qed.

Lemma tst_of_code_code s : tst_of_code (tst_code s) = Some s.
Proof. destruct s; reflexivity. Qed.

Ltac kconst := rewrite ?k_unknown, ?k_running, ?k_paused, ?k_dead, ?k_cooling, ?k_warming.
Ltac munfold := unfold need, ite, bind_, bind, eval, ret, fail, exec.

(* ---------------------------------------------------------------- plain state changes *)

Section OneThread.
Variables (sx : static) (st : state) (who : nat) (th : thread).
Hypothesis Hth : nth_error (threads st) who = Some th.

Lemma gts : get_thread_state sx st (Some who) = tst_code (t_state th).
Proof. unfold get_thread_state. rewrite (thr_of _ _ _ Hth). reflexivity. Qed.

Lemma run_set_state (s : tst) :
  thread_set_state (Some who) (tst_code s) sx st =
  match t_cpu th with
  | None => Err E_CPU
  | Some _ => if tst_eqb (t_state th) s then Err E_DUP else Ok (tt, set_thread st who (with_state th s))
  end.
Proof. unfold thread_set_state, with_thread, nth_opt. rewrite Hth, tst_of_code_code. reflexivity. Qed.

Lemma cpu_after_set_state s : get_thread_cpu sx (set_thread st who (with_state th s)) (Some who) = t_cpu th.
Proof. unfold get_thread_cpu. rewrite (thr_set_same _ _ _ _ Hth). reflexivity. Qed.

Ltac change_tac Hooc :=
  unfold oh_step, nth_opt; rewrite Hth, Hooc; munfold; kconst; rewrite !gts;
  cbn [is_null negb andb]; rewrite run_set_state; unfold change_state;
  destruct (t_state th) eqn:Es; cbn [tst_code Z.eqb Pos.eqb negb andb tst_eqb]; try reflexivity;
  (destruct (t_cpu th) as [c|] eqn:Ec; [|reflexivity]);
  rewrite cpu_after_set_state, Ec; unfold cpu_update;
  destruct (oversubscribed sx (touch (set_thread st who (with_state th _)) c) c); reflexivity.

Lemma pause_eq : t_ooc th = false ->
  outcome_of (exec (Guards_gen.pre_thread_pause (Some who)) sx st) = outcome_of (oh_step sx st who Pause).
Proof. intros Hooc. unfold Guards_gen.pre_thread_pause. change_tac Hooc. Qed.

Lemma resume_eq : t_ooc th = false ->
  outcome_of (exec (Guards_gen.pre_thread_resume (Some who)) sx st) = outcome_of (oh_step sx st who Resume).
Proof. intros Hooc. unfold Guards_gen.pre_thread_resume. change_tac Hooc. Qed.

Lemma cool_eq : t_ooc th = false ->
  outcome_of (exec (Guards_gen.pre_thread_cool (Some who)) sx st) = outcome_of (oh_step sx st who Cool).
Proof. intros Hooc. unfold Guards_gen.pre_thread_cool. change_tac Hooc. Qed.

Lemma warm_eq : t_ooc th = false ->
  outcome_of (exec (Guards_gen.pre_thread_warm (Some who)) sx st) = outcome_of (oh_step sx st who Warm).
Proof. intros Hooc. unfold Guards_gen.pre_thread_warm. change_tac Hooc. Qed.

End OneThread.

(* ---------------------------------------------------------------- CPU lists *)

Lemma filter_len_le {A} (f g : A -> bool) l : (forall x, f x = true -> g x = true) ->
  (length (filter f l) <= length (filter g l))%nat.
Proof.
  intros H. induction l as [|y l IH]; cbn [filter]; [lia|].
  destruct (f y) eqn:Ef.
  - rewrite (H _ Ef). cbn [length]. lia.
  - destruct (g y); cbn [length]; lia.
Qed.

Lemma nth_update_other {A} (l : list A) n m x d : n <> m -> nth m (update l n x) d = nth m l d.
Proof.
  revert n m; induction l as [|a l IH]; intros [|n] [|m] H; cbn; try reflexivity; try congruence.
  apply IH. congruence.
Qed.

Lemma update_twice {A} (l : list A) n x y : update (update l n x) n y = update l n y.
Proof. revert n; induction l as [|a l IH]; intros [|n]; cbn; try reflexivity. rewrite IH. reflexivity. Qed.

Lemma set_thread_twice st t x y : set_thread (set_thread st t x) t y = set_thread st t y.
Proof. unfold set_thread; cbn [threads cpu_threads cpu_touched tasks types prv_last]. rewrite update_twice. reflexivity. Qed.

(* the list of CPU c after its list was replaced *)
Lemma cl_set st c l : (c < length (cpu_threads st))%nat -> nth c (cpu_threads (set_cpu_threads st c l)) [] = l.
Proof. intros H. unfold set_cpu_threads; cbn [cpu_threads]. apply nth_update_same. exact H. Qed.

Lemma in_nth_lt {A} (l : list (list A)) c x : In x (nth c l []) -> (c < length l)%nat.
Proof.
  intros H. destruct (Nat.lt_ge_cases c (length l)) as [L|L]; [exact L|].
  rewrite nth_overflow in H by exact L. destruct H.
Qed.

(* taking a thread off a CPU (whatever happens to the states of non-running threads) cannot oversubscribe it *)
Lemma oversub_remove sx st st' c who :
  oversubscribed sx st c = false ->
  nth c (cpu_threads st') [] = remove_nat who (nth c (cpu_threads st) []) ->
  (forall t, is_running (thread_state_of st' t) = true -> is_running (thread_state_of st t) = true) ->
  oversubscribed sx st' c = false.
Proof.
  unfold oversubscribed, nrunning, running_on. intros H E Hs.
  destruct (negb (cpu_is_virtual sx c)); [|reflexivity]. cbn [andb] in *.
  apply Nat.ltb_ge in H. apply Nat.ltb_ge. rewrite E.
  etransitivity; [|exact H].
  etransitivity; [apply (filter_len_le _ (fun t => is_running (thread_state_of st t))); exact Hs|].
  apply filter_remove_nat_len.
Qed.

Lemma mem_nat_true x l : In x l -> mem_nat x l = true.
Proof. intros H. unfold mem_nat. apply existsb_exists. exists x. split; [exact H|apply Nat.eqb_refl]. Qed.

(* ---------------------------------------------------------------- end, execute, migrations *)

Section Handlers.
Variables (sx : static) (st : state) (who : nat) (th : thread).
Hypothesis Hth : nth_error (threads st) who = Some th.
Hypothesis HI : GInv sx st.

Lemma end_eq : t_ooc th = false ->
  outcome_of (exec (Guards_gen.pre_thread_end (Some who)) sx st) = outcome_of (oh_step sx st who End_).
Proof.
  intros Hooc. unfold oh_step, nth_opt. rewrite Hth, Hooc.
  unfold Guards_gen.pre_thread_end. munfold. kconst. rewrite !(gts sx st who th Hth).
  cbn [is_null negb andb]. rewrite (run_set_state sx st who th Hth).
  destruct (t_state th) eqn:Es; cbn [tst_code Z.eqb Pos.eqb negb andb tst_eqb]; try reflexivity.
  all: destruct (t_cpu th) as [c|] eqn:Ec; [|reflexivity].
  all: rewrite (cpu_after_set_state sx st who th Hth), Ec.
  all: destruct HI as [Hin Hov].
  all: pose proof (Hin who th c Hth Ec) as Hmem.
  all: unfold cpu_remove_thread; cbn [cpu_threads set_thread]; rewrite (mem_nat_true _ _ Hmem); cbn [negb].
  all: unfold cpu_update.
  all: rewrite (oversub_remove sx st _ c who (Hov c));
    [ | cbn [touch set_cpu_threads cpu_threads set_thread]; apply nth_update_same; eapply in_nth_lt; eauto
      | intros t; unfold thread_state_of; cbn [touch set_cpu_threads threads set_thread];
        destruct (Nat.eq_dec who t) as [->|Hne];
        [ rewrite nth_update_same by (eapply nth_error_lt; eauto); cbn; discriminate
        | rewrite nth_update_other by exact Hne; tauto ] ].
  all: unfold thread_unset_cpu, with_thread, nth_opt; cbn [touch set_cpu_threads threads].
  all: rewrite (nth_error_set_same _ _ _ _ Hth); cbn [with_state t_cpu]; rewrite Ec.
  all: unfold outcome_of; f_equal.
  all: unfold touch, set_cpu_threads, set_thread; cbn [threads cpu_threads cpu_touched tasks types prv_last].
  all: rewrite update_twice; reflexivity.
Qed.

Lemma is_running_code s : (tst_code s =? tst_code Running) = is_running s.
Proof. destruct s; reflexivity. Qed.

Lemma size_lt n k : (0 <= k < 2 ^ 64)%Z -> (Z.of_nat n <? cast_uint64 k) = Nat.ltb n (Z.to_nat k).
Proof.
  intros H. unfold cast_uint64, wrapu. rewrite Z.mod_small by lia.
  destruct (Nat.ltb_spec n (Z.to_nat k)); destruct (Z.ltb_spec (Z.of_nat n) k); try reflexivity; lia.
Qed.

Lemma size_eq n k : (0 <= k < 2 ^ 64)%Z -> (Z.of_nat n =? cast_uint64 k) = Nat.eqb n (Z.to_nat k).
Proof.
  intros H. unfold cast_uint64, wrapu. rewrite Z.mod_small by lia.
  destruct (Nat.eqb_spec n (Z.to_nat k)); destruct (Z.eqb_spec (Z.of_nat n) k); try reflexivity; lia.
Qed.

Lemma execute_eq e : e_who e = who -> t_ooc th = false ->
  outcome_of (exec (Guards_gen.pre_thread_execute e (Some who)) sx st) =
  outcome_of (if Nat.ltb (length (e_payload e)) 4 then Err E_PAYLOAD
              else oh_step sx st who (Execute (pl_i32 (e_payload e) 0))).
Proof.
  intros Hwho Hooc. unfold oh_step, nth_opt. rewrite Hth, Hooc.
  unfold Guards_gen.pre_thread_execute. munfold. kconst. rewrite !(gts sx st who th Hth).
  cbn [is_null negb]. rewrite is_running_code.
  unfold get_emu_ev_payload_size. rewrite size_lt by (cbv; split; [discriminate|reflexivity]).
  change (Z.to_nat 4) with 4%nat.
  destruct (is_running (t_state th)) eqn:Er; [destruct (Nat.ltb _ 4); reflexivity|].
  destruct (Nat.ltb (length (e_payload e)) 4) eqn:El; [reflexivity|].
  unfold get_emu_ev_payload.
  destruct (e_payload e) as [|b0 p'] eqn:Ep; [discriminate El|]. cbn [is_null negb].
  unfold get_emu_ev_payload_i32. rewrite Ep. cbn [ix Z.to_nat nth].
  unfold loom_get_cpu, get_emu_loom. rewrite Hwho.
  destruct (find_cpu sx (thread_loom sx who) (pl_i32 (b0 :: p') 0)) as [c|]; [|reflexivity].
  cbn [is_null]. unfold thread_set_cpu, with_thread, nth_opt. rewrite Hth.
  destruct (t_cpu th) eqn:Ec; [reflexivity|].
  pose proof (nth_error_set_same st who th (with_cpu th (Some c)) Hth) as Hth1.
  rewrite (run_set_state sx _ who _ Hth1). cbn [with_cpu t_cpu t_state].
  unfold tst_eqb. rewrite is_running_code, Er. rewrite set_thread_twice.
  unfold cpu_add_thread. cbn [cpu_threads set_thread].
  destruct (mem_nat who (nth c (cpu_threads st) [])); [reflexivity|].
  unfold cpu_update.
  match goal with |- context [oversubscribed sx ?s c] => destruct (oversubscribed sx s c) end; reflexivity.
Qed.
End Handlers.

(* cpu_migrate_thread (translated from cpu.c) on distinct CPUs, for a thread bound to the old one *)
Lemma cpu_migrate_run sx st t th old new :
  nth_error (threads st) t = Some th -> t_cpu th = Some old -> GInv sx st ->
  Guards_gen.cpu_migrate_thread (Some old) (Some t) (Some new) sx st =
  (let st1 := touch (set_cpu_threads st old (remove_nat t (nth old (cpu_threads st) []))) old in
   if mem_nat t (nth new (cpu_threads st1) []) then Err E_CPU else
   let st2 := touch (set_cpu_threads st1 new (nth new (cpu_threads st1) [] ++ [t])) new in
   if oversubscribed sx st2 new then Err E_OVERSUB else Ok (tt, st2)).
Proof.
  intros Hth Hc [Hin Hov]. pose proof (Hin t th old Hth Hc) as Hmem.
  unfold Guards_gen.cpu_migrate_thread. munfold.
  unfold cpu_remove_thread. rewrite (mem_nat_true _ _ Hmem). cbn [negb]. unfold cpu_update at 1.
  rewrite (oversub_remove sx st _ old t (Hov old)).
  2:{ cbn [touch set_cpu_threads cpu_threads]. apply nth_update_same. eapply in_nth_lt; eauto. }
  2:{ intros x. unfold thread_state_of. cbn [touch set_cpu_threads threads]. tauto. }
  cbv zeta. unfold cpu_add_thread.
  match goal with |- context [mem_nat t ?l] => destruct (mem_nat t l) end; [reflexivity|].
  unfold cpu_update.
  match goal with |- context [oversubscribed sx ?s new] => destruct (oversubscribed sx s new) end; reflexivity.
Qed.

(* whatever the CPUs, it leaves the threads alone and does not crash *)
Lemma cpu_migrate_threads sx st t a b :
  match Guards_gen.cpu_migrate_thread (Some a) (Some t) (Some b) sx st with
  | Ok (_, st') => threads st' = threads st
  | Err e => e <> E_TRAP
  end.
Proof.
  unfold Guards_gen.cpu_migrate_thread. munfold. unfold cpu_remove_thread, cpu_add_thread, cpu_update.
  repeat match goal with
  | |- context [if ?c then _ else _] => destruct c
  end; cbn; try reflexivity; discriminate.
Qed.

Lemma gtc sx st t th : nth_error (threads st) t = Some th -> get_thread_cpu sx st (Some t) = t_cpu th.
Proof. intros H. unfold get_thread_cpu. rewrite (thr_of _ _ _ H). reflexivity. Qed.

Lemma thr_none st t : nth_error (threads st) t = None -> gthr st t = dummy_thread.
Proof. intros H. unfold gthr. apply nth_overflow. apply nth_error_None. exact H. Qed.

(* the migration tail shared by the two affinity handlers, CPUs distinct *)
Lemma migrate_tail sx st t th old new :
  nth_error (threads st) t = Some th -> t_cpu th = Some old -> GInv sx st -> Nat.eqb old new = false ->
  outcome_of
    match
      match Guards_gen.cpu_migrate_thread (Some old) (Some t) (Some new) sx st with
      | Ok (_, st') =>
        match thread_migrate_cpu (Some t) (Some new) sx st' with
        | Ok (_, st'0) => Ok (tt, st'0)
        | Err e => Err e
        end
      | Err e => Err e
      end
    with
    | Ok (_, st') => Ok st'
    | Err e => Err e
    end = outcome_of (migrate sx st t th old new).
Proof.
  intros Hth Hc HI Hne. rewrite (cpu_migrate_run sx st t th old new Hth Hc HI). unfold migrate. cbv zeta.
  match goal with |- context [mem_nat t ?l] => destruct (mem_nat t l) end; [reflexivity|].
  match goal with |- context [oversubscribed sx ?s new] => destruct (oversubscribed sx s new) end; [reflexivity|].
  unfold thread_migrate_cpu, with_thread, nth_opt. cbn [touch set_cpu_threads threads].
  rewrite Hth, Hc, Hne. reflexivity.
Qed.

(* ... and to the CPU the thread is already on: refused *)
Lemma migrate_same sx st t th c :
  nth_error (threads st) t = Some th -> t_cpu th = Some c ->
  outcome_of
    match
      match Guards_gen.cpu_migrate_thread (Some c) (Some t) (Some c) sx st with
      | Ok (_, st') =>
        match thread_migrate_cpu (Some t) (Some c) sx st' with
        | Ok (_, st'0) => Ok (tt, st'0)
        | Err e => Err e
        end
      | Err e => Err e
      end
    with
    | Ok (_, st') => Ok st'
    | Err e => Err e
    end = Reject.
Proof.
  intros Hth Hc. pose proof (cpu_migrate_threads sx st t c c) as K.
  destruct (Guards_gen.cpu_migrate_thread (Some c) (Some t) (Some c) sx st) as [[u st']|e].
  - unfold thread_migrate_cpu, with_thread, nth_opt. rewrite K, Hth, Hc, Nat.eqb_refl. reflexivity.
  - unfold outcome_of. destruct (Nat.eqb e E_TRAP) eqn:E; [apply Nat.eqb_eq in E; contradiction|reflexivity].
Qed.

Section Affinity.
Variables (sx : static) (st : state) (who : nat) (th : thread) (me : thread_info).
Hypothesis Hth : nth_error (threads st) who = Some th.
Hypothesis Hme : nth_error (s_threads sx) who = Some me.
Hypothesis HI : GInv sx st.
Hypothesis Hooc : t_ooc th = false.

Lemma active_flag (b : bool) : negb (negb (b2z b =? 0)) = negb b.
Proof. destruct b; reflexivity. Qed.

Lemma affset_eq e : e_who e = who ->
  outcome_of (exec (Guards_gen.pre_affinity_set e) sx st) =
  outcome_of (if Nat.eqb (length (e_payload e)) 4 then oh_step sx st who (AffSet (pl_i32 (e_payload e) 0))
              else Err E_PAYLOAD).
Proof.
  intros Hwho. unfold oh_step, nth_opt. rewrite Hth, Hooc.
  unfold Guards_gen.pre_affinity_set. munfold. unfold get_emu_thread. rewrite Hwho.
  cbn [is_null negb]. rewrite !(gtc sx st who th Hth).
  destruct (t_cpu th) as [old|] eqn:Ec; cbn [is_null]; [|destruct (Nat.eqb _ 4); reflexivity].
  unfold get_thread_is_active. rewrite (thr_of _ _ _ Hth), active_flag.
  destruct (is_active (t_state th)); cbn [negb]; [|destruct (Nat.eqb _ 4); reflexivity].
  unfold get_emu_ev_payload_size. rewrite size_eq by (cbv; split; [discriminate|reflexivity]).
  change (Z.to_nat 4) with 4%nat.
  destruct (Nat.eqb (length (e_payload e)) 4) eqn:El; cbn [negb]; [|reflexivity].
  unfold get_emu_ev_payload.
  destruct (e_payload e) as [|b0 p'] eqn:Ep; [discriminate El|]. cbn [is_null negb].
  unfold get_emu_ev_payload_i32. rewrite Ep. cbn [ix Z.to_nat nth].
  unfold loom_get_cpu, get_emu_loom. rewrite Hwho.
  destruct (find_cpu sx (thread_loom sx who) (pl_i32 (b0 :: p') 0)) as [new|]; [|reflexivity].
  cbn [is_null ptr_eqb_cpu opt_eqb_nat].
  destruct (Nat.eqb old new) eqn:En; [reflexivity|].
  apply (migrate_tail sx st who th old new Hth Ec HI En).
Qed.

Lemma remote_lookup e tid : e_who e = who ->
  (let r := proc_find_thread sx st (get_emu_proc sx st e) tid in
   if is_null r then loom_find_thread sx st (get_emu_loom sx st e) tid else r) = find_remote sx who tid.
Proof.
  intros Hwho. unfold find_remote, proc_find_thread, loom_find_thread, get_emu_proc, get_emu_loom, thread_loom, nth_opt.
  rewrite Hwho, Hme. cbn [fst snd].
  destruct (find_tid_from (s_threads sx) _ tid 0); reflexivity.
Qed.

Lemma affremote_eq e : e_who e = who ->
  outcome_of (exec (Guards_gen.pre_affinity_remote e) sx st) =
  outcome_of (if Nat.eqb (length (e_payload e)) 8 then oh_step sx st who (AffRemote (pl_i32 (e_payload e) 0) (pl_i32 (e_payload e) 4))
              else Err E_PAYLOAD).
Proof.
  intros Hwho. unfold oh_step, nth_opt. rewrite Hth, Hooc.
  unfold Guards_gen.pre_affinity_remote. munfold. kconst.
  unfold get_emu_ev_payload_size. rewrite size_eq by (cbv; split; [discriminate|reflexivity]).
  change (Z.to_nat 8) with 8%nat.
  destruct (Nat.eqb (length (e_payload e)) 8) eqn:El; cbn [negb]; [|reflexivity].
  unfold get_emu_ev_payload.
  destruct (e_payload e) as [|b0 p'] eqn:Ep; [discriminate El|]. cbn [is_null negb].
  unfold get_emu_ev_payload_i32. rewrite Ep. unfold ix. change (Z.to_nat 0) with 0%nat. change (Z.to_nat 1) with 1%nat. cbn [nth].
  pose proof (remote_lookup e (pl_i32 (b0 :: p') 4) Hwho) as R. cbv zeta in R. rewrite R. clear R.
  destruct (find_remote sx who (pl_i32 (b0 :: p') 4)) as [r|]; [|reflexivity].
  cbn [is_null negb].
  destruct (nth_error (threads st) r) as [rth|] eqn:Hr.
  - rewrite !(gts sx st r rth Hr), !(gtc sx st r rth Hr).
    destruct (t_state rth) eqn:Es; cbn [tst_code Z.eqb Pos.eqb]; try reflexivity.
    all: destruct (t_cpu rth) as [old|] eqn:Ec; cbn [is_null]; [|reflexivity].
    all: unfold loom_get_cpu, get_emu_loom; rewrite Hwho.
    all: destruct (find_cpu sx (thread_loom sx who) (pl_i32 (b0 :: p') 0)) as [new|]; [|reflexivity].
    all: cbn [is_null].
    all: destruct (Nat.eqb old new) eqn:En;
      [ apply Nat.eqb_eq in En; subst new; apply (migrate_same sx st r rth old Hr Ec)
      | apply (migrate_tail sx st r rth old new Hr Ec HI En) ].
  - unfold get_thread_state. rewrite (thr_none _ _ Hr). reflexivity.
Qed.

End Affinity.

(* ---------------------------------------------------------------- the dispatcher *)

Definition fst_res {A B} (r : result (A * B)) : result A :=
  match r with Ok (a, _) => Ok a | Err e => Err e end.

Lemma pl_i32_le p off : pl_i32 p off = DecodeDefs.le_i32 p off.
Proof. reflexivity. Qed.

Lemma ovni_step_res sx st who e :
  outcome_of (fst_res (core_step sx st who (EvOvni e))) = outcome_of (oh_step sx st who e).
Proof. cbn [core_step]. destruct (oh_step sx st who e); reflexivity. Qed.

Section Dispatch.
Variables (sx : static) (st : state) (who : nat) (th : thread) (me : thread_info) (cs : list chanspec).
Hypothesis Hth : nth_error (threads st) who = Some th.
Hypothesis Hme : nth_error (s_threads sx) who = Some me.
Hypothesis HI : GInv sx st.

Let mk (c v : Z) (p : list Z) : emu := {| e_who := who; e_m := 79; e_c := c; e_v := v; e_payload := p |}.

Lemma ooc_rejected c v p : t_ooc th = true -> c = 72 \/ c = 65 ->
  outcome_of (fst_res (core_step sx st who (DecodeDefs.decode_ovni cs c v p))) = Reject.
Proof.
  intros Hooc [-> | ->]; unfold DecodeDefs.decode_ovni; cbn [Z.eqb Pos.eqb].
  all: repeat match goal with |- context [if ?b then _ else _] => destruct b end.
  all: cbn [core_step fst_res]; unfold oh_step, nth_opt; rewrite ?Hth, ?Hooc; reflexivity.
Qed.

Theorem model_ovni_event_eq c v p : c = 72 \/ c = 65 ->
  outcome_of (exec (Guards_gen.model_ovni_event (mk c v p)) sx st) =
  outcome_of (fst_res (core_step sx st who (DecodeDefs.decode_ovni cs c v p))).
Proof.
  intros Hc.
  unfold Guards_gen.model_ovni_event, exec. unfold ite at 1 2. cbv beta.
  unfold get_emu_ev_m, get_emu_thread_is_out_of_cpu. cbn [mk e_m e_who Z.eqb Pos.eqb negb].
  rewrite (thr_of _ _ _ Hth).
  destruct (t_ooc th) eqn:Hooc.
  { rewrite (ooc_rejected c v p Hooc Hc). reflexivity. }
  cbn [b2z Z.eqb negb].
  unfold bind at 1, eval at 1, get_emu_ev_c. cbn [mk e_c].
  destruct Hc as [-> | ->]; cbn [Z.eqb Pos.eqb].
  - (* 'H' *)
    unfold Guards_gen.pre_thread, bind, eval, get_emu_thread, get_emu_ev, get_emu_ev_v. cbn [mk e_who e_v].
    unfold DecodeDefs.decode_ovni. cbn [Z.eqb Pos.eqb].
    pose proof (execute_eq sx st who th Hth (mk 72 v p) eq_refl Hooc) as Kx. unfold exec in Kx.
    pose proof (end_eq sx st who th Hth HI Hooc) as Ke. unfold exec in Ke.
    pose proof (pause_eq sx st who th Hth Hooc) as Kp. unfold exec in Kp.
    pose proof (resume_eq sx st who th Hth Hooc) as Kr. unfold exec in Kr.
    pose proof (cool_eq sx st who th Hth Hooc) as Kc. unfold exec in Kc.
    pose proof (warm_eq sx st who th Hth Hooc) as Kw. unfold exec in Kw.
    destruct (Z.eqb_spec v 67) as [->|N0].
    { cbn [Z.eqb Pos.eqb core_step fst_res ret]. unfold nth_opt. rewrite Hth, Hooc. reflexivity. }
    destruct (Z.eqb_spec v 120) as [->|N1].
    { rewrite Kx. cbn [mk e_payload]. destruct (Nat.ltb (length p) 4); [reflexivity|].
      rewrite ovni_step_res. reflexivity. }
    destruct (Z.eqb_spec v 101) as [->|N2]. { rewrite Ke, ovni_step_res. reflexivity. }
    destruct (Z.eqb_spec v 112) as [->|N3]. { rewrite Kp, ovni_step_res. reflexivity. }
    destruct (Z.eqb_spec v 114) as [->|N4]. { rewrite Kr, ovni_step_res. reflexivity. }
    destruct (Z.eqb_spec v 99) as [->|N5]. { rewrite Kc, ovni_step_res. reflexivity. }
    destruct (Z.eqb_spec v 119) as [->|N6]. { rewrite Kw, ovni_step_res. reflexivity. }
    reflexivity.
  - (* 'A' *)
    unfold Guards_gen.pre_affinity, bind, eval, get_emu_ev_v. cbn [mk e_v].
    unfold DecodeDefs.decode_ovni. cbn [Z.eqb Pos.eqb].
    pose proof (affset_eq sx st who th Hth HI Hooc (mk 65 v p) eq_refl) as Ks. unfold exec in Ks.
    pose proof (affremote_eq sx st who th me Hth Hme HI Hooc (mk 65 v p) eq_refl) as Kr. unfold exec in Kr.
    destruct (Z.eqb_spec v 115) as [->|N0].
    { rewrite Ks. cbn [mk e_payload]. destruct (Nat.eqb (length p) 4); [|reflexivity].
      rewrite ovni_step_res. reflexivity. }
    destruct (Z.eqb_spec v 114) as [->|N1].
    { rewrite Kr. cbn [mk e_payload]. destruct (Nat.eqb (length p) 8); [|reflexivity].
      rewrite ovni_step_res. reflexivity. }
    reflexivity.
Qed.

End Dispatch.

(* ---------------------------------------------------------------- whole histories *)

(* raw thread/affinity events: (thread, category, value, payload bytes) *)
Definition rawev := (nat * Z * Z * list Z)%type.

Definition mk_emu (who : nat) (c v : Z) (p : list Z) : emu :=
  {| e_who := who; e_m := 79; e_c := c; e_v := v; e_payload := p |}.

(* the generated dispatcher, event after event *)
Fixpoint gen_run (sx : static) (st : state) (evs : list rawev) : result state :=
  match evs with
  | [] => Ok st
  | (who, c, v, p) :: r =>
    match exec (Guards_gen.model_ovni_event (mk_emu who c v p)) sx st with
    | Ok st' => gen_run sx st' r
    | Err e => Err e
    end
  end.

(* the hand model on the same events *)
Fixpoint model_run (sx : static) (cs : list chanspec) (st : state) (evs : list rawev) : result state :=
  match evs with
  | [] => Ok st
  | (who, c, v, p) :: r =>
    match fst_res (core_step sx st who (DecodeDefs.decode_ovni cs c v p)) with
    | Ok st' => model_run sx cs st' r
    | Err e => Err e
    end
  end.

Definition raw_ok (sx : static) (e : rawev) : Prop :=
  let '(who, c, _, _) := e in (who < length (s_threads sx))%nat /\ (c = 72 \/ c = 65).

Lemma decode_ovni_shape cs c v p : c = 72 \/ c = 65 ->
  (exists w, DecodeDefs.decode_ovni cs c v p = EvBad w) \/ DecodeDefs.decode_ovni cs c v p = EvNop \/
  (exists e, DecodeDefs.decode_ovni cs c v p = EvOvni e).
Proof.
  intros [-> | ->]; unfold DecodeDefs.decode_ovni; cbn [Z.eqb Pos.eqb].
  all: repeat match goal with |- context [if ?b then _ else _] => destruct b end.
  all: eauto.
Qed.

Lemma Bind_step sx cs st who c v p st' : ThreadCpuProofs.Bind sx st -> c = 72 \/ c = 65 ->
  fst_res (core_step sx st who (DecodeDefs.decode_ovni cs c v p)) = Ok st' -> ThreadCpuProofs.Bind sx st'.
Proof.
  intros HB Hc. destruct (decode_ovni_shape cs c v p Hc) as [[w ->] | [-> | [e ->]]]; cbn [core_step fst_res].
  - discriminate.
  - destruct (nth_opt (threads st) who) as [x|]; [|discriminate]. destruct (t_ooc x); [discriminate|].
    cbn [fst_res]. intros E; inversion E; subst; exact HB.
  - pose proof (ThreadCpuProofs.sim_step sx st who e HB) as K.
    destruct (oh_step sx st who e) as [s|]; cbn [fst_res]; [|discriminate].
    intros E; inversion E; subst. exact (proj2 K).
Qed.

Theorem gen_run_eq sx cs evs : forall st, ThreadCpuProofs.Bind sx st -> Forall (raw_ok sx) evs ->
  outcome_of (gen_run sx st evs) = outcome_of (model_run sx cs st evs).
Proof.
  induction evs as [|[[[who c] v] p] r IH]; intros st HB HF; cbn [gen_run model_run]; [reflexivity|].
  inversion HF as [|x l Hx HF']; subst. unfold raw_ok in Hx. destruct Hx as [Hw Hc].
  assert (Hlen : length (threads st) = length (s_threads sx)) by apply (ThreadCpuProofs.b_len_t _ _ (proj1 HB)).
  destruct (nth_error (threads st) who) as [th|] eqn:Hth.
  2:{ apply nth_error_None in Hth. lia. }
  destruct (nth_error (s_threads sx) who) as [me|] eqn:Hme.
  2:{ apply nth_error_None in Hme. lia. }
  pose proof (model_ovni_event_eq sx st who th me cs Hth Hme (Bind_GInv _ _ HB) c v p Hc) as K.
  unfold mk_emu.
  pose proof (Bind_step sx cs st who c v p) as KB.
  destruct (fst_res (core_step sx st who (DecodeDefs.decode_ovni cs c v p))) as [s1|e1];
    destruct (exec (Guards_gen.model_ovni_event _) sx st) as [s2|e2]; cbn [outcome_of] in K.
  - inversion K; subst. apply IH; [apply (KB s1 HB Hc eq_refl)|exact HF'].
  - destruct (Nat.eqb e2 E_TRAP); discriminate K.
  - destruct (Nat.eqb e1 E_TRAP); discriminate K.
  - unfold outcome_of. exact K.
Qed.

(* from the initial state: no hypothesis on the state is left *)
Corollary gen_run_init_eq sx cs evs : Forall (raw_ok sx) evs ->
  outcome_of (gen_run sx (init sx) evs) = outcome_of (model_run sx cs (init sx) evs).
Proof. intros H. apply gen_run_eq; [apply ThreadCpuProofs.init_Bind|exact H]. Qed.

(* ---------------------------------------------------------------- statements used by Props/Properties_C04.v, _C05.v *)

(* the six thread handlers, one by one, against oh_step *)
Theorem six_handlers_eq sx st who th :
  nth_error (threads st) who = Some th -> GInv sx st -> t_ooc th = false ->
  (forall e, e_who e = who ->
     outcome_of (exec (Guards_gen.pre_thread_execute e (Some who)) sx st) =
     outcome_of (if Nat.ltb (length (e_payload e)) 4 then Err E_PAYLOAD
                 else oh_step sx st who (Execute (pl_i32 (e_payload e) 0)))) /\
  outcome_of (exec (Guards_gen.pre_thread_end (Some who)) sx st) = outcome_of (oh_step sx st who End_) /\
  outcome_of (exec (Guards_gen.pre_thread_pause (Some who)) sx st) = outcome_of (oh_step sx st who Pause) /\
  outcome_of (exec (Guards_gen.pre_thread_resume (Some who)) sx st) = outcome_of (oh_step sx st who Resume) /\
  outcome_of (exec (Guards_gen.pre_thread_cool (Some who)) sx st) = outcome_of (oh_step sx st who Cool) /\
  outcome_of (exec (Guards_gen.pre_thread_warm (Some who)) sx st) = outcome_of (oh_step sx st who Warm).
Proof.
  intros Hth HI Hooc. repeat split.
  - intros e He. apply (execute_eq sx st who th Hth e He Hooc).
  - apply (end_eq sx st who th Hth HI Hooc).
  - apply (pause_eq sx st who th Hth Hooc).
  - apply (resume_eq sx st who th Hth Hooc).
  - apply (cool_eq sx st who th Hth Hooc).
  - apply (warm_eq sx st who th Hth Hooc).
Qed.

(* the two affinity handlers against oh_step *)
Theorem affinity_handlers_eq sx st who th me :
  nth_error (threads st) who = Some th -> nth_error (s_threads sx) who = Some me ->
  GInv sx st -> t_ooc th = false ->
  forall e, e_who e = who ->
  outcome_of (exec (Guards_gen.pre_affinity_set e) sx st) =
  outcome_of (if Nat.eqb (length (e_payload e)) 4 then oh_step sx st who (AffSet (pl_i32 (e_payload e) 0))
              else Err E_PAYLOAD) /\
  outcome_of (exec (Guards_gen.pre_affinity_remote e) sx st) =
  outcome_of (if Nat.eqb (length (e_payload e)) 8
              then oh_step sx st who (AffRemote (pl_i32 (e_payload e) 0) (pl_i32 (e_payload e) 4))
              else Err E_PAYLOAD).
Proof.
  intros Hth Hme HI Hooc e He. split.
  - apply (affset_eq sx st who th Hth HI Hooc e He).
  - apply (affremote_eq sx st who th me Hth Hme HI Hooc e He).
Qed.

(* the dispatcher: ooc guard, switch on the category and on the value, payload sizes *)
Theorem dispatch_eq sx st who th me cs c v p :
  nth_error (threads st) who = Some th -> nth_error (s_threads sx) who = Some me -> GInv sx st ->
  c = 72 \/ c = 65 ->
  outcome_of (exec (Guards_gen.model_ovni_event (mk_emu who c v p)) sx st) =
  outcome_of (fst_res (core_step sx st who (DecodeDefs.decode_ovni cs c v p))).
Proof. intros Hth Hme HI Hc. apply (model_ovni_event_eq sx st who th me cs Hth Hme HI c v p Hc). Qed.

(* GInv holds in every state reached through accepted thread/affinity events *)
Lemma GInv_reached sx h st : oh_run sx (init sx) h = Ok st -> GInv sx st.
Proof.
  intros H. apply Bind_GInv.
  pose proof (ThreadCpuProofs.run_sim sx h (init sx) (ThreadCpuProofs.init_Bind sx)) as K. rewrite H in K. exact (proj2 K).
Qed.

(* non-vacuity and a worked evaluation: two threads, a physical and a virtual CPU *)
Definition gx : static :=
  {| s_threads := [{| ti_tid := 7; ti_pid := 1; ti_loom := 0; ti_appid := 1; ti_rank := -1 |};
                   {| ti_tid := 8; ti_pid := 1; ti_loom := 0; ti_appid := 1; ti_rank := -1 |}];
     s_cpus := [{| ci_virtual := false; ci_loom := 0; ci_index := 0 |}; {| ci_virtual := true; ci_loom := 0; ci_index := -1 |}];
     s_chans := []; s_lint := false |}.
Definition i32le (z : Z) : list Z :=
  let u := z mod 4294967296 in [u mod 256; (u / 256) mod 256; (u / 65536) mod 256; (u / 16777216) mod 256].
