(* Capstone without side condition: the GENERATED main loop with the GENERATED handlers of ALL EIGHT models (ovni, nosv,
   nanos6, nodes, tampi, openmp, mpi, kernel) and of the marks is the model, for every trace.
   EmuGenAllProofs.generated_emulate_is_model_partial asks for a property of the core state that (1) every accepted step keeps
   and (2) gives the generated handlers what their guards read (handler_ready: the thread exists, the channel table is the
   one of the enabled models, and GuardsProofs.GInv: a thread that has a CPU is in that CPU's list, no CPU is oversubscribed).
   The property is EmuGenInv.PInv sx st := ThreadCpuProofs.Bind sx (norm st): the thread/CPU binding invariant of the
   thread-state machine on the state with the kernel's out-of-CPU flags cleared.  Events of model ovni (H/A) keep it because
   oh_step commutes with norm on every accepted step (oh_step_norm) and ThreadCpuProofs.sim_step keeps Bind; every other event
   (channel events of the table-driven models, kernel context switches, task events, task / type creation, marks, flushes)
   only writes raw channels, body stacks, the ooc flag and the task tables (core_step_sys: BaySem.sys_same), none of which
   Bind (norm st) reads. *)
From Coq Require Import ZArith List Bool Lia.
From OV Require Import Base.CInt Emu.EmuCoreDefs Emu.DecodeDefs Emu.MarkDefs Emu.EmuLoopPre Emu.EmuLoopRelDefs.
From OV Require Emu.PlayerDefs Emu.PvDefs Proofs.DispatchProofs Proofs.GuardsProofs Proofs.ThreadCpuProofs.
From OV Require Import Proofs.EmuGenAllProofs Proofs.EmuGenInv.
From OV Require Emu.EmuAllDefs Emu.SysStaticDefs Emu.MetaDefs Emu.VersionDefs Proofs.EmuAllProofs Proofs.EmuAllStage Proofs.SysStaticProofs.
Import ListNotations.
Local Open Scope Z_scope.

Lemma PInv_ready sx en marks st who : s_chans sx = mk_chans en ++ marks -> (forall m, memz m en = true -> In m DispatchProofs.all_models) ->
  PInv sx st -> (who < length (s_threads sx))%nat -> handler_ready sx en marks st who.
Proof.
  intros Hcs Hall HP Hw. pose proof (PInv_len sx st HP) as L.
  split; [destruct (nth_error (threads st) who) eqn:E; [eauto|apply nth_error_None in E; lia]|].
  split; [destruct (nth_error (s_threads sx) who) eqn:E; [eauto|apply nth_error_None in E; lia]|].
  split; [exact Hcs|]. split; [exact Hall|]. now apply PInv_GInv.
Qed.

(* the invariant: initial, kept by every accepted step of any event, and enough for the generated guards *)
Theorem invariant_kept sx :
  PInv sx (init sx) /\
  (forall st who ev st1 ls, PInv sx st -> step sx st who ev = Ok (st1, ls) -> PInv sx st1) /\
  (forall st, PInv sx st -> GuardsProofs.GInv sx st /\ length (threads st) = length (s_threads sx)).
Proof.
  split; [apply init_PInv|]. split; [intros st who ev st1 ls; apply step_PInv|].
  intros st HP. split; [now apply PInv_GInv|now apply PInv_len].
Qed.

(* one event in a state with the invariant: the generated iteration = the model's iteration, and the invariant is kept *)
Theorem generated_iter_is_model_inv sx en marks st r dclock who c :
  s_chans sx = mk_chans en ++ marks -> (forall m, memz m en = true -> In m DispatchProofs.all_models) ->
  PInv sx st -> (who < length (s_threads sx))%nat ->
  same_res (gen_iter sx en st r dclock who c) (pv_iter sx st r dclock who (rawc_event en sx c)) /\
  (forall st1 ls, step sx st who (rawc_event en sx c) = Ok (st1, ls) -> PInv sx st1).
Proof.
  intros Hcs Hall HP Hw. split; [apply (gen_iter_is_pv_iter sx en marks); now apply PInv_ready|].
  intros st1 ls H. exact (step_PInv sx st who _ st1 ls HP H).
Qed.

(* PvDefs.emulate with its loop run by the GENERATED handlers = PvDefs.emulate, refusal for refusal, file for file; any events *)
Theorem generated_emulate_is_model sx phy en ms lintchans tl revs marks :
  s_chans sx = mk_chans en ++ marks -> (forall m, memz m en = true -> In m DispatchProofs.all_models) ->
  (forall rv, In rv revs -> (rev_thread rv < length (s_threads sx))%nat) ->
  same_res (emulate_gen sx phy en ms lintchans tl revs) (PV.emulate sx phy en ms lintchans tl (decode_revs en sx revs)).
Proof.
  intros Hcs Hall Hw.
  apply (generated_emulate_is_model_partial sx phy en ms lintchans tl revs marks (PInv sx)).
  - intros st who ev st1 ls HP H. exact (step_PInv sx st who ev st1 ls HP H).
  - intros st who HP W. exact (PInv_ready sx en marks st who Hcs Hall HP W).
  - apply init_PInv.
  - exact Hw.
Qed.

(* CAPSTONE on the composed model, all events of all models: wherever ovniemu_model reaches its emulate stage, running the replay
   with the GENERATED handlers gives ovniemu_model's answer: the same six files, or a refusal on both sides *)
Theorem generated_all inp sys en ms revs : EmuAllStage.stage inp = inr (sys, en, ms, revs) ->
  let sx := EmuAllStage.stage_sx inp sys en ms in
  match emulate_gen sx (SysStaticDefs.sys_phy sys) en ms (lint_chans (mk_chans en)) (PV.tlabels_of sx revs) revs with
  | Ok out => EmuAllDefs.ovniemu_model inp = EmuAllDefs.Files out
  | Err _ => exists e, EmuAllDefs.ovniemu_model inp = EmuAllDefs.Refused (EmuAllDefs.REmu e)
  end.
Proof.
  intros S sx. rewrite EmuAllStage.model_is_stage_then_emulate, S. unfold EmuAllStage.stage_emulate. fold sx.
  assert (Hen : EmuAllDefs.enabled_models (EmuAllDefs.sorted_streams inp) (EmuAllDefs.in_all inp) = Some en).
  { unfold EmuAllStage.stage in S. set (ss := EmuAllDefs.sorted_streams inp) in *.
    destruct (EmuAllDefs.first_bad_meta ss ss); [discriminate|]. destruct (EmuAllDefs.load_all ss); [discriminate|].
    destruct (MetaDefs.build _) as [sys0| |]; try discriminate. destruct (EmuAllDefs.enabled_models ss (EmuAllDefs.in_all inp)) as [en0|]; [|discriminate].
    destruct (Rt.MarkJsonDefs.emu_types_of_trees _); [|discriminate].
    match type of S with context [ClkoffDefs.run_emu_table ?t ?e] => destruct (ClkoffDefs.run_emu_table t e) as [[oevs v]| |] end; try discriminate.
    destruct v; try discriminate. match type of S with context [EmuAllDefs.all_some ?l] => destruct (EmuAllDefs.all_some l) end; [|discriminate].
    injection S as _ <- _ _. reflexivity. }
  assert (Hall : forall m, memz m en = true -> In m DispatchProofs.all_models).
  { intros m Hm. apply models_by_id_all. unfold EmuAllDefs.enabled_models in Hen. apply (model_probe_subset _ _ _ _ _ en Hen).
    unfold memz in Hm. apply existsb_exists in Hm as (y & Hy & E). apply Z.eqb_eq in E. now subst. }
  assert (Hw : forall rv, In rv revs -> (rev_thread rv < length (s_threads sx))%nat).
  { intros rv Hr. destruct (EmuAllStage.stage_events_are_stream_records inp sys en ms revs S rv Hr) as (id & s & recs & who & tm & idx & _ & _ & Hg & Hrv).
    destruct (EmuAllProofs.raw_event_time _ _ _ _ _ _ _ Hrv) as [_ W].
    assert (Ew : rev_thread rv = who) by (destruct rv as [[[[[a b] c] d] e] f]; exact W). rewrite Ew.
    unfold EmuAllDefs.gindex_of in Hg. apply index_of_bound in Hg. cbn [plus] in Hg.
    destruct (SysStaticProofs.static_same_system sys (SysStaticDefs.rank_of_metas (map EmuAllDefs.si_smeta (EmuAllDefs.sorted_streams inp))) en ms (EmuAllDefs.in_lint inp)) as [S1 _].
    apply (f_equal (@length _)) in S1. rewrite !map_length in S1. unfold sx, EmuAllStage.stage_sx. rewrite S1. exact Hg. }
  pose proof (generated_emulate_is_model sx (SysStaticDefs.sys_phy sys) en ms (lint_chans (mk_chans en)) (PV.tlabels_of sx revs) revs (mark_chans ms)
                eq_refl Hall Hw) as R.
  unfold same_res in R. change (decode_revs en sx revs) with (EmuAllProofs.decode_revs en sx revs) in R.
  destruct (emulate_gen sx _ en ms _ _ revs) as [o1|x]; destruct (PV.emulate sx _ en ms _ _ _) as [o2|y]; try contradiction; [now subst|eauto].
Qed.
