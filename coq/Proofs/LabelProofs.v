(* C13: every value printed for a state type has a label. *)
From Coq Require Import ZArith List Bool Lia.
From OV Require Import Emu.EmuCoreDefs Emu.DecodeDefs Emu.MarkDefs Emu.LabelDefs Proofs.EmitProofs Proofs.EmuCoreProofs
  Proofs.EmuCoreWf Proofs.ThreadCpuProofs Proofs.TaskProofs Proofs.PrvProofs.
From OV Require Gen.Tables_gen.
Import ListNotations.
Local Open Scope Z_scope.

Lemma nth_update_cases {A} (l : list A) n m x d : nth m (update l n x) d = x \/ nth m (update l n x) d = nth m l d.
Proof.
  revert n m. induction l as [|a l IH]; intros n m; [right; destruct n; reflexivity|].
  destruct n as [|n], m as [|m]; cbn [update nth]; auto.
Qed.

Lemma in_update {A} (l : list A) n x y : In y (update l n x) -> y = x \/ In y l.
Proof.
  revert n. induction l as [|a l IH]; intros n H; [destruct n; contradiction|].
  destruct n as [|n]; cbn [update In] in H |- *.
  - destruct H as [<-|H]; auto.
  - destruct H as [<-|H]; [auto|]. destruct (IH _ H); auto.
Qed.

Record LInv (sx : static) (st : state) : Prop := {
  li_raw : forall t k x, In x (contents (raw_of st t k)) -> val_ok sx (types st) k x;
  li_task : forall tk, In tk (tasks st) -> exists ty, In ty (types st) /\ ty_gid ty = tk_gid tk;
  li_cpu : forall t c, t_cpu (nth t (threads st) dummy_thread) = Some c -> (c < length (s_cpus sx))%nat
}.

Lemma val_ok_mono sx tys tys' k x : incl tys tys' -> val_ok sx tys k x -> val_ok sx tys' k x.
Proof.
  intros Hi [Hs Ht]. split; [exact Hs|]. intros E. destruct (Ht E) as (ty & Hin & Hg). exists ty. split; [apply Hi; exact Hin|exact Hg].
Qed.

Lemma chan_static_val_ok sx tys k x : chan_static_ok sx k x -> val_ok sx tys k x.
Proof. intros [Ht Hs]. split; [exact Hs|]. intros E. cbv zeta in Ht. rewrite Ht in E. discriminate. Qed.

Lemma raw_apply_contents sp r a ov r' d :
  raw_apply sp r a ov = Ok (r', d) -> forall x, In x (contents r') -> In x (contents r) \/ ov = Some x.
Proof.
  unfold raw_apply. intros H x Hx.
  destruct a; destruct ov as [v|]; break_in H; inversion H; subst; unfold contents in *; cbn [r_stk r_val] in *; auto.
  - (* PUSH *) cbn [app In] in Hx. destruct Hx as [<-|Hx]; auto.
  - (* POP *) match goal with E : r_stk r = _ :: _ |- _ => rewrite E end. cbn [app In]. auto.
  - (* SET Some *) apply in_app_or in Hx as [Hx|Hx]; [left; apply in_or_app; auto|]. destruct Hx as [<-|[]]. auto.
  - (* SET None *) apply in_app_or in Hx as [Hx|[]]. left. apply in_or_app; auto.
Qed.

(* a state that differs from st only in the threads, whose raw channels hold old values or the new one *)
Lemma chan_step_linv sx st who k a v st1 d :
  chan_step sx st who k a v = Ok (st1, d) ->
  (forall x, v = Some x -> val_ok sx (types st) k x) ->
  LInv sx st -> LInv sx st1.
Proof.
  unfold chan_step, nth_opt. intros H Hv [Hr Ht Hc].
  destruct (nth_error (threads st) who) as [th|] eqn:Hn; [|discriminate].
  destruct (nth_error (s_chans sx) k) as [sp|]; [|discriminate].
  destruct (raw_apply sp (nth k (t_raw th) empty_raw) a v) as [[r' dd]|] eqn:Ea; [|discriminate].
  inversion H; subst st1 d. clear H.
  pose proof (nth_error_nth _ _ _ dummy_thread Hn) as Hth.
  split; cbn [types tasks set_thread threads].
  - intros t k' x Hx. unfold raw_of, set_thread in Hx. cbn [threads] in Hx.
    destruct (nth_update_cases (threads st) who t (with_raw th (update (t_raw th) k r')) dummy_thread) as [E|E]; rewrite E in Hx.
    + cbn [t_raw with_raw] in Hx.
      destruct (nth_update_cases (t_raw th) k k' r' empty_raw) as [E2|E2]; rewrite E2 in Hx.
      * destruct (Nat.eq_dec k' k) as [->|Hk].
        -- destruct (raw_apply_contents _ _ _ _ _ _ Ea x Hx) as [Hold|Hnew]; [|now apply Hv].
           apply (Hr who k x). unfold raw_of. rewrite Hth. exact Hold.
        -- (* r' stored at another index only if k' = k; here the update did not touch k' *)
           assert (E3 : nth k' (update (t_raw th) k r') empty_raw = nth k' (t_raw th) empty_raw) by (apply nth_update_other; congruence).
           rewrite E2 in E3. apply (Hr who k' x). unfold raw_of. rewrite Hth, <- E3. exact Hx.
      * apply (Hr who k' x). unfold raw_of. rewrite Hth. exact Hx.
    + apply (Hr t k' x). exact Hx.
  - exact Ht.
  - intros t c Hcpu. destruct (nth_update_cases (threads st) who t (with_raw th (update (t_raw th) k r')) dummy_thread) as [E|E]; rewrite E in Hcpu.
    + cbn [t_cpu with_raw] in Hcpu. apply (Hc who c). rewrite Hth. exact Hcpu.
    + now apply (Hc t c).
Qed.

(* states with the same raw channels, CPUs of threads, tasks and types *)
Lemma linv_same sx st st1 :
  raws st1 = raws st -> types st1 = types st -> tasks st1 = tasks st ->
  (forall t c, t_cpu (nth t (threads st1) dummy_thread) = Some c -> (c < length (s_cpus sx))%nat) ->
  LInv sx st -> LInv sx st1.
Proof.
  intros Hraw Hty Htk Hcpu [Hr Ht Hc]. split.
  - intros t k x Hx. rewrite Hty. apply (Hr t k x). rewrite <- (raw_of_same_raws st st1 Hraw). exact Hx.
  - rewrite Htk, Hty. exact Ht.
  - exact Hcpu.
Qed.

Lemma cpu_set_thread sx st who th' :
  (forall t c, t_cpu (nth t (threads st) dummy_thread) = Some c -> (c < length (s_cpus sx))%nat) ->
  (forall c, t_cpu th' = Some c -> (c < length (s_cpus sx))%nat) ->
  forall t c, t_cpu (nth t (threads (set_thread st who th')) dummy_thread) = Some c -> (c < length (s_cpus sx))%nat.
Proof.
  intros Hc Hn t c H. cbn [set_thread threads] in H.
  destruct (nth_update_cases (threads st) who t th' dummy_thread) as [E|E]; rewrite E in H; [now apply Hn|now apply (Hc t)].
Qed.

Definition CpuOk (sx : static) (st : state) : Prop :=
  forall t c, t_cpu (nth t (threads st) dummy_thread) = Some c -> (c < length (s_cpus sx))%nat.

Ltac cpu_case Hcpu :=
  match type of Hcpu with
  | context [nth ?t (update ?l ?n ?x) ?d] =>
    let E := fresh "E" in destruct (nth_update_cases l n t x d) as [E|E]; rewrite E in Hcpu; clear E
  end.

Lemma oh_step_misc sx st who e st1 :
  oh_step sx st who e = Ok st1 ->
  types st1 = types st /\ tasks st1 = tasks st /\ (CpuOk sx st -> CpuOk sx st1).
Proof.
  intros H. unfold oh_step, change_state, migrate, nth_opt in H.
  destruct (nth_error (threads st) who) as [th|] eqn:Hn; [|discriminate].
  pose proof (nth_error_nth _ _ _ dummy_thread Hn) as Hth.
  destruct e; break_in H; inversion H; subst; clear H; (split; [reflexivity|split; [reflexivity|]]);
    intros Hc tq cq Hcpu; cbn [threads touch set_cpu_threads set_thread] in Hcpu;
    repeat cpu_case Hcpu; cbn [t_cpu with_state with_cpu] in Hcpu;
    try (now apply (Hc tq cq)); try (now apply (Hc who cq)); try discriminate;
    try (apply (Hc who cq); rewrite Hth; exact Hcpu);
    try (inversion Hcpu; subst; eapply find_cpu_lt; eassumption).
  all: try (match goal with Hr : nth_error (threads _) ?r = Some ?rth |- _ =>
              apply (Hc r cq); rewrite (nth_error_nth _ _ _ dummy_thread Hr); exact Hcpu end).
Qed.

Lemma oh_step_linv sx st who e st1 : oh_step sx st who e = Ok st1 -> LInv sx st -> LInv sx st1.
Proof.
  intros H L. destruct (oh_step_frame _ _ _ _ _ H) as [Hr _]. destruct (oh_step_misc _ _ _ _ _ H) as (Hty & Htk & Hc).
  apply (linv_same sx st st1 Hr Hty Htk); [|exact L]. apply Hc. exact (li_cpu _ _ L).
Qed.

Lemma task_op_misc sx st who th loom pid mdl kind tid bid st1 :
  nth_error (threads st) who = Some th ->
  task_op st who th loom pid mdl kind tid bid = Ok st1 ->
  types st1 = types st /\
  (forall tk', In tk' (tasks st1) -> exists tk, In tk (tasks st) /\ tk_gid tk' = tk_gid tk) /\
  (CpuOk sx st -> CpuOk sx st1).
Proof.
  intros Hn H. unfold task_op in H.
  pose proof (nth_error_nth _ _ _ dummy_thread Hn) as Hth.
  destruct (find_task st loom pid mdl tid) as [[ti tk]|] eqn:Ef; [|discriminate].
  unfold find_task in Ef. destruct (find_task_from_in _ _ _ _ _ _ _ _ Ef) as (Hin & _ & _).
  assert (T : forall bi b tk', In tk' (tasks (store_body st ti tk bi b)) -> exists tk0, In tk0 (tasks st) /\ tk_gid tk' = tk_gid tk0).
  { intros bi b tk' H'. unfold store_body in H'. cbn [tasks set_tasks] in H'. apply in_update in H' as [->|H'].
    - exists tk. split; [exact Hin|reflexivity].
    - exists tk'. split; [exact H'|reflexivity]. }
  break_in H; inversion H; subst; clear H; (split; [reflexivity|split]);
    try (intros tk' H'; cbn [tasks set_thread] in H'; eapply T; exact H');
    intros Hc tq cq Hcpu; cbn [threads set_thread store_body set_tasks] in Hcpu;
    repeat cpu_case Hcpu; cbn [t_cpu with_bstack] in Hcpu; try (now apply (Hc tq cq));
    try (apply (Hc who cq); rewrite Hth; exact Hcpu); try (now apply (Hc who cq)).
Qed.
