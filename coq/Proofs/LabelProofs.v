(* C13: every value printed for a state type has a label. *)
From Coq Require Import ZArith List Bool Lia.
From OV Require Import Emu.EmuCoreDefs Emu.DecodeDefs Emu.MarkDefs Emu.LabelDefs Proofs.EmitProofs Proofs.EmuCoreProofs
  Proofs.EmuCoreWf Proofs.ThreadCpuProofs Proofs.TaskProofs Proofs.PrvProofs.
From OV Require Gen.Tables_gen.
Import ListNotations.
Local Open Scope Z_scope.

Lemma nth_update_cases {A} (l : list A) n m x d : nth m (update l n x) d = x \/ nth m (update l n x) d = nth m l d.
Proof.
  revert n m. induction l as [|a l IH]; intros n m; [right; destruct n; reflexivity|].
  destruct n as [|n], m as [|m]; cbn [update nth]; auto.
Qed.

Lemma in_update {A} (l : list A) n x y : In y (update l n x) -> y = x \/ In y l.
Proof.
  revert n. induction l as [|a l IH]; intros n H; [destruct n; contradiction|].
  destruct n as [|n]; cbn [update In] in H |- *.
  - destruct H as [<-|H]; auto.
  - destruct H as [<-|H]; [auto|]. destruct (IH _ H); auto.
Qed.

Record LInv (sx : static) (st : state) : Prop := {
  li_raw : forall t k x, In x (contents (raw_of st t k)) -> val_ok sx (types st) k x;
  li_task : forall tk, In tk (tasks st) -> exists ty, In ty (types st) /\ ty_gid ty = tk_gid tk;
  li_cpu : forall t c, t_cpu (nth t (threads st) dummy_thread) = Some c -> (c < length (s_cpus sx))%nat
}.

Lemma val_ok_mono sx tys tys' k x : incl tys tys' -> val_ok sx tys k x -> val_ok sx tys' k x.
Proof.
  intros Hi [Hs Ht]. split; [exact Hs|]. intros E. destruct (Ht E) as (ty & Hin & Hg). exists ty. split; [apply Hi; exact Hin|exact Hg].
Qed.

Lemma chan_static_val_ok sx tys k x : chan_static_ok sx k x -> val_ok sx tys k x.
Proof. intros [Ht Hs]. split; [exact Hs|]. intros E. cbv zeta in Ht. rewrite Ht in E. discriminate. Qed.

Lemma raw_apply_contents sp r a ov r' d :
  raw_apply sp r a ov = Ok (r', d) -> forall x, In x (contents r') -> In x (contents r) \/ ov = Some x.
Proof.
  unfold raw_apply. intros H x Hx.
  destruct a; destruct ov as [v|]; break_in H; inversion H; subst; unfold contents in *; cbn [r_stk r_val] in *; auto.
  - (* PUSH *) cbn [app In] in Hx. destruct Hx as [<-|Hx]; auto.
  - (* POP *) match goal with E : r_stk r = _ :: _ |- _ => rewrite E end. cbn [app In]. auto.
  - (* SET Some *) apply in_app_or in Hx as [Hx|Hx]; [left; apply in_or_app; auto|]. destruct Hx as [<-|[]]. auto.
  - (* SET None *) apply in_app_or in Hx as [Hx|[]]. left. apply in_or_app; auto.
Qed.

(* a state that differs from st only in the threads, whose raw channels hold old values or the new one *)
Lemma chan_step_linv sx st who k a v st1 d :
  chan_step sx st who k a v = Ok (st1, d) ->
  (a = IGN \/ forall x, v = Some x -> val_ok sx (types st) k x) ->
  LInv sx st -> LInv sx st1.
Proof.
  unfold chan_step, nth_opt. intros H Hv0 [Hr Ht Hc].
  assert (Hv : forall r r' dd x, raw_apply (nth k (s_chans sx) null_spec) r a v = Ok (r', dd) -> In x (contents r') ->
               In x (contents r) \/ val_ok sx (types st) k x).
  { intros r r' dd x Ea Hx. destruct Hv0 as [->|Hv0].
    - cbn [raw_apply] in Ea. injection Ea as <- _. now left.
    - destruct (raw_apply_contents _ _ _ _ _ _ Ea x Hx) as [Ho|Hn]; [now left|right; now apply Hv0]. }
  destruct (nth_error (threads st) who) as [th|] eqn:Hn; [|discriminate].
  destruct (nth_error (s_chans sx) k) as [sp|] eqn:Hsp; [|discriminate].
  destruct (raw_apply sp (nth k (t_raw th) empty_raw) a v) as [[r' dd]|] eqn:Ea; [|discriminate].
  inversion H; subst st1 d. clear H.
  pose proof (nth_error_nth _ _ _ dummy_thread Hn) as Hth.
  split; cbn [types tasks set_thread threads].
  - intros t k' x Hx. unfold raw_of, set_thread in Hx. cbn [threads] in Hx.
    destruct (nth_update_cases (threads st) who t (with_raw th (update (t_raw th) k r')) dummy_thread) as [E|E]; rewrite E in Hx.
    + cbn [t_raw with_raw] in Hx.
      destruct (nth_update_cases (t_raw th) k k' r' empty_raw) as [E2|E2]; rewrite E2 in Hx.
      * destruct (Nat.eq_dec k' k) as [->|Hk].
        -- rewrite <- (nth_error_nth _ _ _ null_spec Hsp) in Ea.
           destruct (Hv _ _ _ x Ea Hx) as [Hold|Hnew]; [|exact Hnew].
           apply (Hr who k x). unfold raw_of. rewrite Hth. exact Hold.
        -- (* r' stored at another index only if k' = k; here the update did not touch k' *)
           assert (E3 : nth k' (update (t_raw th) k r') empty_raw = nth k' (t_raw th) empty_raw) by (apply nth_update_other; congruence).
           rewrite E2 in E3. apply (Hr who k' x). unfold raw_of. rewrite Hth, <- E3. exact Hx.
      * apply (Hr who k' x). unfold raw_of. rewrite Hth. exact Hx.
    + apply (Hr t k' x). exact Hx.
  - exact Ht.
  - intros t c Hcpu. destruct (nth_update_cases (threads st) who t (with_raw th (update (t_raw th) k r')) dummy_thread) as [E|E]; rewrite E in Hcpu.
    + cbn [t_cpu with_raw] in Hcpu. apply (Hc who c). rewrite Hth. exact Hcpu.
    + now apply (Hc t c).
Qed.

(* states with the same raw channels, CPUs of threads, tasks and types *)
Lemma linv_same sx st st1 :
  raws st1 = raws st -> types st1 = types st -> tasks st1 = tasks st ->
  (forall t c, t_cpu (nth t (threads st1) dummy_thread) = Some c -> (c < length (s_cpus sx))%nat) ->
  LInv sx st -> LInv sx st1.
Proof.
  intros Hraw Hty Htk Hcpu [Hr Ht Hc]. split.
  - intros t k x Hx. rewrite Hty. apply (Hr t k x). rewrite <- (raw_of_same_raws st st1 Hraw). exact Hx.
  - rewrite Htk, Hty. exact Ht.
  - exact Hcpu.
Qed.

Lemma cpu_set_thread sx st who th' :
  (forall t c, t_cpu (nth t (threads st) dummy_thread) = Some c -> (c < length (s_cpus sx))%nat) ->
  (forall c, t_cpu th' = Some c -> (c < length (s_cpus sx))%nat) ->
  forall t c, t_cpu (nth t (threads (set_thread st who th')) dummy_thread) = Some c -> (c < length (s_cpus sx))%nat.
Proof.
  intros Hc Hn t c H. cbn [set_thread threads] in H.
  destruct (nth_update_cases (threads st) who t th' dummy_thread) as [E|E]; rewrite E in H; [now apply Hn|now apply (Hc t)].
Qed.

Definition CpuOk (sx : static) (st : state) : Prop :=
  forall t c, t_cpu (nth t (threads st) dummy_thread) = Some c -> (c < length (s_cpus sx))%nat.

Ltac cpu_case Hcpu :=
  match type of Hcpu with
  | context [nth ?t (update ?l ?n ?x) ?d] =>
    let E := fresh "E" in destruct (nth_update_cases l n t x d) as [E|E]; rewrite E in Hcpu; clear E
  end.

Lemma oh_step_misc sx st who e st1 :
  oh_step sx st who e = Ok st1 ->
  types st1 = types st /\ tasks st1 = tasks st /\ (CpuOk sx st -> CpuOk sx st1).
Proof.
  intros H. unfold oh_step, change_state, migrate, nth_opt in H.
  destruct (nth_error (threads st) who) as [th|] eqn:Hn; [|discriminate].
  pose proof (nth_error_nth _ _ _ dummy_thread Hn) as Hth.
  destruct e; break_in H; inversion H; subst; clear H; (split; [reflexivity|split; [reflexivity|]]);
    intros Hc tq cq Hcpu; cbn [threads touch set_cpu_threads set_thread] in Hcpu;
    repeat cpu_case Hcpu; cbn [t_cpu with_state with_cpu] in Hcpu;
    try (now apply (Hc tq cq)); try (now apply (Hc who cq)); try discriminate;
    try (apply (Hc who cq); rewrite Hth; exact Hcpu);
    try (inversion Hcpu; subst; eapply find_cpu_lt; eassumption).
  all: try (match goal with Hr : nth_error (threads _) ?r = Some ?rth |- _ =>
              apply (Hc r cq); rewrite (nth_error_nth _ _ _ dummy_thread Hr); exact Hcpu end).
Qed.

Lemma oh_step_linv sx st who e st1 : oh_step sx st who e = Ok st1 -> LInv sx st -> LInv sx st1.
Proof.
  intros H L. destruct (oh_step_frame _ _ _ _ _ H) as [Hr _]. destruct (oh_step_misc _ _ _ _ _ H) as (Hty & Htk & Hc).
  apply (linv_same sx st st1 Hr Hty Htk); [|exact L]. apply Hc. exact (li_cpu _ _ L).
Qed.

Lemma task_op_misc sx st who th loom pid mdl kind tid bid st1 :
  nth_error (threads st) who = Some th ->
  task_op st who th loom pid mdl kind tid bid = Ok st1 ->
  types st1 = types st /\
  (forall tk', In tk' (tasks st1) -> exists tk, In tk (tasks st) /\ tk_gid tk' = tk_gid tk) /\
  (CpuOk sx st -> CpuOk sx st1).
Proof.
  intros Hn H. unfold task_op in H.
  pose proof (nth_error_nth _ _ _ dummy_thread Hn) as Hth.
  destruct (find_task st loom pid mdl tid) as [[ti tk]|] eqn:Ef; [|discriminate].
  unfold find_task in Ef. destruct (find_task_from_in _ _ _ _ _ _ _ _ Ef) as (Hin & _ & _).
  assert (T : forall bi b tk', In tk' (tasks (store_body st ti tk bi b)) -> exists tk0, In tk0 (tasks st) /\ tk_gid tk' = tk_gid tk0).
  { intros bi b tk' H'. unfold store_body in H'. cbn [tasks set_tasks] in H'. apply in_update in H' as [->|H'].
    - exists tk. split; [exact Hin|reflexivity].
    - exists tk'. split; [exact H'|reflexivity]. }
  break_in H; inversion H; subst; clear H; (split; [reflexivity|split]);
    try (intros tk' H'; cbn [tasks set_thread] in H'; eapply T; exact H');
    intros Hc tq cq Hcpu; cbn [threads set_thread store_body set_tasks] in Hcpu;
    repeat cpu_case Hcpu; cbn [t_cpu with_bstack] in Hcpu; try (now apply (Hc tq cq));
    try (apply (Hc who cq); rewrite Hth; exact Hcpu); try (now apply (Hc who cq)).
Qed.

Lemma linv_tasks sx st st1 :
  raws st1 = raws st -> types st1 = types st ->
  (forall tk', In tk' (tasks st1) -> exists tk, In tk (tasks st) /\ tk_gid tk' = tk_gid tk) ->
  CpuOk sx st1 -> LInv sx st -> LInv sx st1.
Proof.
  intros Hraw Hty Htk Hcpu [Hr Ht Hc]. split.
  - intros t k x Hx. rewrite Hty. apply (Hr t k x). rewrite <- (raw_of_same_raws st st1 Hraw). exact Hx.
  - intros tk' Hin. destruct (Htk tk' Hin) as (tk & Hin0 & Hg). destruct (Ht tk Hin0) as (ty & Hty0 & Hg0).
    exists ty. rewrite Hty, Hg. auto.
  - exact Hcpu.
Qed.

Lemma chan_step_types sx st who k a v st1 d : chan_step sx st who k a v = Ok (st1, d) -> types st1 = types st /\ tasks st1 = tasks st.
Proof.
  unfold chan_step, nth_opt. intros H.
  destruct (nth_error (threads st) who) as [th|]; [|discriminate].
  destruct (nth_error (s_chans sx) k) as [sp|]; [|discriminate].
  destruct (raw_apply sp (nth k (t_raw th) empty_raw) a v) as [[r' dd]|]; [|discriminate].
  inversion H; subst. split; reflexivity.
Qed.

Lemma set_chans_linv sx who ws : forall st d0 st1 d,
  set_chans sx st who ws d0 = Ok (st1, d) ->
  (forall k x, In (k, Some x) ws -> val_ok sx (types st) k x) ->
  LInv sx st -> LInv sx st1 /\ types st1 = types st /\ tasks st1 = tasks st.
Proof.
  induction ws as [|[k v] ws IH]; intros st d0 st1 d H Hv L; cbn [set_chans] in H.
  - inversion H; subst. auto.
  - destruct (chan_step sx st who k SET v) as [[st' d1]|] eqn:E; [|discriminate].
    destruct (chan_step_types _ _ _ _ _ _ _ _ E) as [Ety Etk].
    assert (L' : LInv sx st').
    { apply (chan_step_linv _ _ _ _ _ _ _ _ E); [|exact L]. right. intros x ->. apply Hv. now left. }
    destruct (IH _ _ _ _ H) as (L1 & T1 & K1); [|exact L'|].
    + intros k' x Hin. rewrite Ety. apply Hv. now right.
    + split; [exact L1|]. split; congruence.
Qed.

Lemma running_top_in st loom pid th mdl tk b : running_top st loom pid th mdl = Some (tk, b) -> In tk (tasks st).
Proof.
  unfold running_top, body_state_of. intros H.
  destruct (model_stack th mdl) as [|[[m t] bb] r]; [discriminate|].
  destruct (find_task st loom pid m t) as [[i tk0]|] eqn:Ef; [|discriminate].
  destruct (find_body tk0 bb) as [[j b0]|]; [|discriminate].
  destruct (bstate_eqb (EmuCoreDefs.b_state b0) BRunning); [|discriminate]. inversion H; subst.
  unfold find_task in Ef. now destruct (find_task_from_in _ _ _ _ _ _ _ _ Ef).
Qed.

Lemma field_writes_ok sx st cfg ti tn bn (fields : list (tfield * nat)) :
  cfg_ok sx cfg -> incl fields (tc_chans cfg) -> LInv sx st -> In tn (tasks st) ->
  forall k x, In (k, Some x) (map (fun '(f, k) => (k, field_value ti tn bn f)) fields) -> val_ok sx (types st) k x.
Proof.
  intros [_ Hc] Hi L Hin k x H. apply in_map_iff in H as [[f k'] [E Hf]]. injection E as -> Ev.
  specialize (Hc f k (Hi _ Hf)).
  destruct f; cbn [field_value] in Ev; try (destruct Hc as [Ht Hs]; split; intros E; cbv zeta in *; congruence).
  (* FType: the gid of a task's type *)
  injection Ev as <-. split; [intros E; cbv zeta in *; congruence|]. intros _. exact (li_task _ _ L tn Hin).
Qed.

Lemma task_event_linv sx st who cfg mdl kind tid bid st1 dirty :
  task_event sx st who cfg mdl kind tid bid = Ok (st1, dirty) -> cfg_ok sx cfg -> LInv sx st -> LInv sx st1.
Proof.
  unfold task_event, nth_opt. intros H Hcfg L.
  destruct (nth_error (threads st) who) as [th|] eqn:Hn; [|discriminate].
  destruct (nth_error (s_threads sx) who) as [ti|]; [|discriminate].
  destruct (find_task st (ti_loom ti) (ti_pid ti) mdl tid) as [[i0 tk0]|]; [|discriminate].
  match type of H with match ?o with Some _ => _ | None => _ end = _ => destruct o as [b|]; [|discriminate] end.
  destruct (task_op st who th (ti_loom ti) (ti_pid ti) mdl kind tid b) as [s1|] eqn:Eop; [|discriminate].
  destruct (task_op_frame _ _ _ _ _ _ _ _ _ _ Hn Eop) as [Hr1 _].
  destruct (task_op_misc sx _ _ _ _ _ _ _ _ _ _ Hn Eop) as (Hty1 & Htk1 & Hc1).
  assert (L1 : LInv sx s1) by (apply (linv_tasks sx st s1 Hr1 Hty1 Htk1); [apply Hc1; exact (li_cpu _ _ L)|exact L]).
  match type of H with match ?ssr with Ok _ => _ | Err _ => _ end = _ => destruct ssr as [[s2 d1]|] eqn:Ess; [|discriminate] end.
  assert (L2 : LInv sx s2 /\ types s2 = types s1 /\ tasks s2 = tasks s1).
  { destruct Hcfg as [Hss _].
    destruct (kind =? 120).
    - destruct (chan_step_types _ _ _ _ _ _ _ _ Ess). split; [|auto].
      apply (chan_step_linv _ _ _ _ _ _ _ _ Ess); [|exact L1]. right. intros x E. injection E as <-. now apply chan_static_val_ok.
    - destruct (kind =? 101).
      + destruct (chan_step_types _ _ _ _ _ _ _ _ Ess). split; [|auto].
        apply (chan_step_linv _ _ _ _ _ _ _ _ Ess); [|exact L1]. right. intros x E. injection E as <-. now apply chan_static_val_ok.
      + inversion Ess; subst. auto. }
  destruct L2 as (L2 & Ty2 & Tk2).
  match type of H with match ?w with Ok _ => _ | Err _ => _ end = _ => destruct w as [ws|] eqn:Ew; [|discriminate] end.
  destruct (set_chans sx s2 who ws d1) as [[s3 d]|] eqn:Esc; [|discriminate].
  assert (L3 : LInv sx s3).
  { refine (proj1 (set_chans_linv _ _ _ _ _ _ _ Esc _ L2)).
    assert (Hincl : incl (filter (fun '(f, _) => match f with FRank => 0 <=? ti_rank ti | _ => true end) (tc_chans cfg)) (tc_chans cfg))
      by (intros y Hy; apply filter_In in Hy; tauto).
    intros k x Hin.
    (* every branch of the writes: values of the next running body, or nulls *)
    repeat match type of Ew with
    | (if ?c then _ else _) = _ => destruct c
    | match ?o with Some _ => _ | None => _ end = _ => let E := fresh "Enext" in destruct o as [[? ?]|] eqn:E
    | Err _ = Ok _ => discriminate Ew
    end;
    try (injection Ew as <-);
    try (match goal with
         | Enext : running_top s1 _ _ _ _ = Some (?tn, ?bn) |- _ =>
           apply (field_writes_ok sx s2 cfg ti tn bn _ Hcfg Hincl L2); [rewrite Tk2; eapply running_top_in; exact Enext|exact Hin]
         end).
    all: try (apply in_map_iff in Hin as [[f k'] [E _]]; discriminate E). }
  break_in H; inversion H; subst; exact L3.
Qed.

Lemma linv_types_grow sx st tys :
  LInv sx st -> LInv sx (set_types st (types st ++ tys)).
Proof.
  intros [Hr Ht Hc]. split; cbn [types tasks threads set_types].
  - intros t k x Hx. apply (val_ok_mono sx (types st)); [apply incl_appl, incl_refl|]. apply (Hr t k x). exact Hx.
  - intros tk Hin. destruct (Ht tk Hin) as (ty & Hin' & Hg). exists ty. split; [apply in_or_app; auto|exact Hg].
  - exact Hc.
Qed.

Theorem core_step_linv sx st who ev st1 dirty :
  core_step sx st who ev = Ok (st1, dirty) -> ev_ok sx ev -> LInv sx st -> LInv sx st1.
Proof.
  intros H Hev L. unfold core_step, nth_opt in H. destruct ev.
  - (* EvOvni *) destruct (oh_step sx st who e) as [s|] eqn:E; [|discriminate]. inversion H; subst. eapply oh_step_linv; eauto.
  - (* EvChan *) destruct (nth_error (threads st) who) as [th|]; [|discriminate].
    break_in H. apply (chan_step_linv _ _ _ _ _ _ _ _ H); [|exact L].
    destruct v as [x|]; [|right; intros x Ex; discriminate Ex]. cbn [ev_ok] in Hev. destruct Hev as [->|Hev]; [now left|].
    right. intros x' Ex. injection Ex as <-. now apply chan_static_val_ok.
  - (* EvOoc *) destruct (nth_error (threads st) who) as [th|] eqn:Hn; [|discriminate].
    apply (chan_step_linv _ _ _ _ _ _ _ _ H).
    + right. intros x E. injection E as <-. cbn [types set_thread]. now apply chan_static_val_ok.
    + apply (linv_same sx st); try reflexivity; [apply (raws_set_thread st who th); [exact Hn|reflexivity]| |exact L].
      apply cpu_set_thread; [exact (li_cpu _ _ L)|]. intros c Hc. cbn [t_cpu with_ooc] in Hc.
      apply (li_cpu _ _ L who c). now rewrite (nth_error_nth _ _ _ dummy_thread Hn).
  - (* EvTask *) destruct (nth_error (threads st) who) as [th|]; [|discriminate].
    destruct (need_ok (tc_need cfg) th); [|discriminate]. eapply task_event_linv; eauto.
  - (* EvTaskCreate *) destruct (nth_error (threads st) who) as [th|]; [|discriminate].
    destruct (need_ok need th); [|discriminate].
    destruct (task_create sx st who mdl tid typeid par res pause relax) as [s|] eqn:E; [|discriminate].
    inversion H; subst. unfold task_create, nth_opt in E.
    destruct (nth_error (s_threads sx) who) as [ti|]; [|discriminate].
    destruct (find_task st (ti_loom ti) (ti_pid ti) mdl tid); [discriminate|].
    destruct (find_type (types st) (ti_loom ti) (ti_pid ti) mdl typeid) as [ty|] eqn:Ety; [|discriminate].
    inversion E; subst. destruct L as [Hr Ht Hc]. split; cbn [types tasks threads set_tasks].
    + exact Hr.
    + intros tk Hin. apply in_app_or in Hin as [Hin|[<-|[]]]; [now apply Ht|]. cbn [tk_gid].
      exists ty. split; [|reflexivity]. clear -Ety. induction (types st) as [|t0 r IH]; cbn [find_type] in Ety; [discriminate|].
      destruct (Nat.eqb (ty_loom t0) (ti_loom ti) && (ty_pid t0 =? ti_pid ti) && (ty_model t0 =? mdl) && (ty_id t0 =? typeid));
        [inversion Ety; now left|right; now apply IH].
    + exact Hc.
  - (* EvTypeCreate *) destruct (nth_error (threads st) who) as [th|]; [|discriminate].
    destruct (need_ok need th); [|discriminate].
    destruct (type_create sx st who mdl typeid gid) as [s|] eqn:E; [|discriminate].
    inversion H; subst. unfold type_create, nth_opt in E. break_in E. inversion E; subst. now apply linv_types_grow.
  - (* EvNop *) destruct (nth_error (threads st) who) as [th|]; [|discriminate].
    destruct (t_ooc th); [discriminate|]. inversion H; subst. exact L.
  - discriminate.
Qed.

(* ---------------------------------------------------------------- what an emitted line carries *)

Lemma emit_value last cpu row ty fl v last' ls :
  emit last cpu row ty fl v = Ok (last', ls) -> forall l, In l ls ->
  l_cpu l = cpu /\ l_row l = row /\ l_type l = ty /\
  match v with None => l_val l = 0 | Some x => l_val l = if has_flag fl PRV_NEXT then x + 1 else x end.
Proof.
  unfold emit. intros H l Hl.
  repeat match type of H with
  | (if ?b then _ else _) = _ => destruct b
  | (match ?x with Some _ => _ | None => _ end) = _ => destruct x
  | Err _ = Ok _ => discriminate H
  | Ok _ = Ok _ => injection H as H1 H2; subst
  end; cbn [In] in Hl; try contradiction; destruct Hl as [<-|[]]; cbn; auto.
Qed.

Lemma emit_all_values rs : forall last last' ls,
  emit_all last rs = Ok (last', ls) ->
  forall l, In l ls -> exists fl v, In ((l_cpu l, l_row l, l_type l), fl, v) rs /\
    match v with None => l_val l = 0 | Some x => l_val l = if has_flag fl PRV_NEXT then x + 1 else x end.
Proof.
  induction rs as [|[[[[c r] t] fl] v] rs IH]; cbn [emit_all]; intros last last' ls H l Hl.
  - injection H as <- <-. contradiction.
  - destruct (emit last c r t fl v) as [[last1 l1]|] eqn:E1; [|discriminate H].
    destruct (emit_all last1 rs) as [[last2 l2]|] eqn:E2; [|discriminate H].
    injection H as <- <-. apply in_app_or in Hl as [Hl|Hl].
    + destruct (emit_value _ _ _ _ _ _ _ _ E1 l Hl) as (-> & -> & -> & Hv). exists fl, v. split; [now left|exact Hv].
    + destruct (IH _ _ _ E2 l Hl) as (f' & v' & Hin & Hv). exists f', v'. split; [now right|exact Hv].
Qed.

(* static conditions on the channel specs *)
Record StaticOk (sx : static) : Prop := {
  so_next : forall k, has_flag (cs_flags (spec_of sx k)) PRV_NEXT = false;
  so_def : forall k x, cs_cpudef (spec_of sx k) = Some x -> chan_static_ok sx k x;
  so_init : forall k x, cs_init (spec_of sx k) = Some x -> chan_static_ok sx k x
}.

Lemma raw_read_contents sp r x : raw_read sp r = Some x -> In x (contents r).
Proof.
  unfold raw_read, contents. destruct (cs_stack sp).
  - destruct (r_stk r) as [|y s]; [discriminate|]. intros E. injection E as ->. cbn. now left.
  - intros ->. apply in_or_app. right. now left.
Qed.

Lemma view_labelled sx st s x :
  StaticOk sx -> LInv sx st -> In s (slots sx) -> view sx st s = Some x ->
  slot_labelled sx (types st) s (if has_flag (flags_of sx s) PRV_NEXT then x + 1 else x).
Proof.
  intros SO L Hs Hv. destruct s as [t w|t k|c w|c k]; cbn [view flags_of] in *.
  - destruct w as [|[|w]].
    + (* CPU affinity *) unfold v_cpu in Hv. destruct (t_cpu (nth t (threads st) dummy_thread)) as [c|] eqn:Ec; [|discriminate].
      injection Hv as <-. change (has_flag PRV_NEXT PRV_NEXT) with true. cbn iota. right.
      pose proof (li_cpu _ _ L t c Ec). lia.
    + right. exact I.
    + change (has_flag PRV_SKIPDUP PRV_NEXT) with false. cbn iota.
      unfold v_state in Hv. injection Hv as <-. destruct (t_state (nth t (threads st) dummy_thread)); cbn; [left; reflexivity|right; lia..].
  - rewrite (so_next _ SO k). destruct (mode_ok _ _); [|discriminate].
    destruct (Z.eq_dec x 0) as [->|Hx]; [left; reflexivity|right]. apply (li_raw _ _ L t k x). eapply raw_read_contents; eauto.
  - right. destruct w as [|[|w]]; exact I.
  - rewrite (so_next _ SO k). destruct (Z.eq_dec x 0) as [->|Hx]; [left; reflexivity|right].
    destruct (th_running st c) as [t|].
    + apply (li_raw _ _ L t k x). eapply raw_read_contents; eauto.
    + apply chan_static_val_ok. now apply (so_def _ SO).
Qed.

Theorem step_values_labelled sx st who ev st' ls :
  StaticOk sx -> ev_ok sx ev -> LInv sx st ->
  step sx st who ev = Ok (st', ls) ->
  LInv sx st' /\ incl (types st) (types st') /\
  forall l, In l ls -> exists s, In s (slots sx) /\ key_of sx s = (l_cpu l, l_row l, l_type l) /\ slot_labelled sx (types st') s (l_val l).
Proof.
  unfold step. intros SO Hev L H.
  destruct (core_step sx st who ev) as [[st1 dirty]|] eqn:Ec; [|discriminate H].
  destruct (emit_all (prv_last st1) (all_reqs sx st st1 dirty)) as [[last' ls']|] eqn:Ee; [|discriminate H].
  injection H as <- <-.
  pose proof (core_step_linv _ _ _ _ _ _ Ec Hev L) as L1.
  assert (L1' : LInv sx (set_last st1 last')) by (destruct L1 as [a b c]; split; assumption).
  split; [exact L1'|]. split.
  - (* the task types only grow *)
    cbn [types set_last]. clear -Ec. unfold core_step, nth_opt in Ec. destruct ev.
    + destruct (oh_step sx st who e) as [s|] eqn:E; [|discriminate]. inversion Ec; subst.
      destruct (oh_step_misc _ _ _ _ _ E) as (-> & _). apply incl_refl.
    + destruct (nth_error (threads st) who); [|discriminate]. break_in Ec.
      destruct (chan_step_types _ _ _ _ _ _ _ _ Ec) as [-> _]. apply incl_refl.
    + destruct (nth_error (threads st) who); [|discriminate].
      destruct (chan_step_types _ _ _ _ _ _ _ _ Ec) as [-> _]. apply incl_refl.
    + destruct (nth_error (threads st) who) as [th|] eqn:Hn; [|discriminate]. destruct (need_ok _ _); [|discriminate].
      unfold task_event, nth_opt in Ec. rewrite Hn in Ec.
      destruct (nth_error (s_threads sx) who) as [ti|]; [|discriminate].
      destruct (find_task st (ti_loom ti) (ti_pid ti) mdl tid) as [[i0 tk0]|]; [|discriminate].
      match type of Ec with match ?o with Some _ => _ | None => _ end = _ => destruct o as [b|]; [|discriminate] end.
      destruct (task_op st who th (ti_loom ti) (ti_pid ti) mdl kind tid b) as [s1|] eqn:Eop; [|discriminate].
      destruct (task_op_misc sx _ _ _ _ _ _ _ _ _ _ Hn Eop) as (Hty1 & _ & _).
      match type of Ec with match ?ssr with Ok _ => _ | Err _ => _ end = _ => destruct ssr as [[s2 d1]|] eqn:Ess; [|discriminate] end.
      assert (Ty2 : types s2 = types s1).
      { destruct (kind =? 120); [now destruct (chan_step_types _ _ _ _ _ _ _ _ Ess)|].
        destruct (kind =? 101); [now destruct (chan_step_types _ _ _ _ _ _ _ _ Ess)|]. now inversion Ess. }
      match type of Ec with match ?w with Ok _ => _ | Err _ => _ end = _ => destruct w as [ws|]; [|discriminate] end.
      destruct (set_chans sx s2 who ws d1) as [[s3 d]|] eqn:Esc; [|discriminate].
      assert (Ty3 : types s3 = types s2).
      { clear -Esc. revert s2 d1 s3 d Esc. induction ws as [|[k v] ws IH]; intros s2 d1 s3 d Esc; cbn [set_chans] in Esc.
        - now inversion Esc.
        - destruct (chan_step sx s2 who k SET v) as [[s' d']|] eqn:E; [|discriminate].
          destruct (chan_step_types _ _ _ _ _ _ _ _ E) as [<- _]. eapply IH; eauto. }
      break_in Ec; inversion Ec; subst; rewrite Ty3, Ty2, Hty1; apply incl_refl.
    + destruct (nth_error (threads st) who); [|discriminate]. destruct (need_ok _ _); [|discriminate].
      destruct (task_create sx st who mdl tid typeid par res pause relax) as [s|] eqn:E; [|discriminate].
      inversion Ec; subst. unfold task_create, nth_opt in E. break_in E. inversion E; subst. apply incl_refl.
    + destruct (nth_error (threads st) who); [|discriminate]. destruct (need_ok _ _); [|discriminate].
      destruct (type_create sx st who mdl typeid gid) as [s|] eqn:E; [|discriminate].
      inversion Ec; subst. unfold type_create, nth_opt in E. break_in E. inversion E; subst. cbn [types set_types]. apply incl_appl, incl_refl.
    + destruct (nth_error (threads st) who); [|discriminate]. destruct (t_ooc _); [discriminate|]. inversion Ec; subst. apply incl_refl.
    + discriminate.
  - intros l Hl. destruct (emit_all_values _ _ _ _ Ee l Hl) as (fl & v & Hin & Hv).
    destruct (all_reqs_slot _ _ _ _ _ _ _ Hin) as (s & Hs & Hk & -> & ->).
    exists s. split; [exact Hs|]. split; [symmetry; exact Hk|]. cbn [types set_last].
    destruct (view sx st1 s) as [x|] eqn:Ev.
    + rewrite Hv. now apply view_labelled.
    + left. exact Hv.
Qed.
