(* The dispatch code of every model, in footprint mode (Gen/FootAll_gen.v, Gen/Foot_gen.v): no handler reads the
   payload outside the bytes of the event, whatever the payload, its size, the static tables and the rest of the
   emulator are. *)
From Coq Require Import ZArith List Bool Lia.
From OV Require Import Base.CInt Emu.EmuCoreDefs Emu.FootPre Proofs.FootProofs.
From OV Require Gen.Foot_gen Gen.FootAll_gen.
Import ListNotations.
Local Open Scope Z_scope.

#[local] Hint Resolve nosv_pre_task_noob nanos6_pre_task_noob nosv_pre_type_noob nanos6_pre_type_noob : noob.

Lemma nosv_simple_noob sx e : noob sx (FootAll_gen.nosv_simple e).
Proof. unfold FootAll_gen.nosv_simple. nb. Qed.
#[local] Hint Resolve nosv_simple_noob : noob.
Lemma nosv_process_noob sx e : noob sx (FootAll_gen.nosv_process_ev e).
Proof. unfold FootAll_gen.nosv_process_ev. nb. Qed.
#[local] Hint Resolve nosv_process_noob : noob.
Lemma nosv_model_noob sx e : noob sx (FootAll_gen.nosv_model_nosv_event e).
Proof. unfold FootAll_gen.nosv_model_nosv_event. nb. Qed.

Lemma nanos6_simple_noob sx e : noob sx (FootAll_gen.nanos6_simple e).
Proof. unfold FootAll_gen.nanos6_simple. nb. Qed.
#[local] Hint Resolve nanos6_simple_noob : noob.
Lemma nanos6_process_noob sx e : noob sx (FootAll_gen.nanos6_process_ev e).
Proof. unfold FootAll_gen.nanos6_process_ev. nb. Qed.
#[local] Hint Resolve nanos6_process_noob : noob.
Lemma nanos6_model_noob sx e : noob sx (FootAll_gen.nanos6_model_nanos6_event e).
Proof. unfold FootAll_gen.nanos6_model_nanos6_event. nb. Qed.

Lemma nodes_simple_noob sx e : noob sx (FootAll_gen.nodes_simple e).
Proof. unfold FootAll_gen.nodes_simple. nb. Qed.
#[local] Hint Resolve nodes_simple_noob : noob.
Lemma nodes_process_noob sx e : noob sx (FootAll_gen.nodes_process_ev e).
Proof. unfold FootAll_gen.nodes_process_ev. nb. Qed.
#[local] Hint Resolve nodes_process_noob : noob.
Lemma nodes_model_noob sx e : noob sx (FootAll_gen.nodes_model_nodes_event e).
Proof. unfold FootAll_gen.nodes_model_nodes_event. nb. Qed.

Lemma mpi_process_noob sx e : noob sx (FootAll_gen.mpi_process_ev e).
Proof. unfold FootAll_gen.mpi_process_ev. nb. Qed.
#[local] Hint Resolve mpi_process_noob : noob.
Lemma mpi_model_noob sx e : noob sx (FootAll_gen.mpi_model_mpi_event e).
Proof. unfold FootAll_gen.mpi_model_mpi_event. nb. Qed.

Lemma tampi_process_noob sx e : noob sx (FootAll_gen.tampi_process_ev e).
Proof. unfold FootAll_gen.tampi_process_ev. nb. Qed.
#[local] Hint Resolve tampi_process_noob : noob.
Lemma tampi_model_noob sx e : noob sx (FootAll_gen.tampi_model_tampi_event e).
Proof. unfold FootAll_gen.tampi_model_tampi_event. nb. Qed.

Lemma openmp_process_noob sx e : noob sx (FootAll_gen.openmp_process_ev e).
Proof. unfold FootAll_gen.openmp_process_ev. nb. Qed.
#[local] Hint Resolve openmp_process_noob : noob.
Lemma openmp_model_noob sx e : noob sx (FootAll_gen.openmp_model_openmp_event e).
Proof. unfold FootAll_gen.openmp_model_openmp_event. nb. Qed.

Lemma kernel_cs_noob sx e : noob sx (FootAll_gen.kernel_context_switch e).
Proof. unfold FootAll_gen.kernel_context_switch. nb. Qed.
#[local] Hint Resolve kernel_cs_noob : noob.
Lemma kernel_process_noob sx e : noob sx (FootAll_gen.kernel_process_ev e).
Proof. unfold FootAll_gen.kernel_process_ev. nb. Qed.
#[local] Hint Resolve kernel_process_noob : noob.
Lemma kernel_model_noob sx e : noob sx (FootAll_gen.kernel_model_kernel_event e).
Proof. unfold FootAll_gen.kernel_model_kernel_event. nb. Qed.

(* the entry point of each of the eight models (what emu_ev / model.c calls with the event), and mark_event *)
Theorem all_handlers_in_bounds sx e :
  exec (Foot_gen.model_ovni_event e) sx <> Err E_OOB /\
  exec (Foot_gen.mark_event e) sx <> Err E_OOB /\
  exec (FootAll_gen.nosv_model_nosv_event e) sx <> Err E_OOB /\
  exec (FootAll_gen.nanos6_model_nanos6_event e) sx <> Err E_OOB /\
  exec (FootAll_gen.nodes_model_nodes_event e) sx <> Err E_OOB /\
  exec (FootAll_gen.mpi_model_mpi_event e) sx <> Err E_OOB /\
  exec (FootAll_gen.tampi_model_tampi_event e) sx <> Err E_OOB /\
  exec (FootAll_gen.openmp_model_openmp_event e) sx <> Err E_OOB /\
  exec (FootAll_gen.kernel_model_kernel_event e) sx <> Err E_OOB.
Proof.
  repeat split; apply noob_exec.
  - apply model_ovni_event_noob. - apply mark_event_noob. - apply nosv_model_noob. - apply nanos6_model_noob.
  - apply nodes_model_noob. - apply mpi_model_noob. - apply tampi_model_noob. - apply openmp_model_noob. - apply kernel_model_noob.
Qed.
