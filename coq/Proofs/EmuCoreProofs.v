(* The timeline theorem of the emulator core: after every accepted event, for every registered
   (file,row,type), the value shown by the emitted PRV lines is the view of the semantic state. *)
From Coq Require Import ZArith List Bool Lia.
From OV Require Import Emu.EmuCoreDefs Proofs.EmitProofs.
Import ListNotations.
Local Open Scope Z_scope.

(* ---------------------------------------------------------------- list helpers *)

Lemma update_length {A} (l : list A) n x : length (update l n x) = length l.
Proof. revert n. induction l as [|h t IH]; intros [|n]; cbn; auto. Qed.

Lemma nth_update_same {A} (l : list A) n x d : (n < length l)%nat -> nth n (update l n x) d = x.
Proof. revert n. induction l as [|h t IH]; intros [|n] H; cbn in *; try lia; auto. apply IH. lia. Qed.

Lemma nth_update_other {A} (l : list A) n m x d : n <> m -> nth m (update l n x) d = nth m l d.
Proof. revert n m. induction l as [|h t IH]; intros [|n] [|m] H; cbn; auto; try contradiction. Qed.

Lemma update_nth_id {A} (l : list A) n d : update l n (nth n l d) = l.
Proof. revert n. induction l as [|h t IH]; intros [|n]; cbn; auto. rewrite IH. reflexivity. Qed.

Lemma map_update {A B} (f : A -> B) (l : list A) n x : map f (update l n x) = update (map f l) n (f x).
Proof. revert n. induction l as [|h t IH]; intros [|n]; cbn; auto. rewrite IH. reflexivity. Qed.

Lemma nth_error_nth {A} (l : list A) n x d : nth_error l n = Some x -> nth n l d = x.
Proof. revert n. induction l as [|h t IH]; intros [|n] H; cbn in *; try discriminate; [inversion H; auto|auto]. Qed.

Lemma nth_error_lt {A} (l : list A) n x : nth_error l n = Some x -> (n < length l)%nat.
Proof. intros H. apply nth_error_Some. congruence. Qed.

(* ---------------------------------------------------------------- frame: who changes a raw channel *)

Definition raws (st : state) : list (list raw) := map t_raw (threads st).

Lemma raw_of_raws st t k : raw_of st t k = nth k (nth t (raws st) []) empty_raw.
Proof.
  unfold raw_of, raws.
  change (@nil raw) with (t_raw dummy_thread). rewrite map_nth. reflexivity.
Qed.

Lemma raws_set_thread st t th th' :
  nth_error (threads st) t = Some th -> t_raw th' = t_raw th -> raws (set_thread st t th') = raws st.
Proof.
  intros Hn Hr. unfold raws, set_thread. cbn [threads]. rewrite map_update, Hr.
  rewrite <- (nth_error_nth _ _ _ dummy_thread Hn).
  change (t_raw (nth t (threads st) dummy_thread)) with ((fun x => t_raw x) (nth t (threads st) dummy_thread)).
  rewrite <- (map_nth (fun x => t_raw x)). apply update_nth_id.
Qed.

Lemma raws_set_cpu_threads st c l : raws (set_cpu_threads st c l) = raws st.
Proof. reflexivity. Qed.
Lemma raws_touch st c : raws (touch st c) = raws st.
Proof. reflexivity. Qed.

Lemma threads_set_cpu_threads st c l : threads (set_cpu_threads st c l) = threads st.
Proof. reflexivity. Qed.
Lemma threads_touch st c : threads (touch st c) = threads st.
Proof. reflexivity. Qed.

Lemma last_set_thread st t th : prv_last (set_thread st t th) = prv_last st.
Proof. reflexivity. Qed.
Lemma last_set_cpu_threads st c l : prv_last (set_cpu_threads st c l) = prv_last st.
Proof. reflexivity. Qed.
Lemma last_touch st c : prv_last (touch st c) = prv_last st.
Proof. reflexivity. Qed.

Ltac break_in H :=
  repeat match type of H with
         | context [match ?x with _ => _ end] => destruct x eqn:?; try discriminate
         end.

Lemma change_state_frame sx st who th ok new st1 :
  nth_error (threads st) who = Some th ->
  change_state sx st who th ok new = Ok st1 -> raws st1 = raws st /\ prv_last st1 = prv_last st.
Proof.
  intros Hn H. unfold change_state in H. break_in H. inversion H; subst.
  rewrite raws_touch, last_touch, last_set_thread. split; [|reflexivity].
  apply (raws_set_thread st who th); [exact Hn|reflexivity].
Qed.

Lemma migrate_frame sx st t th old new st1 :
  nth_error (threads st) t = Some th ->
  migrate sx st t th old new = Ok st1 -> raws st1 = raws st /\ prv_last st1 = prv_last st.
Proof.
  intros Hn H. unfold migrate in H. break_in H. inversion H; subst. split; [|reflexivity].
  etransitivity; [apply (raws_set_thread _ t th); [exact Hn|reflexivity]|reflexivity].
Qed.

Lemma oh_step_frame sx st who e st1 :
  oh_step sx st who e = Ok st1 -> raws st1 = raws st /\ prv_last st1 = prv_last st.
Proof.
  intros H. unfold oh_step, nth_opt in H.
  destruct (nth_error (threads st) who) as [th|] eqn:Hn; [|discriminate].
  destruct (t_ooc th); [discriminate|].
  destruct e.
  - (* Execute *)
    break_in H. inversion H; subst. split; [|reflexivity].
    rewrite raws_touch, raws_set_cpu_threads. apply (raws_set_thread st who th); [exact Hn|reflexivity].
  - (* End *)
    break_in H; inversion H; subst; (split; [|reflexivity]);
      rewrite raws_touch, raws_set_cpu_threads; apply (raws_set_thread st who th); try exact Hn; reflexivity.
  - eapply change_state_frame; eauto.
  - eapply change_state_frame; eauto.
  - eapply change_state_frame; eauto.
  - eapply change_state_frame; eauto.
  - (* AffSet *)
    destruct (t_cpu th) as [old|]; [|discriminate].
    destruct (negb (is_active (t_state th))); [discriminate|].
    destruct (find_cpu sx (thread_loom sx who) cpuidx) as [new|]; [|discriminate].
    destruct (Nat.eqb old new).
    + inversion H; subst. split; reflexivity.
    + eapply migrate_frame; eauto.
  - (* AffRemote *)
    destruct (find_remote sx who tid) as [r|]; [|discriminate].
    destruct (nth_error (threads st) r) as [rth|] eqn:Hr; [|discriminate].
    destruct (t_state rth); try discriminate;
      (destruct (t_cpu rth) as [old|]; [|discriminate];
       destruct (find_cpu sx (thread_loom sx who) cpuidx) as [new|]; [|discriminate];
       destruct (Nat.eqb old new); [discriminate|]; eapply migrate_frame; eauto).
Qed.

Lemma chan_step_frame sx st who k a v st1 dirty :
  chan_step sx st who k a v = Ok (st1, dirty) ->
  prv_last st1 = prv_last st /\
  forall t k', is_dirty dirty t k' = false -> raw_of st1 t k' = raw_of st t k'.
Proof.
  unfold chan_step, nth_opt. intros H.
  destruct (nth_error (threads st) who) as [th|] eqn:Hn; [|discriminate].
  destruct (nth_error (s_chans sx) k) as [sp|]; [|discriminate].
  destruct (raw_apply sp (nth k (t_raw th) empty_raw) a v) as [[r' d]|] eqn:Ea; [|discriminate].
  inversion H; subst st1 dirty. clear H. split; [reflexivity|].
  intros t k' Hd. unfold raw_of, set_thread. cbn [threads].
  pose proof (nth_error_lt _ _ _ Hn) as Hlt.
  pose proof (nth_error_nth _ _ _ dummy_thread Hn) as Hth.
  destruct (Nat.eq_dec t who) as [->|Hne].
  - rewrite nth_update_same by exact Hlt. rewrite Hth. cbn [t_raw with_raw].
    destruct (Nat.eq_dec k' k) as [->|Hk].
    + (* same channel: then it is not flagged dirty, so the action was IGN and r' = r *)
      destruct d.
      * cbn in Hd. rewrite !Nat.eqb_refl in Hd. discriminate.
      * assert (r' = nth k (t_raw th) empty_raw).
        { unfold raw_apply in Ea. break_in Ea; inversion Ea; reflexivity. }
        subst r'. rewrite update_nth_id. reflexivity.
    + rewrite nth_update_other by congruence. reflexivity.
  - rewrite nth_update_other by congruence. reflexivity.
Qed.

Lemma raw_of_same_raws st st1 : raws st1 = raws st -> forall t k, raw_of st1 t k = raw_of st t k.
Proof. intros H t k. rewrite !raw_of_raws, H. reflexivity. Qed.

(* frames compose *)
Definition Frame (st st1 : state) (dirty : list (nat * nat)) : Prop :=
  prv_last st1 = prv_last st /\
  forall t k, is_dirty dirty t k = false -> raw_of st1 t k = raw_of st t k.

Lemma is_dirty_app d1 d2 t k : is_dirty (d1 ++ d2) t k = is_dirty d1 t k || is_dirty d2 t k.
Proof. unfold is_dirty. apply existsb_app. Qed.

Lemma Frame_refl st : Frame st st [].
Proof. split; [reflexivity|intros; reflexivity]. Qed.

Lemma Frame_trans st st1 st2 d1 d2 : Frame st st1 d1 -> Frame st1 st2 d2 -> Frame st st2 (d1 ++ d2).
Proof.
  intros [L1 F1] [L2 F2]. split; [congruence|].
  intros t k H. rewrite is_dirty_app in H. apply orb_false_iff in H. destruct H as [H1 H2].
  rewrite (F2 t k H2). apply F1. exact H1.
Qed.

Lemma Frame_raws st st1 : raws st1 = raws st -> prv_last st1 = prv_last st -> Frame st st1 [].
Proof. intros Hr Hl. split; [exact Hl|]. intros t k _. apply raw_of_same_raws. exact Hr. Qed.

Lemma raws_set_tasks st tk : raws (set_tasks st tk) = raws st. Proof. reflexivity. Qed.
Lemma raws_set_types st ty : raws (set_types st ty) = raws st. Proof. reflexivity. Qed.

Lemma set_chans_frame sx who ws : forall st d0 st1 d,
  set_chans sx st who ws d0 = Ok (st1, d) -> exists d', d = d0 ++ d' /\ Frame st st1 d'.
Proof.
  induction ws as [|[k v] ws IH]; intros st d0 st1 d H; cbn [set_chans] in H.
  - inversion H; subst. exists []. split; [rewrite app_nil_r; reflexivity|apply Frame_refl].
  - destruct (chan_step sx st who k SET v) as [[st' d1]|] eqn:E; [|discriminate].
    destruct (IH _ _ _ _ H) as (d' & -> & F).
    exists (d1 ++ d'). split; [rewrite app_assoc; reflexivity|].
    apply (Frame_trans st st' st1); [|exact F].
    destruct (chan_step_frame _ _ _ _ _ _ _ _ E) as [Hl Hf]. split; assumption.
Qed.

Lemma task_op_frame st who th loom pid mdl kind tid bid st1 :
  nth_error (threads st) who = Some th ->
  task_op st who th loom pid mdl kind tid bid = Ok st1 -> raws st1 = raws st /\ prv_last st1 = prv_last st.
Proof.
  intros Hn H. unfold task_op in H.
  assert (G : forall ti tk bi b th', t_raw th' = t_raw th ->
            raws (set_thread (store_body st ti tk bi b) who th') = raws st).
  { intros ti tk bi b th' Hr. apply (raws_set_thread (store_body st ti tk bi b) who th); [exact Hn|exact Hr]. }
  break_in H; inversion H; subst; split; try reflexivity; try (apply G; reflexivity).
Qed.

Lemma task_event_frame sx st who cfg mdl kind tid bid st1 dirty :
  task_event sx st who cfg mdl kind tid bid = Ok (st1, dirty) -> Frame st st1 dirty.
Proof.
  unfold task_event, nth_opt. intros H.
  destruct (nth_error (threads st) who) as [th|] eqn:Hn; [|discriminate].
  destruct (nth_error (s_threads sx) who) as [ti|]; [|discriminate].
  destruct (find_task st (ti_loom ti) (ti_pid ti) mdl tid) as [[i0 tk0]|]; [|discriminate].
  match type of H with match ?o with Some _ => _ | None => _ end = _ => destruct o as [b|]; [|discriminate] end.
  destruct (task_op st who th (ti_loom ti) (ti_pid ti) mdl kind tid b) as [s1|] eqn:Eop; [|discriminate].
  destruct (task_op_frame _ _ _ _ _ _ _ _ _ _ Hn Eop) as [Hr1 Hl1].
  match type of H with match ?ssr with Ok _ => _ | Err _ => _ end = _ => destruct ssr as [[s2 d1]|] eqn:Ess; [|discriminate] end.
  assert (F2 : Frame s1 s2 d1).
  { destruct (kind =? 120); [destruct (chan_step_frame _ _ _ _ _ _ _ _ Ess); split; assumption|].
    destruct (kind =? 101); [destruct (chan_step_frame _ _ _ _ _ _ _ _ Ess); split; assumption|].
    inversion Ess; subst. apply Frame_refl. }
  match type of H with match ?w with Ok _ => _ | Err _ => _ end = _ => destruct w as [ws|]; [|discriminate] end.
  destruct (set_chans sx s2 who ws d1) as [[s3 d]|] eqn:Esc; [|discriminate].
  destruct (set_chans_frame _ _ _ _ _ _ _ Esc) as (d' & -> & F3).
  assert (F : Frame st s3 (d1 ++ d')).
  { change (d1 ++ d') with ([] ++ (d1 ++ d')). apply (Frame_trans st s1 s3); [apply Frame_raws; assumption|].
    apply (Frame_trans s1 s2 s3); assumption. }
  break_in H; inversion H; subst; exact F.
Qed.

Lemma core_step_frame sx st who ev st1 dirty :
  core_step sx st who ev = Ok (st1, dirty) ->
  prv_last st1 = prv_last st /\
  forall t k, is_dirty dirty t k = false -> raw_of st1 t k = raw_of st t k.
Proof.
  intros H. unfold core_step, nth_opt in H. destruct ev.
  - destruct (oh_step sx st who e) as [s|] eqn:E; [|discriminate]. inversion H; subst.
    destruct (oh_step_frame _ _ _ _ _ E) as [Hr Hl]. split; [exact Hl|]. intros t k _. apply raw_of_same_raws. exact Hr.
  - destruct (nth_error (threads st) who) as [th|]; [|discriminate].
    break_in H. eapply chan_step_frame; eauto.
  - destruct (nth_error (threads st) who) as [th|] eqn:Hn; [|discriminate].
    destruct (chan_step_frame _ _ _ _ _ _ _ _ H) as [Hl Hf]. split; [exact Hl|].
    intros t k' Hd. rewrite (Hf t k' Hd). apply raw_of_same_raws.
    apply (raws_set_thread st who th); [exact Hn|reflexivity].
  - (* EvTask *)
    destruct (nth_error (threads st) who) as [th|]; [|discriminate].
    destruct (need_ok (tc_need cfg) th); [|discriminate].
    apply (task_event_frame _ _ _ _ _ _ _ _ _ _ H).
  - (* EvTaskCreate *)
    destruct (nth_error (threads st) who) as [th|]; [|discriminate].
    destruct (need_ok need th); [|discriminate].
    destruct (task_create sx st who mdl tid typeid par res pause relax) as [s|] eqn:E; [|discriminate].
    inversion H; subst. unfold task_create, nth_opt in E. break_in E. inversion E; subst.
    split; [reflexivity|intros; reflexivity].
  - (* EvTypeCreate *)
    destruct (nth_error (threads st) who) as [th|]; [|discriminate].
    destruct (need_ok need th); [|discriminate].
    destruct (type_create sx st who mdl typeid gid) as [s|] eqn:E; [|discriminate].
    inversion H; subst. unfold type_create, nth_opt in E. break_in E. inversion E; subst.
    split; [reflexivity|intros; reflexivity].
  - destruct (nth_error (threads st) who) as [th|]; [|discriminate].
    destruct (t_ooc th); [discriminate|]. inversion H; subst. split; [reflexivity|]. intros; reflexivity.
  - discriminate.
Qed.

(* ---------------------------------------------------------------- completeness of the emission rule *)

Lemma tst_eqb_eq a b : tst_eqb a b = true -> a = b.
Proof. unfold tst_eqb. destruct a, b; cbn; intros H; try reflexivity; discriminate. Qed.

Lemma opt_nat_eqb_eq a b : opt_nat_eqb a b = true -> a = b.
Proof. destruct a, b; cbn; intros H; try reflexivity; try discriminate. apply Nat.eqb_eq in H. congruence. Qed.

(* if the rule does not write the channel behind a slot, what the slot displays did not change *)
Lemma not_requested_same sx st who ev st1 dirty s :
  core_step sx st who ev = Ok (st1, dirty) ->
  requested sx st st1 dirty s = false ->
  view sx st1 s = view sx st s /\
  (forall c k, s = SCr c k -> th_running st1 c = th_running st c).
Proof.
  intros Hc Hr. destruct (core_step_frame _ _ _ _ _ _ Hc) as [_ Hf].
  destruct s as [t w | t k | c w | c k]; cbn [requested] in Hr.
  - split; [|intros; discriminate]. unfold changed in Hr. apply negb_false_iff in Hr. apply value_eqb_eq in Hr. congruence.
  - split; [|intros; discriminate]. cbn [view].
    destruct (cs_thtrack (spec_of sx k) =? TRACK_ANY) eqn:Ea.
    + apply Z.eqb_eq in Ea. unfold mode_ok. rewrite Ea. cbn. rewrite (Hf t k Hr). reflexivity.
    + apply orb_false_iff in Hr. destruct Hr as [Hs Hd]. apply negb_false_iff in Hs. apply tst_eqb_eq in Hs.
      rewrite <- Hs. apply andb_false_iff in Hd. destruct Hd as [Hd | Hm].
      * rewrite (Hf t k Hd). reflexivity.
      * rewrite <- Hs in Hm. rewrite Hm. reflexivity.
  - split; [|intros; discriminate]. unfold changed in Hr. apply negb_false_iff in Hr. apply value_eqb_eq in Hr. congruence.
  - apply orb_false_iff in Hr. destruct Hr as [Hs Hd]. apply negb_false_iff in Hs. apply opt_nat_eqb_eq in Hs.
    split; [|intros c' k' E; inversion E; subst; congruence].
    cbn [view]. rewrite <- Hs. destruct (th_running st c) as [t|]; [|reflexivity].
    rewrite <- Hs in Hd. rewrite (Hf t k Hd). reflexivity.
Qed.

(* ---------------------------------------------------------------- the invariant *)

Definition wf_keys (sx : static) : Prop := NoDup (map (key_of sx) (slots sx)).

Definition unselected (st : state) (s : slot) : Prop :=
  match s with SCr c _ => th_running st c = None | _ => False end.

Definition slot_inv (sx : static) (st : state) (ls : list line) (s : slot) : Prop :=
  let k := key_of sx s in
  let f := flags_of sx s in
  let v := view sx st s in
  (shown ls k = printed f v \/ (unselected st s /\ last_get (prv_last st) k = None /\ shown ls k = 0)) /\
  (if care f then last_get (prv_last st) k = None \/ last_get (prv_last st) k = Some v
   else last_get (prv_last st) k = None).

Definition Inv (sx : static) (st : state) (ls : list line) : Prop :=
  forall s, In s (slots sx) -> slot_inv sx st ls s.

Lemma all_reqs_keys sx old new dirty :
  wf_keys sx -> NoDup (map req_key (all_reqs sx old new dirty)).
Proof.
  unfold wf_keys, all_reqs. generalize (slots sx) as l.
  induction l as [|s l IH]; intros Hnd; cbn; [constructor|].
  inversion Hnd as [|? ? Hnotin Hnd']; subst.
  destruct (requested sx old new dirty s); cbn.
  - constructor; [|apply IH; exact Hnd'].
    intros Hin. apply Hnotin. clear -Hin.
    induction l as [|s' l IHl]; cbn in *; [contradiction|].
    destruct (requested sx old new dirty s'); cbn in Hin.
    + destruct Hin as [H|H]; [left; exact H|right; apply IHl; exact H].
    + right. apply IHl. exact Hin.
  - apply IH. exact Hnd'.
Qed.

Lemma in_all_reqs sx old new dirty s :
  In s (slots sx) -> requested sx old new dirty s = true ->
  In (key_of sx s, flags_of sx s, view sx new s) (all_reqs sx old new dirty).
Proof.
  intros Hin Hr. unfold all_reqs. apply in_flat_map. exists s. split; [exact Hin|]. rewrite Hr. left. reflexivity.
Qed.

Lemma notin_all_reqs sx old new dirty s :
  wf_keys sx -> In s (slots sx) -> requested sx old new dirty s = false ->
  ~ In (key_of sx s) (map req_key (all_reqs sx old new dirty)).
Proof.
  unfold wf_keys, all_reqs. intros Hnd Hin Hr Hk.
  apply in_map_iff in Hk. destruct Hk as ([[k f] v] & Hkey & Hin2). cbn in Hkey. subst k.
  apply in_flat_map in Hin2. destruct Hin2 as (s' & Hin' & Hs').
  destruct (requested sx old new dirty s') eqn:Hr'; [|contradiction].
  destruct Hs' as [E|[]]. inversion E as [[Hk Hf Hv]].
  assert (s' = s).
  { clear -Hnd Hin Hin' Hk. revert Hnd Hin Hin'. generalize (slots sx) as l.
    induction l as [|x l IH]; intros Hnd Hin Hin'; [contradiction|].
    cbn in Hnd. inversion Hnd as [|? ? Hnotin Hnd']; subst.
    destruct Hin as [->|Hin], Hin' as [->|Hin']; auto.
    - exfalso. apply Hnotin. rewrite <- Hk. apply in_map. exact Hin'.
    - exfalso. apply Hnotin. rewrite Hk. apply in_map. exact Hin. }
  subst s'. congruence.
Qed.

Theorem step_inv sx st who ev st' ls' ls :
  wf_keys sx -> Inv sx st ls -> step sx st who ev = Ok (st', ls') -> Inv sx st' (ls ++ ls').
Proof.
  intros Hwf HI H. unfold step in H.
  destruct (core_step sx st who ev) as [[st1 dirty]|] eqn:Hc; [|discriminate].
  destruct (emit_all (prv_last st1) (all_reqs sx st st1 dirty)) as [[last' lsn]|] eqn:He; [|discriminate].
  inversion H; subst st' ls'. clear H.
  destruct (core_step_frame _ _ _ _ _ _ Hc) as [Hlast _].
  destruct (emit_all_spec _ _ _ _ (all_reqs_keys sx st st1 dirty Hwf) He) as [Hno Hyes].
  intros s Hin. specialize (HI s Hin). unfold slot_inv in *. cbv zeta in *.
  set (k := key_of sx s) in *. set (f := flags_of sx s) in *.
  (* the new state differs from st1 only in prv_last: views and th_running are those of st1 *)
  set (stn := set_last st1 last').
  assert (Hview : view sx stn s = view sx st1 s) by (destruct s; reflexivity).
  assert (Hunsel : unselected stn s <-> unselected st1 s) by (destruct s; reflexivity).
  rewrite Hview. change (prv_last stn) with last'. unfold shown. rewrite shown_from_app. fold (shown ls k).
  destruct HI as [HA HB].
  destruct (requested sx st st1 dirty s) eqn:Hr.
  - (* written in this event *)
    pose proof (in_all_reqs sx st st1 dirty s Hin Hr) as Hreq. fold k f in Hreq.
    destruct (Hyes k f (view sx st1 s) Hreq) as [(Hs & Hl) | (Hcare & Hg & Hs & Hl)].
    + split; [left; apply Hs|].
      rewrite Hl. destruct (care f) eqn:Ecare; [right; reflexivity|].
      rewrite Hlast. exact HB.
    + (* skipped as duplicate: the value equals the last emitted one, which is the old view *)
      rewrite Hlast in Hg. rewrite Hcare in HB.
      assert (Hsame : view sx st s = view sx st1 s).
      { destruct HB as [HB|HB]; congruence. }
      split.
      * rewrite Hs. destruct HA as [HA | (_ & HN & _)]; [left; rewrite <- Hsame; exact HA|congruence].
      * rewrite Hcare, Hl. right. reflexivity.
  - (* not written: nothing changes for this slot *)
    destruct (not_requested_same _ _ _ _ _ _ _ Hc Hr) as [Hv Hsel].
    pose proof (notin_all_reqs sx st st1 dirty s Hwf Hin Hr) as Hnotin. fold k in Hnotin.
    destruct (Hno k Hnotin) as [Hl Hs]. rewrite Hs, Hl, Hlast, Hv.
    split; [|exact HB].
    destruct HA as [HA | (HU & HN & HZ)]; [left; exact HA|right].
    split; [|split; assumption].
    destruct s as [| |? ?|c k0]; try contradiction. unfold unselected in *.
    change (th_running st1 c = None). rewrite (Hsel c k0 eq_refl). exact HU.
Qed.

(* ---------------------------------------------------------------- whole runs *)

Definition lines_of (tl : list (Z * line)) : list line := map snd tl.

Lemma run_from_inv sx evs : forall st ls st' tl,
  wf_keys sx -> Inv sx st ls -> run_from sx st evs = Ok (st', tl) -> Inv sx st' (ls ++ lines_of tl).
Proof.
  induction evs as [|[[tm who] ev] evs IH]; intros st ls st' tl Hwf HI H; cbn [run_from] in H.
  - inversion H; subst. cbn. rewrite app_nil_r. exact HI.
  - destruct (step sx st who ev) as [[st1 ls1]|] eqn:Es; [|discriminate].
    destruct (run_from sx st1 evs) as [[st2 tl2]|] eqn:Er; [|discriminate].
    inversion H; subst st' tl. clear H.
    unfold lines_of. rewrite map_app, map_map. cbn [snd]. rewrite map_id, app_assoc.
    apply (IH st1 (ls ++ ls1) st2 tl2 Hwf); [|exact Er].
    eapply step_inv; eauto.
Qed.

(* initially nothing is shown and every view is empty, except the CPU views that have a default *)
Definition init_ok (sx : static) : Prop :=
  forall s, In s (slots sx) -> printed (flags_of sx s) (view sx (init sx) s) = 0 \/ unselected (init sx) s.

Lemma init_inv sx : init_ok sx -> Inv sx (init sx) [].
Proof.
  intros H s Hin. unfold slot_inv. cbv zeta. cbn [prv_last init last_get]. unfold shown. cbn [shown_from fold_left].
  split.
  - destruct (H s Hin) as [Hz | Hu]; [left; symmetry; exact Hz|right; auto].
  - destruct (care (flags_of sx s)); auto.
Qed.

(* every prefix of an accepted run: the lines emitted so far show exactly the views *)
Theorem timeline sx evs1 evs2 st tl :
  wf_keys sx -> init_ok sx ->
  run_from sx (init sx) (evs1 ++ evs2) = Ok (st, tl) ->
  exists st1 tl1, run_from sx (init sx) evs1 = Ok (st1, tl1) /\
    forall s, In s (slots sx) ->
      shown (lines_of tl1) (key_of sx s) = printed (flags_of sx s) (view sx st1 s) \/
      (unselected st1 s /\ shown (lines_of tl1) (key_of sx s) = 0).
Proof.
  intros Hwf Hinit H.
  assert (Hpre : forall evs1 evs2 s0 st tl, run_from sx s0 (evs1 ++ evs2) = Ok (st, tl) ->
                 exists st1 tl1, run_from sx s0 evs1 = Ok (st1, tl1)).
  { clear. induction evs1 as [|[[tm who] ev] evs1 IH]; intros evs2 s0 st tl H.
    - eexists _, _. reflexivity.
    - cbn [app run_from] in *. destruct (step sx s0 who ev) as [[s1 l1]|]; [|discriminate].
      destruct (run_from sx s1 (evs1 ++ evs2)) as [[s2 l2]|] eqn:E; [|discriminate].
      destruct (IH _ _ _ _ E) as (st1 & tl1 & E1). rewrite E1. eexists _, _. reflexivity. }
  destruct (Hpre _ _ _ _ _ H) as (st1 & tl1 & E1).
  exists st1, tl1. split; [exact E1|].
  pose proof (run_from_inv sx evs1 (init sx) [] st1 tl1 Hwf (init_inv sx Hinit) E1) as HI. cbn [app] in HI.
  intros s Hin. destruct (HI s Hin) as [[HA | (HU & _ & HZ)] _]; [left; exact HA|right; split; assumption].
Qed.
