(* C20 - proofs about the model in Emu/SortDefs.v *)
From OV Require Import Base.CInt Emu.SortDefs.
From Coq Require Import Sorted Permutation ZifyBool.
From Coq Require Import RelationClasses.
Local Open Scope Z_scope.

(* ------------------------------------------------------------------ *)
(* strongly sorted lists of integers                                   *)

Notation SS := (StronglySorted Z.le).

Lemma ss_app_iff (l1 l2 : list Z) :
  SS (l1 ++ l2) <-> SS l1 /\ SS l2 /\ (forall x y, In x l1 -> In y l2 -> x <= y).
Proof.
  induction l1 as [|a l1 IH]; cbn [app].
  - split.
    + intros H. repeat split; [constructor | exact H | intros x y []].
    + intros (_ & H & _). exact H.
  - split.
    + intros H. inversion H as [|? ? Hs Hf]; subst.
      apply IH in Hs. destruct Hs as (H1 & H2 & H3).
      rewrite Forall_forall in Hf.
      repeat split.
      * constructor; [exact H1|]. apply Forall_forall. intros x Hx. apply Hf. apply in_or_app. now left.
      * exact H2.
      * intros x y [Hx|Hx] Hy.
        -- subst. apply Hf. apply in_or_app. now right.
        -- now apply H3.
    + intros (H1 & H2 & H3). inversion H1 as [|? ? Hs Hf]; subst.
      constructor.
      * apply IH. repeat split; [exact Hs | exact H2 |]. intros x y Hx Hy. apply H3; [now right | exact Hy].
      * apply Forall_forall. intros x Hx. apply in_app_or in Hx. destruct Hx as [Hx|Hx].
        -- rewrite Forall_forall in Hf. now apply Hf.
        -- apply H3; [now left | exact Hx].
Qed.

Lemma ss_cons_iff (a : Z) (l : list Z) : SS (a :: l) <-> SS l /\ (forall y, In y l -> a <= y).
Proof.
  split.
  - intros H. inversion H as [|? ? Hs Hf]; subst. rewrite Forall_forall in Hf. now split.
  - intros (Hs & Hf). constructor; [exact Hs|]. now apply Forall_forall.
Qed.

Lemma sorted_ss (l : list Z) : Sorted Z.le l <-> SS l.
Proof.
  split.
  - apply Sorted_StronglySorted. intros x y z. apply Z.le_trans.
  - apply StronglySorted_Sorted.
Qed.

Lemma sortedb_ss (l : list Z) : sortedb l = true <-> SS l.
Proof.
  rewrite <- sorted_ss.
  induction l as [|x r IH]; cbn [sortedb].
  - split; [constructor | reflexivity].
  - destruct r as [|y r'].
    + split; [repeat constructor | reflexivity].
    + rewrite andb_true_iff, IH. split.
      * intros (Hxy & Hs). constructor; [exact Hs|]. constructor. lia.
      * intros H. inversion H as [|? ? Hs Hh]; subst. inversion Hh; subst. split; [lia | exact Hs].
Qed.

(* a sorted list is determined by its multiset *)
Lemma ss_perm_eq (l1 : list Z) : forall l2, SS l1 -> SS l2 -> Permutation l1 l2 -> l1 = l2.
Proof.
  induction l1 as [|a l1 IH]; intros l2 H1 H2 Hp.
  - apply Permutation_nil in Hp. now subst.
  - destruct l2 as [|b l2].
    + apply Permutation_sym, Permutation_nil in Hp. discriminate.
    + apply ss_cons_iff in H1. destruct H1 as (Hs1 & Hf1).
      apply ss_cons_iff in H2. destruct H2 as (Hs2 & Hf2).
      assert (Hab : a = b).
      { assert (Ha : In a (b :: l2)) by (eapply Permutation_in; [exact Hp | now left]).
        assert (Hb : In b (a :: l1)) by (eapply Permutation_in; [apply Permutation_sym; exact Hp | now left]).
        destruct Ha as [Ha|Ha]; [now subst|].
        destruct Hb as [Hb|Hb]; [now subst|].
        specialize (Hf1 _ Hb). specialize (Hf2 _ Ha). lia. }
      subst b. f_equal. apply IH; [exact Hs1 | exact Hs2 |].
      eapply Permutation_cons_inv. exact Hp.
Qed.

(* ------------------------------------------------------------------ *)
(* reference sort                                                      *)

Lemma insert_perm x l : Permutation (insert x l) (x :: l).
Proof.
  induction l as [|y r IH]; cbn [insert].
  - apply Permutation_refl.
  - destruct (x <=? y).
    + apply Permutation_refl.
    + eapply perm_trans; [apply perm_skip; exact IH | apply perm_swap].
Qed.

Lemma insert_ss x l : SS l -> SS (insert x l).
Proof.
  induction l as [|y r IH]; cbn [insert]; intros H.
  - repeat constructor.
  - apply ss_cons_iff in H. destruct H as (Hs & Hf).
    destruct (x <=? y) eqn:E.
    + apply ss_cons_iff. split.
      * apply ss_cons_iff. now split.
      * intros z [Hz|Hz]; [lia|]. specialize (Hf _ Hz). lia.
    + apply ss_cons_iff. split; [now apply IH|].
      intros z Hz. eapply Permutation_in in Hz; [|apply insert_perm].
      destruct Hz as [Hz|Hz]; [lia | now apply Hf].
Qed.

Lemma isort_perm l : Permutation (isort l) l.
Proof.
  induction l as [|x r IH]; cbn [isort]; [constructor|].
  eapply perm_trans; [apply insert_perm | now apply perm_skip].
Qed.

Lemma isort_ss l : SS (isort l).
Proof. induction l as [|x r IH]; cbn [isort]; [constructor | now apply insert_ss]. Qed.

Lemma isort_unique l s : SS s -> Permutation s l -> s = isort l.
Proof.
  intros Hs Hp. apply ss_perm_eq; [exact Hs | apply isort_ss |].
  eapply perm_trans; [exact Hp | apply Permutation_sym, isort_perm].
Qed.

Lemma isort_length l : length (isort l) = length l.
Proof. apply Permutation_length, isort_perm. Qed.

Lemma same_multiset_iff a b : same_multiset a b = true <-> Permutation a b.
Proof.
  unfold same_multiset. destruct (list_eq_dec Z.eq_dec (isort a) (isort b)) as [E|E].
  - split; [|reflexivity]. intros _.
    eapply perm_trans; [apply Permutation_sym, isort_perm|]. rewrite E. apply isort_perm.
  - split; [discriminate|]. intros Hp. exfalso. apply E.
    apply isort_unique; [apply isort_ss|]. eapply perm_trans; [apply isort_perm | exact Hp].
Qed.

Lemma rows_ok_iff rows percpu :
  rows_ok rows percpu = true <-> Sorted Z.le rows /\ Permutation rows percpu.
Proof. unfold rows_ok. now rewrite andb_true_iff, sortedb_ss, sorted_ss, same_multiset_iff. Qed.

(* ------------------------------------------------------------------ *)
(* remove_one                                                          *)

Lemma remove_one_perm x l : In x l -> Permutation l (x :: remove_one x l).
Proof.
  induction l as [|y r IH]; cbn [remove_one]; intros H; [destruct H|].
  destruct (y =? x) eqn:E.
  - assert (y = x) by lia. subst. apply Permutation_refl.
  - destruct H as [H|H]; [lia|].
    eapply perm_trans; [apply perm_skip, IH, H | apply perm_swap].
Qed.

Lemma remove_one_middle x p tail :
  Forall (fun y => y < x) p -> remove_one x (p ++ x :: tail) = p ++ tail.
Proof.
  induction p as [|y p IH]; cbn [app remove_one]; intros H.
  - now rewrite Z.eqb_refl.
  - inversion H; subst. destruct (y =? x) eqn:E; [lia|]. f_equal. now apply IH.
Qed.

(* ------------------------------------------------------------------ *)
(* the loops of sort_replace                                           *)

Lemma skip_lt_spec old a p s :
  skip_lt old a = Some (p, s) ->
  a = p ++ s /\ Forall (fun x => x < old) p /\ exists y r, s = y :: r /\ old <= y.
Proof.
  revert p s. induction a as [|x r IH]; cbn [skip_lt]; intros p s H; [discriminate|].
  destruct (x <? old) eqn:E.
  - destruct (skip_lt old r) as [[p' s']|] eqn:Er; [|discriminate].
    inversion H; subst. destruct (IH _ _ eq_refl) as (Ha & Hf & Hs).
    repeat split.
    + cbn [app]. now f_equal.
    + constructor; [lia | exact Hf].
    + exact Hs.
  - inversion H; subst. repeat split; [constructor|]. exists x, r. split; [reflexivity | lia].
Qed.

Lemma skip_lt_app old l1 l2 :
  Forall (fun x => x < old) l1 ->
  skip_lt old (l1 ++ l2) =
  match skip_lt old l2 with Some (p, s) => Some (l1 ++ p, s) | None => None end.
Proof.
  induction l1 as [|x l1 IH]; cbn [app]; intros H.
  - destruct (skip_lt old l2) as [[p s]|]; reflexivity.
  - inversion H; subst. cbn [skip_lt]. destruct (x <? old) eqn:E; [|lia].
    rewrite IH by assumption. destruct (skip_lt old l2) as [[p s]|]; reflexivity.
Qed.

(* on a sorted array that contains old the first loop stops exactly on (the first) old *)
Lemma skip_lt_found old a :
  SS a -> In old a ->
  exists p tail, skip_lt old a = Some (p, old :: tail) /\ a = p ++ old :: tail /\
                 Forall (fun x => x < old) p.
Proof.
  induction a as [|x r IH]; intros Hs Hin; [destruct Hin|].
  apply ss_cons_iff in Hs. destruct Hs as (Hs & Hf).
  cbn [skip_lt]. destruct (x <? old) eqn:E.
  - destruct Hin as [Hin|Hin]; [lia|].
    destruct (IH Hs Hin) as (p & tail & Hk & Ha & Hp).
    exists (x :: p), tail. rewrite Hk. repeat split.
    + cbn [app]. now f_equal.
    + constructor; [lia | exact Hp].
  - assert (x = old).
    { destruct Hin as [Hin|Hin]; [exact Hin|]. specialize (Hf _ Hin). lia. }
    subst x. exists [], r. repeat split. constructor.
Qed.

Lemma shift_left_perm new tail : Permutation (shift_left new tail) (new :: tail).
Proof.
  induction tail as [|y t IH]; cbn [shift_left].
  - apply Permutation_refl.
  - destruct (y <=? new).
    + eapply perm_trans; [apply perm_skip; exact IH | apply perm_swap].
    + apply Permutation_refl.
Qed.

Lemma shift_left_ss new tail : SS tail -> SS (shift_left new tail).
Proof.
  induction tail as [|y t IH]; cbn [shift_left]; intros H.
  - repeat constructor.
  - apply ss_cons_iff in H. destruct H as (Hs & Hf).
    destruct (y <=? new) eqn:E.
    + apply ss_cons_iff. split; [now apply IH|].
      intros z Hz. eapply Permutation_in in Hz; [|apply shift_left_perm].
      destruct Hz as [Hz|Hz]; [lia | now apply Hf].
    + apply ss_cons_iff. split.
      * apply ss_cons_iff. now split.
      * intros z [Hz|Hz]; [lia|]. specialize (Hf _ Hz). lia.
Qed.

Lemma shift_right_spec new rp : forall acc,
  SS (rev rp ++ acc) -> Forall (fun y => new < y) acc ->
  SS (shift_right new rp acc) /\ Permutation (shift_right new rp acc) (new :: rev rp ++ acc).
Proof.
  induction rp as [|y t IH]; cbn [shift_right rev]; intros acc Hs Hacc.
  - cbn [app] in *. split; [|apply Permutation_refl].
    apply ss_cons_iff. split; [exact Hs|]. rewrite Forall_forall in Hacc.
    intros z Hz. specialize (Hacc _ Hz). lia.
  - destruct (y >? new) eqn:E.
    + rewrite <- app_assoc in Hs. cbn [app] in Hs.
      destruct (IH (y :: acc) Hs) as (H1 & H2).
      { constructor; [lia | exact Hacc]. }
      split; [exact H1|]. rewrite <- app_assoc. cbn [app]. exact H2.
    + split.
      * apply ss_app_iff in Hs. destruct Hs as (Hp & Ha & Hc).
        apply ss_app_iff. repeat split.
        -- exact Hp.
        -- apply ss_cons_iff. split; [exact Ha|]. rewrite Forall_forall in Hacc.
           intros z Hz. specialize (Hacc _ Hz). lia.
        -- intros a b Ha' Hb.
           assert (Hay : a <= y).
           { apply ss_app_iff in Hp. destruct Hp as (_ & _ & Hc').
             apply in_app_or in Ha'. destruct Ha' as [Ha'|[Ha'|[]]]; [|lia].
             apply Hc'; [exact Ha' | now left]. }
           destruct Hb as [Hb|Hb]; [lia|].
           rewrite Forall_forall in Hacc. specialize (Hacc _ Hb). lia.
      * apply Permutation_sym, Permutation_middle.
Qed.

(* ------------------------------------------------------------------ *)
(* sort_replace, without the jump                                      *)

Lemma replace_nojump_ok a old new :
  SS a -> In old a -> old <> new ->
  exists a', sort_replace_nojump a old new = SR_ok a' /\ SS a' /\
             Permutation a' (new :: remove_one old a).
Proof.
  intros Hs Hin Hne.
  destruct (skip_lt_found old a Hs Hin) as (p & tail & Hk & Ha & Hp).
  unfold sort_replace_nojump.
  destruct (old =? new) eqn:Eeq; [lia|].
  destruct a as [|a0 ar] eqn:Ea; [destruct Hin|]. rewrite <- Ea in *. clear Ea a0 ar.
  assert (Hrm : remove_one old a = p ++ tail) by (rewrite Ha; now apply remove_one_middle).
  assert (Hsa := Hs). rewrite Ha in Hsa. apply ss_app_iff in Hsa. destruct Hsa as (Hsp & Hst & Hc).
  apply ss_cons_iff in Hst. destruct Hst as (Hst & Hft).
  rewrite Forall_forall in Hp.
  destruct (old <? new) eqn:Elt.
  - unfold sort_replace_from. cbn [skipn firstn app]. rewrite Hk.
    eexists. split; [reflexivity|]. split.
    + apply ss_app_iff. repeat split; [exact Hsp | now apply shift_left_ss |].
      intros x y Hx Hy. eapply Permutation_in in Hy; [|apply shift_left_perm].
      specialize (Hp _ Hx). destruct Hy as [Hy|Hy]; [lia|]. specialize (Hft _ Hy). lia.
    + rewrite Hrm. eapply perm_trans; [apply Permutation_app_head, shift_left_perm|].
      apply Permutation_sym, Permutation_middle.
  - rewrite Hk.
    destruct (shift_right_spec new (rev p) []) as (H1 & H2).
    { rewrite rev_involutive, app_nil_r. exact Hsp. }
    { constructor. }
    rewrite rev_involutive, app_nil_r in H2.
    eexists. split; [reflexivity|]. split.
    + apply ss_app_iff. repeat split; [exact H1 | exact Hst |].
      intros x y Hx Hy. eapply Permutation_in in Hx; [|exact H2].
      specialize (Hft _ Hy). destruct Hx as [Hx|Hx]; [lia|]. specialize (Hp _ Hx). lia.
    + rewrite Hrm. eapply perm_trans; [apply Permutation_app_tail; exact H2|]. apply Permutation_refl.
Qed.

(* ------------------------------------------------------------------ *)
(* the n/2 jump is harmless on a sorted array                          *)

Lemma firstn_le_nth (a : list Z) : forall m,
  SS a -> (m < length a)%nat -> Forall (fun x => x <= nth m a 0) (firstn m a).
Proof.
  induction a as [|x r IH]; intros m Hs Hm; [cbn in Hm; lia|].
  destruct m as [|m]; [constructor|].
  apply ss_cons_iff in Hs. destruct Hs as (Hs & Hf).
  cbn [firstn nth]. constructor.
  - apply Hf. apply nth_In. cbn [length] in Hm. lia.
  - apply IH; [exact Hs|]. cbn [length] in Hm. lia.
Qed.

Lemma replace_from_jump a old new m :
  SS a -> (m < length a)%nat -> nth m a 0 < old ->
  sort_replace_from m a old new = sort_replace_from 0 a old new.
Proof.
  intros Hs Hm Hlt. unfold sort_replace_from. cbn [skipn firstn app].
  replace (skip_lt old a) with (skip_lt old (firstn m a ++ skipn m a)) by now rewrite firstn_skipn.
  rewrite skip_lt_app.
  2:{ eapply Forall_impl; [|apply firstn_le_nth; eassumption]. cbn. intros x Hx. lia. }
  destruct (skip_lt old (skipn m a)) as [[p s]|]; [|reflexivity].
  destruct s as [|y tail]; [reflexivity|]. now rewrite app_assoc.
Qed.

Lemma jump_harmless a old new : SS a -> sort_replace a old new = sort_replace_nojump a old new.
Proof.
  intros Hs. unfold sort_replace, sort_replace_nojump.
  destruct (old =? new); [reflexivity|].
  destruct a as [|a0 ar] eqn:Ea; [reflexivity|]. rewrite <- Ea in *.
  destruct (old <? new); [|reflexivity].
  unfold start_index. destruct (nth (length a / 2) a 0 <? old) eqn:E; [|reflexivity].
  apply replace_from_jump; [exact Hs | | lia].
  assert (0 < length a)%nat by (rewrite Ea; cbn; lia).
  apply Nat.div_lt; lia.
Qed.

Theorem replace_ok a old new :
  Sorted Z.le a -> In old a -> old <> new ->
  exists a', sort_replace a old new = SR_ok a' /\ Sorted Z.le a' /\
             Permutation a' (new :: remove_one old a).
Proof.
  intros Hs Hin Hne. apply sorted_ss in Hs.
  rewrite jump_harmless by exact Hs.
  destruct (replace_nojump_ok a old new Hs Hin Hne) as (a' & H1 & H2 & H3).
  exists a'. repeat split; [exact H1 | now apply sorted_ss | exact H3].
Qed.

Lemma replace_die a old : sort_replace a old old = SR_die.
Proof. unfold sort_replace. now rewrite Z.eqb_refl. Qed.

(* when old is missing and nothing is >= old the C loop runs off the array *)
Lemma replace_oob a old new :
  old <> new -> Forall (fun x => x < old) a -> sort_replace a old new = SR_oob.
Proof.
  intros Hne Hall. unfold sort_replace.
  destruct (old =? new) eqn:E; [lia|].
  destruct a as [|a0 ar] eqn:Ea; [reflexivity|]. rewrite <- Ea in *. clear Ea.
  assert (Hnone : forall l, Forall (fun x => x < old) l -> skip_lt old l = None).
  { induction l as [|x r IH]; intros H; [reflexivity|]. inversion H; subst. cbn [skip_lt].
    destruct (x <? old) eqn:E'; [|lia]. now rewrite IH. }
  destruct (old <? new).
  - unfold sort_replace_from. rewrite Hnone; [reflexivity|].
    rewrite <- (firstn_skipn (start_index a old) a) in Hall. apply Forall_app in Hall. tauto.
  - now rewrite Hnone.
Qed.
