(* C20 - proofs about the model in Emu/SortDefs.v *)
From OV Require Import Base.CInt Emu.SortDefs.
From Coq Require Import Sorted Permutation ZifyBool.
From Coq Require Import RelationClasses.
Local Open Scope Z_scope.

(* ------------------------------------------------------------------ *)
(* strongly sorted lists of integers                                   *)

Notation SS := (StronglySorted Z.le).

Lemma ss_app_iff (l1 l2 : list Z) :
  SS (l1 ++ l2) <-> SS l1 /\ SS l2 /\ (forall x y, In x l1 -> In y l2 -> x <= y).
Proof.
  induction l1 as [|a l1 IH]; cbn [app].
  - split.
    + intros H. repeat split; [constructor | exact H | intros x y []].
    + intros (_ & H & _). exact H.
  - split.
    + intros H. inversion H as [|? ? Hs Hf]; subst.
      apply IH in Hs. destruct Hs as (H1 & H2 & H3).
      rewrite Forall_forall in Hf.
      repeat split.
      * constructor; [exact H1|]. apply Forall_forall. intros x Hx. apply Hf. apply in_or_app. now left.
      * exact H2.
      * intros x y [Hx|Hx] Hy.
        -- subst. apply Hf. apply in_or_app. now right.
        -- now apply H3.
    + intros (H1 & H2 & H3). inversion H1 as [|? ? Hs Hf]; subst.
      constructor.
      * apply IH. repeat split; [exact Hs | exact H2 |]. intros x y Hx Hy. apply H3; [now right | exact Hy].
      * apply Forall_forall. intros x Hx. apply in_app_or in Hx. destruct Hx as [Hx|Hx].
        -- rewrite Forall_forall in Hf. now apply Hf.
        -- apply H3; [now left | exact Hx].
Qed.

Lemma ss_cons_iff (a : Z) (l : list Z) : SS (a :: l) <-> SS l /\ (forall y, In y l -> a <= y).
Proof.
  split.
  - intros H. inversion H as [|? ? Hs Hf]; subst. rewrite Forall_forall in Hf. now split.
  - intros (Hs & Hf). constructor; [exact Hs|]. now apply Forall_forall.
Qed.

Lemma sorted_ss (l : list Z) : Sorted Z.le l <-> SS l.
Proof.
  split.
  - apply Sorted_StronglySorted. intros x y z. apply Z.le_trans.
  - apply StronglySorted_Sorted.
Qed.

Lemma sortedb_ss (l : list Z) : sortedb l = true <-> SS l.
Proof.
  rewrite <- sorted_ss.
  induction l as [|x r IH]; cbn [sortedb].
  - split; [constructor | reflexivity].
  - destruct r as [|y r'].
    + split; [repeat constructor | reflexivity].
    + rewrite andb_true_iff, IH. split.
      * intros (Hxy & Hs). constructor; [exact Hs|]. constructor. lia.
      * intros H. inversion H as [|? ? Hs Hh]; subst. inversion Hh; subst. split; [lia | exact Hs].
Qed.

(* a sorted list is determined by its multiset *)
Lemma ss_perm_eq (l1 : list Z) : forall l2, SS l1 -> SS l2 -> Permutation l1 l2 -> l1 = l2.
Proof.
  induction l1 as [|a l1 IH]; intros l2 H1 H2 Hp.
  - apply Permutation_nil in Hp. now subst.
  - destruct l2 as [|b l2].
    + apply Permutation_sym, Permutation_nil in Hp. discriminate.
    + apply ss_cons_iff in H1. destruct H1 as (Hs1 & Hf1).
      apply ss_cons_iff in H2. destruct H2 as (Hs2 & Hf2).
      assert (Hab : a = b).
      { assert (Ha : In a (b :: l2)) by (eapply Permutation_in; [exact Hp | now left]).
        assert (Hb : In b (a :: l1)) by (eapply Permutation_in; [apply Permutation_sym; exact Hp | now left]).
        destruct Ha as [Ha|Ha]; [now subst|].
        destruct Hb as [Hb|Hb]; [now subst|].
        specialize (Hf1 _ Hb). specialize (Hf2 _ Ha). lia. }
      subst b. f_equal. apply IH; [exact Hs1 | exact Hs2 |].
      eapply Permutation_cons_inv. exact Hp.
Qed.

(* ------------------------------------------------------------------ *)
(* reference sort                                                      *)

Lemma insert_perm x l : Permutation (insert x l) (x :: l).
Proof.
  induction l as [|y r IH]; cbn [insert].
  - apply Permutation_refl.
  - destruct (x <=? y).
    + apply Permutation_refl.
    + eapply perm_trans; [apply perm_skip; exact IH | apply perm_swap].
Qed.

Lemma insert_ss x l : SS l -> SS (insert x l).
Proof.
  induction l as [|y r IH]; cbn [insert]; intros H.
  - repeat constructor.
  - apply ss_cons_iff in H. destruct H as (Hs & Hf).
    destruct (x <=? y) eqn:E.
    + apply ss_cons_iff. split.
      * apply ss_cons_iff. now split.
      * intros z [Hz|Hz]; [lia|]. specialize (Hf _ Hz). lia.
    + apply ss_cons_iff. split; [now apply IH|].
      intros z Hz. eapply Permutation_in in Hz; [|apply insert_perm].
      destruct Hz as [Hz|Hz]; [lia | now apply Hf].
Qed.

Lemma isort_perm l : Permutation (isort l) l.
Proof.
  induction l as [|x r IH]; cbn [isort]; [constructor|].
  eapply perm_trans; [apply insert_perm | now apply perm_skip].
Qed.

Lemma isort_ss l : SS (isort l).
Proof. induction l as [|x r IH]; cbn [isort]; [constructor | now apply insert_ss]. Qed.

Lemma isort_unique l s : SS s -> Permutation s l -> s = isort l.
Proof.
  intros Hs Hp. apply ss_perm_eq; [exact Hs | apply isort_ss |].
  eapply perm_trans; [exact Hp | apply Permutation_sym, isort_perm].
Qed.

Lemma isort_length l : length (isort l) = length l.
Proof. apply Permutation_length, isort_perm. Qed.

Lemma same_multiset_iff a b : same_multiset a b = true <-> Permutation a b.
Proof.
  unfold same_multiset. destruct (list_eq_dec Z.eq_dec (isort a) (isort b)) as [E|E].
  - split; [|reflexivity]. intros _.
    eapply perm_trans; [apply Permutation_sym, isort_perm|]. rewrite E. apply isort_perm.
  - split; [discriminate|]. intros Hp. exfalso. apply E.
    apply isort_unique; [apply isort_ss|]. eapply perm_trans; [apply isort_perm | exact Hp].
Qed.

Lemma rows_ok_iff rows percpu :
  rows_ok rows percpu = true <-> Sorted Z.le rows /\ Permutation rows percpu.
Proof. unfold rows_ok. now rewrite andb_true_iff, sortedb_ss, sorted_ss, same_multiset_iff. Qed.

(* ------------------------------------------------------------------ *)
(* remove_one                                                          *)

Lemma remove_one_perm x l : In x l -> Permutation l (x :: remove_one x l).
Proof.
  induction l as [|y r IH]; cbn [remove_one]; intros H; [destruct H|].
  destruct (y =? x) eqn:E.
  - assert (y = x) by lia. subst. apply Permutation_refl.
  - destruct H as [H|H]; [lia|].
    eapply perm_trans; [apply perm_skip, IH, H | apply perm_swap].
Qed.

Lemma remove_one_middle x p tail :
  Forall (fun y => y < x) p -> remove_one x (p ++ x :: tail) = p ++ tail.
Proof.
  induction p as [|y p IH]; cbn [app remove_one]; intros H.
  - now rewrite Z.eqb_refl.
  - inversion H; subst. destruct (y =? x) eqn:E; [lia|]. f_equal. now apply IH.
Qed.

(* ------------------------------------------------------------------ *)
(* the loops of sort_replace                                           *)

Lemma skip_lt_spec old a p s :
  skip_lt old a = Some (p, s) ->
  a = p ++ s /\ Forall (fun x => x < old) p /\ exists y r, s = y :: r /\ old <= y.
Proof.
  revert p s. induction a as [|x r IH]; cbn [skip_lt]; intros p s H; [discriminate|].
  destruct (x <? old) eqn:E.
  - destruct (skip_lt old r) as [[p' s']|] eqn:Er; [|discriminate].
    inversion H; subst. destruct (IH _ _ eq_refl) as (Ha & Hf & Hs).
    repeat split.
    + cbn [app]. now f_equal.
    + constructor; [lia | exact Hf].
    + exact Hs.
  - inversion H; subst. repeat split; [constructor|]. exists x, r. split; [reflexivity | lia].
Qed.

Lemma skip_lt_app old l1 l2 :
  Forall (fun x => x < old) l1 ->
  skip_lt old (l1 ++ l2) =
  match skip_lt old l2 with Some (p, s) => Some (l1 ++ p, s) | None => None end.
Proof.
  induction l1 as [|x l1 IH]; cbn [app]; intros H.
  - destruct (skip_lt old l2) as [[p s]|]; reflexivity.
  - inversion H; subst. cbn [skip_lt]. destruct (x <? old) eqn:E; [|lia].
    rewrite IH by assumption. destruct (skip_lt old l2) as [[p s]|]; reflexivity.
Qed.

(* on a sorted array that contains old the first loop stops exactly on (the first) old *)
Lemma skip_lt_found old a :
  SS a -> In old a ->
  exists p tail, skip_lt old a = Some (p, old :: tail) /\ a = p ++ old :: tail /\
                 Forall (fun x => x < old) p.
Proof.
  induction a as [|x r IH]; intros Hs Hin; [destruct Hin|].
  apply ss_cons_iff in Hs. destruct Hs as (Hs & Hf).
  cbn [skip_lt]. destruct (x <? old) eqn:E.
  - destruct Hin as [Hin|Hin]; [lia|].
    destruct (IH Hs Hin) as (p & tail & Hk & Ha & Hp).
    exists (x :: p), tail. rewrite Hk. repeat split.
    + cbn [app]. now f_equal.
    + constructor; [lia | exact Hp].
  - assert (x = old).
    { destruct Hin as [Hin|Hin]; [exact Hin|]. specialize (Hf _ Hin). lia. }
    subst x. exists [], r. repeat split. constructor.
Qed.

Lemma shift_left_perm new tail : Permutation (shift_left new tail) (new :: tail).
Proof.
  induction tail as [|y t IH]; cbn [shift_left].
  - apply Permutation_refl.
  - destruct (y <=? new).
    + eapply perm_trans; [apply perm_skip; exact IH | apply perm_swap].
    + apply Permutation_refl.
Qed.

Lemma shift_left_ss new tail : SS tail -> SS (shift_left new tail).
Proof.
  induction tail as [|y t IH]; cbn [shift_left]; intros H.
  - repeat constructor.
  - apply ss_cons_iff in H. destruct H as (Hs & Hf).
    destruct (y <=? new) eqn:E.
    + apply ss_cons_iff. split; [now apply IH|].
      intros z Hz. eapply Permutation_in in Hz; [|apply shift_left_perm].
      destruct Hz as [Hz|Hz]; [lia | now apply Hf].
    + apply ss_cons_iff. split.
      * apply ss_cons_iff. now split.
      * intros z [Hz|Hz]; [lia|]. specialize (Hf _ Hz). lia.
Qed.

Lemma shift_right_spec new rp : forall acc,
  SS (rev rp ++ acc) -> Forall (fun y => new < y) acc ->
  SS (shift_right new rp acc) /\ Permutation (shift_right new rp acc) (new :: rev rp ++ acc).
Proof.
  induction rp as [|y t IH]; cbn [shift_right rev]; intros acc Hs Hacc.
  - cbn [app] in *. split; [|apply Permutation_refl].
    apply ss_cons_iff. split; [exact Hs|]. rewrite Forall_forall in Hacc.
    intros z Hz. specialize (Hacc _ Hz). lia.
  - destruct (y >? new) eqn:E.
    + rewrite <- app_assoc in Hs. cbn [app] in Hs.
      destruct (IH (y :: acc) Hs) as (H1 & H2).
      { constructor; [lia | exact Hacc]. }
      split; [exact H1|]. rewrite <- app_assoc. cbn [app]. exact H2.
    + split.
      * apply ss_app_iff in Hs. destruct Hs as (Hp & Ha & Hc).
        apply ss_app_iff. repeat split.
        -- exact Hp.
        -- apply ss_cons_iff. split; [exact Ha|]. rewrite Forall_forall in Hacc.
           intros z Hz. specialize (Hacc _ Hz). lia.
        -- intros a b Ha' Hb.
           assert (Hay : a <= y).
           { apply ss_app_iff in Hp. destruct Hp as (_ & _ & Hc').
             apply in_app_or in Ha'. destruct Ha' as [Ha'|[Ha'|[]]]; [|lia].
             apply Hc'; [exact Ha' | now left]. }
           destruct Hb as [Hb|Hb]; [lia|].
           rewrite Forall_forall in Hacc. specialize (Hacc _ Hb). lia.
      * apply Permutation_sym, Permutation_middle.
Qed.

(* ------------------------------------------------------------------ *)
(* sort_replace, without the jump                                      *)

Lemma replace_nojump_ok a old new :
  SS a -> In old a -> old <> new ->
  exists a', sort_replace_nojump a old new = SR_ok a' /\ SS a' /\
             Permutation a' (new :: remove_one old a).
Proof.
  intros Hs Hin Hne.
  destruct (skip_lt_found old a Hs Hin) as (p & tail & Hk & Ha & Hp).
  unfold sort_replace_nojump.
  destruct (old =? new) eqn:Eeq; [lia|].
  destruct a as [|a0 ar] eqn:Ea; [destruct Hin|]. rewrite <- Ea in *. clear Ea a0 ar.
  assert (Hrm : remove_one old a = p ++ tail) by (rewrite Ha; now apply remove_one_middle).
  assert (Hsa := Hs). rewrite Ha in Hsa. apply ss_app_iff in Hsa. destruct Hsa as (Hsp & Hst & Hc).
  apply ss_cons_iff in Hst. destruct Hst as (Hst & Hft).
  rewrite Forall_forall in Hp.
  destruct (old <? new) eqn:Elt.
  - unfold sort_replace_from. cbn [skipn firstn app]. rewrite Hk.
    eexists. split; [reflexivity|]. split.
    + apply ss_app_iff. repeat split; [exact Hsp | now apply shift_left_ss |].
      intros x y Hx Hy. eapply Permutation_in in Hy; [|apply shift_left_perm].
      specialize (Hp _ Hx). destruct Hy as [Hy|Hy]; [lia|]. specialize (Hft _ Hy). lia.
    + rewrite Hrm. eapply perm_trans; [apply Permutation_app_head, shift_left_perm|].
      apply Permutation_sym, Permutation_middle.
  - rewrite Hk.
    destruct (shift_right_spec new (rev p) []) as (H1 & H2).
    { rewrite rev_involutive, app_nil_r. exact Hsp. }
    { constructor. }
    rewrite rev_involutive, app_nil_r in H2.
    eexists. split; [reflexivity|]. split.
    + apply ss_app_iff. repeat split; [exact H1 | exact Hst |].
      intros x y Hx Hy. eapply Permutation_in in Hx; [|exact H2].
      specialize (Hft _ Hy). destruct Hx as [Hx|Hx]; [lia|]. specialize (Hp _ Hx). lia.
    + rewrite Hrm. eapply perm_trans; [apply Permutation_app_tail; exact H2|]. apply Permutation_refl.
Qed.

(* ------------------------------------------------------------------ *)
(* the n/2 jump is harmless on a sorted array                          *)

Lemma firstn_le_nth (a : list Z) : forall m,
  SS a -> (m < length a)%nat -> Forall (fun x => x <= nth m a 0) (firstn m a).
Proof.
  induction a as [|x r IH]; intros m Hs Hm; [cbn in Hm; lia|].
  destruct m as [|m]; [constructor|].
  apply ss_cons_iff in Hs. destruct Hs as (Hs & Hf).
  cbn [firstn nth]. constructor.
  - apply Hf. apply nth_In. cbn [length] in Hm. lia.
  - apply IH; [exact Hs|]. cbn [length] in Hm. lia.
Qed.

Lemma replace_from_jump a old new m :
  SS a -> (m < length a)%nat -> nth m a 0 < old ->
  sort_replace_from m a old new = sort_replace_from 0 a old new.
Proof.
  intros Hs Hm Hlt. unfold sort_replace_from. cbn [skipn firstn app].
  replace (skip_lt old a) with (skip_lt old (firstn m a ++ skipn m a)) by now rewrite firstn_skipn.
  rewrite skip_lt_app.
  2:{ eapply Forall_impl; [|apply firstn_le_nth; eassumption]. cbn. intros x Hx. lia. }
  destruct (skip_lt old (skipn m a)) as [[p s]|]; [|reflexivity].
  destruct s as [|y tail]; [reflexivity|]. now rewrite app_assoc.
Qed.

Lemma jump_harmless a old new : SS a -> sort_replace a old new = sort_replace_nojump a old new.
Proof.
  intros Hs. unfold sort_replace, sort_replace_nojump.
  destruct (old =? new); [reflexivity|].
  destruct a as [|a0 ar] eqn:Ea; [reflexivity|]. rewrite <- Ea in *.
  destruct (old <? new); [|reflexivity].
  unfold start_index. destruct (nth (length a / 2) a 0 <? old) eqn:E; [|reflexivity].
  apply replace_from_jump; [exact Hs | | lia].
  assert (0 < length a)%nat by (rewrite Ea; cbn; lia).
  apply Nat.div_lt; lia.
Qed.

Theorem replace_ok a old new :
  Sorted Z.le a -> In old a -> old <> new ->
  exists a', sort_replace a old new = SR_ok a' /\ Sorted Z.le a' /\
             Permutation a' (new :: remove_one old a).
Proof.
  intros Hs Hin Hne. apply sorted_ss in Hs.
  rewrite jump_harmless by exact Hs.
  destruct (replace_nojump_ok a old new Hs Hin Hne) as (a' & H1 & H2 & H3).
  exists a'. repeat split; [exact H1 | now apply sorted_ss | exact H3].
Qed.

Lemma replace_die a old : sort_replace a old old = SR_die.
Proof. unfold sort_replace. now rewrite Z.eqb_refl. Qed.

(* when old is missing and nothing is >= old the C loop runs off the array *)
Lemma replace_oob a old new :
  old <> new -> Forall (fun x => x < old) a -> sort_replace a old new = SR_oob.
Proof.
  intros Hne Hall. unfold sort_replace.
  destruct (old =? new) eqn:E; [lia|].
  destruct a as [|a0 ar] eqn:Ea; [reflexivity|]. rewrite <- Ea in *. clear Ea.
  assert (Hnone : forall l, Forall (fun x => x < old) l -> skip_lt old l = None).
  { induction l as [|x r IH]; intros H; [reflexivity|]. inversion H; subst. cbn [skip_lt].
    destruct (x <? old) eqn:E'; [|lia]. now rewrite IH. }
  destruct (old <? new).
  - unfold sort_replace_from. rewrite Hnone; [reflexivity|].
    rewrite <- (firstn_skipn (start_index a old) a) in Hall. apply Forall_app in Hall. tauto.
  - now rewrite Hnone.
Qed.

(* ------------------------------------------------------------------ *)
(* the sort module                                                     *)

Lemma value_eqb_eq a b : value_eqb a b = true <-> a = b.
Proof.
  destruct a, b; cbn [value_eqb]; split; intros H; try discriminate; try reflexivity.
  - f_equal. lia.
  - inversion H. lia.
  - f_equal. lia.
  - inversion H. lia.
Qed.

Lemma value_eqb_refl a : value_eqb a a = true.
Proof. now apply value_eqb_eq. Qed.

Lemma upd_length {A} (l : list A) : forall i x, length (upd i x l) = length l.
Proof. induction l as [|y r IH]; intros [|i] x; cbn [upd length]; try reflexivity. now rewrite IH. Qed.

Lemma upd_same (l : list Z) : forall i, nth i l 0 = nth i l 0 -> upd i (nth i l 0) l = l.
Proof.
  induction l as [|y r IH]; intros [|i] _; cbn [upd nth]; try reflexivity. f_equal. now apply IH.
Qed.

Lemma upd_map {A B} (f : A -> B) (l : list A) : forall i x, map f (upd i x l) = upd i (f x) (map f l).
Proof. induction l as [|y r IH]; intros [|i] x; cbn [upd map]; try reflexivity. now rewrite IH. Qed.

Lemma upd_perm (l : list Z) : forall i x,
  (i < length l)%nat -> Permutation (upd i x l) (x :: remove_one (nth i l 0) l).
Proof.
  induction l as [|y r IH]; intros i x Hi; [cbn in Hi; lia|].
  destruct i as [|k]; cbn [upd nth remove_one].
  - rewrite Z.eqb_refl. apply Permutation_refl.
  - cbn [length] in Hi. assert (Hk : (k < length r)%nat) by lia.
    specialize (IH k x Hk).
    destruct (y =? nth k r 0) eqn:E.
    + assert (Hy : y = nth k r 0) by lia.
      assert (Hr : Permutation r (nth k r 0 :: remove_one (nth k r 0) r)).
      { apply remove_one_perm. now apply nth_In. }
      eapply perm_trans; [apply perm_skip; exact IH|].
      eapply perm_trans; [apply perm_swap|]. apply perm_skip.
      rewrite Hy. apply Permutation_sym. exact Hr.
    + eapply perm_trans; [apply perm_skip; exact IH | apply perm_swap].
Qed.

Lemma remove_one_perm_compat x l l' :
  In x l -> Permutation l l' -> Permutation (remove_one x l) (remove_one x l').
Proof.
  intros Hin Hp. apply (Permutation_cons_inv (a := x)).
  eapply perm_trans; [apply Permutation_sym, remove_one_perm, Hin|].
  eapply perm_trans; [exact Hp|]. apply remove_one_perm. eapply Permutation_in; eassumption.
Qed.

(* incremental update = sorting again *)
Lemma replace_isort vs i new :
  (i < length vs)%nat -> nth i vs 0 <> new ->
  sort_replace (isort vs) (nth i vs 0) new = SR_ok (isort (upd i new vs)).
Proof.
  intros Hi Hne.
  assert (Hin : In (nth i vs 0) vs) by now apply nth_In.
  assert (Hin' : In (nth i vs 0) (isort vs)).
  { eapply Permutation_in; [apply Permutation_sym, isort_perm | exact Hin]. }
  destruct (replace_ok (isort vs) (nth i vs 0) new) as (a' & H1 & H2 & H3).
  { apply sorted_ss, isort_ss. }
  { exact Hin'. }
  { exact Hne. }
  rewrite H1. f_equal. apply isort_unique; [now apply sorted_ss|].
  eapply perm_trans; [exact H3|].
  eapply perm_trans; [|apply Permutation_sym, upd_perm, Hi].
  apply perm_skip. apply remove_one_perm_compat; [exact Hin' | apply isort_perm].
Qed.

Lemma write_outputs_spec s : forall k outs,
  length outs = length s ->
  write_outputs k outs s = (map VInt s, diff_rows k outs (map VInt s)).
Proof.
  induction s as [|x s IH]; intros k [|o outs] Hl; cbn in Hl; try lia; [reflexivity|].
  cbn [write_outputs map diff_rows]. rewrite IH by lia.
  destruct (value_eqb o (VInt x)) eqn:E.
  - apply value_eqb_eq in E. now subst.
  - reflexivity.
Qed.

Lemma diff_rows_same a : forall k, diff_rows k a a = [].
Proof. induction a as [|x a IH]; intros k; cbn [diff_rows]; [reflexivity|]. now rewrite value_eqb_refl, IH. Qed.

(* the rows listed by diff_rows are exactly those whose value differs *)
Lemma diff_rows_rows (a : list value) : forall b j k,
  length a = length b ->
  (In k (map fst (diff_rows j a b)) <->
   (j <= k)%nat /\ (k - j < length a)%nat /\ nth (k - j) a VNull <> nth (k - j) b VNull).
Proof.
  induction a as [|x a IH]; intros [|y b] j k Hl; cbn in Hl; try lia.
  - cbn. split; [intros [] | intros (_ & H & _); lia].
  - cbn [diff_rows length].
    assert (Htl : In k (map fst (diff_rows (S j) a b)) <->
                  (S j <= k)%nat /\ (k - S j < length a)%nat /\
                  nth (k - S j) a VNull <> nth (k - S j) b VNull) by (apply IH; lia).
    destruct (value_eqb x y) eqn:E.
    + rewrite Htl. apply value_eqb_eq in E. subst y. split.
      * intros (H1 & H2 & H3). repeat split; try lia.
        replace (k - j)%nat with (S (k - S j)) by lia. exact H3.
      * intros (H1 & H2 & H3). destruct (Nat.eq_dec k j) as [->|Hkj].
        -- rewrite Nat.sub_diag in H3. cbn in H3. congruence.
        -- repeat split; try lia. replace (k - j)%nat with (S (k - S j)) in H3 by lia. exact H3.
    + cbn [map fst In]. rewrite Htl. split.
      * intros [Hk|(H1 & H2 & H3)].
        -- subst k. rewrite Nat.sub_diag. repeat split; try lia. cbn. intros ->.
           rewrite value_eqb_refl in E. discriminate.
        -- repeat split; try lia. replace (k - j)%nat with (S (k - S j)) by lia. exact H3.
      * intros (H1 & H2 & H3). destruct (Nat.eq_dec k j) as [->|Hkj]; [now left|].
        right. repeat split; try lia. replace (k - j)%nat with (S (k - S j)) in H3 by lia. exact H3.
Qed.

Lemma isort_repeat0 n : isort (repeat 0 n) = repeat 0 n.
Proof.
  induction n as [|n IH]; [reflexivity|]. cbn [repeat isort]. rewrite IH.
  destruct n; reflexivity.
Qed.

(* state invariant of struct sort *)
Definition minv (n : nat) (st : sortmod) : Prop :=
  length (m_values st) = n /\
  m_sorted st = isort (m_values st) /\
  (if m_copied st then m_outputs st = map VInt (m_sorted st)
   else m_outputs st = repeat VNull n /\ m_values st = repeat 0 n).

Lemma minv_init n : minv n (sm_init n).
Proof.
  unfold minv, sm_init; cbn. repeat split.
  - apply repeat_length.
  - now rewrite isort_repeat0.
Qed.

Lemma map_to_i64_vint l : map to_i64 (map VInt l) = l.
Proof. rewrite map_map. cbn [to_i64]. apply map_id. Qed.

Lemma map_repeat {A B} (f : A -> B) x n : map f (repeat x n) = repeat (f x) n.
Proof. induction n; cbn; [reflexivity | now f_equal]. Qed.

Lemma minv_rows n st : minv n st -> rows_of st = m_sorted st.
Proof.
  unfold minv, rows_of. intros (Hl & Hs & Ho).
  destruct (m_copied st).
  - rewrite Ho. apply map_to_i64_vint.
  - destruct Ho as (Ho & Hv). rewrite Ho, Hs, Hv, isort_repeat0. apply map_repeat.
Qed.

Lemma minv_outputs_length n st : minv n st -> length (m_outputs st) = n.
Proof.
  unfold minv. intros (Hl & Hs & Ho). destruct (m_copied st).
  - rewrite Ho, map_length, Hs, isort_length. exact Hl.
  - destruct Ho as (Ho & _). rewrite Ho. apply repeat_length.
Qed.

(* one callback: never fails for an existing input; keeps the invariant; the writes are exactly
   the rows whose value differs (diff_rows, see diff_rows_rows) *)
Lemma step_ok n st i v :
  minv n st -> (i < n)%nat ->
  exists st' ws, input_changed st i v = M_ok st' ws /\ minv n st' /\
    m_values st' = upd i (to_i64 v) (m_values st) /\
    m_sorted st' = isort (m_values st') /\
    ws = diff_rows 0 (m_outputs st) (m_outputs st').
Proof.
  intros Hinv Hi. assert (Hol := minv_outputs_length _ _ Hinv).
  destruct Hinv as (Hl & Hs & Ho).
  unfold input_changed. destruct (Nat.leb (length (m_values st)) i) eqn:Eb.
  { apply Nat.leb_le in Eb. lia. }
  destruct (nth i (m_values st) 0 =? to_i64 v) eqn:Eq.
  - exists st, []. assert (Hn : nth i (m_values st) 0 = to_i64 v) by lia.
    repeat split; try assumption.
    + rewrite <- Hn. symmetry. now apply upd_same.
    + now rewrite diff_rows_same.
  - assert (Hne : nth i (m_values st) 0 <> to_i64 v) by lia.
    set (values' := upd i (to_i64 v) (m_values st)).
    assert (Hr : (if m_copied st then sort_replace (m_sorted st) (nth i (m_values st) 0) (to_i64 v)
                  else SR_ok (isort values')) = SR_ok (isort values')).
    { destruct (m_copied st); [|reflexivity]. rewrite Hs. apply replace_isort; [lia | exact Hne]. }
    rewrite Hr.
    rewrite write_outputs_spec.
    2:{ rewrite isort_length. unfold values'. rewrite upd_length. lia. }
    eexists. eexists. split; [reflexivity|]. cbn [m_values m_sorted m_copied m_outputs].
    repeat split.
    cbn [m_values]. unfold values'. rewrite upd_length. exact Hl.
Qed.

(* the whole history *)
Lemma run_ok n : forall h st ins,
  minv n st -> length ins = n -> m_values st = map to_i64 ins ->
  Forall (fun iv => (fst iv < n)%nat) h ->
  exists st', sm_run st h = Some st' /\ minv n st' /\
              m_values st' = map to_i64 (inputs_after ins h).
Proof.
  induction h as [|[i v] h IH]; intros st ins Hinv Hl Hv Hall; cbn [sm_run inputs_after].
  - exists st. split; [reflexivity|]. split; assumption.
  - apply Forall_cons_iff in Hall. destruct Hall as (Hi & Hrest). cbn [fst] in Hi.
    destruct (step_ok n st i v Hinv Hi) as (st1 & ws & Hstep & Hinv1 & Hv1 & _ & _).
    rewrite Hstep. apply IH; try assumption.
    + now rewrite upd_length.
    + rewrite Hv1, Hv. symmetry. apply upd_map.
Qed.

Theorem module_ok n h :
  Forall (fun iv => (fst iv < n)%nat) h ->
  exists st, sm_run (sm_init n) h = Some st /\
    m_values st = map to_i64 (inputs_after (repeat VNull n) h) /\
    m_sorted st = isort (m_values st) /\
    rows_of st = m_sorted st.
Proof.
  intros Hall.
  destruct (run_ok n h (sm_init n) (repeat VNull n)) as (st & Hr & Hinv & Hv).
  - apply minv_init.
  - apply repeat_length.
  - cbn. now rewrite map_repeat.
  - exact Hall.
  - exists st. repeat split; try assumption.
    + now destruct Hinv as (_ & Hs & _).
    + now apply minv_rows with (n := n).
Qed.

(* ... and every single callback along the way writes exactly the rows that differ *)
Theorem module_step_writes n h i v :
  Forall (fun iv => (fst iv < n)%nat) h -> (i < n)%nat ->
  exists st st' ws, sm_run (sm_init n) h = Some st /\ input_changed st i v = M_ok st' ws /\
    ws = diff_rows 0 (m_outputs st) (m_outputs st') /\
    length (m_outputs st) = length (m_outputs st') /\
    rows_of st' = isort (upd i (to_i64 v) (m_values st)).
Proof.
  intros Hall Hi.
  destruct (run_ok n h (sm_init n) (repeat VNull n)) as (st & Hr & Hinv & Hv).
  - apply minv_init.
  - apply repeat_length.
  - cbn. now rewrite map_repeat.
  - exact Hall.
  - destruct (step_ok n st i v Hinv Hi) as (st' & ws & Hstep & Hinv' & Hv' & Hs' & Hws).
    exists st, st', ws. repeat split; try assumption.
    + rewrite (minv_outputs_length _ _ Hinv), (minv_outputs_length _ _ Hinv'). reflexivity.
    + rewrite (minv_rows _ _ Hinv'), Hs', Hv'. reflexivity.
Qed.

Theorem rows_ok_always n h :
  Forall (fun iv => (fst iv < n)%nat) h ->
  exists st, sm_run (sm_init n) h = Some st /\
    Sorted Z.le (rows_of st) /\
    Permutation (rows_of st) (map to_i64 (inputs_after (repeat VNull n) h)).
Proof.
  intros Hall. destruct (module_ok n h Hall) as (st & Hr & Hv & Hs & Hrows).
  exists st. split; [exact Hr|]. rewrite Hrows, Hs. split.
  - apply sorted_ss, isort_ss.
  - rewrite <- Hv. apply isort_perm.
Qed.

(* ------------------------------------------------------------------ *)
(* the breakdown wiring of one CPU                                     *)

Section Wiring.
  Variables BODY UNKNOWN PROG : Z.

  Notation select_tr := (select_tr BODY).
  Notation select_idle := (select_idle PROG).
  Notation cpu_event fx := (cpu_event fx BODY UNKNOWN PROG).
  Notation bd_value := (bd_value BODY UNKNOWN PROG).

  (* what mux0 / mux1 show when they are in step with their inputs *)
  Definition tr_of (ss tt : value) : value :=
    match select_tr ss tt with None => VInt UNKNOWN | Some false => ss | Some true => tt end.
  Definition tri_of (tr idle : value) : value :=
    match select_idle idle with Some false => tr | _ => idle end.

  Lemma bd_value_tri tt ss idle : bd_value tt ss idle = tri_of (tr_of ss tt) idle.
  Proof.
    unfold SortDefs.bd_value, tri_of, tr_of, SortDefs.select_idle, SortDefs.select_tr, progressing, in_task_body.
    destruct idle as [|i|]; try reflexivity.
    destruct (i =? PROG); [|reflexivity].
    destruct ss as [|s|]; try reflexivity.
    destruct (s =? BODY); cbn [andb]; [|reflexivity]. destruct tt; reflexivity.
  Qed.

  (* invariant between two events: the sort module holds tri; either nothing ever reached this
     CPU, or mux0 is in step with (ss, tt) and mux1 either never ran or is in step with (tr, idle) *)
  Definition winv (st : wires) : Prop :=
    w_sval st = to_i64 (w_tri st) /\
    ((w_ss st = VNull /\ w_tt st = VNull /\ w_idle st = VNull /\ w_tr st = VNull /\ w_tri st = VNull /\
      w_sel0 st = None /\ w_sel1 st = None)
     \/
     (w_sel0 st = select_tr (w_ss st) (w_tt st) /\ w_tr st = tr_of (w_ss st) (w_tt st) /\
      ((w_idle st = VNull /\ w_tri st = VNull /\ w_sel1 st = None)
       \/
       (w_sel1 st = select_idle (w_idle st) /\ w_tri st = tri_of (w_tr st) (w_idle st))))).

  Lemma winv_init : winv w_init.
  Proof. unfold winv, w_init; cbn. split; [reflexivity|]. left. repeat split. Qed.

  (* under the invariant the sort module holds the CPU's breakdown value *)
  Lemma winv_value st : winv st -> w_sval st = bd_of BODY UNKNOWN PROG st.
  Proof.
    unfold winv, bd_of. intros (Hs & [H|H]).
    - destruct H as (H1 & H2 & H3 & H4 & H5 & _). rewrite Hs, H5, H1, H2, H3. reflexivity.
    - destruct H as (H0 & Htr & [H1|H1]).
      + destruct H1 as (Hi & Ht & _). rewrite Hs, Ht, Hi. unfold SortDefs.bd_value. reflexivity.
      + destruct H1 as (_ & Ht). rewrite Hs, Ht, Htr. now rewrite bd_value_tri.
  Qed.

  Lemma propagate_step fx f k dirty st :
    propagate fx BODY UNKNOWN PROG (S f) k dirty st =
    match nth_error dirty k with
    | None => Some st
    | Some c => let (st', ws) := run_cbs fx BODY UNKNOWN PROG st c in
                propagate fx BODY UNKNOWN PROG f (S k) (add_dirty ws dirty) st'
    end.
  Proof. reflexivity. Qed.

  Lemma select_idle_some idle : select_idle idle <> None.
  Proof.
    unfold SortDefs.select_idle. destruct idle as [|i|]; try discriminate.
    destruct (i =? PROG); discriminate.
  Qed.

  Lemma sel_eqb_eq a b : sel_eqb a b = true -> a = b.
  Proof. destruct a as [[|]|], b as [[|]|]; cbn; intros H; try discriminate; reflexivity. Qed.

  (* symbolic execution of one propagation: the control flow depends on the channel values
     only through select_tr / select_idle, which are case-split beforehand *)
  Ltac red1 := cbn -[propagate SortDefs.select_tr SortDefs.select_idle].
  Ltac rw :=
    repeat match goal with
           | H : SortDefs.select_tr _ _ _ = _ |- _ => rewrite H
           | H : SortDefs.select_idle _ _ = _ |- _ => rewrite H
           end.
  Ltac step := rewrite propagate_step; red1; rw; red1.
  Ltac fin :=
    eexists; split; [reflexivity|];
    split; [|repeat split; reflexivity];
    unfold winv, tr_of, tri_of; red1; rw; red1;
    split; [reflexivity|];
    right; split; [reflexivity || congruence|]; split; [reflexivity || congruence|];
    first [ left; repeat split; (reflexivity || congruence) | right; split; (reflexivity || congruence) ].
  Ltac contra :=
    try discriminate;
    try match goal with H : SortDefs.select_idle _ ?i = None |- _ => exfalso; exact (select_idle_some i H) end;
    try match goal with H : (if mux0_unevaluated _ then _ else _) = true |- _ => cbn in H; discriminate end;
    try congruence.
  (* ss tt idle: the channel values before the event; nss ntt nidle: after the writes *)
  Ltac go ss tt idle nss ntt nidle :=
    unfold SortDefs.cpu_event, written; red1;
    destruct (select_tr ss tt) as [[|]|] eqn:?Eo0;
    destruct (select_idle idle) as [[|]|] eqn:?Eo1;
    destruct (select_tr nss ntt) as [[|]|] eqn:?En0;
    destruct (select_idle nidle) as [[|]|] eqn:?En1;
    contra;
    repeat match goal with H : _ /\ _ |- _ => destruct H end; subst;
    contra;
    repeat step; fin.
  Ltac cases Hinv ss tt idle nss ntt nidle :=
    destruct Hinv as [Hinv | (?H0a & ?H0b & [Hinv | Hinv])];
    [ go ss tt idle nss ntt nidle | go ss tt idle nss ntt nidle | go ss tt idle nss ntt nidle ].

  (* One admissible event: the propagation terminates, re-establishes the invariant, and leaves
     the three CPU channels at the values written.  Both versions of the code (for fx = true
     batch_ok has no condition on select_tr). *)
  Lemma wiring_step fx st b :
    winv st -> batch_ok fx BODY st b = true ->
    exists st', cpu_event fx st b = Some st' /\ winv st' /\ cin_values st' = cin_values (written st b).
  Proof.
    intros Hinv Hok.
    destruct st as [ss tt idle tr tri s0 s1 sv].
    unfold winv, tr_of, tri_of in Hinv. cbn [w_ss w_tt w_idle w_tr w_tri w_sel0 w_sel1 w_sval] in Hinv.
    destruct Hinv as (Hsv & Hinv). subst sv.
    unfold batch_ok in Hok.
    apply andb_true_iff in Hok. destruct Hok as (Hok & Hc3).
    apply andb_true_iff in Hok. destruct Hok as (Hok & Hc2).
    apply andb_true_iff in Hok. destruct Hok as (Hc0 & Hc1).
    unfold cin_values.
    destruct b as [|[c1 v1] [|[c2 v2] [|[c3 v3] [|[c4 v4] r]]]].
    - (* no write *)
      cbn. eexists. split; [reflexivity|]. split; [|reflexivity].
      unfold winv, tr_of, tri_of. cbn. split; [reflexivity | assumption].
    - destruct c1; cbn -[SortDefs.select_tr] in Hc0, Hc1; try discriminate;
        destruct fx; cbn -[SortDefs.select_tr] in Hc3; try discriminate; try apply sel_eqb_eq in Hc3.
      (* each case for the repaired code, then for the code before the repair *)
      1,2: (* SS *) cases Hinv ss tt idle v1 tt idle.
      1,2: (* TT *) cases Hinv ss tt idle ss v1 idle.
      1,2: (* IDLE *) cases Hinv ss tt idle ss tt v1.
    - destruct c1, c2; cbn -[SortDefs.select_tr] in Hc0, Hc1; try discriminate;
        destruct fx; cbn -[SortDefs.select_tr] in Hc3; try discriminate; try apply sel_eqb_eq in Hc3.
      1,2: (* SS TT *) cases Hinv ss tt idle v1 v2 idle.
      1,2: (* SS IDLE *) cases Hinv ss tt idle v1 tt v2.
      1,2: (* TT SS *) cases Hinv ss tt idle v2 v1 idle.
      1,2: (* TT IDLE *) cases Hinv ss tt idle ss v1 v2.
    - destruct c1, c2, c3; cbn -[SortDefs.select_tr] in Hc0, Hc1; try discriminate;
        destruct fx; cbn -[SortDefs.select_tr] in Hc3; try discriminate; try apply sel_eqb_eq in Hc3.
      1,2: (* SS TT IDLE *) cases Hinv ss tt idle v1 v2 v3.
      1,2: (* TT SS IDLE *) cases Hinv ss tt idle v2 v1 v3.
    - (* four writes to three channels: some channel is written twice *)
      exfalso. destruct c1, c2, c3, c4; cbn in Hc0; rewrite ?andb_false_r in Hc0; discriminate.
  Qed.

  (* whole histories of one CPU *)
  Lemma wiring_run fx h : forall st,
    winv st -> history_ok fx BODY UNKNOWN PROG st h = true ->
    exists st', cpu_run fx BODY UNKNOWN PROG st h = Some st' /\ winv st' /\
                cin_values st' = cin_values (fold_left written h st).
  Proof.
    induction h as [|b h IH]; intros st Hinv Hok; cbn [history_ok cpu_run fold_left] in *.
    - exists st. split; [reflexivity|]. split; [exact Hinv | reflexivity].
    - apply andb_true_iff in Hok. destruct Hok as (Hb & Hrest).
      destruct (wiring_step fx st b Hinv Hb) as (st1 & Hev & Hinv1 & Hvals).
      rewrite Hev in *. destruct (IH st1 Hinv1 Hrest) as (st' & Hrun & Hinv' & Hv').
      exists st'. split; [exact Hrun|]. split; [exact Hinv'|].
      rewrite Hv'. clear - Hvals.
      (* the CPU channels evolve by the writes alone *)
      revert st1 Hvals. generalize (written st b). induction h as [|b' h IH]; intros w st1 Hv; cbn [fold_left].
      + exact Hv.
      + apply IH. unfold cin_values, written in *.
        inversion Hv as [[H1 H2 H3]]. clear Hv.
        assert (Hgen : forall b d d' (x y : wires), w_ss x = w_ss y -> w_tt x = w_tt y -> w_idle x = w_idle y ->
                   let x' := fst (apply_writes b x d) in let y' := fst (apply_writes b y d') in
                   w_ss x' = w_ss y' /\ w_tt x' = w_tt y' /\ w_idle x' = w_idle y').
        { clear. induction b as [|[c v] b IHb]; intros d d' x y Ha Hb Hc; cbn [apply_writes fst].
          - now repeat split.
          - apply IHb; destruct c; cbn; first [assumption | reflexivity]. }
        destruct (Hgen b' [] [] st1 w H1 H2 H3) as (G1 & G2 & G3). cbn in G1, G2, G3. now rewrite G1, G2, G3.
  Qed.

  (* for both versions of the code; with fx = true history_ok only asks for the batches the
     emulator can produce (Props: C20_wiring), with fx = false also for the select_tr condition
     (Props: C20_wiring_old_partial) *)
  Theorem wiring_any fx h :
    history_ok fx BODY UNKNOWN PROG w_init h = true ->
    exists st', cpu_run fx BODY UNKNOWN PROG w_init h = Some st' /\
                cin_values st' = cin_values (fold_left written h w_init) /\
                w_sval st' = bd_of BODY UNKNOWN PROG st'.
  Proof.
    intros Hok. destruct (wiring_run fx h w_init winv_init Hok) as (st' & Hrun & Hinv & Hv).
    exists st'. split; [exact Hrun|]. split; [exact Hv|]. now apply winv_value.
  Qed.

  (* ---------------------------------------------------------------- *)
  (* all CPUs + sort: the rows of the breakdown trace                  *)

  Definition sysinv (n : nat) (s : system) : Prop :=
    length (s_cpus s) = n /\ Forall winv (s_cpus s) /\ minv n (s_sort s) /\
    m_values (s_sort s) = map w_sval (s_cpus s).

  Lemma sysinv_init n : sysinv n (sys_init n).
  Proof.
    unfold sysinv, sys_init; cbn [s_cpus s_sort].
    split; [apply repeat_length|]. split.
    { apply Forall_forall. intros w Hw. apply repeat_spec in Hw. subst. apply winv_init. }
    split; [apply minv_init|]. cbn. now rewrite map_repeat.
  Qed.

  Lemma Forall_upd {A} (P : A -> Prop) (l : list A) : forall i x, Forall P l -> P x -> Forall P (upd i x l).
  Proof.
    induction l as [|y r IH]; intros [|i] x Hl Hx; cbn [upd]; try constructor; inversion Hl; subst; auto.
  Qed.

  Lemma sys_run_ok fx n h : forall s,
    sysinv n s -> sys_history_ok fx BODY UNKNOWN PROG s h = true ->
    exists s', sys_run fx BODY UNKNOWN PROG s h = Some s' /\ sysinv n s'.
  Proof.
    induction h as [|[i b] h IH]; intros s Hinv Hok; cbn [sys_history_ok sys_run fst snd] in *.
    - exists s. now split.
    - apply andb_true_iff in Hok. destruct Hok as (Hb & Hrest).
      destruct Hinv as (Hlen & Hall & Hm & Hvals).
      unfold sys_step in *.
      destruct (nth_error (s_cpus s) i) as [w|] eqn:En; [|discriminate].
      assert (Hi : (i < n)%nat). { rewrite <- Hlen. apply nth_error_Some. congruence. }
      assert (Hw : winv w). { rewrite Forall_forall in Hall. apply Hall. eapply nth_error_In; eassumption. }
      destruct (wiring_step fx w b Hw Hb) as (w' & Hev & Hw' & _).
      rewrite Hev in *.
      destruct (step_ok n (s_sort s) i (VInt (w_sval w')) Hm Hi) as (sm' & ws & Hstep & Hm' & Hv' & _).
      rewrite Hstep in *.
      apply IH; [|exact Hrest].
      unfold sysinv; cbn [s_cpus s_sort].
      split; [now rewrite upd_length|]. split; [now apply Forall_upd|]. split; [exact Hm'|].
      rewrite Hv', Hvals. cbn [to_i64]. symmetry. apply upd_map.
  Qed.

  Theorem system_rows_any fx n h :
    sys_history_ok fx BODY UNKNOWN PROG (sys_init n) h = true ->
    exists s, sys_run fx BODY UNKNOWN PROG (sys_init n) h = Some s /\
      length (s_cpus s) = n /\
      Sorted Z.le (rows_of (s_sort s)) /\
      Permutation (rows_of (s_sort s)) (map (bd_of BODY UNKNOWN PROG) (s_cpus s)).
  Proof.
    intros Hok. destruct (sys_run_ok fx n h (sys_init n) (sysinv_init n) Hok) as (s & Hrun & Hinv).
    exists s. split; [exact Hrun|]. destruct Hinv as (Hlen & Hall & Hm & Hvals).
    split; [exact Hlen|].
    rewrite (minv_rows _ _ Hm). destruct Hm as (_ & Hs & _). rewrite Hs. split.
    - apply sorted_ss, isort_ss.
    - eapply perm_trans; [apply isort_perm|]. rewrite Hvals.
      assert (E : map w_sval (s_cpus s) = map (bd_of BODY UNKNOWN PROG) (s_cpus s)).
      { apply map_ext_in. intros w Hw. rewrite Forall_forall in Hall. now apply winv_value, Hall. }
      rewrite E. apply Permutation_refl.
  Qed.

  (* the repaired code: every history of batches the emulator can produce *)
  Theorem wiring h :
    history_ok true BODY UNKNOWN PROG w_init h = true ->
    exists st', cpu_run true BODY UNKNOWN PROG w_init h = Some st' /\
                cin_values st' = cin_values (fold_left written h w_init) /\
                w_sval st' = bd_of BODY UNKNOWN PROG st'.
  Proof. exact (wiring_any true h). Qed.

  Theorem system_rows n h :
    sys_history_ok true BODY UNKNOWN PROG (sys_init n) h = true ->
    exists s, sys_run true BODY UNKNOWN PROG (sys_init n) h = Some s /\
      length (s_cpus s) = n /\
      Sorted Z.le (rows_of (s_sort s)) /\
      Permutation (rows_of (s_sort s)) (map (bd_of BODY UNKNOWN PROG) (s_cpus s)).
  Proof. exact (system_rows_any true n h). Qed.

  (* the code before the repair: only histories that also keep select_tr's choice on
     task-type-only batches *)
  Theorem wiring_old_partial h :
    history_ok false BODY UNKNOWN PROG w_init h = true ->
    exists st', cpu_run false BODY UNKNOWN PROG w_init h = Some st' /\
                cin_values st' = cin_values (fold_left written h w_init) /\
                w_sval st' = bd_of BODY UNKNOWN PROG st'.
  Proof. exact (wiring_any false h). Qed.

  (* the batches the emulator can produce, spelled out: for the repaired code batch_ok is
     nothing but these three conditions *)
  Lemma batch_ok_fixed st b :
    batch_ok true BODY st b =
    once b && idle_last b &&
    (if mux0_unevaluated st then match b with [] => true | _ => writes_to CSS b end else true).
  Proof.
    unfold batch_ok. cbv zeta. change (true || writes_to CSS b) with true. cbv iota. apply andb_true_r.
  Qed.

  (* and every history admissible for the old code is admissible for the repaired one *)
  Lemma batch_ok_old_new st b : batch_ok false BODY st b = true -> batch_ok true BODY st b = true.
  Proof.
    rewrite batch_ok_fixed. unfold batch_ok. cbv zeta. intros H. apply andb_true_iff in H. exact (proj1 H).
  Qed.
End Wiring.

(* ------------------------------------------------------------------ *)
(* The defect repaired by /repo commit bca364a, on the model of the code BEFORE the repair
   (fx = false), and the same histories on the repaired model (fx = true).
   nOS-V constants: ST_TASK_BODY = 11, ST_UNKNOWN_SS = 2, ST_PROGRESSING = 100 *)

(* The emulator's own event sequence  OHx ; VTx ; VTp  (a task paused while "Task: In body"
   is on top of the subsystem stack, as test/emu/nosv/pause.c does): VTp nulls the task type
   without touching the subsystem.  Before the repair mux0 kept forwarding the (now null) task
   type because its select callback hung on the subsystem channel only, and the sort module
   received 0 although select_tr evaluated now would forward the subsystem.  All writes are in
   the order the emulator performs them. *)
Definition wit_pause_in_body : list (list (cin * value)) :=
  [ [(CTT, VNull); (CSS, VNull); (CIDLE, VInt 100)];      (* OHx: the CPU gets a running thread *)
    [(CSS, VInt 11); (CTT, VInt 77)];                      (* VTx: push "Task: In body", task type 77 *)
    [(CTT, VNull)] ].                                      (* VTp: task type := null *)

Lemma wiring_refuted_pause_old :
  exists st', cpu_run false 11 2 100 w_init wit_pause_in_body = Some st' /\
              w_sval st' = 0 /\ bd_of 11 2 100 st' = 11 /\ w_sval st' <> bd_of 11 2 100 st'.
Proof. eexists. split; [vm_compute; reflexivity|]. vm_compute. repeat split; discriminate. Qed.

(* ... and the mirror image: resumed (VTr) after the CPU re-evaluated mux0 with a null task
   type (OHp ; OHr in between): the breakdown kept showing "Task: In body" instead of the type *)
Definition wit_resume_in_body : list (list (cin * value)) :=
  wit_pause_in_body ++
  [ [(CTT, VNull); (CSS, VNull); (CIDLE, VInt 101)];       (* OHp: no running thread, idle default Resting *)
    [(CTT, VNull); (CSS, VInt 11); (CIDLE, VInt 100)];      (* OHr *)
    [(CTT, VInt 77)] ].                                      (* VTr *)

Lemma wiring_refuted_resume_old :
  exists st', cpu_run false 11 2 100 w_init wit_resume_in_body = Some st' /\
              w_sval st' = 11 /\ bd_of 11 2 100 st' = 77.
Proof. eexists. split; [vm_compute; reflexivity|]. vm_compute. split; reflexivity. Qed.

(* The same CPU state (ss = 11, tt = null, idle = 100) was shown as 0 after VTp and as 11 after
   OHp;OHr: the row value was not a function of the CPU's channels. *)
Lemma wiring_history_dependent_old :
  exists h1 h2 s1 s2,
    cpu_run false 11 2 100 w_init h1 = Some s1 /\ cpu_run false 11 2 100 w_init h2 = Some s2 /\
    cin_values s1 = cin_values s2 /\ w_sval s1 <> w_sval s2.
Proof.
  exists wit_pause_in_body,
         (wit_pause_in_body ++ [[(CTT, VNull); (CSS, VNull); (CIDLE, VInt 101)];
                                [(CTT, VNull); (CSS, VInt 11); (CIDLE, VInt 100)]]).
  eexists. eexists. split; [vm_compute; reflexivity|]. split; [vm_compute; reflexivity|].
  vm_compute. split; [reflexivity | discriminate].
Qed.

(* the repaired code on the same two histories: admissible, and the rows are right *)
Lemma wiring_witnesses_fixed :
  history_ok true 11 2 100 w_init wit_resume_in_body = true /\
  (exists st', cpu_run true 11 2 100 w_init wit_pause_in_body = Some st' /\
               w_sval st' = 11 /\ bd_of 11 2 100 st' = 11) /\
  (exists st', cpu_run true 11 2 100 w_init wit_resume_in_body = Some st' /\
               w_sval st' = 77 /\ bd_of 11 2 100 st' = 77).
Proof.
  split; [vm_compute; reflexivity|].
  split; eexists; (split; [vm_compute; reflexivity|]); vm_compute; split; reflexivity.
Qed.

(* The hazard of DESIGN 6.20: were idle to enter the dirty list before the subsystem, tri would
   be handed to the sort module before tr is recomputed.  Not producible by the emulator
   (model_cpu.c connects the channels in enum order, idle last), but it shows that
   [idle_last] in [batch_ok] is needed (repaired code). *)
Lemma wiring_order_needed :
  exists st', cpu_run true 11 2 100 w_init
                [ [(CTT, VNull); (CSS, VInt 6); (CIDLE, VInt 100)];
                  [(CIDLE, VInt 100); (CSS, VInt 7)] ] = Some st' /\
              w_tri st' = VInt 7 /\ w_sval st' = 6 /\ bd_of 11 2 100 st' = 7.
Proof. eexists. split; [vm_compute; reflexivity|]. vm_compute. repeat split. Qed.

(* ... and so is the condition on a CPU whose mux0 never ran: a first batch that only writes
   idle = Progressing makes mux1 forward the still null tr (row 0), where the breakdown value
   of (null, null, Progressing) is "Unknown subsystem".  Not producible by the emulator either
   (the first batch of a CPU is a change of its running thread, which writes all channels). *)
Lemma wiring_first_batch_needed :
  exists st', cpu_run true 11 2 100 w_init [ [(CIDLE, VInt 100)] ] = Some st' /\
              w_sval st' = 0 /\ bd_of 11 2 100 st' = 2.
Proof. eexists. split; [vm_compute; reflexivity|]. vm_compute. repeat split. Qed.

Lemma jump_harmless_sorted a old new :
  Sorted Z.le a -> sort_replace a old new = sort_replace_nojump a old new.
Proof. intros H. apply jump_harmless. now apply sorted_ss. Qed.

(* an event sequence the emulator produces for one CPU and that satisfies batch_ok throughout *)
(* an admissible nOS-V history: OHx; VHw; VTx; VAp; VTp; VTr; VAP; VPr; VPp; VTe *)
Definition ex_history : list (list (cin * value)) :=
  [ [(CTT, VNull); (CSS, VNull); (CIDLE, VInt 100)];
    [(CSS, VInt 28)];
    [(CSS, VInt 11); (CTT, VInt 77)];
    [(CSS, VInt 15)];
    [(CTT, VNull)];
    [(CTT, VInt 77)];
    [(CSS, VInt 11)];
    [(CIDLE, VInt 101)];
    [(CIDLE, VInt 100)];
    [(CSS, VInt 28); (CTT, VNull)] ].
